/-
  Lemmas about the coherence model (`ChalkModel/Coherence.lean`) used by `Props/C19.lean`.
  Core Lean only.
-/
import ChalkModel.Coherence

namespace Chalk.Coherence

/-! ### `tuple_combinations` over `0..n` -/

theorem mem_pairs_range' (s k a b : Nat) :
    (a, b) ∈ pairs (List.range' s k) ↔ s ≤ a ∧ a < b ∧ b < s + k := by
  induction k generalizing s with
  | zero => simp [pairs]; omega
  | succ k ih =>
    simp only [List.range'_succ, pairs, List.mem_append, List.mem_map, Prod.mk.injEq, ih,
      List.mem_range'_1]
    constructor
    · rintro (⟨y, hy, rfl, rfl⟩ | h) <;> omega
    · intro h
      by_cases ha : a = s
      · left; exact ⟨b, by omega, ha.symm, rfl⟩
      · right; omega

theorem mem_pairs_range (n a b : Nat) : (a, b) ∈ pairs (List.range n) ↔ a < b ∧ b < n := by
  rw [List.range_eq_range', mem_pairs_range']; omega

/-! ### `visit_specializations_of_trait` -/

/-- What the loop body does with one pair. -/
inductive Step where
  | skip
  | edge (e : Nat × Nat)
  | err
  deriving DecidableEq

def step (inp : Input) (l r : Nat) : Step :=
  if inp.negative l && inp.negative r then .skip
  else if !(inp.oracle l r).disjoint then
    match (inp.oracle l r).specLR, (inp.oracle l r).specRL with
    | true, false => .edge (l, r)
    | false, true => .edge (r, l)
    | _, _ => .err
  else .skip

def recOf (inp : Input) (p : Nat × Nat) : Option (Nat × Nat) :=
  match step inp p.1 p.2 with
  | .edge e => some e
  | _ => none

theorem visitPairs_cons (inp : Input) (l r : Nat) (rest acc : List (Nat × Nat)) :
    visitPairs inp ((l, r) :: rest) acc =
      match step inp l r with
      | .skip => visitPairs inp rest acc
      | .edge e => visitPairs inp rest (acc ++ [e])
      | .err => none := by
  simp only [visitPairs, step]
  cases inp.negative l && inp.negative r <;> cases (inp.oracle l r).disjoint <;>
    cases (inp.oracle l r).specLR <;> cases (inp.oracle l r).specRL <;> simp

theorem visitPairs_some (inp : Input) :
    ∀ (ps acc out : List (Nat × Nat)), visitPairs inp ps acc = some out →
      (∀ p ∈ ps, step inp p.1 p.2 ≠ .err) ∧ out = acc ++ ps.filterMap (recOf inp) := by
  intro ps
  induction ps with
  | nil => intro acc out h; simp [visitPairs] at h; simp [h]
  | cons p ps ih =>
    intro acc out h
    obtain ⟨l, r⟩ := p
    rw [visitPairs_cons] at h
    cases hs : step inp l r with
    | skip =>
      rw [hs] at h
      obtain ⟨h1, h2⟩ := ih acc out h
      refine ⟨?_, ?_⟩
      · intro q hq
        rcases List.mem_cons.1 hq with rfl | hq
        · simp [hs]
        · exact h1 q hq
      · simp [recOf, hs, h2]
    | edge e =>
      rw [hs] at h
      obtain ⟨h1, h2⟩ := ih (acc ++ [e]) out h
      refine ⟨?_, ?_⟩
      · intro q hq
        rcases List.mem_cons.1 hq with rfl | hq
        · simp [hs]
        · exact h1 q hq
      · simp [recOf, hs, h2]
    | err => rw [hs] at h; simp at h

/-- The recorded specializations of an accepted non-marker trait. -/
theorem visit_some (inp : Input) (recs : List (Nat × Nat)) (hm : inp.marker = false)
    (h : visit inp = some recs) :
    (∀ l r, l < r → r < inp.n → step inp l r ≠ .err) ∧
    (∀ e, e ∈ recs ↔ ∃ l r, l < r ∧ r < inp.n ∧ step inp l r = .edge e) := by
  simp only [visit, hm] at h
  obtain ⟨h1, h2⟩ := visitPairs_some inp _ _ _ h
  refine ⟨?_, ?_⟩
  · intro l r hlr hr
    exact h1 (l, r) ((mem_pairs_range _ _ _).2 ⟨hlr, hr⟩)
  · intro e
    subst h2
    simp only [List.nil_append, List.mem_filterMap]
    constructor
    · rintro ⟨⟨l, r⟩, hp, he⟩
      obtain ⟨hlr, hr⟩ := (mem_pairs_range _ _ _).1 hp
      refine ⟨l, r, hlr, hr, ?_⟩
      simp only [recOf] at he
      cases hs : step inp l r with
      | skip => rw [hs] at he; simp at he
      | edge e' => rw [hs] at he; simp at he; rw [he]
      | err => rw [hs] at he; simp at he
    · rintro ⟨l, r, hlr, hr, hs⟩
      exact ⟨(l, r), (mem_pairs_range _ _ _).2 ⟨hlr, hr⟩, by simp [recOf, hs]⟩

theorem visit_marker (inp : Input) (hm : inp.marker = true) : visit inp = some [] := by
  simp [visit, hm]

/-! ### the graph -/

theorem mem_addNode (g : Graph) (v w : Nat) : w ∈ (g.addNode v).nodes ↔ w ∈ g.nodes ∨ w = v := by
  unfold Graph.addNode
  split
  · constructor
    · exact Or.inl
    · rintro (h | rfl) <;> assumption
  · simp

theorem addNode_edges (g : Graph) (v : Nat) : (g.addNode v).edges = g.edges := by
  unfold Graph.addNode; split <;> rfl

theorem mem_updateEdge (g : Graph) (a b : Nat) (e : Nat × Nat) :
    e ∈ (g.updateEdge a b).edges ↔ e ∈ g.edges ∨ e = (a, b) := by
  unfold Graph.updateEdge
  split
  · constructor
    · exact Or.inl
    · rintro (h | rfl) <;> assumption
  · simp

theorem updateEdge_nodes (g : Graph) (a b : Nat) : (g.updateEdge a b).nodes = g.nodes := by
  unfold Graph.updateEdge; split <;> rfl

theorem mem_record_edges (g : Graph) (x e : Nat × Nat) :
    e ∈ (record g x).edges ↔ e ∈ g.edges ∨ e = x := by
  simp [record, mem_updateEdge, addNode_edges]

theorem mem_record_nodes (g : Graph) (x : Nat × Nat) (v : Nat) :
    v ∈ (record g x).nodes ↔ v ∈ g.nodes ∨ v = x.1 ∨ v = x.2 := by
  simp [record, updateEdge_nodes, mem_addNode, or_assoc]

theorem mem_foldl_record_edges (recs : List (Nat × Nat)) (g : Graph) (e : Nat × Nat) :
    e ∈ (recs.foldl record g).edges ↔ e ∈ g.edges ∨ e ∈ recs := by
  induction recs generalizing g with
  | nil => simp
  | cons x xs ih =>
    simp only [List.foldl_cons, ih, mem_record_edges, List.mem_cons]
    constructor
    · rintro ((h | h) | h) <;> simp [h]
    · rintro (h | h | h) <;> simp [h]

theorem mem_foldl_record_nodes (recs : List (Nat × Nat)) (g : Graph) (v : Nat) :
    v ∈ (recs.foldl record g).nodes ↔ v ∈ g.nodes ∨ ∃ e ∈ recs, v = e.1 ∨ v = e.2 := by
  induction recs generalizing g with
  | nil => simp
  | cons x xs ih =>
    simp only [List.foldl_cons, ih, mem_record_nodes, List.mem_cons]
    constructor
    · rintro ((h | h) | ⟨e, he, h⟩)
      · exact Or.inl h
      · exact Or.inr ⟨x, Or.inl rfl, h⟩
      · exact Or.inr ⟨e, Or.inr he, h⟩
    · rintro (h | ⟨e, rfl | he, h⟩)
      · exact Or.inl (Or.inl h)
      · exact Or.inl (Or.inr h)
      · exact Or.inr ⟨e, he, h⟩

/-- Both ends of every edge are nodes. -/
def Graph.Closed (g : Graph) : Prop := ∀ a b, (a, b) ∈ g.edges → a ∈ g.nodes ∧ b ∈ g.nodes

theorem buildForest_some (inp : Input) (g : Graph) (h : buildForest inp = some g) :
    ∃ recs, visit inp = some recs ∧ (∀ e, e ∈ g.edges ↔ e ∈ recs) ∧
      (∀ v, v ∈ g.nodes ↔ ∃ e ∈ recs, v = e.1 ∨ v = e.2) := by
  simp only [buildForest] at h
  cases hv : visit inp with
  | none => rw [hv] at h; simp at h
  | some recs =>
    rw [hv] at h
    simp only [Option.some.injEq] at h
    subst h
    refine ⟨recs, rfl, ?_, ?_⟩
    · intro e; simp [mem_foldl_record_edges, Graph.empty]
    · intro v; simp [mem_foldl_record_nodes, Graph.empty]

theorem buildForest_closed (inp : Input) (g : Graph) (h : buildForest inp = some g) : g.Closed := by
  obtain ⟨recs, _, he, hn⟩ := buildForest_some inp g h
  intro a b hab
  have := (he (a, b)).1 hab
  exact ⟨(hn a).2 ⟨(a, b), this, Or.inl rfl⟩, (hn b).2 ⟨(a, b), this, Or.inr rfl⟩⟩

theorem mem_neighbors (g : Graph) (u y : Nat) : y ∈ g.neighbors u ↔ (u, y) ∈ g.edges := by
  simp only [Graph.neighbors, List.mem_reverse, List.mem_map, List.mem_filter, beq_iff_eq]
  constructor
  · rintro ⟨⟨a, b⟩, ⟨h1, h2⟩, h3⟩
    simp only at h2 h3
    subst h2 h3
    exact h1
  · intro h
    exact ⟨(u, y), ⟨h, rfl⟩, rfl⟩

theorem mem_externals (g : Graph) (r : Nat) :
    r ∈ g.externalsIncoming ↔ r ∈ g.nodes ∧ ∀ a, (a, r) ∉ g.edges := by
  simp only [Graph.externalsIncoming, List.mem_filter, Bool.not_eq_true', List.any_eq_false,
    beq_iff_eq]
  constructor
  · rintro ⟨h1, h2⟩
    exact ⟨h1, fun a ha => h2 (a, r) ha rfl⟩
  · rintro ⟨h1, h2⟩
    refine ⟨h1, ?_⟩
    rintro ⟨a, b⟩ hab hb
    simp only at hb
    subst hb
    exact h2 a hab

/-! ### the priority map -/

theorem PMap.insert_spec (m : PMap) (k p : Nat) :
    (∀ i, i ≠ k → (PMap.insert m k p).1.get? i = m.get? i) ∧
    ((PMap.insert m k p).2 = false → (PMap.insert m k p).1 = m ∧ ∃ v, m.get? k = some v ∧ p ≤ v) ∧
    ((PMap.insert m k p).2 = true →
      (PMap.insert m k p).1.get? k = some p ∧ ∀ v, m.get? k = some v → v < p) := by
  induction m with
  | nil =>
    refine ⟨?_, ?_, ?_⟩
    · intro i hi; simp [PMap.insert, PMap.get?, Ne.symm hi]
    · simp [PMap.insert]
    · simp [PMap.insert, PMap.get?]
  | cons e m ih =>
    obtain ⟨k', v⟩ := e
    obtain ⟨ih1, ih2, ih3⟩ := ih
    by_cases hk : k' = k
    · subst hk
      by_cases hv : v ≥ p
      · refine ⟨?_, ?_, ?_⟩
        · intro i hi; simp [PMap.insert, hv]
        · intro _; simp [PMap.insert, hv, PMap.get?]
        · simp [PMap.insert, hv]
      · refine ⟨?_, ?_, ?_⟩
        · intro i hi; simp [PMap.insert, hv, PMap.get?, Ne.symm hi]
        · simp [PMap.insert, hv]
        · intro _; simp [PMap.insert, hv, PMap.get?]; omega
    · refine ⟨?_, ?_, ?_⟩
      · intro i hi
        simp only [PMap.insert, hk, if_false, PMap.get?]
        by_cases hki : k' = i
        · simp [hki]
        · simp [hki, ih1 i hi]
      · intro hb
        simp only [PMap.insert, hk, if_false] at hb ⊢
        obtain ⟨e1, e2⟩ := ih2 hb
        simp [e1, PMap.get?, hk, e2]
      · intro hb
        simp only [PMap.insert, hk, if_false] at hb ⊢
        obtain ⟨e1, e2⟩ := ih3 hb
        simp [PMap.get?, hk, e1]
        exact e2

/-- `m'` has every entry of `m`, with the same or a higher priority. -/
def Le (m m' : PMap) : Prop := ∀ i v, m.get? i = some v → ∃ v', m'.get? i = some v' ∧ v ≤ v'

theorem Le.refl (m : PMap) : Le m m := fun _ v h => ⟨v, h, Nat.le_refl _⟩

theorem Le.trans {a b c : PMap} (h1 : Le a b) (h2 : Le b c) : Le a c := by
  intro i v h
  obtain ⟨v', h', hle⟩ := h1 i v h
  obtain ⟨v'', h'', hle'⟩ := h2 i v' h'
  exact ⟨v'', h'', Nat.le_trans hle hle'⟩

/-- The edge `x → y` is respected by `m`: if `x` has a priority, `y` has a higher one. -/
def Good (m : PMap) (x y : Nat) : Prop :=
  ∀ vx, m.get? x = some vx → ∃ vy, m.get? y = some vy ∧ vx < vy

/-- Every edge is respected afterwards, or was violated before at an untouched source. -/
def EdgesKept (g : Graph) (m m' : PMap) : Prop :=
  ∀ x y, (x, y) ∈ g.edges → Good m' x y ∨ (¬ Good m x y ∧ m'.get? x = m.get? x)

/-- Postcondition of `set_priorities(u, _, p, map)` returning `Ok`. -/
def Post (g : Graph) (m m' : PMap) (u p : Nat) : Prop :=
  Le m m' ∧ (∃ v, m'.get? u = some v ∧ p ≤ v) ∧ EdgesKept g m m'

/-- Postcondition of the loop `for c in cs { set_priorities(c, _, q, map)? }`. -/
def LoopPost (g : Graph) (m m' : PMap) (cs : List Nat) (q : Nat) : Prop :=
  Le m m' ∧ (∀ c ∈ cs, ∃ v, m'.get? c = some v ∧ q ≤ v) ∧ EdgesKept g m m'

theorem EdgesKept.refl (g : Graph) (m : PMap) : EdgesKept g m m := by
  intro x y _
  by_cases h : Good m x y
  · exact Or.inl h
  · exact Or.inr ⟨h, rfl⟩

theorem EdgesKept.trans {g : Graph} {a b c : PMap} (h1 : EdgesKept g a b) (h2 : EdgesKept g b c) :
    EdgesKept g a c := by
  intro x y hxy
  rcases h2 x y hxy with h | ⟨hb, hc⟩
  · exact Or.inl h
  · rcases h1 x y hxy with h | ⟨ha, hb'⟩
    · exact absurd h hb
    · exact Or.inr ⟨ha, hc.trans hb'⟩

theorem forEach_post (g : Graph) (f : Nat → PMap → Res PMap) (q : Nat)
    (hf : ∀ c m a, f c m = .ok a → Post g m a c q) :
    ∀ (cs : List Nat) (m m' : PMap), forEach f cs m = .ok m' → LoopPost g m m' cs q := by
  intro cs
  induction cs with
  | nil =>
    intro m m' h
    simp only [forEach, Res.ok.injEq] at h
    subst h
    exact ⟨Le.refl _, by simp, EdgesKept.refl _ _⟩
  | cons c cs ih =>
    intro m m' h
    simp only [forEach] at h
    cases hc : f c m with
    | ok m2 =>
      rw [hc] at h
      obtain ⟨l1, ⟨v, hv, hqv⟩, k1⟩ := hf c m m2 hc
      obtain ⟨l2, p2, k2⟩ := ih m2 m' h
      refine ⟨l1.trans l2, ?_, k1.trans k2⟩
      intro c' hc'
      rcases List.mem_cons.1 hc' with rfl | hc'
      · obtain ⟨v', hv', hle⟩ := l2 _ v hv
        exact ⟨v', hv', Nat.le_trans hqv hle⟩
      · exact p2 c' hc'
    | overlap => rw [hc] at h; simp at h
    | panic => rw [hc] at h; simp at h

theorem setPriorities_post (g : Graph) :
    ∀ (d u p : Nat) (m m' : PMap), setPriorities g d u p m = .ok m' → Post g m m' u p := by
  intro d
  induction d with
  | zero => intro u p m m' h; simp [setPriorities] at h
  | succ d ih =>
    intro u p m m' h
    simp only [setPriorities] at h
    split at h
    · obtain ⟨s1, s2, s3⟩ := PMap.insert_spec m u p
      generalize hr : PMap.insert m u p = r at h s1 s2 s3
      obtain ⟨m1, b⟩ := r
      cases b with
      | false =>
        simp only [Res.ok.injEq] at h
        subst h
        obtain ⟨e1, v, hv, hpv⟩ := s2 rfl
        simp only at e1
        subst e1
        exact ⟨Le.refl _, ⟨v, hv, hpv⟩, EdgesKept.refl _ _⟩
      | true =>
        simp only at h s1 s3
        obtain ⟨e1, e2⟩ := s3 trivial
        obtain ⟨l2, p2, k2⟩ :=
          forEach_post g _ (p + 1) (fun c m a hc => ih c (p + 1) m a hc) _ _ _ h
        have l1 : Le m m1 := by
          intro i v hv
          by_cases hi : i = u
          · subst hi
            exact ⟨p, e1, Nat.le_of_lt (e2 v hv)⟩
          · exact ⟨v, by rw [s1 i hi]; exact hv, Nat.le_refl _⟩
        refine ⟨l1.trans l2, ?_, ?_⟩
        · obtain ⟨v', hv', hle⟩ := l2 u p e1
          exact ⟨v', hv', hle⟩
        · intro x y hxy
          rcases k2 x y hxy with hgood | ⟨hbad, hsame⟩
          · exact Or.inl hgood
          · by_cases hx : x = u
            · subst hx
              left
              intro vx hvx
              rw [hsame, e1] at hvx
              obtain ⟨vy, hvy, hle⟩ := p2 y ((mem_neighbors g x y).2 hxy)
              refine ⟨vy, hvy, ?_⟩
              simp only [Option.some.injEq] at hvx
              omega
            · right
              refine ⟨?_, by rw [hsame, s1 x hx]⟩
              intro hg
              apply hbad
              intro vx hvx
              rw [s1 x hx] at hvx
              obtain ⟨vy, hvy, hlt⟩ := hg vx hvx
              obtain ⟨vy', hvy', hle⟩ := l1 y vy hvy
              exact ⟨vy', hvy', Nat.lt_of_lt_of_le hlt hle⟩
    · simp at h

/-! ### no panic -/

theorem forEach_ne_panic (f : Nat → PMap → Res PMap) :
    ∀ (cs : List Nat) (m : PMap), (∀ c ∈ cs, ∀ m, f c m ≠ .panic) → forEach f cs m ≠ .panic := by
  intro cs
  induction cs with
  | nil => intro m _; simp [forEach]
  | cons c cs ih =>
    intro m hf
    simp only [forEach]
    cases hc : f c m with
    | ok m2 => exact ih m2 (fun c' hc' => hf c' (List.mem_cons_of_mem _ hc'))
    | overlap => simp
    | panic => exact absurd hc (hf c (List.mem_cons_self ..) m)

theorem setPriorities_ne_panic (g : Graph) (hg : g.Closed) :
    ∀ (d u p : Nat) (m : PMap), u ∈ g.nodes → setPriorities g d u p m ≠ .panic := by
  intro d
  induction d with
  | zero => intro u p m _; simp [setPriorities]
  | succ d ih =>
    intro u p m hu
    simp only [setPriorities, hu, if_true]
    generalize PMap.insert m u p = r
    obtain ⟨m1, b⟩ := r
    cases b with
    | false => simp
    | true =>
      simp only
      apply forEach_ne_panic
      intro c hc m'
      exact ih c (p + 1) m' (hg u c ((mem_neighbors g u c).1 hc)).2

theorem specializationPriorities_ne_panic (inp : Input) : specializationPriorities inp ≠ .panic := by
  simp only [specializationPriorities]
  cases hb : buildForest inp with
  | none => simp
  | some g =>
    simp only
    apply forEach_ne_panic
    intro r hr m
    exact setPriorities_ne_panic g (buildForest_closed inp g hb) _ r 0 m ((mem_externals g r).1 hr).1

/-! ### accepted priorities respect every recorded specialization -/

theorem get?_nil (i : Nat) : PMap.get? [] i = none := rfl

theorem specializationPriorities_ok (inp : Input) (pm : PMap)
    (h : specializationPriorities inp = .ok pm) :
    ∃ g, buildForest inp = some g ∧
      (∀ r ∈ g.externalsIncoming, ∃ v, pm.get? r = some v) ∧
      (∀ x y, (x, y) ∈ g.edges → Good pm x y) := by
  simp only [specializationPriorities] at h
  cases hb : buildForest inp with
  | none => rw [hb] at h; simp at h
  | some g =>
    rw [hb] at h
    simp only at h
    obtain ⟨_, p2, k2⟩ :=
      forEach_post g _ 0 (fun c m a hc => setPriorities_post g _ c 0 m a hc) _ _ _ h
    refine ⟨g, rfl, ?_, ?_⟩
    · intro r hr
      obtain ⟨v, hv, _⟩ := p2 r hr
      exact ⟨v, hv⟩
    · intro x y hxy
      rcases k2 x y hxy with hgood | ⟨hbad, _⟩
      · exact hgood
      · exact absurd (fun vx hvx => by simp [get?_nil] at hvx) hbad

/-! ### counting: a finite strict order has a maximal element above every element -/

theorem filter_length_le {α : Type} (l : List α) (p q : α → Bool) (h : ∀ x ∈ l, p x = true → q x = true) :
    (l.filter p).length ≤ (l.filter q).length := by
  induction l with
  | nil => simp
  | cons a l ih =>
    have ih' := ih (fun x hx => h x (List.mem_cons_of_mem _ hx))
    have ha := h a (List.mem_cons_self ..)
    simp only [List.filter_cons]
    cases hp : p a <;> cases hq : q a <;> simp_all <;> omega

theorem filter_length_lt {α : Type} (l : List α) (p q : α → Bool) (h : ∀ x ∈ l, p x = true → q x = true)
    (w : α) (hw : w ∈ l) (hqw : q w = true) (hpw : p w = false) :
    (l.filter p).length < (l.filter q).length := by
  induction l with
  | nil => simp at hw
  | cons a l ih =>
    have hle := filter_length_le l p q (fun x hx => h x (List.mem_cons_of_mem _ hx))
    have ha := h a (List.mem_cons_self ..)
    simp only [List.filter_cons]
    rcases List.mem_cons.1 hw with rfl | hw'
    · simp [hqw, hpw]; omega
    · have ih' := ih (fun x hx => h x (List.mem_cons_of_mem _ hx)) hw'
      cases hp : p a <;> cases hq : q a <;> simp_all <;> omega

open Classical in
/-- number of `k < n` that are strictly above `v` -/
noncomputable def above (R : Nat → Nat → Prop) (n v : Nat) : Nat :=
  ((List.range n).filter (fun k => decide (R k v))).length

theorem above_lt (R : Nat → Nat → Prop) (n : Nat) (irrefl : ∀ a, ¬ R a a)
    (trans : ∀ a b c, R a b → R b c → R a c) (k v : Nat) (hk : k < n) (hkv : R k v) :
    above R n k < above R n v := by
  unfold above
  apply filter_length_lt _ _ _ _ k (List.mem_range.2 hk)
  · simp [hkv]
  · simp [irrefl k]
  · intro x _ hx
    simp only [decide_eq_true_eq] at hx ⊢
    exact trans _ _ _ hx hkv

/-- If every edge goes down a strict order on `0..n`, the roots have priorities and all edges are
    respected, then every node has a priority. -/
theorem all_nodes_present (g : Graph) (pm : PMap) (n : Nat) (R : Nat → Nat → Prop)
    (irrefl : ∀ a, ¬ R a a) (trans : ∀ a b c, R a b → R b c → R a c)
    (hE : ∀ a b, (a, b) ∈ g.edges → R a b ∧ a < n) (hc : g.Closed)
    (hroots : ∀ r ∈ g.externalsIncoming, ∃ v, pm.get? r = some v)
    (hgood : ∀ x y, (x, y) ∈ g.edges → Good pm x y) :
    ∀ v ∈ g.nodes, ∃ p, pm.get? v = some p := by
  suffices H : ∀ c v, above R n v < c → v ∈ g.nodes → ∃ p, pm.get? v = some p from
    fun v hv => H _ v (Nat.lt_succ_self _) hv
  intro c
  induction c with
  | zero => intro v h; omega
  | succ c ih =>
    intro v hlt hv
    by_cases hr : v ∈ g.externalsIncoming
    · exact hroots v hr
    · have : ∃ a, (a, v) ∈ g.edges := by
        apply Classical.byContradiction
        intro hno
        exact hr ((mem_externals g v).2 ⟨hv, fun a ha => hno ⟨a, ha⟩⟩)
      obtain ⟨a, ha⟩ := this
      obtain ⟨hRa, han⟩ := hE a v ha
      have hlt' := above_lt R n irrefl trans a v han hRa
      obtain ⟨pa, hpa⟩ := ih a (by omega) (hc a v ha).1
      obtain ⟨pv, hpv, _⟩ := hgood a v ha pa hpa
      exact ⟨pv, hpv⟩

/-! ### the set-theoretic oracle -/

section SetOracle
variable {τ : Type}

/-- `A` is a strict subset of `B` (sets of trait references as predicates). -/
def StrictSub (A B : τ → Prop) : Prop := (∀ x, A x → B x) ∧ ∃ x, B x ∧ ¬ A x

/-- `A` and `B` have a common element. -/
def Overlap (A B : τ → Prop) : Prop := ∃ x, A x ∧ B x

/-- Impl `i` applies exactly to the trait references in `S i`, and the solver answers are the
    set-theoretic ones: `disjoint` = empty intersection, `specializes(less, more)` = the trait
    references of `more` are a strict subset of those of `less`. -/
structure SetOracle (S : Nat → τ → Prop) (inp : Input) : Prop where
  disjoint_iff : ∀ l r, l < r → r < inp.n →
    ((inp.oracle l r).disjoint = true ↔ ¬ Overlap (S l) (S r))
  specLR_iff : ∀ l r, l < r → r < inp.n →
    ((inp.oracle l r).specLR = true ↔ StrictSub (S r) (S l))
  specRL_iff : ∀ l r, l < r → r < inp.n →
    ((inp.oracle l r).specRL = true ↔ StrictSub (S l) (S r))

theorem StrictSub.irrefl (A : τ → Prop) : ¬ StrictSub A A := by
  rintro ⟨_, x, h1, h2⟩; exact h2 h1

theorem StrictSub.trans {A B C : τ → Prop} (h1 : StrictSub A B) (h2 : StrictSub B C) :
    StrictSub A C := by
  obtain ⟨s1, x, hx1, hx2⟩ := h1
  obtain ⟨s2, _⟩ := h2
  exact ⟨fun y hy => s2 y (s1 y hy), x, s2 x hx1, hx2⟩

theorem StrictSub.asymm {A B : τ → Prop} (h1 : StrictSub A B) : ¬ StrictSub B A := by
  intro h2; exact StrictSub.irrefl A (h1.trans h2)

theorem Overlap.symm {A B : τ → Prop} (h : Overlap A B) : Overlap B A := by
  obtain ⟨x, h1, h2⟩ := h; exact ⟨x, h2, h1⟩

/-- A recorded specialization goes from a set to a strict subset of it. -/
theorem step_edge_sub (S : Nat → τ → Prop) (inp : Input) (hS : SetOracle S inp) (l r : Nat)
    (hlr : l < r) (hr : r < inp.n) (e : Nat × Nat) (h : step inp l r = .edge e) :
    (e = (l, r) ∧ StrictSub (S r) (S l)) ∨ (e = (r, l) ∧ StrictSub (S l) (S r)) := by
  have h1 := hS.specLR_iff l r hlr hr
  have h2 := hS.specRL_iff l r hlr hr
  unfold step at h
  split at h
  · simp at h
  · split at h
    · split at h
      · next hlr' _ =>
        simp only [Step.edge.injEq] at h
        exact Or.inl ⟨h.symm, h1.1 hlr'⟩
      · next _ hrl' =>
        simp only [Step.edge.injEq] at h
        exact Or.inr ⟨h.symm, h2.1 hrl'⟩
      · simp at h
    · simp at h

/-- Two overlapping impls (not both negative) of an accepted trait are linked by a recorded
    specialization, and it points from the larger set to the smaller one. -/
theorem step_of_overlap (S : Nat → τ → Prop) (inp : Input) (hS : SetOracle S inp) (l r : Nat)
    (hlr : l < r) (hr : r < inp.n) (hneg : ¬ (inp.negative l = true ∧ inp.negative r = true))
    (hov : Overlap (S l) (S r)) (hne : step inp l r ≠ .err) :
    (step inp l r = .edge (l, r) ∨ step inp l r = .edge (r, l)) ∧
    (StrictSub (S r) (S l) → step inp l r = .edge (l, r)) ∧
    (StrictSub (S l) (S r) → step inp l r = .edge (r, l)) := by
  have h0 := hS.disjoint_iff l r hlr hr
  have h1 := hS.specLR_iff l r hlr hr
  have h2 := hS.specRL_iff l r hlr hr
  have hd : (inp.oracle l r).disjoint = false := by
    cases hd : (inp.oracle l r).disjoint with
    | false => rfl
    | true => exact absurd hov (h0.1 hd)
  have hn : (inp.negative l && inp.negative r) = false := by
    cases hl : inp.negative l <;> cases hr' : inp.negative r <;> simp_all
  unfold step at hne ⊢
  simp only [hn, hd, Bool.false_eq_true, if_false, Bool.not_false, if_true] at hne ⊢
  cases hlr' : (inp.oracle l r).specLR <;> cases hrl' : (inp.oracle l r).specRL <;>
    simp only [hlr', hrl'] at hne ⊢
  · exact absurd rfl hne
  · refine ⟨Or.inr trivial, ?_, fun _ => trivial⟩
    intro hs
    have := h1.2 hs
    simp [hlr'] at this
  · refine ⟨Or.inl trivial, fun _ => trivial, ?_⟩
    intro hs
    have := h2.2 hs
    simp [hrl'] at this
  · exact absurd rfl hne

/-- Core of `priorities_consistent`: for an accepted non-marker trait under the set-theoretic
    oracle, two overlapping impls that are not both negative both have a priority, the priorities
    differ, and the impl with the strictly smaller set has the higher one. -/
theorem overlap_priorities (S : Nat → τ → Prop) (inp : Input) (pm : PMap) (hS : SetOracle S inp)
    (hm : inp.marker = false) (h : specializationPriorities inp = .ok pm)
    (a b : Nat) (ha : a < inp.n) (hb : b < inp.n) (hab : a ≠ b)
    (hneg : ¬ (inp.negative a = true ∧ inp.negative b = true)) (hov : Overlap (S a) (S b)) :
    ∃ pa pb, pm.get? a = some pa ∧ pm.get? b = some pb ∧ pa ≠ pb ∧
      (StrictSub (S b) (S a) → pa < pb) := by
  obtain ⟨g, hb', hroots, hgood⟩ := specializationPriorities_ok inp pm h
  obtain ⟨recs, hv, hedges, _⟩ := buildForest_some inp g hb'
  obtain ⟨hnoerr, hrecs⟩ := visit_some inp recs hm hv
  have hclosed := buildForest_closed inp g hb'
  -- every edge goes from a set to a strict subset
  have hE : ∀ x y, (x, y) ∈ g.edges → StrictSub (S y) (S x) ∧ x < inp.n := by
    intro x y hxy
    obtain ⟨l, r, hlr, hr, hs⟩ := (hrecs (x, y)).1 ((hedges (x, y)).1 hxy)
    rcases step_edge_sub S inp hS l r hlr hr (x, y) hs with ⟨he, hsub⟩ | ⟨he, hsub⟩
    · simp only [Prod.mk.injEq] at he
      obtain ⟨rfl, rfl⟩ := he
      exact ⟨hsub, by omega⟩
    · simp only [Prod.mk.injEq] at he
      obtain ⟨rfl, rfl⟩ := he
      exact ⟨hsub, hr⟩
  have hall := all_nodes_present g pm inp.n (fun x y => StrictSub (S y) (S x))
    (fun x => StrictSub.irrefl (S x)) (fun _ _ _ h1 h2 => StrictSub.trans h2 h1) hE hclosed
    hroots hgood
  -- an edge gives both priorities, strictly increasing
  have hedge : ∀ x y, (x, y) ∈ g.edges →
      ∃ px py, pm.get? x = some px ∧ pm.get? y = some py ∧ px < py := by
    intro x y hxy
    obtain ⟨px, hpx⟩ := hall x (hclosed x y hxy).1
    obtain ⟨py, hpy, hlt⟩ := hgood x y hxy px hpx
    exact ⟨px, py, hpx, hpy, hlt⟩
  have hmem : ∀ l r e, l < r → r < inp.n → step inp l r = .edge e → e ∈ g.edges :=
    fun l r e hlr hr hs => (hedges e).2 ((hrecs e).2 ⟨l, r, hlr, hr, hs⟩)
  rcases Nat.lt_or_gt_of_ne hab with hlt | hgt
  · obtain ⟨h1, h2, h3⟩ := step_of_overlap S inp hS a b hlt hb hneg hov (hnoerr a b hlt hb)
    rcases h1 with h1 | h1
    · obtain ⟨px, py, hpx, hpy, hl⟩ := hedge a b (hmem a b _ hlt hb h1)
      exact ⟨px, py, hpx, hpy, by omega, fun _ => hl⟩
    · obtain ⟨px, py, hpx, hpy, hl⟩ := hedge b a (hmem a b _ hlt hb h1)
      refine ⟨py, px, hpy, hpx, by omega, ?_⟩
      intro hs
      have := h2 hs
      rw [h1] at this
      simp only [Step.edge.injEq, Prod.mk.injEq] at this
      omega
  · have hneg' : ¬ (inp.negative b = true ∧ inp.negative a = true) := fun ⟨x, y⟩ => hneg ⟨y, x⟩
    obtain ⟨h1, h2, h3⟩ := step_of_overlap S inp hS b a hgt ha hneg' hov.symm (hnoerr b a hgt ha)
    rcases h1 with h1 | h1
    · obtain ⟨px, py, hpx, hpy, hl⟩ := hedge b a (hmem b a _ hgt ha h1)
      refine ⟨py, px, hpy, hpx, by omega, ?_⟩
      intro hs
      have := h3 hs
      rw [h1] at this
      simp only [Step.edge.injEq, Prod.mk.injEq] at this
      omega
    · obtain ⟨px, py, hpx, hpy, hl⟩ := hedge a b (hmem b a _ hgt ha h1)
      exact ⟨px, py, hpx, hpy, by omega, fun _ => hl⟩

end SetOracle

end Chalk.Coherence
