/-
  Helper lemmas for C27: exact final states of the in-place and the fallback path of
  `fallibleMapVec`, by induction over the loops, for every list of elements and every callback.
-/
import ChalkModel.InPlace

namespace Chalk.InPlace

/-! ### lists -/

def deadOf (xs : List Nat) : List Slot := xs.map (fun _ => Slot.dropped)
def movedOf (xs : List Nat) : List Slot := xs.map (fun _ => Slot.moved)
/-- log entries of destructor runs on `xs` at type `ty`: none if the type has no drop glue -/
def logOf (lay : Layout) (ty : ElemTy) (t : Tag) (xs : List Nat) : Log :=
  if lay.glue ty then xs.map (fun x => (x, t)) else []

@[simp] theorem logOf_nil (lay : Layout) (ty : ElemTy) (t : Tag) : logOf lay ty t [] = [] := by
  simp [logOf]

@[simp] theorem logOf_append (lay : Layout) (ty : ElemTy) (t : Tag) (a b : List Nat) :
    logOf lay ty t (a ++ b) = logOf lay ty t a ++ logOf lay ty t b := by
  unfold logOf; split <;> simp

theorem logOf_cons (lay : Layout) (ty : ElemTy) (t : Tag) (x : Nat) (xs : List Nat) :
    logOf lay ty t (x :: xs) = logOf lay ty t [x] ++ logOf lay ty t xs := by
  unfold logOf; split <;> simp

theorem logDrop_eq (lay : Layout) (ty : ElemTy) (id : Nat) (t : Tag) (log : Log) :
    lay.logDrop ty id t log = log ++ logOf lay ty t [id] := by
  unfold Layout.logDrop logOf; split <;> simp

@[simp] theorem deadOf_length (xs : List Nat) : (deadOf xs).length = xs.length := by simp [deadOf]
@[simp] theorem movedOf_length (xs : List Nat) : (movedOf xs).length = xs.length := by simp [movedOf]

/-! ### primitive steps at the end of a known prefix -/

theorem read_at (pre : List Slot) (x : Nat) (tail : List Slot) :
    (Region.mk (pre ++ .liveT x :: tail) .owned).read pre.length
      = .ok (x, ⟨pre ++ .moved :: tail, .owned⟩) := by
  simp [Region.read]

theorem write_at (pre : List Slot) (s : Slot) (u : Nat) (tail : List Slot) :
    (Region.mk (pre ++ s :: tail) .owned).write pre.length u
      = .ok ⟨pre ++ .liveU u :: tail, .owned⟩ := by
  simp [Region.write]

theorem drop_at (lay : Layout) (ty : ElemTy) (pre : List Slot) (x : Nat) (tail : List Slot) (log : Log) :
    (Region.mk (pre ++ ty.live x :: tail) .owned).dropInPlace lay ty pre.length log
      = .ok (⟨pre ++ .dropped :: tail, .owned⟩, log ++ logOf lay ty ty.tag [x]) := by
  cases ty <;> simp [Region.dropInPlace, ElemTy.live, ElemTy.tag, logDrop_eq]

/-- a `drop_in_place` loop over a run of live slots of the right type drops each of them once, in order -/
theorem dropRange_run (lay : Layout) (ty : ElemTy) (xs : List Nat) :
    ∀ (pre tail : List Slot) (log : Log),
      dropRange lay ty xs.length pre.length ⟨pre ++ xs.map ty.live ++ tail, .owned⟩ log
        = .ok (⟨pre ++ deadOf xs ++ tail, .owned⟩, log ++ logOf lay ty ty.tag xs) := by
  induction xs with
  | nil => intro pre tail log; simp [dropRange, deadOf]
  | cons x xs ih =>
    intro pre tail log
    have h1 : pre ++ (x :: xs).map ty.live ++ tail = pre ++ ty.live x :: (xs.map ty.live ++ tail) := by
      simp
    have h2 := ih (pre ++ [Slot.dropped]) tail (log ++ logOf lay ty ty.tag [x])
    simp only [List.length_append, List.length_cons, List.length_nil, Nat.zero_add] at h2
    simp only [List.length_cons, dropRange, h1, drop_at]
    have h3 : pre ++ Slot.dropped :: (xs.map ty.live ++ tail)
        = pre ++ [Slot.dropped] ++ xs.map ty.live ++ tail := by simp
    rw [h3, h2]
    simp [deadOf, logOf_cons lay ty ty.tag x xs]

/-! ### the callback's answers -/

theorem Oks.length_eq {cb : Callback} : ∀ {i : Nat} {xs us : List Nat}, Oks cb i xs us → xs.length = us.length
  | _, [], [], _ => rfl
  | _, [], _ :: _, h => by simp [Oks] at h
  | _, _ :: _, [], h => by simp [Oks] at h
  | _, _ :: _, _ :: _, h => by
    simp only [Oks] at h
    simp [Oks.length_eq h.2]

/-- every run of a callback over a list either answers `ok` everywhere or has a first failure -/
theorem oks_or_first_failure (cb : Callback) : ∀ (i : Nat) (xs : List Nat),
    (∃ us, Oks cb i xs us) ∨
    (∃ pre x post us mode, xs = pre ++ x :: post ∧ Oks cb i pre us ∧ cb (i + pre.length) x = FailMode.out mode)
  | _, [] => .inl ⟨[], trivial⟩
  | i, x :: xs => by
    cases hx : cb i x with
    | ok u =>
      rcases oks_or_first_failure cb (i + 1) xs with ⟨us, h⟩ | ⟨pre, y, post, us, mode, he, ho, hc⟩
      · exact .inl ⟨u :: us, hx, h⟩
      · refine .inr ⟨x :: pre, y, post, u :: us, mode, by simp [he], ⟨hx, ho⟩, ?_⟩
        simpa [Nat.add_assoc, Nat.add_comm 1] using hc
    | err => exact .inr ⟨[], x, xs, [], .err, rfl, trivial, by simpa [FailMode.out] using hx⟩
    | panic => exact .inr ⟨[], x, xs, [], .panic, rfl, trivial, by simpa [FailMode.out] using hx⟩

/-! ### in-place path -/

theorem mapLoop_ok (lay : Layout) (cb : Callback) : ∀ (rest done us : List Nat) (g : Guard) (log : Log),
    Oks cb done.length rest us →
    mapLoop lay cb rest.length done.length g ⟨done.map .liveU ++ rest.map .liveT, .owned⟩ log
      = .fin .ok ⟨⟨(done ++ us).map .liveU, .owned⟩, none, log⟩
  | [], done, [], g, log, _ => by simp [mapLoop]
  | [], _, _ :: _, _, _, h => by simp [Oks] at h
  | _ :: _, _, [], _, _, h => by simp [Oks] at h
  | x :: rest, done, u :: us, g, log, h => by
    simp only [Oks] at h
    have hl : (done.map Slot.liveU).length = done.length := by simp
    have hr := read_at (done.map .liveU) x (rest.map .liveT)
    have hw := write_at (done.map .liveU) .moved u (rest.map .liveT)
    rw [hl] at hr hw
    have ih := mapLoop_ok lay cb rest (done ++ [u]) us { g with mapInProgress := done.length } log
      (by simpa using h.2)
    simp only [List.length_append, List.length_cons, List.length_nil, Nat.zero_add] at ih
    simp only [List.length_cons, List.map_cons, mapLoop, hr, h.1, hw]
    have e1 : done.map Slot.liveU ++ Slot.liveU u :: rest.map Slot.liveT
        = (done ++ [u]).map Slot.liveU ++ rest.map Slot.liveT := by simp
    rw [e1, ih]
    simp

theorem guardDrop_spec (lay : Layout) (done post : List Nat) (log : Log) (len : Nat)
    (hlen : len = done.length + 1 + post.length) :
    guardDrop lay ⟨len, done.length⟩ ⟨done.map .liveU ++ .moved :: post.map .liveT, .owned⟩ log
      = .ok (⟨deadOf done ++ .moved :: deadOf post, .freed⟩, log ++ logOf lay .U .U done ++ logOf lay .T .T post) := by
  have h1 := dropRange_run lay .U done [] (.moved :: post.map .liveT) log
  simp only [List.nil_append, List.length_nil, ElemTy.live, ElemTy.tag] at h1
  have h2 := dropRange_run lay .T post (deadOf done ++ [.moved]) [] (log ++ logOf lay .U .U done)
  simp only [List.append_nil, List.length_append, deadOf_length, List.length_cons, List.length_nil,
    Nat.zero_add, ElemTy.live, ElemTy.tag] at h2
  have e : len - (done.length + 1) = post.length := by omega
  have e2 : deadOf done ++ Slot.moved :: post.map Slot.liveT
      = deadOf done ++ [Slot.moved] ++ post.map Slot.liveT := by simp
  simp only [guardDrop, h1, e, e2, h2, Region.free]
  simp

theorem mapLoop_fail (lay : Layout) (cb : Callback) (mode : FailMode) (x : Nat) (post : List Nat) :
    ∀ (pre done us : List Nat) (g : Guard) (log : Log),
    g.len = done.length + pre.length + 1 + post.length →
    Oks cb done.length pre us →
    cb (done.length + pre.length) x = mode.out →
    mapLoop lay cb (pre ++ x :: post).length done.length g
        ⟨done.map .liveU ++ (pre ++ x :: post).map .liveT, .owned⟩ log
      = .fin mode.exit ⟨⟨deadOf (done ++ us) ++ .moved :: deadOf post, .freed⟩, none,
          log ++ logOf lay .T .cb [x] ++ logOf lay .U .U (done ++ us) ++ logOf lay .T .T post⟩
  | [], done, [], g, log, hg, _, hc => by
    have hl : (done.map Slot.liveU).length = done.length := by simp
    have hr := read_at (done.map .liveU) x (post.map .liveT)
    rw [hl] at hr
    have hgd := guardDrop_spec lay done post (log ++ logOf lay .T .cb [x]) g.len (by simpa using hg)
    simp only [Nat.add_zero, List.length_nil] at hc
    cases mode <;>
      simp [mapLoop, hr, hc, FailMode.out, failInPlace, logDrop_eq, hgd, FailMode.exit] at *
  | [], _, _ :: _, _, _, _, h, _ => by simp [Oks] at h
  | y :: pre, done, [], _, _, _, h, _ => by simp [Oks] at h
  | y :: pre, done, u :: us, g, log, hg, h, hc => by
    simp only [Oks] at h
    have hl : (done.map Slot.liveU).length = done.length := by simp
    have hr := read_at (done.map .liveU) y ((pre ++ x :: post).map .liveT)
    have hw := write_at (done.map .liveU) .moved u ((pre ++ x :: post).map .liveT)
    rw [hl] at hr hw
    have ih := mapLoop_fail lay cb mode x post pre (done ++ [u]) us
      { g with mapInProgress := done.length } log
      (by simp only [List.length_append, List.length_cons, List.length_nil] at hg ⊢; omega)
      (by simpa using h.2)
      (by
        simp only [List.length_append, List.length_cons, List.length_nil] at hc ⊢
        have e : done.length + 0 + 1 + pre.length = done.length + (pre.length + 1) := by omega
        rw [e]; exact hc)
    simp only [List.length_append, List.length_cons, List.length_nil, Nat.zero_add] at ih
    simp only [List.cons_append, List.length_cons, List.map_cons, mapLoop, hr, h.1, hw]
    have e1 : done.map Slot.liveU ++ Slot.liveU u :: (pre ++ x :: post).map Slot.liveT
        = (done ++ [u]).map Slot.liveU ++ (pre ++ x :: post).map Slot.liveT := by simp
    have e3 : (pre ++ x :: post).length = pre.length + (post.length + 1) := by simp
    rw [e1]
    simp only [List.length_append, List.length_cons] at ih ⊢
    rw [ih]
    simp

/-- in-place path, every element mapped: the buffer is reused, holds the new values in order,
    nothing was dropped -/
theorem inPlace_ok (lay : Layout) (hl : lay.identical = true) (cb : Callback) (ids us : List Nat)
    (h : Oks cb 0 ids us) :
    mapVecInPlace lay cb ids = .fin .ok ⟨⟨us.map .liveU, .owned⟩, none, []⟩ := by
  have := mapLoop_ok lay cb ids [] us ⟨ids.length, 0⟩ [] (by simpa using h)
  simpa [mapVecInPlace, hl] using this

/-- in-place path, first failure at position `pre.length`: exact final memory and drop log
    (callback's drop first, then the mapped prefix as `U`, then the unmapped suffix as `T`) -/
theorem inPlace_fail (lay : Layout) (hl : lay.identical = true) (cb : Callback) (mode : FailMode)
    (pre : List Nat) (x : Nat) (post us : List Nat)
    (h : Oks cb 0 pre us) (hx : cb pre.length x = mode.out) :
    mapVecInPlace lay cb (pre ++ x :: post)
      = .fin mode.exit ⟨⟨deadOf us ++ .moved :: deadOf post, .freed⟩, none,
          logOf lay .T .cb [x] ++ (logOf lay .U .U us ++ logOf lay .T .T post)⟩ := by
  have := mapLoop_fail lay cb mode x post pre [] us ⟨(pre ++ x :: post).length, 0⟩ []
    (by simp; omega) (by simpa using h) (by simpa using hx)
  simpa [mapVecInPlace, hl] using this

/-! ### fallback path -/

theorem iterDrop_spec (lay : Layout) (gone : List Slot) (rest : List Nat) (log : Log) :
    iterDrop lay gone.length ⟨gone ++ rest.map .liveT, .owned⟩ log
      = .ok (⟨gone ++ deadOf rest, .freed⟩, log ++ logOf lay .T .T rest) := by
  have h := dropRange_run lay .T rest gone [] log
  simp only [List.append_nil, ElemTy.live, ElemTy.tag] at h
  have e : (gone ++ rest.map Slot.liveT).length - gone.length = rest.length := by simp
  simp [iterDrop, h, Region.free]

theorem dropVecU_spec (lay : Layout) (us : List Nat) (log : Log) :
    dropVecU lay ⟨us.map .liveU, .owned⟩ log = .ok (⟨deadOf us, .freed⟩, log ++ logOf lay .U .U us) := by
  have h := dropRange_run lay .U us [] [] log
  simp only [List.append_nil, List.nil_append, List.length_nil, ElemTy.live, ElemTy.tag] at h
  simp [dropVecU, h, Region.free]

theorem collectLoop_ok (lay : Layout) (cb : Callback) : ∀ (rest gone done us : List Nat) (log : Log),
    Oks cb gone.length rest us →
    collectLoop lay cb rest.length gone.length ⟨movedOf gone ++ rest.map .liveT, .owned⟩
        ⟨done.map .liveU, .owned⟩ log
      = .fin .ok ⟨⟨movedOf (gone ++ rest), .freed⟩, some ⟨(done ++ us).map .liveU, .owned⟩, log⟩
  | [], gone, done, [], log, _ => by
    have h := iterDrop_spec lay (movedOf gone) [] log
    simp only [movedOf_length, List.map_nil, List.append_nil] at h
    simp [collectLoop, h, deadOf, logOf]
  | [], _, _, _ :: _, _, h => by simp [Oks] at h
  | _ :: _, _, _, [], _, h => by simp [Oks] at h
  | x :: rest, gone, done, u :: us, log, h => by
    simp only [Oks] at h
    have hr := read_at (movedOf gone) x (rest.map .liveT)
    rw [movedOf_length] at hr
    have ih := collectLoop_ok lay cb rest (gone ++ [x]) (done ++ [u]) us log (by simpa using h.2)
    simp only [List.length_append, List.length_cons, List.length_nil, Nat.zero_add] at ih
    simp only [List.length_cons, List.map_cons, collectLoop, hr, h.1, Region.push]
    have e1 : movedOf gone ++ Slot.moved :: rest.map Slot.liveT
        = movedOf (gone ++ [x]) ++ rest.map Slot.liveT := by simp [movedOf]
    have e2 : done.map Slot.liveU ++ [Slot.liveU u] = (done ++ [u]).map Slot.liveU := by simp
    rw [e1, e2, ih]
    simp

theorem collectLoop_fail (lay : Layout) (cb : Callback) (mode : FailMode) (x : Nat) (post : List Nat) :
    ∀ (pre gone done us : List Nat) (log : Log),
    Oks cb gone.length pre us →
    cb (gone.length + pre.length) x = mode.out →
    collectLoop lay cb (pre ++ x :: post).length gone.length
        ⟨movedOf gone ++ (pre ++ x :: post).map .liveT, .owned⟩ ⟨done.map .liveU, .owned⟩ log
      = .fin mode.exit ⟨⟨movedOf (gone ++ pre ++ [x]) ++ deadOf post, .freed⟩,
          some ⟨deadOf (done ++ us), .freed⟩,
          log ++ logOf lay .T .cb [x] ++ logOf lay .T .T post ++ logOf lay .U .U (done ++ us)⟩
  | [], gone, done, [], log, _, hc => by
    have hr := read_at (movedOf gone) x (post.map .liveT)
    rw [movedOf_length] at hr
    have hi := iterDrop_spec lay (movedOf gone ++ [.moved]) post (log ++ logOf lay .T .cb [x])
    simp only [List.length_append, movedOf_length, List.length_cons, List.length_nil,
      Nat.zero_add] at hi
    have hd := dropVecU_spec lay done (log ++ logOf lay .T .cb [x] ++ logOf lay .T .T post)
    have e1 : movedOf gone ++ Slot.moved :: post.map Slot.liveT
        = movedOf gone ++ [Slot.moved] ++ post.map Slot.liveT := by simp
    simp only [Nat.add_zero, List.length_nil] at hc
    cases mode <;>
    · simp only [FailMode.out] at hc
      simp only [List.nil_append, List.length_cons, List.map_cons, collectLoop, hr, hc, failCollect, logDrop_eq,
        e1, hi, hd, FailMode.exit]
      simp [movedOf]
  | [], _, _, _ :: _, _, h, _ => by simp [Oks] at h
  | _ :: _, _, _, [], _, h, _ => by simp [Oks] at h
  | y :: pre, gone, done, u :: us, log, h, hc => by
    simp only [Oks] at h
    have hr := read_at (movedOf gone) y ((pre ++ x :: post).map .liveT)
    rw [movedOf_length] at hr
    have ih := collectLoop_fail lay cb mode x post pre (gone ++ [y]) (done ++ [u]) us log
      (by simpa using h.2)
      (by
        simp only [List.length_append, List.length_cons, List.length_nil] at hc ⊢
        have e : gone.length + (0 + 1) + pre.length = gone.length + (pre.length + 1) := by omega
        rw [e]; exact hc)
    simp only [List.length_append, List.length_cons, List.length_nil, Nat.zero_add] at ih
    simp only [List.cons_append, List.length_cons, List.map_cons, collectLoop, hr, h.1, Region.push]
    have e1 : movedOf gone ++ Slot.moved :: (pre ++ x :: post).map Slot.liveT
        = movedOf (gone ++ [y]) ++ (pre ++ x :: post).map Slot.liveT := by simp [movedOf]
    have e2 : done.map Slot.liveU ++ [Slot.liveU u] = (done ++ [u]).map Slot.liveU := by simp
    rw [e1, e2]
    simp only [List.length_append, List.length_cons] at ih ⊢
    rw [ih]
    simp

/-- fallback path, every element mapped: the source buffer is emptied and freed, the collected
    vector holds the new values in order, nothing was dropped -/
theorem fallback_ok (lay : Layout) (cb : Callback) (ids us : List Nat) (h : Oks cb 0 ids us) :
    mapVecFallback lay cb ids
      = .fin .ok ⟨⟨movedOf ids, .freed⟩, some ⟨us.map .liveU, .owned⟩, []⟩ := by
  have := collectLoop_ok lay cb ids [] [] us [] (by simpa using h)
  simpa [mapVecFallback, movedOf] using this

/-- fallback path, first failure at position `pre.length` -/
theorem fallback_fail (lay : Layout) (cb : Callback) (mode : FailMode) (pre : List Nat) (x : Nat) (post us : List Nat)
    (h : Oks cb 0 pre us) (hx : cb pre.length x = mode.out) :
    mapVecFallback lay cb (pre ++ x :: post)
      = .fin mode.exit ⟨⟨movedOf (pre ++ [x]) ++ deadOf post, .freed⟩, some ⟨deadOf us, .freed⟩,
          logOf lay .T .cb [x] ++ (logOf lay .T .T post ++ logOf lay .U .U us)⟩ := by
  have := collectLoop_fail lay cb mode x post pre [] [] us [] (by simpa using h) (by simpa using hx)
  simpa [mapVecFallback, movedOf] using this

/-! ### both paths together -/

/-- the branch condition of `fallible_map_vec` / `fallible_map_box` -/
def usesFallback (lay : Layout) : Bool := !lay.identical || lay.zst

/-- final memory after a successful run -/
def okFinal (lay : Layout) (ids us : List Nat) : St :=
  if usesFallback lay then ⟨⟨movedOf ids, .freed⟩, some ⟨us.map .liveU, .owned⟩, []⟩
  else ⟨⟨us.map .liveU, .owned⟩, none, []⟩

/-- final memory after a failure on `x`, with `us` already mapped and `post` not yet mapped -/
def failFinal (lay : Layout) (pre : List Nat) (x : Nat) (post us : List Nat) : St :=
  if usesFallback lay then
    ⟨⟨movedOf (pre ++ [x]) ++ deadOf post, .freed⟩, some ⟨deadOf us, .freed⟩,
      logOf lay .T .cb [x] ++ (logOf lay .T .T post ++ logOf lay .U .U us)⟩
  else
    ⟨⟨deadOf us ++ .moved :: deadOf post, .freed⟩, none, logOf lay .T .cb [x] ++ (logOf lay .U .U us ++ logOf lay .T .T post)⟩

theorem identical_of_not_fallback {lay : Layout} (hb : ¬ usesFallback lay = true) :
    lay.identical = true := by
  cases hi : lay.identical <;> simp [usesFallback, hi] at hb ⊢

theorem vec_run_ok (lay : Layout) (cb : Callback) (ids us : List Nat) (h : Oks cb 0 ids us) :
    fallibleMapVec lay cb ids = .fin .ok (okFinal lay ids us) := by
  unfold fallibleMapVec okFinal
  by_cases hb : usesFallback lay = true
  · rw [if_pos hb, if_pos (by simpa [usesFallback] using hb)]; exact fallback_ok lay cb ids us h
  · rw [if_neg hb, if_neg (by simpa [usesFallback] using hb)]
    exact inPlace_ok lay (identical_of_not_fallback hb) cb ids us h

theorem vec_run_fail (lay : Layout) (cb : Callback) (mode : FailMode)
    (pre : List Nat) (x : Nat) (post us : List Nat)
    (h : Oks cb 0 pre us) (hx : cb pre.length x = mode.out) :
    fallibleMapVec lay cb (pre ++ x :: post) = .fin mode.exit (failFinal lay pre x post us) := by
  unfold fallibleMapVec failFinal
  by_cases hb : usesFallback lay = true
  · rw [if_pos hb, if_pos (by simpa [usesFallback] using hb)]
    exact fallback_fail lay cb mode pre x post us h hx
  · rw [if_neg hb, if_neg (by simpa [usesFallback] using hb)]
    exact inPlace_fail lay (identical_of_not_fallback hb) cb mode pre x post us h hx

/-! ### facts about the final shapes -/

theorem nothingLive_dead_moved_dead (a b : List Nat) :
    (Region.mk (deadOf a ++ .moved :: deadOf b) .freed).nothingLive := by
  intro s hs
  simp only [deadOf, List.mem_append, List.mem_map, List.mem_cons] at hs
  rcases hs with ⟨_, _, rfl⟩ | rfl | ⟨_, _, rfl⟩ <;> simp

theorem nothingLive_moved_dead (a b : List Nat) :
    (Region.mk (movedOf a ++ deadOf b) .freed).nothingLive := by
  intro s hs
  simp only [deadOf, movedOf, List.mem_append, List.mem_map] at hs
  rcases hs with ⟨_, _, rfl⟩ | ⟨_, _, rfl⟩ <;> simp

theorem nothingLive_dead (a : List Nat) : (Region.mk (deadOf a) .freed).nothingLive := by
  intro s hs
  simp only [deadOf, List.mem_map] at hs
  rcases hs with ⟨_, _, rfl⟩; simp

end Chalk.InPlace
