/-
  Structural properties of hypotheses in the declarative semantics of `Sem.lean`, for ALL programs
  (both strata, any `coind` function): weakening, cut, and "a ground hypothesis is exactly an added
  program fact".  Helpers for `Props/C06sem.lean`.  No algorithm is involved.
-/
import ChalkModel.Lemmas.GenericLemmas

namespace Chalk.Sem

/-! ### ground terms -/

mutual
  /-- no variable occurs -/
  def Tm.ground : Tm → Prop
    | .app _ args => args.ground
    | .var _ => False
  def Tms.ground : Tms → Prop
    | .nil => True
    | .cons t ts => t.ground ∧ ts.ground
end

def Atom.ground (a : Atom) : Prop := a.args.ground

mutual
  def Tm.groundB : Tm → Bool
    | .app _ args => args.groundB
    | .var _ => false
  def Tms.groundB : Tms → Bool
    | .nil => true
    | .cons t ts => t.groundB && ts.groundB
end

def Atom.groundB (a : Atom) : Bool := a.args.groundB

mutual
  theorem Tm.ground_of_groundB : (t : Tm) → t.groundB = true → t.ground
    | .var _, h => by simp [Tm.groundB] at h
    | .app _ args, h => by
        simp only [Tm.groundB] at h
        simp only [Tm.ground]
        exact Tms.ground_of_groundB args h
  theorem Tms.ground_of_groundB : (ts : Tms) → ts.groundB = true → ts.ground
    | .nil, _ => by simp [Tms.ground]
    | .cons t ts, h => by
        simp only [Tms.groundB, Bool.and_eq_true] at h
        simp only [Tms.ground]
        exact ⟨Tm.ground_of_groundB t h.1, Tms.ground_of_groundB ts h.2⟩
end

theorem Atom.ground_of_groundB (a : Atom) (h : a.groundB = true) : a.ground :=
  Tms.ground_of_groundB a.args h

mutual
  /-- instantiation does nothing on a ground term -/
  theorem Tm.inst_ground (σ : Nat → Tm) : (t : Tm) → t.ground → t.inst σ = t
    | .var _, h => by simp [Tm.ground] at h
    | .app c args, h => by
        simp only [Tm.ground] at h
        simp only [Tm.inst]
        rw [Tms.inst_ground σ args h]
  theorem Tms.inst_ground (σ : Nat → Tm) : (ts : Tms) → ts.ground → ts.inst σ = ts
    | .nil, _ => by simp [Tms.inst]
    | .cons t ts, h => by
        simp only [Tms.ground] at h
        simp only [Tms.inst]
        rw [Tm.inst_ground σ t h.1, Tms.inst_ground σ ts h.2]
end

theorem Atom.inst_ground (σ : Nat → Tm) (a : Atom) (h : a.ground) : a.inst σ = a := by
  cases a with
  | mk p args =>
    simp only [Atom.inst]
    rw [Tms.inst_ground σ args h]

/-! ### basic facts about the two strata -/

/-- a hypothesis is a fact of its scope -/
theorem Holds.of_mem {P : Program} {Γ : List Atom} {a : Atom} (h : a ∈ Γ) : Holds P Γ a :=
  fun _ hX => hX a (Or.inl h)

/-- a hypothesis for a coinductive predicate holds coinductively (consistent singleton) -/
theorem CoHolds.of_mem {P : Program} {Γ : List Atom} {a : Atom} (hco : P.coind a.pred = true) (h : a ∈ Γ) :
    CoHolds P Γ a :=
  ⟨fun x => x = a, fun x hx => by subst hx; exact ⟨hco, Or.inl h⟩, rfl⟩

/-- members of a consistent set are coinductive-predicate atoms -/
theorem CoHolds.coind {P : Program} {Γ : List Atom} {a : Atom} (h : CoHolds P Γ a) : P.coind a.pred = true := by
  obtain ⟨X, hX, hXa⟩ := h
  exact (hX a hXa).1

/-- coinduction up to the greatest fixed point: a set that is consistent when the already established
    `CoHolds` atoms may be used is contained in `CoHolds` -/
theorem CoHolds.coinduct_upto {P : Program} {Γ : List Atom} (X : Atom → Prop)
    (hX : ∀ x, X x → CoStep P Γ (fun y => X y ∨ CoHolds P Γ y) x) {a : Atom} (ha : X a) : CoHolds P Γ a := by
  refine ⟨fun y => X y ∨ CoHolds P Γ y, ?_, Or.inl ha⟩
  rintro x (hx | hx)
  · exact hX x hx
  · exact ((coHolds_unfold P Γ x).mp hx).mono fun y hy => Or.inr hy

/-- unfolding `Holds` once (the least fixed point is a fixed point) -/
theorem holds_unfold (P : Program) (Γ : List Atom) (a : Atom) :
    Holds P Γ a ↔ IndStep P Γ (Holds P Γ) a := by
  constructor
  · intro h
    refine h (fun x => IndStep P Γ (Holds P Γ) x) ?_
    intro x hx
    exact hx.mono fun y hy => Holds.closed hy
  · exact Holds.closed

/-- inversion for atoms of a coinductive predicate: only the first two disjuncts of `IndStep` apply -/
theorem holds_coind_iff {P : Program} {Γ : List Atom} {a : Atom} (hco : P.coind a.pred = true) :
    Holds P Γ a ↔ a ∈ Γ ∨ CoHolds P Γ a := by
  constructor
  · intro h
    rcases (holds_unfold P Γ a).mp h with h1 | ⟨_, h2⟩ | ⟨h1, _⟩
    · exact Or.inl h1
    · exact Or.inr h2
    · rw [hco] at h1; cases h1
  · rintro (h | h)
    · exact Holds.of_mem h
    · exact Holds.closed (Or.inr (Or.inl ⟨hco, h⟩))

/-- …and the first disjunct is subsumed: for a coinductive predicate, `Holds` IS `CoHolds` -/
theorem holds_coind_iff_coHolds {P : Program} {Γ : List Atom} {a : Atom} (hco : P.coind a.pred = true) :
    Holds P Γ a ↔ CoHolds P Γ a := by
  rw [holds_coind_iff hco]
  constructor
  · rintro (h | h)
    · exact CoHolds.of_mem hco h
    · exact h
  · exact Or.inr

/-- inversion for atoms of an inductive predicate -/
theorem holds_ind_iff {P : Program} {Γ : List Atom} {a : Atom} (hco : P.coind a.pred = false) :
    Holds P Γ a ↔ a ∈ Γ ∨ ViaClause P (Holds P Γ) a := by
  constructor
  · intro h
    rcases (holds_unfold P Γ a).mp h with h1 | ⟨h1, _⟩ | ⟨_, h2⟩
    · exact Or.inl h1
    · rw [hco] at h1; cases h1
    · exact Or.inr h2
  · rintro (h | h)
    · exact Holds.of_mem h
    · exact Holds.closed (Or.inr (Or.inr ⟨hco, h⟩))

/-! ### weakening -/

theorem CoHolds.weaken {P : Program} {Γ Δ : List Atom} (hsub : ∀ a, a ∈ Γ → a ∈ Δ) {a : Atom}
    (h : CoHolds P Γ a) : CoHolds P Δ a := by
  obtain ⟨X, hX, hXa⟩ := h
  refine ⟨X, ?_, hXa⟩
  intro x hx
  obtain ⟨h1, h2⟩ := hX x hx
  exact ⟨h1, h2.imp (hsub x) id⟩

theorem Holds.weaken {P : Program} {Γ Δ : List Atom} (hsub : ∀ a, a ∈ Γ → a ∈ Δ) {a : Atom}
    (h : Holds P Γ a) : Holds P Δ a := by
  refine h (fun x => Holds P Δ x) ?_
  intro x hx
  apply Holds.closed
  rcases hx with h1 | ⟨h1, h2⟩ | h1
  · exact Or.inl (hsub x h1)
  · exact Or.inr (Or.inl ⟨h1, h2.weaken hsub⟩)
  · exact Or.inr (Or.inr h1)

theorem GHolds.weaken {P : Program} : (g : Goal) → g.Positive → (Γ Δ : List Atom) →
    (∀ a, a ∈ Γ → a ∈ Δ) → GHolds P Γ g → GHolds P Δ g
  | .atom _, _, _, _, hsub, h => Holds.weaken hsub h
  | .tt, _, _, _, _, _ => trivial
  | .and g h, hp, Γ, Δ, hsub, hh => ⟨GHolds.weaken g hp.1 Γ Δ hsub hh.1, GHolds.weaken h hp.2 Γ Δ hsub hh.2⟩
  | .implies hyps g, hp, Γ, Δ, hsub, hh => by
      refine GHolds.weaken g hp (hyps ++ Γ) (hyps ++ Δ) ?_ hh
      intro a ha
      rw [List.mem_append] at ha ⊢
      exact ha.imp id (hsub a)
  | .not _, hp, _, _, _, _ => hp.elim
  | .eq _ _, _, _, _, _, h => h

/-- only the SET of hypotheses matters (order, repetition are irrelevant) — for every goal,
    negation included -/
theorem GHolds.congr_mem {P : Program} : (g : Goal) → (Γ Δ : List Atom) →
    (∀ a, a ∈ Γ ↔ a ∈ Δ) → (GHolds P Γ g ↔ GHolds P Δ g)
  | .atom _, _, _, hiff => ⟨Holds.weaken fun a => (hiff a).mp, Holds.weaken fun a => (hiff a).mpr⟩
  | .tt, _, _, _ => Iff.rfl
  | .and g h, Γ, Δ, hiff => by
      simp only [GHolds]
      rw [GHolds.congr_mem g Γ Δ hiff, GHolds.congr_mem h Γ Δ hiff]
  | .implies hyps g, Γ, Δ, hiff => by
      simp only [GHolds]
      refine GHolds.congr_mem g (hyps ++ Γ) (hyps ++ Δ) ?_
      intro a
      simp only [List.mem_append, hiff a]
  | .not g, Γ, Δ, hiff => by
      simp only [GHolds]
      rw [GHolds.congr_mem g Γ Δ hiff]
  | .eq _ _, _, _, _ => Iff.rfl

/-! ### cut -/

/-- cut in the coinductive stratum: hypotheses that hold coinductively under `Δ` can be discharged;
    hypotheses for inductive predicates are never used by the coinductive stratum -/
theorem CoHolds.cut {P : Program} {Γ Δ : List Atom}
    (hΓ : ∀ h, h ∈ Γ → P.coind h.pred = true → CoHolds P Δ h) {a : Atom}
    (h : CoHolds P Γ a) : CoHolds P Δ a := by
  obtain ⟨X, hX, hXa⟩ := h
  refine CoHolds.coinduct_upto X ?_ hXa
  intro x hx
  obtain ⟨h1, h2 | h2⟩ := hX x hx
  · exact ((coHolds_unfold P Δ x).mp (hΓ x h2 h1)).mono fun y hy => Or.inr hy
  · exact ⟨h1, Or.inr (h2.mono fun y hy => Or.inl hy)⟩

/-- cut for all programs -/
theorem Holds.cut {P : Program} {Γ Δ : List Atom} (hΓ : ∀ h, h ∈ Γ → Holds P Δ h) {a : Atom}
    (h : Holds P Γ a) : Holds P Δ a := by
  refine h (fun x => Holds P Δ x) ?_
  intro x hx
  rcases hx with h1 | ⟨h1, h2⟩ | h1
  · exact hΓ x h1
  · refine Holds.closed (Or.inr (Or.inl ⟨h1, ?_⟩))
    exact h2.cut fun h hh hco => (holds_coind_iff_coHolds hco).mp (hΓ h hh)
  · exact Holds.closed (Or.inr (Or.inr h1))

/-- cut for positive goals: the hypotheses `Γ` are replaced by `Δ` which proves each of them -/
theorem GHolds.cut {P : Program} : (g : Goal) → g.Positive → (Γ Δ : List Atom) →
    (∀ h, h ∈ Γ → Holds P Δ h) → GHolds P Γ g → GHolds P Δ g
  | .atom _, _, _, _, hΓ, h => Holds.cut hΓ h
  | .tt, _, _, _, _, _ => trivial
  | .and g h, hp, Γ, Δ, hΓ, hh => ⟨GHolds.cut g hp.1 Γ Δ hΓ hh.1, GHolds.cut h hp.2 Γ Δ hΓ hh.2⟩
  | .implies hyps g, hp, Γ, Δ, hΓ, hh => by
      refine GHolds.cut g hp (hyps ++ Γ) (hyps ++ Δ) ?_ hh
      intro a ha
      rw [List.mem_append] at ha
      rcases ha with ha | ha
      · exact Holds.of_mem (List.mem_append_left _ ha)
      · exact Holds.weaken (fun x hx => List.mem_append_right _ hx) (hΓ a ha)
  | .not _, hp, _, _, _, _ => hp.elim
  | .eq _ _, _, _, _, _, h => h

/-! ### a ground hypothesis is an added program fact -/

/-- the program with the fact `h.` added -/
def Program.addFact (P : Program) (h : Atom) : Program := { P with clauses := ⟨h, []⟩ :: P.clauses }

/-- all hypotheses of a list added as facts -/
def Program.addFacts (P : Program) : List Atom → Program
  | [] => P
  | h :: hs => (P.addFact h).addFacts hs

@[simp] theorem Program.addFact_coind (P : Program) (h : Atom) : (P.addFact h).coind = P.coind := rfl

theorem ViaClause.addFact {P : Program} {X : Atom → Prop} {a : Atom} (h : Atom) (hv : ViaClause P X a) :
    ViaClause (P.addFact h) X a := by
  obtain ⟨c, hc, σ, hs, hb⟩ := hv
  exact ⟨c, List.mem_cons_of_mem _ hc, σ, hs, hb⟩

theorem ViaClause.fact {P : Program} {X : Atom → Prop} (h : Atom) (σ : Nat → Tm) :
    ViaClause (P.addFact h) X (h.inst σ) :=
  ⟨⟨h, []⟩, List.mem_cons_self, σ, rfl, fun b hb => by cases hb⟩

/-- a clause step of the extended program either uses the new fact or is a step of the old program -/
theorem ViaClause.of_addFact {P : Program} {X : Atom → Prop} {a h : Atom} (hv : ViaClause (P.addFact h) X a) :
    (∃ σ : Nat → Tm, h.inst σ = a) ∨ ViaClause P X a := by
  obtain ⟨c, hc, σ, hs, hb⟩ := hv
  rcases List.mem_cons.mp hc with rfl | hc
  · exact Or.inl ⟨σ, hs⟩
  · exact Or.inr ⟨c, hc, σ, hs, hb⟩

/-- coinductive stratum: `Γ'` is `Γ` plus the ground atom `h` -/
theorem coHolds_hyp_iff_fact {P : Program} {Γ' Γ : List Atom} {h : Atom} (hg : h.ground)
    (hmem : ∀ x, x ∈ Γ' ↔ x = h ∨ x ∈ Γ) (a : Atom) :
    CoHolds P Γ' a ↔ CoHolds (P.addFact h) Γ a := by
  constructor
  · rintro ⟨X, hX, hXa⟩
    refine ⟨X, ?_, hXa⟩
    intro x hx
    obtain ⟨h1, h2 | h2⟩ := hX x hx
    · rcases (hmem x).mp h2 with rfl | h2
      · refine ⟨h1, Or.inr ?_⟩
        have := ViaClause.fact (P := P) (X := X) x (fun i => .var i)
        rwa [Atom.inst_ground _ x hg] at this
      · exact ⟨h1, Or.inl h2⟩
    · exact ⟨h1, Or.inr (h2.addFact h)⟩
  · rintro ⟨X, hX, hXa⟩
    refine ⟨X, ?_, hXa⟩
    intro x hx
    obtain ⟨h1, h2 | h2⟩ := hX x hx
    · exact ⟨h1, Or.inl ((hmem x).mpr (Or.inr h2))⟩
    · rcases h2.of_addFact with ⟨σ, hσ⟩ | h2
      · rw [Atom.inst_ground σ h hg] at hσ
        exact ⟨h1, Or.inl ((hmem x).mpr (Or.inl hσ.symm))⟩
      · exact ⟨h1, Or.inr h2⟩

/-- both strata: `Γ'` is `Γ` plus the ground atom `h` -/
theorem holds_hyp_iff_fact {P : Program} {Γ' Γ : List Atom} {h : Atom} (hg : h.ground)
    (hmem : ∀ x, x ∈ Γ' ↔ x = h ∨ x ∈ Γ) (a : Atom) :
    Holds P Γ' a ↔ Holds (P.addFact h) Γ a := by
  constructor
  · intro hh
    refine hh (fun x => Holds (P.addFact h) Γ x) ?_
    intro x hx
    rcases hx with h1 | ⟨h1, h2⟩ | ⟨h1, h2⟩
    · rcases (hmem x).mp h1 with rfl | h1
      · -- the hypothesis itself: a fact of the extended program, in the stratum of its predicate
        have hv : ∀ X, ViaClause (P.addFact x) X x := fun X => by
          have := ViaClause.fact (P := P) (X := X) x (fun i => .var i)
          rwa [Atom.inst_ground _ x hg] at this
        cases hco : P.coind x.pred with
        | true =>
          refine Holds.closed (Or.inr (Or.inl ⟨hco, ?_⟩))
          exact ⟨fun y => y = x, fun y hy => by subst hy; exact ⟨hco, Or.inr (hv _)⟩, rfl⟩
        | false => exact Holds.closed (Or.inr (Or.inr ⟨hco, hv _⟩))
      · exact Holds.of_mem h1
    · exact Holds.closed (Or.inr (Or.inl ⟨h1, (coHolds_hyp_iff_fact hg hmem x).mp h2⟩))
    · exact Holds.closed (Or.inr (Or.inr ⟨h1, h2.addFact h⟩))
  · intro hh
    refine hh (fun x => Holds P Γ' x) ?_
    intro x hx
    rcases hx with h1 | ⟨h1, h2⟩ | ⟨h1, h2⟩
    · exact Holds.of_mem ((hmem x).mpr (Or.inr h1))
    · exact Holds.closed (Or.inr (Or.inl ⟨h1, (coHolds_hyp_iff_fact hg hmem x).mpr h2⟩))
    · rcases h2.of_addFact with ⟨σ, hσ⟩ | h2
      · rw [Atom.inst_ground σ h hg] at hσ
        exact Holds.of_mem ((hmem x).mpr (Or.inl hσ.symm))
      · exact Holds.closed (Or.inr (Or.inr ⟨h1, h2⟩))

/-- every goal (negation included: the statement is an equivalence) -/
theorem gholds_hyp_iff_fact {P : Program} {h : Atom} (hg : h.ground) : (g : Goal) → (Γ' Γ : List Atom) →
    (∀ x, x ∈ Γ' ↔ x = h ∨ x ∈ Γ) → (GHolds P Γ' g ↔ GHolds (P.addFact h) Γ g)
  | .atom a, _, _, hmem => holds_hyp_iff_fact hg hmem a
  | .tt, _, _, _ => Iff.rfl
  | .and g₁ g₂, Γ', Γ, hmem => by
      simp only [GHolds]
      rw [gholds_hyp_iff_fact hg g₁ Γ' Γ hmem, gholds_hyp_iff_fact hg g₂ Γ' Γ hmem]
  | .implies hyps g, Γ', Γ, hmem => by
      simp only [GHolds]
      refine gholds_hyp_iff_fact hg g (hyps ++ Γ') (hyps ++ Γ) ?_
      intro x
      simp only [List.mem_append, hmem x]
      constructor
      · rintro (h1 | h1 | h1)
        · exact Or.inr (Or.inl h1)
        · exact Or.inl h1
        · exact Or.inr (Or.inr h1)
      · rintro (h1 | h1 | h1)
        · exact Or.inr (Or.inl h1)
        · exact Or.inl h1
        · exact Or.inr (Or.inr h1)
  | .not g, Γ', Γ, hmem => by
      simp only [GHolds]
      rw [gholds_hyp_iff_fact hg g Γ' Γ hmem]
  | .eq _ _, _, _, _ => Iff.rfl

end Chalk.Sem
