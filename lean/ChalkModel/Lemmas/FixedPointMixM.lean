/-
  FixedPointMixM.lean — TOTALITY (mixed polarities), part 3: the loop, `solve_goal`, `solve_root_goal`.
-/
import ChalkModel.Lemmas.FixedPointMixL
import ChalkModel.Lemmas.FixedPointSemM

namespace Chalk.FixedPoint.Mix
open Chalk.FixedPoint.Cyc (JE JA MinLe InCache InGraph Def Undef flagAt StackExt stackGoals
  getElem?_lt_length getElem?_prefix headNode mid_cases mid_at Rest Popped setCycle_length setCycle_getElem?_ne
  setCycle_getElem?_eq updateNode_mid take_mid afterRound finishGoal pushed cacheLookup inCache_iff_lookup
  minGe_iff solveGoal_cached solveGoal_hit solveGoal_new lookup_some lookup_none stackExt_setCycle_true
  solveNewSubgoal_step tick_none drain_ok)

section
variable {inst : Instance} {P : Nat → Prop} {dom : List Nat} {lvl : Nat → Nat} {rec : SubSolver} {cfg : Cfg} {D : Nat}

/-- the loop stops: with the optimistic provisional answer two rounds are left, or the provisional
    answer is already pessimistic and stable -/
def Rounds (inst : Instance) (P : Nat → Prop) (s0 : St) (g : Nat) (r : Nat) (st : St) : Prop :=
  (2 ≤ r ∧ st.graph = s0.graph ++ [headNode s0 g (topOf inst g)]) ∨
  (1 ≤ r ∧ st.graph = s0.graph ++ [headNode s0 g (botOf inst g)] ∧
    ¬ JV inst (topOf inst g) (Opt inst P (InG inst P st) (topOf inst g)) g)

theorem loop_tot (hyp : MHyp inst P dom lvl) (hb : cfg.budget = none) (hrec : SubSpec inst P dom lvl rec)
    (htot : SubTot inst P dom lvl cfg D rec) {s0 : St} {g : Nat}
    (hres : cfg.overflowDepth < D + (s0.stack.length + 1)) :
    ∀ (r : Nat) (st : St), LoopSt inst P dom lvl s0 g st → Rounds inst P s0 g r st →
      ∃ sub s3, solveNewSubgoal inst cfg rec g s0.stack.length s0.graph.length r st = .ok sub s3
  | 0, st, _, hr => by
    cases hr with
    | inl h => exact absurd h.1 (by omega)
    | inr h => exact absurd h.1 (by omega)
  | r + 1, st, L, hr => by
    have ht := tick_none hb st
    have L0 : LoopSt inst P dom lvl s0 g { st with work := st.work + 1 } := L.work _
    obtain ⟨cur, m, s1, hi⟩ := solveIteration_tot hyp hrec htot g L.gdom none _ L0.inv L0.gtop
      (by show cfg.overflowDepth < D + st.stack.length; rw [L.slen]; exact hres)
    obtain ⟨i1, hs, _, hk, hf⟩ := solveIteration_sem hyp hrec g L.gdom none _ cur m s1 L0.inv L0.gtop hi
    obtain ⟨old, new, A⟩ := After.intro L0 i1 hs hf hk
    have hlt : s0.stack.length < s1.stack.length := by rw [A.slen]; exact Nat.lt_succ_self _
    have he : s1.stack[s0.stack.length]? = some s1.stack[s0.stack.length] := List.getElem?_eq_getElem hlt
    generalize s1.stack[s0.stack.length] = e at he
    rw [solveNewSubgoal_step inst cfg rec g _ _ r st _ s1 cur m e _ ht hi he A.head]
    by_cases hc : e.cycle = true
    · simp only [hc, Bool.not_true, Bool.false_eq_true, if_false]
      have hsol : (headNode s0 g old).solution = old := rfl
      rw [hsol]
      by_cases hoc : old = cur
      · subst hoc
        have h1 : reachedFixedPoint old old = true := by simp [reachedFixedPoint]
        simp only [h1, if_true]
        exact ⟨_, _, rfl⟩
      · have hamb : cur ≠ .ambig := by
          cases A.cur_val with
          | inl e => rw [e]; exact topOf_ne_ambig inst g
          | inr e => rw [e]; exact botOf_ne_ambig inst g
        have h1 : reachedFixedPoint old cur = false := by simp [reachedFixedPoint, hoc, hamb]
        simp only [h1, Bool.false_eq_true, if_false]
        have hgr : updateNode (fun n => { n with solution := cur }) s0.graph.length s1.graph =
            s0.graph ++ (⟨g, cur, some s0.stack.length, some s0.graph.length⟩ : Node) :: new := by
          rw [A.g1, updateNode_mid]; rfl
        have hg2 : (rollbackTo (s0.graph.length + 1)
            (afterRound s0.stack.length s0.graph.length cur s1)).graph = s0.graph ++ [headNode s0 g cur] := by
          show (updateNode _ s0.graph.length s1.graph).take (s0.graph.length + 1) = _
          rw [hgr, take_mid]
          rfl
        have L2 : LoopSt inst P dom lvl s0 g
            (rollbackTo (s0.graph.length + 1) (afterRound s0.stack.length s0.graph.length cur s1)) :=
          A.restart ⟨rfl, rfl, rfl, rfl⟩ rfl hg2
        -- the provisional answer was optimistic, the outcome is pessimistic
        have hold : old = topOf inst g ∧ 1 ≤ r := by
          cases hr with
          | inl h =>
            have := List.append_cancel_left (A.gt.symm.trans h.2)
            simp only [headNode, List.cons.injEq, Node.mk.injEq, and_true, true_and] at this
            exact ⟨this, by omega⟩
          | inr h =>
            exfalso
            have := List.append_cancel_left (A.gt.symm.trans h.2.1)
            simp only [headNode, List.cons.injEq, Node.mk.injEq, and_true, true_and] at this
            cases A.cur_val with
            | inl e => exact h.2.2 (A.top_inG e)
            | inr e => exact hoc (this.trans e.symm)
        have hcur : cur = botOf inst g := by
          cases A.cur_val with
          | inl e => exact absurd (hold.1.trans e.symm) hoc
          | inr e => exact e
        refine loop_tot hyp hb hrec htot hres r _ L2 (Or.inr ⟨hold.2, by rw [hg2, hcur], ?_⟩)
        intro hj
        exact A.fact.not_opt hcur (JV.mono (fun j hj => hj.mono (fun k hk => A.restart_sub
              (s2 := rollbackTo (s0.graph.length + 1) (afterRound s0.stack.length s0.graph.length cur s1))
              hcur ⟨rfl, rfl, rfl, rfl⟩ hg2 k hk)) hj)
    · have hc' : e.cycle = false := by cases h' : e.cycle <;> simp_all
      simp only [hc', Bool.not_false, if_true]
      exact ⟨_, _, rfl⟩

theorem finishGoal_tot {s0 : St} {g : Nat} {sub : Min} {s3 : St}
    (hp : LoopPost inst P dom lvl s0 g sub s3) (m : Min) :
    ∃ v m' s', finishGoal cfg m s0.stack.length s0.graph.length sub s3 = .ok (v, m') s' := by
  obtain ⟨st', s1, old, cur, new, A, hfl, hg3, hlen3, hget3, R3⟩ := hp
  have hg4 : updateNode (fun n => { n with links := sub, stackDepth := none }) s0.graph.length s3.graph =
      s0.graph ++ (⟨g, cur, none, sub⟩ : Node) :: new := by
    rw [hg3, updateNode_mid]
  have hpop : s0.stack.length + 1 = s3.stack.length := hlen3.symm
  simp only [finishGoal, pop, hpop, if_true, hg4, mid_at]
  by_cases hge : Min.ge sub s0.graph.length = true
  · cases hc1 : s1.cache with
    | none =>
      have hc3 : s3.cache = none := by rw [R3.cache]; exact hc1
      simp only [hge, if_true, hc3]
      exact ⟨_, _, _, rfl⟩
    | some cc1 =>
    have hint : s3.interrupted = false := by rw [R3.interrupted]; exact A.i1.quiet.2.2
    have hc3 : s3.cache = some cc1 := by rw [R3.cache]; exact hc1
    have hand : (cfg.fixF3 && s3.interrupted) = false := by rw [hint]; simp
    simp only [hge, if_true, hc3, hand, Bool.false_eq_true, if_false, moveToCache,
      List.drop_left, List.take_left]
    obtain ⟨cc6, hdr⟩ := drain_ok s0.graph.length ((⟨g, cur, none, sub⟩ : Node) :: new) cc1 (by
      intro n hn
      cases List.mem_cons.mp hn with
      | inl e => rw [e]; exact ⟨rfl, hge⟩
      | inr e =>
        exact ⟨(A.hnew n e).1, (minGe_iff _ _).mpr (((minGe_iff _ _).mp hge).trans (A.hnew n e).2)⟩)
    rw [hdr]
    exact ⟨_, _, _, rfl⟩
  · simp only [hge, Bool.false_eq_true, if_false]
    exact ⟨_, _, _, rfl⟩

/-- TOTALITY of `solve_goal`: no assert of the framework fires, no cycle is judged mixed, the stack
    does not overflow, the loop stops within two rounds -/
theorem solveGoal_tot (hyp : MHyp inst P dom lvl) (hb : cfg.budget = none)
    (hov : dom.length ≤ cfg.overflowDepth) (hr : 2 ≤ cfg.rounds) :
    ∀ d, SubTot inst P dom lvl cfg d (solveGoal inst cfg d)
  | 0 => by
    intro g m s hi _ _ hres
    have := hi.stack_le
    omega
  | d + 1 => by
    intro g m s hi hg hbel hres
    have ht := tick_none hb s
    have i0 : Inv inst P dom lvl { s with work := s.work + 1 } := hi.work _
    cases hc : cacheLookup ({ s with work := s.work + 1 } : St) g with
    | some w => exact ⟨_, _, _, solveGoal_cached inst cfg d g m s _ w ht hc⟩
    | none =>
      cases hl : lookup ({ s with work := s.work + 1 } : St).graph g with
      | some dfn =>
        obtain ⟨node, hn, hgo⟩ := lookup_some hl
        rw [solveGoal_hit inst cfg d g m s _ ht hc dfn hl node hn]
        cases hsd : node.stackDepth with
        | none => exact ⟨_, _, _, rfl⟩
        | some depth =>
          obtain ⟨hdl, _⟩ := i0.stk dfn node depth hn hsd
          have hnle : ¬ ({ s with work := s.work + 1 } : St).stack.length ≤ depth := Nat.not_le.mpr hdl
          have hmix : mixedFrom (setCycle true depth ({ s with work := s.work + 1 } : St).stack) depth = false :=
            hit_not_mixed i0 hbel hn hgo hsd
          simp only [hnle, if_false, hmix, Bool.false_eq_true]
          exact ⟨_, _, _, rfl⟩
      | none =>
        have hu : Undef ({ s with work := s.work + 1 } : St) g := by
          intro w hw
          cases hw with
          | inl hw =>
            rw [inCache_iff_lookup, hc] at hw
            cases hw
          | inr hw =>
            obtain ⟨i, n, hn, hgo, _⟩ := hw
            exact lookup_none hl n (List.mem_of_getElem? hn) hgo
        have hlt : s.stack.length < dom.length := i0.stack_lt hg hu
        have hnov : ¬ cfg.overflowDepth ≤ ({ s with work := s.work + 1 } : St).stack.length := by
          show ¬ cfg.overflowDepth ≤ s.stack.length
          omega
        rw [solveGoal_new inst cfg d g m s _ ht hc hl hnov]
        have hspec := solveGoal_sem (cfg := cfg) hyp d
        have L := push_loopSt hyp i0 hu hg hbel
        obtain ⟨sub, s3, hloop⟩ := loop_tot hyp hb hspec (solveGoal_tot hyp hb hov hr d)
          (s0 := { s with work := s.work + 1 }) (g := g)
          (by show cfg.overflowDepth < d + (s.stack.length + 1); omega) cfg.rounds _ L
          (Or.inl ⟨hr, by simp only [pushed, headNode, topOf]⟩)
        rw [hloop]
        exact finishGoal_tot (loop_sem hyp hspec cfg.rounds _ sub s3 L hloop) m

end

end Chalk.FixedPoint.Mix
