/-
  FixedPointMixM.lean — TOTALITY (mixed polarities), part 3: the loop, `solve_goal`, `solve_root_goal`.
-/
import ChalkModel.Lemmas.FixedPointMixL
import ChalkModel.Lemmas.FixedPointSemM

namespace Chalk.FixedPoint.Mix
open Chalk.FixedPoint.Cyc (JE JA MinLe InCache InGraph Def Undef flagAt StackExt stackGoals
  getElem?_lt_length getElem?_prefix headNode mid_cases mid_at Rest Popped setCycle_length setCycle_getElem?_ne
  setCycle_getElem?_eq updateNode_mid take_mid afterRound finishGoal pushed cacheLookup inCache_iff_lookup
  minGe_iff solveGoal_cached solveGoal_hit solveGoal_new solveGoal_tick_panic lookup_some lookup_none
  stackExt_setCycle_true solveNewSubgoal_step solveNewSubgoal_tick_panic solveNewSubgoal_iter_panic
  tick_none drain_ok)

section
variable {inst : Instance} {P : Nat → Prop} {dom : List Nat} {lvl : Nat → Nat} {fx : Bool} {rec : SubSolver} {cfg : Cfg} {D : Nat}

/-- the loop stops: with the optimistic provisional answer two rounds are left, or the provisional
    answer is already pessimistic and stable -/
def Rounds (inst : Instance) (P : Nat → Prop) (s0 : St) (g : Nat) (r : Nat) (st : St) : Prop :=
  (2 ≤ r ∧ st.graph = s0.graph ++ [headNode s0 g (topOf inst g)]) ∨
  (1 ≤ r ∧ st.graph = s0.graph ++ [headNode s0 g (botOf inst g)] ∧
    ¬ JV inst (topOf inst g) (Opt inst P (InG inst P st) (topOf inst g)) g)

theorem loop_good (hyp : MHyp inst P dom lvl) (h3 : cfg.fixF3 = true) (h16 : fx = true → cfg.fixF16 = true)
    (hrec : SubSpec inst P dom lvl fx rec)
    (hgood : SubGood inst P dom lvl fx cfg D rec) {s0 : St} {g : Nat}
    (hres : cfg.overflowDepth < D + (s0.stack.length + 1)) :
    ∀ (r : Nat) (st : St), LoopSt inst P dom lvl fx s0 g st → Rounds inst P s0 g r st →
      Good P cfg (solveNewSubgoal inst cfg rec g s0.stack.length s0.graph.length r st)
  | 0, st, _, hr => by
    cases hr with
    | inl h => exact absurd h.1 (by omega)
    | inr h => exact absurd h.1 (by omega)
  | r + 1, st, L, hr => by
    cases tick_cases cfg L.inv with
    | inr hp =>
      obtain ⟨st0, ht, h2⟩ := hp
      exact Or.inr ⟨st0, solveNewSubgoal_tick_panic _ _ _ _ _ _ _ _ _ _ ht, h2⟩
    | inl ht =>
    have L0 : LoopSt inst P dom lvl fx s0 g { st with work := st.work + 1 } := L.work _
    cases solveIteration_good hyp h16 hrec hgood g L.gdom none _ L0.inv L0.gtop
      (by show cfg.overflowDepth < D + st.stack.length; rw [L.slen]; exact hres) with
    | inr hp =>
      obtain ⟨s1, hi, h2⟩ := hp
      exact Or.inr ⟨s1, solveNewSubgoal_iter_panic _ _ _ _ _ _ _ _ _ _ _ ht hi, h2⟩
    | inl hok =>
    obtain ⟨⟨cur, m⟩, s1, hi⟩ := hok
    obtain ⟨i1, hs, _, hk, hf⟩ := solveIteration_sem hyp h3 hrec g L.gdom none _ cur m s1 L0.inv L0.gtop hi
    obtain ⟨old, new, A⟩ := After.intro L0 i1 hs hf hk
    have hlt : s0.stack.length < s1.stack.length := by rw [A.slen]; exact Nat.lt_succ_self _
    have he : s1.stack[s0.stack.length]? = some s1.stack[s0.stack.length] := List.getElem?_eq_getElem hlt
    generalize s1.stack[s0.stack.length] = e at he
    rw [solveNewSubgoal_step inst cfg rec g _ _ r st _ s1 cur m e _ ht hi he A.head]
    by_cases hc : e.cycle = true
    · simp only [hc, Bool.not_true, Bool.false_eq_true, if_false]
      have hsol : (headNode s0 g old).solution = old := rfl
      rw [hsol]
      by_cases hoc : old = cur
      · subst hoc
        have h1 : reachedFixedPoint old old = true := by simp [reachedFixedPoint]
        simp only [h1, if_true]
        exact Or.inl ⟨_, _, rfl⟩
      · by_cases hamb : cur = .ambig
        · -- interrupted: the loop stops
          subst hamb
          have h1 : reachedFixedPoint old .ambig = true := by simp [reachedFixedPoint]
          simp only [h1, if_true]
          exact Or.inl ⟨_, _, rfl⟩
        have h1 : reachedFixedPoint old cur = false := by simp [reachedFixedPoint, hoc, hamb]
        simp only [h1, Bool.false_eq_true, if_false]
        have hgr : updateNode (fun n => { n with solution := cur }) s0.graph.length s1.graph =
            s0.graph ++ (⟨g, cur, some s0.stack.length, some s0.graph.length⟩ : Node) :: new := by
          rw [A.g1, updateNode_mid]; rfl
        have hg2 : (rollbackTo (s0.graph.length + 1)
            (afterRound s0.stack.length s0.graph.length cur s1)).graph = s0.graph ++ [headNode s0 g cur] := by
          show (updateNode _ s0.graph.length s1.graph).take (s0.graph.length + 1) = _
          rw [hgr, take_mid]
          rfl
        have L2 : LoopSt inst P dom lvl fx s0 g
            (rollbackTo (s0.graph.length + 1) (afterRound s0.stack.length s0.graph.length cur s1)) :=
          A.restart ⟨rfl, rfl, rfl, rfl⟩ rfl hg2
        -- the provisional answer was optimistic, the outcome is pessimistic
        have hold : old = topOf inst g ∧ 1 ≤ r := by
          cases hr with
          | inl h =>
            have := List.append_cancel_left (A.gt.symm.trans h.2)
            simp only [headNode, List.cons.injEq, Node.mk.injEq, and_true, true_and] at this
            exact ⟨this, by omega⟩
          | inr h =>
            exfalso
            have := List.append_cancel_left (A.gt.symm.trans h.2.1)
            simp only [headNode, List.cons.injEq, Node.mk.injEq, and_true, true_and] at this
            rcases A.cur_val with e | e | e
            · exact h.2.2 (A.top_inG e)
            · exact hoc (this.trans e.symm)
            · exact hamb e
        have hcur : cur = botOf inst g := by
          rcases A.cur_val with e | e | e
          · exact absurd (hold.1.trans e.symm) hoc
          · exact e
          · exact absurd e hamb
        refine loop_good hyp h3 h16 hrec hgood hres r _ L2 (Or.inr ⟨hold.2, by rw [hg2, hcur], ?_⟩)
        intro hj
        exact A.fact.not_opt hcur (JV.mono (fun j hj => hj.mono (fun k hk => A.restart_sub
              (s2 := rollbackTo (s0.graph.length + 1) (afterRound s0.stack.length s0.graph.length cur s1))
              hcur ⟨rfl, rfl, rfl, rfl⟩ hg2 k hk)) hj)
    · have hc' : e.cycle = false := by cases h' : e.cycle <;> simp_all
      simp only [hc', Bool.not_false, if_true]
      exact Or.inl ⟨_, _, rfl⟩

theorem finishGoal_tot {s0 : St} {g : Nat} {sub : Min} {s3 : St}
    (hp : LoopPost inst P dom lvl fx s0 g sub s3) (m : Min) :
    ∃ v m' s', finishGoal cfg m s0.stack.length s0.graph.length sub s3 = .ok (v, m') s' := by
  obtain ⟨st', s1, old, cur, new, new3, A, hcase, hg3, hlen3, hget3, R3⟩ := hp
  have hg4 : updateNode (fun n => { n with links := sub, stackDepth := none }) s0.graph.length s3.graph =
      s0.graph ++ (⟨g, cur, none, sub⟩ : Node) :: new3 := by
    rw [hg3, updateNode_mid]
  have hpop : s0.stack.length + 1 = s3.stack.length := hlen3.symm
  simp only [finishGoal, pop, hpop, if_true, hg4, mid_at]
  by_cases hge : Min.ge sub s0.graph.length = true
  · cases hc3 : s3.cache with
    | none =>
      simp only [hge, if_true]
      exact ⟨_, _, _, rfl⟩
    | some cc1 =>
      by_cases hand : (cfg.fixF3 && s3.interrupted) = true
      · simp only [hge, if_true, hand]
        exact ⟨_, _, _, rfl⟩
      · simp only [hge, if_true, hand, Bool.false_eq_true, if_false, moveToCache,
          List.drop_left, List.take_left]
        obtain ⟨cc6, hdr⟩ := drain_ok s0.graph.length ((⟨g, cur, none, sub⟩ : Node) :: new3) cc1 (by
          intro n hn
          cases List.mem_cons.mp hn with
          | inl e => rw [e]; exact ⟨rfl, hge⟩
          | inr e =>
            cases hcase with
            | inl h1 =>
              rw [h1.1] at e
              exact ⟨(A.hnew n e).1, (minGe_iff _ _).mpr (((minGe_iff _ _).mp hge).trans (A.hnew n e).2)⟩
            | inr h1 => rw [h1.1] at e; cases e)
        rw [hdr]
        exact ⟨_, _, _, rfl⟩
  · simp only [hge, Bool.false_eq_true, if_false]
    exact ⟨_, _, _, rfl⟩

/-- `solve_goal` returns, or ends in the budget panic with a correct cache: no assert of the
    framework fires, no cycle is judged mixed, the stack does not overflow, the loop stops within two rounds -/
theorem solveGoal_good (hyp : MHyp inst P dom lvl) (h3 : cfg.fixF3 = true) (h10 : fx = true → cfg.fixF10 = true)
    (h16 : fx = true → cfg.fixF16 = true) (hov : dom.length ≤ cfg.overflowDepth) (hr : 2 ≤ cfg.rounds) :
    ∀ d, SubGood inst P dom lvl fx cfg d (solveGoal inst cfg d)
  | 0 => by
    intro g m s hi _ _ hres
    have := hi.stack_le
    omega
  | d + 1 => by
    intro g m s hi hg hbel hres
    cases tick_cases cfg hi with
    | inr hp =>
      obtain ⟨s0, ht, h2⟩ := hp
      exact Or.inr ⟨s0, solveGoal_tick_panic _ _ _ _ _ _ _ _ ht, h2⟩
    | inl ht =>
    have i0 : Inv inst P dom lvl fx { s with work := s.work + 1 } := hi.work _
    cases hc : cacheLookup ({ s with work := s.work + 1 } : St) g with
    | some w => exact Or.inl ⟨_, _, solveGoal_cached inst cfg d g m s _ w ht hc⟩
    | none =>
      cases hl : lookup ({ s with work := s.work + 1 } : St).graph g with
      | some dfn =>
        obtain ⟨node, hn, hgo⟩ := lookup_some hl
        rw [solveGoal_hit inst cfg d g m s _ ht hc dfn hl node hn]
        cases hsd : node.stackDepth with
        | none => exact Or.inl ⟨_, _, rfl⟩
        | some depth =>
          obtain ⟨hdl, _⟩ := i0.stk dfn node depth hn hsd
          have hnle : ¬ ({ s with work := s.work + 1 } : St).stack.length ≤ depth := Nat.not_le.mpr hdl
          have hmix : mixedFrom (setCycle true depth ({ s with work := s.work + 1 } : St).stack) depth = false :=
            hit_not_mixed i0 hbel hn hgo hsd
          simp only [hnle, if_false, hmix, Bool.false_eq_true]
          exact Or.inl ⟨_, _, rfl⟩
      | none =>
        have hu : Undef ({ s with work := s.work + 1 } : St) g := by
          intro w hw
          cases hw with
          | inl hw =>
            rw [inCache_iff_lookup, hc] at hw
            cases hw
          | inr hw =>
            obtain ⟨i, n, hn, hgo, _⟩ := hw
            exact lookup_none hl n (List.mem_of_getElem? hn) hgo
        have hlt : s.stack.length < dom.length := i0.stack_lt hg hu
        have hnov : ¬ cfg.overflowDepth ≤ ({ s with work := s.work + 1 } : St).stack.length := by
          show ¬ cfg.overflowDepth ≤ s.stack.length
          omega
        rw [solveGoal_new inst cfg d g m s _ ht hc hl hnov]
        have hspec := solveGoal_sem (cfg := cfg) hyp h3 h10 d
        have L := push_loopSt hyp i0 hu hg hbel
        cases loop_good hyp h3 h16 hspec (solveGoal_good hyp h3 h10 h16 hov hr d)
          (s0 := { s with work := s.work + 1 }) (g := g)
          (by show cfg.overflowDepth < d + (s.stack.length + 1); omega) cfg.rounds _ L
          (Or.inl ⟨hr, by simp only [pushed, headNode, topOf]⟩) with
        | inr hp =>
          obtain ⟨s3, hloop, h2⟩ := hp
          rw [hloop]
          exact Or.inr ⟨s3, rfl, h2⟩
        | inl hok =>
          obtain ⟨sub, s3, hloop⟩ := hok
          rw [hloop]
          obtain ⟨v, m', s', h⟩ := finishGoal_tot (loop_sem hyp h3 h10 hspec cfg.rounds _ sub s3 L hloop) m
          exact Or.inl ⟨(v, m'), s', h⟩

/-- TOTALITY of `solve_goal` without a work budget -/
theorem solveGoal_tot (hyp : MHyp inst P dom lvl) (h3 : cfg.fixF3 = true) (h10 : fx = true → cfg.fixF10 = true)
    (h16 : fx = true → cfg.fixF16 = true) (hb : cfg.budget = none)
    (hov : dom.length ≤ cfg.overflowDepth) (hr : 2 ≤ cfg.rounds) :
    ∀ d, SubTot inst P dom lvl fx cfg d (solveGoal inst cfg d) := by
  intro d g m s hi hg hbel hres
  obtain ⟨⟨v, m'⟩, s', h⟩ := (solveGoal_good hyp h3 h10 h16 hov hr d g m s hi hg hbel hres).of_none hb
  exact ⟨v, m', s', h⟩

end

end Chalk.FixedPoint.Mix
