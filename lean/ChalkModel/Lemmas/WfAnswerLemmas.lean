import ChalkModel.WfAnswer
import ChalkModel.Lemmas.ShiftPure

namespace Chalk

theorem kindsMatch_get : (kinds : List VarKind) → (params : List GArg) → kindsMatch kinds params = true →
    ∀ (i : Nat) (k : VarKind), kinds[i]? = some k → ∃ a : GArg, params[i]? = some a ∧ GArg.hasKind a k = true
  | [], [], _, i, k, hk => by simp at hk
  | [], _ :: _, h, _, _, _ => by simp [kindsMatch] at h
  | _ :: _, [], h, _, _, _ => by simp [kindsMatch] at h
  | k0 :: ks, a0 :: as, h, i, k, hk => by
      simp only [kindsMatch, Bool.and_eq_true] at h
      cases i with
      | zero => simp at hk; subst hk; exact ⟨a0, by simp, h.1⟩
      | succ j =>
        simp at hk
        obtain ⟨a, ha, hh⟩ := kindsMatch_get ks as h.2 j k hk
        exact ⟨a, by simp [ha], hh⟩

/-- applying a kind-correct parameter list to a term whose free variables all belong to the
    binder with those kinds never panics -/
theorem foldLifetime_apply_ok (cty : Nat → Ty) (kinds : List VarKind) (params : List GArg)
    (hm : kindsMatch kinds params = true) (outer : Nat) (l : Lifetime) (h : l.scoped kinds outer = true) :
    ∃ r, foldLifetime (applyFolder params) outer l = .ok r := by
  cases l with
  | bound db idx =>
    simp [Lifetime.scoped] at h
    simp only [foldLifetime]
    by_cases hle : outer ≤ db
    · simp only [hle, if_true, applyFolder]
      rcases h with h | ⟨h1, h2⟩
      · omega
      · subst h1
        obtain ⟨a, ha, hk⟩ := kindsMatch_get kinds params hm idx .lt h2
        cases a <;> simp [GArg.hasKind] at hk
        simp only [Nat.sub_self, if_true, ha, foldLifetime_shifter]
        exact ⟨_, rfl⟩
    · simp only [hle, if_false]; exact ⟨_, rfl⟩
  | infer v => simp only [foldLifetime, applyFolder]; exact ⟨_, rfl⟩
  | placeholder ui idx => simp only [foldLifetime, applyFolder]; exact ⟨_, rfl⟩
  | static => simp only [foldLifetime]; exact ⟨_, rfl⟩
  | erased => simp only [foldLifetime]; exact ⟨_, rfl⟩
  | error => simp only [foldLifetime]; exact ⟨_, rfl⟩

mutual
  theorem foldTy_apply_ok (cty : Nat → Ty) (kinds : List VarKind) (params : List GArg)
      (hm : kindsMatch kinds params = true) (outer : Nat) : (t : Ty) → t.scoped cty kinds outer = true →
      ∃ r, foldTy (applyFolder params) outer t = .ok r
    | .app n args, h => by
        simp [Ty.scoped] at h
        obtain ⟨r, hr⟩ := foldArgs_apply_ok cty kinds params hm outer args h
        simp only [foldTy, hr]; exact ⟨_, rfl⟩
    | .scalar s, _ => by simp only [foldTy]; exact ⟨_, rfl⟩
    | .str, _ => by simp only [foldTy]; exact ⟨_, rfl⟩
    | .never, _ => by simp only [foldTy]; exact ⟨_, rfl⟩
    | .foreign id, _ => by simp only [foldTy]; exact ⟨_, rfl⟩
    | .error, _ => by simp only [foldTy]; exact ⟨_, rfl⟩
    | .array t c, h => by
        simp [Ty.scoped] at h
        obtain ⟨r1, h1⟩ := foldTy_apply_ok cty kinds params hm outer t h.1
        obtain ⟨r2, h2⟩ := foldConst_apply_ok cty kinds params hm outer c h.2
        simp only [foldTy, h1, h2]; exact ⟨_, rfl⟩
    | .slice t, h => by
        simp [Ty.scoped] at h
        obtain ⟨r1, h1⟩ := foldTy_apply_ok cty kinds params hm outer t h
        simp only [foldTy, h1]; exact ⟨_, rfl⟩
    | .raw m t, h => by
        simp [Ty.scoped] at h
        obtain ⟨r1, h1⟩ := foldTy_apply_ok cty kinds params hm outer t h
        simp only [foldTy, h1]; exact ⟨_, rfl⟩
    | .ref m l t, h => by
        simp [Ty.scoped] at h
        obtain ⟨r1, h1⟩ := foldTy_apply_ok cty kinds params hm outer t h.2
        obtain ⟨r2, h2⟩ := foldLifetime_apply_ok cty kinds params hm outer l h.1
        simp only [foldTy, h1, h2]; exact ⟨_, rfl⟩
    | .placeholder ui idx, _ => by simp only [foldTy, applyFolder]; exact ⟨_, rfl⟩
    | .dyn ks bounds l, h => by
        simp [Ty.scoped] at h
        obtain ⟨r1, h1⟩ := foldQWCs_apply_ok cty kinds params hm (outer+1) bounds h.1
        obtain ⟨r2, h2⟩ := foldLifetime_apply_ok cty kinds params hm outer l h.2
        simp only [foldTy, h1, h2]; exact ⟨_, rfl⟩
    | .proj id args, h => by
        simp [Ty.scoped] at h
        obtain ⟨r, hr⟩ := foldArgs_apply_ok cty kinds params hm outer args h
        simp only [foldTy, hr]; exact ⟨_, rfl⟩
    | .opaque id args, h => by
        simp [Ty.scoped] at h
        obtain ⟨r, hr⟩ := foldArgs_apply_ok cty kinds params hm outer args h
        simp only [foldTy, hr]; exact ⟨_, rfl⟩
    | .function nb sig args, h => by
        simp [Ty.scoped] at h
        obtain ⟨r, hr⟩ := foldArgs_apply_ok cty kinds params hm (outer+1) args h
        simp only [foldTy, hr]; exact ⟨_, rfl⟩
    | .bound db idx, h => by
        simp [Ty.scoped] at h
        simp only [foldTy, applyFolder]
        by_cases hle : outer ≤ db
        · simp only [hle, if_true]
          rcases h with h | ⟨h1, h2⟩
          · omega
          · subst h1
            cases hk : kinds[idx]? with
            | none => simp [hk] at h2
            | some k =>
              cases k <;> simp [hk] at h2
              rename_i tk
              obtain ⟨a, ha, hkk⟩ := kindsMatch_get kinds params hm idx (.ty tk) hk
              cases a <;> simp [GArg.hasKind] at hkk
              simp [ha, foldTy_shifter]
        · simp [hle]
    | .infer v k, _ => by simp only [foldTy, applyFolder]; exact ⟨_, rfl⟩
  theorem foldConst_apply_ok (cty : Nat → Ty) (kinds : List VarKind) (params : List GArg)
      (hm : kindsMatch kinds params = true) (outer : Nat) : (c : Const) → c.scoped cty kinds outer = true →
      ∃ r, foldConst (applyFolder params) outer c = .ok r
    | .mk ty (.bound db idx), h => by
        simp [Const.scoped] at h
        simp only [foldConst, applyFolder]
        by_cases hle : outer ≤ db
        · simp only [hle, if_true]
          rcases h with h | ⟨h1, h2⟩
          · omega
          · subst h1
            cases hk : kinds[idx]? with
            | none => simp [hk] at h2
            | some k =>
              cases k <;> simp [hk] at h2
              rename_i code
              obtain ⟨a, ha, hkk⟩ := kindsMatch_get kinds params hm idx (.const code) hk
              cases a <;> simp [GArg.hasKind] at hkk
              simp [ha, foldConst_shifter]
        · simp [hle]
    | .mk ty (.infer v), h => by
        simp [Const.scoped] at h
        obtain ⟨r, hr⟩ := foldTy_apply_ok cty kinds params hm outer ty h
        refine ⟨.mk r (.infer v), ?_⟩
        simp [foldConst, applyFolder] at *; simp [hr]
    | .mk ty (.placeholder ui idx), h => by
        simp [Const.scoped] at h
        obtain ⟨r, hr⟩ := foldTy_apply_ok cty kinds params hm outer ty h
        refine ⟨.mk r (.placeholder ui idx), ?_⟩
        simp [foldConst, applyFolder] at *; simp [hr]
    | .mk ty (.concrete k), h => by
        simp [Const.scoped] at h
        obtain ⟨r, hr⟩ := foldTy_apply_ok cty kinds params hm outer ty h
        simp only [foldConst, hr]; exact ⟨_, rfl⟩
  theorem foldGArg_apply_ok (cty : Nat → Ty) (kinds : List VarKind) (params : List GArg)
      (hm : kindsMatch kinds params = true) (outer : Nat) : (a : GArg) → a.scoped cty kinds outer = true →
      ∃ r, foldGArg (applyFolder params) outer a = .ok r
    | .ty t, h => by
        simp [GArg.scoped] at h
        obtain ⟨r, hr⟩ := foldTy_apply_ok cty kinds params hm outer t h
        simp only [foldGArg, hr]; exact ⟨_, rfl⟩
    | .lt l, h => by
        simp [GArg.scoped] at h
        obtain ⟨r, hr⟩ := foldLifetime_apply_ok cty kinds params hm outer l h
        simp only [foldGArg, hr]; exact ⟨_, rfl⟩
    | .ct c, h => by
        simp [GArg.scoped] at h
        obtain ⟨r, hr⟩ := foldConst_apply_ok cty kinds params hm outer c h
        simp only [foldGArg, hr]; exact ⟨_, rfl⟩
  theorem foldArgs_apply_ok (cty : Nat → Ty) (kinds : List VarKind) (params : List GArg)
      (hm : kindsMatch kinds params = true) (outer : Nat) : (a : Args) → a.scoped cty kinds outer = true →
      ∃ r, foldArgs (applyFolder params) outer a = .ok r
    | .nil, _ => by simp only [foldArgs]; exact ⟨_, rfl⟩
    | .cons a as, h => by
        simp [Args.scoped] at h
        obtain ⟨r1, h1⟩ := foldGArg_apply_ok cty kinds params hm outer a h.1
        obtain ⟨r2, h2⟩ := foldArgs_apply_ok cty kinds params hm outer as h.2
        simp only [foldArgs, h1, h2]; exact ⟨_, rfl⟩
  theorem foldWC_apply_ok (cty : Nat → Ty) (kinds : List VarKind) (params : List GArg)
      (hm : kindsMatch kinds params = true) (outer : Nat) : (w : WC) → w.scoped cty kinds outer = true →
      ∃ r, foldWC (applyFolder params) outer w = .ok r
    | .implemented tr args, h => by
        simp [WC.scoped] at h
        obtain ⟨r, hr⟩ := foldArgs_apply_ok cty kinds params hm outer args h
        simp only [foldWC, hr]; exact ⟨_, rfl⟩
    | .aliasEqProj id args ty, h => by
        simp [WC.scoped] at h
        obtain ⟨r1, h1⟩ := foldArgs_apply_ok cty kinds params hm outer args h.1
        obtain ⟨r2, h2⟩ := foldTy_apply_ok cty kinds params hm outer ty h.2
        simp only [foldWC, h1, h2]; exact ⟨_, rfl⟩
    | .aliasEqOpaque id args ty, h => by
        simp [WC.scoped] at h
        obtain ⟨r1, h1⟩ := foldArgs_apply_ok cty kinds params hm outer args h.1
        obtain ⟨r2, h2⟩ := foldTy_apply_ok cty kinds params hm outer ty h.2
        simp only [foldWC, h1, h2]; exact ⟨_, rfl⟩
    | .ltOutlives a b, h => by
        simp [WC.scoped] at h
        obtain ⟨r1, h1⟩ := foldLifetime_apply_ok cty kinds params hm outer a h.1
        obtain ⟨r2, h2⟩ := foldLifetime_apply_ok cty kinds params hm outer b h.2
        simp only [foldWC, h1, h2]; exact ⟨_, rfl⟩
    | .tyOutlives t l, h => by
        simp [WC.scoped] at h
        obtain ⟨r1, h1⟩ := foldTy_apply_ok cty kinds params hm outer t h.1
        obtain ⟨r2, h2⟩ := foldLifetime_apply_ok cty kinds params hm outer l h.2
        simp only [foldWC, h1, h2]; exact ⟨_, rfl⟩
  theorem foldQWC_apply_ok (cty : Nat → Ty) (kinds : List VarKind) (params : List GArg)
      (hm : kindsMatch kinds params = true) (outer : Nat) : (q : QWC) → q.scoped cty kinds outer = true →
      ∃ r, foldQWC (applyFolder params) outer q = .ok r
    | .mk ks wc, h => by
        simp [QWC.scoped] at h
        obtain ⟨r, hr⟩ := foldWC_apply_ok cty kinds params hm (outer+1) wc h
        simp only [foldQWC, hr]; exact ⟨_, rfl⟩
  theorem foldQWCs_apply_ok (cty : Nat → Ty) (kinds : List VarKind) (params : List GArg)
      (hm : kindsMatch kinds params = true) (outer : Nat) : (q : QWCs) → q.scoped cty kinds outer = true →
      ∃ r, foldQWCs (applyFolder params) outer q = .ok r
    | .nil, _ => by simp only [foldQWCs]; exact ⟨_, rfl⟩
    | .cons q qs, h => by
        simp [QWCs.scoped] at h
        obtain ⟨r1, h1⟩ := foldQWC_apply_ok cty kinds params hm outer q h.1
        obtain ⟨r2, h2⟩ := foldQWCs_apply_ok cty kinds params hm outer qs h.2
        simp only [foldQWCs, h1, h2]; exact ⟨_, rfl⟩
end

end Chalk
