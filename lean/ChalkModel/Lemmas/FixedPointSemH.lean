/-
  FixedPointSemH.lean — equation lemmas for `solveNewSubgoal` / `solveGoal`, the state after the
  push, and the partial-correctness specification of the loop.
-/
import ChalkModel.Lemmas.FixedPointSemE
import ChalkModel.Lemmas.FixedPointSemF
import ChalkModel.Lemmas.FixedPointSemG

namespace Chalk.FixedPoint.Cyc

/-! ### equation lemmas -/

/-- the state after the bookkeeping at the end of an iteration in which the cycle flag was set -/
def afterRound (depth dfn : Nat) (cur : V) (s1 : St) : St :=
  { s1 with stack := setCycle false depth s1.stack,
            graph := updateNode (fun n => { n with solution := cur }) dfn s1.graph }

theorem solveNewSubgoal_step (inst : Instance) (cfg : Cfg) (rec : SubSolver) (g depth dfn r : Nat)
    (s s0 s1 : St) (cur : V) (m : Min) (e : StackEntry) (node : Node)
    (ht : tick cfg s = .ok () s0) (hi : solveIteration inst cfg rec g none s0 = .ok (cur, m) s1)
    (he : s1.stack[depth]? = some e) (hn : s1.graph[dfn]? = some node) :
    solveNewSubgoal inst cfg rec g depth dfn (r + 1) s =
      if !e.cycle then
        .ok m { s1 with graph := updateNode (fun n => { n with solution := cur }) dfn s1.graph }
      else if reachedFixedPoint node.solution cur then
        .ok m (if cfg.fixF10 && node.solution != cur then rollbackTo (dfn + 1) (afterRound depth dfn cur s1)
               else afterRound depth dfn cur s1)
      else solveNewSubgoal inst cfg rec g depth dfn r (rollbackTo (dfn + 1) (afterRound depth dfn cur s1)) := by
  simp only [solveNewSubgoal, ht, hi, he, hn, afterRound]

theorem solveNewSubgoal_tick_panic (inst : Instance) (cfg : Cfg) (rec : SubSolver) (g depth dfn r : Nat)
    (s s0 : St) (site : Site) (ht : tick cfg s = .panic site s0) :
    solveNewSubgoal inst cfg rec g depth dfn (r + 1) s = .panic site s0 := by
  simp only [solveNewSubgoal, ht]

theorem solveNewSubgoal_iter_panic (inst : Instance) (cfg : Cfg) (rec : SubSolver) (g depth dfn r : Nat)
    (s s0 s1 : St) (site : Site) (ht : tick cfg s = .ok () s0)
    (hi : solveIteration inst cfg rec g none s0 = .panic site s1) :
    solveNewSubgoal inst cfg rec g depth dfn (r + 1) s = .panic site s1 := by
  simp only [solveNewSubgoal, ht, hi]

/-- the bookkeeping of `solve_goal` after the loop returned -/
def finishGoal (cfg : Cfg) (m : Min) (depth dfn : Nat) (sub : Min) (s3 : St) : Res (V × Min) :=
  let s4 := { s3 with graph := updateNode (fun n => { n with links := sub, stackDepth := none }) dfn s3.graph }
  match pop depth s4 with
  | .panic site s' => .panic site s'
  | .ok () s5 =>
  let m' := Min.updateFrom m sub
  match s5.graph[dfn]? with
  | none => .panic .index s5
  | some node =>
    let result := node.solution
    if Min.ge sub dfn then
      match s5.cache with
      | some c =>
        if cfg.fixF3 && s5.interrupted then .ok (result, m') (rollbackTo dfn s5)
        else
          match moveToCache dfn c s5 with
          | .panic site s' => .panic site s'
          | .ok () s6 => .ok (result, m') s6
      | none => .ok (result, m') (rollbackTo dfn s5)
    else .ok (result, m') s5

/-- the state on which the loop for a new goal starts -/
def pushed (inst : Instance) (g : Nat) (s : St) : St :=
  { s with stack := s.stack ++ [⟨inst.coind g, false⟩],
           graph := s.graph ++ [⟨g, initialValue (inst.coind g), some s.stack.length, some s.graph.length⟩] }

/-- the cache lookup at the head of `solve_goal` (`none` also when caching is disabled) -/
def cacheLookup (s : St) (g : Nat) : Option V :=
  match s.cache with
  | some c => cacheGet c g
  | none => none

theorem inCache_iff_lookup (s : St) (g : Nat) (v : V) : InCache s g v ↔ cacheLookup s g = some v := by
  unfold InCache cacheLookup
  cases s.cache with
  | none => simp
  | some cc => simp

theorem solveGoal_new (inst : Instance) (cfg : Cfg) (d g : Nat) (m : Min) (s s0 : St)
    (ht : tick cfg s = .ok () s0) (hc : cacheLookup s0 g = none)
    (hl : lookup s0.graph g = none) (hov : ¬ cfg.overflowDepth ≤ s0.stack.length) :
    solveGoal inst cfg (d + 1) g m s =
      match solveNewSubgoal inst cfg (solveGoal inst cfg d) g s0.stack.length s0.graph.length cfg.rounds
          (pushed inst g s0) with
      | .panic site s' => .panic site s'
      | .ok sub s3 => finishGoal cfg m s0.stack.length s0.graph.length sub s3 := by
  unfold cacheLookup at hc
  cases hcc : s0.cache with
  | none =>
    simp only [solveGoal, ht, hcc, hl, push, hov, if_false, pushed, finishGoal]
    rfl
  | some cc =>
    rw [hcc] at hc
    simp only at hc
    simp only [solveGoal, ht, hcc, hc, hl, push, hov, if_false, pushed, finishGoal]
    rfl

theorem solveGoal_cached (inst : Instance) (cfg : Cfg) (d g : Nat) (m : Min) (s s0 : St) (v : V)
    (ht : tick cfg s = .ok () s0) (hc : cacheLookup s0 g = some v) :
    solveGoal inst cfg (d + 1) g m s = .ok (v, m) s0 := by
  unfold cacheLookup at hc
  cases hcc : s0.cache with
  | none => rw [hcc] at hc; cases hc
  | some cc =>
    rw [hcc] at hc
    simp only at hc
    simp only [solveGoal, ht, hcc, hc]

theorem solveGoal_hit (inst : Instance) (cfg : Cfg) (d g : Nat) (m : Min) (s s0 : St)
    (ht : tick cfg s = .ok () s0) (hc : cacheLookup s0 g = none)
    (dfn : Nat) (hl : lookup s0.graph g = some dfn) (node : Node)
    (hn : s0.graph[dfn]? = some node) :
    solveGoal inst cfg (d + 1) g m s =
      match node.stackDepth with
      | some depth =>
        if s0.stack.length ≤ depth then .panic .index s0 else
        if mixedFrom (setCycle true depth s0.stack) depth then
          .ok (errorValue, m) { s0 with stack := setCycle true depth s0.stack }
        else .ok (node.solution, Min.updateFrom m node.links) { s0 with stack := setCycle true depth s0.stack }
      | none => .ok (node.solution, Min.updateFrom m node.links) s0 := by
  unfold cacheLookup at hc
  cases hcc : s0.cache with
  | none =>
    simp only [solveGoal, ht, hcc, hl, hn]
    rfl
  | some cc =>
    rw [hcc] at hc
    simp only at hc
    simp only [solveGoal, ht, hcc, hc, hl, hn]
    rfl

theorem solveGoal_tick_panic (inst : Instance) (cfg : Cfg) (d g : Nat) (m : Min) (s s0 : St) (site : Site)
    (ht : tick cfg s = .panic site s0) : solveGoal inst cfg (d + 1) g m s = .panic site s0 := by
  simp only [solveGoal, ht]

theorem solveGoal_overflow (inst : Instance) (cfg : Cfg) (d g : Nat) (m : Min) (s s0 : St)
    (ht : tick cfg s = .ok () s0) (hc : cacheLookup s0 g = none) (hl : lookup s0.graph g = none)
    (hov : cfg.overflowDepth ≤ s0.stack.length) :
    solveGoal inst cfg (d + 1) g m s = .panic .overflow s0 := by
  unfold cacheLookup at hc
  cases hcc : s0.cache with
  | none => simp only [solveGoal, ht, hcc, hl, push, hov, if_true]
  | some cc =>
    rw [hcc] at hc
    simp only at hc
    simp only [solveGoal, ht, hcc, hc, hl, push, hov, if_true]

/-! ### stack-only changes -/

section
variable {c : Bool} {inst : Instance} {dom : List Nat} {fx : Bool}

theorem Inv.stackChange {s s' : St} (h : Inv c inst dom fx s) (hg : s'.graph = s.graph) (R : Rest s s')
    (hext : StackExt s.stack s'.stack) : Inv c inst dom fx s' := by
  have hwit : ∀ {lb : Min} {j : Nat}, Wit c inst s lb j → Wit c inst s' lb j :=
    fun hw => hw.from0 ⟨[], by rw [hg, List.append_nil]⟩ (fun d hd => hext.flag hd)
  refine ⟨fixes_of_eq h.fixes R.oracle R.oracleDefault R.interrupted, ?_,
    fun k v hk => h.cacheOK k v (R.inCache.mp hk), ?_, ?_, ?_, ?_, ?_, ?_, ?_, ?_, ?_, ?_⟩
  · intro i n hn ha
    rw [hg] at hn
    rw [R.interrupted]; exact h.amb i n hn ha
  · intro e' he'
    obtain ⟨i, hi⟩ := List.getElem?_of_mem he'
    have hlt : i < s.stack.length := by rw [← hext.1]; exact getElem?_lt_length hi
    obtain ⟨e'', he'', hco, _⟩ := hext.2 i s.stack[i] (List.getElem?_eq_getElem hlt)
    rw [hi] at he''
    cases he''
    rw [hco]
    exact h.stackCo _ (List.getElem_mem hlt)
  · rw [hg]; exact h.nodup
  · intro i n hn v hc
    rw [hg] at hn
    exact h.disj i n hn v (R.inCache.mp hc)
  · rw [hg]; exact h.inDom
  · rw [hg]; exact h.val
  · rw [hg]; exact h.approx
  · intro i n d hn hd
    rw [hg] at hn
    have := h.stk i n d hn hd
    exact ⟨by rw [hext.1]; exact this.1, this.2⟩
  · rw [hg]; exact h.nonstk
  · rw [hg, hext.1]; exact h.cnt
  · intro i n hn hd htop
    rw [hg] at hn
    exact J.mono (fun j hj => hwit hj) (h.just i n hn hd htop)

theorem stackExt_setCycle_true (d : Nat) (st : List StackEntry) : StackExt st (setCycle true d st) := by
  refine ⟨setCycle_length _ _ _, fun i e he => ?_⟩
  by_cases hid : i = d
  · subst hid
    exact ⟨_, setCycle_getElem?_eq true i st e he, rfl, fun _ => rfl⟩
  · exact ⟨e, by rw [setCycle_getElem?_ne _ _ _ _ hid]; exact he, rfl, id⟩

theorem Step.stackOnly {s s' : St} (hg : s'.graph = s.graph) (R : Rest s s')
    (hext : StackExt s.stack s'.stack) (lb : Min) : Step c inst s s' lb := by
  have hd : ∀ k v, Def s k v → Def s' k v := by
    intro k v h
    cases h with
    | inl h => exact Or.inl (R.inCache.mpr h)
    | inr h =>
      obtain ⟨i, n, hn, h2⟩ := h
      exact Or.inr ⟨i, n, by rw [hg]; exact hn, h2⟩
  refine ⟨⟨[], by rw [hg, List.append_nil], fun n hn => by cases hn⟩, hext,
    fun k v h => R.inCache.mpr h, hd, ?_, by rw [R.cache], fun e => by rw [R.interrupted]; exact e,
    fun q => ⟨⟨by rw [R.oracle]; exact q.1, by rw [R.oracleDefault]; exact q.2⟩,
      fun e => by rw [R.interrupted]; exact e⟩⟩
  intro k hu hdef
  exfalso
  cases hdef with
  | inl h => exact hu _ (Or.inl (R.inCache.mp h))
  | inr h =>
    obtain ⟨i, n, hn, h2⟩ := h
    rw [hg] at hn
    exact hu _ (Or.inr ⟨i, n, hn, h2⟩)

theorem Inv.not_inG_of_bot {s : St} (h : Inv c inst dom fx s) {k : Nat} (hd : Def s k (bot c)) :
    ¬ InG c inst s k := by
  intro hin
  cases hin.unfold with
  | inl h2 =>
    cases h2 with
    | inl h3 => exact top_ne_bot c (h.defFun h3 hd)
    | inr h3 => exact bot_ne_ambig c (h.defFun hd h3)
  | inr h2 => exact h2.1 _ hd

theorem mixedFrom_false {st : List StackEntry} (h : ∀ e, e ∈ st → e.coinductiveGoal = c) (d : Nat) :
    mixedFrom st d = false := by
  unfold mixedFrom
  have hmem : ∀ e, e ∈ st.drop d → e.coinductiveGoal = c := fun e he => h e (List.mem_of_mem_drop he)
  cases c with
  | true =>
    have : (st.drop d).any (fun e => !e.coinductiveGoal) = false := by
      rw [List.any_eq_false]
      intro e he
      simp [hmem e he]
    simp [this]
  | false =>
    have : (st.drop d).any (fun e => e.coinductiveGoal) = false := by
      rw [List.any_eq_false]
      intro e he
      simp [hmem e he]
    simp [this]

/-- the state after the push starts the loop -/
theorem push_loopSt (hyp : Hyp c inst dom) {s0 : St} (i0 : Inv c inst dom fx s0) {g : Nat} (hu : Undef s0 g)
    (hg : g ∈ dom) : LoopSt c inst dom fx s0 g (pushed inst g s0) := by
  have hco : inst.coind g = c := hyp.coind g hg
  have hgr : (pushed inst g s0).graph = s0.graph ++ [headNode s0 g (top c)] := by
    simp only [pushed, headNode, top, hco]
  have hst : (pushed inst g s0).stack = s0.stack ++ [⟨c, false⟩] := by
    simp only [pushed, hco]
  have hlen : (pushed inst g s0).stack.length = s0.stack.length + 1 := by
    rw [hst, List.length_append]; rfl
  have hsext : ∀ (i : Nat) (e : StackEntry), s0.stack[i]? = some e →
      ∃ e' : StackEntry, (pushed inst g s0).stack[i]? = some e' ∧
      e'.coinductiveGoal = e.coinductiveGoal ∧ (e.cycle = true → e'.cycle = true) := by
    intro i e he
    exact ⟨e, by rw [hst]; exact getElem?_prefix he, rfl, id⟩
  have hflag : ∀ d, flagAt s0.stack d → flagAt (pushed inst g s0).stack d := by
    intro d hd
    obtain ⟨e, he, hc⟩ := hd
    exact ⟨e, by rw [hst]; exact getElem?_prefix he, hc⟩
  have hnode : ∀ {i : Nat} {n : Node}, (pushed inst g s0).graph[i]? = some n →
      (i < s0.graph.length ∧ s0.graph[i]? = some n) ∨ (i = s0.graph.length ∧ n = headNode s0 g (top c)) := by
    intro i n hn
    rw [hgr] at hn
    exact single_cases _ _ i n hn
  have hcache : ∀ k v, InCache (pushed inst g s0) k v ↔ InCache s0 k v := fun k v => Iff.rfl
  have hinv : Inv c inst dom fx (pushed inst g s0) := by
    refine ⟨i0.fixes, ?_, i0.cacheOK, ?_, ?_, ?_, ?_, ?_, ?_, ?_, ?_, ?_, ?_⟩
    · intro i n hn ha
      cases hnode hn with
      | inl h => exact i0.amb i n h.2 ha
      | inr h => rw [h.2] at ha; exact absurd ha (top_ne_ambig c)
    · intro e he
      rw [hst] at he
      cases List.mem_append.mp he with
      | inl h => exact i0.stackCo e h
      | inr h => rw [List.mem_singleton.mp h]
    · rw [hgr, List.map_append, List.nodup_append]
      refine ⟨i0.nodup, by simp, ?_⟩
      intro a ha b hb hab
      simp only [List.map_cons, List.map_nil, List.mem_singleton, headNode] at hb
      obtain ⟨n, hn, hgo⟩ := List.mem_map.mp ha
      obtain ⟨i, hi⟩ := List.getElem?_of_mem hn
      exact hu n.solution (Or.inr ⟨i, n, hi, by rw [hgo, hab, hb], rfl⟩)
    · intro i n hn v hc
      cases hnode hn with
      | inl h => exact i0.disj i n h.2 v hc
      | inr h => rw [h.2] at hc; exact hu v (Or.inl hc)
    · intro i n hn
      cases hnode hn with
      | inl h => exact i0.inDom i n h.2
      | inr h => rw [h.2]; exact hg
    · intro i n hn
      cases hnode hn with
      | inl h => exact i0.val i n h.2
      | inr h => rw [h.2]; exact Or.inl rfl
    · intro i n hn hb
      cases hnode hn with
      | inl h => exact i0.approx i n h.2 hb
      | inr h => rw [h.2] at hb; exact absurd hb (top_ne_bot c)
    · intro i n d hn hd
      cases hnode hn with
      | inl h =>
        have := i0.stk i n d h.2 hd
        exact ⟨by rw [hlen]; exact Nat.lt_succ_of_lt this.1, this.2⟩
      | inr h =>
        rw [h.2] at hd ⊢
        simp only [headNode, Option.some.injEq] at hd
        subst hd
        exact ⟨by rw [hlen]; exact Nat.lt_succ_self _, by rw [h.1]; rfl⟩
    · intro i n hn hd
      cases hnode hn with
      | inl h => exact i0.nonstk i n h.2 hd
      | inr h => rw [h.2] at hd; cases hd
    · rw [hgr, stackGoals_append, List.length_append, i0.cnt, hlen]
      rfl
    · intro i n hn hd htop
      cases hnode hn with
      | inl h => exact J.mono (fun j hj => hj.from0 ⟨_, hgr⟩ hflag) (i0.just i n h.2 hd htop)
      | inr h => rw [h.2] at hd; cases hd
  refine ⟨i0, hu, hg, hinv, ⟨top c, hgr⟩, hlen, hsext, fun k v h => h, ?_, rfl, id, fun q => ⟨q, id⟩⟩
  intro k hu' hd
  exfalso
  cases hd with
  | inl h => exact hu' _ (Or.inl h)
  | inr h =>
    obtain ⟨i, n, hn, hgo, hv⟩ := h
    cases hnode hn with
    | inl h1 => exact hu' _ (Or.inr ⟨i, n, h1.2, hgo, hv⟩)
    | inr h1 => rw [h1.2] at hv; exact top_ne_bot c hv

theorem LoopSt.work {s0 st : St} {g : Nat} (L : LoopSt c inst dom fx s0 g st) (w : Nat) :
    LoopSt c inst dom fx s0 g { st with work := w } :=
  ⟨L.i0, L.u0, L.gdom, L.inv.work w, L.graph, L.slen, L.sext, L.cacheExt, L.low, L.cacheMode, L.intr, L.quiet⟩

end

end Chalk.FixedPoint.Cyc
