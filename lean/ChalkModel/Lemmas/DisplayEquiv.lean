/-
  Equivalence of programs up to the order / multiplicity of `dyn` bounds and where-clause lists,
  the `Lowered` and `NoAliasEq` predicates, and the theorems relating `reparse` and `print`.
-/
import ChalkModel.Display

namespace Chalk.Display

/-! ## The equivalence -/

mutual
  def Ty.equiv : Ty → Ty → Bool
    | .adt id args, t => match t with
        | .adt id' args' => id == id' && Args.equiv args args'
        | _ => false
    | .scalar s, t => match t with
        | .scalar s' => s == s'
        | _ => false
    | .tuple ts, t => match t with
        | .tuple ts' => Tys.equiv ts ts'
        | _ => false
    | .ref m l a, t => match t with
        | .ref m' l' a' => m == m' && l == l' && Ty.equiv a a'
        | _ => false
    | .raw m a, t => match t with
        | .raw m' a' => m == m' && Ty.equiv a a'
        | _ => false
    | .slice a, t => match t with
        | .slice a' => Ty.equiv a a'
        | _ => false
    | .array a c, t => match t with
        | .array a' c' => Ty.equiv a a' && c == c'
        | _ => false
    | .fnPtr nb args ret, t => match t with
        | .fnPtr nb' args' ret' => nb == nb' && Tys.equiv args args' && Ty.equiv ret ret'
        | _ => false
    | .proj tr assoc self targs aargs, t => match t with
        | .proj tr' assoc' self' targs' aargs' =>
            tr == tr' && assoc == assoc' && Ty.equiv self self' && Args.equiv targs targs'
              && Args.equiv aargs aargs'
        | _ => false
    | .dyn as l, t => match t with
        | .dyn bs l' =>
            l == l' && Bounds.coveredBy as bs.toList && bs.toList.all (fun b => Bounds.covers as b)
        | _ => false
    | .never, t => match t with
        | .never => true
        | _ => false
    | .str, t => match t with
        | .str => true
        | _ => false
    | .bound d i, t => match t with
        | .bound d' i' => d == d' && i == i'
        | _ => false
  termination_by structural t => t
  def GArg.equiv : GArg → GArg → Bool
    | .ty a, g => match g with
        | .ty a' => Ty.equiv a a'
        | _ => false
    | .lt l, g => match g with
        | .lt l' => l == l'
        | _ => false
    | .ct c, g => match g with
        | .ct c' => c == c'
        | _ => false
  termination_by structural t => t
  def Args.equiv : Args → Args → Bool
    | .nil, x => match x with
        | .nil => true
        | _ => false
    | .cons a as, x => match x with
        | .cons b bs => GArg.equiv a b && Args.equiv as bs
        | _ => false
  termination_by structural t => t
  def Tys.equiv : Tys → Tys → Bool
    | .nil, x => match x with
        | .nil => true
        | _ => false
    | .cons a as, x => match x with
        | .cons b bs => Ty.equiv a b && Tys.equiv as bs
        | _ => false
  termination_by structural t => t
  def Bound.equiv : Bound → Bound → Bool
    | .trait ks tr args, x => match x with
        | .trait ks' tr' args' => ks == ks' && tr == tr' && Args.equiv args args'
        | _ => false
    | .aliasEq ks tr assoc targs aargs v, x => match x with
        | .aliasEq ks' tr' assoc' targs' aargs' v' =>
            ks == ks' && tr == tr' && assoc == assoc' && Args.equiv targs targs'
              && Args.equiv aargs aargs' && Ty.equiv v v'
        | _ => false
  termination_by structural t => t
  /-- some element of `as` is equivalent to `b` -/
  def Bounds.covers : Bounds → Bound → Bool
    | .nil, _ => false
    | .cons a as, b => Bound.equiv a b || Bounds.covers as b
  termination_by structural t => t
  /-- every element of `as` is equivalent to some element of `bs` -/
  def Bounds.coveredBy : Bounds → List Bound → Bool
    | .nil, _ => true
    | .cons a as, bs => bs.any (fun b => Bound.equiv a b) && Bounds.coveredBy as bs
  termination_by structural t => t
end

def WC.equiv : WC → WC → Bool
  | .implemented s tr a, .implemented s' tr' a' => Ty.equiv s s' && tr == tr' && Args.equiv a a'
  | .aliasEq s tr assoc ta aa v, .aliasEq s' tr' assoc' ta' aa' v' =>
      Ty.equiv s s' && tr == tr' && assoc == assoc' && Args.equiv ta ta' && Args.equiv aa aa'
        && Ty.equiv v v'
  | .ltOutlives a b, .ltOutlives a' b' => a == a' && b == b'
  | .tyOutlives t l, .tyOutlives t' l' => Ty.equiv t t' && l == l'
  | _, _ => false

def QWC.equiv (p q : QWC) : Bool := p.ks == q.ks && WC.equiv p.wc q.wc

/-- where-clause lists are compared as sets -/
def qwcsEquiv (a b : List QWC) : Bool :=
  a.all (fun x => b.any (fun y => QWC.equiv x y)) && b.all (fun y => a.any (fun x => QWC.equiv x y))

/-- position-wise comparison of two lists -/
def listEquiv {α : Type} (f : α → α → Bool) : List α → List α → Bool
  | [], [] => true
  | a :: as, b :: bs => f a b && listEquiv f as bs
  | _, _ => false

def AssocTyDatum.equiv (a b : AssocTyDatum) : Bool :=
  a.name == b.name && a.kinds == b.kinds && listEquiv Bound.equiv a.bounds b.bounds
    && qwcsEquiv a.wcs b.wcs

def AssocTyValue.equiv (a b : AssocTyValue) : Bool :=
  a.assoc == b.assoc && a.kinds == b.kinds && Ty.equiv a.value b.value

def AdtDatum.equiv (a b : AdtDatum) : Bool :=
  a.name == b.name && a.upstream == b.upstream && a.fundamental == b.fundamental
    && a.phantomData == b.phantomData && a.oneZst == b.oneZst && a.reprC == b.reprC
    && a.reprPacked == b.reprPacked && a.reprInt == b.reprInt && a.isEnum == b.isEnum
    && a.kinds == b.kinds && qwcsEquiv a.wcs b.wcs
    && listEquiv (listEquiv Ty.equiv) a.vfields b.vfields

def TraitDatum.equiv (a b : TraitDatum) : Bool :=
  a.name == b.name && a.auto == b.auto && a.marker == b.marker && a.upstream == b.upstream
    && a.fundamental == b.fundamental && a.nonEnumerable == b.nonEnumerable && a.coind == b.coind
    && a.objectSafe == b.objectSafe && a.wellKnown == b.wellKnown && a.kinds == b.kinds
    && qwcsEquiv a.wcs b.wcs && listEquiv AssocTyDatum.equiv a.assocs b.assocs

def ImplDatum.equiv (a b : ImplDatum) : Bool :=
  a.external == b.external && a.kinds == b.kinds && a.negative == b.negative && a.tr == b.tr
    && Args.equiv a.args b.args && Ty.equiv a.selfTy b.selfTy && qwcsEquiv a.wcs b.wcs
    && listEquiv AssocTyValue.equiv a.values b.values

def Item.equiv : Item → Item → Bool
  | .adt a, .adt b => AdtDatum.equiv a b
  | .trait a, .trait b => TraitDatum.equiv a b
  | .impl a, .impl b => ImplDatum.equiv a b
  | _, _ => false

def Program.equiv (p q : Program) : Bool := listEquiv Item.equiv p q

/-- `p ≈ q`: equal up to the order and multiplicity of where-clauses and of `dyn` bounds -/
def Program.Equiv (p q : Program) : Prop := Program.equiv p q = true
instance (p q : Program) : Decidable (Program.Equiv p q) := by unfold Program.Equiv; infer_instance
instance : HasEquiv Program := ⟨Program.Equiv⟩
instance (p q : Program) : Decidable (p ≈ q) := inferInstanceAs (Decidable (Program.Equiv p q))
theorem Program.equiv_iff (p q : Program) : p ≈ q ↔ Program.equiv p q = true := Iff.rfl

/-! ## `Lowered` -/

/-- `bs` contains the bound `forall<ks> tr<args>` -/
def Bounds.hasTrait : Bounds → List VK → String → Args → Bool
  | .nil, _, _, _ => false
  | .cons (.trait ks' tr' args') bs, ks, tr, args =>
      (ks == ks' && tr == tr' && args == args') || Bounds.hasTrait bs ks tr args
  | .cons (.aliasEq ..) bs, ks, tr, args => Bounds.hasTrait bs ks tr args

/-- every alias-eq bound of the first list has its trait bound in `all` -/
def Bounds.aliasOk : Bounds → Bounds → Bool
  | .nil, _ => true
  | .cons (.trait ..) bs, all => Bounds.aliasOk bs all
  | .cons (.aliasEq ks tr _ targs _ _) bs, all => all.hasTrait ks tr targs && Bounds.aliasOk bs all

mutual
  def Ty.lowered : Ty → Bool
    | .adt _ args => args.lowered
    | .scalar _ => true
    | .tuple ts => ts.lowered
    | .ref _ _ t => t.lowered
    | .raw _ t => t.lowered
    | .slice t => t.lowered
    | .array t _ => t.lowered
    | .fnPtr _ args ret => args.lowered && ret.lowered
    | .proj _ _ self targs aargs => self.lowered && targs.lowered && aargs.lowered
    | .dyn bs _ => bs.lowered && Bounds.aliasOk bs bs
    | .never => true
    | .str => true
    | .bound _ _ => true
  def GArg.lowered : GArg → Bool
    | .ty t => t.lowered
    | .lt _ => true
    | .ct _ => true
  def Args.lowered : Args → Bool
    | .nil => true
    | .cons a as => a.lowered && as.lowered
  def Tys.lowered : Tys → Bool
    | .nil => true
    | .cons t ts => t.lowered && ts.lowered
  /-- the types inside a bound are lowered -/
  def Bound.lowered : Bound → Bool
    | .trait _ _ args => args.lowered
    | .aliasEq _ _ _ targs aargs v => targs.lowered && aargs.lowered && v.lowered
  /-- the types inside all bounds are lowered -/
  def Bounds.lowered : Bounds → Bool
    | .nil => true
    | .cons b bs => b.lowered && bs.lowered
end

def WC.lowered : WC → Bool
  | .implemented s _ a => s.lowered && a.lowered
  | .aliasEq s _ _ ta aa v => s.lowered && ta.lowered && aa.lowered && v.lowered
  | .ltOutlives _ _ => true
  | .tyOutlives t _ => t.lowered

/-- the accompanying `Implemented` clause of an alias-eq clause is in `ws` -/
def QWC.implOk (ws : List QWC) (q : QWC) : Bool :=
  match q.wc with
  | .aliasEq self tr _ targs _ _ => ws.contains ⟨q.ks, .implemented self tr targs⟩
  | _ => true

def qwcsLowered (ws : List QWC) : Bool :=
  ws.all (fun q => q.wc.lowered && QWC.implOk ws q)

def AssocTyDatum.lowered (a : AssocTyDatum) : Bool :=
  a.bounds.all Bound.lowered && qwcsLowered a.wcs

def Item.lowered : Item → Bool
  | .adt d => qwcsLowered d.wcs && d.vfields.all (fun v => v.all Ty.lowered)
  | .trait d => qwcsLowered d.wcs && d.assocs.all AssocTyDatum.lowered
  | .impl d => d.args.lowered && d.selfTy.lowered && qwcsLowered d.wcs
      && d.values.all (fun v => v.value.lowered)

def Lowered (p : Program) : Bool := p.all Item.lowered

/-! ## `NoAliasEq` -/

mutual
  def Ty.noAlias : Ty → Bool
    | .adt _ args => args.noAlias
    | .scalar _ => true
    | .tuple ts => ts.noAlias
    | .ref _ _ t => t.noAlias
    | .raw _ t => t.noAlias
    | .slice t => t.noAlias
    | .array t _ => t.noAlias
    | .fnPtr _ args ret => args.noAlias && ret.noAlias
    | .proj _ _ self targs aargs => self.noAlias && targs.noAlias && aargs.noAlias
    | .dyn bs _ => bs.noAliasDyn
    | .never => true
    | .str => true
    | .bound _ _ => true
  def GArg.noAlias : GArg → Bool
    | .ty t => t.noAlias
    | .lt _ => true
    | .ct _ => true
  def Args.noAlias : Args → Bool
    | .nil => true
    | .cons a as => a.noAlias && as.noAlias
  def Tys.noAlias : Tys → Bool
    | .nil => true
    | .cons t ts => t.noAlias && ts.noAlias
  /-- bounds of a `dyn`: no alias-eq bound, and none inside the arguments -/
  def Bounds.noAliasDyn : Bounds → Bool
    | .nil => true
    | .cons (.trait _ _ args) bs => args.noAlias && bs.noAliasDyn
    | .cons (.aliasEq ..) _ => false
end

/-- an inline bound of an associated type: it may be an alias-eq bound, its types are checked -/
def Bound.noAliasInner : Bound → Bool
  | .trait _ _ args => args.noAlias
  | .aliasEq _ _ _ targs aargs v => targs.noAlias && aargs.noAlias && v.noAlias

def WC.noAlias : WC → Bool
  | .implemented s _ a => s.noAlias && a.noAlias
  | .aliasEq .. => false
  | .ltOutlives _ _ => true
  | .tyOutlives t _ => t.noAlias

def qwcsNoAlias (ws : List QWC) : Bool := ws.all (fun q => q.wc.noAlias)

def AssocTyDatum.noAlias (a : AssocTyDatum) : Bool :=
  a.bounds.all Bound.noAliasInner && qwcsNoAlias a.wcs

def Item.noAlias : Item → Bool
  | .adt d => qwcsNoAlias d.wcs && d.vfields.all (fun v => v.all Ty.noAlias)
  | .trait d => qwcsNoAlias d.wcs && d.assocs.all AssocTyDatum.noAlias
  | .impl d => d.args.noAlias && d.selfTy.noAlias && qwcsNoAlias d.wcs
      && d.values.all (fun v => v.value.noAlias)

def NoAliasEq (p : Program) : Bool := p.all Item.noAlias

/-! ## Examples -/

/-- `trait Baux { type Assoc; }  struct Foo<T> where T: Baux<Assoc = T>, T: Baux {}` -/
def refuteW : Program :=
  [ .trait ⟨"Baux", false, false, false, false, false, false, false, none, [.ty], [],
      [⟨"Assoc", [.ty], [], []⟩]⟩,
    .adt ⟨"Foo", false, false, false, false, false, false, none, false, [.ty],
      [⟨[], .aliasEq (.bound 1 0) "Baux" "Assoc" .nil .nil (.bound 1 0)⟩,
       ⟨[], .implemented (.bound 1 0) "Baux" .nil⟩], [[]]⟩ ]

theorem refuteW_lowered : Lowered refuteW = true := by decide

theorem print_stable_refuted : print (reparse refuteW) ≠ print refuteW := by decide

/-! ## Lemmas on `covers` / `coveredBy` / `hasTrait` -/

theorem Bounds.covers_iff : (as : Bounds) → (b : Bound) →
    (Bounds.covers as b = true ↔ ∃ a ∈ as.toList, Bound.equiv a b = true)
  | .nil, b => by simp [Bounds.covers, Bounds.toList]
  | .cons a as, b => by simp [Bounds.covers, Bounds.toList, Bounds.covers_iff as b]

theorem Bounds.coveredBy_iff : (as : Bounds) → (bs : List Bound) →
    (Bounds.coveredBy as bs = true ↔ ∀ a ∈ as.toList, ∃ b ∈ bs, Bound.equiv a b = true)
  | .nil, bs => by simp [Bounds.coveredBy, Bounds.toList]
  | .cons a as, bs => by simp [Bounds.coveredBy, Bounds.toList, Bounds.coveredBy_iff as bs]

theorem Bounds.hasTrait_iff : (bs : Bounds) → (ks : List VK) → (tr : String) → (args : Args) →
    (Bounds.hasTrait bs ks tr args = true ↔ Bound.trait ks tr args ∈ bs.toList)
  | .nil, ks, tr, args => by simp [Bounds.hasTrait, Bounds.toList]
  | .cons (.trait ks' tr' args') bs, ks, tr, args => by
      simp [Bounds.hasTrait, Bounds.toList, Bounds.hasTrait_iff bs ks tr args, and_assoc]
  | .cons (.aliasEq ..) bs, ks, tr, args => by
      simp [Bounds.hasTrait, Bounds.toList, Bounds.hasTrait_iff bs ks tr args]

/-! ## Reflexivity -/

mutual
  theorem Ty.equiv_refl : (t : Ty) → Ty.equiv t t = true
    | .adt id args => by simp [Ty.equiv, Args.equiv_refl args]
    | .scalar s => by simp [Ty.equiv]
    | .tuple ts => by simp [Ty.equiv, Tys.equiv_refl ts]
    | .ref m l t => by simp [Ty.equiv, Ty.equiv_refl t]
    | .raw m t => by simp [Ty.equiv, Ty.equiv_refl t]
    | .slice t => by simp [Ty.equiv, Ty.equiv_refl t]
    | .array t c => by simp [Ty.equiv, Ty.equiv_refl t]
    | .fnPtr nb args ret => by simp [Ty.equiv, Tys.equiv_refl args, Ty.equiv_refl ret]
    | .proj tr assoc self targs aargs => by
        simp [Ty.equiv, Ty.equiv_refl self, Args.equiv_refl targs, Args.equiv_refl aargs]
    | .dyn bs l => by
        have h := Bounds.equiv_refl bs
        simp only [Ty.equiv, Bool.and_eq_true, beq_self_eq_true, true_and, List.all_eq_true,
          Bounds.coveredBy_iff, Bounds.covers_iff]
        exact ⟨fun a ha => ⟨a, ha, h a ha⟩, fun a ha => ⟨a, ha, h a ha⟩⟩
    | .never => by simp [Ty.equiv]
    | .str => by simp [Ty.equiv]
    | .bound d i => by simp [Ty.equiv]
  theorem GArg.equiv_refl : (g : GArg) → GArg.equiv g g = true
    | .ty t => by simp [GArg.equiv, Ty.equiv_refl t]
    | .lt l => by simp [GArg.equiv]
    | .ct c => by simp [GArg.equiv]
  theorem Args.equiv_refl : (as : Args) → Args.equiv as as = true
    | .nil => by simp [Args.equiv]
    | .cons a as => by simp [Args.equiv, GArg.equiv_refl a, Args.equiv_refl as]
  theorem Tys.equiv_refl : (ts : Tys) → Tys.equiv ts ts = true
    | .nil => by simp [Tys.equiv]
    | .cons t ts => by simp [Tys.equiv, Ty.equiv_refl t, Tys.equiv_refl ts]
  theorem Bound.equiv_refl : (b : Bound) → Bound.equiv b b = true
    | .trait ks tr args => by simp [Bound.equiv, Args.equiv_refl args]
    | .aliasEq ks tr assoc targs aargs v => by
        simp [Bound.equiv, Args.equiv_refl targs, Args.equiv_refl aargs, Ty.equiv_refl v]
  theorem Bounds.equiv_refl : (bs : Bounds) → ∀ b ∈ bs.toList, Bound.equiv b b = true
    | .nil => by simp [Bounds.toList]
    | .cons b bs => by
        simp only [Bounds.toList, List.mem_cons]
        rintro x (rfl | hx)
        · exact Bound.equiv_refl x
        · exact Bounds.equiv_refl bs x hx
end

/-! ## `expandDyn` as a list -/

theorem Bounds.mem_expandDyn_of_mem : (bs : Bounds) → (b : Bound) → b ∈ bs.toList →
    b.expandInner ∈ bs.expandDyn.toList
  | .nil, b, h => by simp [Bounds.toList] at h
  | .cons (.trait ks tr args) bs, b, h => by
      simp only [Bounds.toList, List.mem_cons] at h
      simp only [Bounds.expandDyn, Bounds.toList, List.mem_cons]
      rcases h with rfl | h
      · exact Or.inl (by simp [Bound.expandInner])
      · exact Or.inr (Bounds.mem_expandDyn_of_mem bs b h)
  | .cons (.aliasEq ks tr assoc targs aargs v) bs, b, h => by
      simp only [Bounds.toList, List.mem_cons] at h
      simp only [Bounds.expandDyn, Bounds.toList, List.mem_cons]
      rcases h with rfl | h
      · exact Or.inr (Or.inl (by simp [Bound.expandInner]))
      · exact Or.inr (Or.inr (Bounds.mem_expandDyn_of_mem bs b h))

theorem Bounds.mem_expandDyn_elim : (bs all : Bounds) → Bounds.aliasOk bs all = true →
    (x : Bound) → x ∈ bs.expandDyn.toList →
    ∃ b, (b ∈ bs.toList ∨ b ∈ all.toList) ∧ x = b.expandInner
  | .nil, all, _, x, hx => by simp [Bounds.expandDyn, Bounds.toList] at hx
  | .cons (.trait ks tr args) bs, all, h, x, hx => by
      simp only [Bounds.aliasOk] at h
      simp only [Bounds.expandDyn, Bounds.toList, List.mem_cons] at hx
      rcases hx with rfl | hx
      · exact ⟨.trait ks tr args, Or.inl (by simp [Bounds.toList]), by simp [Bound.expandInner]⟩
      · obtain ⟨b, hb, e⟩ := Bounds.mem_expandDyn_elim bs all h x hx
        refine ⟨b, ?_, e⟩
        rcases hb with hb | hb
        · exact Or.inl (by simp [Bounds.toList, hb])
        · exact Or.inr hb
  | .cons (.aliasEq ks tr assoc targs aargs v) bs, all, h, x, hx => by
      simp only [Bounds.aliasOk, Bool.and_eq_true] at h
      simp only [Bounds.expandDyn, Bounds.toList, List.mem_cons] at hx
      rcases hx with rfl | rfl | hx
      · exact ⟨.trait ks tr targs, Or.inr ((Bounds.hasTrait_iff all ks tr targs).1 h.1),
          by simp [Bound.expandInner]⟩
      · exact ⟨.aliasEq ks tr assoc targs aargs v, Or.inl (by simp [Bounds.toList]),
          by simp [Bound.expandInner]⟩
      · obtain ⟨b, hb, e⟩ := Bounds.mem_expandDyn_elim bs all h.2 x hx
        refine ⟨b, ?_, e⟩
        rcases hb with hb | hb
        · exact Or.inl (by simp [Bounds.toList, hb])
        · exact Or.inr hb

/-! ## `expand` of a lowered type is equivalent to the type -/

mutual
  theorem Ty.expand_equiv : (t : Ty) → Ty.lowered t = true → Ty.equiv t.expand t = true
    | .adt id args, h => by
        simp only [Ty.lowered] at h
        simp [Ty.expand, Ty.equiv, Args.expand_equiv args h]
    | .scalar s, _ => by simp [Ty.expand, Ty.equiv]
    | .tuple ts, h => by
        simp only [Ty.lowered] at h
        simp [Ty.expand, Ty.equiv, Tys.expand_equiv ts h]
    | .ref m l t, h => by
        simp only [Ty.lowered] at h
        simp [Ty.expand, Ty.equiv, Ty.expand_equiv t h]
    | .raw m t, h => by
        simp only [Ty.lowered] at h
        simp [Ty.expand, Ty.equiv, Ty.expand_equiv t h]
    | .slice t, h => by
        simp only [Ty.lowered] at h
        simp [Ty.expand, Ty.equiv, Ty.expand_equiv t h]
    | .array t c, h => by
        simp only [Ty.lowered] at h
        simp [Ty.expand, Ty.equiv, Ty.expand_equiv t h]
    | .fnPtr nb args ret, h => by
        simp only [Ty.lowered, Bool.and_eq_true] at h
        simp [Ty.expand, Ty.equiv, Tys.expand_equiv args h.1, Ty.expand_equiv ret h.2]
    | .proj tr assoc self targs aargs, h => by
        simp only [Ty.lowered, Bool.and_eq_true] at h
        simp [Ty.expand, Ty.equiv, Ty.expand_equiv self h.1.1, Args.expand_equiv targs h.1.2,
          Args.expand_equiv aargs h.2]
    | .dyn bs l, h => by
        simp only [Ty.lowered, Bool.and_eq_true] at h
        have ih := Bounds.expand_equiv bs h.1
        simp only [Ty.expand, Ty.equiv, Bool.and_eq_true, beq_self_eq_true, true_and,
          List.all_eq_true, Bounds.coveredBy_iff, Bounds.covers_iff]
        constructor
        · intro a ha
          obtain ⟨b, hb, e⟩ := Bounds.mem_expandDyn_elim bs bs h.2 a ha
          have hb' : b ∈ bs.toList := by rcases hb with hb | hb <;> exact hb
          exact ⟨b, hb', by rw [e]; exact ih b hb'⟩
        · intro b hb
          exact ⟨b.expandInner, Bounds.mem_expandDyn_of_mem bs b hb, ih b hb⟩
    | .never, _ => by simp [Ty.expand, Ty.equiv]
    | .str, _ => by simp [Ty.expand, Ty.equiv]
    | .bound d i, _ => by simp [Ty.expand, Ty.equiv]
  theorem GArg.expand_equiv : (g : GArg) → GArg.lowered g = true → GArg.equiv g.expand g = true
    | .ty t, h => by
        simp only [GArg.lowered] at h
        simp [GArg.expand, GArg.equiv, Ty.expand_equiv t h]
    | .lt l, _ => by simp [GArg.expand, GArg.equiv]
    | .ct c, _ => by simp [GArg.expand, GArg.equiv]
  theorem Args.expand_equiv : (as : Args) → Args.lowered as = true → Args.equiv as.expand as = true
    | .nil, _ => by simp [Args.expand, Args.equiv]
    | .cons a as, h => by
        simp only [Args.lowered, Bool.and_eq_true] at h
        simp [Args.expand, Args.equiv, GArg.expand_equiv a h.1, Args.expand_equiv as h.2]
  theorem Tys.expand_equiv : (ts : Tys) → Tys.lowered ts = true → Tys.equiv ts.expand ts = true
    | .nil, _ => by simp [Tys.expand, Tys.equiv]
    | .cons t ts, h => by
        simp only [Tys.lowered, Bool.and_eq_true] at h
        simp [Tys.expand, Tys.equiv, Ty.expand_equiv t h.1, Tys.expand_equiv ts h.2]
  theorem Bound.expand_equiv : (b : Bound) → Bound.lowered b = true →
      Bound.equiv b.expandInner b = true
    | .trait ks tr args, h => by
        simp only [Bound.lowered] at h
        simp [Bound.expandInner, Bound.equiv, Args.expand_equiv args h]
    | .aliasEq ks tr assoc targs aargs v, h => by
        simp only [Bound.lowered, Bool.and_eq_true] at h
        simp [Bound.expandInner, Bound.equiv, Args.expand_equiv targs h.1.1,
          Args.expand_equiv aargs h.1.2, Ty.expand_equiv v h.2]
  theorem Bounds.expand_equiv : (bs : Bounds) → Bounds.lowered bs = true →
      ∀ b ∈ bs.toList, Bound.equiv b.expandInner b = true
    | .nil, _ => by simp [Bounds.toList]
    | .cons b bs, h => by
        simp only [Bounds.lowered, Bool.and_eq_true] at h
        simp only [Bounds.toList, List.mem_cons]
        rintro x (rfl | hx)
        · exact Bound.expand_equiv x h.1
        · exact Bounds.expand_equiv bs h.2 x hx
end

/-- the `dyn` bounds in both directions -/
theorem Bounds.expandDyn_equiv (bs : Bounds) (h1 : Bounds.lowered bs = true)
    (h2 : Bounds.aliasOk bs bs = true) :
    Bounds.coveredBy bs.expandDyn bs.toList = true
      ∧ ∀ b ∈ bs.toList, Bounds.covers bs.expandDyn b = true := by
  have h : Ty.equiv (Ty.dyn bs .static).expand (Ty.dyn bs .static) = true :=
    Ty.expand_equiv _ (by simp [Ty.lowered, h1, h2])
  simpa [Ty.expand, Ty.equiv] using h

/-! ## Where-clauses, items, programs -/

theorem WC.expand_equiv (w : WC) (h : WC.lowered w = true) : WC.equiv w.expandTys w = true := by
  cases w with
  | implemented s tr a =>
      simp only [WC.lowered, Bool.and_eq_true] at h
      simp [WC.expandTys, WC.equiv, Ty.expand_equiv s h.1, Args.expand_equiv a h.2]
  | aliasEq s tr assoc ta aa v =>
      simp only [WC.lowered, Bool.and_eq_true] at h
      simp [WC.expandTys, WC.equiv, Ty.expand_equiv s h.1.1.1, Args.expand_equiv ta h.1.1.2,
        Args.expand_equiv aa h.1.2, Ty.expand_equiv v h.2]
  | ltOutlives a b => simp [WC.expandTys, WC.equiv]
  | tyOutlives t l =>
      simp only [WC.lowered] at h
      simp [WC.expandTys, WC.equiv, Ty.expand_equiv t h]

theorem WC.equiv_refl (w : WC) : WC.equiv w w = true := by
  cases w <;> simp [WC.equiv, Ty.equiv_refl, Args.equiv_refl]

theorem QWC.equiv_refl (q : QWC) : QWC.equiv q q = true := by
  simp [QWC.equiv, WC.equiv_refl]

theorem mem_reparseQWCs (ws : List QWC) (x : QWC) :
    x ∈ reparseQWCs ws ↔ ∃ q ∈ ws, x ∈ expandQWC ⟨q.ks, q.wc.expandTys⟩ := by
  simp only [reparseQWCs, expandQWCs, List.mem_flatten, List.mem_map]
  constructor
  · rintro ⟨l, ⟨a, ⟨q, hq, rfl⟩, rfl⟩, hx⟩
    exact ⟨q, hq, hx⟩
  · rintro ⟨q, hq, hx⟩
    exact ⟨_, ⟨_, ⟨q, hq, rfl⟩, rfl⟩, hx⟩

theorem head_mem_expandQWC (q : QWC) : q ∈ expandQWC q := by
  rcases q with ⟨ks, wc⟩
  cases wc <;> simp [expandQWC]

theorem reparseQWCs_equiv (ws : List QWC) (h : qwcsLowered ws = true) :
    qwcsEquiv (reparseQWCs ws) ws = true := by
  simp only [qwcsLowered, List.all_eq_true, Bool.and_eq_true] at h
  simp only [qwcsEquiv, List.all_eq_true, List.any_eq_true, Bool.and_eq_true]
  constructor
  · intro x hx
    obtain ⟨q, hq, hxq⟩ := (mem_reparseQWCs ws x).1 hx
    obtain ⟨hl, hi⟩ := h q hq
    rcases q with ⟨ks, wc⟩
    cases wc with
    | implemented s tr a =>
        simp only [WC.expandTys, expandQWC, List.mem_singleton] at hxq
        exact ⟨_, hq, by rw [hxq]; simp [QWC.equiv]; exact WC.expand_equiv _ hl⟩
    | ltOutlives a b =>
        simp only [WC.expandTys, expandQWC, List.mem_singleton] at hxq
        exact ⟨_, hq, by rw [hxq]; simp [QWC.equiv]; exact WC.expand_equiv _ hl⟩
    | tyOutlives t l =>
        simp only [WC.expandTys, expandQWC, List.mem_singleton] at hxq
        exact ⟨_, hq, by rw [hxq]; simp [QWC.equiv]; exact WC.expand_equiv _ hl⟩
    | aliasEq s tr assoc ta aa v =>
        simp only [WC.expandTys, expandQWC, List.mem_cons, List.not_mem_nil, or_false] at hxq
        rcases hxq with rfl | rfl
        · exact ⟨_, hq, by simp [QWC.equiv]; exact WC.expand_equiv _ hl⟩
        · simp only [QWC.implOk, List.contains_iff_mem] at hi
          refine ⟨_, hi, ?_⟩
          simp only [WC.lowered, Bool.and_eq_true] at hl
          simp [QWC.equiv, WC.equiv, Ty.expand_equiv s hl.1.1.1, Args.expand_equiv ta hl.1.1.2]
  · intro y hy
    refine ⟨⟨y.ks, y.wc.expandTys⟩, (mem_reparseQWCs ws _).2 ⟨y, hy, head_mem_expandQWC _⟩, ?_⟩
    simp [QWC.equiv]
    exact WC.expand_equiv _ (h y hy).1

theorem qwcsEquiv_refl (ws : List QWC) : qwcsEquiv ws ws = true := by
  simp only [qwcsEquiv, List.all_eq_true, List.any_eq_true, Bool.and_eq_true]
  exact ⟨fun x hx => ⟨x, hx, QWC.equiv_refl x⟩, fun x hx => ⟨x, hx, QWC.equiv_refl x⟩⟩

theorem listEquiv_map_left {α : Type} (f : α → α → Bool) (g : α → α) :
    (l : List α) → (∀ a ∈ l, f (g a) a = true) → listEquiv f (l.map g) l = true
  | [], _ => by simp [listEquiv]
  | a :: l, h => by
      simp only [List.map_cons, listEquiv, Bool.and_eq_true]
      exact ⟨h a (by simp), listEquiv_map_left f g l (fun b hb => h b (by simp [hb]))⟩

theorem listEquiv_refl {α : Type} (f : α → α → Bool) :
    (l : List α) → (∀ a ∈ l, f a a = true) → listEquiv f l l = true
  | [], _ => by simp [listEquiv]
  | a :: l, h => by
      simp only [listEquiv, Bool.and_eq_true]
      exact ⟨h a (by simp), listEquiv_refl f l (fun b hb => h b (by simp [hb]))⟩

theorem AssocTyDatum.reparse_equiv (a : AssocTyDatum) (h : a.lowered = true) :
    AssocTyDatum.equiv
      { a with bounds := a.bounds.map Bound.expandInner, wcs := reparseQWCs a.wcs } a = true := by
  simp only [AssocTyDatum.lowered, List.all_eq_true, Bool.and_eq_true] at h
  simp only [AssocTyDatum.equiv, Bool.and_eq_true, beq_self_eq_true, true_and]
  exact ⟨listEquiv_map_left _ _ _ (fun b hb => Bound.expand_equiv b (h.1 b hb)),
    reparseQWCs_equiv _ h.2⟩

theorem Item.reparse_equiv (i : Item) (h : i.lowered = true) : Item.equiv i.reparse i = true := by
  cases i with
  | adt d =>
      simp only [Item.lowered, List.all_eq_true, Bool.and_eq_true] at h
      simp only [Item.reparse, Item.equiv, AdtDatum.equiv, Bool.and_eq_true, beq_self_eq_true,
        true_and]
      refine ⟨reparseQWCs_equiv _ h.1, listEquiv_map_left _ _ _ (fun v hv => ?_)⟩
      exact listEquiv_map_left _ _ _ (fun t ht => Ty.expand_equiv t (h.2 v hv t ht))
  | trait d =>
      simp only [Item.lowered, List.all_eq_true, Bool.and_eq_true] at h
      simp only [Item.reparse, Item.equiv, TraitDatum.equiv, Bool.and_eq_true, beq_self_eq_true,
        true_and]
      exact ⟨reparseQWCs_equiv _ h.1,
        listEquiv_map_left _ _ _ (fun a ha => AssocTyDatum.reparse_equiv a (h.2 a ha))⟩
  | impl d =>
      simp only [Item.lowered, List.all_eq_true, Bool.and_eq_true] at h
      simp only [Item.reparse, Item.equiv, ImplDatum.equiv, Bool.and_eq_true, beq_self_eq_true,
        true_and]
      refine ⟨⟨⟨Args.expand_equiv _ h.1.1.1, Ty.expand_equiv _ h.1.1.2⟩,
        reparseQWCs_equiv _ h.1.2⟩, listEquiv_map_left _ _ _ (fun v hv => ?_)⟩
      simp only [AssocTyValue.equiv, Bool.and_eq_true, beq_self_eq_true, true_and]
      exact Ty.expand_equiv _ (h.2 v hv)

/-- parsing the printed form of a lowered program gives an equivalent program -/
theorem reparse_equiv : ∀ p : Program, Lowered p = true → Program.equiv (reparse p) p = true := by
  intro p h
  simp only [Lowered, List.all_eq_true] at h
  exact listEquiv_map_left _ _ _ (fun i hi => Item.reparse_equiv i (h i hi))

/-! reflexivity at the item level (the equivalence is not vacuous on the diagonal) -/

theorem Item.equiv_refl (i : Item) : Item.equiv i i = true := by
  cases i with
  | adt d =>
      simp only [Item.equiv, AdtDatum.equiv, Bool.and_eq_true, beq_self_eq_true, true_and]
      exact ⟨qwcsEquiv_refl _, listEquiv_refl _ _ (fun v _ =>
        listEquiv_refl _ _ (fun t _ => Ty.equiv_refl t))⟩
  | trait d =>
      simp only [Item.equiv, TraitDatum.equiv, Bool.and_eq_true, beq_self_eq_true, true_and]
      refine ⟨qwcsEquiv_refl _, listEquiv_refl _ _ (fun a _ => ?_)⟩
      simp only [AssocTyDatum.equiv, Bool.and_eq_true, beq_self_eq_true, true_and]
      exact ⟨listEquiv_refl _ _ (fun b _ => Bound.equiv_refl b), qwcsEquiv_refl _⟩
  | impl d =>
      simp only [Item.equiv, ImplDatum.equiv, Bool.and_eq_true, beq_self_eq_true, true_and]
      refine ⟨⟨⟨Args.equiv_refl _, Ty.equiv_refl _⟩, qwcsEquiv_refl _⟩,
        listEquiv_refl _ _ (fun v _ => ?_)⟩
      simp [AssocTyValue.equiv, Ty.equiv_refl]

theorem Program.equiv_refl (p : Program) : Program.equiv p p = true :=
  listEquiv_refl _ _ (fun i _ => Item.equiv_refl i)

/-! ## Without alias-eq clauses `reparse` is the identity -/

mutual
  theorem Ty.expand_eq_of_noAlias : (t : Ty) → t.noAlias = true → t.expand = t
    | .adt id args, h => by
        simp only [Ty.noAlias] at h
        simp [Ty.expand, Args.expand_eq_of_noAlias args h]
    | .scalar s, _ => by simp [Ty.expand]
    | .tuple ts, h => by
        simp only [Ty.noAlias] at h
        simp [Ty.expand, Tys.expand_eq_of_noAlias ts h]
    | .ref m l t, h => by
        simp only [Ty.noAlias] at h
        simp [Ty.expand, Ty.expand_eq_of_noAlias t h]
    | .raw m t, h => by
        simp only [Ty.noAlias] at h
        simp [Ty.expand, Ty.expand_eq_of_noAlias t h]
    | .slice t, h => by
        simp only [Ty.noAlias] at h
        simp [Ty.expand, Ty.expand_eq_of_noAlias t h]
    | .array t c, h => by
        simp only [Ty.noAlias] at h
        simp [Ty.expand, Ty.expand_eq_of_noAlias t h]
    | .fnPtr nb args ret, h => by
        simp only [Ty.noAlias, Bool.and_eq_true] at h
        simp [Ty.expand, Tys.expand_eq_of_noAlias args h.1, Ty.expand_eq_of_noAlias ret h.2]
    | .proj tr assoc self targs aargs, h => by
        simp only [Ty.noAlias, Bool.and_eq_true] at h
        simp [Ty.expand, Ty.expand_eq_of_noAlias self h.1.1, Args.expand_eq_of_noAlias targs h.1.2,
          Args.expand_eq_of_noAlias aargs h.2]
    | .dyn bs l, h => by
        simp only [Ty.noAlias] at h
        simp [Ty.expand, Bounds.expandDyn_eq_of_noAlias bs h]
    | .never, _ => by simp [Ty.expand]
    | .str, _ => by simp [Ty.expand]
    | .bound d i, _ => by simp [Ty.expand]
  theorem GArg.expand_eq_of_noAlias : (g : GArg) → g.noAlias = true → g.expand = g
    | .ty t, h => by
        simp only [GArg.noAlias] at h
        simp [GArg.expand, Ty.expand_eq_of_noAlias t h]
    | .lt l, _ => by simp [GArg.expand]
    | .ct c, _ => by simp [GArg.expand]
  theorem Args.expand_eq_of_noAlias : (as : Args) → as.noAlias = true → as.expand = as
    | .nil, _ => by simp [Args.expand]
    | .cons a as, h => by
        simp only [Args.noAlias, Bool.and_eq_true] at h
        simp [Args.expand, GArg.expand_eq_of_noAlias a h.1, Args.expand_eq_of_noAlias as h.2]
  theorem Tys.expand_eq_of_noAlias : (ts : Tys) → ts.noAlias = true → ts.expand = ts
    | .nil, _ => by simp [Tys.expand]
    | .cons t ts, h => by
        simp only [Tys.noAlias, Bool.and_eq_true] at h
        simp [Tys.expand, Ty.expand_eq_of_noAlias t h.1, Tys.expand_eq_of_noAlias ts h.2]
  theorem Bounds.expandDyn_eq_of_noAlias : (bs : Bounds) → bs.noAliasDyn = true → bs.expandDyn = bs
    | .nil, _ => by simp [Bounds.expandDyn]
    | .cons (.trait ks tr args) bs, h => by
        simp only [Bounds.noAliasDyn, Bool.and_eq_true] at h
        simp [Bounds.expandDyn, Args.expand_eq_of_noAlias args h.1,
          Bounds.expandDyn_eq_of_noAlias bs h.2]
    | .cons (.aliasEq ..) bs, h => by simp [Bounds.noAliasDyn] at h
end

theorem Bound.expandInner_eq_of_noAlias (b : Bound) (h : b.noAliasInner = true) :
    b.expandInner = b := by
  cases b with
  | trait ks tr args =>
      simp only [Bound.noAliasInner] at h
      simp [Bound.expandInner, Args.expand_eq_of_noAlias args h]
  | aliasEq ks tr assoc targs aargs v =>
      simp only [Bound.noAliasInner, Bool.and_eq_true] at h
      simp [Bound.expandInner, Args.expand_eq_of_noAlias targs h.1.1,
        Args.expand_eq_of_noAlias aargs h.1.2, Ty.expand_eq_of_noAlias v h.2]

theorem WC.expandTys_eq_of_noAlias (w : WC) (h : w.noAlias = true) : w.expandTys = w := by
  cases w with
  | implemented s tr a =>
      simp only [WC.noAlias, Bool.and_eq_true] at h
      simp [WC.expandTys, Ty.expand_eq_of_noAlias s h.1, Args.expand_eq_of_noAlias a h.2]
  | aliasEq s tr assoc ta aa v => simp [WC.noAlias] at h
  | ltOutlives a b => simp [WC.expandTys]
  | tyOutlives t l =>
      simp only [WC.noAlias] at h
      simp [WC.expandTys, Ty.expand_eq_of_noAlias t h]

theorem map_eq_self {α : Type} (g : α → α) : (l : List α) → (∀ a ∈ l, g a = a) → l.map g = l
  | [], _ => rfl
  | a :: l, h => by
      simp only [List.map_cons, h a (by simp), map_eq_self g l (fun b hb => h b (by simp [hb]))]

theorem reparseQWCs_eq_of_noAlias : (ws : List QWC) → qwcsNoAlias ws = true → reparseQWCs ws = ws
  | [], _ => by simp [reparseQWCs, expandQWCs]
  | ⟨ks, wc⟩ :: ws, h => by
      simp only [qwcsNoAlias, List.all_cons, Bool.and_eq_true] at h
      have ih := reparseQWCs_eq_of_noAlias ws (by simpa [qwcsNoAlias] using h.2)
      have hw := WC.expandTys_eq_of_noAlias wc h.1
      simp only [reparseQWCs, expandQWCs, List.map_cons, List.flatten_cons] at ih ⊢
      rw [ih, hw]
      cases wc with
      | aliasEq s tr assoc ta aa v => simp [WC.noAlias] at h
      | implemented s tr a => simp [expandQWC]
      | ltOutlives a b => simp [expandQWC]
      | tyOutlives t l => simp [expandQWC]

theorem Item.reparse_eq_of_noAlias (i : Item) (h : i.noAlias = true) : i.reparse = i := by
  cases i with
  | adt d =>
      simp only [Item.noAlias, List.all_eq_true, Bool.and_eq_true] at h
      have h1 := reparseQWCs_eq_of_noAlias d.wcs h.1
      have h2 : d.vfields.map (fun v => v.map Ty.expand) = d.vfields :=
        map_eq_self _ _ (fun v hv => map_eq_self _ _ (fun t ht =>
          Ty.expand_eq_of_noAlias t (h.2 v hv t ht)))
      simp only [Item.reparse, h1, h2]
  | trait d =>
      simp only [Item.noAlias, List.all_eq_true, Bool.and_eq_true] at h
      have h1 := reparseQWCs_eq_of_noAlias d.wcs h.1
      have h2 : d.assocs.map (fun a =>
          { a with bounds := a.bounds.map Bound.expandInner, wcs := reparseQWCs a.wcs })
            = d.assocs := by
        refine map_eq_self _ _ (fun a ha => ?_)
        have ha' := h.2 a ha
        simp only [AssocTyDatum.noAlias, List.all_eq_true, Bool.and_eq_true] at ha'
        have e1 : a.bounds.map Bound.expandInner = a.bounds :=
          map_eq_self _ _ (fun b hb => Bound.expandInner_eq_of_noAlias b (ha'.1 b hb))
        simp only [e1, reparseQWCs_eq_of_noAlias a.wcs ha'.2]
      simp only [Item.reparse, h1, h2]
  | impl d =>
      simp only [Item.noAlias, List.all_eq_true, Bool.and_eq_true] at h
      have h1 := reparseQWCs_eq_of_noAlias d.wcs h.1.2
      have h2 : d.values.map (fun v => { v with value := v.value.expand }) = d.values := by
        refine map_eq_self _ _ (fun v hv => ?_)
        simp only [Ty.expand_eq_of_noAlias v.value (h.2 v hv)]
      simp only [Item.reparse, h1, h2, Args.expand_eq_of_noAlias d.args h.1.1.1,
        Ty.expand_eq_of_noAlias d.selfTy h.1.1.2]

theorem reparse_eq_of_noAliasEq : ∀ p : Program, NoAliasEq p = true → reparse p = p := by
  intro p h
  simp only [NoAliasEq, List.all_eq_true] at h
  exact map_eq_self _ _ (fun i hi => Item.reparse_eq_of_noAlias i (h i hi))

/-- printing is stable under `reparse` on the fragment without alias-eq clauses -/
theorem print_stable_partial : ∀ p : Program, NoAliasEq p = true → print (reparse p) = print p := by
  intro p h
  rw [reparse_eq_of_noAliasEq p h]

/-- the counterexample is outside the fragment of `print_stable_partial` -/
theorem refuteW_not_noAliasEq : NoAliasEq refuteW = false := by decide

/-! ## A larger example -/

/-- ```
trait A {}
trait B { type X; }
trait Tr { type Assoc: A where Self: A; }
struct S<'a, T, const N> where T: Tr {
  field_0: &'a mut T, field_1: [T; N], field_2: for<'x> fn(&'x u8, T) -> u8,
  field_3: dyn A + B + B<X = u8> + 'static, field_4: <T as Tr>::Assoc
}
impl<T> Tr for *const T where T: A { type Assoc = T; }
``` -/
def exBig : Program :=
  [ .trait ⟨"A", false, false, false, false, false, false, false, none, [.ty], [], []⟩,
    .trait ⟨"B", false, false, false, false, false, false, false, none, [.ty], [],
      [⟨"X", [.ty], [], []⟩]⟩,
    .trait ⟨"Tr", false, false, false, false, false, false, false, none, [.ty], [],
      [⟨"Assoc", [.ty], [.trait [] "A" .nil], [⟨[], .implemented (.bound 1 0) "A" .nil⟩]⟩]⟩,
    .adt ⟨"S", false, false, false, false, false, false, none, false, [.lt, .ty, .ct],
      [⟨[], .implemented (.bound 1 1) "Tr" .nil⟩],
      [[ .ref true (.bound 0 0) (.bound 0 1),
         .array (.bound 0 1) (.bound 0 2),
         .fnPtr 1 (.cons (.ref false (.bound 0 0) (.scalar .u8)) (.cons (.bound 1 1) .nil))
           (.scalar .u8),
         .dyn (.cons (.trait [] "A" .nil) (.cons (.trait [] "B" .nil)
           (.cons (.aliasEq [] "B" "X" .nil .nil (.scalar .u8)) .nil))) .static,
         .proj "Tr" "Assoc" (.bound 0 1) .nil .nil ]]⟩,
    .impl ⟨false, [.ty], false, "Tr", .nil, .raw false (.bound 0 0),
      [⟨[], .implemented (.bound 1 0) "A" .nil⟩],
      [⟨"Assoc", [.ty], .bound 0 0⟩]⟩ ]

theorem exBig_lowered : Lowered exBig = true := by decide

theorem exBig_not_noAliasEq : NoAliasEq exBig = false := by decide

theorem exBig_reparse_equiv : Program.equiv (reparse exBig) exBig = true :=
  reparse_equiv exBig exBig_lowered

/-- here the reparsed program really differs (the `dyn` gets a second `B` bound) -/
theorem exBig_reparse_ne : reparse exBig ≠ exBig := by decide

/-! the equivalence evaluates, and it discriminates -/
example : Program.equiv (reparse exBig) exBig = true := by decide
example : Program.equiv (reparse refuteW) refuteW = true := by decide
example : Program.equiv refuteW exBig = false := by decide
example : Ty.equiv (.dyn (.cons (.trait [] "A" .nil) (.cons (.trait [] "B" .nil) .nil)) .static)
    (.dyn (.cons (.trait [] "B" .nil) (.cons (.trait [] "A" .nil) (.cons (.trait [] "B" .nil) .nil)))
      .static) = true := by decide
example : Ty.equiv (.dyn (.cons (.trait [] "A" .nil) .nil) .static)
    (.dyn (.cons (.trait [] "A" .nil) (.cons (.trait [] "B" .nil) .nil)) .static) = false := by decide
example : Ty.equiv (.dyn (.cons (.trait [] "A" .nil) (.cons (.trait [] "B" .nil) .nil)) .static)
    (.dyn (.cons (.trait [] "A" .nil) .nil) .static) = false := by decide

end Chalk.Display
