import ChalkModel.Logging
import ChalkModel.Lemmas.EvalLemmas

namespace Chalk.Logging
open Chalk.Sem

/-! ### the restriction lemma, instance level -/

theorem IndStep.mono {P : Program} {Γ : List Atom} {X Y : Atom → Prop} (h : ∀ x, X x → Y x) {a : Atom}
    (hs : IndStep P Γ X a) : IndStep P Γ Y a := by
  rcases hs with h1 | h1 | ⟨h1, h2⟩
  · exact Or.inl h1
  · exact Or.inr (Or.inl h1)
  · exact Or.inr (Or.inr ⟨h1, h2.mono h⟩)

/-- the least fixed point is a pre-fixed point -/
theorem holds_closed {P : Program} {Γ : List Atom} {x : Atom} (h : IndStep P Γ (Holds P Γ) x) :
    Holds P Γ x :=
  InLfp.closed (Ψ := IndStep P Γ) (fun _ _ hXY _ ha => IndStep.mono hXY ha) h

/-- one direction, stated with exactly what it uses -/
theorem coholds_transfer {P Q : Program} {Γ : List Atom} {R : Atom → Prop}
    (hco : ∀ p, P.coind p = Q.coind p)
    (hmem : ∀ (c : Clause) (σ : Nat → Tm), R (c.head.inst σ) → c ∈ P.clauses → c ∈ Q.clauses)
    (hcl : ClosedUnder P R) {a : Atom} (hR : R a) (h : CoHolds P Γ a) : CoHolds Q Γ a := by
  obtain ⟨X, hX, hXa⟩ := h
  refine ⟨fun x => X x ∧ R x, ?_, hXa, hR⟩
  rintro x ⟨hx, hRx⟩
  obtain ⟨h1, h2⟩ := hX x hx
  refine ⟨by rw [← hco]; exact h1, ?_⟩
  rcases h2 with h2 | ⟨c, hc, σ, hσ, hb⟩
  · exact Or.inl h2
  · have hRh : R (c.head.inst σ) := by rw [hσ]; exact hRx
    exact Or.inr ⟨c, hmem c σ hRh hc, σ, hσ, fun b hbm => ⟨hb b hbm, hcl c hc σ hRh b hbm⟩⟩

theorem holds_transfer {P Q : Program} {Γ : List Atom} {R : Atom → Prop}
    (hco : ∀ p, P.coind p = Q.coind p)
    (hmem : ∀ (c : Clause) (σ : Nat → Tm), R (c.head.inst σ) → c ∈ P.clauses → c ∈ Q.clauses)
    (hcl : ClosedUnder P R) {a : Atom} (hR : R a) (h : Holds P Γ a) : Holds Q Γ a := by
  refine h (fun x => R x → Holds Q Γ x) ?_ hR
  intro x hx hRx
  apply holds_closed
  rcases hx with h1 | ⟨h1, h2⟩ | ⟨h1, c, hc, σ, hσ, hb⟩
  · exact Or.inl h1
  · exact Or.inr (Or.inl ⟨by rw [← hco]; exact h1, coholds_transfer hco hmem hcl hRx h2⟩)
  · have hRh : R (c.head.inst σ) := by rw [hσ]; exact hRx
    exact Or.inr (Or.inr ⟨by rw [← hco]; exact h1, c, hmem c σ hRh hc, σ, hσ,
      fun b hbm => hb b hbm (hcl c hc σ hRh b hbm)⟩)

/-- closure transfers along agreement -/
theorem ClosedUnder.of_agree {P Q : Program} {R : Atom → Prop} (hA : AgreeOn P Q R)
    (hC : ClosedUnder P R) : ClosedUnder Q R :=
  fun c hc σ hR => hC c ((hA.2 c σ hR).mpr hc) σ hR

theorem coholds_agree {P Q : Program} {Γ : List Atom} {R : Atom → Prop} (hA : AgreeOn P Q R)
    (hC : ClosedUnder P R) (a : Atom) (hR : R a) : CoHolds Q Γ a ↔ CoHolds P Γ a :=
  ⟨coholds_transfer hA.1 (fun c σ h => (hA.2 c σ h).mpr) (hC.of_agree hA) hR,
   coholds_transfer (fun p => (hA.1 p).symm) (fun c σ h => (hA.2 c σ h).mp) hC hR⟩

theorem holds_agree {P Q : Program} {Γ : List Atom} {R : Atom → Prop} (hA : AgreeOn P Q R)
    (hC : ClosedUnder P R) (a : Atom) (hR : R a) : Holds Q Γ a ↔ Holds P Γ a :=
  ⟨holds_transfer hA.1 (fun c σ h => (hA.2 c σ h).mpr) (hC.of_agree hA) hR,
   holds_transfer (fun p => (hA.1 p).symm) (fun c σ h => (hA.2 c σ h).mp) hC hR⟩

/-! ### goals -/

/-- every atom in conclusion position satisfies `R` -/
def GoalIn (R : Atom → Prop) : Goal → Prop
  | .atom a => R a
  | .tt => True
  | .and g h => GoalIn R g ∧ GoalIn R h
  | .implies _ g => GoalIn R g
  | .not g => GoalIn R g
  | .eq _ _ => True

theorem gholds_agree {P Q : Program} {R : Atom → Prop} (hA : AgreeOn P Q R) (hC : ClosedUnder P R) :
    (g : Goal) → (Γ : List Atom) → GoalIn R g → (GHolds Q Γ g ↔ GHolds P Γ g)
  | .atom a, Γ, h => holds_agree hA hC a h
  | .tt, _, _ => Iff.rfl
  | .and g h, Γ, hg => by
      simp only [GHolds]
      rw [gholds_agree hA hC g Γ hg.1, gholds_agree hA hC h Γ hg.2]
  | .implies hyps g, Γ, hg => by
      simp only [GHolds]
      exact gholds_agree hA hC g (hyps ++ Γ) hg
  | .not g, Γ, hg => by
      simp only [GHolds]
      rw [gholds_agree hA hC g Γ hg]
  | .eq _ _, _, _ => Iff.rfl

theorem goalIn_of_preds {S : String → Prop} : (g : Goal) → (∀ p ∈ goalPreds g, S p) →
    GoalIn (fun a => S a.pred) g
  | .atom a, h => h a.pred (by simp [goalPreds])
  | .tt, _ => trivial
  | .and g k, h =>
      ⟨goalIn_of_preds g (fun p hp => h p (by simp [goalPreds, hp])),
       goalIn_of_preds k (fun p hp => h p (by simp [goalPreds, hp]))⟩
  | .implies _ g, h => goalIn_of_preds g (fun p hp => h p (by simp [goalPreds, hp]))
  | .not g, h => goalIn_of_preds g (fun p hp => h p (by simp [goalPreds, hp]))
  | .eq _ _, _ => trivial

/-! ### predicate-level reachability -/

theorem inst_pred (a : Atom) (σ : Nat → Tm) : (a.inst σ).pred = a.pred := rfl

theorem reach_closed (P : Program) (seeds : List String) :
    ClosedUnder P (fun a => Reach P seeds a.pred) :=
  fun c hc _ hR b hb => Reach.step (c := c) (b := b) hc hR hb

/-- any `Q` between the reachable clauses and `P` agrees with `P` on the reachable atoms -/
theorem agree_of_between {P Q : Program} {seeds : List String}
    (hco : ∀ p, Q.coind p = P.coind p) (hsub : ∀ c ∈ Q.clauses, c ∈ P.clauses)
    (hneeds : ∀ c ∈ P.clauses, Reach P seeds c.head.pred → c ∈ Q.clauses) :
    AgreeOn P Q (fun a => Reach P seeds a.pred) :=
  ⟨hco, fun c _ hR => ⟨fun hc => hneeds c hc hR, hsub c⟩⟩

/-! ### the executable side -/

theorem closedList_iff (P : Program) (S : List String) :
    closedList P S = true ↔ ∀ c ∈ P.clauses, c.head.pred ∈ S → ∀ b ∈ c.body, b.pred ∈ S := by
  simp only [closedList, List.all_eq_true, Bool.or_eq_true, Bool.not_eq_true', List.contains_iff_mem,
    ← Bool.not_eq_true]
  constructor
  · intro h c hc hh b hb
    rcases h c hc with h1 | h1
    · exact absurd hh h1
    · exact h1 b hb
  · intro h c hc
    by_cases hh : c.head.pred ∈ S
    · exact Or.inr (h c hc hh)
    · exact Or.inl hh

theorem closedUnder_of_closedList {P : Program} {S : List String} (h : closedList P S = true) :
    ClosedUnder P (fun a => a.pred ∈ S) :=
  fun c hc _ hR b hb => (closedList_iff P S).mp h c hc hR b hb

theorem restrict_agreeOn (P : Program) (S : List String) :
    AgreeOn P (restrict P S) (fun a => a.pred ∈ S) := by
  refine ⟨fun _ => rfl, fun c σ hR => ?_⟩
  have hR' : c.head.pred ∈ S := hR
  simp [restrict, List.mem_filter, hR']

theorem restrict_agree {P : Program} {S : List String} (h : closedList P S = true) :
    AgreeOn P (restrict P S) (fun a => a.pred ∈ S) ∧ ClosedUnder P (fun a => a.pred ∈ S) :=
  ⟨restrict_agreeOn P S, closedUnder_of_closedList h⟩

/-! ### the reachability computation reaches a closed set -/

theorem mem_insertNew {S : List String} {p q : String} : q ∈ insertNew S p ↔ q ∈ S ∨ q = p := by
  unfold insertNew
  split
  · rename_i h
    have h' : p ∈ S := by simpa using h
    constructor
    · exact Or.inl
    · rintro (h1 | rfl)
      · exact h1
      · exact h'
  · simp

theorem mem_addAll : ∀ (L S : List String) (q : String), q ∈ addAll S L ↔ q ∈ S ∨ q ∈ L
  | [], S, q => by simp [addAll]
  | p :: ps, S, q => by
      simp only [addAll, mem_addAll ps, mem_insertNew, List.mem_cons, or_assoc]

theorem mem_firedBodies {P : Program} {S : List String} {q : String} :
    q ∈ firedBodies P S ↔ ∃ c ∈ P.clauses, c.head.pred ∈ S ∧ ∃ b ∈ c.body, b.pred = q := by
  simp only [firedBodies, List.mem_flatMap, List.mem_filter, List.contains_iff_mem, List.mem_map]
  constructor
  · rintro ⟨c, ⟨hc, hh⟩, hb⟩
    exact ⟨c, hc, hh, hb⟩
  · rintro ⟨c, hc, hh, hb⟩
    exact ⟨c, ⟨hc, hh⟩, hb⟩

theorem mem_reachStep {P : Program} {S : List String} {q : String} :
    q ∈ reachStep P S ↔ q ∈ S ∨ ∃ c ∈ P.clauses, c.head.pred ∈ S ∧ ∃ b ∈ c.body, b.pred = q := by
  rw [reachStep, mem_addAll, mem_firedBodies]

theorem subset_reachStep {P : Program} {S : List String} {q : String} (h : q ∈ S) : q ∈ reachStep P S :=
  mem_reachStep.mpr (Or.inl h)

theorem subset_reachIter {P : Program} {S : List String} {q : String} (h : q ∈ S) :
    (n : Nat) → q ∈ reachIter P n S
  | 0 => h
  | n + 1 => subset_reachStep (subset_reachIter h n)

theorem seeds_subset_reachList (P : Program) (seeds : List String) :
    ∀ p ∈ seeds, p ∈ reachList P seeds :=
  fun _ h => subset_reachIter h _

/-- a closed set is a fixed point, hence stays closed -/
theorem closedList_reachStep {P : Program} {S : List String} (h : closedList P S = true) :
    closedList P (reachStep P S) = true := by
  rw [closedList_iff] at h ⊢
  have hback : ∀ q, q ∈ reachStep P S → q ∈ S := by
    intro q hq
    rcases mem_reachStep.mp hq with h1 | ⟨c, hc, hh, b, hb, rfl⟩
    · exact h1
    · exact h c hc hh b hb
  intro c hc hh b hb
  exact subset_reachStep (h c hc (hback _ hh) b hb)

theorem filter_length_le {α} (p q : α → Bool) (hpq : ∀ x, p x = true → q x = true) :
    (l : List α) → (l.filter p).length ≤ (l.filter q).length
  | [] => Nat.le_refl _
  | x :: xs => by
      have ih := filter_length_le p q hpq xs
      cases hp : p x
      · cases hq : q x <;> simp [hp, hq] <;> omega
      · simp [hp, hpq x hp]; exact ih

theorem filter_length_lt {α} (p q : α → Bool) (hpq : ∀ x, p x = true → q x = true) :
    (l : List α) → (∃ x ∈ l, q x = true ∧ p x = false) → (l.filter p).length < (l.filter q).length
  | [], h => by simp at h
  | x :: xs, h => by
      have hle := filter_length_le p q hpq xs
      obtain ⟨y, hy, hqy, hpy⟩ := h
      simp only [List.mem_cons] at hy
      rcases hy with rfl | hy
      · simp [hpy, hqy]; omega
      · have ih := filter_length_lt p q hpq xs ⟨y, hy, hqy, hpy⟩
        cases hp : p x
        · cases hq : q x <;> simp [hp, hq] <;> omega
        · simp [hp, hpq x hp]; exact ih

/-- number of clauses whose head predicate is not (yet) in `S` -/
def unfired (P : Program) (S : List String) : Nat :=
  (P.clauses.filter (fun c => !S.contains c.head.pred)).length

theorem unfired_le (P : Program) (S : List String) : unfired P S ≤ P.clauses.length :=
  List.length_filter_le _ _

/-- a round that does not reach a closed set fires a clause for the first time -/
theorem unfired_lt {P : Program} {S : List String} (h : closedList P (reachStep P S) = false) :
    unfired P (reachStep P S) < unfired P S := by
  have hn : ¬ (closedList P (reachStep P S) = true) := by simp [h]
  rw [closedList_iff] at hn
  have hex : ∃ c ∈ P.clauses, c.head.pred ∈ reachStep P S ∧ ∃ b ∈ c.body, b.pred ∉ reachStep P S := by
    apply Classical.byContradiction
    intro hne
    apply hn
    intro c hc hh b hb
    apply Classical.byContradiction
    intro hnb
    exact hne ⟨c, hc, hh, b, hb, hnb⟩
  obtain ⟨c, hc, hh, b, hb, hnb⟩ := hex
  have hnh : c.head.pred ∉ S := fun hS => hnb (mem_reachStep.mpr (Or.inr ⟨c, hc, hS, b, hb, rfl⟩))
  apply filter_length_lt
  · intro x hx
    have hx' : x.head.pred ∉ reachStep P S := by simpa using hx
    have hxS : x.head.pred ∉ S := fun hS => hx' (subset_reachStep hS)
    simpa using hxS
  · exact ⟨c, hc, by simpa using hnh, by simpa using hh⟩

theorem reachIter_progress (P : Program) (S : List String) : (k : Nat) →
    closedList P (reachIter P (k + 1) S) = false → unfired P (reachIter P (k + 1) S) + k + 1 ≤ P.clauses.length
  | 0, h => by
      have h1 := unfired_lt (P := P) (S := S) h
      have h2 := unfired_le P S
      show unfired P (reachStep P S) + 0 + 1 ≤ _
      omega
  | k + 1, h => by
      have hprev : closedList P (reachIter P (k + 1) S) = false := by
        cases hc : closedList P (reachIter P (k + 1) S)
        · rfl
        · have := closedList_reachStep hc
          rw [show reachStep P (reachIter P (k + 1) S) = reachIter P (k + 1 + 1) S from rfl] at this
          rw [this] at h
          cases h
      have ih := reachIter_progress P S k hprev
      have h1 := unfired_lt (P := P) (S := reachIter P (k + 1) S) h
      show unfired P (reachStep P (reachIter P (k + 1) S)) + (k + 1) + 1 ≤ _
      omega

theorem reachList_closed (P : Program) (seeds : List String) :
    closedList P (reachList P seeds) = true := by
  cases hc : closedList P (reachList P seeds)
  · have := reachIter_progress P seeds P.clauses.length hc
    omega
  · rfl

/-- the computed list contains only reachable predicates: `needs` is the least closed set -/
theorem reachStep_sound {P : Program} {seeds S : List String} (h : ∀ p ∈ S, Reach P seeds p) :
    ∀ p ∈ reachStep P S, Reach P seeds p := by
  intro p hp
  rcases mem_reachStep.mp hp with h1 | ⟨c, hc, hh, b, hb, rfl⟩
  · exact h p h1
  · exact Reach.step hc (h _ hh) hb

theorem reachIter_sound {P : Program} {seeds : List String} :
    (n : Nat) → ∀ p ∈ reachIter P n seeds, Reach P seeds p
  | 0 => fun _ hp => Reach.seed hp
  | n + 1 => reachStep_sound (reachIter_sound n)

theorem reachList_sound (P : Program) (seeds : List String) :
    ∀ p ∈ reachList P seeds, Reach P seeds p := reachIter_sound _

theorem reachList_complete (P : Program) (seeds : List String) {p : String} (h : Reach P seeds p) :
    p ∈ reachList P seeds := by
  induction h with
  | seed hs => exact seeds_subset_reachList P seeds _ hs
  | step hc _ hb ih => exact (closedList_iff P _).mp (reachList_closed P seeds) _ hc ih _ hb

/-! ### auto traits -/

theorem mem_defaultClauses {I : AutoItems} {c : Clause} :
    c ∈ defaultClauses I ↔ ∃ t ∈ I.autoTraits, ∃ adt ∈ I.adts,
      hasExplicit I t adt.1 = false ∧ c = defaultClause t adt.1 adt.2.1 adt.2.2 := by
  simp only [defaultClauses, List.mem_flatMap]
  constructor
  · rintro ⟨t, ht, adt, ha, hc⟩
    split at hc
    · simp at hc
    · rename_i hne
      simp only [List.mem_singleton] at hc
      exact ⟨t, ht, adt, ha, by simpa using hne, hc⟩
  · rintro ⟨t, ht, adt, ha, hne, rfl⟩
    exact ⟨t, ht, adt, ha, by simp [hne]⟩

theorem mem_lowerAuto {I : AutoItems} {c : Clause} :
    c ∈ lowerAuto I ↔ c ∈ I.base ∨ (∃ e ∈ I.explicit, e.2.2 = some c) ∨ c ∈ defaultClauses I := by
  simp only [lowerAuto, List.mem_append, List.mem_filterMap, or_assoc]

theorem hasExplicit_mono {I L : AutoItems} (he : ∀ e ∈ L.explicit, e ∈ I.explicit) {t s : String}
    (h : hasExplicit L t s = true) : hasExplicit I t s = true := by
  simp only [hasExplicit, List.any_eq_true] at h ⊢
  obtain ⟨e, hm, h⟩ := h
  exact ⟨e, he e hm, h⟩

theorem lowerAuto_subset_of_faithful {I L : AutoItems}
    (hb : ∀ c ∈ L.base, c ∈ I.base) (ht : ∀ t ∈ L.autoTraits, t ∈ I.autoTraits)
    (ha : ∀ a ∈ L.adts, a ∈ I.adts) (he : ∀ e ∈ L.explicit, e ∈ I.explicit)
    (hf : SuppressionFaithful I L) : ∀ c ∈ lowerAuto L, c ∈ lowerAuto I := by
  intro c hc
  rw [mem_lowerAuto] at hc ⊢
  rcases hc with h | ⟨e, hm, h⟩ | h
  · exact Or.inl (hb c h)
  · exact Or.inr (Or.inl ⟨e, he e hm, h⟩)
  · rw [mem_defaultClauses] at h ⊢
    obtain ⟨t, htm, adt, ham, hne, rfl⟩ := h
    refine Or.inr (Or.inr ⟨t, ht t htm, adt, ha adt ham, ?_, rfl⟩)
    cases hI : hasExplicit I t adt.1
    · rfl
    · rw [(hf t htm adt ham).mpr hI] at hne
      cases hne

end Chalk.Logging
