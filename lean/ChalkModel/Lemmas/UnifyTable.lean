/-
  Layer 1b: the semantic order `Table.Le` ("t' is a sound refinement of t") and the table
  operations as instances of it.
-/
import ChalkModel.Lemmas.UnifyFind

namespace Chalk

/-! ## one predicate for "first-order, variables below n, arities respected" -/

mutual
  def Ty.good (ar : TyName → Nat) (n : Nat) : Ty → Bool
    | .app nm args => args.length == ar nm && args.good ar n
    | .scalar _ => true
    | .str => true
    | .never => true
    | .foreign _ => true
    | .placeholder _ _ => true
    | .slice t => t.good ar n
    | .raw _ t => t.good ar n
    | .infer v _ => decide (v < n)
    | _ => false
  def GArg.good (ar : TyName → Nat) (n : Nat) : GArg → Bool
    | .ty t => t.good ar n
    | _ => false
  def Args.good (ar : TyName → Nat) (n : Nat) : Args → Bool
    | .nil => true
    | .cons a as => a.good ar n && as.good ar n
end

mutual
  theorem Ty.good_iff (ar : TyName → Nat) (n : Nat) : (t : Ty) →
      (t.good ar n = true ↔ t.fo = true ∧ t.varsBelow n = true ∧ t.arityOk ar = true)
    | .app nm args => by
        have := Args.good_iff ar n args
        simp [Ty.good, Ty.fo, Ty.varsBelow, Ty.arityOk, this]; grind
    | .scalar s => by simp [Ty.good, Ty.fo, Ty.varsBelow, Ty.arityOk]
    | .str => by simp [Ty.good, Ty.fo, Ty.varsBelow, Ty.arityOk]
    | .never => by simp [Ty.good, Ty.fo, Ty.varsBelow, Ty.arityOk]
    | .foreign id => by simp [Ty.good, Ty.fo, Ty.varsBelow, Ty.arityOk]
    | .error => by simp [Ty.good, Ty.fo]
    | .array t c => by simp [Ty.good, Ty.fo]
    | .slice t => by
        have := Ty.good_iff ar n t
        simp [Ty.good, Ty.fo, Ty.varsBelow, Ty.arityOk, this]
    | .raw m t => by
        have := Ty.good_iff ar n t
        simp [Ty.good, Ty.fo, Ty.varsBelow, Ty.arityOk, this]
    | .ref m l t => by simp [Ty.good, Ty.fo]
    | .placeholder ui idx => by simp [Ty.good, Ty.fo, Ty.varsBelow, Ty.arityOk]
    | .dyn kinds bounds l => by simp [Ty.good, Ty.fo]
    | .proj id args => by simp [Ty.good, Ty.fo]
    | .opaque id args => by simp [Ty.good, Ty.fo]
    | .function nb sig args => by simp [Ty.good, Ty.fo]
    | .bound db idx => by simp [Ty.good, Ty.fo]
    | .infer v k => by simp [Ty.good, Ty.fo, Ty.varsBelow, Ty.arityOk]
  theorem GArg.good_iff (ar : TyName → Nat) (n : Nat) : (a : GArg) →
      (a.good ar n = true ↔ a.fo = true ∧ a.varsBelow n = true ∧ a.arityOk ar = true)
    | .ty t => by
        have := Ty.good_iff ar n t
        simp [GArg.good, GArg.fo, GArg.varsBelow, GArg.arityOk, this]
    | .lt l => by simp [GArg.good, GArg.fo]
    | .ct c => by simp [GArg.good, GArg.fo]
  theorem Args.good_iff (ar : TyName → Nat) (n : Nat) : (a : Args) →
      (a.good ar n = true ↔ a.fo = true ∧ a.varsBelow n = true ∧ a.arityOk ar = true)
    | .nil => by simp [Args.good, Args.fo, Args.varsBelow, Args.arityOk]
    | .cons a as => by
        have h1 := GArg.good_iff ar n a
        have h2 := Args.good_iff ar n as
        simp [Args.good, Args.fo, Args.varsBelow, Args.arityOk, h1, h2]; grind
end

mutual
  theorem Ty.good_mono (ar : TyName → Nat) (n m : Nat) (hnm : n ≤ m) : (t : Ty) →
      t.good ar n = true → t.good ar m = true
    | .app nm args => by
        have := Args.good_mono ar n m hnm args
        simp [Ty.good]; grind
    | .scalar s => by simp [Ty.good]
    | .str => by simp [Ty.good]
    | .never => by simp [Ty.good]
    | .foreign id => by simp [Ty.good]
    | .error => by simp [Ty.good]
    | .array t c => by simp [Ty.good]
    | .slice t => by simpa [Ty.good] using Ty.good_mono ar n m hnm t
    | .raw _ t => by simpa [Ty.good] using Ty.good_mono ar n m hnm t
    | .ref _ l t => by simp [Ty.good]
    | .placeholder ui idx => by simp [Ty.good]
    | .dyn kinds bounds l => by simp [Ty.good]
    | .proj id args => by simp [Ty.good]
    | .opaque id args => by simp [Ty.good]
    | .function nb sig args => by simp [Ty.good]
    | .bound db idx => by simp [Ty.good]
    | .infer v k => by simp [Ty.good]; omega
  theorem GArg.good_mono (ar : TyName → Nat) (n m : Nat) (hnm : n ≤ m) : (a : GArg) →
      a.good ar n = true → a.good ar m = true
    | .ty t => by simpa [GArg.good] using Ty.good_mono ar n m hnm t
    | .lt l => by simp [GArg.good]
    | .ct c => by simp [GArg.good]
  theorem Args.good_mono (ar : TyName → Nat) (n m : Nat) (hnm : n ≤ m) : (a : Args) →
      a.good ar n = true → a.good ar m = true
    | .nil => by simp [Args.good]
    | .cons a as => by
        have h1 := GArg.good_mono ar n m hnm a
        have h2 := Args.good_mono ar n m hnm as
        simp [Args.good]; grind
end

theorem Args.length_cons (a : GArg) (as : Args) : (Args.cons a as).length = as.length + 1 := by
  simp [Args.length, Args.toList]

theorem Args.length_nil : Args.nil.length = 0 := rfl

/-! ## tables -/

def Table.goodValues (ar : TyName → Nat) (t : Table) : Prop :=
  ∀ v g, v < t.numVars → t.probeVar v = some g → ∃ ty, g = .ty ty ∧ ty.good ar t.numVars = true

theorem Table.goodValues_iff (ar : TyName → Nat) (t : Table) :
    t.goodValues ar ↔ t.foValues ∧ t.arityValues ar := by
  constructor
  · intro h
    refine ⟨?_, ?_⟩
    · intro v g hv hp
      obtain ⟨ty, rfl, hty⟩ := h v g hv hp
      have := (Ty.good_iff ar _ ty).mp hty
      exact ⟨ty, rfl, this.1, this.2.1⟩
    · intro v ty hv hp
      obtain ⟨ty', he, hty⟩ := h v _ hv hp
      cases he
      exact ((Ty.good_iff ar _ ty).mp hty).2.2
  · rintro ⟨h1, h2⟩ v g hv hp
    obtain ⟨ty, rfl, hfo, hvb⟩ := h1 v g hv hp
    exact ⟨ty, rfl, (Ty.good_iff ar _ ty).mpr ⟨hfo, hvb, h2 v ty hv hp⟩⟩

structure Table.Good (ar : TyName → Nat) (t : Table) : Prop where
  wf : t.WF
  vals : t.goodValues ar

/-- `t'` refines `t` -/
structure Table.Le (ar : TyName → Nat) (t t' : Table) : Prop where
  good : t'.Good ar
  numVars : t.numVars ≤ t'.numVars
  maxU : t'.maxUniverse = t.maxUniverse
  models : ∀ θ, t'.Models θ → t.Models θ
  probe : ∀ v g, v < t.numVars → t.probeVar v = some g → t'.probeVar v = some g
  find : ∀ x y, x < t.numVars → y < t.numVars → t.find x = t.find y → t'.find x = t'.find y

theorem Table.Le.refl {ar : TyName → Nat} {t : Table} (h : t.Good ar) : t.Le ar t :=
  ⟨h, Nat.le_refl _, rfl, fun _ h => h, fun _ _ _ h => h, fun _ _ _ _ h => h⟩

theorem Table.Le.trans {ar : TyName → Nat} {t1 t2 t3 : Table} (h12 : t1.Le ar t2) (h23 : t2.Le ar t3) :
    t1.Le ar t3 :=
  ⟨h23.good, Nat.le_trans h12.numVars h23.numVars, by rw [h23.maxU, h12.maxU],
   fun θ h => h12.models θ (h23.models θ h),
   fun v g hv h => h23.probe v g (Nat.lt_of_lt_of_le hv h12.numVars) (h12.probe v g hv h),
   fun x y hx hy h => h23.find x y (Nat.lt_of_lt_of_le hx h12.numVars) (Nat.lt_of_lt_of_le hy h12.numVars)
     (h12.find x y hx hy h)⟩

/-- refinement without new variables, from `find`/`probeVar` facts -/
theorem Table.Le_of {ar : TyName → Nat} {t t' : Table} (hg : t.Good ar) (hwf' : t'.WF)
    (hn : t'.numVars = t.numVars) (hmu : t'.maxUniverse = t.maxUniverse)
    (hfind : ∀ x y, x < t.numVars → y < t.numVars → t.find x = t.find y → t'.find x = t'.find y)
    (hprobe : ∀ v g, v < t.numVars → t.probeVar v = some g → t'.probeVar v = some g)
    (hnew : ∀ v g, v < t.numVars → t'.probeVar v = some g → ∃ T, g = .ty T ∧ T.good ar t.numVars = true) :
    t.Le ar t' := by
  refine ⟨⟨hwf', ?_⟩, by omega, hmu, ?_, hprobe, hfind⟩
  · intro v g hv hp
    rw [hn] at hv ⊢
    exact hnew v g hv hp
  · intro θ ⟨hm1, hm2⟩
    refine ⟨?_, ?_⟩
    · intro v hv
      have hfv := t.find_lt hg.wf v hv
      have e1 := hm1 v (by rw [hn]; exact hv)
      have e2 := hm1 (t.find v) (by rw [hn]; exact hfv)
      have e3 := hfind (t.find v) v hfv hv (t.find_find hg.wf v hv)
      rw [e1, e2, e3]
    · intro v ty hv hp
      exact hm2 v ty (by rw [hn]; exact hv) (hprobe v _ hv hp)

/-! ### `newVariable` -/

theorem Table.newVariable_Le {ar : TyName → Nat} (t : Table) (ui : Nat) (hg : t.Good ar) :
    t.Le ar (t.newVariable ui).1 := by
  have hwf' := t.newVariable_WF ui hg.wf
  have hn := t.newVariable_numVars ui
  refine ⟨⟨hwf', ?_⟩, by omega, rfl, ?_, ?_, ?_⟩
  · intro v g hv hp
    rw [hn] at hv ⊢
    by_cases hlt : v < t.numVars
    · rw [t.newVariable_probeVar_old ui hg.wf v hlt] at hp
      obtain ⟨ty, he, hty⟩ := hg.vals v g hlt hp
      exact ⟨ty, he, Ty.good_mono ar _ _ (by omega) ty hty⟩
    · have : v = t.numVars := by omega
      subst this
      rw [t.newVariable_probeVar_new ui hg.wf] at hp
      cases hp
  · intro θ ⟨hm1, hm2⟩
    refine ⟨?_, ?_⟩
    · intro v hv
      have := hm1 v (by omega)
      rw [t.newVariable_find_old ui hg.wf v hv] at this
      exact this
    · intro v ty hv hp
      exact hm2 v ty (by omega) (by rw [t.newVariable_probeVar_old ui hg.wf v hv]; exact hp)
  · intro v g hv hp
    rw [t.newVariable_probeVar_old ui hg.wf v hv]; exact hp
  · intro x y hx hy h
    rw [t.newVariable_find_old ui hg.wf x hx, t.newVariable_find_old ui hg.wf y hy]; exact h

/-! ### `unifyVarValue` -/

theorem Table.unifyVarValue_cases (t : Table) (a : Nat) (val : InferValue) (t' : Table)
    (h : t.unifyVarValue a val = .ok t') :
    ∃ z, unifyValues (t.value.getD (t.find a) (.unbound 0)) val = .ok z ∧
      t' = { t with value := t.value.set (t.find a) z } := by
  unfold Table.unifyVarValue at h
  simp only at h
  split at h
  · cases h
  · rename_i z hz
    cases h
    exact ⟨z, hz, rfl⟩

theorem Table.setValue_find (t : Table) (r : Nat) (z : InferValue) (v : Nat) :
    ({ t with value := t.value.set r z } : Table).find v = t.find v :=
  Table.find_congr { t with value := t.value.set r z } t rfl v

theorem Table.setValue_probeVar (t : Table) (hwf : t.WF) (r : Nat) (z : InferValue) (v : Nat)
    (hv : v < t.numVars) :
    ({ t with value := t.value.set r z } : Table).probeVar v =
      if t.find v = r then z.toOpt else t.probeVar v := by
  rw [Table.probeVar_eq, Table.probeVar_eq]
  rw [t.setValue_find r z v]
  show ((t.value.set r z).getD (t.find v) (.unbound 0)).toOpt = _
  by_cases h : t.find v = r
  · rw [if_pos h, ← h, getD_set_eq _ _ _ _ (by rw [hwf.lenValue]; exact t.find_lt hwf v hv)]
  · rw [if_neg h, getD_set_ne _ _ _ _ _ (Ne.symm h)]

theorem Table.setValue_WF (t : Table) (hwf : t.WF) (r : Nat) (z : InferValue) :
    ({ t with value := t.value.set r z } : Table).WF :=
  ⟨hwf.lenRank, by show (t.value.set r z).length = _; rw [List.length_set]; exact hwf.lenValue,
   hwf.parentLt, hwf.rankInc⟩

theorem Table.unifyVarValue_Le {ar : TyName → Nat} (t : Table) (a : Nat) (val : InferValue) (t' : Table)
    (hg : t.Good ar) (ha : a < t.numVars)
    (hval : ∀ g, val.toOpt = some g → ∃ T, g = .ty T ∧ T.good ar t.numVars = true)
    (h : t.unifyVarValue a val = .ok t') :
    t.Le ar t' ∧ (∀ g, val.toOpt = some g → t'.probeVar a = some g) := by
  obtain ⟨z, hz, rfl⟩ := t.unifyVarValue_cases a val t' h
  obtain ⟨s1, s2, s3, _⟩ := unifyValues_spec _ _ _ hz
  have hpa : (t.value.getD (t.find a) (.unbound 0)).toOpt = t.probeVar a := (t.probeVar_eq a).symm
  refine ⟨Table.Le_of hg (t.setValue_WF hg.wf _ _) rfl rfl ?_ ?_ ?_, ?_⟩
  · intro x y _ _ hxy
    rw [t.setValue_find, t.setValue_find]; exact hxy
  · intro v g hv hp
    rw [t.setValue_probeVar hg.wf _ _ v hv]
    by_cases hf : t.find v = t.find a
    · rw [if_pos hf]
      apply s1
      rw [hpa, Table.probeVar_eq, ← hf, ← Table.probeVar_eq]; exact hp
    · rw [if_neg hf]; exact hp
  · intro v g hv hp
    rw [t.setValue_probeVar hg.wf _ _ v hv] at hp
    by_cases hf : t.find v = t.find a
    · rw [if_pos hf] at hp
      rcases s3 g hp with h1 | h2
      · rw [hpa] at h1; exact hg.vals a g ha h1
      · exact hval g h2
    · rw [if_neg hf] at hp; exact hg.vals v g hv hp
  · intro g hgv
    rw [t.setValue_probeVar hg.wf _ _ a ha, if_pos rfl]
    exact s2 g hgv

theorem Table.unifyVarValue_unbound_Le {ar : TyName → Nat} (t : Table) (a u : Nat) (t' : Table)
    (hg : t.Good ar) (ha : a < t.numVars) (h : t.unifyVarValue a (.unbound u) = .ok t') :
    t.Le ar t' :=
  (t.unifyVarValue_Le a _ t' hg ha (by intro g hgv; cases hgv) h).1

theorem Table.unifyVarValue_bound_Le {ar : TyName → Nat} (t : Table) (a : Nat) (T : Ty) (t' : Table)
    (hg : t.Good ar) (ha : a < t.numVars) (hT : T.good ar t.numVars = true)
    (h : t.unifyVarValue a (.bound (.ty T)) = .ok t') :
    t.Le ar t' ∧ ∀ θ, t'.Models θ → θ a = T.applyAsg θ := by
  have := t.unifyVarValue_Le a _ t' hg ha
    (by intro g hgv; simp [InferValue.toOpt] at hgv; subst hgv; exact ⟨T, rfl, hT⟩) h
  refine ⟨this.1, ?_⟩
  intro θ hm
  exact hm.2 a T (Nat.lt_of_lt_of_le ha this.1.numVars) (this.2 _ rfl)

/-! ### `unifyVarVar` -/

theorem Table.unifyVarVar_cases (t : Table) (a b : Nat) (t' : Table) (hwf : t.WF)
    (ha : a < t.numVars) (hb : b < t.numVars) (h : t.unifyVarVar a b = .ok t') :
    (t' = t ∧ t.find a = t.find b) ∨
    ∃ r1 r2 z, ((r1 = t.find a ∧ r2 = t.find b) ∨ (r1 = t.find b ∧ r2 = t.find a)) ∧
      (unifyValues (t.value.getD r1 (.unbound 0)) (t.value.getD r2 (.unbound 0)) = .ok z ∨
       unifyValues (t.value.getD r2 (.unbound 0)) (t.value.getD r1 (.unbound 0)) = .ok z) ∧
      t'.WF ∧ (∀ v, v < t.numVars → t'.find v = if t.find v = r1 then r2 else t.find v) ∧
      t'.value = t.value.set r2 z ∧ t'.numVars = t.numVars ∧ t'.maxUniverse = t.maxUniverse := by
  have hfa := t.find_lt hwf a ha
  have hfb := t.find_lt hwf b hb
  have rfa := t.find_isRoot hwf a ha
  have rfb := t.find_isRoot hwf b hb
  unfold Table.unifyVarVar at h
  simp only at h
  split at h
  · rename_i heq
    cases h; exact Or.inl ⟨rfl, heq⟩
  · rename_i hne
    right
    split at h
    · cases h
    · rename_i z hz
      split at h
      · -- ka > kb : rb redirected to ra
        rename_i hk
        cases h
        refine ⟨t.find b, t.find a, z, Or.inr ⟨rfl, rfl⟩, Or.inr hz, ?_⟩
        have := Table.link_spec t { t with parent := t.parent.set (t.find b) (t.find a), value := t.value.set (t.find a) z }
          (t.find b) (t.find a) hwf hfb hfa rfb rfa (Ne.symm hne) rfl rfl (fun _ _ => rfl)
          (Nat.le_refl _) hk (by simp)
        exact ⟨this.1, this.2, rfl, by simp [Table.numVars], rfl⟩
      · rename_i hk
        split at h
        · rename_i hk2
          cases h
          refine ⟨t.find a, t.find b, z, Or.inl ⟨rfl, rfl⟩, Or.inl hz, ?_⟩
          have := Table.link_spec t { t with parent := t.parent.set (t.find a) (t.find b), value := t.value.set (t.find b) z }
            (t.find a) (t.find b) hwf hfa hfb rfa rfb hne rfl rfl (fun _ _ => rfl)
            (Nat.le_refl _) hk2 (by simp)
          exact ⟨this.1, this.2, rfl, by simp [Table.numVars], rfl⟩
        · rename_i hk2
          cases h
          refine ⟨t.find a, t.find b, z, Or.inl ⟨rfl, rfl⟩, Or.inl hz, ?_⟩
          have hkeq : t.rank.getD (t.find a) 0 = t.rank.getD (t.find b) 0 := by omega
          have hlb : t.find b < t.rank.length := by rw [hwf.lenRank]; exact hfb
          have := Table.link_spec t
            { t with parent := t.parent.set (t.find a) (t.find b),
                     rank := t.rank.set (t.find b) (t.rank.getD (t.find a) 0 + 1),
                     value := t.value.set (t.find b) z }
            (t.find a) (t.find b) hwf hfa hfb rfa rfb hne rfl (by simp)
            (fun v hv => getD_set_ne _ _ _ _ _ (Ne.symm hv))
            (by show _ ≤ (t.rank.set _ _).getD _ 0; rw [getD_set_eq _ _ _ _ hlb]; omega)
            (by show _ < (t.rank.set _ _).getD _ 0; rw [getD_set_eq _ _ _ _ hlb]; omega) (by simp)
          exact ⟨this.1, this.2, rfl, by simp [Table.numVars], rfl⟩

theorem Table.unifyVarVar_Le {ar : TyName → Nat} (t : Table) (a b : Nat) (t' : Table)
    (hg : t.Good ar) (ha : a < t.numVars) (hb : b < t.numVars) (h : t.unifyVarVar a b = .ok t') :
    t.Le ar t' ∧ ∀ θ, t'.Models θ → θ a = θ b := by
  rcases t.unifyVarVar_cases a b t' hg.wf ha hb h with ⟨rfl, heq⟩ | ⟨r1, r2, z, hr, hz, hwf', hfind, hval, hn, hmu⟩
  · refine ⟨Table.Le.refl hg, ?_⟩
    intro θ hm
    rw [hm.1 a ha, hm.1 b hb, heq]
  · have hfa := t.find_lt hg.wf a ha
    have hfb := t.find_lt hg.wf b hb
    have hr1 : r1 < t.numVars ∧ t.find r1 = r1 := by
      rcases hr with ⟨e, _⟩ | ⟨e, _⟩ <;> subst e
      · exact ⟨hfa, t.find_find hg.wf a ha⟩
      · exact ⟨hfb, t.find_find hg.wf b hb⟩
    have hr2 : r2 < t.numVars ∧ t.find r2 = r2 := by
      rcases hr with ⟨_, e⟩ | ⟨_, e⟩ <;> subst e
      · exact ⟨hfb, t.find_find hg.wf b hb⟩
      · exact ⟨hfa, t.find_find hg.wf a ha⟩
    -- facts about the merged value
    have hs : (∀ g, (t.value.getD r1 (.unbound 0)).toOpt = some g → z.toOpt = some g) ∧
        (∀ g, (t.value.getD r2 (.unbound 0)).toOpt = some g → z.toOpt = some g) ∧
        (∀ g, z.toOpt = some g → (t.value.getD r1 (.unbound 0)).toOpt = some g ∨
          (t.value.getD r2 (.unbound 0)).toOpt = some g) := by
      rcases hz with hz | hz
      · obtain ⟨s1, s2, s3, _⟩ := unifyValues_spec _ _ _ hz; exact ⟨s1, s2, s3⟩
      · obtain ⟨s1, s2, s3, _⟩ := unifyValues_spec _ _ _ hz
        exact ⟨s2, s1, fun g h => (s3 g h).symm⟩
    obtain ⟨s1, s2, s3⟩ := hs
    have hp1 : t.probeVar r1 = (t.value.getD r1 (.unbound 0)).toOpt := by
      rw [Table.probeVar_eq, hr1.2]
    have hp2 : t.probeVar r2 = (t.value.getD r2 (.unbound 0)).toOpt := by
      rw [Table.probeVar_eq, hr2.2]
    have hprobe' : ∀ v, v < t.numVars → t'.probeVar v =
        if t.find v = r1 ∨ t.find v = r2 then z.toOpt else t.probeVar v := by
      intro v hv
      rw [Table.probeVar_eq, hfind v hv, hval]
      by_cases h1 : t.find v = r1
      · rw [if_pos h1, if_pos (Or.inl h1), getD_set_eq _ _ _ _ (by rw [hg.wf.lenValue]; exact hr2.1)]
      · rw [if_neg h1]
        by_cases h2 : t.find v = r2
        · rw [if_pos (Or.inr h2), h2, getD_set_eq _ _ _ _ (by rw [hg.wf.lenValue]; exact hr2.1)]
        · rw [if_neg (by intro h; rcases h with h | h <;> contradiction),
            getD_set_ne _ _ _ _ _ (Ne.symm h2), ← Table.probeVar_eq]
    refine ⟨Table.Le_of hg hwf' hn hmu ?_ ?_ ?_, ?_⟩
    · intro x y hx hy hxy
      rw [hfind x hx, hfind y hy, hxy]
    · intro v g hv hp
      rw [hprobe' v hv]
      rw [Table.probeVar_eq] at hp
      split
      · rename_i hc
        rcases hc with hc | hc <;> rw [hc] at hp
        · exact s1 g hp
        · exact s2 g hp
      · rw [Table.probeVar_eq]; exact hp
    · intro v g hv hp
      rw [hprobe' v hv] at hp
      split at hp
      · rcases s3 g hp with h1 | h2
        · exact hg.vals r1 g hr1.1 (by rw [hp1]; exact h1)
        · exact hg.vals r2 g hr2.1 (by rw [hp2]; exact h2)
      · exact hg.vals v g hv hp
    · intro θ hm
      have ea := hm.1 a (by rw [hn]; exact ha)
      have eb := hm.1 b (by rw [hn]; exact hb)
      rw [ea, eb, hfind a ha, hfind b hb]
      rcases hr with ⟨e1, e2⟩ | ⟨e1, e2⟩
      · rw [if_pos e1.symm]
        by_cases hc : t.find b = r1
        · rw [if_pos hc]
        · rw [if_neg hc, e2]
      · rw [if_pos e1.symm]
        by_cases hc : t.find a = r1
        · rw [if_pos hc]
        · rw [if_neg hc, e2]

/-! ### shallow normalization -/

theorem Table.normalizeInner_spec {ar : TyName → Nat} (t : Table) (hg : t.Good ar) (a ty : Ty)
    (ha : a.good ar t.numVars = true) (h : t.normalizeTyShallowInner a = some ty) :
    ty.good ar t.numVars = true ∧ ∀ θ, t.Models θ → ty.applyAsg θ = a.applyAsg θ := by
  cases a <;> simp [Table.normalizeTyShallowInner] at h
  rename_i v k
  split at h
  · rename_i ty' hp
    cases h
    have hv : v < t.numVars := by simpa [Ty.good] using ha
    obtain ⟨T, he, hT⟩ := hg.vals v _ hv hp
    cases he
    refine ⟨hT, ?_⟩
    intro θ hm
    simp only [Ty.applyAsg]
    exact (hm.2 v _ hv hp).symm
  · cases h

theorem Table.normalize_spec {ar : TyName → Nat} (t : Table) (hg : t.Good ar) (a : Ty)
    (ha : a.good ar t.numVars = true) :
    ((t.normalizeTyShallow a).getD a).good ar t.numVars = true ∧
    ∀ θ, t.Models θ → ((t.normalizeTyShallow a).getD a).applyAsg θ = a.applyAsg θ := by
  unfold Table.normalizeTyShallow
  split
  · rename_i ty h1
    obtain ⟨g1, m1⟩ := t.normalizeInner_spec hg a ty ha h1
    cases h2 : t.normalizeTyShallowInner ty with
    | none => exact ⟨g1, m1⟩
    | some ty2 =>
      obtain ⟨g2, m2⟩ := t.normalizeInner_spec hg ty ty2 g1 h2
      exact ⟨g2, fun θ hm => (m2 θ hm).trans (m1 θ hm)⟩
  · exact ⟨ha, fun _ _ => rfl⟩

/-! ## the hypotheses of the soundness theorem are satisfiable: `new`, `newVariable`, `newUniverse` -/

mutual
  theorem Ty.varsBelow_mono (n m : Nat) (hnm : n ≤ m) : (t : Ty) →
      t.varsBelow n = true → t.varsBelow m = true
    | .app nm args => by simpa [Ty.varsBelow] using Args.varsBelow_mono n m hnm args
    | .scalar s => by simp [Ty.varsBelow]
    | .str => by simp [Ty.varsBelow]
    | .never => by simp [Ty.varsBelow]
    | .foreign id => by simp [Ty.varsBelow]
    | .error => by simp [Ty.varsBelow]
    | .array t c => by simp [Ty.varsBelow]
    | .slice t => by simpa [Ty.varsBelow] using Ty.varsBelow_mono n m hnm t
    | .raw _ t => by simpa [Ty.varsBelow] using Ty.varsBelow_mono n m hnm t
    | .ref _ l t => by simp [Ty.varsBelow]
    | .placeholder ui idx => by simp [Ty.varsBelow]
    | .dyn kinds bounds l => by simp [Ty.varsBelow]
    | .proj id args => by simp [Ty.varsBelow]
    | .opaque id args => by simp [Ty.varsBelow]
    | .function nb sig args => by simp [Ty.varsBelow]
    | .bound db idx => by simp [Ty.varsBelow]
    | .infer v k => by simp [Ty.varsBelow]; omega
  theorem GArg.varsBelow_mono (n m : Nat) (hnm : n ≤ m) : (a : GArg) →
      a.varsBelow n = true → a.varsBelow m = true
    | .ty t => by simpa [GArg.varsBelow] using Ty.varsBelow_mono n m hnm t
    | .lt l => by simp [GArg.varsBelow]
    | .ct c => by simp [GArg.varsBelow]
  theorem Args.varsBelow_mono (n m : Nat) (hnm : n ≤ m) : (a : Args) →
      a.varsBelow n = true → a.varsBelow m = true
    | .nil => by simp [Args.varsBelow]
    | .cons a as => by
        have h1 := GArg.varsBelow_mono n m hnm a
        have h2 := Args.varsBelow_mono n m hnm as
        simp [Args.varsBelow]; grind
end

theorem Table.new_WF : Table.new.WF :=
  ⟨rfl, rfl, fun v hv => absurd hv (Nat.not_lt_zero v), fun v hv => absurd hv (Nat.not_lt_zero v)⟩

theorem Table.new_foValues : Table.new.foValues :=
  fun v _ hv => absurd hv (Nat.not_lt_zero v)

theorem Table.new_arityValues (ar : TyName → Nat) : Table.new.arityValues ar :=
  fun v _ hv => absurd hv (Nat.not_lt_zero v)

theorem Table.newVariable_foValues (t : Table) (ui : Nat) (hwf : t.WF) (h : t.foValues) :
    (t.newVariable ui).1.foValues := by
  intro v g hv hp
  rw [t.newVariable_numVars] at hv ⊢
  by_cases hlt : v < t.numVars
  · rw [t.newVariable_probeVar_old ui hwf v hlt] at hp
    obtain ⟨ty, he, hfo, hvb⟩ := h v g hlt hp
    exact ⟨ty, he, hfo, Ty.varsBelow_mono _ _ (by omega) ty hvb⟩
  · have : v = t.numVars := by omega
    subst this
    rw [t.newVariable_probeVar_new ui hwf] at hp
    cases hp

theorem Table.newVariable_arityValues (ar : TyName → Nat) (t : Table) (ui : Nat) (hwf : t.WF)
    (h : t.arityValues ar) : (t.newVariable ui).1.arityValues ar := by
  intro v ty hv hp
  rw [t.newVariable_numVars] at hv
  by_cases hlt : v < t.numVars
  · rw [t.newVariable_probeVar_old ui hwf v hlt] at hp
    exact h v ty hlt hp
  · have : v = t.numVars := by omega
    subst this
    rw [t.newVariable_probeVar_new ui hwf] at hp
    cases hp

theorem Table.newUniverse_WF (t : Table) (h : t.WF) : t.newUniverse.1.WF :=
  ⟨h.lenRank, h.lenValue, h.parentLt, h.rankInc⟩

theorem Table.newUniverse_probeVar (t : Table) (v : Nat) : t.newUniverse.1.probeVar v = t.probeVar v := by
  rw [Table.probeVar_eq, Table.probeVar_eq, Table.find_congr t.newUniverse.1 t rfl v]
  rfl

theorem Table.newUniverse_foValues (t : Table) (h : t.foValues) : t.newUniverse.1.foValues := by
  intro v g hv hp
  rw [t.newUniverse_probeVar] at hp
  exact h v g hv hp

theorem Table.newUniverse_arityValues (ar : TyName → Nat) (t : Table) (h : t.arityValues ar) :
    t.newUniverse.1.arityValues ar := by
  intro v ty hv hp
  rw [t.newUniverse_probeVar] at hp
  exact h v ty hv hp

end Chalk
