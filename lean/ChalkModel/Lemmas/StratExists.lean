/-
  Helper lemmas for `Props/C05strat.lean`: on a finite closed domain without mixed-polarity cycle a
  stratification exists.  Level of `k` = number of positions of `dom` whose goal is reachable from `k`
  by a dependency path of length ≥ 0 (classical, not computable).
-/
import ChalkModel.Props.C05mixed

namespace Chalk.FixedPoint.StratExists
open Chalk.FixedPoint.C05mixed Chalk.FixedPoint.Mix

/-- reachable by a path of length ≥ 0 -/
def Reach0 (inst : Instance) (k j : Nat) : Prop := j = k ∨ Reach inst k j

/-- the goals of `dom` reachable from `k` (with the multiplicities of `dom`) -/
noncomputable def reachList (inst : Instance) (dom : List Nat) (k : Nat) : List Nat :=
  dom.filter (fun j => @decide (Reach0 inst k j) (Classical.propDecidable _))

/-- the level function: how many goals of `dom` are reachable from `k` -/
noncomputable def reachLvl (inst : Instance) (dom : List Nat) (k : Nat) : Nat :=
  (reachList inst dom k).length

theorem mem_reachList {inst : Instance} {dom : List Nat} {k x : Nat} :
    x ∈ reachList inst dom k ↔ x ∈ dom ∧ Reach0 inst k x := by
  simp [reachList]

theorem reach0_of_edge {inst : Instance} {k j : Nat} {alt : List Nat} (ha : alt ∈ inst.deps k) (hj : j ∈ alt)
    {x : Nat} (h : Reach0 inst j x) : Reach0 inst k x := by
  cases h with
  | inl e => subst e; exact Or.inr (Reach.step k x alt ha hj)
  | inr r => exact Or.inr (Reach.trans k j x (Reach.step k j alt ha hj) r)

/-- a filter by a stronger predicate gives a sublist -/
theorem filter_sublist_of_imp {α : Type} (p q : α → Bool) (h : ∀ a, p a = true → q a = true) (l : List α) :
    List.Sublist (l.filter p) (l.filter q) := by
  induction l with
  | nil => exact List.Sublist.slnil
  | cons a l ih =>
    cases hp : p a with
    | true =>
      rw [List.filter_cons_of_pos hp, List.filter_cons_of_pos (h a hp)]
      exact List.Sublist.cons_cons a ih
    | false =>
      rw [List.filter_cons_of_neg (by simp [hp])]
      cases hq : q a with
      | true =>
        rw [List.filter_cons_of_pos hq]
        exact List.Sublist.cons a ih
      | false =>
        rw [List.filter_cons_of_neg (by simp [hq])]
        exact ih

theorem reachList_sublist {inst : Instance} (dom : List Nat) {k j : Nat} {alt : List Nat}
    (ha : alt ∈ inst.deps k) (hj : j ∈ alt) :
    List.Sublist (reachList inst dom j) (reachList inst dom k) := by
  apply filter_sublist_of_imp
  intro x hx
  simp only [decide_eq_true_eq] at hx ⊢
  exact reach0_of_edge ha hj hx

theorem reachLvl_le {inst : Instance} (dom : List Nat) {k j : Nat} {alt : List Nat}
    (ha : alt ∈ inst.deps k) (hj : j ∈ alt) : reachLvl inst dom j ≤ reachLvl inst dom k :=
  (reachList_sublist dom ha hj).length_le

/-- equal level along an edge `k → j` with `k ∈ dom`: `j` reaches `k` back -/
theorem reach0_back_of_lvl_eq {inst : Instance} (dom : List Nat) {k j : Nat} {alt : List Nat}
    (hk : k ∈ dom) (ha : alt ∈ inst.deps k) (hj : j ∈ alt)
    (e : reachLvl inst dom j = reachLvl inst dom k) : Reach0 inst j k := by
  have hs := reachList_sublist dom ha hj
  have heq : reachList inst dom j = reachList inst dom k := hs.eq_of_length e
  have hmem : k ∈ reachList inst dom k := mem_reachList.mpr ⟨hk, Or.inl rfl⟩
  rw [← heq] at hmem
  exact (mem_reachList.mp hmem).2

end Chalk.FixedPoint.StratExists
