/-
  FixedPointMixB.lean — the evaluation layer against the specification of a sub-goal solver
  (mixed polarities, partial correctness); answers that cross a change of polarity are exact.
-/
import ChalkModel.Lemmas.FixedPointMixA
import ChalkModel.Lemmas.FixedPointSemB

namespace Chalk.FixedPoint.Mix
open Chalk.FixedPoint.Cyc (JE JA MinLe InCache InGraph Def Undef flagAt StackExt stackGoals
  getElem?_lt_length getElem?_prefix QuietSt shouldContinue_cases)

/-- the class of instances: `dom` closed under `deps`, all goals ground, `P` the stratified truth,
    `lvl` a stratification (levels do not increase along dependencies and drop where the polarity
    changes: no cycle mixes polarities) -/
structure MHyp (inst : Instance) (P : Nat → Prop) (dom : List Nat) (lvl : Nat → Nat) : Prop where
  closed : ∀ k, k ∈ dom → ∀ alt, alt ∈ inst.deps k → ∀ j, j ∈ alt → j ∈ dom
  ground : ∀ k, k ∈ dom → inst.ground k = true
  strat : Strat inst P
  lvl_le : ∀ k, k ∈ dom → ∀ alt, alt ∈ inst.deps k → ∀ j, j ∈ alt →
    lvl j ≤ lvl k ∧ (lvl j = lvl k → inst.coind j = inst.coind k)

/-- `g` is the goal on top of the stack -/
def GTop (s : St) (g : Nat) : Prop :=
  ∃ (i : Nat) (n : Node) (d : Nat), s.graph[i]? = some n ∧ n.goal = g ∧ n.stackDepth = some d ∧
    d + 1 = s.stack.length

/-- partial-correctness specification of a sub-goal solver -/
def SubSpec (inst : Instance) (P : Nat → Prop) (dom : List Nat) (lvl : Nat → Nat) (fx : Bool) (rec : SubSolver) : Prop :=
  ∀ g m s v m' s', Inv inst P dom lvl fx s → g ∈ dom → Below inst lvl s g → rec g m s = .ok (v, m') s' →
    Inv inst P dom lvl fx s' ∧ Step inst P s s' m' ∧ MinLe m' m ∧ Fact inst P s s' m' g v ∧
    LinkOK lvl s' (lvl g) s.graph.length m m'

section
variable {inst : Instance} {P : Nat → Prop} {dom : List Nat} {lvl : Nat → Nat} {fx : Bool} {rec : SubSolver} {cfg : Cfg}

theorem GTop.step {s s' : St} {m : Min} {g : Nat} (h : GTop s g) (hs : Step inst P s s' m) : GTop s' g := by
  obtain ⟨i, n, d, hn, hg, hd, hl⟩ := h
  obtain ⟨new, hgr, _⟩ := hs.graph
  exact ⟨i, n, d, by rw [hgr]; exact getElem?_prefix hn, hg, hd, by rw [hs.stack.1]; exact hl⟩

/-- a sub-goal of the goal on top of the stack lies below the whole stack -/
theorem below_of_dep {s : St} (hi : Inv inst P dom lvl fx s) {g x : Nat} (ht : GTop s g)
    (hx : lvl x ≤ lvl g ∧ (lvl x = lvl g → inst.coind x = inst.coind g)) : Below inst lvl s x := by
  obtain ⟨i, n, d, hn, hg, hd, hl⟩ := ht
  intro i' n' d' hn' hd'
  have hlt := (hi.stk i' n' d' hn' hd').1
  have hc := hi.chain i' n' d' i n d hn' hd' hn hd (by omega)
  rw [hg] at hc
  refine ⟨Nat.le_trans hx.1 hc.1, fun e => ?_⟩
  have e1 : lvl x = lvl g := by omega
  have e2 : lvl g = lvl n'.goal := by omega
  rw [hx.2 e1, hc.2 e2]

/-- every node off the stack depends on a node on the stack that is not above it -/
theorem Inv.reach_stack {s : St} (hi : Inv inst P dom lvl fx s) : ∀ (b i : Nat) (n : Node), i < b →
    s.graph[i]? = some n → n.stackDepth = none →
    ∃ (i' : Nat) (n' : Node) (d' : Nat), s.graph[i']? = some n' ∧ n'.stackDepth = some d' ∧
      lvl n'.goal ≤ lvl n.goal
  | 0, _, _, h, _, _ => absurd h (Nat.not_lt_zero _)
  | b + 1, i, n, hb, hn, hd => by
    obtain ⟨l, hl, hlt⟩ := hi.nonstk i n hn hd
    obtain ⟨n'', hn'', hle⟩ := hi.lvlLinks i n l hn hd hl
    cases hsd : n''.stackDepth with
    | some d'' => exact ⟨l, n'', d'', hn'', hsd, hle⟩
    | none =>
      obtain ⟨i', n', d', h1, h2, h3⟩ := hi.reach_stack b l n'' (by omega) hn'' hsd
      exact ⟨i', n', d', h1, h2, Nat.le_trans h3 hle⟩

/-- a justified answer of a goal strictly below the top of the stack is exact -/
theorem Wit.exact {s : St} (hi : Inv inst P dom lvl fx s) {g x : Nat} (ht : GTop s g) (hlt : lvl x < lvl g)
    {lb : Min} {v : V} (h : Wit inst P s lb v x) : Holds P v x := by
  cases h with
  | inl h => exact h
  | inr h =>
    exfalso
    obtain ⟨i, n, hn, hgo, _, _, _, _⟩ := h
    obtain ⟨ig, ng, dg, hng, hgg, hdg, hlg⟩ := ht
    cases hsd : n.stackDepth with
    | some d =>
      have hd := (hi.stk i n d hn hsd).1
      have hc := hi.chain i n d ig ng dg hn hsd hng hdg (by omega)
      rw [hgg, hgo] at hc
      omega
    | none =>
      obtain ⟨i', n', d', h1, h2, h3⟩ := hi.reach_stack (i + 1) i n (Nat.lt_succ_self _) hn hsd
      have hd := (hi.stk i' n' d' h1 h2).1
      have hc := hi.chain i' n' d' ig ng dg h1 h2 hng hdg (by omega)
      rw [hgg] at hc
      rw [hgo] at h3
      omega

theorem fulfillRound_sem (hrec : SubSpec inst P dom lvl fx rec) (L B : Nat) :
    ∀ (cs acc : List Nat) (m : Min) (s : St) (o : Option (List Nat)) (m' : Min) (s' : St),
      Inv inst P dom lvl fx s → B ≤ s.graph.length → (∀ x, x ∈ cs → x ∈ dom ∧ Below inst lvl s x ∧ lvl x ≤ L) →
      fulfillRound rec cs acc m s = .ok (o, m') s' →
      Inv inst P dom lvl fx s' ∧ Step inst P s s' m' ∧ MinLe m' m ∧ LinkOK lvl s' L B m m' ∧
        ((∃ ret, o = some (acc ++ ret) ∧ (∀ x, x ∈ ret → x ∈ cs) ∧ (ret ≠ [] → s'.interrupted = true) ∧
            ∀ x, x ∈ cs → Fact inst P s s' m' x .unique ∨ x ∈ ret) ∨
         (o = none ∧ ∃ x, x ∈ cs ∧ Fact inst P s s' m' x .noSolution))
  | [], acc, m, s, o, m', s', hi, _, _, h => by
    simp only [fulfillRound, Res.ok.injEq, Prod.mk.injEq] at h
    obtain ⟨⟨ho, hm⟩, hs⟩ := h
    subst ho; subst hm; subst hs
    refine ⟨hi, Step.refl _ _, MinLe.refl _, Or.inl rfl, Or.inl ⟨[], by simp, ?_, ?_, ?_⟩⟩
    · intro x hx; cases hx
    · intro hne; exact absurd rfl hne
    · intro x hx; cases hx
  | x :: rest, acc, m, s, o, m', s', hi, hB, hd, h => by
    simp only [fulfillRound] at h
    obtain ⟨hxd, hxb, hxl⟩ := hd x (List.mem_cons_self ..)
    cases hr : rec x m s with
    | panic site s1 => rw [hr] at h; cases h
    | ok r s1 =>
      obtain ⟨v, m1⟩ := r
      rw [hr] at h
      obtain ⟨hi1, hs1, hle1, hf1, hk1⟩ := hrec x m s v m1 s1 hi hxd hxb hr
      have hd1 : ∀ y, y ∈ rest → y ∈ dom ∧ Below inst lvl s1 y ∧ lvl y ≤ L := fun y hy => by
        obtain ⟨a, b, c⟩ := hd y (List.mem_cons_of_mem _ hy)
        exact ⟨a, b.step hs1, c⟩
      cases v with
      | noSolution =>
        simp only [Res.ok.injEq, Prod.mk.injEq] at h
        obtain ⟨⟨ho, hm⟩, hs⟩ := h
        subst ho; subst hm; subst hs
        exact ⟨hi1, hs1, hle1, hk1.mono hxl hB, Or.inr ⟨rfl, x, List.mem_cons_self .., hf1⟩⟩
      | unique =>
        simp only at h
        obtain ⟨hi2, hs2, hle2, hk2, hres⟩ := fulfillRound_sem hrec L B rest acc m1 s1 o m' s' hi1
          (Nat.le_trans hB hs1.graph_le) hd1 h
        refine ⟨hi2, hs1.trans hs2 hle2 hi1 hi2, hle2.trans hle1, ((hk1.mono hxl hB).step hs2).trans hk2, ?_⟩
        cases hres with
        | inl hres =>
          obtain ⟨ret, ho, hsub, hint, hall⟩ := hres
          refine Or.inl ⟨ret, ho, fun y hy => List.mem_cons_of_mem _ (hsub y hy), hint, fun y hy => ?_⟩
          cases List.mem_cons.mp hy with
          | inl e => rw [e]; exact Or.inl (hf1.step (Step.refl s m) hi hs2 hle2)
          | inr e =>
            cases hall y e with
            | inl h1 => exact Or.inl (h1.step hs1 hi1 (Step.refl s' m') (MinLe.refl _))
            | inr h1 => exact Or.inr h1
        | inr hres =>
          obtain ⟨y, hy, hfy⟩ := hres.2
          exact Or.inr ⟨hres.1, y, List.mem_cons_of_mem _ hy,
            hfy.step hs1 hi1 (Step.refl s' m') (MinLe.refl _)⟩
      | ambig =>
        simp only at h
        obtain ⟨hi2, hs2, hle2, hk2, hres⟩ := fulfillRound_sem hrec L B rest (acc ++ [x]) m1 s1 o m' s' hi1
          (Nat.le_trans hB hs1.graph_le) hd1 h
        refine ⟨hi2, hs1.trans hs2 hle2 hi1 hi2, hle2.trans hle1, ((hk1.mono hxl hB).step hs2).trans hk2, ?_⟩
        cases hres with
        | inl hres =>
          obtain ⟨ret, ho, hsub, _, hall⟩ := hres
          refine Or.inl ⟨x :: ret, by rw [ho, List.append_assoc]; rfl, fun y hy => ?_,
            fun _ => hs2.intr hf1.ambig, fun y hy => ?_⟩
          · cases List.mem_cons.mp hy with
            | inl e => rw [e]; exact List.mem_cons_self ..
            | inr e => exact List.mem_cons_of_mem _ (hsub y e)
          · cases List.mem_cons.mp hy with
            | inl e => rw [e]; exact Or.inr (List.mem_cons_self ..)
            | inr e =>
              cases hall y e with
              | inl h1 => exact Or.inl (h1.step hs1 hi1 (Step.refl s' m') (MinLe.refl _))
              | inr h1 => exact Or.inr (List.mem_cons_of_mem _ h1)
        | inr hres =>
          obtain ⟨y, hy, hfy⟩ := hres.2
          exact Or.inr ⟨hres.1, y, List.mem_cons_of_mem _ hy,
            hfy.step hs1 hi1 (Step.refl s' m') (MinLe.refl _)⟩

/-- the last pass of `Fulfill::solve` over the retained (ambiguous) obligations -/
theorem suggestPass_sem (hrec : SubSpec inst P dom lvl fx rec) (L B : Nat) :
    ∀ (ds : List Nat) (m : Min) (s : St) (v : V) (m' : Min) (s' : St),
      Inv inst P dom lvl fx s → B ≤ s.graph.length → (∀ x, x ∈ ds → x ∈ dom ∧ Below inst lvl s x ∧ lvl x ≤ L) →
      s.interrupted = true → suggestPass cfg rec ds m s = .ok (v, m') s' →
      Inv inst P dom lvl fx s' ∧ Step inst P s s' m' ∧ MinLe m' m ∧ LinkOK lvl s' L B m m' ∧
        ((v = .ambig ∧ s'.interrupted = true) ∨
         (v = .noSolution ∧ ∃ x, x ∈ ds ∧ Fact inst P s s' m' x .noSolution))
  | [], m, s, v, m', s', hi, _, _, hint, h => by
    simp only [suggestPass, Res.ok.injEq, Prod.mk.injEq] at h
    obtain ⟨⟨hv, hm⟩, hs⟩ := h
    subst hv; subst hm; subst hs
    exact ⟨hi, Step.refl _ _, MinLe.refl _, Or.inl rfl, Or.inl ⟨rfl, hint⟩⟩
  | x :: rest, m, s, v, m', s', hi, hB, hd, hint, h => by
    simp only [suggestPass] at h
    obtain ⟨hxd, hxb, hxl⟩ := hd x (List.mem_cons_self ..)
    cases hr : rec x m s with
    | panic site s1 => rw [hr] at h; cases h
    | ok r s1 =>
      obtain ⟨w, m1⟩ := r
      rw [hr] at h
      obtain ⟨hi1, hs1, hle1, hf1, hk1⟩ := hrec x m s w m1 s1 hi hxd hxb hr
      cases w with
      | noSolution =>
        simp only at h
        by_cases h16 : cfg.fixF16 = true
        · simp only [h16, if_true, Res.ok.injEq, Prod.mk.injEq] at h
          obtain ⟨⟨hv, hm⟩, hs⟩ := h
          subst hv; subst hm; subst hs
          exact ⟨hi1, hs1, hle1, hk1.mono hxl hB, Or.inr ⟨rfl, x, List.mem_cons_self .., hf1⟩⟩
        · simp only [h16] at h
          cases h
      | unique =>
        simp only [Res.ok.injEq, Prod.mk.injEq] at h
        obtain ⟨⟨hv, hm⟩, hs⟩ := h
        subst hv; subst hm; subst hs
        exact ⟨hi1, hs1, hle1, hk1.mono hxl hB, Or.inl ⟨rfl, hs1.intr hint⟩⟩
      | ambig =>
        simp only at h
        obtain ⟨hi2, hs2, hle2, hk2, hres⟩ := suggestPass_sem hrec L B rest m1 s1 v m' s' hi1
          (Nat.le_trans hB hs1.graph_le) (fun y hy => by
            obtain ⟨a, b, c⟩ := hd y (List.mem_cons_of_mem _ hy)
            exact ⟨a, b.step hs1, c⟩) (hs1.intr hint) h
        refine ⟨hi2, hs1.trans hs2 hle2 hi1 hi2, hle2.trans hle1, ((hk1.mono hxl hB).step hs2).trans hk2, ?_⟩
        cases hres with
        | inl hres => exact Or.inl hres
        | inr hres =>
          obtain ⟨hv, y, hy, hfy⟩ := hres
          exact Or.inr ⟨hv, y, List.mem_cons_of_mem _ hy, hfy.step hs1 hi1 (Step.refl s' m') (MinLe.refl _)⟩

theorem fulfillSolve_sem (hrec : SubSpec inst P dom lvl fx rec) (L B : Nat) (alt : List Nat) (m : Min) (s : St)
    (v : V) (m' : Min) (s' : St) (hi : Inv inst P dom lvl fx s) (hB : B ≤ s.graph.length)
    (hd : ∀ x, x ∈ alt → x ∈ dom ∧ Below inst lvl s x ∧ lvl x ≤ L)
    (h : fulfillSolve cfg rec alt m s = .ok (v, m') s') :
    Inv inst P dom lvl fx s' ∧ Step inst P s s' m' ∧ MinLe m' m ∧ LinkOK lvl s' L B m m' ∧
      ((v = .unique ∧ ∀ x, x ∈ alt → Fact inst P s s' m' x .unique) ∨
       (v = .noSolution ∧ ∃ x, x ∈ alt ∧ Fact inst P s s' m' x .noSolution) ∨
       (v = .ambig ∧ s'.interrupted = true)) := by
  unfold fulfillSolve at h
  cases hr : fulfillRound rec alt.reverse [] m s with
  | panic site s1 => rw [hr] at h; cases h
  | ok r s1 =>
    obtain ⟨o, m1⟩ := r
    rw [hr] at h
    obtain ⟨hi1, hs1, hle1, hk1, hres⟩ := fulfillRound_sem hrec L B alt.reverse [] m s o m1 s1 hi hB
      (fun x hx => hd x (List.mem_reverse.mp hx)) hr
    cases hres with
    | inr hres =>
      obtain ⟨ho, x, hx, hfx⟩ := hres
      subst ho
      simp only [Res.ok.injEq, Prod.mk.injEq] at h
      obtain ⟨⟨hv, hm⟩, hs⟩ := h
      subst hv; subst hm; subst hs
      exact ⟨hi1, hs1, hle1, hk1, Or.inr (Or.inl ⟨rfl, x, List.mem_reverse.mp hx, hfx⟩)⟩
    | inl hres =>
      obtain ⟨ret, ho, hsub, hint, hall⟩ := hres
      rw [List.nil_append] at ho
      subst ho
      cases ret with
      | nil =>
        simp only [Res.ok.injEq, Prod.mk.injEq] at h
        obtain ⟨⟨hv, hm⟩, hs⟩ := h
        subst hv; subst hm; subst hs
        refine ⟨hi1, hs1, hle1, hk1, Or.inl ⟨rfl, fun x hx => ?_⟩⟩
        cases hall x (List.mem_reverse.mpr hx) with
        | inl h1 => exact h1
        | inr h1 => cases h1
      | cons r0 rs =>
        simp only at h
        have hsub' : ∀ x, x ∈ (r0 :: rs).reverse → x ∈ alt :=
          fun x hx => List.mem_reverse.mp (hsub x (List.mem_reverse.mp hx))
        obtain ⟨hi2, hs2, hle2, hk2, hres2⟩ := suggestPass_sem (cfg := cfg) hrec L B (r0 :: rs).reverse m1 s1 v m' s'
          hi1 (Nat.le_trans hB hs1.graph_le) (fun x hx => by
            obtain ⟨a, b, c⟩ := hd x (hsub' x hx)
            exact ⟨a, b.step hs1, c⟩) (hint (by simp)) h
        refine ⟨hi2, hs1.trans hs2 hle2 hi1 hi2, hle2.trans hle1, (hk1.step hs2).trans hk2, ?_⟩
        cases hres2 with
        | inl h1 => exact Or.inr (Or.inr h1)
        | inr h1 =>
          obtain ⟨hv, y, hy, hfy⟩ := h1
          exact Or.inr (Or.inl ⟨hv, y, hsub' y hy, hfy.step hs1 hi1 (Step.refl s' m') (MinLe.refl _)⟩)

/-- the running solution of the clause loop on ground goals: nothing yet, or ambiguous -/
def CurOK (s : St) (cur : Option V) : Prop := cur = none ∨ (cur = some .ambig ∧ s.interrupted = true)

theorem solveFromClauses_sem (hrec : SubSpec inst P dom lvl fx rec) (L B : Nat) :
    ∀ (alts : List (List Nat)) (cur : Option V) (m : Min) (s : St) (v : V) (m' : Min) (s' : St),
      Inv inst P dom lvl fx s → CurOK s cur → B ≤ s.graph.length →
      (∀ alt, alt ∈ alts → ∀ x, x ∈ alt → x ∈ dom ∧ Below inst lvl s x ∧ lvl x ≤ L) →
      solveFromClauses cfg rec true alts cur m s = .ok (v, m') s' →
      Inv inst P dom lvl fx s' ∧ Step inst P s s' m' ∧ MinLe m' m ∧ LinkOK lvl s' L B m m' ∧
        ((v = .unique ∧ ∃ alt, alt ∈ alts ∧ ∀ x, x ∈ alt → Fact inst P s s' m' x .unique) ∨
         (v = .noSolution ∧ cur = none ∧
            ∀ alt, alt ∈ alts → ∃ x, x ∈ alt ∧ Fact inst P s s' m' x .noSolution) ∨
         (v = .ambig ∧ s'.interrupted = true))
  | [], cur, m, s, v, m', s', hi, hcur, _, _, h => by
    simp only [solveFromClauses, Res.ok.injEq, Prod.mk.injEq] at h
    obtain ⟨⟨hv, hm⟩, hs⟩ := h
    subst hv; subst hm; subst hs
    refine ⟨hi, Step.refl _ _, MinLe.refl _, Or.inl rfl, ?_⟩
    cases hcur with
    | inl e => subst e; exact Or.inr (Or.inl ⟨rfl, rfl, fun alt ha => by cases ha⟩)
    | inr e => rw [e.1]; exact Or.inr (Or.inr ⟨rfl, e.2⟩)
  | alt :: rest, cur, m, s, v, m', s', hi, hcur, hB, hd, h => by
    rw [solveFromClauses_cons] at h
    cases hr : fulfillSolve cfg rec alt m s with
    | panic site s1 => rw [hr] at h; cases h
    | ok r s1 =>
      obtain ⟨w, m1⟩ := r
      rw [hr] at h
      obtain ⟨hi1, hs1, hle1, hk1, hres⟩ := fulfillSolve_sem hrec L B alt m s w m1 s1 hi hB
        (hd alt (List.mem_cons_self ..)) hr
      have hcur1 : CurOK s1 cur := hcur.imp id (fun e => ⟨e.1, hs1.intr e.2⟩)
      have hrest := fun (cur' : Option V) (hc' : CurOK s1 cur')
          (h' : solveFromClauses cfg rec true rest cur' m1 s1 = .ok (v, m') s') =>
        solveFromClauses_sem hrec L B rest cur' m1 s1 v m' s' hi1 hc' (Nat.le_trans hB hs1.graph_le)
          (fun a ha y hy => by
            obtain ⟨p, q, r⟩ := hd a (List.mem_cons_of_mem _ ha) y hy
            exact ⟨p, q.step hs1, r⟩) h'
      rcases hres with hres | hres | hres
      · obtain ⟨hw, hall⟩ := hres
        subst hw
        have hstep : stepCur true .unique cur = some .unique := by
          cases hcur with
          | inl e => subst e; rfl
          | inr e => rw [e.1]; rfl
        simp only [hstep] at h
        simp only [trivialTrue, Bool.true_and, beq_self_eq_true, if_true, Res.ok.injEq, Prod.mk.injEq] at h
        obtain ⟨⟨hv, hm⟩, hs⟩ := h
        subst hv; subst hm; subst hs
        exact ⟨hi1, hs1, hle1, hk1, Or.inl ⟨rfl, alt, List.mem_cons_self .., hall⟩⟩
      · obtain ⟨hw, x, hx, hfx⟩ := hres
        subst hw
        have hstep : stepCur true .noSolution cur = cur := rfl
        simp only [hstep] at h
        have h' : solveFromClauses cfg rec true rest cur m1 s1 = .ok (v, m') s' := by
          cases hcur with
          | inl e => subst e; exact h
          | inr e =>
            rw [e.1] at h ⊢
            simpa [trivialTrue] using h
        obtain ⟨hi2, hs2, hle2, hk2, hres2⟩ := hrest cur hcur1 h'
        refine ⟨hi2, hs1.trans hs2 hle2 hi1 hi2, hle2.trans hle1, (hk1.step hs2).trans hk2, ?_⟩
        rcases hres2 with h2 | h2 | h2
        · obtain ⟨hv, a, ha, hall⟩ := h2
          exact Or.inl ⟨hv, a, List.mem_cons_of_mem _ ha, fun y hy =>
            (hall y hy).step hs1 hi1 (Step.refl s' m') (MinLe.refl _)⟩
        · obtain ⟨hv, hc0, hall⟩ := h2
          refine Or.inr (Or.inl ⟨hv, hc0, fun a ha => ?_⟩)
          cases List.mem_cons.mp ha with
          | inl e => rw [e]; exact ⟨x, hx, hfx.step (Step.refl s m) hi hs2 hle2⟩
          | inr e =>
            obtain ⟨y, hy, hfy⟩ := hall a e
            exact ⟨y, hy, hfy.step hs1 hi1 (Step.refl s' m') (MinLe.refl _)⟩
        · exact Or.inr (Or.inr h2)
      · obtain ⟨hw, hint1⟩ := hres
        subst hw
        have hstep : stepCur true .ambig cur = some .ambig := by
          cases hcur with
          | inl e => subst e; rfl
          | inr e => rw [e.1]; rfl
        simp only [hstep] at h
        have h' : solveFromClauses cfg rec true rest (some .ambig) m1 s1 = .ok (v, m') s' := by
          simpa [trivialTrue] using h
        obtain ⟨hi2, hs2, hle2, hk2, hres2⟩ := hrest (some .ambig) (Or.inr ⟨rfl, hint1⟩) h'
        refine ⟨hi2, hs1.trans hs2 hle2 hi1 hi2, hle2.trans hle1, (hk1.step hs2).trans hk2, ?_⟩
        rcases hres2 with h2 | h2 | h2
        · obtain ⟨hv, a, ha, hall⟩ := h2
          exact Or.inl ⟨hv, a, List.mem_cons_of_mem _ ha, fun y hy =>
            (hall y hy).step hs1 hi1 (Step.refl s' m') (MinLe.refl _)⟩
        · exact absurd h2.2.1 (by simp)
        · exact Or.inr (Or.inr h2)

/-- the outcome of one iteration in terms of the polarity of the goal -/
def IterFact (inst : Instance) (P : Nat → Prop) (s s' : St) (m' : Min) (g : Nat) (v : V) : Prop :=
  (v = topOf inst g ∧ JV inst v (Wit inst P s' m' v) g) ∨
  (v = botOf inst g ∧ JV inst v (fun x => Holds P v x ∧ (topOf inst x = topOf inst g → ¬ InG inst P s x)) g) ∨
  (v = .ambig ∧ s'.interrupted = true)

theorem iterFact_of (hyp : MHyp inst P dom lvl) {s s' : St} (hi' : Inv inst P dom lvl fx s') {m' : Min} {g : Nat}
    (hg : g ∈ dom) (ht : GTop s' g) {v : V}
    (h : (v = .unique ∧ ∃ alt, alt ∈ inst.deps g ∧ ∀ x, x ∈ alt → Fact inst P s s' m' x .unique) ∨
         (v = .noSolution ∧ ∀ alt, alt ∈ inst.deps g → ∃ x, x ∈ alt ∧ Fact inst P s s' m' x .noSolution) ∨
         (v = .ambig ∧ s'.interrupted = true)) :
    IterFact inst P s s' m' g v := by
  have hopt : v ≠ .ambig → v = topOf inst g → ∀ x, Fact inst P s s' m' x v → Wit inst P s' m' v x := by
    intro hna _ x hf
    rcases hf with h1 | h1 | h1
    · exact h1.2
    · exact Or.inl h1.2.1
    · exact absurd h1.1 hna
  have hpes : v ≠ .ambig → v = botOf inst g → ∀ alt, alt ∈ inst.deps g → ∀ x, x ∈ alt →
      Fact inst P s s' m' x v → Holds P v x ∧ (topOf inst x = topOf inst g → ¬ InG inst P s x) := by
    intro hna hv alt ha x hx hf
    rcases hf with h1 | h1 | h1
    · have hne : topOf inst x ≠ topOf inst g := by
        rw [← h1.1, hv]; exact (topOf_ne_botOf inst g).symm
      have hl := hyp.lvl_le g hg alt ha x hx
      have hlt : lvl x < lvl g := by
        rcases Nat.lt_or_ge (lvl x) (lvl g) with h2 | h2
        · exact h2
        · exact absurd ((topOf_eq_iff inst x g).mpr (hl.2 (Nat.le_antisymm hl.1 h2))) hne
      exact ⟨h1.2.exact hi' ht hlt, fun e => absurd e hne⟩
    · exact ⟨h1.2.1, fun _ => h1.2.2⟩
    · exact absurd h1.1 hna
  rcases h with h | h | h
  · obtain ⟨e, alt, ha, hall⟩ := h
    subst e
    have hv : V.unique = topOf inst g ∨ V.unique = botOf inst g := by
      unfold topOf botOf initialValue; cases inst.coind g <;> simp
    cases hv with
    | inl hv => exact Or.inl ⟨hv, alt, ha, fun x hx => hopt (by decide) hv x (hall x hx)⟩
    | inr hv => exact Or.inr (Or.inl ⟨hv, alt, ha, fun x hx => hpes (by decide) hv alt ha x hx (hall x hx)⟩)
  · obtain ⟨e, hall⟩ := h
    subst e
    have hv : V.noSolution = topOf inst g ∨ V.noSolution = botOf inst g := by
      unfold topOf botOf initialValue; cases inst.coind g <;> simp
    cases hv with
    | inl hv =>
      refine Or.inl ⟨hv, fun alt ha => ?_⟩
      obtain ⟨x, hx, hf⟩ := hall alt ha
      exact ⟨x, hx, hopt (by decide) hv x hf⟩
    | inr hv =>
      refine Or.inr (Or.inl ⟨hv, fun alt ha => ?_⟩)
      obtain ⟨x, hx, hf⟩ := hall alt ha
      exact ⟨x, hx, hpes (by decide) hv alt ha x hx hf⟩
  · exact Or.inr (Or.inr h)

/-- changing the oracle and raising the `interrupted` flag keeps the invariant -/
theorem Inv.oracleChange {s : St} (hi : Inv inst P dom lvl fx s) (o : List Bool) (i : Bool)
    (hint : s.interrupted = true → i = true)
    (hq : QuietSt s → s.interrupted = false → o = [] ∧ i = false) :
    Inv inst P dom lvl fx { s with oracle := o, interrupted := i } :=
  ⟨hi.fixes.imp id (fun h => ⟨⟨(hq h.1 h.2).1, h.1.2⟩, (hq h.1 h.2).2⟩),
   fun k n hn ha => hint (hi.amb k n hn ha), hi.cacheOK, hi.stackNode, hi.chain, hi.nodup, hi.disj, hi.inDom,
   hi.val, hi.approx, hi.stk, hi.nonstk, hi.cnt, hi.just, hi.lvlLinks⟩

theorem Step.oracleChange (s : St) (o : List Bool) (i : Bool) (lb : Min)
    (hint : s.interrupted = true → i = true)
    (hq : QuietSt s → o = [] ∧ (s.interrupted = false → i = false)) :
    Step inst P s { s with oracle := o, interrupted := i } lb :=
  ⟨⟨[], by simp, fun n hn => by cases hn⟩, StackExt.refl _, fun _ _ h => h, fun _ _ h => h,
   fun k hu hd => absurd hd (hu _), rfl, hint, fun q => ⟨⟨(hq q).1, q.2⟩, (hq q).2⟩⟩

theorem solveIteration_sem (hyp : MHyp inst P dom lvl) (h3 : cfg.fixF3 = true)
    (hrec : SubSpec inst P dom lvl fx rec) (g : Nat)
    (hg : g ∈ dom) (m : Min) (s : St) (v : V) (m' : Min) (s' : St) (hi : Inv inst P dom lvl fx s)
    (ht : GTop s g) (h : solveIteration inst cfg rec g m s = .ok (v, m') s') :
    Inv inst P dom lvl fx s' ∧ Step inst P s s' m' ∧ MinLe m' m ∧ LinkOK lvl s' (lvl g) s.graph.length m m' ∧
      IterFact inst P s s' m' g v := by
  unfold solveIteration at h
  obtain ⟨b, o, hb, hq⟩ := shouldContinue_cases s
  rw [hb] at h
  have i1 : Inv inst P dom lvl fx { s with oracle := o } :=
    hi.oracleChange o s.interrupted id (fun q e => ⟨(hq q).2, e⟩)
  have st1 : Step inst P s { s with oracle := o } m :=
    Step.oracleChange s o s.interrupted m id (fun q => ⟨(hq q).2, id⟩)
  have ht1 : GTop { s with oracle := o } g := ht
  cases b with
  | false =>
    simp only [h3, if_true, Res.ok.injEq, Prod.mk.injEq] at h
    obtain ⟨⟨hv, hm⟩, hs⟩ := h
    subst hv; subst hm; subst hs
    refine ⟨hi.oracleChange o true (fun _ => rfl) (fun q _ => by cases (hq q).1), ?_, MinLe.refl _, Or.inl rfl,
      Or.inr (Or.inr ⟨rfl, rfl⟩)⟩
    exact Step.oracleChange s o true _ (fun _ => rfl) (fun q => by cases (hq q).1)
  | true =>
    simp only [hyp.ground g hg] at h
    obtain ⟨hi1, hs1, hle1, hk1, hres⟩ := solveFromClauses_sem hrec (lvl g) s.graph.length (inst.deps g) none m _
      v m' s' i1 (Or.inl rfl) (Nat.le_refl _)
      (fun alt ha x hx => ⟨hyp.closed g hg alt ha x hx, below_of_dep i1 ht1 (hyp.lvl_le g hg alt ha x hx),
        (hyp.lvl_le g hg alt ha x hx).1⟩) h
    refine ⟨hi1, st1.trans hs1 hle1 i1 hi1, hle1, hk1, iterFact_of hyp hi1 hg (ht1.step hs1) ?_⟩
    rcases hres with h1 | h1 | h1
    · obtain ⟨hv, alt, ha, hall⟩ := h1
      exact Or.inl ⟨hv, alt, ha, fun x hx => (hall x hx).step st1 i1 (Step.refl s' m') (MinLe.refl _)⟩
    · refine Or.inr (Or.inl ⟨h1.1, fun alt ha => ?_⟩)
      obtain ⟨x, hx, hf⟩ := h1.2.2 alt ha
      exact ⟨x, hx, hf.step st1 i1 (Step.refl s' m') (MinLe.refl _)⟩
    · exact Or.inr (Or.inr h1)

end

end Chalk.FixedPoint.Mix
