/-
  FixedPointMixB.lean — the evaluation layer against the specification of a sub-goal solver
  (mixed polarities, partial correctness); answers that cross a change of polarity are exact.
-/
import ChalkModel.Lemmas.FixedPointMixA
import ChalkModel.Lemmas.FixedPointSemB

namespace Chalk.FixedPoint.Mix
open Chalk.FixedPoint.Cyc (JE JA MinLe InCache InGraph Def Undef flagAt StackExt stackGoals
  getElem?_lt_length getElem?_prefix shouldContinue_quiet)

/-- the class of instances: `dom` closed under `deps`, all goals ground, `P` the stratified truth,
    `lvl` a stratification (levels do not increase along dependencies and drop where the polarity
    changes: no cycle mixes polarities) -/
structure MHyp (inst : Instance) (P : Nat → Prop) (dom : List Nat) (lvl : Nat → Nat) : Prop where
  closed : ∀ k, k ∈ dom → ∀ alt, alt ∈ inst.deps k → ∀ j, j ∈ alt → j ∈ dom
  ground : ∀ k, k ∈ dom → inst.ground k = true
  strat : Strat inst P
  lvl_le : ∀ k, k ∈ dom → ∀ alt, alt ∈ inst.deps k → ∀ j, j ∈ alt →
    lvl j ≤ lvl k ∧ (lvl j = lvl k → inst.coind j = inst.coind k)

/-- `g` is the goal on top of the stack -/
def GTop (s : St) (g : Nat) : Prop :=
  ∃ (i : Nat) (n : Node) (d : Nat), s.graph[i]? = some n ∧ n.goal = g ∧ n.stackDepth = some d ∧
    d + 1 = s.stack.length

/-- partial-correctness specification of a sub-goal solver -/
def SubSpec (inst : Instance) (P : Nat → Prop) (dom : List Nat) (lvl : Nat → Nat) (rec : SubSolver) : Prop :=
  ∀ g m s v m' s', Inv inst P dom lvl s → g ∈ dom → Below inst lvl s g → rec g m s = .ok (v, m') s' →
    Inv inst P dom lvl s' ∧ Step inst P s s' m' ∧ MinLe m' m ∧ Fact inst P s s' m' g v ∧
    LinkOK lvl s' (lvl g) s.graph.length m m'

section
variable {inst : Instance} {P : Nat → Prop} {dom : List Nat} {lvl : Nat → Nat} {rec : SubSolver} {cfg : Cfg}

theorem GTop.step {s s' : St} {m : Min} {g : Nat} (h : GTop s g) (hs : Step inst P s s' m) : GTop s' g := by
  obtain ⟨i, n, d, hn, hg, hd, hl⟩ := h
  obtain ⟨new, hgr, _⟩ := hs.graph
  exact ⟨i, n, d, by rw [hgr]; exact getElem?_prefix hn, hg, hd, by rw [hs.stack.1]; exact hl⟩

/-- a sub-goal of the goal on top of the stack lies below the whole stack -/
theorem below_of_dep {s : St} (hi : Inv inst P dom lvl s) {g x : Nat} (ht : GTop s g)
    (hx : lvl x ≤ lvl g ∧ (lvl x = lvl g → inst.coind x = inst.coind g)) : Below inst lvl s x := by
  obtain ⟨i, n, d, hn, hg, hd, hl⟩ := ht
  intro i' n' d' hn' hd'
  have hlt := (hi.stk i' n' d' hn' hd').1
  have hc := hi.chain i' n' d' i n d hn' hd' hn hd (by omega)
  rw [hg] at hc
  refine ⟨Nat.le_trans hx.1 hc.1, fun e => ?_⟩
  have e1 : lvl x = lvl g := by omega
  have e2 : lvl g = lvl n'.goal := by omega
  rw [hx.2 e1, hc.2 e2]

/-- every node off the stack depends on a node on the stack that is not above it -/
theorem Inv.reach_stack {s : St} (hi : Inv inst P dom lvl s) : ∀ (b i : Nat) (n : Node), i < b →
    s.graph[i]? = some n → n.stackDepth = none →
    ∃ (i' : Nat) (n' : Node) (d' : Nat), s.graph[i']? = some n' ∧ n'.stackDepth = some d' ∧
      lvl n'.goal ≤ lvl n.goal
  | 0, _, _, h, _, _ => absurd h (Nat.not_lt_zero _)
  | b + 1, i, n, hb, hn, hd => by
    obtain ⟨l, hl, hlt⟩ := hi.nonstk i n hn hd
    obtain ⟨n'', hn'', hle⟩ := hi.lvlLinks i n l hn hd hl
    cases hsd : n''.stackDepth with
    | some d'' => exact ⟨l, n'', d'', hn'', hsd, hle⟩
    | none =>
      obtain ⟨i', n', d', h1, h2, h3⟩ := hi.reach_stack b l n'' (by omega) hn'' hsd
      exact ⟨i', n', d', h1, h2, Nat.le_trans h3 hle⟩

/-- a justified answer of a goal strictly below the top of the stack is exact -/
theorem Wit.exact {s : St} (hi : Inv inst P dom lvl s) {g x : Nat} (ht : GTop s g) (hlt : lvl x < lvl g)
    {lb : Min} {v : V} (h : Wit inst P s lb v x) : Holds P v x := by
  cases h with
  | inl h => exact h
  | inr h =>
    exfalso
    obtain ⟨i, n, hn, hgo, _, _, _, _⟩ := h
    obtain ⟨ig, ng, dg, hng, hgg, hdg, hlg⟩ := ht
    cases hsd : n.stackDepth with
    | some d =>
      have hd := (hi.stk i n d hn hsd).1
      have hc := hi.chain i n d ig ng dg hn hsd hng hdg (by omega)
      rw [hgg, hgo] at hc
      omega
    | none =>
      obtain ⟨i', n', d', h1, h2, h3⟩ := hi.reach_stack (i + 1) i n (Nat.lt_succ_self _) hn hsd
      have hd := (hi.stk i' n' d' h1 h2).1
      have hc := hi.chain i' n' d' ig ng dg h1 h2 hng hdg (by omega)
      rw [hgg] at hc
      rw [hgo] at h3
      omega

theorem fulfillRound_sem (hrec : SubSpec inst P dom lvl rec) (L B : Nat) :
    ∀ (cs acc : List Nat) (m : Min) (s : St) (o : Option (List Nat)) (m' : Min) (s' : St),
      Inv inst P dom lvl s → B ≤ s.graph.length → (∀ x, x ∈ cs → x ∈ dom ∧ Below inst lvl s x ∧ lvl x ≤ L) →
      fulfillRound rec cs acc m s = .ok (o, m') s' →
      Inv inst P dom lvl s' ∧ Step inst P s s' m' ∧ MinLe m' m ∧ LinkOK lvl s' L B m m' ∧
        ((o = some acc ∧ ∀ x, x ∈ cs → Fact inst P s s' m' x .unique) ∨
         (o = none ∧ ∃ x, x ∈ cs ∧ Fact inst P s s' m' x .noSolution))
  | [], acc, m, s, o, m', s', hi, _, _, h => by
    simp only [fulfillRound, Res.ok.injEq, Prod.mk.injEq] at h
    obtain ⟨⟨ho, hm⟩, hs⟩ := h
    subst ho; subst hm; subst hs
    exact ⟨hi, Step.refl _ _, MinLe.refl _, Or.inl rfl, Or.inl ⟨rfl, fun x hx => by cases hx⟩⟩
  | x :: rest, acc, m, s, o, m', s', hi, hB, hd, h => by
    simp only [fulfillRound] at h
    obtain ⟨hxd, hxb, hxl⟩ := hd x (List.mem_cons_self ..)
    cases hr : rec x m s with
    | panic site s1 => rw [hr] at h; cases h
    | ok r s1 =>
      obtain ⟨v, m1⟩ := r
      rw [hr] at h
      obtain ⟨hi1, hs1, hle1, hf1, hk1⟩ := hrec x m s v m1 s1 hi hxd hxb hr
      cases v with
      | ambig => exact hf1.ne_ambig.elim
      | noSolution =>
        simp only [Res.ok.injEq, Prod.mk.injEq] at h
        obtain ⟨⟨ho, hm⟩, hs⟩ := h
        subst ho; subst hm; subst hs
        exact ⟨hi1, hs1, hle1, hk1.mono hxl hB, Or.inr ⟨rfl, x, List.mem_cons_self .., hf1⟩⟩
      | unique =>
        simp only at h
        obtain ⟨hi2, hs2, hle2, hk2, hres⟩ := fulfillRound_sem hrec L B rest acc m1 s1 o m' s' hi1
          (Nat.le_trans hB hs1.graph_le) (fun y hy => by
            obtain ⟨a, b, c⟩ := hd y (List.mem_cons_of_mem _ hy)
            exact ⟨a, b.step hs1, c⟩) h
        refine ⟨hi2, hs1.trans hs2 hle2 hi1 hi2, hle2.trans hle1, ((hk1.mono hxl hB).step hs2).trans hk2, ?_⟩
        cases hres with
        | inl hres =>
          refine Or.inl ⟨hres.1, fun y hy => ?_⟩
          cases List.mem_cons.mp hy with
          | inl e => rw [e]; exact hf1.step (Step.refl s m) hi hs2 hle2
          | inr e => exact (hres.2 y e).step hs1 hi1 (Step.refl s' m') (MinLe.refl _)
        | inr hres =>
          obtain ⟨y, hy, hfy⟩ := hres.2
          exact Or.inr ⟨hres.1, y, List.mem_cons_of_mem _ hy,
            hfy.step hs1 hi1 (Step.refl s' m') (MinLe.refl _)⟩

theorem fulfillSolve_sem (hrec : SubSpec inst P dom lvl rec) (L B : Nat) (alt : List Nat) (m : Min) (s : St)
    (v : V) (m' : Min) (s' : St) (hi : Inv inst P dom lvl s) (hB : B ≤ s.graph.length)
    (hd : ∀ x, x ∈ alt → x ∈ dom ∧ Below inst lvl s x ∧ lvl x ≤ L)
    (h : fulfillSolve cfg rec alt m s = .ok (v, m') s') :
    Inv inst P dom lvl s' ∧ Step inst P s s' m' ∧ MinLe m' m ∧ LinkOK lvl s' L B m m' ∧
      ((v = .unique ∧ ∀ x, x ∈ alt → Fact inst P s s' m' x .unique) ∨
       (v = .noSolution ∧ ∃ x, x ∈ alt ∧ Fact inst P s s' m' x .noSolution)) := by
  unfold fulfillSolve at h
  cases hr : fulfillRound rec alt.reverse [] m s with
  | panic site s1 => rw [hr] at h; cases h
  | ok r s1 =>
    obtain ⟨o, m1⟩ := r
    rw [hr] at h
    obtain ⟨hi1, hs1, hle1, hk1, hres⟩ := fulfillRound_sem hrec L B alt.reverse [] m s o m1 s1 hi hB
      (fun x hx => hd x (List.mem_reverse.mp hx)) hr
    cases hres with
    | inl hres =>
      obtain ⟨ho, hall⟩ := hres
      subst ho
      simp only [Res.ok.injEq, Prod.mk.injEq] at h
      obtain ⟨⟨hv, hm⟩, hs⟩ := h
      subst hv; subst hm; subst hs
      exact ⟨hi1, hs1, hle1, hk1, Or.inl ⟨rfl, fun x hx => hall x (List.mem_reverse.mpr hx)⟩⟩
    | inr hres =>
      obtain ⟨ho, x, hx, hfx⟩ := hres
      subst ho
      simp only [Res.ok.injEq, Prod.mk.injEq] at h
      obtain ⟨⟨hv, hm⟩, hs⟩ := h
      subst hv; subst hm; subst hs
      exact ⟨hi1, hs1, hle1, hk1, Or.inr ⟨rfl, x, List.mem_reverse.mp hx, hfx⟩⟩

theorem solveFromClauses_sem (hrec : SubSpec inst P dom lvl rec) (L B : Nat) :
    ∀ (alts : List (List Nat)) (m : Min) (s : St) (v : V) (m' : Min) (s' : St),
      Inv inst P dom lvl s → B ≤ s.graph.length → (∀ alt, alt ∈ alts → ∀ x, x ∈ alt → x ∈ dom ∧ Below inst lvl s x ∧ lvl x ≤ L) →
      solveFromClauses cfg rec true alts none m s = .ok (v, m') s' →
      Inv inst P dom lvl s' ∧ Step inst P s s' m' ∧ MinLe m' m ∧ LinkOK lvl s' L B m m' ∧
        ((v = .unique ∧ ∃ alt, alt ∈ alts ∧ ∀ x, x ∈ alt → Fact inst P s s' m' x .unique) ∨
         (v = .noSolution ∧ ∀ alt, alt ∈ alts → ∃ x, x ∈ alt ∧ Fact inst P s s' m' x .noSolution))
  | [], m, s, v, m', s', hi, _, _, h => by
    simp only [solveFromClauses, Option.getD_none, Res.ok.injEq, Prod.mk.injEq] at h
    obtain ⟨⟨hv, hm⟩, hs⟩ := h
    subst hv; subst hm; subst hs
    exact ⟨hi, Step.refl _ _, MinLe.refl _, Or.inl rfl, Or.inr ⟨rfl, fun alt ha => by cases ha⟩⟩
  | alt :: rest, m, s, v, m', s', hi, hB, hd, h => by
    rw [solveFromClauses_cons] at h
    cases hr : fulfillSolve cfg rec alt m s with
    | panic site s1 => rw [hr] at h; cases h
    | ok r s1 =>
      obtain ⟨w, m1⟩ := r
      rw [hr] at h
      obtain ⟨hi1, hs1, hle1, hk1, hres⟩ := fulfillSolve_sem hrec L B alt m s w m1 s1 hi hB
        (hd alt (List.mem_cons_self ..)) hr
      cases hres with
      | inl hres =>
        obtain ⟨hw, hall⟩ := hres
        subst hw
        simp only [stepCur, trivialTrue, Bool.true_and, beq_self_eq_true, if_true, Res.ok.injEq,
          Prod.mk.injEq] at h
        obtain ⟨⟨hv, hm⟩, hs⟩ := h
        subst hv; subst hm; subst hs
        exact ⟨hi1, hs1, hle1, hk1, Or.inl ⟨rfl, alt, List.mem_cons_self .., hall⟩⟩
      | inr hres =>
        obtain ⟨hw, x, hx, hfx⟩ := hres
        subst hw
        simp only [stepCur] at h
        obtain ⟨hi2, hs2, hle2, hk2, hres2⟩ := solveFromClauses_sem hrec L B rest m1 s1 v m' s' hi1
          (Nat.le_trans hB hs1.graph_le) (fun a ha y hy => by
            obtain ⟨p, q, r⟩ := hd a (List.mem_cons_of_mem _ ha) y hy
            exact ⟨p, q.step hs1, r⟩) h
        refine ⟨hi2, hs1.trans hs2 hle2 hi1 hi2, hle2.trans hle1, (hk1.step hs2).trans hk2, ?_⟩
        cases hres2 with
        | inl hres2 =>
          obtain ⟨hv, a, ha, hall⟩ := hres2
          exact Or.inl ⟨hv, a, List.mem_cons_of_mem _ ha, fun y hy =>
            (hall y hy).step hs1 hi1 (Step.refl s' m') (MinLe.refl _)⟩
        | inr hres2 =>
          refine Or.inr ⟨hres2.1, fun a ha => ?_⟩
          cases List.mem_cons.mp ha with
          | inl e => rw [e]; exact ⟨x, hx, hfx.step (Step.refl s m) hi hs2 hle2⟩
          | inr e =>
            obtain ⟨y, hy, hfy⟩ := hres2.2 a e
            exact ⟨y, hy, hfy.step hs1 hi1 (Step.refl s' m') (MinLe.refl _)⟩

/-- the outcome of one iteration in terms of the polarity of the goal -/
def IterFact (inst : Instance) (P : Nat → Prop) (s s' : St) (m' : Min) (g : Nat) (v : V) : Prop :=
  (v = topOf inst g ∧ JV inst v (Wit inst P s' m' v) g) ∨
  (v = botOf inst g ∧ JV inst v (fun x => Holds P v x ∧ (topOf inst x = topOf inst g → ¬ InG inst P s x)) g)

theorem iterFact_of (hyp : MHyp inst P dom lvl) {s s' : St} (hi' : Inv inst P dom lvl s') {m' : Min} {g : Nat}
    (hg : g ∈ dom) (ht : GTop s' g) {v : V}
    (h : (v = .unique ∧ ∃ alt, alt ∈ inst.deps g ∧ ∀ x, x ∈ alt → Fact inst P s s' m' x .unique) ∨
         (v = .noSolution ∧ ∀ alt, alt ∈ inst.deps g → ∃ x, x ∈ alt ∧ Fact inst P s s' m' x .noSolution)) :
    IterFact inst P s s' m' g v := by
  -- what a reported answer `v` of a sub-goal means, depending on whether `v` is optimistic for `g`
  have hopt : v = topOf inst g → ∀ x, Fact inst P s s' m' x v → Wit inst P s' m' v x := by
    intro _ x hf
    cases hf with
    | inl h1 => exact h1.2
    | inr h1 => exact Or.inl h1.2.1
  have hpes : v = botOf inst g → ∀ alt, alt ∈ inst.deps g → ∀ x, x ∈ alt → Fact inst P s s' m' x v →
      Holds P v x ∧ (topOf inst x = topOf inst g → ¬ InG inst P s x) := by
    intro hv alt ha x hx hf
    cases hf with
    | inr h1 => exact ⟨h1.2.1, fun _ => h1.2.2⟩
    | inl h1 =>
      have hne : topOf inst x ≠ topOf inst g := by
        rw [← h1.1, hv]; exact (topOf_ne_botOf inst g).symm
      have hl := hyp.lvl_le g hg alt ha x hx
      have hlt : lvl x < lvl g := by
        rcases Nat.lt_or_ge (lvl x) (lvl g) with h2 | h2
        · exact h2
        · exact absurd ((topOf_eq_iff inst x g).mpr (hl.2 (Nat.le_antisymm hl.1 h2))) hne
      exact ⟨h1.2.exact hi' ht hlt, fun e => absurd e hne⟩
  have hv : v = topOf inst g ∨ v = botOf inst g := by
    unfold topOf botOf initialValue
    cases h with
    | inl h => rw [h.1]; cases inst.coind g <;> simp
    | inr h => rw [h.1]; cases inst.coind g <;> simp
  cases h with
  | inl h =>
    obtain ⟨e, alt, ha, hall⟩ := h
    subst e
    cases hv with
    | inl hv => exact Or.inl ⟨hv, alt, ha, fun x hx => hopt hv x (hall x hx)⟩
    | inr hv => exact Or.inr ⟨hv, alt, ha, fun x hx => hpes hv alt ha x hx (hall x hx)⟩
  | inr h =>
    obtain ⟨e, hall⟩ := h
    subst e
    cases hv with
    | inl hv =>
      refine Or.inl ⟨hv, fun alt ha => ?_⟩
      obtain ⟨x, hx, hf⟩ := hall alt ha
      exact ⟨x, hx, hopt hv x hf⟩
    | inr hv =>
      refine Or.inr ⟨hv, fun alt ha => ?_⟩
      obtain ⟨x, hx, hf⟩ := hall alt ha
      exact ⟨x, hx, hpes hv alt ha x hx hf⟩

theorem solveIteration_sem (hyp : MHyp inst P dom lvl) (hrec : SubSpec inst P dom lvl rec) (g : Nat)
    (hg : g ∈ dom) (m : Min) (s : St) (v : V) (m' : Min) (s' : St) (hi : Inv inst P dom lvl s)
    (ht : GTop s g) (h : solveIteration inst cfg rec g m s = .ok (v, m') s') :
    Inv inst P dom lvl s' ∧ Step inst P s s' m' ∧ MinLe m' m ∧ LinkOK lvl s' (lvl g) s.graph.length m m' ∧
      IterFact inst P s s' m' g v := by
  unfold solveIteration at h
  rw [shouldContinue_quiet hi.quiet] at h
  simp only [hyp.ground g hg] at h
  obtain ⟨hi1, hs1, hle1, hk1, hres⟩ := solveFromClauses_sem hrec (lvl g) s.graph.length (inst.deps g) m s v m' s' hi
    (Nat.le_refl _) (fun alt ha x hx => ⟨hyp.closed g hg alt ha x hx, below_of_dep hi ht (hyp.lvl_le g hg alt ha x hx),
      (hyp.lvl_le g hg alt ha x hx).1⟩) h
  exact ⟨hi1, hs1, hle1, hk1, iterFact_of hyp hi1 hg (ht.step hs1) hres⟩

end

end Chalk.FixedPoint.Mix
