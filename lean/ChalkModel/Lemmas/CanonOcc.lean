import ChalkModel.Lemmas.CanonLemmas
import ChalkModel.Lemmas.ShiftPure

/-! First-occurrence numbering: the canonicalizer's `free_vars` is the list of distinct roots of
    the unbound variables it meets, in the order in which it first meets them. -/
namespace Chalk

abbrev OccLog := List (VarKind × Nat)

/-- The canonicalizer's traversal WITHOUT the numbering: same walk (through the values of bound
    variables, with the same shifting and the same panics), but an unbound variable is left in
    place and `(kind of this occurrence, root)` is appended to a log.  The value computed is the
    value with every bound variable replaced by its value (deep resolution). -/
def occStep (t : Table) (inner : Option (SFolder OccLog)) : SFolder OccLog where
  freeVarTy := forbidFreeVarTy
  freeVarLt := forbidFreeVarLt
  freeVarConst := forbidFreeVarConst
  inferTy := fun v k outer log =>
    match t.probeVar v with
    | some g =>
      match inner with
      | none => .error pCyclic
      | some f =>
        match g with
        | .ty ty =>
          bindS (sfoldTy f 0 ty log) fun ty' log' =>
            match ty'.shiftedInFrom outer with
            | .ok r => .ok (r, log')
            | .error e => .error e
        | _ => .error pUnwrapNone
    | none => .ok (.infer v k, log ++ [(.ty k, t.find v)])
  inferLt := fun v outer log =>
    match t.probeVar v with
    | some g =>
      match inner with
      | none => .error pCyclic
      | some f =>
        match g with
        | .lt l =>
          bindS (sfoldLifetime f 0 l log) fun l' log' =>
            match l'.shiftedInFrom outer with
            | .ok r => .ok (r, log')
            | .error e => .error e
        | _ => .error pUnwrapNone
    | none => .ok (.infer v, log ++ [(.lt, t.find v)])
  inferConst := fun ty v outer log =>
    match t.probeVar v with
    | some g =>
      match inner with
      | none => .error pCyclic
      | some f =>
        match g with
        | .ct c =>
          bindS (sfoldConst f 0 c log) fun c' log' =>
            match c'.shiftedInFrom outer with
            | .ok r => .ok (r, log')
            | .error e => .error e
        | _ => .error pUnwrapNone
    | none => .ok (.mk ty (.infer v), log ++ [(.const ty.scalarCode, t.find v)])
  phTy := fun ui idx _ log => .ok (.placeholder ui idx, log)
  phLt := fun ui idx _ log => .ok (.placeholder ui idx, log)
  phConst := fun ty ui idx _ log => .ok (.mk ty (.placeholder ui idx), log)

def occFolder (t : Table) : (fuel : Nat) → SFolder OccLog
  | 0 => occStep t none
  | n + 1 => occStep t (some (occFolder t n))

/-- the resolved value and the occurrences of unbound variables (kind, root) in traversal order -/
def Table.occurrences (t : Table) (fuel : Nat) (v : Args) : Res (Args × OccLog) :=
  sfoldArgs (occFolder t fuel) 0 v []

/-- keep `p` only if its root has not been seen -/
def addIfNew (fv : List (VarKind × Nat)) (p : VarKind × Nat) : List (VarKind × Nat) :=
  match posOf p.2 fv with
  | some _ => fv
  | none => fv ++ [p]

/-- the first occurrence of every root, in order of first occurrence -/
def firstOccurrences (log : OccLog) : List (VarKind × Nat) := log.foldl addIfNew []

theorem posOf_eq_none_iff (r : Nat) : (l : List (VarKind × Nat)) → (posOf r l = none ↔ r ∉ l.map (·.2))
  | [] => by simp [posOf]
  | (k, x) :: l => by
    simp only [posOf]
    by_cases hx : x = r
    · simp [hx]
    · have ih := posOf_eq_none_iff r l
      cases hp : posOf r l with
      | none =>
        have := ih.mp hp
        simp only [List.map_cons, List.mem_cons, not_or]
        simp [hx, hp]
        exact ⟨fun h => hx h.symm, by simpa using this⟩
      | some j =>
        have : ¬ (r ∉ l.map (·.2)) := fun h => by rw [ih.mpr h] at hp; cases hp
        simp only [List.map_cons, List.mem_cons, not_or]
        simp [hx, hp]
        intro _
        simpa using this

theorem addIfNew_nodup (fv : List (VarKind × Nat)) (p : VarKind × Nat) (h : (fv.map (·.2)).Nodup) :
    ((addIfNew fv p).map (·.2)).Nodup := by
  unfold addIfNew
  cases hp : posOf p.2 fv with
  | some j => exact h
  | none =>
    have hn := (posOf_eq_none_iff p.2 fv).mp hp
    simp only [List.map_append, List.map_cons, List.map_nil]
    rw [List.nodup_append]
    refine ⟨h, by simp, ?_⟩
    intro a ha b hb
    simp at hb; subst hb
    intro hab; subst hab
    exact hn ha

theorem foldl_addIfNew_nodup : (log : OccLog) → (fv : List (VarKind × Nat)) → (fv.map (·.2)).Nodup →
    ((log.foldl addIfNew fv).map (·.2)).Nodup
  | [], fv, h => h
  | p :: log, fv, h => foldl_addIfNew_nodup log (addIfNew fv p) (addIfNew_nodup fv p h)

theorem firstOccurrences_nodup (log : OccLog) : ((firstOccurrences log).map (·.2)).Nodup :=
  foldl_addIfNew_nodup log [] (by simp)

/-- every recorded variable is the root of an occurrence, with the kind of an occurrence -/
theorem foldl_addIfNew_sub : (log : OccLog) → (fv : List (VarKind × Nat)) → ∀ p ∈ log.foldl addIfNew fv, p ∈ fv ∨ p ∈ log
  | [], fv, p, h => .inl h
  | q :: log, fv, p, h => by
    rcases foldl_addIfNew_sub log (addIfNew fv q) p h with h | h
    · unfold addIfNew at h
      split at h
      · exact .inl h
      · rcases List.mem_append.mp h with h | h
        · exact .inl h
        · simp at h; subst h; exact .inr (by simp)
    · exact .inr (by simp [h])

/-- ... and every root that occurs is recorded -/
theorem foldl_addIfNew_complete : (log : OccLog) → (fv : List (VarKind × Nat)) →
    (∀ r ∈ fv.map (·.2), r ∈ (log.foldl addIfNew fv).map (·.2)) ∧
    (∀ r ∈ log.map (·.2), r ∈ (log.foldl addIfNew fv).map (·.2))
  | [], fv => ⟨fun r h => h, fun r h => by simp at h⟩
  | q :: log, fv => by
    obtain ⟨ih1, ih2⟩ := foldl_addIfNew_complete log (addIfNew fv q)
    have hq : q.2 ∈ (addIfNew fv q).map (·.2) := by
      unfold addIfNew
      cases hp : posOf q.2 fv with
      | some j =>
        have : ¬ (q.2 ∉ fv.map (·.2)) := fun h => by rw [(posOf_eq_none_iff q.2 fv).mpr h] at hp; cases hp
        simpa using this
      | none => simp
    have hsub : ∀ r ∈ fv.map (·.2), r ∈ (addIfNew fv q).map (·.2) := by
      intro r hr
      unfold addIfNew
      split
      · exact hr
      · simp only [List.map_append, List.mem_append]; exact .inl hr
    refine ⟨fun r hr => ih1 r (hsub r hr), fun r hr => ?_⟩
    simp only [List.map_cons, List.mem_cons] at hr
    rcases hr with rfl | hr
    · exact ih1 _ hq
    · exact ih2 r hr

/-! ### simulation of the canonicalizer by the occurrence logger -/

def OccRel (st : CState) (log : OccLog) : Prop := st.freeVars = firstOccurrences log

theorem canonAdd_occ (t : Table) (st st' : CState) (k : VarKind) (r i : Nat) (log : OccLog)
    (hr : OccRel st log) (h : canonAdd t st k r = .ok (i, st')) : OccRel st' (log ++ [(k, r)]) := by
  unfold OccRel firstOccurrences at *
  rw [List.foldl_append, ← hr]
  unfold canonAdd at h
  cases hu : t.universeOfUnbound r with
  | error e => simp [hu] at h
  | ok u =>
    simp only [hu] at h
    simp only [List.foldl_cons, List.foldl_nil, addIfNew]
    cases hp : posOf r st.freeVars with
    | some j => simp [hp] at h; obtain ⟨_, rfl⟩ := h; rfl
    | none => simp [hp] at h; obtain ⟨_, rfl⟩ := h; rfl

def OccInner : Option (SFolder CState) → Option (SFolder OccLog) → Prop
  | none, none => True
  | some f1, some f2 => SimHandlers False OccRel f1 f2
  | _, _ => False

theorem occ_step (t : Table) (inner1 : Option (SFolder CState)) (inner2 : Option (SFolder OccLog))
    (hin : OccInner inner1 inner2) : SimHandlers False OccRel (canonStep t inner1) (occStep t inner2) := by
  refine
    { freeVarTy := ?_, freeVarLt := ?_, freeVarConst := ?_, inferTy := ?_, inferLt := ?_, inferConst := ?_,
      phTy := ?_, phLt := ?_, phConst := ?_, flagFreeVar := rfl, flagInfer := rfl, flagPh := rfl }
  · intro db idx o s1 s2 _ a s1' h1; simp [canonStep, forbidFreeVarTy] at h1
  · intro db idx o s1 s2 _ a s1' h1; simp [canonStep, forbidFreeVarLt] at h1
  · intro ty1 ty2 db idx o s1 s2 _ _ a s1' h1; simp [canonStep, forbidFreeVarConst] at h1
  · -- inferTy
    intro v k o s1 s2 hr a s1' h1
    simp only [canonStep] at h1
    cases hp : t.probeVar v with
    | none =>
      simp only [hp] at h1
      cases hadd : canonAdd t s1 (.ty k) (t.find v) with
      | error e => simp [hadd] at h1
      | ok p =>
        obtain ⟨i, st'⟩ := p
        simp [hadd] at h1
        obtain ⟨_, rfl⟩ := h1
        exact ⟨.infer v k, s2 ++ [(.ty k, t.find v)], by simp [occStep, hp], fun hf => hf.elim, canonAdd_occ t s1 st' _ _ i s2 hr hadd⟩
    | some g =>
      simp only [hp] at h1
      cases inner1 with
      | none => simp at h1
      | some f1 =>
        cases inner2 with
        | none => simp [OccInner] at hin
        | some f2 =>
          cases g with
          | ty ty =>
            simp only at h1
            obtain ⟨ty', st', hf, hk⟩ := bindS_eq_ok.mp h1
            obtain ⟨b, s2', hrun, _, hr'⟩ := sfoldTy_sim hin 0 ty s1 s2 hr ty' st' hf
            simp only [Ty.shiftedInFrom, foldTy_shifter] at hk
            simp at hk
            obtain ⟨_, rfl⟩ := hk
            exact ⟨b.shift o 0, s2', by simp [occStep, hp, hrun, Ty.shiftedInFrom, foldTy_shifter], fun hf => hf.elim, hr'⟩
          | lt l => simp at h1
          | ct c => simp at h1
  · -- inferLt
    intro v o s1 s2 hr a s1' h1
    simp only [canonStep] at h1
    cases hp : t.probeVar v with
    | none =>
      simp only [hp] at h1
      cases hadd : canonAdd t s1 .lt (t.find v) with
      | error e => simp [hadd] at h1
      | ok p =>
        obtain ⟨i, st'⟩ := p
        simp [hadd] at h1
        obtain ⟨_, rfl⟩ := h1
        exact ⟨.infer v, s2 ++ [(.lt, t.find v)], by simp [occStep, hp], fun hf => hf.elim, canonAdd_occ t s1 st' _ _ i s2 hr hadd⟩
    | some g =>
      simp only [hp] at h1
      cases inner1 with
      | none => simp at h1
      | some f1 =>
        cases inner2 with
        | none => simp [OccInner] at hin
        | some f2 =>
          cases g with
          | lt l =>
            simp only at h1
            obtain ⟨l', st', hf, hk⟩ := bindS_eq_ok.mp h1
            obtain ⟨b, s2', hrun, _, hr'⟩ := sfoldLifetime_sim hin 0 l s1 s2 hr l' st' hf
            simp only [Lifetime.shiftedInFrom, foldLifetime_shifter] at hk
            simp at hk
            obtain ⟨_, rfl⟩ := hk
            exact ⟨b.shift o 0, s2', by simp [occStep, hp, hrun, Lifetime.shiftedInFrom, foldLifetime_shifter], fun hf => hf.elim, hr'⟩
          | ty ty => simp at h1
          | ct c => simp at h1
  · -- inferConst
    intro ty1 ty2 v o s1 s2 hty hr a s1' h1
    have hty : ty2 = ty1 := hty (.inr rfl)
    subst hty
    simp only [canonStep] at h1
    cases hp : t.probeVar v with
    | none =>
      simp only [hp] at h1
      cases hadd : canonAdd t s1 (.const ty2.scalarCode) (t.find v) with
      | error e => simp [hadd] at h1
      | ok p =>
        obtain ⟨i, st'⟩ := p
        simp [hadd] at h1
        obtain ⟨_, rfl⟩ := h1
        exact ⟨.mk ty2 (.infer v), s2 ++ [(.const ty2.scalarCode, t.find v)], by simp [occStep, hp], fun hf => hf.elim, canonAdd_occ t s1 st' _ _ i s2 hr hadd⟩
    | some g =>
      simp only [hp] at h1
      cases inner1 with
      | none => simp at h1
      | some f1 =>
        cases inner2 with
        | none => simp [OccInner] at hin
        | some f2 =>
          cases g with
          | ct c =>
            simp only at h1
            obtain ⟨c', st', hf, hk⟩ := bindS_eq_ok.mp h1
            obtain ⟨b, s2', hrun, _, hr'⟩ := sfoldConst_sim hin 0 c s1 s2 hr c' st' hf
            simp only [Const.shiftedInFrom, foldConst_shifter] at hk
            simp at hk
            obtain ⟨_, rfl⟩ := hk
            exact ⟨b.shift o 0, s2', by simp [occStep, hp, hrun, Const.shiftedInFrom, foldConst_shifter], fun hf => hf.elim, hr'⟩
          | ty ty => simp at h1
          | lt l => simp at h1
  · intro ui idx o s1 s2 hr a s1' h1
    simp only [canonStep] at h1; cases h1
    exact ⟨.placeholder ui idx, s2, by simp [occStep], fun hf => hf.elim, hr⟩
  · intro ui idx o s1 s2 hr a s1' h1
    simp only [canonStep] at h1; cases h1
    exact ⟨.placeholder ui idx, s2, by simp [occStep], fun hf => hf.elim, hr⟩
  · intro ty1 ty2 ui idx o s1 s2 _ hr a s1' h1
    simp only [canonStep] at h1; cases h1
    exact ⟨.mk ty2 (.placeholder ui idx), s2, by simp [occStep], fun hf => hf.elim, hr⟩

theorem occ_handlers (t : Table) : (fuel : Nat) → SimHandlers False OccRel (canonFolder t fuel) (occFolder t fuel)
  | 0 => occ_step t none none trivial
  | n + 1 => occ_step t (some (canonFolder t n)) (some (occFolder t n)) (occ_handlers t n)

theorem intoBinders_spec (t : Table) : (l bs : List (VarKind × Nat)) → intoBinders t l = .ok bs →
    ∀ (i : Nat) (k : VarKind) (r : Nat), l[i]? = some (k, r) → ∃ u, t.universeOfUnbound r = .ok u ∧ bs[i]? = some (k, u)
  | [], bs, h, i, k, r, hi => by simp at hi
  | (k0, r0) :: l, bs, h, i, k, r, hi => by
    simp only [intoBinders] at h
    cases hu : t.universeOfUnbound r0 with
    | error e => simp [hu] at h
    | ok u0 =>
      simp only [hu] at h
      cases hr : intoBinders t l with
      | error e => simp [hr] at h
      | ok bs' =>
        simp [hr] at h; subst h
        cases i with
        | zero => simp at hi; obtain ⟨rfl, rfl⟩ := hi; exact ⟨u0, hu, by simp⟩
        | succ j =>
          simp at hi
          obtain ⟨u, h1, h2⟩ := intoBinders_spec t l bs' hr j k r hi
          exact ⟨u, h1, by simp [h2]⟩

theorem firstOccurrences_eq_nil (log : OccLog) : firstOccurrences log = [] ↔ log = [] := by
  constructor
  · intro h
    cases log with
    | nil => rfl
    | cons p l =>
      have := (foldl_addIfNew_complete (p :: l) []).2 p.2 (by simp)
      unfold firstOccurrences at h
      rw [h] at this
      simp at this
  · intro h; subst h; rfl

end Chalk
