/-
  FixedPointSemA.lean — basic lemmas about the valuation of a state, the relative fixed point
  `InG`, the frame `Step`, witnesses.
-/
import ChalkModel.Lemmas.FixedPointSem

namespace Chalk.FixedPoint.Cyc

theorem nodup_index {α β : Type} (f : α → β) : ∀ (l : List α) (i j : Nat) (a b : α),
    (l.map f).Nodup → l[i]? = some a → l[j]? = some b → f a = f b → i = j
  | [], i, j, a, b, _, h, _, _ => by simp at h
  | x :: l, i, j, a, b, hn, hi, hj, hf => by
    rw [List.map_cons, List.nodup_cons] at hn
    cases i with
    | zero =>
      cases j with
      | zero => rfl
      | succ j =>
        simp only [List.getElem?_cons_zero, Option.some.injEq] at hi
        simp only [List.getElem?_cons_succ] at hj
        exfalso
        apply hn.1
        rw [hi, hf]
        exact List.mem_map.mpr ⟨b, List.mem_of_getElem? hj, rfl⟩
    | succ i =>
      cases j with
      | zero =>
        simp only [List.getElem?_cons_zero, Option.some.injEq] at hj
        simp only [List.getElem?_cons_succ] at hi
        exfalso
        apply hn.1
        rw [hj, ← hf]
        exact List.mem_map.mpr ⟨a, List.mem_of_getElem? hi, rfl⟩
      | succ j =>
        simp only [List.getElem?_cons_succ] at hi hj
        rw [nodup_index f l i j a b hn.2 hi hj hf]

section
variable {c : Bool} {inst : Instance} {dom : List Nat} {fx : Bool}

theorem Inv.index_inj {s : St} (hi : Inv c inst dom fx s) {i j : Nat} {a b : Node}
    (h1 : s.graph[i]? = some a) (h2 : s.graph[j]? = some b) (h : a.goal = b.goal) : i = j :=
  nodup_index (·.goal) s.graph i j a b hi.nodup h1 h2 h

theorem Inv.defFun {s : St} (hi : Inv c inst dom fx s) {k : Nat} {v v' : V}
    (h1 : Def s k v) (h2 : Def s k v') : v = v' := by
  cases h1 with
  | inl h1 =>
    cases h2 with
    | inl h2 =>
      obtain ⟨cc, e1, g1⟩ := h1
      obtain ⟨cc', e2, g2⟩ := h2
      rw [e1] at e2
      cases e2
      rw [g1] at g2
      exact Option.some.inj g2
    | inr h2 =>
      obtain ⟨i, n, hn, hg, _⟩ := h2
      exact absurd (hg ▸ h1) (hi.disj i n hn v)
  | inr h1 =>
    cases h2 with
    | inl h2 =>
      obtain ⟨i, n, hn, hg, _⟩ := h1
      exact absurd (hg ▸ h2) (hi.disj i n hn v')
    | inr h2 =>
      obtain ⟨i, n, hn, hg, hv⟩ := h1
      obtain ⟨j, n', hn', hg', hv'⟩ := h2
      have : i = j := hi.index_inj hn hn' (hg.trans hg'.symm)
      subst this
      rw [hn] at hn'
      cases hn'
      exact hv.symm.trans hv'

theorem Inv.defVal {s : St} (hi : Inv c inst dom fx s) {k : Nat} {v : V} (h : Def s k v) :
    v = top c ∨ v = bot c ∨ v = .ambig := by
  cases h with
  | inl h =>
    cases hi.cacheOK k v h with
    | inl h => exact Or.inl h.1
    | inr h => exact Or.inr (Or.inl h.1)
  | inr h =>
    obtain ⟨i, n, hn, _, hv⟩ := h
    rw [← hv]
    exact hi.val i n hn

theorem Inv.defBot {s : St} (hi : Inv c inst dom fx s) {k : Nat} (h : Def s k (bot c)) : ¬ Tgt c inst k := by
  cases h with
  | inl h =>
    cases hi.cacheOK k _ h with
    | inl h => exact absurd h.1.symm (top_ne_bot c)
    | inr h => exact h.2
  | inr h =>
    obtain ⟨i, n, hn, hg, hv⟩ := h
    rw [← hg]
    exact hi.approx i n hn hv

theorem Inv.defTop {s : St} (hi : Inv c inst dom fx s) {k : Nat} {v : V} (h : Def s k v) (ht : Tgt c inst k) :
    v = top c ∨ v = .ambig := by
  rcases hi.defVal h with e | e | e
  · exact Or.inl e
  · rw [e] at h; exact absurd ht (hi.defBot h)
  · exact Or.inr e

/-- the state holds `x` optimistically: at the optimistic value, or as `ambig` -/
def DefOpt (c : Bool) (s : St) (x : Nat) : Prop := Def s x (top c) ∨ Def s x .ambig

theorem Inv.defOpt_of_ne_bot {s : St} (hi : Inv c inst dom fx s) {k : Nat} {v : V} (h : Def s k v)
    (hne : v ≠ bot c) : DefOpt c s k := by
  rcases hi.defVal h with e | e | e
  · rw [e] at h; exact Or.inl h
  · exact absurd e hne
  · rw [e] at h; exact Or.inr h

theorem InG.unfold {s : St} {x : Nat} (h : InG c inst s x) :
    DefOpt c s x ∨ (Undef s x ∧ J c inst (InG c inst s) x) := by
  obtain ⟨S, hS, hx⟩ := h
  cases hS x hx with
  | inl h => exact Or.inl h
  | inr h => exact Or.inr ⟨h.1, J.mono (fun j hj => ⟨S, hS, hj⟩) h.2⟩

theorem InG.coind {s : St} (S : Nat → Prop)
    (hS : ∀ x, S x → DefOpt c s x ∨ (Undef s x ∧ J c inst (fun j => S j ∨ InG c inst s j) x)) :
    ∀ k, S k → InG c inst s k := by
  intro k hk
  refine ⟨fun j => S j ∨ InG c inst s j, ?_, Or.inl hk⟩
  intro x hx
  cases hx with
  | inl h => exact hS x h
  | inr h =>
    cases h.unfold with
    | inl h => exact Or.inl h
    | inr h => exact Or.inr ⟨h.1, J.mono (fun j hj => Or.inr hj) h.2⟩

theorem def_or_undef (s : St) (k : Nat) : (∃ v, Def s k v) ∨ Undef s k := by
  by_cases h : ∃ v, Def s k v
  · exact Or.inl h
  · exact Or.inr (fun v hv => h ⟨v, hv⟩)

/-- the true target lies inside every relative fixed point (the valuation is optimistic) -/
theorem Inv.tgt_sub_InG {s : St} (hi : Inv c inst dom fx s) {k : Nat} (h : Tgt c inst k) : InG c inst s k := by
  refine InG.coind (Tgt c inst) ?_ k h
  intro x hx
  cases def_or_undef s x with
  | inl hd =>
    obtain ⟨v, hv⟩ := hd
    left
    cases hi.defTop hv hx with
    | inl e => rw [e] at hv; exact Or.inl hv
    | inr e => rw [e] at hv; exact Or.inr hv
  | inr hu => exact Or.inr ⟨hu, J.mono (fun j hj => Or.inl hj) hx.unfold⟩

/-- extending the valuation consistently keeps the relative fixed point -/
theorem InG.mono {s s' : St} (hi' : Inv c inst dom fx s') (hext : ∀ k v, Def s k v → Def s' k v)
    (hlow : ∀ k, Undef s k → Def s' k (bot c) → ¬ InG c inst s k) {k : Nat} (h : InG c inst s k) :
    InG c inst s' k := by
  refine InG.coind (InG c inst s) ?_ k h
  intro x hx
  cases hx.unfold with
  | inl hd => exact Or.inl (hd.imp (hext x _) (hext x _))
  | inr hu =>
    cases def_or_undef s' x with
    | inl hd =>
      obtain ⟨v, hv⟩ := hd
      by_cases e : v = bot c
      · rw [e] at hv; exact absurd hx (hlow x hu.1 hv)
      · exact Or.inl (hi'.defOpt_of_ne_bot hv e)
    | inr hu' => exact Or.inr ⟨hu', J.mono (fun j hj => Or.inl hj) hu.2⟩

/-! ### stack extension -/

theorem StackExt.refl (st : List StackEntry) : StackExt st st :=
  ⟨rfl, fun _ e h => ⟨e, h, rfl, id⟩⟩

theorem StackExt.trans {a b d : List StackEntry} (h1 : StackExt a b) (h2 : StackExt b d) : StackExt a d := by
  refine ⟨h2.1.trans h1.1, fun i e he => ?_⟩
  obtain ⟨e', he', hc', hf'⟩ := h1.2 i e he
  obtain ⟨e'', he'', hc'', hf''⟩ := h2.2 i e' he'
  exact ⟨e'', he'', hc''.trans hc', fun h => hf'' (hf' h)⟩

theorem StackExt.flag {a b : List StackEntry} (h : StackExt a b) {d : Nat} (hf : flagAt a d) : flagAt b d := by
  obtain ⟨e, he, hc⟩ := hf
  obtain ⟨e', he', _, hf'⟩ := h.2 d e he
  exact ⟨e', he', hf' hc⟩

/-! ### frame -/

theorem Step.refl (s : St) (lb : Min) : Step c inst s s lb :=
  ⟨⟨[], by simp, fun n hn => by cases hn⟩, StackExt.refl _, fun _ _ h => h, fun _ _ h => h,
   fun k hu hd => absurd hd (hu _), rfl, id, fun q => ⟨q, id⟩⟩

theorem Step.weaken {s s' : St} {lb lb' : Min} (h : Step c inst s s' lb) (hle : MinLe lb' lb) :
    Step c inst s s' lb' := by
  obtain ⟨new, hg, hn⟩ := h.graph
  exact ⟨⟨new, hg, fun n hm => ⟨(hn n hm).1, hle.trans (hn n hm).2⟩⟩, h.stack, h.cacheExt, h.ext, h.low,
    h.cacheMode, h.intr, h.quiet⟩

theorem Step.inG {s s' : St} {lb : Min} (h : Step c inst s s' lb) (hi' : Inv c inst dom fx s') {k : Nat}
    (hk : InG c inst s k) : InG c inst s' k :=
  InG.mono hi' h.ext h.low hk

theorem Step.trans {s s' s'' : St} {m1 m2 : Min} (h1 : Step c inst s s' m1) (h2 : Step c inst s' s'' m2)
    (hle : MinLe m2 m1) (hi' : Inv c inst dom fx s') (hi'' : Inv c inst dom fx s'') : Step c inst s s'' m2 := by
  obtain ⟨new1, hg1, hn1⟩ := h1.graph
  obtain ⟨new2, hg2, hn2⟩ := h2.graph
  refine ⟨⟨new1 ++ new2, by rw [hg2, hg1, List.append_assoc], ?_⟩, h1.stack.trans h2.stack,
    fun k v h => h2.cacheExt k v (h1.cacheExt k v h), fun k v h => h2.ext k v (h1.ext k v h), ?_,
    h2.cacheMode.trans h1.cacheMode, fun e => h2.intr (h1.intr e), fun q => by
      obtain ⟨q1, i1⟩ := h1.quiet q
      obtain ⟨q2, i2⟩ := h2.quiet q1
      exact ⟨q2, fun e => i2 (i1 e)⟩⟩
  · intro n hn
    cases List.mem_append.mp hn with
    | inl h => exact ⟨(hn1 n h).1, hle.trans (hn1 n h).2⟩
    | inr h => exact hn2 n h
  · intro k hu hd hin
    cases def_or_undef s' k with
    | inl hd' =>
      obtain ⟨v, hv⟩ := hd'
      have : v = bot c := hi''.defFun (h2.ext k v hv) hd
      rw [this] at hv
      exact h1.low k hu hv hin
    | inr hu' => exact h2.low k hu' hd (h1.inG hi' hin)

theorem Wit.step {s s' : St} {lb lb' m : Min} {j : Nat} (h : Wit c inst s lb j) (hs : Step c inst s s' m)
    (hle : MinLe lb' lb) : Wit c inst s' lb' j := by
  cases h with
  | inl h => exact Or.inl h
  | inr h =>
    obtain ⟨i, n, hn, hg, hv, hl, hf⟩ := h
    obtain ⟨new, hgr, _⟩ := hs.graph
    refine Or.inr ⟨i, n, ?_, hg, hv, hle.trans hl, fun d hd => hs.stack.flag (hf d hd)⟩
    rw [hgr]
    have hlt : i < s.graph.length := by
      rcases Nat.lt_or_ge i s.graph.length with h | h
      · exact h
      · rw [List.getElem?_eq_none h] at hn; cases hn
    rw [List.getElem?_append_left hlt]
    exact hn

theorem Fact.step {s0 s1 s' s'' : St} {m0 m' m'' : Min} {g : Nat} {v : V}
    (h : Fact c inst s1 s' m' g v) (h0 : Step c inst s0 s1 m0) (hi1 : Inv c inst dom fx s1)
    (hs : Step c inst s' s'' m'') (hle : MinLe m'' m') : Fact c inst s0 s'' m'' g v := by
  cases h with
  | inl h => exact Or.inl ⟨h.1, h.2.step hs hle⟩
  | inr h =>
    cases h with
    | inl h => exact Or.inr (Or.inl ⟨h.1, h.2.1, fun hin => h.2.2 (h0.inG hi1 hin)⟩)
    | inr h => exact Or.inr (Or.inr ⟨h.1, hs.intr h.2⟩)

/-- an ambiguous answer means that solving was interrupted -/
theorem Fact.ambig {s0 s' : St} {m' : Min} {g : Nat} (h : Fact c inst s0 s' m' g .ambig) :
    s'.interrupted = true := by
  rcases h with h | h | h
  · exact absurd h.1.symm (top_ne_ambig c)
  · exact absurd h.1.symm (bot_ne_ambig c)
  · exact h.2

end

end Chalk.FixedPoint.Cyc
