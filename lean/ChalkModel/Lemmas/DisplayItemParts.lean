/-
  C22, layer "items", part 1: binder declarations, fields, variants, attributes, bounds lists.
-/
import ChalkModel.Lemmas.DisplayStates

set_option linter.unusedSimpArgs false
set_option linter.unusedVariables false

namespace Chalk.Display.Parse
open Chalk.Display

/-! ### `<binders>` -/

theorem parseAngleBinders_print (s : St) (ks : List VK) (i fuel : Nat) (rest : List Tok)
    (hf : FreshFrom s i) (hfuel : ks.length ≤ fuel) (hr : ∀ r, rest ≠ .kw "<" :: r) :
    parseAngleBinders fuel (angle (s.binderNamesFrom i ks) ++ rest) = some (ks, rest) := by
  cases ks with
  | nil =>
      simp only [St.binderNamesFrom, angle, List.isEmpty_nil, if_true, List.nil_append]
      unfold parseAngleBinders
      split
      · exact absurd rfl (hr _)
      · rfl
  | cons k ks =>
      have h := parseBinders_print s (k :: ks) i fuel (.kw ">" :: rest) (by simp) hf hfuel (by simp)
      rw [binderNamesFrom_cons] at h ⊢
      simp only [angle, List.isEmpty_cons, Bool.false_eq_true, if_false, List.cons_append,
        List.append_assoc, List.nil_append]
      simp [parseAngleBinders, h]

theorem binderNamesFrom_append (s : St) : ∀ (ks1 ks2 : List VK) (i : Nat),
    s.binderNamesFrom i (ks1 ++ ks2) = s.binderNamesFrom i ks1 ++ s.binderNamesFrom (i + ks1.length) ks2
  | [], ks2, i => by simp [St.binderNamesFrom]
  | k :: ks1, ks2, i => by
      rw [List.cons_append, binderNamesFrom_cons, binderNamesFrom_cons, binderNamesFrom_append s ks1 ks2 (i + 1)]
      simp only [List.cons_append, List.length_cons]
      rw [show i + 1 + ks1.length = i + (ks1.length + 1) by omega]

theorem binderNames_drop (s : St) (ks1 ks2 : List VK) :
    (s.binderNames (ks1 ++ ks2)).drop ks1.length = s.binderNamesFrom ks1.length ks2 := by
  have := List.drop_left (l₁ := s.binderNamesFrom 0 ks1) (l₂ := s.binderNamesFrom (0 + ks1.length) ks2)
  rw [binderNamesFrom_length] at this
  rw [St.binderNames, binderNamesFrom_append, this, Nat.zero_add]

theorem angle_binders_length (s : St) (ks : List VK) (i : Nat) : ks.length ≤ (angle (s.binderNamesFrom i ks)).length := by
  cases ks with
  | nil => simp
  | cons k ks =>
      have := sepBy_binders_length s (k :: ks) i
      rw [binderNamesFrom_cons] at this ⊢
      simp only [angle, List.isEmpty_cons, Bool.false_eq_true, if_false, List.length_cons, List.length_append] at *
      omega

/-! ### fields and variants -/

theorem parseFields_nil {f : Nat} {p : PSt} {rest : List Tok}
    (h : ∀ j r, rest ≠ .idx "field" j :: .kw ":" :: r) : parseFields (f + 1) p rest = some ([], rest) := by
  simp [parseFields, h]

theorem parseFields_one {f : Nat} {p : PSt} {i : Nat} {toks rest : List Tok} {t : Ty}
    (ht : parseTy f p toks = some (t, rest)) (h : ∀ r, rest ≠ .kw "," :: r) :
    parseFields (f + 1) p (.idx "field" i :: .kw ":" :: toks) = some ([t], rest) := by
  simp [parseFields, ht, h]

theorem parseFields_more {f : Nat} {p : PSt} {i : Nat} {toks rest rest' : List Tok} {t : Ty} {ts : List Ty}
    (ht : parseTy f p toks = some (t, .kw "," :: rest)) (hts : parseFields f p rest = some (ts, rest')) :
    parseFields (f + 1) p (.idx "field" i :: .kw ":" :: toks) = some (t :: ts, rest') := by
  simp [parseFields, ht, hts]

theorem printFieldsFrom_cons (s : St) (i : Nat) (t : Ty) (ts : List Ty) :
    printFieldsFrom s i (t :: ts) = (.idx "field" i :: .kw ":" :: printTy s t) :: printFieldsFrom s (i + 1) ts := rfl

theorem parseFields_print {p : PSt} (hp : Faithful p) : ∀ (fs : List Ty) (i fuel : Nat) (rest : List Tok),
    fs.all (wfTy p.env) = true → 8 * (sepBy comma (printFieldsFrom p.st i fs)).length + 1 ≤ fuel →
    (∀ j r, rest ≠ .idx "field" j :: .kw ":" :: r) → (∀ r, rest ≠ .kw "<" :: r) → (∀ r, rest ≠ .kw "," :: r) →
    parseFields fuel p (sepBy comma (printFieldsFrom p.st i fs) ++ rest) = some (fs, rest)
  | [], i, fuel, rest, _, hsz, h0, _, _ => by
      obtain ⟨f, rfl⟩ : ∃ f, fuel = f + 1 := ⟨fuel - 1, by omega⟩
      simp only [printFieldsFrom, sepBy, List.nil_append]
      exact parseFields_nil h0
  | [t], i, fuel, rest, hwf, hsz, h0, h1, h2 => by
      simp only [List.all_cons, List.all_nil, Bool.and_true] at hwf
      have := szTy_le t p.st
      simp only [printFieldsFrom, sepBy, List.length_cons] at hsz
      obtain ⟨f, rfl⟩ : ∃ f, fuel = f + 1 := ⟨fuel - 1, by omega⟩
      have ht := parseTy_print hp hwf (fuel := f) (by omega) h1
      simp only [printFieldsFrom, sepBy, List.cons_append]
      exact parseFields_one ht h2
  | t :: t' :: ts, i, fuel, rest, hwf, hsz, h0, h1, h2 => by
      rw [List.all_cons, Bool.and_eq_true] at hwf
      have := szTy_le t p.st
      rw [printFieldsFrom_cons, printFieldsFrom_cons, sepBy_cons_cons, ← printFieldsFrom_cons] at hsz ⊢
      simp only [List.length_append, List.length_cons, comma, List.length_nil] at hsz
      obtain ⟨f, rfl⟩ : ∃ f, fuel = f + 1 := ⟨fuel - 1, by omega⟩
      have ih := parseFields_print hp (t' :: ts) (i + 1) f rest hwf.2 (by simp only [comma]; omega) h0 h1 h2
      have ht := parseTy_print hp hwf.1 (fuel := f) (by omega)
        (rest := .kw "," :: (sepBy comma (printFieldsFrom p.st (i + 1) (t' :: ts)) ++ rest)) (by simp)
      simp only [List.append_assoc, comma, List.cons_append, List.nil_append] at ht ih ⊢
      exact parseFields_more ht ih

theorem parseVariants_nil {f : Nat} {p : PSt} {rest : List Tok}
    (h : ∀ j r, rest ≠ .idx "variant" j :: .kw "{" :: r) : parseVariants (f + 1) p rest = some ([], rest) := by
  simp [parseVariants, h]

theorem parseVariants_cons {f : Nat} {p : PSt} {i : Nat} {toks rest rest' : List Tok} {fs : List Ty} {vs : List (List Ty)}
    (hf : parseFields f p toks = some (fs, .kw "}" :: .kw "," :: rest))
    (hvs : parseVariants f p rest = some (vs, rest')) :
    parseVariants (f + 1) p (.idx "variant" i :: .kw "{" :: toks) = some (fs :: vs, rest') := by
  simp [parseVariants, hf, hvs]

theorem parseVariants_print {p : PSt} (hp : Faithful p) : ∀ (vs : List (List Ty)) (i fuel : Nat) (rest : List Tok),
    vs.all (fun v => v.all (wfTy p.env)) = true → 8 * (printVariantsFrom p.st i vs).length + 1 ≤ fuel →
    (∀ j r, rest ≠ .idx "variant" j :: .kw "{" :: r) →
    parseVariants fuel p (printVariantsFrom p.st i vs ++ rest) = some (vs, rest)
  | [], i, fuel, rest, _, hsz, h0 => by
      obtain ⟨f, rfl⟩ : ∃ f, fuel = f + 1 := ⟨fuel - 1, by omega⟩
      simp only [printVariantsFrom, List.nil_append]
      exact parseVariants_nil h0
  | v :: vs, i, fuel, rest, hwf, hsz, h0 => by
      rw [List.all_cons, Bool.and_eq_true] at hwf
      simp only [printVariantsFrom, printFields, List.length_append, List.length_cons] at hsz
      obtain ⟨f, rfl⟩ : ∃ f, fuel = f + 1 := ⟨fuel - 1, by omega⟩
      have ih := parseVariants_print hp vs (i + 1) f rest hwf.2 (by omega) h0
      have hf := parseFields_print hp v 0 f (.kw "}" :: .kw "," :: (printVariantsFrom p.st (i + 1) vs ++ rest))
        hwf.1 (by omega) (by simp) (by simp) (by simp)
      simp only [printVariantsFrom, printFields, List.append_assoc, List.cons_append]
      exact parseVariants_cons hf ih

/-! ### attributes -/

def renderAttr : String × Option String → List Tok
  | (w, none) => attr w
  | (w, some a) => attr1 w a

theorem parseAttrs_print : ∀ (as : List (String × Option String)) (fuel : Nat) (rest : List Tok),
    as.length + 1 ≤ fuel → (∀ r, rest ≠ .kw "#" :: r) →
    parseAttrs fuel ((as.map renderAttr).flatten ++ rest) = some (as, rest)
  | [], fuel, rest, hf, h => by
      obtain ⟨f, rfl⟩ : ∃ f, fuel = f + 1 := ⟨fuel - 1, by omega⟩
      simp only [List.map_nil, List.flatten_nil, List.nil_append]
      unfold parseAttrs
      split
      · exact absurd rfl (h _)
      · exact absurd rfl (h _)
      · rfl
  | (w, none) :: as, fuel, rest, hf, h => by
      simp only [List.length_cons] at hf
      obtain ⟨f, rfl⟩ : ∃ f, fuel = f + 1 := ⟨fuel - 1, by omega⟩
      have ih := parseAttrs_print as f rest (by omega) h
      simp only [List.map_cons, List.flatten_cons, renderAttr, attr, List.cons_append, List.nil_append, List.append_assoc]
      simp [parseAttrs, ih]
  | (w, some a) :: as, fuel, rest, hf, h => by
      simp only [List.length_cons] at hf
      obtain ⟨f, rfl⟩ : ∃ f, fuel = f + 1 := ⟨fuel - 1, by omega⟩
      have ih := parseAttrs_print as f rest (by omega) h
      simp only [List.map_cons, List.flatten_cons, renderAttr, attr1, List.cons_append, List.nil_append, List.append_assoc]
      simp [parseAttrs, ih]

/-! ### bounds of an associated type -/

theorem printBounds_ofList (s : St) : ∀ (bs : List Bound),
    sepBy [.kw "+"] (bs.map (printBound s)) = printBounds s (Bounds.ofList bs)
  | [] => by simp [sepBy, Bounds.ofList, printBounds]
  | [b] => by simp [sepBy, Bounds.ofList, printBounds, printBoundsTail]
  | b :: b' :: bs => by
      have ih := printBounds_ofList s (b' :: bs)
      rw [List.map_cons, List.map_cons, sepBy_cons_cons, ← List.map_cons, ih]
      simp only [Bounds.ofList, printBounds, printBoundsTail, List.append_assoc, List.cons_append, List.nil_append]

theorem toList_ofList : ∀ (bs : List Bound), (Bounds.ofList bs).toList = bs
  | [] => rfl
  | b :: bs => by simp [Bounds.ofList, Bounds.toList, toList_ofList bs]

theorem wfBounds_ofList (env : List (List VK)) : ∀ (bs : List Bound),
    wfBounds env (Bounds.ofList bs) = bs.all (wfBound env)
  | [] => rfl
  | b :: bs => by simp [Bounds.ofList, wfBounds, wfBounds_ofList env bs]

theorem printWhere_head (s : St) (ws : List QWC) :
    printWhere s ws = [] ∨ ∃ tl, printWhere s ws = .kw "where" :: tl := by
  cases ws with
  | nil => exact Or.inl rfl
  | cons q qs => exact Or.inr ⟨sepBy comma ((q :: qs).map (printQWC s)), by simp [printWhere]⟩

/-- what follows a where-list starts with neither of `where`, `<`, `,` -/
theorem printWhere_follow (s : St) (ws : List QWC) (w k : String) (rest : List Tok)
    (hk : k ≠ w) (hw : w ≠ "where") : ∀ r, printWhere s ws ++ .kw k :: rest ≠ .kw w :: r := by
  intro r h
  rcases printWhere_head s ws with e | ⟨tl, e⟩
  · rw [e] at h; simp at h; exact hk h.1
  · rw [e] at h; simp at h; exact hw h.1.symm

end Chalk.Display.Parse
