import ChalkModel.Flags

namespace Chalk

theorem Lifetime.flag_iff (f : Flag) (l : Lifetime) :
    f ∈ l.computeFlags ↔ f.reports l.leaf = true := by
  cases l <;> cases f <;> simp [Lifetime.computeFlags, Lifetime.leaf, Flag.reports]

theorem ConstValue.flag_iff (f : Flag) (h : f ≠ .stillFurtherSpecializable) (v : ConstValue) :
    f ∈ v.computeFlags ↔ ∃ lf ∈ v.leaves, f.reports lf = true := by
  cases v <;> cases f <;> simp [ConstValue.computeFlags, ConstValue.leaves, Flag.reports] at *

mutual
  theorem Ty.flag_iff (f : Flag) (h : f ≠ .stillFurtherSpecializable) : (t : Ty) →
      (f ∈ t.computeFlags ↔ ∃ lf ∈ t.leaves, f.reports lf = true)
    | .app n args => by simp [Ty.computeFlags, Ty.leaves, Args.flag_iff f h args]
    | .scalar _ => by simp [Ty.computeFlags, Ty.leaves]
    | .str => by simp [Ty.computeFlags, Ty.leaves]
    | .never => by simp [Ty.computeFlags, Ty.leaves]
    | .foreign _ => by simp [Ty.computeFlags, Ty.leaves]
    | .error => by cases f <;> simp [Ty.computeFlags, Ty.leaves, Flag.reports]
    | .slice t => by simp [Ty.computeFlags, Ty.leaves, Ty.flag_iff f h t]
    | .raw _ t => by simp [Ty.computeFlags, Ty.leaves, Ty.flag_iff f h t]
    | .ref _ l t => by
        simp [Ty.computeFlags, Ty.leaves, Ty.flag_iff f h t, Lifetime.flag_iff]
    | .array t c => by
        simp [Ty.computeFlags, Ty.leaves, Ty.flag_iff f h t, Const.flag_iff f h c, or_and_right, exists_or]
    | .placeholder _ _ => by cases f <;> simp [Ty.computeFlags, Ty.leaves, Flag.reports]
    | .dyn _ bounds l => by
        simp [Ty.computeFlags, Ty.leaves, QWCs.flag_iff f h bounds, Lifetime.flag_iff]
    | .proj _ args => by
        have := Args.flag_iff f h args
        cases f <;> simp [Ty.computeFlags, Ty.leaves, Flag.reports] at * <;> simp [this]
    | .opaque _ args => by
        have := Args.flag_iff f h args
        cases f <;> simp [Ty.computeFlags, Ty.leaves, Flag.reports] at * <;> simp [this]
    | .bound _ _ => by simp [Ty.computeFlags, Ty.leaves]
    | .infer _ _ => by cases f <;> simp [Ty.computeFlags, Ty.leaves, Flag.reports]
    | .function _ _ args => by simp [Ty.computeFlags, Ty.leaves, Args.flag_iff f h args]
  theorem Const.flag_iff (f : Flag) (h : f ≠ .stillFurtherSpecializable) : (c : Const) →
      (f ∈ c.computeFlags ↔ ∃ lf ∈ c.leaves, f.reports lf = true)
    | .mk ty v => by
        simp [Const.computeFlags, Const.leaves, Ty.flag_iff f h ty, ConstValue.flag_iff f h v,
          or_and_right, exists_or]
  theorem GArg.flag_iff (f : Flag) (h : f ≠ .stillFurtherSpecializable) : (a : GArg) →
      (f ∈ a.computeFlags ↔ ∃ lf ∈ a.leaves, f.reports lf = true)
    | .ty t => by simp [GArg.computeFlags, GArg.leaves, Ty.flag_iff f h t]
    | .lt l => by simp [GArg.computeFlags, GArg.leaves, Lifetime.flag_iff]
    | .ct c => by simp [GArg.computeFlags, GArg.leaves, Const.flag_iff f h c]
  theorem Args.flag_iff (f : Flag) (h : f ≠ .stillFurtherSpecializable) : (a : Args) →
      (f ∈ a.computeFlags ↔ ∃ lf ∈ a.leaves, f.reports lf = true)
    | .nil => by simp [Args.computeFlags, Args.leaves]
    | .cons a as => by
        simp [Args.computeFlags, Args.leaves, GArg.flag_iff f h a, Args.flag_iff f h as,
          or_and_right, exists_or]
  theorem WC.flag_iff (f : Flag) (h : f ≠ .stillFurtherSpecializable) : (w : WC) →
      (f ∈ w.computeFlags ↔ ∃ lf ∈ w.leaves, f.reports lf = true)
    | .implemented _ args => by simp [WC.computeFlags, WC.leaves, Args.flag_iff f h args]
    | .aliasEqProj _ args ty => by
        have h1 := Args.flag_iff f h args
        have h2 := Ty.flag_iff f h ty
        cases f <;> simp [WC.computeFlags, WC.leaves, Flag.reports, or_and_right, exists_or] at * <;>
          simp [h1, h2]
    | .aliasEqOpaque _ args ty => by
        have h1 := Args.flag_iff f h args
        have h2 := Ty.flag_iff f h ty
        cases f <;> simp [WC.computeFlags, WC.leaves, Flag.reports, or_and_right, exists_or] at * <;>
          simp [h1, h2]
    | .ltOutlives a b => by simp [WC.computeFlags, WC.leaves, Lifetime.flag_iff]
    | .tyOutlives t l => by
        simp [WC.computeFlags, WC.leaves, Ty.flag_iff f h t, Lifetime.flag_iff, or_and_right, exists_or]
  theorem QWC.flag_iff (f : Flag) (h : f ≠ .stillFurtherSpecializable) : (q : QWC) →
      (f ∈ q.computeFlags ↔ ∃ lf ∈ q.leaves, f.reports lf = true)
    | .mk _ wc => by simp [QWC.computeFlags, QWC.leaves, WC.flag_iff f h wc]
  theorem QWCs.flag_iff (f : Flag) (h : f ≠ .stillFurtherSpecializable) : (q : QWCs) →
      (f ∈ q.computeFlags ↔ ∃ lf ∈ q.leaves, f.reports lf = true)
    | .nil => by simp [QWCs.computeFlags, QWCs.leaves]
    | .cons q qs => by
        simp [QWCs.computeFlags, QWCs.leaves, QWC.flag_iff f h q, QWCs.flag_iff f h qs,
          or_and_right, exists_or]
end

/-- the `u16` has bit `f.bit` set iff `f` is in the modelled set -/
theorem Flags.testBit_toBits (fs : Flags) (f : Flag) :
    (Flags.toBits fs).testBit f.bit = true ↔ f ∈ fs := by
  induction fs with
  | nil => simp [Flags.toBits]
  | cons g gs ih =>
    have ih' : (List.foldr (fun f acc => 1 <<< f.bit ||| acc) 0 gs).testBit f.bit = true ↔ f ∈ gs := ih
    simp only [Flags.toBits, List.foldr_cons, Nat.testBit_or, Bool.or_eq_true, List.mem_cons, ih']
    have : (1 <<< g.bit).testBit f.bit = true ↔ f = g := by
      cases f <;> cases g <;> decide
    rw [this]

end Chalk
