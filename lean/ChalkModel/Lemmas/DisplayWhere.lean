/-
  C22, layer "where-clauses": `parseWC`, `parseQWC`, `parseQWCs`, `parseWhere` invert the writer.
-/
import ChalkModel.Lemmas.DisplaySize

set_option linter.unusedSimpArgs false
set_option linter.unusedVariables false

namespace Chalk.Display.Parse
open Chalk.Display

def wfWC (env : List (List VK)) : WC → Bool
  | .implemented self _ args => wfTy env self && wfArgs env args
  | .aliasEq self _ _ targs aargs v => wfTy env self && wfArgs env targs && wfArgs env aargs && wfTy env v
  | .ltOutlives a b => wfLt env a && wfLt env b
  | .tyOutlives t l => wfTy env t && wfLt env l

/-- `env` is the environment outside the clause's own binders -/
def wfQWC (env : List (List VK)) (q : QWC) : Bool := wfWC (q.ks :: env) q.wc

def WfWC (p : PSt) (w : WC) : Prop := wfWC p.env w = true
instance (p : PSt) (w : WC) : Decidable (WfWC p w) := by unfold WfWC; infer_instance

/-- `p` is the state outside the clause's own binders -/
def WfQWC (p : PSt) (q : QWC) : Prop := wfQWC p.env q = true
instance (p : PSt) (q : QWC) : Decidable (WfQWC p q) := by unfold WfQWC; infer_instance

theorem traitTailOK_plain (args : Args) {p : PSt} (hp : Faithful p) {f : Nat} {rest : List Tok}
    (hwf : wfArgs p.env args = true) (hsz : szArgs args ≤ f) (hrest : ∀ r, rest ≠ .kw "<" :: r) :
    parseTraitTail (f + 1) p (printAngleArgs p.st args ++ rest) = some (.plain args, rest) := by
  cases args with
  | nil => simp only [printAngleArgs, List.nil_append]; exact parseTraitTail_nil _ _ hrest
  | cons a as =>
      have := parseArgs_of_all (.cons a as) (argsOK _) p f (.kw ">" :: rest) hp (by simp) hwf
        hsz (by simp) (by simp)
      simp only [printArgs, List.append_assoc] at this
      simp only [printAngleArgs, List.cons_append, List.append_assoc, List.nil_append]
      exact parseTraitTail_plain _ _ this

theorem ltTok_ne_kw_forall (s : St) (v : Nat × Nat) : s.ltTok v ≠ .kw "forall" := by
  unfold St.ltTok
  simp only
  split <;> simp

theorem printWC_not_forall (s : St) (w : WC) (rest : List Tok) : ∀ r, printWC s w ++ rest ≠ .kw "forall" :: r := by
  have hl : ∀ (l : Lt) (tl : List Tok) r, printLt s l ++ tl ≠ .kw "forall" :: r := by
    intro l tl r h
    cases l with
    | bound d i => simp [printLt] at h; exact ltTok_ne_kw_forall _ _ h.1
    | static => simp [printLt] at h
    | erased => simp [printLt] at h
  intro r
  cases w with
  | implemented self tr args =>
      simp only [printWC, List.append_assoc]; exact printTy_not_kw _ _ _ _ (by decide) r
  | aliasEq self tr assoc targs aargs v =>
      simp only [printWC, List.append_assoc]; exact printTy_not_kw _ _ _ _ (by decide) r
  | ltOutlives a b => simp only [printWC, List.append_assoc]; exact hl _ _ r
  | tyOutlives t l => simp only [printWC, List.append_assoc]; exact printTy_not_kw _ _ _ _ (by decide) r

theorem parseWC_implemented {fuel : Nat} {p : PSt} {toks r1 rest : List Tok} {t : Ty} {tr : String} {args : Args}
    (h0 : isLtStart toks = false) (ht : parseTy fuel p toks = some (t, .kw ":" :: .name tr :: r1))
    (h2 : parseTraitTail fuel p r1 = some (.plain args, rest)) :
    parseWC fuel p toks = some (.implemented t tr args, rest) := by
  simp [parseWC, h0, ht, h2, show isLtStart (Tok.name tr :: r1) = false from rfl]

theorem parseWC_aliasEq {fuel : Nat} {p : PSt} {toks r1 rest : List Tok} {t v : Ty} {tr assoc : String} {targs aargs : Args}
    (h0 : isLtStart toks = false) (ht : parseTy fuel p toks = some (t, .kw ":" :: .name tr :: r1))
    (h2 : parseTraitTail fuel p r1 = some (.assoc targs assoc aargs v, rest)) :
    parseWC fuel p toks = some (.aliasEq t tr assoc targs aargs v, rest) := by
  simp [parseWC, h0, ht, h2, show isLtStart (Tok.name tr :: r1) = false from rfl]

/-- **P2.** a where-clause -/
theorem parseWC_print {p : PSt} (hp : Faithful p) {w : WC} (hwf : wfWC p.env w = true) {fuel : Nat}
    (hsz : 8 * (printWC p.st w).length ≤ fuel) {rest : List Tok} (hrest : ∀ r, rest ≠ .kw "<" :: r) :
    parseWC fuel p (printWC p.st w ++ rest) = some (w, rest) := by
  cases w with
  | ltOutlives a b =>
      simp only [wfWC, Bool.and_eq_true] at hwf
      simp only [printWC, List.append_assoc, List.cons_append]
      simp [parseWC, isLtStart_printLt hp hwf.1, parseLt_print hp hwf.1, parseLt_print hp hwf.2]
  | tyOutlives t l =>
      simp only [wfWC, Bool.and_eq_true] at hwf
      have := szTy_le t p.st
      simp only [printWC, List.length_append, List.length_cons] at hsz
      have ht := parseTy_print hp hwf.1 (fuel := fuel) (by omega) (rest := .kw ":" :: (printLt p.st l ++ rest)) (by simp)
      simp only [printWC, List.append_assoc, List.cons_append]
      simp [parseWC, printTy_not_ltStart, ht, isLtStart_printLt hp hwf.2, parseLt_print hp hwf.2]
  | implemented self tr args =>
      simp only [wfWC, Bool.and_eq_true] at hwf
      have := szTy_le self p.st
      have := szArgs_le args p.st
      have := printArgs_le_angle p.st args
      simp only [printWC, List.length_append, List.length_cons] at hsz
      obtain ⟨f, rfl⟩ : ∃ f, fuel = f + 1 := ⟨fuel - 1, by omega⟩
      have ht := parseTy_print hp hwf.1 (fuel := f + 1) (by omega)
        (rest := .kw ":" :: .name tr :: (printAngleArgs p.st args ++ rest)) (by simp)
      have h2 := traitTailOK_plain args hp (f := f) (rest := rest) hwf.2 (by omega) hrest
      simp only [printWC, List.append_assoc, List.cons_append]
      exact parseWC_implemented (printTy_not_ltStart _ _ _) ht h2
  | aliasEq self tr assoc targs aargs v =>
      simp only [wfWC, Bool.and_eq_true] at hwf
      have := szTy_le self p.st
      have := szTy_le v p.st
      have := szArgs_le targs p.st
      have := szArgs_le aargs p.st
      have := printArgs_le_angle p.st aargs
      have := printArgs_le_thenComma p.st targs
      simp only [printWC, printTraitWithAssoc, List.length_append, List.length_cons, List.length_nil] at hsz
      obtain ⟨f, rfl⟩ : ∃ f, fuel = f + 1 := ⟨fuel - 1, by omega⟩
      have ht := parseTy_print hp hwf.1.1.1 (fuel := f + 1) (by omega)
        (rest := .kw ":" :: .name tr :: .kw "<" :: (printArgsThenComma p.st targs ++ .name assoc ::
          (printAngleArgs p.st aargs ++ .kw "=" :: (printTy p.st v ++ .kw ">" :: rest)))) (by simp)
      have h2 := traitTailOK_assoc assoc (argsOK targs) (argsOK aargs) (tyOK v) hp (f := f) rest
        hwf.1.1.2 hwf.1.2 hwf.2 (by omega)
      simp only [printWC, printTraitWithAssoc, List.append_assoc, List.cons_append, List.nil_append]
      exact parseWC_aliasEq (printTy_not_ltStart _ _ _) ht h2

/-- **P2.** a quantified where-clause; `p` is the state outside the clause's binders -/
theorem parseQWC_print {p : PSt} (hp : Faithful p) {q : QWC} (hwf : wfQWC p.env q = true) {fuel : Nat}
    (hsz : 8 * (printQWC p.st q).length ≤ fuel) {rest : List Tok} (hrest : ∀ r, rest ≠ .kw "<" :: r) :
    parseQWC fuel p (printQWC p.st q ++ rest) = some (q, rest) := by
  have := forallToks_length_ge (p.st.deeper none) q.ks
  simp only [printQWC, List.length_append] at hsz
  have h1 := parseForall_print hp q.ks fuel (printWC (p.st.deeper none) q.wc ++ rest) (by omega)
    (printWC_not_forall _ _ _)
  have h2 := parseWC_print (hp.deeper q.ks) (w := q.wc) hwf (fuel := fuel)
    (by show 8 * (printWC (p.st.deeper none) q.wc).length ≤ fuel; omega) hrest
  simp only [printQWC, List.append_assoc]
  simp only [parseQWC, h1]
  rw [show (p.deeper q.ks none).st = p.st.deeper none from rfl] at h2
  simp [h2]

theorem parseQWCs_one {f : Nat} {p : PSt} {toks rest : List Tok} {q : QWC}
    (hq : parseQWC f p toks = some (q, rest)) (h : ∀ r, rest ≠ .kw "," :: r) :
    parseQWCs (f + 1) p toks = some ([q], rest) := by
  simp [parseQWCs, hq, h]

theorem parseQWCs_more {f : Nat} {p : PSt} {toks rest rest' : List Tok} {q : QWC} {qs : List QWC}
    (hq : parseQWC f p toks = some (q, .kw "," :: rest)) (hqs : parseQWCs f p rest = some (qs, rest')) :
    parseQWCs (f + 1) p toks = some (q :: qs, rest') := by
  simp [parseQWCs, hq, hqs]

theorem parseQWCs_print {p : PSt} (hp : Faithful p) : ∀ (ws : List QWC) (fuel : Nat) (rest : List Tok),
    ws ≠ [] → ws.all (wfQWC p.env) = true → 8 * (sepBy comma (ws.map (printQWC p.st))).length + 1 ≤ fuel →
    (∀ r, rest ≠ .kw "<" :: r) → (∀ r, rest ≠ .kw "," :: r) →
    parseQWCs fuel p (sepBy comma (ws.map (printQWC p.st)) ++ rest) = some (ws, rest)
  | [], _, _, h, _, _, _, _ => absurd rfl h
  | [q], fuel, rest, _, hwf, hsz, h1, h2 => by
      simp only [List.all_cons, List.all_nil, Bool.and_true] at hwf
      simp only [List.map, sepBy] at hsz ⊢
      obtain ⟨f, rfl⟩ : ∃ f, fuel = f + 1 := ⟨fuel - 1, by omega⟩
      have := parseQWC_print hp hwf (fuel := f) (by omega) h1
      exact parseQWCs_one this h2
  | q :: q' :: qs, fuel, rest, _, hwf, hsz, h1, h2 => by
      rw [List.all_cons, Bool.and_eq_true] at hwf
      rw [List.map_cons, List.map_cons, sepBy_cons_cons, ← List.map_cons] at hsz ⊢
      simp only [List.length_append, comma, List.length_cons, List.length_nil] at hsz
      obtain ⟨f, rfl⟩ : ∃ f, fuel = f + 1 := ⟨fuel - 1, by omega⟩
      have ih := parseQWCs_print hp (q' :: qs) f rest (by simp) hwf.2 (by simp only [comma]; omega) h1 h2
      have := parseQWC_print hp hwf.1 (fuel := f) (by omega)
        (rest := .kw "," :: (sepBy comma ((q' :: qs).map (printQWC p.st)) ++ rest)) (by simp)
      simp only [List.append_assoc, comma, List.cons_append, List.nil_append] at this ih ⊢
      exact parseQWCs_more this ih

/-- **P2.** the `where` part of an item -/
theorem parseWhere_print {p : PSt} (hp : Faithful p) {ws : List QWC} (hwf : ws.all (wfQWC p.env) = true)
    {fuel : Nat} (hsz : 8 * (printWhere p.st ws).length + 1 ≤ fuel) {rest : List Tok}
    (h0 : ∀ r, rest ≠ .kw "where" :: r) (h1 : ∀ r, rest ≠ .kw "<" :: r) (h2 : ∀ r, rest ≠ .kw "," :: r) :
    parseWhere fuel p (printWhere p.st ws ++ rest) = some (ws, rest) := by
  cases ws with
  | nil =>
      simp only [printWhere, List.isEmpty_nil, if_true, List.nil_append]
      unfold parseWhere
      split
      · exact absurd rfl (h0 _)
      · rfl
  | cons q qs =>
      simp only [printWhere, List.isEmpty_cons, Bool.false_eq_true, if_false, List.length_cons] at hsz
      have := parseQWCs_print hp (q :: qs) fuel rest (by simp) hwf (by omega) h1 h2
      simp only [printWhere, List.isEmpty_cons, Bool.false_eq_true, if_false, List.cons_append]
      simp only [parseWhere]
      exact this

end Chalk.Display.Parse
