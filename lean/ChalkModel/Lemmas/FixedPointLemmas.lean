/-
  Lemmas about `FixedPoint.lean`.

  Part A — semantics of an instance by local equations (`IsSem`) and the approximation order
           "`ambig` may stand for anything once solving was interrupted" (`Approx`).
  Part B — total specification of `solveGoal` on ranked (acyclic) instances: every call that
           returns leaves stack and search graph as it found them, keeps the cache sound, and
           returns the semantic value, or `ambig` if `should_continue` said no during the current
           root call; every call that panics keeps the cache sound.
-/
import ChalkModel.FixedPoint

namespace Chalk.FixedPoint

/-! ## Part A: semantics -/

/-- value of an alternative from the values of its sub-goals -/
def altVal (vals : List V) : V :=
  if vals.any (fun v => v == .noSolution) then .noSolution
  else if vals.any (fun v => v == .ambig) then .ambig
  else .unique

/-- the clause loop of `solve_from_clauses` over the values of the alternatives -/
def clauseVal (ground : Bool) : List V → Option V → V
  | [], cur => cur.getD .noSolution
  | r :: rest, cur =>
    let cur' : Option V :=
      match r with
      | .noSolution => cur
      | sol => some (match cur with | none => sol | some c => combine ground c sol)
    match cur' with
    | some c => if trivialTrue ground c then c else clauseVal ground rest cur'
    | none => clauseVal ground rest cur'

/-- `sem` satisfies the instance's equations -/
def IsSem (inst : Instance) (sem : Nat → V) : Prop :=
  ∀ g, sem g = clauseVal (inst.ground g) ((inst.deps g).map (fun alt => altVal (alt.map sem))) none

/-- the dependency relation is well-founded: every sub-goal has a smaller rank -/
def Ranked (inst : Instance) (rank : Nat → Nat) : Prop :=
  ∀ g alt, alt ∈ inst.deps g → ∀ c, c ∈ alt → rank c < rank g

/-- `v` is `w`, or — if solving was interrupted (`b`) — the placeholder `ambig` -/
def Approx (b : Bool) (v w : V) : Prop := v = w ∨ (b = true ∧ v = .ambig)

theorem Approx.refl (b : Bool) (v : V) : Approx b v v := Or.inl rfl

theorem Approx.mono {b b' : Bool} {v w : V} (h : Approx b v w) (hb : b = true → b' = true) :
    Approx b' v w := by
  cases h with
  | inl h => exact Or.inl h
  | inr h => exact Or.inr ⟨hb h.1, h.2⟩

theorem Approx.exact {v w : V} (h : Approx false v w) : v = w := by
  cases h with
  | inl h => exact h
  | inr h => cases h.1

def ApproxO (b : Bool) : Option V → Option V → Prop
  | none, none => True
  | some v, some w => Approx b v w
  | some v, none => b = true ∧ v = .ambig
  | none, some _ => False

/-- pointwise approximation of lists of equal length -/
def ApproxL (b : Bool) : List V → List V → Prop
  | [], [] => True
  | v :: vs, w :: ws => Approx b v w ∧ ApproxL b vs ws
  | _, _ => False

theorem ApproxL.refl (b : Bool) : ∀ vs, ApproxL b vs vs
  | [] => trivial
  | v :: vs => ⟨Approx.refl b v, ApproxL.refl b vs⟩

theorem ApproxL.mono {b b' : Bool} (hb : b = true → b' = true) :
    ∀ {vs ws}, ApproxL b vs ws → ApproxL b' vs ws
  | [], [], _ => trivial
  | _ :: _, _ :: _, h => ⟨h.1.mono hb, ApproxL.mono hb h.2⟩
  | [], _ :: _, h => h.elim
  | _ :: _, [], h => h.elim

theorem ApproxL.exact : ∀ {vs ws : List V}, ApproxL false vs ws → vs = ws
  | [], [], _ => rfl
  | _ :: _, _ :: _, h => by rw [h.1.exact, ApproxL.exact h.2]
  | [], _ :: _, h => h.elim
  | _ :: _, [], h => h.elim

theorem ApproxO.exact : ∀ {a c : Option V}, ApproxO false a c → a = c
  | none, none, _ => rfl
  | some _, some _, h => by rw [Approx.exact h]
  | some _, none, h => by cases h.1
  | none, some _, h => h.elim

/-- once a solution has been found the clause loop cannot end with "no solution" -/
theorem clauseVal_some_ne (ground : Bool) :
    ∀ (rs : List V) (c : V), c ≠ .noSolution → clauseVal ground rs (some c) ≠ .noSolution
  | [], c, hc => by simpa [clauseVal] using hc
  | r :: rs, c, hc => by
    have ih := clauseVal_some_ne ground rs
    cases ground <;> cases r <;> cases c <;> simp_all [clauseVal, combine, trivialTrue]

theorem approx_true_of_ne {v w : V} (h : v ≠ .noSolution) (hw : w = .unique) : Approx true v w := by
  cases v <;> simp_all [Approx]

/-- one step of the clause loop on the running solution -/
def stepCur (ground : Bool) (r : V) (cur : Option V) : Option V :=
  match r with
  | .noSolution => cur
  | sol => some (match cur with | none => sol | some c => combine ground c sol)

theorem clauseVal_cons (ground : Bool) (r : V) (rest : List V) (cur : Option V) :
    clauseVal ground (r :: rest) cur =
      match stepCur ground r cur with
      | some c => if trivialTrue ground c then c else clauseVal ground rest (some c)
      | none => clauseVal ground rest none := by
  cases r <;> cases cur <;> simp [clauseVal, stepCur]

instance (b : Bool) (v w : V) : Decidable (Approx b v w) := by unfold Approx; infer_instance
instance (b : Bool) : (a c : Option V) → Decidable (ApproxO b a c)
  | none, none => by unfold ApproxO; infer_instance
  | some _, some _ => by unfold ApproxO; infer_instance
  | some _, none => by unfold ApproxO; infer_instance
  | none, some _ => by unfold ApproxO; infer_instance

theorem stepCur_approx (ground : Bool) (r' r : V) (cur' cur : Option V)
    (hr : Approx true r' r) (hc : ApproxO true cur' cur) :
    ApproxO true (stepCur ground r' cur') (stepCur ground r cur) := by
  cases ground <;> cases r' <;> cases r <;> cases cur' <;> cases cur <;>
    (first
      | (revert hr hc; decide)
      | (rename_i c' c; cases c' <;> cases c <;> revert hr hc <;> decide)
      | (rename_i c; cases c <;> revert hr hc <;> decide))

/-- the clause loop is monotone for the approximation order -/
theorem clauseVal_approx_true (ground : Bool) :
    ∀ (rs' rs : List V) (cur' cur : Option V), ApproxL true rs' rs → ApproxO true cur' cur →
      Approx true (clauseVal ground rs' cur') (clauseVal ground rs cur)
  | [], [], cur', cur, _, hc => by
    cases cur' <;> cases cur <;> simp_all [ApproxO, clauseVal, Approx]
  | [], _ :: _, _, _, h, _ => h.elim
  | _ :: _, [], _, _, h, _ => h.elim
  | r' :: rs', r :: rs, cur', cur, h, hc => by
    have ih := clauseVal_approx_true ground rs' rs
    obtain ⟨hr, hrs⟩ := h
    have hs := stepCur_approx ground r' r cur' cur hr hc
    rw [clauseVal_cons, clauseVal_cons]
    cases h1 : stepCur ground r' cur' with
    | none =>
      cases h2 : stepCur ground r cur with
      | none => exact ih none none hrs trivial
      | some c => rw [h1, h2] at hs; exact hs.elim
    | some c' =>
      cases h2 : stepCur ground r cur with
      | none =>
        rw [h1, h2] at hs
        obtain ⟨_, hc'⟩ := hs
        subst hc'
        have : trivialTrue ground V.ambig = false := by cases ground <;> rfl
        simp only [this]
        exact ih (some .ambig) none hrs ⟨rfl, rfl⟩
      | some c =>
        rw [h1, h2] at hs
        simp only []
        by_cases t' : trivialTrue ground c' = true
        · -- the approximating run stops with the trivially true solution: it is exact
          have hc'u : c' = .unique := by
            cases ground <;> cases c' <;> simp_all [trivialTrue]
          have hcu : c = .unique := by
            cases hs with
            | inl e => rw [← e]; exact hc'u
            | inr e => rw [hc'u] at e; cases e.2
          subst hc'u; subst hcu
          simp [t']
          exact Approx.refl _ _
        · by_cases t : trivialTrue ground c = true
          · have hcu : c = .unique := by
              cases ground <;> cases c <;> simp_all [trivialTrue]
            simp only [t, t']
            have hne : c' ≠ .noSolution := by
              cases hs with
              | inl e => rw [e, hcu]; decide
              | inr e => rw [e.2]; decide
            exact approx_true_of_ne (clauseVal_some_ne ground rs' c' hne) (by simp [hcu])
          · simp only [t, t']
            exact ih (some c') (some c) hrs hs

theorem clauseVal_approx (b ground : Bool) (rs' rs : List V) (cur' cur : Option V)
    (h : ApproxL b rs' rs) (hc : ApproxO b cur' cur) :
    Approx b (clauseVal ground rs' cur') (clauseVal ground rs cur) := by
  cases b with
  | false => rw [ApproxL.exact h, ApproxO.exact hc]; exact Approx.refl _ _
  | true => exact clauseVal_approx_true ground rs' rs cur' cur h hc

/-! ### values of alternatives -/

theorem altVal_noSolution {sem : Nat → V} {alt : List Nat} (h : ∃ c, c ∈ alt ∧ sem c = .noSolution) :
    altVal (alt.map sem) = .noSolution := by
  obtain ⟨c, hc, hs⟩ := h
  have : (alt.map sem).any (fun v => v == .noSolution) = true := by
    rw [List.any_eq_true]
    exact ⟨sem c, List.mem_map.mpr ⟨c, hc, rfl⟩, by rw [hs]; rfl⟩
  simp [altVal, this]

theorem altVal_unique {sem : Nat → V} {alt : List Nat} (h : ∀ c, c ∈ alt → sem c = .unique) :
    altVal (alt.map sem) = .unique := by
  have h1 : (alt.map sem).any (fun v => v == .noSolution) = false := by
    rw [List.any_eq_false]
    intro v hv
    obtain ⟨c, hc, rfl⟩ := List.mem_map.mp hv
    rw [h c hc]; decide
  have h2 : (alt.map sem).any (fun v => v == .ambig) = false := by
    rw [List.any_eq_false]
    intro v hv
    obtain ⟨c, hc, rfl⟩ := List.mem_map.mp hv
    rw [h c hc]; decide
  simp [altVal, h1, h2]

theorem altVal_ambig {sem : Nat → V} {alt : List Nat}
    (h : ∀ c, c ∈ alt → sem c = .unique ∨ sem c = .ambig) (h' : ∃ c, c ∈ alt ∧ sem c = .ambig) :
    altVal (alt.map sem) = .ambig := by
  have h1 : (alt.map sem).any (fun v => v == .noSolution) = false := by
    rw [List.any_eq_false]
    intro v hv
    obtain ⟨c, hc, rfl⟩ := List.mem_map.mp hv
    cases h c hc with
    | inl e => rw [e]; decide
    | inr e => rw [e]; decide
  obtain ⟨c, hc, hs⟩ := h'
  have h2 : (alt.map sem).any (fun v => v == .ambig) = true := by
    rw [List.any_eq_true]
    exact ⟨sem c, List.mem_map.mpr ⟨c, hc, rfl⟩, by rw [hs]; rfl⟩
  simp [altVal, h1, h2]

/-! ## Part B: `solveGoal` on ranked instances -/

/-- postcondition of a call: `okP` on a returned value, `panicP` on the state a panic leaves -/
def Res.sat {α : Type} (r : Res α) (okP : α → St → Prop) (panicP : Site → St → Prop) : Prop :=
  match r with
  | .ok a s => okP a s
  | .panic site s => panicP site s

@[simp] theorem Res.sat_ok {α : Type} (a : α) (s : St) (okP : α → St → Prop) (panicP : Site → St → Prop) :
    (Res.ok a s).sat okP panicP = okP a s := rfl
@[simp] theorem Res.sat_panic {α : Type} (site : Site) (s : St) (okP : α → St → Prop)
    (panicP : Site → St → Prop) :
    (Res.panic (α := α) site s).sat okP panicP = panicP site s := rfl

/-- every cache entry is the semantic value of its goal -/
def CacheSound (sem : Nat → V) (s : St) : Prop :=
  ∀ c, s.cache = some c → ∀ k v, cacheGet c k = some v → v = sem k

theorem CacheSound.of_eq {sem : Nat → V} {s s' : St} (h : CacheSound sem s) (e : s'.cache = s.cache) :
    CacheSound sem s' := by
  intro c hc; rw [e] at hc; exact h c hc

/-- the goal `c` can be solved at stack depth `L` with depth fuel `D`: its rank (the length of the
    longest dependency chain below it) fits under the overflow depth -/
def Fits (rank : Nat → Nat) (cfg : Cfg) (D L c : Nat) : Prop :=
  rank c < D ∧ L + rank c < cfg.overflowDepth

/-- what a panic may be on a ranked instance: the cache stays sound, and the panic is one of
    the resource panics — the hook's budget (only if one is set), the round fuel (only if it is 0),
    the legacy `unwrap` (only without the F16 repair), overflow / depth fuel (only if the goal does
    not fit).  None of the asserts of the framework fires. -/
def PanicOK (sem : Nat → V) (cfg : Cfg) (fits : Prop) (site : Site) (s' : St) : Prop :=
  CacheSound sem s' ∧
  match site with
  | .budget => cfg.budget ≠ none
  | .fuelRounds => cfg.rounds = 0
  | .unwrapNoSolution => cfg.fixF16 = false
  | .overflow => ¬ fits
  | .fuelDepth => ¬ fits
  | _ => False

theorem PanicOK.mono {sem : Nat → V} {cfg : Cfg} {fits fits' : Prop} {site : Site} {s' : St}
    (h : PanicOK sem cfg fits site s') (hf : fits' → fits) : PanicOK sem cfg fits' site s' := by
  refine ⟨h.1, ?_⟩
  have h2 := h.2
  cases site <;> simp_all
  all_goals exact fun x => h2 (hf x)

/-- the shape of the context between two sub-goal calls on a ranked instance: the search graph
    holds exactly the goals on the stack, no cycle flag is set, the cache is sound -/
structure Inv (sem : Nat → V) (s : St) : Prop where
  len : s.graph.length = s.stack.length
  flags : ∀ e, e ∈ s.stack → e.cycle = false
  cache : CacheSound sem s

theorem Inv.of_eq {sem : Nat → V} {s s' : St} (h : Inv sem s) (e1 : s'.stack = s.stack)
    (e2 : s'.graph = s.graph) (e3 : s'.cache = s.cache) : Inv sem s' :=
  ⟨by rw [e1, e2]; exact h.len, by rw [e1]; exact h.flags, h.cache.of_eq e3⟩

/-- the `should_continue` callback will never say "stop" -/
def Quiet (s : St) : Prop := s.oracleDefault = true ∧ ∀ b, b ∈ s.oracle → b = true

/-- a step keeps a quiet oracle quiet and then does not set the `interrupted` flag -/
def QuietStep (s s' : St) : Prop :=
  Quiet s → Quiet s' ∧ (s.interrupted = false → s'.interrupted = false)

theorem QuietStep.of_eq {s s' : St} (e1 : s'.oracle = s.oracle) (e2 : s'.oracleDefault = s.oracleDefault)
    (e3 : s'.interrupted = s.interrupted) : QuietStep s s' := by
  intro q
  refine ⟨⟨by rw [e2]; exact q.1, by rw [e1]; exact q.2⟩, fun h => by rw [e3]; exact h⟩

theorem QuietStep.trans {s s' s'' : St} (h : QuietStep s s') (h' : QuietStep s' s'') : QuietStep s s'' := by
  intro q
  obtain ⟨q1, i1⟩ := h q
  obtain ⟨q2, i2⟩ := h' q1
  exact ⟨q2, fun e => i2 (i1 e)⟩

/-- what a completed call did to the context -/
structure Post (sem : Nat → V) (s s' : St) : Prop where
  stack : s'.stack = s.stack
  graph : s'.graph = s.graph
  cache : CacheSound sem s'
  cacheOn : s'.cache.isSome = s.cache.isSome
  intr : s.interrupted = true → s'.interrupted = true
  quiet : QuietStep s s'

theorem Post.refl {sem : Nat → V} {s : St} (h : CacheSound sem s) : Post sem s s :=
  ⟨rfl, rfl, h, rfl, id, QuietStep.of_eq rfl rfl rfl⟩

theorem Post.of_eq {sem : Nat → V} {s s' : St} (h : CacheSound sem s) (e1 : s'.stack = s.stack)
    (e2 : s'.graph = s.graph) (e3 : s'.cache = s.cache) (e4 : s.interrupted = true → s'.interrupted = true)
    (e5 : QuietStep s s') :
    Post sem s s' :=
  ⟨e1, e2, h.of_eq e3, by rw [e3], e4, e5⟩

theorem Post.trans {sem : Nat → V} {s s' s'' : St} (h : Post sem s s') (h' : Post sem s' s'') :
    Post sem s s'' :=
  ⟨h'.stack.trans h.stack, h'.graph.trans h.graph, h'.cache, h'.cacheOn.trans h.cacheOn,
   fun e => h'.intr (h.intr e), h.quiet.trans h'.quiet⟩

theorem Post.inv {sem : Nat → V} {s s' : St} (h : Post sem s s') (hi : Inv sem s) : Inv sem s' :=
  ⟨by rw [h.stack, h.graph]; exact hi.len, by rw [h.stack]; exact hi.flags, h.cache⟩

/-- specification of a sub-goal solver on a ranked instance -/
def RecSpec (sem : Nat → V) (rank : Nat → Nat) (cfg : Cfg) (D : Nat) (rec : SubSolver) : Prop :=
  ∀ c m s, Inv sem s → (∀ n, n ∈ s.graph → rank c < rank n.goal) →
    (rec c m s).sat
      (fun r s' => Post sem s s' ∧ r.2 = m ∧ Approx s'.interrupted r.1 (sem c))
      (PanicOK sem cfg (Fits rank cfg D s.stack.length c))

section Spec
variable {inst : Instance} {cfg : Cfg} {sem : Nat → V} {rank : Nat → Nat} {rec : SubSolver} {D : Nat}

theorem fulfillRound_spec (hrec : RecSpec sem rank cfg D rec) :
    ∀ (cs acc : List Nat) (m : Min) (s : St), Inv sem s →
      (∀ c, c ∈ cs → ∀ n, n ∈ s.graph → rank c < rank n.goal) →
      (fulfillRound rec cs acc m s).sat
        (fun r s' => Post sem s s' ∧ r.2 = m ∧
          match r.1 with
          | none => ∃ c, c ∈ cs ∧ sem c = .noSolution
          | some ret =>
            (∀ c, c ∈ cs → sem c = .unique ∨ (c ∈ ret ∧ Approx s'.interrupted .ambig (sem c))) ∧
            (∀ c, c ∈ ret → c ∈ acc ∨ (c ∈ cs ∧ Approx s'.interrupted .ambig (sem c))) ∧
            (∀ c, c ∈ acc → c ∈ ret))
        (PanicOK sem cfg (∀ c, c ∈ cs → Fits rank cfg D s.stack.length c))
  | [], acc, m, s, hi, _ => by
    simp only [fulfillRound, Res.sat_ok]
    refine ⟨Post.refl hi.cache, ?_⟩
    simp
  | c :: rest, acc, m, s, hi, hrk => by
    have h1 := hrec c m s hi (hrk c (List.mem_cons_self ..))
    simp only [fulfillRound]
    cases hr : rec c m s with
    | panic site s' =>
      rw [hr] at h1
      simp only [Res.sat_panic] at h1 ⊢
      exact h1.mono (fun hf => hf c (List.mem_cons_self ..))
    | ok r s1 =>
      rw [hr] at h1
      obtain ⟨v, m'⟩ := r
      simp only [Res.sat_ok] at h1
      obtain ⟨hp, hm, ha⟩ := h1
      subst hm
      have hi1 := hp.inv hi
      have hrk1 : ∀ c', c' ∈ rest → ∀ n, n ∈ s1.graph → rank c' < rank n.goal := by
        intro c' hc' n hn; rw [hp.graph] at hn; exact hrk c' (List.mem_cons_of_mem _ hc') n hn
      cases v with
      | noSolution =>
        simp only [Res.sat_ok]
        refine ⟨hp, trivial, c, List.mem_cons_self .., ?_⟩
        cases ha with
        | inl e => exact e.symm
        | inr e => cases e.2
      | unique =>
        have hu : sem c = .unique := by
          cases ha with
          | inl e => exact e.symm
          | inr e => cases e.2
        have ih := fulfillRound_spec hrec rest acc m' s1 hi1 hrk1
        simp only []
        cases hr2 : fulfillRound rec rest acc m' s1 with
        | panic site s' =>
          rw [hr2] at ih
          simp only [Res.sat_panic] at ih ⊢
          exact ih.mono (fun hf c' hc' => by rw [hp.stack]; exact hf c' (List.mem_cons_of_mem _ hc'))
        | ok r2 s2 =>
          rw [hr2] at ih
          obtain ⟨o, m2⟩ := r2
          simp only [Res.sat_ok] at ih ⊢
          obtain ⟨hp2, hm2, ho⟩ := ih
          refine ⟨hp.trans hp2, hm2, ?_⟩
          cases o with
          | none =>
            obtain ⟨c', hc', hs⟩ := ho
            exact ⟨c', List.mem_cons_of_mem _ hc', hs⟩
          | some ret =>
            obtain ⟨h1, h2, h3⟩ := ho
            refine ⟨?_, ?_, h3⟩
            · intro c' hc'
              cases List.mem_cons.mp hc' with
              | inl e => left; rw [e]; exact hu
              | inr e => exact h1 c' e
            · intro c' hc'
              cases h2 c' hc' with
              | inl e => left; exact e
              | inr e => right; exact ⟨List.mem_cons_of_mem _ e.1, e.2⟩
      | ambig =>
        have ih := fulfillRound_spec hrec rest (acc ++ [c]) m' s1 hi1 hrk1
        simp only []
        cases hr2 : fulfillRound rec rest (acc ++ [c]) m' s1 with
        | panic site s' =>
          rw [hr2] at ih
          simp only [Res.sat_panic] at ih ⊢
          exact ih.mono (fun hf c' hc' => by rw [hp.stack]; exact hf c' (List.mem_cons_of_mem _ hc'))
        | ok r2 s2 =>
          rw [hr2] at ih
          obtain ⟨o, m2⟩ := r2
          simp only [Res.sat_ok] at ih ⊢
          obtain ⟨hp2, hm2, ho⟩ := ih
          refine ⟨hp.trans hp2, hm2, ?_⟩
          have ha2 : Approx s2.interrupted .ambig (sem c) := ha.mono hp2.intr
          cases o with
          | none =>
            obtain ⟨c', hc', hs⟩ := ho
            exact ⟨c', List.mem_cons_of_mem _ hc', hs⟩
          | some ret =>
            obtain ⟨h1, h2, h3⟩ := ho
            refine ⟨?_, ?_, ?_⟩
            · intro c' hc'
              cases List.mem_cons.mp hc' with
              | inl e =>
                right; rw [e]
                exact ⟨h3 c (List.mem_append_right _ (List.mem_singleton.mpr rfl)), ha2⟩
              | inr e => exact h1 c' e
            · intro c' hc'
              cases h2 c' hc' with
              | inl e =>
                cases List.mem_append.mp e with
                | inl e' => left; exact e'
                | inr e' =>
                  right
                  have : c' = c := List.mem_singleton.mp e'
                  rw [this]
                  exact ⟨List.mem_cons_self .., ha2⟩
              | inr e => right; exact ⟨List.mem_cons_of_mem _ e.1, e.2⟩
            · intro c' hc'
              exact h3 c' (List.mem_append_left _ hc')

theorem suggestPass_spec (hrec : RecSpec sem rank cfg D rec) :
    ∀ (ds : List Nat) (m : Min) (s : St), Inv sem s →
      (∀ c, c ∈ ds → ∀ n, n ∈ s.graph → rank c < rank n.goal) →
      (suggestPass cfg rec ds m s).sat
        (fun r s' => Post sem s s' ∧ r.2 = m ∧ r.1 ≠ .unique ∧
          (r.1 = .noSolution → ∃ d, d ∈ ds ∧ sem d = .noSolution))
        (PanicOK sem cfg (∀ c, c ∈ ds → Fits rank cfg D s.stack.length c))
  | [], m, s, hi, _ => by
    simp only [suggestPass, Res.sat_ok]
    refine ⟨Post.refl hi.cache, ?_⟩
    simp
  | c :: rest, m, s, hi, hrk => by
    have h1 := hrec c m s hi (hrk c (List.mem_cons_self ..))
    simp only [suggestPass]
    cases hr : rec c m s with
    | panic site s' =>
      rw [hr] at h1
      simp only [Res.sat_panic] at h1 ⊢
      exact h1.mono (fun hf => hf c (List.mem_cons_self ..))
    | ok r s1 =>
      rw [hr] at h1
      obtain ⟨v, m'⟩ := r
      simp only [Res.sat_ok] at h1
      obtain ⟨hp, hm, ha⟩ := h1
      subst hm
      have hi1 := hp.inv hi
      have hrk1 : ∀ c', c' ∈ rest → ∀ n, n ∈ s1.graph → rank c' < rank n.goal := by
        intro c' hc' n hn; rw [hp.graph] at hn; exact hrk c' (List.mem_cons_of_mem _ hc') n hn
      cases v with
      | noSolution =>
        simp only []
        by_cases hf : cfg.fixF16 = true
        · simp only [hf, if_true, Res.sat_ok]
          refine ⟨hp, trivial, by decide, fun _ => ⟨c, List.mem_cons_self .., ?_⟩⟩
          cases ha with
          | inl e => exact e.symm
          | inr e => cases e.2
        · simp only [hf, Res.sat_panic]
          refine ⟨hp.cache, ?_⟩
          cases h16 : cfg.fixF16 with
          | false => rfl
          | true => exact absurd h16 hf
      | unique =>
        simp only [Res.sat_ok]
        exact ⟨hp, trivial, by decide, fun e => by cases e⟩
      | ambig =>
        have ih := suggestPass_spec hrec rest m' s1 hi1 hrk1
        simp only []
        cases hr2 : suggestPass cfg rec rest m' s1 with
        | panic site s' =>
          rw [hr2] at ih
          simp only [Res.sat_panic] at ih ⊢
          exact ih.mono (fun hf c' hc' => by rw [hp.stack]; exact hf c' (List.mem_cons_of_mem _ hc'))
        | ok r2 s2 =>
          rw [hr2] at ih
          obtain ⟨v2, m2⟩ := r2
          simp only [Res.sat_ok] at ih ⊢
          obtain ⟨hp2, hm2, hne, hno⟩ := ih
          refine ⟨hp.trans hp2, hm2, hne, fun e => ?_⟩
          obtain ⟨d, hd, hs⟩ := hno e
          exact ⟨d, List.mem_cons_of_mem _ hd, hs⟩

theorem fulfillSolve_spec (hrec : RecSpec sem rank cfg D rec) (alt : List Nat) (m : Min) (s : St)
    (hi : Inv sem s) (hrk : ∀ c, c ∈ alt → ∀ n, n ∈ s.graph → rank c < rank n.goal) :
    (fulfillSolve cfg rec alt m s).sat
      (fun r s' => Post sem s s' ∧ r.2 = m ∧ Approx s'.interrupted r.1 (altVal (alt.map sem)))
      (PanicOK sem cfg (∀ c, c ∈ alt → Fits rank cfg D s.stack.length c)) := by
  have hrk' : ∀ c, c ∈ alt.reverse → ∀ n, n ∈ s.graph → rank c < rank n.goal :=
    fun c hc => hrk c (List.mem_reverse.mp hc)
  have h1 := fulfillRound_spec hrec alt.reverse [] m s hi hrk'
  unfold fulfillSolve
  cases hr : fulfillRound rec alt.reverse [] m s with
  | panic site s' =>
    rw [hr] at h1
    simp only [Res.sat_panic] at h1 ⊢
    exact h1.mono (fun hf c hc => hf c (List.mem_reverse.mp hc))
  | ok r s1 =>
    rw [hr] at h1
    obtain ⟨o, m'⟩ := r
    simp only [Res.sat_ok] at h1
    obtain ⟨hp, hm, ho⟩ := h1
    subst hm
    cases o with
    | none =>
      simp only [Res.sat_ok]
      obtain ⟨c, hc, hs⟩ := ho
      refine ⟨hp, trivial, ?_⟩
      rw [altVal_noSolution ⟨c, List.mem_reverse.mp hc, hs⟩]
      exact Approx.refl _ _
    | some ret =>
      obtain ⟨h1, h2, _⟩ := ho
      cases ret with
      | nil =>
        simp only [Res.sat_ok]
        refine ⟨hp, trivial, ?_⟩
        have : ∀ c, c ∈ alt → sem c = .unique := by
          intro c hc
          cases h1 c (List.mem_reverse.mpr hc) with
          | inl e => exact e
          | inr e => cases e.1
        rw [altVal_unique this]
        exact Approx.refl _ _
      | cons r0 rs =>
        simp only []
        have hi1 := hp.inv hi
        have hsub : ∀ c, c ∈ (r0 :: rs).reverse → c ∈ alt := by
          intro c hc
          cases h2 c (List.mem_reverse.mp hc) with
          | inl e => cases e
          | inr e => exact List.mem_reverse.mp e.1
        have hrk1 : ∀ c, c ∈ (r0 :: rs).reverse → ∀ n, n ∈ s1.graph → rank c < rank n.goal := by
          intro c hc n hn; rw [hp.graph] at hn; exact hrk c (hsub c hc) n hn
        have h3 := suggestPass_spec (cfg := cfg) hrec (r0 :: rs).reverse m' s1 hi1 hrk1
        cases hr2 : suggestPass cfg rec (r0 :: rs).reverse m' s1 with
        | panic site s' =>
          rw [hr2] at h3
          simp only [Res.sat_panic] at h3 ⊢
          exact h3.mono (fun hf c hc => by rw [hp.stack]; exact hf c (hsub c hc))
        | ok r2 s2 =>
          rw [hr2] at h3
          obtain ⟨v2, m2⟩ := r2
          simp only [Res.sat_ok] at h3 ⊢
          obtain ⟨hp2, hm2, hne, hno⟩ := h3
          refine ⟨hp.trans hp2, hm2, ?_⟩
          cases v2 with
          | unique => exact absurd rfl hne
          | noSolution =>
            obtain ⟨d, hd, hs⟩ := hno rfl
            rw [altVal_noSolution ⟨d, hsub d hd, hs⟩]
            exact Approx.refl _ _
          | ambig =>
            cases hb : s2.interrupted with
            | true => exact Or.inr ⟨rfl, rfl⟩
            | false =>
              -- nothing was interrupted: every value seen is exact
              have hb1 : s1.interrupted = false := by
                cases h : s1.interrupted with
                | false => rfl
                | true => rw [hp2.intr h] at hb; cases hb
              left
              symm
              apply altVal_ambig
              · intro c hc
                cases h1 c (List.mem_reverse.mpr hc) with
                | inl e => exact Or.inl e
                | inr e =>
                  right
                  have := e.2
                  rw [hb1] at this
                  exact this.exact.symm
              · refine ⟨r0, hsub r0 (List.mem_reverse.mpr (List.mem_cons_self ..)), ?_⟩
                cases h2 r0 (List.mem_cons_self ..) with
                | inl e => cases e
                | inr e =>
                  have := e.2
                  rw [hb1] at this
                  exact this.exact.symm

theorem solveFromClauses_cons (cfg : Cfg) (rec : SubSolver) (ground : Bool) (alt : List Nat)
    (rest : List (List Nat)) (cur : Option V) (m : Min) (s : St) :
    solveFromClauses cfg rec ground (alt :: rest) cur m s =
      match fulfillSolve cfg rec alt m s with
      | .panic site s' => .panic site s'
      | .ok (r, m') s' =>
        match stepCur ground r cur with
        | some c =>
          if trivialTrue ground c then .ok (c, m') s'
          else solveFromClauses cfg rec ground rest (some c) m' s'
        | none => solveFromClauses cfg rec ground rest none m' s' := by
  simp only [solveFromClauses]
  cases fulfillSolve cfg rec alt m s with
  | panic site s' => rfl
  | ok r s' =>
    obtain ⟨v, m'⟩ := r
    cases v <;> cases cur <;> simp [stepCur]

theorem solveFromClauses_spec (hrec : RecSpec sem rank cfg D rec) (ground : Bool) :
    ∀ (alts : List (List Nat)) (cur : Option V) (m : Min) (s : St), Inv sem s →
      (∀ alt, alt ∈ alts → ∀ c, c ∈ alt → ∀ n, n ∈ s.graph → rank c < rank n.goal) →
      (solveFromClauses cfg rec ground alts cur m s).sat
        (fun r s' => Post sem s s' ∧ r.2 = m ∧
          ∃ rs', ApproxL s'.interrupted rs' (alts.map (fun alt => altVal (alt.map sem))) ∧
            r.1 = clauseVal ground rs' cur)
        (PanicOK sem cfg (∀ alt, alt ∈ alts → ∀ c, c ∈ alt → Fits rank cfg D s.stack.length c))
  | [], cur, m, s, hi, _ => by
    simp only [solveFromClauses, Res.sat_ok]
    exact ⟨Post.refl hi.cache, trivial, [], trivial, rfl⟩
  | alt :: rest, cur, m, s, hi, hrk => by
    have h1 := fulfillSolve_spec (cfg := cfg) hrec alt m s hi (hrk alt (List.mem_cons_self ..))
    rw [solveFromClauses_cons]
    cases hr : fulfillSolve cfg rec alt m s with
    | panic site s' =>
      rw [hr] at h1
      simp only [Res.sat_panic] at h1 ⊢
      exact h1.mono (fun hf => hf alt (List.mem_cons_self ..))
    | ok r s1 =>
      rw [hr] at h1
      obtain ⟨v, m'⟩ := r
      simp only [Res.sat_ok] at h1
      obtain ⟨hp, hm, ha⟩ := h1
      subst hm
      have hi1 := hp.inv hi
      have hrk1 : ∀ alt', alt' ∈ rest → ∀ c, c ∈ alt' → ∀ n, n ∈ s1.graph → rank c < rank n.goal := by
        intro alt' ha' c hc n hn; rw [hp.graph] at hn
        exact hrk alt' (List.mem_cons_of_mem _ ha') c hc n hn
      simp only []
      have ih := solveFromClauses_spec hrec ground rest (stepCur ground v cur) m' s1 hi1 hrk1
      cases hsc : stepCur ground v cur with
      | none =>
        simp only []
        rw [hsc] at ih
        cases hr2 : solveFromClauses cfg rec ground rest none m' s1 with
        | panic site s' =>
          rw [hr2] at ih
          simp only [Res.sat_panic] at ih ⊢
          exact ih.mono (fun hf a ha => by rw [hp.stack]; exact hf a (List.mem_cons_of_mem _ ha))
        | ok r2 s2 =>
          rw [hr2] at ih
          obtain ⟨v2, m2⟩ := r2
          simp only [Res.sat_ok] at ih ⊢
          obtain ⟨hp2, hm2, rs', hal, hv⟩ := ih
          refine ⟨hp.trans hp2, hm2, v :: rs', ⟨ha.mono hp2.intr, hal⟩, ?_⟩
          rw [clauseVal_cons, hsc]
          exact hv
      | some c =>
        simp only []
        by_cases ht : trivialTrue ground c = true
        · simp only [ht, if_true, Res.sat_ok]
          refine ⟨hp, trivial, v :: rest.map (fun alt => altVal (alt.map sem)), ⟨ha, ApproxL.refl _ _⟩, ?_⟩
          rw [clauseVal_cons, hsc]
          simp [ht]
        · simp only [ht]
          rw [hsc] at ih
          cases hr2 : solveFromClauses cfg rec ground rest (some c) m' s1 with
          | panic site s' =>
          rw [hr2] at ih
          simp only [Res.sat_panic] at ih ⊢
          exact ih.mono (fun hf a ha => by rw [hp.stack]; exact hf a (List.mem_cons_of_mem _ ha))
          | ok r2 s2 =>
            rw [hr2] at ih
            obtain ⟨v2, m2⟩ := r2
            simp only [Res.sat_ok] at ih ⊢
            obtain ⟨hp2, hm2, rs', hal, hv⟩ := ih
            refine ⟨hp.trans hp2, hm2, v :: rs', ⟨ha.mono hp2.intr, hal⟩, ?_⟩
            rw [clauseVal_cons, hsc]
            simp only [ht]
            exact hv

/-! ### list bookkeeping -/

theorem lookupFrom_none (g : Nat) : ∀ (ns : List Node) (i : Nat),
    (∀ n, n ∈ ns → n.goal ≠ g) → lookupFrom g ns i = none
  | [], _, _ => rfl
  | n :: ns, i, h => by
    have h1 : n.goal ≠ g := h n (List.mem_cons_self ..)
    simp only [lookupFrom, h1, if_false]
    exact lookupFrom_none g ns (i + 1) (fun n' hn' => h n' (List.mem_cons_of_mem _ hn'))

theorem updateNode_last (f : Node → Node) : ∀ (l : List Node) (n : Node),
    updateNode f l.length (l ++ [n]) = l ++ [f n]
  | [], n => rfl
  | a :: l, n => by
    simp only [List.length_cons, List.cons_append, updateNode]
    rw [updateNode_last f l n]

theorem getElem?_last {α : Type} (l : List α) (a : α) : (l ++ [a])[l.length]? = some a := by
  simp

theorem tick_state (cfg : Cfg) (s : St) : (tick cfg s).state = { s with work := s.work + 1 } := by
  unfold tick
  cases cfg.budget with
  | none => rfl
  | some b =>
    simp only []
    split <;> rfl

theorem tick_ok (cfg : Cfg) (s s0 : St) (h : tick cfg s = .ok () s0) : s0 = { s with work := s.work + 1 } := by
  have := tick_state cfg s
  rw [h] at this
  exact this

theorem tick_panic (cfg : Cfg) (s s0 : St) (site : Site) (h : tick cfg s = .panic site s0) :
    s0 = { s with work := s.work + 1 } := by
  have := tick_state cfg s
  rw [h] at this
  exact this

theorem tick_panic_budget (cfg : Cfg) (s s0 : St) (site : Site) (h : tick cfg s = .panic site s0) :
    site = .budget ∧ cfg.budget ≠ none := by
  unfold tick at h
  cases hb : cfg.budget with
  | none => rw [hb] at h; cases h
  | some b =>
    rw [hb] at h
    simp only at h
    split at h
    · cases h; exact ⟨rfl, by simp⟩
    · cases h

theorem cacheGet_insert (c : List (Nat × V)) (g : Nat) (v : V) (k : Nat) :
    cacheGet (cacheInsert c g v) k = if g = k then some v else cacheGet c k := by
  unfold cacheInsert
  simp only [cacheGet]
  by_cases h : g = k
  · simp [h]
  · simp only [h, if_false]
    induction c with
    | nil => rfl
    | cons kv rest ih =>
      obtain ⟨k', v'⟩ := kv
      by_cases h' : k' = g
      · subst h'
        simp only [List.filter, bne_self_eq_false, cacheGet, h, if_false]
        exact ih
      · have : (k' != g) = true := by simp [h']
        simp only [List.filter, this, cacheGet]
        by_cases h'' : k' = k
        · simp [h'']
        · simp only [h'', if_false]; exact ih

section Main
variable {inst : Instance} {cfg : Cfg} {sem : Nat → V} {rank : Nat → Nat} {D : Nat}

/-- every sub-goal of `g` fits at depth `L` -/
def SubFits (inst : Instance) (rank : Nat → Nat) (cfg : Cfg) (D L g : Nat) : Prop :=
  ∀ alt, alt ∈ inst.deps g → ∀ c, c ∈ alt → Fits rank cfg D L c

theorem solveIteration_spec {rec : SubSolver} (hfix : cfg.fixF3 = true) (hsem : IsSem inst sem)
    (hrank : Ranked inst rank) (hrec : RecSpec sem rank cfg D rec) (g : Nat) (m : Min) (s : St)
    (hi : Inv sem s) (hrk : ∀ n, n ∈ s.graph → rank g ≤ rank n.goal) :
    (solveIteration inst cfg rec g m s).sat
      (fun r s' => Post sem s s' ∧ r.2 = m ∧ Approx s'.interrupted r.1 (sem g))
      (PanicOK sem cfg (SubFits inst rank cfg D s.stack.length g)) := by
  unfold solveIteration
  have hsc : (shouldContinue s).2.stack = s.stack ∧ (shouldContinue s).2.graph = s.graph ∧
      (shouldContinue s).2.cache = s.cache ∧ (shouldContinue s).2.interrupted = s.interrupted ∧
      (Quiet s → (shouldContinue s).1 = true ∧ Quiet (shouldContinue s).2) := by
    unfold shouldContinue
    cases ho : s.oracle with
    | nil => exact ⟨rfl, rfl, rfl, rfl, fun q => ⟨q.1, q⟩⟩
    | cons b rest =>
      refine ⟨rfl, rfl, rfl, rfl, fun q => ⟨q.2 b (by rw [ho]; exact List.mem_cons_self ..), q.1, ?_⟩⟩
      intro b' hb'
      exact q.2 b' (by rw [ho]; exact List.mem_cons_of_mem _ hb')
  cases hb : shouldContinue s with
  | mk b s1 =>
    rw [hb] at hsc
    obtain ⟨e1, e2, e3, e4, e5⟩ := hsc
    simp only at e1 e2 e3 e4 e5
    cases b with
    | false =>
      simp only [hfix, if_true, Res.sat_ok]
      refine ⟨Post.of_eq hi.cache e1 e2 e3 (fun _ => rfl) (fun q => by cases (e5 q).1), trivial,
        Or.inr ⟨rfl, rfl⟩⟩
    | true =>
      simp only []
      have hi1 : Inv sem s1 := hi.of_eq e1 e2 e3
      have hrk1 : ∀ alt, alt ∈ inst.deps g → ∀ c, c ∈ alt → ∀ n, n ∈ s1.graph → rank c < rank n.goal := by
        intro alt ha c hc n hn
        rw [e2] at hn
        exact Nat.lt_of_lt_of_le (hrank g alt ha c hc) (hrk n hn)
      have h1 := solveFromClauses_spec (cfg := cfg) hrec (inst.ground g) (inst.deps g) none m s1 hi1 hrk1
      cases hr : solveFromClauses cfg rec (inst.ground g) (inst.deps g) none m s1 with
      | panic site s' =>
        rw [hr] at h1
        simp only [Res.sat_panic] at h1 ⊢
        exact h1.mono (fun hf alt ha c hc => by rw [e1]; exact hf alt ha c hc)
      | ok r s2 =>
        rw [hr] at h1
        obtain ⟨v, m'⟩ := r
        simp only [Res.sat_ok] at h1 ⊢
        obtain ⟨hp, hm, rs', hal, hv⟩ := h1
        have hq1 : QuietStep s s1 := fun q => ⟨(e5 q).2, fun h => by rw [e4]; exact h⟩
        have hp' : Post sem s s2 :=
          ⟨hp.stack.trans e1, hp.graph.trans e2, hp.cache, by rw [hp.cacheOn, e3],
           fun e => hp.intr (by rw [e4]; exact e), hq1.trans hp.quiet⟩
        refine ⟨hp', hm, ?_⟩
        rw [hv, hsem g]
        exact clauseVal_approx _ _ _ _ _ _ hal trivial

/-- the loop of `solve_new_subgoal` on a ranked instance: one round, no cycle -/
theorem solveNewSubgoal_spec {rec : SubSolver} (hfix : cfg.fixF3 = true) (hsem : IsSem inst sem)
    (hrank : Ranked inst rank) (hrec : RecSpec sem rank cfg D rec) (g : Nat) (s : St)
    (S : List StackEntry) (e : StackEntry) (G : List Node) (nd : Node)
    (hs : s.stack = S ++ [e]) (hg : s.graph = G ++ [nd])
    (hi : Inv sem s) (hrk : ∀ n, n ∈ s.graph → rank g ≤ rank n.goal) :
    (solveNewSubgoal inst cfg rec g S.length G.length cfg.rounds s).sat
      (fun sub s' => sub = none ∧ s'.stack = s.stack ∧ CacheSound sem s' ∧
        s'.cache.isSome = s.cache.isSome ∧ (s.interrupted = true → s'.interrupted = true) ∧
        QuietStep s s' ∧
        ∃ v, s'.graph = G ++ [{ nd with solution := v }] ∧ Approx s'.interrupted v (sem g))
      (PanicOK sem cfg (SubFits inst rank cfg D s.stack.length g)) := by
  cases hr0 : cfg.rounds with
  | zero => simp only [solveNewSubgoal, Res.sat_panic]; exact ⟨hi.cache, hr0⟩
  | succ r =>
    simp only [solveNewSubgoal]
    cases ht : tick cfg s with
    | panic site s0 =>
      simp only [Res.sat_panic]
      obtain ⟨hsite, hbud⟩ := tick_panic_budget cfg s s0 site ht
      subst hsite
      rw [tick_panic cfg s s0 .budget ht]
      exact ⟨hi.cache.of_eq rfl, hbud⟩
    | ok u s0 =>
      have e0 := tick_ok cfg s s0 ht
      have hi0 : Inv sem s0 := by rw [e0]; exact hi.of_eq rfl rfl rfl
      have hq0 : QuietStep s s0 := by rw [e0]; exact QuietStep.of_eq rfl rfl rfl
      have hrk0 : ∀ n, n ∈ s0.graph → rank g ≤ rank n.goal := by rw [e0]; exact hrk
      have h1 := solveIteration_spec hfix hsem hrank hrec g none s0 hi0 hrk0
      simp only []
      cases hr : solveIteration inst cfg rec g none s0 with
      | panic site s' =>
        rw [hr] at h1
        simp only [Res.sat_panic] at h1 ⊢
        exact h1.mono (fun hf => by rw [e0]; exact hf)
      | ok r1 s1 =>
        rw [hr] at h1
        obtain ⟨cur, m⟩ := r1
        simp only [Res.sat_ok] at h1
        obtain ⟨hp, hm, ha⟩ := h1
        subst hm
        have hst : s1.stack = S ++ [e] := by rw [hp.stack, e0]; exact hs
        have hgr : s1.graph = G ++ [nd] := by rw [hp.graph, e0]; exact hg
        have hec : e.cycle = false := hi.flags e (by rw [hs]; simp)
        simp only [hst, hgr, getElem?_last, hec]
        simp only [Bool.not_false, if_true, Res.sat_ok]
        refine ⟨trivial, ?_, hp.cache, ?_, ?_, ?_, cur, ?_, ha⟩
        · rw [hs]
        · rw [hp.cacheOn, e0]
        · intro h; apply hp.intr; rw [e0]; exact h
        · exact hq0.trans (hp.quiet.trans (QuietStep.of_eq rfl rfl rfl))
        · simp only [updateNode_last]

theorem solveGoal_spec (hfix : cfg.fixF3 = true) (hsem : IsSem inst sem) (hrank : Ranked inst rank) :
    ∀ d, RecSpec sem rank cfg d (solveGoal inst cfg d)
  | 0 => by
    intro c m s hi _
    simp only [solveGoal, Res.sat_panic]
    exact ⟨hi.cache, fun hf => Nat.not_lt_zero _ hf.1⟩
  | d + 1 => by
    intro g m s hi hrk
    have ih := solveGoal_spec hfix hsem hrank d
    simp only [solveGoal]
    split
    · -- tick panics
      rename_i site s0 ht
      simp only [Res.sat_panic]
      obtain ⟨hsite, hbud⟩ := tick_panic_budget cfg s s0 site ht
      subst hsite
      rw [tick_panic cfg s s0 .budget ht]
      exact ⟨hi.cache.of_eq rfl, hbud⟩
    · rename_i s0 ht
      have e0 := tick_ok cfg s s0 ht
      have hi0 : Inv sem s0 := by rw [e0]; exact hi.of_eq rfl rfl rfl
      have hp0 : Post sem s s0 := by
        rw [e0]; exact Post.of_eq hi.cache rfl rfl rfl id (QuietStep.of_eq rfl rfl rfl)
      split
      · -- cache hit
        rename_i v hc
        simp only [Res.sat_ok]
        refine ⟨hp0, trivial, Or.inl ?_⟩
        cases hcc : s0.cache with
        | none => rw [hcc] at hc; cases hc
        | some c =>
          rw [hcc] at hc
          exact hi0.cache c hcc g v hc
      · split
        · -- the goal cannot be in the search graph: all goals there have a larger rank
          rename_i dfn hl
          exfalso
          have : lookup s0.graph g = none := by
            unfold lookup
            apply lookupFrom_none
            intro n hn e
            have := hrk n (by rw [e0] at hn; exact hn)
            rw [e] at this
            exact Nat.lt_irrefl _ this
          rw [this] at hl
          cases hl
        · -- new sub-goal
          unfold push
          by_cases hov : cfg.overflowDepth ≤ s0.stack.length
          · simp only [hov, if_true, Res.sat_panic]
            refine ⟨hi0.cache, fun hf => ?_⟩
            have : s0.stack.length = s.stack.length := by rw [e0]
            have h2 := hf.2
            omega
          · simp only [hov, if_false]
            -- the context while the new goal is being solved
            have hi2 : Inv sem
                { s0 with
                  stack := s0.stack ++ [{ coinductiveGoal := inst.coind g, cycle := false }],
                  graph := s0.graph ++ [{ goal := g, solution := initialValue (inst.coind g),
                                          stackDepth := some s0.stack.length, links := some s0.graph.length }] } := by
              refine ⟨?_, ?_, hi0.cache.of_eq rfl⟩
              · simp only [List.length_append, List.length_singleton, hi0.len]
              · intro e he
                cases List.mem_append.mp he with
                | inl h => exact hi0.flags e h
                | inr h => rw [List.mem_singleton.mp h]
            have hrk2 : ∀ n, n ∈ s0.graph ++ [(⟨g, initialValue (inst.coind g),
                  some s0.stack.length, some s0.graph.length⟩ : Node)] →
                rank g ≤ rank n.goal := by
              intro n hn
              cases List.mem_append.mp hn with
              | inl h => exact Nat.le_of_lt (hrk n (by rw [e0] at h; exact h))
              | inr h => rw [List.mem_singleton.mp h]; exact Nat.le_refl _
            have h1 := solveNewSubgoal_spec hfix hsem hrank ih g _ s0.stack _ s0.graph _ rfl rfl hi2 hrk2
            cases hr : solveNewSubgoal inst cfg (solveGoal inst cfg d) g s0.stack.length s0.graph.length cfg.rounds
                { s0 with
                  stack := s0.stack ++ [{ coinductiveGoal := inst.coind g, cycle := false }],
                  graph := s0.graph ++ [{ goal := g, solution := initialValue (inst.coind g),
                                          stackDepth := some s0.stack.length, links := some s0.graph.length }] } with
            | panic site s' =>
              rw [hr] at h1
              simp only [Res.sat_panic] at h1 ⊢
              refine h1.mono (fun hf alt ha c hc => ?_)
              have hlt := hrank g alt ha c hc
              have hl : s0.stack.length = s.stack.length := by rw [e0]
              simp only [List.length_append, List.length_singleton, hl]
              exact ⟨by have := hf.1; omega, by have := hf.2; omega⟩
            | ok sub s3 =>
              rw [hr] at h1
              simp only [Res.sat_ok] at h1
              obtain ⟨hsub, hst3, hc3, hco3, hin3, hq3, v, hg3, ha3⟩ := h1
              subst hsub
              simp only [hg3, updateNode_last, pop, hst3, List.length_append, List.length_singleton, if_true,
                List.dropLast_concat, getElem?_last, Min.ge]
              have hm : Min.updateFrom m none = m := by cases m <;> rfl
              have hs0 : s0.stack = s.stack ∧ s0.graph = s.graph ∧ s0.cache = s.cache ∧
                  s0.interrupted = s.interrupted := by rw [e0]; exact ⟨rfl, rfl, rfl, rfl⟩
              have hintr : s.interrupted = true → s3.interrupted = true := by
                intro h; apply hin3; rw [hs0.2.2.2]; exact h
              have hcon : s3.cache.isSome = s.cache.isSome := by rw [hco3, hs0.2.2.1]
              have hq : QuietStep s s3 :=
                hp0.quiet.trans ((QuietStep.of_eq rfl rfl rfl).trans hq3)
              rw [hm]
              cases hc : s3.cache with
              | none =>
                simp only [Res.sat_ok, rollbackTo, List.take_left']
                refine ⟨⟨hs0.1, hs0.2.1, ?_, ?_, hintr, hq.trans (QuietStep.of_eq rfl rfl rfl)⟩, trivial, ha3⟩
                · intro c h; simp only [hc] at h; cases h
                · simp only [hc] at hcon ⊢; exact hcon
              | some c =>
                simp only []
                by_cases hint : s3.interrupted = true
                · simp only [hfix, hint, Bool.and_self, if_true, Res.sat_ok, rollbackTo, List.take_left']
                  refine ⟨⟨hs0.1, hs0.2.1, ?_, ?_, fun _ => rfl,
                    hq.trans (QuietStep.of_eq rfl rfl (by simp only [hint]))⟩, trivial, ?_⟩
                  · intro c' h k v' hk; exact hc3 c' (by rw [hc]; exact h) k v' hk
                  · simp only [hc] at hcon ⊢; exact hcon
                  · rw [hint] at ha3; exact ha3
                · have hint' : s3.interrupted = false := by
                    cases h : s3.interrupted with
                    | false => rfl
                    | true => exact absurd h hint
                  have hv : v = sem g := by rw [hint'] at ha3; exact ha3.exact
                  simp only [hfix, hint', Bool.and_false, Bool.false_eq_true, if_false, moveToCache,
                    List.drop_left', drainToCache, Option.isSome_none, Min.ge, Bool.not_true,
                    List.take_left', Res.sat_ok]
                  refine ⟨⟨hs0.1, hs0.2.1, ?_, ?_, fun h => by rw [hint'] at hintr; exact hintr h,
                    hq.trans (QuietStep.of_eq rfl rfl (by simp only [hint']))⟩, trivial, Or.inl hv⟩
                  · intro c' h k v' hk
                    simp only [Option.some.injEq] at h
                    subst h
                    rw [cacheGet_insert] at hk
                    by_cases hgk : g = k
                    · simp only [hgk, if_true, Option.some.injEq] at hk
                      rw [← hk, ← hgk]; exact hv
                    · simp only [hgk, if_false] at hk
                      exact hc3 c hc k v' hk
                  · simp only [hc] at hcon; simp only [Option.isSome_some]; exact hcon

/-- `solve_root_goal` of the repaired code on a ranked instance, from any context whose cache is
    sound (in particular the one a panic left behind) -/
theorem solveRootGoal_spec (h3 : cfg.fixF3 = true) (h7 : cfg.fixF7 = true) (hsem : IsSem inst sem)
    (hrank : Ranked inst rank) (g : Nat) (s : St) (hc : CacheSound sem s) :
    (solveRootGoal inst cfg g s).sat
      (fun v s' => s'.stack = [] ∧ s'.graph = [] ∧ CacheSound sem s' ∧
        s'.cache.isSome = s.cache.isSome ∧ Approx s'.interrupted v (sem g) ∧
        (Quiet s → s'.interrupted = false))
      (PanicOK sem cfg (rank g < cfg.overflowDepth)) := by
  unfold solveRootGoal
  simp only [h7, h3, Bool.not_true, Bool.false_and, Bool.false_eq_true, if_false, if_true]
  have hi : Inv sem { s with stack := [], graph := [], interrupted := false } :=
    ⟨rfl, fun e he => (by cases he), hc.of_eq rfl⟩
  have h1 := solveGoal_spec h3 hsem hrank (cfg.overflowDepth + 1) g none _ hi (fun n hn => by cases hn)
  cases hr : solveGoal inst cfg (cfg.overflowDepth + 1) g none
      { s with stack := [], graph := [], interrupted := false } with
  | panic site s' =>
    rw [hr] at h1
    simp only [Res.sat_panic] at h1 ⊢
    exact h1.mono (fun hf => ⟨Nat.lt_succ_of_lt hf, by simpa using hf⟩)
  | ok r s' =>
    rw [hr] at h1
    obtain ⟨v, m⟩ := r
    simp only [Res.sat_ok] at h1 ⊢
    obtain ⟨hp, _, ha⟩ := h1
    refine ⟨hp.stack, hp.graph, hp.cache, hp.cacheOn, ha, fun q => ?_⟩
    exact (hp.quiet q).2 rfl

end Main

end Spec

/-! ### histories of calls on one solver instance -/

section History
variable {inst : Instance} {cfg : Cfg} {sem : Nat → V} {rank : Nat → Nat}

/-- the callback of this call never says "stop" -/
def Call.Uninterrupted (c : Call) : Prop := c.dflt = true ∧ ∀ b, b ∈ c.oracle → b = true

theorem runCall_spec (h3 : cfg.fixF3 = true) (h7 : cfg.fixF7 = true) (hsem : IsSem inst sem)
    (hrank : Ranked inst rank) (c : Call) (s : St) (hc : CacheSound sem s) :
    (runCall inst cfg c s).sat
      (fun v s' => CacheSound sem s' ∧ s'.cache.isSome = s.cache.isSome ∧
        Approx s'.interrupted v (sem c.goal) ∧ (c.Uninterrupted → v = sem c.goal))
      (PanicOK sem { cfg with budget := c.budget } (rank c.goal < cfg.overflowDepth)) := by
  unfold runCall
  have h1 := solveRootGoal_spec (cfg := { cfg with budget := c.budget }) (inst := inst) (rank := rank)
    h3 h7 hsem hrank c.goal { s with oracle := c.oracle, oracleDefault := c.dflt, work := 0 } (hc.of_eq rfl)
  cases hr : solveRootGoal inst { cfg with budget := c.budget } c.goal
      { s with oracle := c.oracle, oracleDefault := c.dflt, work := 0 } with
  | panic site s' => rw [hr] at h1; simpa using h1
  | ok v s' =>
    rw [hr] at h1
    simp only [Res.sat_ok] at h1 ⊢
    obtain ⟨_, _, hcs, hco, ha, hq⟩ := h1
    refine ⟨hcs, hco, ha, fun hu => ?_⟩
    have : s'.interrupted = false := hq hu
    rw [this] at ha
    exact ha.exact

/-- whatever happened before (answers, interruptions, panics), the cache stays sound -/
theorem runHistory_sound (h3 : cfg.fixF3 = true) (h7 : cfg.fixF7 = true) (hsem : IsSem inst sem)
    (hrank : Ranked inst rank) : ∀ (h : List Call) (s : St), CacheSound sem s →
      CacheSound sem (runHistory inst cfg h s)
  | [], _, hc => hc
  | c :: cs, s, hc => by
    simp only [runHistory]
    apply runHistory_sound h3 h7 hsem hrank cs
    have h1 := runCall_spec h3 h7 hsem hrank c s hc
    cases hr : runCall inst cfg c s with
    | panic site s' => rw [hr] at h1; simp only [Res.sat_panic] at h1; simpa [Res.state] using h1.1
    | ok v s' => rw [hr] at h1; simp only [Res.sat_ok] at h1; simpa [Res.state] using h1.1

theorem fresh_sound (sem : Nat → V) (caching : Bool) : CacheSound sem (St.fresh caching) := by
  intro c hc k v hk
  cases caching with
  | false => cases hc
  | true =>
    simp only [St.fresh, if_true, Option.some.injEq] at hc
    subst hc
    cases hk

/-- any call on a solver with any history: the answer is the semantic value, or `ambig` -/
theorem history_answer (h3 : cfg.fixF3 = true) (h7 : cfg.fixF7 = true) (hsem : IsSem inst sem)
    (hrank : Ranked inst rank) (h : List Call) (caching : Bool) (c : Call) (v : V)
    (hv : (runCall inst cfg c (runHistory inst cfg h (St.fresh caching))).outcome = .value v) :
    (v = sem c.goal ∨ v = .ambig) ∧ (c.Uninterrupted → v = sem c.goal) := by
  have hs := runHistory_sound h3 h7 hsem hrank h (St.fresh caching) (fresh_sound sem caching)
  have h1 := runCall_spec h3 h7 hsem hrank c _ hs
  cases hr : runCall inst cfg c (runHistory inst cfg h (St.fresh caching)) with
  | panic site s' => rw [hr] at hv; cases hv
  | ok v' s' =>
    rw [hr] at h1 hv
    simp only [Res.sat_ok] at h1
    simp only [Res.outcome, Outcome.value.injEq] at hv
    subst hv
    refine ⟨?_, h1.2.2.2⟩
    cases h1.2.2.1 with
    | inl e => exact Or.inl e
    | inr e => exact Or.inr e.2

/-- TOTALITY on ranked instances: a call without work budget on a solver with any history
    returns a value — no assert of the framework fires, the loop of `solve_new_subgoal` runs one
    round per goal — provided the goal's rank fits under the overflow depth (and at least one
    round of loop fuel, and the F16 repair: the legacy `unwrap` can still fire under a
    non-monotone callback) -/
theorem history_call_returns (h3 : cfg.fixF3 = true) (h7 : cfg.fixF7 = true) (h16 : cfg.fixF16 = true)
    (hr : 1 ≤ cfg.rounds) (hsem : IsSem inst sem) (hrank : Ranked inst rank) (h : List Call)
    (caching : Bool) (c : Call) (hb : c.budget = none) (hfit : rank c.goal < cfg.overflowDepth) :
    ∃ v, (runCall inst cfg c (runHistory inst cfg h (St.fresh caching))).outcome = .value v := by
  have hs := runHistory_sound h3 h7 hsem hrank h (St.fresh caching) (fresh_sound sem caching)
  have h1 := runCall_spec h3 h7 hsem hrank c _ hs
  cases hr' : runCall inst cfg c (runHistory inst cfg h (St.fresh caching)) with
  | ok v s' => exact ⟨v, rfl⟩
  | panic site s' =>
    rw [hr'] at h1
    simp only [Res.sat_panic] at h1
    have h2 := h1.2
    exfalso
    cases site <;> simp_all

end History

/-! ### the semantic value of a ranked instance exists -/

/-- values by `fuel` unfoldings of the equations -/
def semFuel (inst : Instance) : Nat → Nat → V
  | 0, _ => .noSolution
  | f + 1, g => clauseVal (inst.ground g) ((inst.deps g).map (fun alt => altVal (alt.map (semFuel inst f)))) none

theorem map_congr_mem {α β : Type} (f f' : α → β) : ∀ (l : List α), (∀ a, a ∈ l → f a = f' a) → l.map f = l.map f'
  | [], _ => rfl
  | a :: l, h => by
    simp only [List.map]
    rw [h a (List.mem_cons_self ..), map_congr_mem f f' l (fun a' ha' => h a' (List.mem_cons_of_mem _ ha'))]

theorem semFuel_stable (inst : Instance) (rank : Nat → Nat) (hrank : Ranked inst rank) :
    ∀ (n g f : Nat), rank g < n → rank g < f → semFuel inst f g = semFuel inst (rank g + 1) g
  | 0, _, _, h, _ => by cases h
  | n + 1, g, f, hn, hf => by
    cases f with
    | zero => cases hf
    | succ f =>
      simp only [semFuel]
      congr 1
      apply map_congr_mem
      intro alt halt
      congr 1
      apply map_congr_mem
      intro c hc
      have hlt := hrank g alt halt c hc
      have hcn : rank c < n := Nat.lt_of_lt_of_le hlt (Nat.le_of_lt_succ hn)
      rw [semFuel_stable inst rank hrank n c f hcn (Nat.lt_of_lt_of_le hlt (Nat.le_of_lt_succ hf)),
        semFuel_stable inst rank hrank n c (rank g) hcn hlt]

/-- the semantic value of a ranked instance -/
def semOf (inst : Instance) (rank : Nat → Nat) (g : Nat) : V := semFuel inst (rank g + 1) g

theorem semOf_isSem (inst : Instance) (rank : Nat → Nat) (hrank : Ranked inst rank) :
    IsSem inst (semOf inst rank) := by
  intro g
  simp only [semOf, semFuel]
  congr 1
  apply map_congr_mem
  intro alt halt
  congr 1
  apply map_congr_mem
  intro c hc
  have hlt := hrank g alt halt c hc
  exact semFuel_stable inst rank hrank (rank g) c (rank g) hlt hlt

/-- decidable acyclicity check for an instance given as a table -/
def rankedB (t : List (Bool × Bool × List (List Nat))) (rank : Nat → Nat) : Bool :=
  (List.range t.length).all (fun g =>
    match t[g]? with
    | some (_, _, alts) => alts.all (fun alt => alt.all (fun c => decide (rank c < rank g)))
    | none => true)

theorem ranked_of_table (t : List (Bool × Bool × List (List Nat))) (rank : Nat → Nat)
    (h : rankedB t rank = true) : Ranked (Instance.ofTable t) rank := by
  intro g alt halt c hc
  simp only [Instance.ofTable] at halt
  cases hg : t[g]? with
  | none => rw [hg] at halt; cases halt
  | some e =>
    obtain ⟨co, gr, alts⟩ := e
    rw [hg] at halt
    simp only at halt
    have hlt : g < t.length := by
      rcases Nat.lt_or_ge g t.length with h' | h'
      · exact h'
      · rw [List.getElem?_eq_none h'] at hg; cases hg
    unfold rankedB at h
    rw [List.all_eq_true] at h
    have := h g (List.mem_range.mpr hlt)
    rw [hg] at this
    simp only [List.all_eq_true, decide_eq_true_eq] at this
    exact this alt halt c hc

end Chalk.FixedPoint
