import ChalkModel.Lemmas.FoldLemmas

namespace Chalk

/-! ### shifting in by `k` and out again by `k` is the identity -/

theorem foldLifetime_shift_out_in (k outer : Nat) (l : Lifetime) :
    ∃ l', foldLifetime (shifter k) outer l = .ok l' ∧ foldLifetime (downShifter k) outer l' = .ok l := by
  cases l <;> simp [foldLifetime, shifter, downShifter]
  case bound db idx =>
    by_cases h : outer ≤ db
    · simp [h]
    · simp [h]

mutual
  theorem foldTy_shift_out_in (k outer : Nat) : (t : Ty) →
      ∃ t', foldTy (shifter k) outer t = .ok t' ∧ foldTy (downShifter k) outer t' = .ok t
    | .app n args => by
        obtain ⟨a', h1, h2⟩ := foldArgs_shift_out_in k outer args
        exact ⟨.app n a', by simp [foldTy, h1], by simp [foldTy, h2]⟩
    | .scalar s => ⟨.scalar s, by simp [foldTy], by simp [foldTy]⟩
    | .str => ⟨.str, by simp [foldTy], by simp [foldTy]⟩
    | .never => ⟨.never, by simp [foldTy], by simp [foldTy]⟩
    | .foreign id => ⟨.foreign id, by simp [foldTy], by simp [foldTy]⟩
    | .error => ⟨.error, by simp [foldTy], by simp [foldTy]⟩
    | .array t c => by
        obtain ⟨t', h1, h2⟩ := foldTy_shift_out_in k outer t
        obtain ⟨c', h3, h4⟩ := foldConst_shift_out_in k outer c
        exact ⟨.array t' c', by simp [foldTy, h1, h3], by simp [foldTy, h2, h4]⟩
    | .slice t => by
        obtain ⟨t', h1, h2⟩ := foldTy_shift_out_in k outer t
        exact ⟨.slice t', by simp [foldTy, h1], by simp [foldTy, h2]⟩
    | .raw m t => by
        obtain ⟨t', h1, h2⟩ := foldTy_shift_out_in k outer t
        exact ⟨.raw m t', by simp [foldTy, h1], by simp [foldTy, h2]⟩
    | .ref m l t => by
        obtain ⟨t', h1, h2⟩ := foldTy_shift_out_in k outer t
        obtain ⟨l', h3, h4⟩ := foldLifetime_shift_out_in k outer l
        exact ⟨.ref m l' t', by simp [foldTy, h1, h3], by simp [foldTy, h2, h4]⟩
    | .placeholder ui idx => ⟨.placeholder ui idx, by simp [foldTy, shifter], by simp [foldTy, downShifter]⟩
    | .dyn kinds bounds l => by
        obtain ⟨b', h1, h2⟩ := foldQWCs_shift_out_in k (outer+1) bounds
        obtain ⟨l', h3, h4⟩ := foldLifetime_shift_out_in k outer l
        exact ⟨.dyn kinds b' l', by simp [foldTy, h1, h3], by simp [foldTy, h2, h4]⟩
    | .proj id args => by
        obtain ⟨a', h1, h2⟩ := foldArgs_shift_out_in k outer args
        exact ⟨.proj id a', by simp [foldTy, h1], by simp [foldTy, h2]⟩
    | .opaque id args => by
        obtain ⟨a', h1, h2⟩ := foldArgs_shift_out_in k outer args
        exact ⟨.opaque id a', by simp [foldTy, h1], by simp [foldTy, h2]⟩
    | .function nb sig args => by
        obtain ⟨a', h1, h2⟩ := foldArgs_shift_out_in k (outer+1) args
        exact ⟨.function nb sig a', by simp [foldTy, h1], by simp [foldTy, h2]⟩
    | .bound db idx => by
        by_cases h : outer ≤ db
        · refine ⟨.bound (db - outer + k + outer) idx, by simp [foldTy, shifter, h], ?_⟩
          simp [foldTy, downShifter]
          omega
        · exact ⟨.bound db idx, by simp [foldTy, h], by simp [foldTy, h]⟩
    | .infer v kd => ⟨.infer v kd, by simp [foldTy, shifter], by simp [foldTy, downShifter]⟩
  theorem foldConst_shift_out_in (k outer : Nat) : (c : Const) →
      ∃ c', foldConst (shifter k) outer c = .ok c' ∧ foldConst (downShifter k) outer c' = .ok c
    | .mk ty (.bound db idx) => by
        by_cases h : outer ≤ db
        · refine ⟨.mk ty (.bound (db - outer + k + outer) idx), by simp [foldConst, shifter, h], ?_⟩
          simp [foldConst, downShifter]
          omega
        · exact ⟨.mk ty (.bound db idx), by simp [foldConst, h], by simp [foldConst, h]⟩
    | .mk ty (.infer v) => by
        obtain ⟨t', h1, h2⟩ := foldTy_shift_out_in k outer ty
        exact ⟨.mk t' (.infer v), by simp [foldConst, shifter] at *; simp [h1],
          by simp [foldConst, downShifter] at *; simp [h2]⟩
    | .mk ty (.placeholder ui idx) => by
        obtain ⟨t', h1, h2⟩ := foldTy_shift_out_in k outer ty
        exact ⟨.mk t' (.placeholder ui idx), by simp [foldConst, shifter] at *; simp [h1],
          by simp [foldConst, downShifter] at *; simp [h2]⟩
    | .mk ty (.concrete v) => by
        obtain ⟨t', h1, h2⟩ := foldTy_shift_out_in k outer ty
        exact ⟨.mk t' (.concrete v), by simp [foldConst, h1], by simp [foldConst, h2]⟩
  theorem foldGArg_shift_out_in (k outer : Nat) : (a : GArg) →
      ∃ a', foldGArg (shifter k) outer a = .ok a' ∧ foldGArg (downShifter k) outer a' = .ok a
    | .ty t => by
        obtain ⟨t', h1, h2⟩ := foldTy_shift_out_in k outer t
        exact ⟨.ty t', by simp [foldGArg, h1], by simp [foldGArg, h2]⟩
    | .lt l => by
        obtain ⟨l', h1, h2⟩ := foldLifetime_shift_out_in k outer l
        exact ⟨.lt l', by simp [foldGArg, h1], by simp [foldGArg, h2]⟩
    | .ct c => by
        obtain ⟨c', h1, h2⟩ := foldConst_shift_out_in k outer c
        exact ⟨.ct c', by simp [foldGArg, h1], by simp [foldGArg, h2]⟩
  theorem foldArgs_shift_out_in (k outer : Nat) : (a : Args) →
      ∃ a', foldArgs (shifter k) outer a = .ok a' ∧ foldArgs (downShifter k) outer a' = .ok a
    | .nil => ⟨.nil, by simp [foldArgs], by simp [foldArgs]⟩
    | .cons a as => by
        obtain ⟨a', h1, h2⟩ := foldGArg_shift_out_in k outer a
        obtain ⟨as', h3, h4⟩ := foldArgs_shift_out_in k outer as
        exact ⟨.cons a' as', by simp [foldArgs, h1, h3], by simp [foldArgs, h2, h4]⟩
  theorem foldWC_shift_out_in (k outer : Nat) : (w : WC) →
      ∃ w', foldWC (shifter k) outer w = .ok w' ∧ foldWC (downShifter k) outer w' = .ok w
    | .implemented tr args => by
        obtain ⟨a', h1, h2⟩ := foldArgs_shift_out_in k outer args
        exact ⟨.implemented tr a', by simp [foldWC, h1], by simp [foldWC, h2]⟩
    | .aliasEqProj id args ty => by
        obtain ⟨a', h1, h2⟩ := foldArgs_shift_out_in k outer args
        obtain ⟨t', h3, h4⟩ := foldTy_shift_out_in k outer ty
        exact ⟨.aliasEqProj id a' t', by simp [foldWC, h1, h3], by simp [foldWC, h2, h4]⟩
    | .aliasEqOpaque id args ty => by
        obtain ⟨a', h1, h2⟩ := foldArgs_shift_out_in k outer args
        obtain ⟨t', h3, h4⟩ := foldTy_shift_out_in k outer ty
        exact ⟨.aliasEqOpaque id a' t', by simp [foldWC, h1, h3], by simp [foldWC, h2, h4]⟩
    | .ltOutlives a b => by
        obtain ⟨a', h1, h2⟩ := foldLifetime_shift_out_in k outer a
        obtain ⟨b', h3, h4⟩ := foldLifetime_shift_out_in k outer b
        exact ⟨.ltOutlives a' b', by simp [foldWC, h1, h3], by simp [foldWC, h2, h4]⟩
    | .tyOutlives t l => by
        obtain ⟨t', h1, h2⟩ := foldTy_shift_out_in k outer t
        obtain ⟨l', h3, h4⟩ := foldLifetime_shift_out_in k outer l
        exact ⟨.tyOutlives t' l', by simp [foldWC, h1, h3], by simp [foldWC, h2, h4]⟩
  theorem foldQWC_shift_out_in (k outer : Nat) : (q : QWC) →
      ∃ q', foldQWC (shifter k) outer q = .ok q' ∧ foldQWC (downShifter k) outer q' = .ok q
    | .mk kinds wc => by
        obtain ⟨w', h1, h2⟩ := foldWC_shift_out_in k (outer+1) wc
        exact ⟨.mk kinds w', by simp [foldQWC, h1], by simp [foldQWC, h2]⟩
  theorem foldQWCs_shift_out_in (k outer : Nat) : (q : QWCs) →
      ∃ q', foldQWCs (shifter k) outer q = .ok q' ∧ foldQWCs (downShifter k) outer q' = .ok q
    | .nil => ⟨.nil, by simp [foldQWCs], by simp [foldQWCs]⟩
    | .cons q qs => by
        obtain ⟨q', h1, h2⟩ := foldQWC_shift_out_in k outer q
        obtain ⟨qs', h3, h4⟩ := foldQWCs_shift_out_in k outer qs
        exact ⟨.cons q' qs', by simp [foldQWCs, h1, h3], by simp [foldQWCs, h2, h4]⟩
end

end Chalk
