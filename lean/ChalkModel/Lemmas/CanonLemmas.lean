import ChalkModel.Lemmas.SFoldLemmas
import ChalkModel.Lemmas.TableLemmas

/-! Lemmas about the canonicalizer: its handlers on unbound variables, `posOf`, the
    well-numbered-ness checker and the round trip `canonicalize ∘ instantiate`. -/
namespace Chalk

/-! ### `posOf` -/

theorem posOf_append_of_some (r : Nat) : (l m : List (VarKind × Nat)) → (i : Nat) → posOf r l = some i →
    posOf r (l ++ m) = some i
  | [], _, _, h => by simp [posOf] at h
  | (k, x) :: l, m, i, h => by
    simp only [posOf, List.cons_append] at h ⊢
    split
    · rename_i hx; simp [hx] at h; subst h; rfl
    · rename_i hx
      simp only [hx, if_false] at h
      cases hp : posOf r l with
      | none => simp [hp] at h
      | some j => simp [hp] at h; simp [posOf_append_of_some r l m j hp, h]

theorem posOf_append_of_none (r : Nat) : (l m : List (VarKind × Nat)) → posOf r l = none →
    posOf r (l ++ m) = (posOf r m).map (· + l.length)
  | [], m, _ => by simp
  | (k, x) :: l, m, h => by
    simp only [posOf, List.cons_append] at h ⊢
    split
    · rename_i hx; simp [hx] at h
    · rename_i hx
      simp only [hx, if_false] at h
      cases hp : posOf r l with
      | some j => simp [hp] at h
      | none =>
        rw [posOf_append_of_none r l m hp]
        cases posOf r m <;> simp; omega

theorem posOf_lt_length (r : Nat) : (l : List (VarKind × Nat)) → (i : Nat) → posOf r l = some i → i < l.length
  | [], _, h => by simp [posOf] at h
  | (k, x) :: l, i, h => by
    simp only [posOf] at h
    split at h
    · simp at h; subst h; simp
    · cases hp : posOf r l with
      | none => simp [hp] at h
      | some j => simp [hp] at h; subst h; have := posOf_lt_length r l j hp; simp; omega

theorem posOf_get (r : Nat) : (l : List (VarKind × Nat)) → (i : Nat) → posOf r l = some i →
    ∃ k, l[i]? = some (k, r)
  | [], _, h => by simp [posOf] at h
  | (k, x) :: l, i, h => by
    simp only [posOf] at h
    split at h
    · rename_i hx; simp at h; subst h; exact ⟨k, by simp [hx]⟩
    · cases hp : posOf r l with
      | none => simp [hp] at h
      | some j =>
        simp [hp] at h; subst h
        obtain ⟨k', hk⟩ := posOf_get r l j hp
        exact ⟨k', by simp [hk]⟩

/-! ### the canonicalizer on a variable the table has not bound -/

theorem canonFolder_eq (t : Table) (fuel : Nat) : ∃ inner, canonFolder t fuel = canonStep t inner := by
  cases fuel with
  | zero => exact ⟨none, rfl⟩
  | succ n => exact ⟨some (canonFolder t n), rfl⟩

theorem canonFolder_noTyFold (t : Table) (fuel : Nat) : (canonFolder t fuel).NoTyFold := by
  obtain ⟨inner, h⟩ := canonFolder_eq t fuel
  rw [h]; exact ⟨rfl, rfl, rfl⟩

theorem canon_inferTy_unbound (t : Table) (fuel v : Nat) (k : TyVarKind) (o : Nat) (st st' : CState) (i : Nat)
    (h : t.probeVar v = none) (ha : canonAdd t st (.ty k) (t.find v) = .ok (i, st')) :
    (canonFolder t fuel).inferTy v k o st = .ok (.bound o i, st') := by
  obtain ⟨inner, hi⟩ := canonFolder_eq t fuel
  rw [hi]; simp [canonStep, h, ha]

theorem canon_inferLt_unbound (t : Table) (fuel v : Nat) (o : Nat) (st st' : CState) (i : Nat)
    (h : t.probeVar v = none) (ha : canonAdd t st .lt (t.find v) = .ok (i, st')) :
    (canonFolder t fuel).inferLt v o st = .ok (.bound o i, st') := by
  obtain ⟨inner, hi⟩ := canonFolder_eq t fuel
  rw [hi]; simp [canonStep, h, ha]

theorem canon_inferConst_unbound (t : Table) (fuel : Nat) (ty : Ty) (v : Nat) (o : Nat) (st st' : CState) (i : Nat)
    (h : t.probeVar v = none) (ha : canonAdd t st (.const ty.scalarCode) (t.find v) = .ok (i, st')) :
    (canonFolder t fuel).inferConst ty v o st = .ok (.mk ty (.bound o i), st') := by
  obtain ⟨inner, hi⟩ := canonFolder_eq t fuel
  rw [hi]; simp [canonStep, h, ha]

/-! ### well-numbered canonical values -/

def Ty.isScalar : Ty → Bool
  | .scalar _ => true
  | _ => false

def pNotWN : Err := .panic "not well numbered"

/-- The checker behind `WellNumbered`: a stateful fold whose state is the number of canonical
    variables seen so far.  A variable `^0.idx` (relative to the canonical binder) is accepted when
    it is one of those seen (`idx < n`) or the next new one (`idx = n`), and the binder at `idx`
    has its sort (for a constant also its scalar type).  Inference variables are rejected;
    placeholders are accepted (a const placeholder must have a scalar type, the standing
    assumption about constants). The value is returned unchanged. -/
def wnFolder (binders : List (VarKind × Nat)) : SFolder Nat where
  freeVarTy := fun db idx o n =>
    if db = 0 then
      match binders[idx]? with
      | some (.ty _, _) => if idx ≤ n then .ok (.bound o idx, max n (idx + 1)) else .error pNotWN
      | _ => .error pNotWN
    else .error pNotWN
  freeVarLt := fun db idx o n =>
    if db = 0 then
      match binders[idx]? with
      | some (.lt, _) => if idx ≤ n then .ok (.bound o idx, max n (idx + 1)) else .error pNotWN
      | _ => .error pNotWN
    else .error pNotWN
  freeVarConst := fun ty db idx o n =>
    if db = 0 then
      match binders[idx]? with
      | some (.const c, _) =>
        if idx ≤ n ∧ ty = .scalar c then .ok (.mk ty (.bound o idx), max n (idx + 1)) else .error pNotWN
      | _ => .error pNotWN
    else .error pNotWN
  inferTy := fun _ _ _ _ => .error pNotWN
  inferLt := fun _ _ _ => .error pNotWN
  inferConst := fun _ _ _ _ => .error pNotWN
  phTy := fun ui idx _ n => .ok (.placeholder ui idx, n)
  phLt := fun ui idx _ n => .ok (.placeholder ui idx, n)
  phConst := fun ty ui idx _ n => if ty.isScalar then .ok (.mk ty (.placeholder ui idx), n) else .error pNotWN

/-- `c` is numbered by first occurrence: its variables `^0.0, ^0.1, …` appear for the first time in
    this order, each agrees with the sort of its binder, every binder is used, there are no
    inference variables and no other free variables. -/
def WellNumbered (c : Canon Args) : Prop :=
  sfoldArgs (wnFolder c.binders) 0 c.value 0 = .ok (c.value, c.binders.length)

/-! ### `freshVars` -/

theorem freshVars_append : (l : List (VarKind × Nat)) → (n : Nat) → (k : VarKind) → (u : Nat) →
    freshVars n (l ++ [(k, u)]) = freshVars n l ++ [(k, n + l.length)]
  | [], n, k, u => by simp [freshVars]
  | (k0, u0) :: l, n, k, u => by
    simp only [List.cons_append, freshVars, freshVars_append l (n + 1) k u, List.length_cons]
    simp; omega

theorem freshVars_take_succ (bs : List (VarKind × Nat)) (n0 n : Nat) (k : VarKind) (u : Nat)
    (h : bs[n]? = some (k, u)) :
    freshVars n0 (bs.take (n + 1)) = freshVars n0 (bs.take n) ++ [(k, n0 + n)] := by
  have hlt : n < bs.length := (List.getElem?_eq_some_iff.mp h).1
  rw [List.take_add_one, h]
  simp only [Option.toList]
  rw [freshVars_append]
  simp [List.length_take, Nat.min_eq_left (Nat.le_of_lt hlt)]

theorem posOf_freshVars : (l : List (VarKind × Nat)) → (n i : Nat) →
    posOf (n + i) (freshVars n l) = if i < l.length then some i else none
  | [], n, i => by simp [freshVars, posOf]
  | (k, u) :: l, n, 0 => by simp [freshVars, posOf]
  | (k, u) :: l, n, i + 1 => by
    have e : n + (i + 1) = n + 1 + i := by omega
    simp only [freshVars, posOf, e]
    have hne : ¬ n = n + 1 + i := by omega
    simp only [hne, if_false, posOf_freshVars l (n + 1) i, List.length_cons]
    by_cases hi : i < l.length <;> simp [hi]

/-! ### round trip: `canonicalize (instantiate c) = c` -/

/-- relation between the checker's count and the canonicalizer's state while both walk `c.value` -/
def RoundRel (bs : List (VarKind × Nat)) (n0 : Nat) (n : Nat) (st : CState) : Prop :=
  n ≤ bs.length ∧ st.freeVars = freshVars n0 (bs.take n)

theorem canonAdd_fresh (t' : Table) (bs : List (VarKind × Nat)) (n0 n idx : Nat) (st : CState)
    (k : VarKind) (u : Nat) (hb : bs[idx]? = some (k, u)) (hle : idx ≤ n)
    (hu : t'.universeOfUnbound (n0 + idx) = .ok u) (hr : RoundRel bs n0 n st) :
    ∃ st', canonAdd t' st k (n0 + idx) = .ok (idx, st') ∧ RoundRel bs n0 (max n (idx + 1)) st' := by
  obtain ⟨hn, hfv⟩ := hr
  have hlt : idx < bs.length := (List.getElem?_eq_some_iff.mp hb).1
  have hpos : posOf (n0 + idx) st.freeVars = if idx < n then some idx else none := by
    rw [hfv, posOf_freshVars]; simp [List.length_take, Nat.min_eq_left hn]
  by_cases hlt' : idx < n
  · refine ⟨{ st with maxUniverse := max st.maxUniverse u }, ?_, ?_⟩
    · simp [canonAdd, hu, hpos, hlt']
    · have : max n (idx + 1) = n := by omega
      rw [this]; exact ⟨hn, hfv⟩
  · have hidx : idx = n := by omega
    subst hidx
    have hlen : st.freeVars.length = idx := by
      rw [hfv, freshVars_length, List.length_take, Nat.min_eq_left hn]
    refine ⟨{ freeVars := st.freeVars ++ [(k, n0 + idx)], maxUniverse := max st.maxUniverse u }, ?_, ?_⟩
    · simp [canonAdd, hu, hpos, hlen]
    · have : max idx (idx + 1) = idx + 1 := by omega
      rw [this]
      exact ⟨hlt, by simp [hfv, freshVars_take_succ bs n0 idx k u hb]⟩

theorem round_handlers (t : Table) (ht : t.Aligned) (bs : List (VarKind × Nat)) (fuel : Nat) :
    SimHandlers True (RoundRel bs t.numVars) (wnFolder bs)
      ((canonFolder (t.freshSubst bs).1 fuel).comp (applyFolder (t.freshSubst bs).2)) := by
  have hσ : (t.freshSubst bs).2 = freshArgs t.numVars bs := (freshSubst_spec bs t).2.2
  refine
    { freeVarTy := ?_, freeVarLt := ?_, freeVarConst := ?_, inferTy := ?_, inferLt := ?_, inferConst := ?_,
      phTy := ?_, phLt := ?_, phConst := ?_, flagFreeVar := rfl, flagInfer := rfl, flagPh := rfl }
  · -- freeVarTy
    intro db idx o n st hr a s1 h1
    simp only [wnFolder] at h1
    split at h1
    · rename_i hdb
      split at h1
      · rename_i k u hb
        split at h1
        · rename_i hle
          cases h1
          obtain ⟨hfind, hprobe, huniv⟩ := freshSubst_var t ht bs idx (.ty k) u hb
          obtain ⟨st', hadd, hr'⟩ := canonAdd_fresh (t.freshSubst bs).1 bs t.numVars n idx st (.ty k) u hb hle huniv hr
          refine ⟨.bound o idx, st', ?_, fun _ => rfl, hr'⟩
          simp [SFolder.comp, applyFolder, hdb, hσ, freshArgs_get bs t.numVars idx (.ty k) u hb,
            VarKind.toInferArg, foldTy, shifter, sfoldTy,
            canon_inferTy_unbound _ fuel _ k o st st' idx hprobe (by rw [hfind]; exact hadd)]
        · simp at h1
      all_goals simp at h1
    · simp at h1
  · -- freeVarLt
    intro db idx o n st hr a s1 h1
    simp only [wnFolder] at h1
    split at h1
    · rename_i hdb
      split at h1
      · rename_i u hb
        split at h1
        · rename_i hle
          cases h1
          obtain ⟨hfind, hprobe, huniv⟩ := freshSubst_var t ht bs idx .lt u hb
          obtain ⟨st', hadd, hr'⟩ := canonAdd_fresh (t.freshSubst bs).1 bs t.numVars n idx st .lt u hb hle huniv hr
          refine ⟨.bound o idx, st', ?_, fun _ => rfl, hr'⟩
          simp [SFolder.comp, applyFolder, hdb, hσ, freshArgs_get bs t.numVars idx .lt u hb,
            VarKind.toInferArg, foldLifetime, shifter, sfoldLifetime,
            canon_inferLt_unbound _ fuel _ o st st' idx hprobe (by rw [hfind]; exact hadd)]
        · simp at h1
      all_goals simp at h1
    · simp at h1
  · -- freeVarConst
    intro ty1 ty2 db idx o n st hty hr a s1 h1
    have hty : ty2 = ty1 := hty (.inl trivial)
    subst hty
    simp only [wnFolder] at h1
    split at h1
    · rename_i hdb
      split at h1
      · rename_i c u hb
        split at h1
        · rename_i hle
          cases h1
          obtain ⟨hle, hty⟩ := hle
          subst hty
          obtain ⟨hfind, hprobe, huniv⟩ := freshSubst_var t ht bs idx (.const c) u hb
          obtain ⟨st', hadd, hr'⟩ := canonAdd_fresh (t.freshSubst bs).1 bs t.numVars n idx st (.const c) u hb hle huniv hr
          refine ⟨.mk (.scalar c) (.bound o idx), st', ?_, fun _ => rfl, hr'⟩
          simp [SFolder.comp, applyFolder, hdb, hσ, freshArgs_get bs t.numVars idx (.const c) u hb,
            VarKind.toInferArg, foldConst, foldTy, shifter, sfoldConst, (canonFolder_noTyFold _ _).infer,
            canon_inferConst_unbound _ fuel (.scalar c) _ o st st' idx hprobe (by rw [hfind]; exact hadd)]
        · simp at h1
      all_goals simp at h1
    · simp at h1
  · intro v k o n st _ a s1 h1; simp [wnFolder] at h1
  · intro v o n st _ a s1 h1; simp [wnFolder] at h1
  · intro ty1 ty2 v o n st _ _ a s1 h1; simp [wnFolder] at h1
  · -- phTy
    intro ui idx o n st hr a s1 h1
    simp only [wnFolder] at h1; cases h1
    obtain ⟨inner, hi⟩ := canonFolder_eq (t.freshSubst bs).1 fuel
    exact ⟨_, { st with maxUniverse := max st.maxUniverse ui }, by simp [SFolder.comp, applyFolder, hi, canonStep],
      fun _ => rfl, ⟨hr.1, hr.2⟩⟩
  · intro ui idx o n st hr a s1 h1
    simp only [wnFolder] at h1; cases h1
    obtain ⟨inner, hi⟩ := canonFolder_eq (t.freshSubst bs).1 fuel
    exact ⟨_, { st with maxUniverse := max st.maxUniverse ui }, by simp [SFolder.comp, applyFolder, hi, canonStep],
      fun _ => rfl, ⟨hr.1, hr.2⟩⟩
  · -- phConst
    intro ty1 ty2 ui idx o n st hty hr a s1 h1
    have hty : ty2 = ty1 := hty (.inl trivial)
    subst hty
    simp only [wnFolder] at h1
    split at h1
    · rename_i hs
      cases h1
      obtain ⟨inner, hi⟩ := canonFolder_eq (t.freshSubst bs).1 fuel
      cases ty2 <;> simp [Ty.isScalar] at hs
      exact ⟨_, { st with maxUniverse := max st.maxUniverse ui },
        by simp [SFolder.comp, applyFolder, hi, canonStep, foldTy], fun _ => rfl, ⟨hr.1, hr.2⟩⟩
    · simp at h1

theorem intoBinders_fresh (t' : Table) : (bs : List (VarKind × Nat)) → (n0 : Nat) →
    (∀ i k u, bs[i]? = some (k, u) → t'.universeOfUnbound (n0 + i) = .ok u) →
    intoBinders t' (freshVars n0 bs) = .ok bs
  | [], _, _ => rfl
  | (k, u) :: bs, n0, h => by
    have h0 := h 0 k u (by simp)
    have ih := intoBinders_fresh t' bs (n0 + 1) (fun i k' u' hi => by
      have := h (i + 1) k' u' (by simpa using hi)
      have e : n0 + 1 + i = n0 + (i + 1) := by omega
      rw [e]; exact this)
    simp at h0
    simp [freshVars, intoBinders, h0, ih]

/-! ### renaming of inference variables -/

/-- Rename every inference variable `?x` to `?(ρ x)`, keeping its kind annotation.  The types of
    variable and placeholder constants are not entered (the canonicalizer does not look at them
    either; they are closed scalar types). -/
def renameFolder (ρ : Nat → Nat) : Folder where
  inferTy := some fun v k _ => .ok (.infer (ρ v) k)
  inferLt := some fun v _ => .ok (.infer (ρ v))
  inferConst := some fun ty v _ => .ok (.mk ty (.infer (ρ v)))
  phConst := some fun ty ui idx _ => .ok (.mk ty (.placeholder ui idx))

/-- `ρ` carries the table `t1` to the table `t2`: unbound variables go to unbound variables whose
    root has the same universe, two unbound variables are in one class after renaming iff they were
    before, and a bound variable goes to a variable bound to the renamed value. -/
structure Renaming (t1 t2 : Table) (ρ : Nat → Nat) : Prop where
  unbound : ∀ x, t1.probeVar x = none →
    t2.probeVar (ρ x) = none ∧ t2.universeOfUnbound (t2.find (ρ x)) = t1.universeOfUnbound (t1.find x)
  roots : ∀ x y, t1.probeVar x = none → t1.probeVar y = none →
    (t2.find (ρ x) = t2.find (ρ y) ↔ t1.find x = t1.find y)
  bound : ∀ x g, t1.probeVar x = some g →
    ∃ g', t2.probeVar (ρ x) = some g' ∧ foldGArg (renameFolder ρ) 0 g = .ok g'

def RenRel (t1 t2 : Table) (ρ : Nat → Nat) (s1 s2 : CState) : Prop :=
  s1.maxUniverse = s2.maxUniverse ∧ s1.freeVars.length = s2.freeVars.length ∧
  intoBinders t1 s1.freeVars = intoBinders t2 s2.freeVars ∧
  ∀ x, t1.probeVar x = none → posOf (t1.find x) s1.freeVars = posOf (t2.find (ρ x)) s2.freeVars

theorem intoBinders_append (t : Table) : (l : List (VarKind × Nat)) → (k : VarKind) → (r : Nat) →
    intoBinders t (l ++ [(k, r)]) =
      match intoBinders t l with
      | .error e => .error e
      | .ok bs => match t.universeOfUnbound r with
        | .error e => .error e
        | .ok u => .ok (bs ++ [(k, u)])
  | [], k, r => by
    simp only [List.nil_append, intoBinders]
    cases t.universeOfUnbound r <;> simp
  | (k0, r0) :: l, k, r => by
    simp only [List.cons_append, intoBinders, intoBinders_append t l k r]
    cases t.universeOfUnbound r0 <;> simp
    cases intoBinders t l <;> simp
    cases t.universeOfUnbound r <;> simp

theorem intoBinders_append_ok (t : Table) (l : List (VarKind × Nat)) (k : VarKind) (r u : Nat)
    (hu : t.universeOfUnbound r = .ok u) :
    intoBinders t (l ++ [(k, r)]) =
      match intoBinders t l with
      | .error e => .error e
      | .ok bs => .ok (bs ++ [(k, u)]) := by
  rw [intoBinders_append, hu]

theorem canonAdd_ok_universe (t : Table) (st st' : CState) (k : VarKind) (r i : Nat)
    (h : canonAdd t st k r = .ok (i, st')) : ∃ u, t.universeOfUnbound r = .ok u := by
  unfold canonAdd at h
  cases hu : t.universeOfUnbound r with
  | error e => simp [hu] at h
  | ok u => exact ⟨u, rfl⟩

/-- the step of `Canonicalizer::add` under a renaming -/
theorem canonAdd_ren (t1 t2 : Table) (ρ : Nat → Nat) (H : Renaming t1 t2 ρ) (x : Nat) (k : VarKind)
    (hx : t1.probeVar x = none) (s1 s2 s1' : CState) (i : Nat) (hr : RenRel t1 t2 ρ s1 s2)
    (h : canonAdd t1 s1 k (t1.find x) = .ok (i, s1')) :
    ∃ s2', canonAdd t2 s2 k (t2.find (ρ x)) = .ok (i, s2') ∧ RenRel t1 t2 ρ s1' s2' := by
  obtain ⟨hmu, hlen, hbind, hpos⟩ := hr
  obtain ⟨u, hu1⟩ := canonAdd_ok_universe t1 s1 s1' k _ i h
  have hu2 : t2.universeOfUnbound (t2.find (ρ x)) = .ok u := by rw [(H.unbound x hx).2, hu1]
  have hp := hpos x hx
  unfold canonAdd at h ⊢
  simp only [hu1] at h
  simp only [hu2]
  cases hp1 : posOf (t1.find x) s1.freeVars with
  | some j =>
    simp only [hp1] at h
    simp only [Except.ok.injEq, Prod.mk.injEq] at h
    obtain ⟨hj, hs⟩ := h
    subst hj; subst hs
    rw [hp1] at hp
    refine ⟨_, by simp only [← hp]; rfl, ?_⟩
    exact ⟨by simp [hmu], hlen, hbind, hpos⟩
  | none =>
    simp only [hp1] at h
    simp only [Except.ok.injEq, Prod.mk.injEq] at h
    obtain ⟨hj, hs⟩ := h
    subst hj; subst hs
    rw [hp1] at hp
    refine ⟨_, by simp only [← hp, hlen]; rfl, ?_⟩
    refine ⟨by simp [hmu], by simp [hlen], ?_, ?_⟩
    · simp only [intoBinders_append_ok t1 _ k _ u hu1, intoBinders_append_ok t2 _ k _ u hu2, hbind]
    · intro y hy
      have hy' := hpos y hy
      cases hq : posOf (t1.find y) s1.freeVars with
      | some j =>
        rw [hq] at hy'
        simp only [posOf_append_of_some _ _ _ j hq, posOf_append_of_some _ _ _ j hy'.symm]
      | none =>
        rw [hq] at hy'
        simp only [posOf_append_of_none _ _ _ hq, posOf_append_of_none _ _ _ hy'.symm, posOf, hlen]
        have hroot := H.roots x y hx hy
        by_cases he : t1.find x = t1.find y
        · have he2 := hroot.mpr he
          simp [he, he2]
        · have he2 : ¬ t2.find (ρ x) = t2.find (ρ y) := fun h => he (hroot.mp h)
          simp [he, he2]

theorem foldGArg_ty_inv (g : Folder) (o : Nat) (t : Ty) (r : GArg) (h : foldGArg g o (.ty t) = .ok r) :
    ∃ t', foldTy g o t = .ok t' ∧ r = .ty t' := by
  simp only [foldGArg] at h
  cases ht : foldTy g o t with
  | error e => simp [ht] at h
  | ok t' => simp [ht] at h; exact ⟨t', rfl, h.symm⟩

theorem foldGArg_lt_inv (g : Folder) (o : Nat) (l : Lifetime) (r : GArg) (h : foldGArg g o (.lt l) = .ok r) :
    ∃ l', foldLifetime g o l = .ok l' ∧ r = .lt l' := by
  simp only [foldGArg] at h
  cases ht : foldLifetime g o l with
  | error e => simp [ht] at h
  | ok t' => simp [ht] at h; exact ⟨t', rfl, h.symm⟩

theorem foldGArg_ct_inv (g : Folder) (o : Nat) (c : Const) (r : GArg) (h : foldGArg g o (.ct c) = .ok r) :
    ∃ c', foldConst g o c = .ok c' ∧ r = .ct c' := by
  simp only [foldGArg] at h
  cases ht : foldConst g o c with
  | error e => simp [ht] at h
  | ok t' => simp [ht] at h; exact ⟨t', rfl, h.symm⟩

/-- the inner canonicalizers of the two runs: both out of budget, or related by the simulation -/
def InnerRel (t1 t2 : Table) (ρ : Nat → Nat) : Option (SFolder CState) → Option (SFolder CState) → Prop
  | none, none => True
  | some f1, some f2 => SimHandlers True (RenRel t1 t2 ρ) f1 (f2.comp (renameFolder ρ)) ∧ f2.NoTyFold
  | _, _ => False

theorem ren_step (t1 t2 : Table) (ρ : Nat → Nat) (H : Renaming t1 t2 ρ)
    (inner1 inner2 : Option (SFolder CState)) (hin : InnerRel t1 t2 ρ inner1 inner2) :
    SimHandlers True (RenRel t1 t2 ρ) (canonStep t1 inner1) ((canonStep t2 inner2).comp (renameFolder ρ)) := by
  have hnt : (canonStep t2 inner2).NoTyFold := ⟨rfl, rfl, rfl⟩
  refine
    { freeVarTy := ?_, freeVarLt := ?_, freeVarConst := ?_, inferTy := ?_, inferLt := ?_, inferConst := ?_,
      phTy := ?_, phLt := ?_, phConst := ?_, flagFreeVar := rfl, flagInfer := rfl, flagPh := rfl }
  · intro db idx o s1 s2 _ a s1' h1; simp [canonStep, forbidFreeVarTy] at h1
  · intro db idx o s1 s2 _ a s1' h1; simp [canonStep, forbidFreeVarLt] at h1
  · intro ty1 ty2 db idx o s1 s2 _ _ a s1' h1; simp [canonStep, forbidFreeVarConst] at h1
  · -- inferTy
    intro v k o s1 s2 hr a s1' h1
    have hcomp : ((canonStep t2 inner2).comp (renameFolder ρ)).inferTy v k o s2 =
        (canonStep t2 inner2).inferTy (ρ v) k o s2 := by
      simp [SFolder.comp, renameFolder, sfoldTy]
    rw [hcomp]
    cases hp : t1.probeVar v with
    | none =>
      simp only [canonStep, hp] at h1
      cases hadd : canonAdd t1 s1 (.ty k) (t1.find v) with
      | error e => simp [hadd] at h1
      | ok p =>
        obtain ⟨i, st'⟩ := p
        simp [hadd] at h1
        obtain ⟨ha, hs⟩ := h1
        subst ha; subst hs
        obtain ⟨s2', hadd2, hr'⟩ := canonAdd_ren t1 t2 ρ H v (.ty k) hp s1 s2 st' i hr hadd
        exact ⟨_, s2', by simp [canonStep, (H.unbound v hp).1, hadd2], fun _ => rfl, hr'⟩
    | some g =>
      obtain ⟨g', hp2, hg⟩ := H.bound v g hp
      simp only [canonStep, hp] at h1
      cases inner1 with
      | none => simp at h1
      | some f1 =>
        cases inner2 with
        | none => simp [InnerRel] at hin
        | some f2 =>
          obtain ⟨IH, hnt2⟩ := hin
          cases g with
          | ty ty =>
            simp only at h1
            obtain ⟨ty', st', hf, hk⟩ := bindS_eq_ok.mp h1
            obtain ⟨ty2, hty2, rfl⟩ := foldGArg_ty_inv _ _ _ _ hg
            obtain ⟨b, s2', hrun, hb, hr'⟩ := sfoldTy_sim IH 0 ty s1 s2 hr ty' st' hf
            have hb : ty' = b := (hb trivial).symm
            subst hb
            obtain ⟨x, hx, hrun2⟩ := sfoldTy_comp hnt2 0 ty s2 _ hrun
            rw [hty2] at hx; cases hx
            cases hsh : ty'.shiftedInFrom o with
            | error e => simp [hsh] at hk
            | ok r =>
              simp [hsh] at hk
              obtain ⟨ha, hs⟩ := hk
              subst ha; subst hs
              exact ⟨r, s2', by simp [canonStep, hp2, hrun2, hsh], fun _ => rfl, hr'⟩
          | lt l => simp at h1
          | ct c => simp at h1
  · -- inferLt
    intro v o s1 s2 hr a s1' h1
    have hcomp : ((canonStep t2 inner2).comp (renameFolder ρ)).inferLt v o s2 =
        (canonStep t2 inner2).inferLt (ρ v) o s2 := by
      simp [SFolder.comp, renameFolder, sfoldLifetime]
    rw [hcomp]
    cases hp : t1.probeVar v with
    | none =>
      simp only [canonStep, hp] at h1
      cases hadd : canonAdd t1 s1 .lt (t1.find v) with
      | error e => simp [hadd] at h1
      | ok p =>
        obtain ⟨i, st'⟩ := p
        simp [hadd] at h1
        obtain ⟨ha, hs⟩ := h1
        subst ha; subst hs
        obtain ⟨s2', hadd2, hr'⟩ := canonAdd_ren t1 t2 ρ H v .lt hp s1 s2 st' i hr hadd
        exact ⟨_, s2', by simp [canonStep, (H.unbound v hp).1, hadd2], fun _ => rfl, hr'⟩
    | some g =>
      obtain ⟨g', hp2, hg⟩ := H.bound v g hp
      simp only [canonStep, hp] at h1
      cases inner1 with
      | none => simp at h1
      | some f1 =>
        cases inner2 with
        | none => simp [InnerRel] at hin
        | some f2 =>
          obtain ⟨IH, hnt2⟩ := hin
          cases g with
          | lt l =>
            simp only at h1
            obtain ⟨l', st', hf, hk⟩ := bindS_eq_ok.mp h1
            obtain ⟨l2, hl2, rfl⟩ := foldGArg_lt_inv _ _ _ _ hg
            obtain ⟨b, s2', hrun, hb, hr'⟩ := sfoldLifetime_sim IH 0 l s1 s2 hr l' st' hf
            have hb : l' = b := (hb trivial).symm
            subst hb
            obtain ⟨x, hx, hrun2⟩ := sfoldLifetime_comp 0 l s2 _ hrun
            rw [hl2] at hx; cases hx
            cases hsh : l'.shiftedInFrom o with
            | error e => simp [hsh] at hk
            | ok r =>
              simp [hsh] at hk
              obtain ⟨ha, hs⟩ := hk
              subst ha; subst hs
              exact ⟨r, s2', by simp [canonStep, hp2, hrun2, hsh], fun _ => rfl, hr'⟩
          | ty ty => simp at h1
          | ct c => simp at h1
  · -- inferConst
    intro ty1 ty2 v o s1 s2 hty hr a s1' h1
    have hty : ty2 = ty1 := hty (.inl trivial)
    subst hty
    have hcomp : ((canonStep t2 inner2).comp (renameFolder ρ)).inferConst ty2 v o s2 =
        (canonStep t2 inner2).inferConst ty2 (ρ v) o s2 := by
      simp [SFolder.comp, renameFolder, sfoldConst, hnt.infer]
    rw [hcomp]
    cases hp : t1.probeVar v with
    | none =>
      simp only [canonStep, hp] at h1
      cases hadd : canonAdd t1 s1 (.const ty2.scalarCode) (t1.find v) with
      | error e => simp [hadd] at h1
      | ok p =>
        obtain ⟨i, st'⟩ := p
        simp [hadd] at h1
        obtain ⟨ha, hs⟩ := h1
        subst ha; subst hs
        obtain ⟨s2', hadd2, hr'⟩ := canonAdd_ren t1 t2 ρ H v (.const ty2.scalarCode) hp s1 s2 st' i hr hadd
        exact ⟨_, s2', by simp [canonStep, (H.unbound v hp).1, hadd2], fun _ => rfl, hr'⟩
    | some g =>
      obtain ⟨g', hp2, hg⟩ := H.bound v g hp
      simp only [canonStep, hp] at h1
      cases inner1 with
      | none => simp at h1
      | some f1 =>
        cases inner2 with
        | none => simp [InnerRel] at hin
        | some f2 =>
          obtain ⟨IH, hnt2⟩ := hin
          cases g with
          | ct c =>
            simp only at h1
            obtain ⟨c', st', hf, hk⟩ := bindS_eq_ok.mp h1
            obtain ⟨c2, hc2, rfl⟩ := foldGArg_ct_inv _ _ _ _ hg
            obtain ⟨b, s2', hrun, hb, hr'⟩ := sfoldConst_sim IH 0 c s1 s2 hr c' st' hf
            have hb : c' = b := (hb trivial).symm
            subst hb
            obtain ⟨x, hx, hrun2⟩ := sfoldConst_comp hnt2 0 c s2 _ hrun
            rw [hc2] at hx; cases hx
            cases hsh : c'.shiftedInFrom o with
            | error e => simp [hsh] at hk
            | ok r =>
              simp [hsh] at hk
              obtain ⟨ha, hs⟩ := hk
              subst ha; subst hs
              exact ⟨r, s2', by simp [canonStep, hp2, hrun2, hsh], fun _ => rfl, hr'⟩
          | ty ty => simp at h1
          | lt l => simp at h1
  · -- phTy
    intro ui idx o s1 s2 hr a s1' h1
    simp only [canonStep] at h1; cases h1
    exact ⟨_, { s2 with maxUniverse := max s2.maxUniverse ui }, by simp [SFolder.comp, renameFolder, canonStep],
      fun _ => rfl, ⟨by simp [hr.1], hr.2.1, hr.2.2.1, hr.2.2.2⟩⟩
  · intro ui idx o s1 s2 hr a s1' h1
    simp only [canonStep] at h1; cases h1
    exact ⟨_, { s2 with maxUniverse := max s2.maxUniverse ui }, by simp [SFolder.comp, renameFolder, canonStep],
      fun _ => rfl, ⟨by simp [hr.1], hr.2.1, hr.2.2.1, hr.2.2.2⟩⟩
  · intro ty1 ty2 ui idx o s1 s2 hty hr a s1' h1
    have hty : ty2 = ty1 := hty (.inl trivial)
    subst hty
    simp only [canonStep] at h1; cases h1
    exact ⟨_, { s2 with maxUniverse := max s2.maxUniverse ui },
      by simp [SFolder.comp, renameFolder, canonStep, sfoldConst],
      fun _ => rfl, ⟨by simp [hr.1], hr.2.1, hr.2.2.1, hr.2.2.2⟩⟩

theorem ren_handlers (t1 t2 : Table) (ρ : Nat → Nat) (H : Renaming t1 t2 ρ) : (fuel : Nat) →
    SimHandlers True (RenRel t1 t2 ρ) (canonFolder t1 fuel) ((canonFolder t2 fuel).comp (renameFolder ρ))
  | 0 => ren_step t1 t2 ρ H none none trivial
  | n + 1 => ren_step t1 t2 ρ H (some (canonFolder t1 n)) (some (canonFolder t2 n))
      ⟨ren_handlers t1 t2 ρ H n, canonFolder_noTyFold t2 n⟩

end Chalk
