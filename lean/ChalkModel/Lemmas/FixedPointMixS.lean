/-
  FixedPointMixS.lean — existence of a stratified truth predicate for EVERY instance: the alternating
  fixed point `ν X. μ Y. T(coinductive goals from X, inductive goals from Y)`.
  (Without a stratification it need not be the only one; with one it is — `C05mixed.stratified_truth_unique`.)
-/
import ChalkModel.Lemmas.FixedPointMix

namespace Chalk.FixedPoint.Mix
open Chalk.FixedPoint.Cyc (JE JA)

/-- `μ Y. T(X on coinductive sub-goals, Y on inductive sub-goals)` -/
inductive GI (inst : Instance) (X : Nat → Prop) : Nat → Prop where
  | intro (k : Nat) (alt : List Nat) : alt ∈ inst.deps k →
      (∀ j, j ∈ alt → inst.coind j = true → X j) →
      (∀ j, j ∈ alt → inst.coind j = false → GI inst X j) → GI inst X k

/-- `ν X. GI X`: the canonical stratified truth -/
def StratP (inst : Instance) (k : Nat) : Prop :=
  ∃ X : Nat → Prop, (∀ x, X x → GI inst X x) ∧ X k

theorem GI.mono {inst : Instance} {X Y : Nat → Prop} (h : ∀ j, X j → Y j) {k : Nat} (hk : GI inst X k) :
    GI inst Y k := by
  induction hk with
  | intro k alt ha h1 _ ih => exact GI.intro k alt ha (fun j hj hc => h j (h1 j hj hc)) ih

theorem StratP.unfold {inst : Instance} {k : Nat} (h : StratP inst k) : GI inst (StratP inst) k := by
  obtain ⟨X, hX, hk⟩ := h
  exact (hX k hk).mono (fun j hj => ⟨X, hX, hj⟩)

theorem StratP.fold {inst : Instance} {k : Nat} (h : GI inst (StratP inst) k) : StratP inst k :=
  ⟨GI inst (StratP inst), fun _ hx => hx.mono (fun _ hj => hj.unfold), h⟩

/-- the alternating fixed point is a stratified truth predicate — for every instance -/
theorem strat_stratP (inst : Instance) : Strat inst (StratP inst) := by
  refine ⟨fun k => ⟨?_, ?_⟩, ?_, ?_⟩
  · intro h
    cases h.unfold with
    | intro _ alt ha h1 h2 =>
      refine ⟨alt, ha, fun j hj => ?_⟩
      cases hc : inst.coind j with
      | true => exact h1 j hj hc
      | false => exact StratP.fold (h2 j hj hc)
  · rintro ⟨alt, ha, hall⟩
    exact StratP.fold (GI.intro k alt ha (fun j hj _ => hall j hj) (fun j hj _ => (hall j hj).unfold))
  · intro S hS k hk
    refine ⟨fun x => S x ∨ StratP inst x, ?_, Or.inl hk⟩
    intro x hx
    cases hx with
    | inr h => exact h.unfold.mono (fun j hj => Or.inr hj)
    | inl h =>
      obtain ⟨_, alt, ha, hall⟩ := hS x h
      refine GI.intro x alt ha (fun j hj _ => hall j hj) (fun j hj hc => ?_)
      cases hall j hj with
      | inl hs =>
        have := (hS j hs).1
        rw [hc] at this
        cases this
      | inr hp => exact hp.unfold.mono (fun j' hj' => Or.inr hj')
  · intro N hN
    have key : ∀ k, GI inst (StratP inst) k → ¬ N k := by
      intro k hk
      induction hk with
      | intro k alt ha h1 h2 ih =>
        intro hn
        obtain ⟨j, hj, hcase⟩ := (hN k hn).2 alt ha
        cases hc : inst.coind j with
        | true =>
          cases hcase with
          | inl hnj =>
            have := (hN j hnj).1
            rw [hc] at this
            cases this
          | inr hnp => exact hnp (h1 j hj hc)
        | false =>
          cases hcase with
          | inl hnj => exact ih j hj hc hnj
          | inr hnp => exact hnp (StratP.fold (h2 j hj hc))
    intro k hk hp
    exact key k hp.unfold hk

end Chalk.FixedPoint.Mix
