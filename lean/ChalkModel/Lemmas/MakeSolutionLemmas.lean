import ChalkModel.MakeSolution
import ChalkModel.Lemmas.AggregateLemmas

namespace Chalk

/-! ### `genOf` is transitive -/

theorem Lifetime.genOf_trans {a b c : Lifetime} (h1 : a.genOf b = true) (h2 : b.genOf c = true) :
    a.genOf c = true := by
  cases a <;> cases b <;> simp_all [Lifetime.genOf]

theorem Const.genOf_trans {a b c : Const} (h1 : a.genOf b = true) (h2 : b.genOf c = true) :
    a.genOf c = true := by
  obtain ⟨ta, va⟩ := a
  obtain ⟨tb, vb⟩ := b
  obtain ⟨tc, vc⟩ := c
  cases va <;> cases vb <;> simp_all [Const.genOf]

mutual
  theorem Ty.genOf_trans : (a b c : Ty) → a.genOf b = true → b.genOf c = true → a.genOf c = true
    | a, b, c, h1, h2 => by
        cases a with
        | bound _ _ => simp [Ty.genOf]
        | app n x =>
          cases b <;> simp [Ty.genOf] at h1
          rename_i n' y
          cases c <;> simp [Ty.genOf] at h2
          rename_i n'' z
          simp [Ty.genOf, h1.1, h2.1, Args.genOf_trans x y z h1.2 h2.2]
        | proj i x =>
          cases b <;> simp [Ty.genOf] at h1
          rename_i i' y
          cases c <;> simp [Ty.genOf] at h2
          rename_i i'' z
          simp [Ty.genOf, h1.1, h2.1, Args.genOf_trans x y z h1.2 h2.2]
        | «opaque» i x =>
          cases b <;> simp [Ty.genOf] at h1
          rename_i i' y
          cases c <;> simp [Ty.genOf] at h2
          rename_i i'' z
          simp [Ty.genOf, h1.1, h2.1, Args.genOf_trans x y z h1.2 h2.2]
        | slice t =>
          cases b <;> simp [Ty.genOf] at h1
          rename_i t'
          cases c <;> simp [Ty.genOf] at h2
          rename_i t''
          simp [Ty.genOf, Ty.genOf_trans t t' t'' h1 h2]
        | raw m t =>
          cases b <;> simp [Ty.genOf] at h1
          rename_i m' t'
          cases c <;> simp [Ty.genOf] at h2
          rename_i m'' t''
          simp [Ty.genOf, h1.1, h2.1, Ty.genOf_trans t t' t'' h1.2 h2.2]
        | ref m l t =>
          cases b <;> simp [Ty.genOf] at h1
          rename_i m' l' t'
          cases c <;> simp [Ty.genOf] at h2
          rename_i m'' l'' t''
          simp [Ty.genOf, h1.1.1, h2.1.1, Lifetime.genOf_trans h1.1.2 h2.1.2, Ty.genOf_trans t t' t'' h1.2 h2.2]
        | array t k =>
          cases b <;> simp [Ty.genOf] at h1
          rename_i t' k'
          cases c <;> simp [Ty.genOf] at h2
          rename_i t'' k''
          simp [Ty.genOf, Ty.genOf_trans t t' t'' h1.1 h2.1, Const.genOf_trans h1.2 h2.2]
        | scalar s =>
          cases b <;> simp [Ty.genOf] at h1
          cases c <;> simp [Ty.genOf] at h2
          simp [Ty.genOf, h1, h2]
        | foreign s =>
          cases b <;> simp [Ty.genOf] at h1
          cases c <;> simp [Ty.genOf] at h2
          simp [Ty.genOf, h1, h2]
        | placeholder u i =>
          cases b <;> simp [Ty.genOf] at h1
          cases c <;> simp [Ty.genOf] at h2
          simp [Ty.genOf, h1.1, h1.2, h2.1, h2.2]
        | str =>
          cases b <;> simp [Ty.genOf] at h1
          cases c <;> simp [Ty.genOf] at h2
          simp [Ty.genOf]
        | never =>
          cases b <;> simp [Ty.genOf] at h1
          cases c <;> simp [Ty.genOf] at h2
          simp [Ty.genOf]
        | error =>
          cases b <;> simp [Ty.genOf] at h1
          cases c <;> simp [Ty.genOf] at h2
          simp [Ty.genOf]
        | _ => simp [Ty.genOf] at h1
  theorem GArg.genOf_trans : (a b c : GArg) → a.genOf b = true → b.genOf c = true → a.genOf c = true
    | .ty a, .ty b, .ty c, h1, h2 => by
        simp only [GArg.genOf] at h1 h2 ⊢
        exact Ty.genOf_trans a b c h1 h2
    | .lt a, .lt b, .lt c, h1, h2 => by
        simp only [GArg.genOf] at h1 h2 ⊢
        exact Lifetime.genOf_trans h1 h2
    | .ct a, .ct b, .ct c, h1, h2 => by
        simp only [GArg.genOf] at h1 h2 ⊢
        exact Const.genOf_trans h1 h2
    | .ty _, .ty _, .lt _, _, h2 => by simp [GArg.genOf] at h2
    | .ty _, .ty _, .ct _, _, h2 => by simp [GArg.genOf] at h2
    | .lt _, .lt _, .ty _, _, h2 => by simp [GArg.genOf] at h2
    | .lt _, .lt _, .ct _, _, h2 => by simp [GArg.genOf] at h2
    | .ct _, .ct _, .ty _, _, h2 => by simp [GArg.genOf] at h2
    | .ct _, .ct _, .lt _, _, h2 => by simp [GArg.genOf] at h2
    | .ty _, .lt _, _, h1, _ => by simp [GArg.genOf] at h1
    | .ty _, .ct _, _, h1, _ => by simp [GArg.genOf] at h1
    | .lt _, .ty _, _, h1, _ => by simp [GArg.genOf] at h1
    | .lt _, .ct _, _, h1, _ => by simp [GArg.genOf] at h1
    | .ct _, .ty _, _, h1, _ => by simp [GArg.genOf] at h1
    | .ct _, .lt _, _, h1, _ => by simp [GArg.genOf] at h1
  theorem Args.genOf_trans : (a b c : Args) → a.genOf b = true → b.genOf c = true → a.genOf c = true
    | .nil, .nil, .nil, _, _ => by simp [Args.genOf]
    | .cons x xs, .cons y ys, .cons z zs, h1, h2 => by
        simp only [Args.genOf, Bool.and_eq_true] at h1 h2 ⊢
        exact ⟨GArg.genOf_trans x y z h1.1 h2.1, Args.genOf_trans xs ys zs h1.2 h2.2⟩
    | .nil, .nil, .cons _ _, _, h2 => by simp [Args.genOf] at h2
    | .nil, .cons _ _, _, h1, _ => by simp [Args.genOf] at h1
    | .cons _ _, .nil, _, h1, _ => by simp [Args.genOf] at h1
    | .cons _ _, .cons _ _, .nil, _, h2 => by simp [Args.genOf] at h2
end

/-! ### kinds -/

theorem GArg.sameKind_of_genOf {a b : GArg} (h : a.genOf b = true) : a.sameKind b = true := by
  cases a <;> cases b <;> simp_all [GArg.genOf, GArg.sameKind]

theorem Args.sameKinds_of_genOf : (a b : Args) → a.genOf b = true → a.sameKinds b = true
  | .nil, .nil, _ => by simp [Args.sameKinds]
  | .cons x xs, .cons y ys, h => by
      simp only [Args.genOf, Bool.and_eq_true] at h
      simp [Args.sameKinds, GArg.sameKind_of_genOf h.1, Args.sameKinds_of_genOf xs ys h.2]
  | .nil, .cons _ _, h => by simp [Args.genOf] at h
  | .cons _ _, .nil, h => by simp [Args.genOf] at h

theorem GArg.sameKind_trans {a b c : GArg} (h1 : a.sameKind b = true) (h2 : b.sameKind c = true) :
    a.sameKind c = true := by
  cases a <;> cases b <;> cases c <;> simp_all [GArg.sameKind]

theorem Args.sameKinds_trans : (a b c : Args) → a.sameKinds b = true → b.sameKinds c = true → a.sameKinds c = true
  | .nil, .nil, .nil, _, _ => by simp [Args.sameKinds]
  | .cons x xs, .cons y ys, .cons z zs, h1, h2 => by
      simp only [Args.sameKinds, Bool.and_eq_true] at h1 h2 ⊢
      exact ⟨GArg.sameKind_trans h1.1 h2.1, Args.sameKinds_trans xs ys zs h1.2 h2.2⟩
  | .nil, .nil, .cons _ _, _, h2 => by simp [Args.sameKinds] at h2
  | .nil, .cons _ _, _, h1, _ => by simp [Args.sameKinds] at h1
  | .cons _ _, .nil, _, h1, _ => by simp [Args.sameKinds] at h1
  | .cons _ _, .cons _ _, .nil, _, h2 => by simp [Args.sameKinds] at h2

theorem Args.length_eq_of_sameKinds : (a b : Args) → a.sameKinds b = true → a.length = b.length
  | .nil, .nil, _ => rfl
  | .cons x xs, .cons y ys, h => by
      simp only [Args.sameKinds, Bool.and_eq_true] at h
      have := Args.length_eq_of_sameKinds xs ys h.2
      simp [Args.length, Args.toList] at this ⊢
      exact this
  | .nil, .cons _ _, h => by simp [Args.sameKinds] at h
  | .cons _ _, .nil, h => by simp [Args.sameKinds] at h

/-! ### the stream test looks at EVERY remaining stored answer -/

theorem anyFutureInvalidates_false (cur : Args) : (rest : List CAnswer) →
    anyFutureInvalidates cur rest = .ok false → ∀ a, a ∈ rest → mayInvalidate a.subst cur = .ok false
  | [], _, a, ha => by simp at ha
  | b :: rest, h, a, ha => by
      simp only [anyFutureInvalidates] at h
      split at h
      · simp at h
      · rename_i hb
        rcases List.mem_cons.mp ha with e | hm
        · rw [e]; exact hb
        · exact anyFutureInvalidates_false cur rest h a hm
      · simp at h

/-! ### coverage -/

/-- `g` covers `t`: equal, or a structural generalisation -/
def Covers (g t : Args) : Prop := g = t ∨ g.genOf t = true

theorem Covers.refl (g : Args) : Covers g g := Or.inl rfl

theorem Covers.trans {a b c : Args} (h1 : Covers a b) (h2 : Covers b c) : Covers a c := by
  rcases h1 with e | h1
  · rw [e]; exact h2
  · rcases h2 with e | h2
    · rw [← e]; exact Or.inr h1
    · exact Or.inr (Args.genOf_trans a b c h1 h2)

theorem guidanceLoop_covers (us : List Nat) : (rest : List CAnswer) → (subst : Canon Args) → (n : Nat) →
    (g : Canon Args) → (m : Nat) →
    guidanceLoop us rest subst n = .ok (.definite g, m) →
    (∀ a, a ∈ rest → subst.value.sameKinds a.subst = true) →
    Covers g.value subst.value ∧ ∀ a, a ∈ rest → Covers g.value a.subst
  | rest, subst, n, g, m, h, hk => by
      unfold guidanceLoop at h
      split at h
      · simp at h
      · split at h
        · simp at h
        · -- no stored answer can invalidate the guidance: every one is a structural instance
          rename_i hf
          simp at h
          have hg : g = subst := h.1.symm
          subst hg
          refine ⟨Covers.refl _, fun a ha => Or.inr ?_⟩
          have hmi := anyFutureInvalidates_false g.value rest hf a ha
          have hl : a.subst.length = g.value.length := (Args.length_eq_of_sameKinds _ _ (hk a ha)).symm
          exact miAny_false a.subst g.value hmi hl
        · cases rest with
          | nil =>
            simp at h
            have hg : g = subst := h.1.symm
            subst hg
            exact ⟨Covers.refl _, fun a ha => by simp at ha⟩
          | cons a rest' =>
            simp only at h
            cases hm : mergeIntoGuidance us subst.value a.subst with
            | error e => simp [hm] at h
            | ok s' =>
              simp only [hm] at h
              have hka : subst.value.sameKinds a.subst = true := hk a (List.mem_cons_self ..)
              have hgen : s'.value.genOf subst.value = true ∧ s'.value.genOf a.subst = true := by
                unfold mergeIntoGuidance at hm
                cases hml : mergeLoop us 0 subst.value a.subst [] with
                | error e => simp [hml] at hm
                | ok p =>
                  obtain ⟨v, st⟩ := p
                  simp [hml] at hm
                  rw [← hm]
                  exact mergeLoop_gen us 0 subst.value a.subst [] v st hml hka
              have hk' : ∀ b, b ∈ rest' → s'.value.sameKinds b.subst = true := fun b hb =>
                Args.sameKinds_trans _ _ _ (Args.sameKinds_of_genOf _ _ hgen.1) (hk b (List.mem_cons_of_mem _ hb))
              have ih := guidanceLoop_covers us rest' s' (n + 1) g m h hk'
              refine ⟨ih.1.trans (Or.inr hgen.1), fun b hb => ?_⟩
              rcases List.mem_cons.mp hb with e | hb'
              · rw [e]; exact ih.1.trans (Or.inr hgen.2)
              · exact ih.2 b hb'

end Chalk
