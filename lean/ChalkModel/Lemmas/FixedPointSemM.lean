/-
  FixedPointSemM.lean — TOTALITY, part 3: the loop, `solve_goal`, `solve_root_goal`.
-/
import ChalkModel.Lemmas.FixedPointSemL

namespace Chalk.FixedPoint.Cyc

section
variable {c : Bool} {inst : Instance} {dom : List Nat} {fx : Bool} {rec : SubSolver} {cfg : Cfg} {D : Nat}

/-- the loop stops: with the optimistic provisional answer two rounds are left, or the provisional
    answer is already pessimistic and stable -/
def Rounds (c : Bool) (inst : Instance) (s0 : St) (g : Nat) (r : Nat) (st : St) : Prop :=
  (2 ≤ r ∧ st.graph = s0.graph ++ [headNode s0 g (top c)]) ∨
  (1 ≤ r ∧ st.graph = s0.graph ++ [headNode s0 g (bot c)] ∧ ¬ J c inst (InG c inst st) g)

theorem loop_good (hyp : Hyp c inst dom) (h3 : cfg.fixF3 = true) (h16 : fx = true → cfg.fixF16 = true)
    (hrec : SubSpec c inst dom fx rec)
    (hgood : SubGood c inst dom fx cfg D rec) {s0 : St} {g : Nat}
    (hres : cfg.overflowDepth < D + (s0.stack.length + 1)) :
    ∀ (r : Nat) (st : St), LoopSt c inst dom fx s0 g st → Rounds c inst s0 g r st →
      Good c inst cfg (solveNewSubgoal inst cfg rec g s0.stack.length s0.graph.length r st)
  | 0, st, _, hr => by
    cases hr with
    | inl h => exact absurd h.1 (by omega)
    | inr h => exact absurd h.1 (by omega)
  | r + 1, st, L, hr => by
    cases tick_cases cfg L.inv with
    | inr hp =>
      obtain ⟨st0, ht, h2⟩ := hp
      exact Or.inr ⟨st0, solveNewSubgoal_tick_panic _ _ _ _ _ _ _ _ _ _ ht, h2⟩
    | inl ht =>
    have L0 : LoopSt c inst dom fx s0 g { st with work := st.work + 1 } := L.work _
    cases solveIteration_good hyp h16 hrec hgood g L.gdom none _ L0.inv
      (by show cfg.overflowDepth < D + st.stack.length; rw [L.slen]; exact hres) with
    | inr hp =>
      obtain ⟨s1, hi, h2⟩ := hp
      exact Or.inr ⟨s1, solveNewSubgoal_iter_panic _ _ _ _ _ _ _ _ _ _ _ ht hi, h2⟩
    | inl hok =>
    obtain ⟨⟨cur, m⟩, s1, hi⟩ := hok
    obtain ⟨i1, hs, _, hf⟩ := solveIteration_sem hyp h3 hrec g L.gdom none _ cur m s1 L0.inv hi
    obtain ⟨old, new, A⟩ := After.intro L0 i1 hs hf
    have hlt : s0.stack.length < s1.stack.length := by rw [A.slen]; exact Nat.lt_succ_self _
    have he : s1.stack[s0.stack.length]? = some s1.stack[s0.stack.length] := List.getElem?_eq_getElem hlt
    generalize s1.stack[s0.stack.length] = e at he
    rw [solveNewSubgoal_step inst cfg rec g _ _ r st _ s1 cur m e _ ht hi he A.head]
    by_cases hc : e.cycle = true
    · simp only [hc, Bool.not_true, Bool.false_eq_true, if_false]
      have hsol : (headNode s0 g old).solution = old := rfl
      rw [hsol]
      by_cases hoc : old = cur
      · subst hoc
        have h1 : reachedFixedPoint old old = true := by simp [reachedFixedPoint]
        simp only [h1, if_true]
        exact Or.inl ⟨_, _, rfl⟩
      · by_cases hamb : cur = .ambig
        · -- interrupted: the loop stops
          subst hamb
          have h1 : reachedFixedPoint old .ambig = true := by simp [reachedFixedPoint]
          simp only [h1, if_true]
          exact Or.inl ⟨_, _, rfl⟩
        have h1 : reachedFixedPoint old cur = false := by simp [reachedFixedPoint, hoc, hamb]
        simp only [h1, Bool.false_eq_true, if_false]
        have hgr : updateNode (fun n => { n with solution := cur }) s0.graph.length s1.graph =
            s0.graph ++ (⟨g, cur, some s0.stack.length, some s0.graph.length⟩ : Node) :: new := by
          rw [A.g1, updateNode_mid]; rfl
        have hg2 : (rollbackTo (s0.graph.length + 1)
            (afterRound s0.stack.length s0.graph.length cur s1)).graph = s0.graph ++ [headNode s0 g cur] := by
          show (updateNode _ s0.graph.length s1.graph).take (s0.graph.length + 1) = _
          rw [hgr, take_mid]
          rfl
        have L2 : LoopSt c inst dom fx s0 g
            (rollbackTo (s0.graph.length + 1) (afterRound s0.stack.length s0.graph.length cur s1)) :=
          A.restart ⟨rfl, rfl, rfl, rfl⟩ rfl hg2
        -- the provisional answer was optimistic, the outcome is pessimistic
        have hold : old = top c ∧ 1 ≤ r := by
          cases hr with
          | inl h =>
            have := List.append_cancel_left (A.gt.symm.trans h.2)
            simp only [headNode, List.cons.injEq, Node.mk.injEq, and_true, true_and] at this
            exact ⟨this, by omega⟩
          | inr h =>
            exfalso
            have := List.append_cancel_left (A.gt.symm.trans h.2.1)
            simp only [headNode, List.cons.injEq, Node.mk.injEq, and_true, true_and] at this
            rcases A.cur_val with e | e | e
            · exact h.2.2 (A.top_inG e)
            · exact hoc (this.trans e.symm)
            · exact hamb e
        have hcur : cur = bot c := by
          rcases A.cur_val with e | e | e
          · exact absurd (hold.1.trans e.symm) hoc
          · exact e
          · exact absurd e hamb
        refine loop_good hyp h3 h16 hrec hgood hres r _ L2 (Or.inr ⟨hold.2, by rw [hg2, hcur], ?_⟩)
        intro hj
        rcases A.fact with h | h | h
        · rw [hcur] at h; exact absurd h.1.symm (top_ne_bot c)
        · exact J.dual (J.mono (fun j hj => hj.2) h.2)
            (J.mono (fun j hj => A.restart_sub
              (s2 := rollbackTo (s0.graph.length + 1) (afterRound s0.stack.length s0.graph.length cur s1))
              hcur ⟨rfl, rfl, rfl, rfl⟩ hg2 j hj) hj)
        · exact absurd h.1 hamb
    · have hc' : e.cycle = false := by cases h' : e.cycle <;> simp_all
      simp only [hc', Bool.not_false, if_true]
      exact Or.inl ⟨_, _, rfl⟩

theorem finishGoal_tot {s0 : St} {g : Nat} {sub : Min} {s3 : St}
    (hp : LoopPost c inst dom fx s0 g sub s3) (m : Min) :
    ∃ v m' s', finishGoal cfg m s0.stack.length s0.graph.length sub s3 = .ok (v, m') s' := by
  obtain ⟨st', s1, old, cur, new, new3, A, hcase, hg3, hlen3, hget3, R3⟩ := hp
  have hg4 : updateNode (fun n => { n with links := sub, stackDepth := none }) s0.graph.length s3.graph =
      s0.graph ++ (⟨g, cur, none, sub⟩ : Node) :: new3 := by
    rw [hg3, updateNode_mid]
  have hpop : s0.stack.length + 1 = s3.stack.length := hlen3.symm
  simp only [finishGoal, pop, hpop, if_true, hg4, mid_at]
  by_cases hge : Min.ge sub s0.graph.length = true
  · cases hc3 : s3.cache with
    | none =>
      simp only [hge, if_true]
      exact ⟨_, _, _, rfl⟩
    | some cc1 =>
      by_cases hand : (cfg.fixF3 && s3.interrupted) = true
      · simp only [hge, if_true, hand]
        exact ⟨_, _, _, rfl⟩
      · simp only [hge, if_true, hand, Bool.false_eq_true, if_false, moveToCache,
          List.drop_left, List.take_left]
        obtain ⟨cc6, hdr⟩ := drain_ok s0.graph.length ((⟨g, cur, none, sub⟩ : Node) :: new3) cc1 (by
          intro n hn
          cases List.mem_cons.mp hn with
          | inl e => rw [e]; exact ⟨rfl, hge⟩
          | inr e =>
            cases hcase with
            | inl h1 =>
              rw [h1.1] at e
              exact ⟨(A.hnew n e).1, (minGe_iff _ _).mpr (((minGe_iff _ _).mp hge).trans (A.hnew n e).2)⟩
            | inr h1 => rw [h1.1] at e; cases e)
        rw [hdr]
        exact ⟨_, _, _, rfl⟩
  · simp only [hge, Bool.false_eq_true, if_false]
    exact ⟨_, _, _, rfl⟩

/-- `solve_goal` returns, or ends in the budget panic with a correct cache: no assert of the
    framework fires, the stack does not overflow, the loop stops within two rounds -/
theorem solveGoal_good (hyp : Hyp c inst dom) (h3 : cfg.fixF3 = true) (h10 : fx = true → cfg.fixF10 = true)
    (h16 : fx = true → cfg.fixF16 = true) (hov : dom.length ≤ cfg.overflowDepth) (hr : 2 ≤ cfg.rounds) :
    ∀ d, SubGood c inst dom fx cfg d (solveGoal inst cfg d)
  | 0 => by
    intro g m s hi _ hres
    have := hi.stack_le
    omega
  | d + 1 => by
    intro g m s hi hg hres
    cases tick_cases cfg hi with
    | inr hp =>
      obtain ⟨s0, ht, h2⟩ := hp
      exact Or.inr ⟨s0, solveGoal_tick_panic _ _ _ _ _ _ _ _ ht, h2⟩
    | inl ht =>
    have i0 : Inv c inst dom fx { s with work := s.work + 1 } := hi.work _
    cases hc : cacheLookup ({ s with work := s.work + 1 } : St) g with
    | some w => exact Or.inl ⟨_, _, solveGoal_cached inst cfg d g m s _ w ht hc⟩
    | none =>
      cases hl : lookup ({ s with work := s.work + 1 } : St).graph g with
      | some dfn =>
        obtain ⟨node, hn, hgo⟩ := lookup_some hl
        rw [solveGoal_hit inst cfg d g m s _ ht hc dfn hl node hn]
        cases hsd : node.stackDepth with
        | none => exact Or.inl ⟨_, _, rfl⟩
        | some depth =>
          obtain ⟨hdl, _⟩ := i0.stk dfn node depth hn hsd
          have hnle : ¬ ({ s with work := s.work + 1 } : St).stack.length ≤ depth := Nat.not_le.mpr hdl
          have hext := stackExt_setCycle_true depth s.stack
          have i1 : Inv c inst dom fx { ({ s with work := s.work + 1 } : St) with stack := setCycle true depth s.stack } :=
            i0.stackChange rfl ⟨rfl, rfl, rfl, rfl⟩ hext
          have hmix : mixedFrom (setCycle true depth ({ s with work := s.work + 1 } : St).stack) depth = false :=
            mixedFrom_false i1.stackCo depth
          simp only [hnle, if_false, hmix, Bool.false_eq_true]
          exact Or.inl ⟨_, _, rfl⟩
      | none =>
        have hu : Undef ({ s with work := s.work + 1 } : St) g := by
          intro w hw
          cases hw with
          | inl hw =>
            rw [inCache_iff_lookup, hc] at hw
            cases hw
          | inr hw =>
            obtain ⟨i, n, hn, hgo, _⟩ := hw
            exact lookup_none hl n (List.mem_of_getElem? hn) hgo
        have hlt : s.stack.length < dom.length := i0.stack_lt hg hu
        have hnov : ¬ cfg.overflowDepth ≤ ({ s with work := s.work + 1 } : St).stack.length := by
          show ¬ cfg.overflowDepth ≤ s.stack.length
          omega
        rw [solveGoal_new inst cfg d g m s _ ht hc hl hnov]
        have hspec := solveGoal_sem (cfg := cfg) hyp h3 h10 d
        have L := push_loopSt hyp i0 hu hg
        cases loop_good hyp h3 h16 hspec (solveGoal_good hyp h3 h10 h16 hov hr d)
          (s0 := { s with work := s.work + 1 }) (g := g)
          (by show cfg.overflowDepth < d + (s.stack.length + 1); omega) cfg.rounds _ L
          (Or.inl ⟨hr, by
            have hco : inst.coind g = c := hyp.coind g hg
            simp only [pushed, headNode, top, hco]⟩) with
        | inr hp =>
          obtain ⟨s3, hloop, h2⟩ := hp
          rw [hloop]
          exact Or.inr ⟨s3, rfl, h2⟩
        | inl hok =>
          obtain ⟨sub, s3, hloop⟩ := hok
          rw [hloop]
          obtain ⟨v, m', s', h⟩ := finishGoal_tot (loop_sem hyp h3 h10 hspec cfg.rounds _ sub s3 L hloop) m
          exact Or.inl ⟨(v, m'), s', h⟩

/-- TOTALITY of `solve_goal` without a work budget -/
theorem solveGoal_tot (hyp : Hyp c inst dom) (h3 : cfg.fixF3 = true) (h10 : fx = true → cfg.fixF10 = true)
    (h16 : fx = true → cfg.fixF16 = true) (hb : cfg.budget = none)
    (hov : dom.length ≤ cfg.overflowDepth) (hr : 2 ≤ cfg.rounds) :
    ∀ d, SubTot c inst dom fx cfg d (solveGoal inst cfg d) := by
  intro d g m s hi hg hres
  obtain ⟨⟨v, m'⟩, s', h⟩ := (solveGoal_good hyp h3 h10 h16 hov hr d g m s hi hg hres).of_none hb
  exact ⟨v, m', s', h⟩

end

end Chalk.FixedPoint.Cyc
