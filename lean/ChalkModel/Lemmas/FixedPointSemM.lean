/-
  FixedPointSemM.lean — TOTALITY, part 3: the loop, `solve_goal`, `solve_root_goal`.
-/
import ChalkModel.Lemmas.FixedPointSemL

namespace Chalk.FixedPoint.Cyc

section
variable {c : Bool} {inst : Instance} {dom : List Nat} {rec : SubSolver} {cfg : Cfg} {D : Nat}

/-- the loop stops: with the optimistic provisional answer two rounds are left, or the provisional
    answer is already pessimistic and stable -/
def Rounds (c : Bool) (inst : Instance) (s0 : St) (g : Nat) (r : Nat) (st : St) : Prop :=
  (2 ≤ r ∧ st.graph = s0.graph ++ [headNode s0 g (top c)]) ∨
  (1 ≤ r ∧ st.graph = s0.graph ++ [headNode s0 g (bot c)] ∧ ¬ J c inst (InG c inst st) g)

theorem loop_tot (hyp : Hyp c inst dom) (hb : cfg.budget = none) (hrec : SubSpec c inst dom rec)
    (htot : SubTot c inst dom cfg D rec) {s0 : St} {g : Nat}
    (hres : cfg.overflowDepth < D + (s0.stack.length + 1)) :
    ∀ (r : Nat) (st : St), LoopSt c inst dom s0 g st → Rounds c inst s0 g r st →
      ∃ sub s3, solveNewSubgoal inst cfg rec g s0.stack.length s0.graph.length r st = .ok sub s3
  | 0, st, _, hr => by
    cases hr with
    | inl h => exact absurd h.1 (by omega)
    | inr h => exact absurd h.1 (by omega)
  | r + 1, st, L, hr => by
    have ht := tick_none hb st
    have L0 : LoopSt c inst dom s0 g { st with work := st.work + 1 } := L.work _
    obtain ⟨cur, m, s1, hi⟩ := solveIteration_tot hyp hrec htot g L.gdom none _ L0.inv
      (by show cfg.overflowDepth < D + st.stack.length; rw [L.slen]; exact hres)
    obtain ⟨i1, hs, _, hf⟩ := solveIteration_sem hyp hrec g L.gdom none _ cur m s1 L0.inv hi
    obtain ⟨old, new, A⟩ := After.intro L0 i1 hs hf
    have hlt : s0.stack.length < s1.stack.length := by rw [A.slen]; exact Nat.lt_succ_self _
    have he : s1.stack[s0.stack.length]? = some s1.stack[s0.stack.length] := List.getElem?_eq_getElem hlt
    generalize s1.stack[s0.stack.length] = e at he
    rw [solveNewSubgoal_step inst cfg rec g _ _ r st _ s1 cur m e _ ht hi he A.head]
    by_cases hc : e.cycle = true
    · simp only [hc, Bool.not_true, Bool.false_eq_true, if_false]
      have hsol : (headNode s0 g old).solution = old := rfl
      rw [hsol]
      by_cases hoc : old = cur
      · subst hoc
        have h1 : reachedFixedPoint old old = true := by simp [reachedFixedPoint]
        simp only [h1, if_true]
        exact ⟨_, _, rfl⟩
      · have hamb : cur ≠ .ambig := by
          cases A.cur_val with
          | inl e => rw [e]; exact top_ne_ambig c
          | inr e => rw [e]; exact bot_ne_ambig c
        have h1 : reachedFixedPoint old cur = false := by simp [reachedFixedPoint, hoc, hamb]
        simp only [h1, Bool.false_eq_true, if_false]
        have hgr : updateNode (fun n => { n with solution := cur }) s0.graph.length s1.graph =
            s0.graph ++ (⟨g, cur, some s0.stack.length, some s0.graph.length⟩ : Node) :: new := by
          rw [A.g1, updateNode_mid]; rfl
        have hg2 : (rollbackTo (s0.graph.length + 1)
            (afterRound s0.stack.length s0.graph.length cur s1)).graph = s0.graph ++ [headNode s0 g cur] := by
          show (updateNode _ s0.graph.length s1.graph).take (s0.graph.length + 1) = _
          rw [hgr, take_mid]
          rfl
        have L2 : LoopSt c inst dom s0 g
            (rollbackTo (s0.graph.length + 1) (afterRound s0.stack.length s0.graph.length cur s1)) :=
          A.restart ⟨rfl, rfl, rfl, rfl⟩ rfl hg2
        -- the provisional answer was optimistic, the outcome is pessimistic
        have hold : old = top c ∧ 1 ≤ r := by
          cases hr with
          | inl h =>
            have := List.append_cancel_left (A.gt.symm.trans h.2)
            simp only [headNode, List.cons.injEq, Node.mk.injEq, and_true, true_and] at this
            exact ⟨this, by omega⟩
          | inr h =>
            exfalso
            have := List.append_cancel_left (A.gt.symm.trans h.2.1)
            simp only [headNode, List.cons.injEq, Node.mk.injEq, and_true, true_and] at this
            cases A.cur_val with
            | inl e => exact h.2.2 (A.top_inG e)
            | inr e => exact hoc (this.trans e.symm)
        have hcur : cur = bot c := by
          cases A.cur_val with
          | inl e => exact absurd (hold.1.trans e.symm) hoc
          | inr e => exact e
        refine loop_tot hyp hb hrec htot hres r _ L2 (Or.inr ⟨hold.2, by rw [hg2, hcur], ?_⟩)
        intro hj
        cases A.fact with
        | inl h => rw [hcur] at h; exact absurd h.1.symm (top_ne_bot c)
        | inr h =>
          exact J.dual (J.mono (fun j hj => hj.2) h.2)
            (J.mono (fun j hj => A.restart_sub
              (s2 := rollbackTo (s0.graph.length + 1) (afterRound s0.stack.length s0.graph.length cur s1))
              hcur ⟨rfl, rfl, rfl, rfl⟩ hg2 j hj) hj)
    · have hc' : e.cycle = false := by cases h' : e.cycle <;> simp_all
      simp only [hc', Bool.not_false, if_true]
      exact ⟨_, _, rfl⟩

theorem finishGoal_tot {s0 : St} {g : Nat} {sub : Min} {s3 : St}
    (hp : LoopPost c inst dom s0 g sub s3) (m : Min) :
    ∃ v m' s', finishGoal cfg m s0.stack.length s0.graph.length sub s3 = .ok (v, m') s' := by
  obtain ⟨st', s1, old, cur, new, A, hfl, hg3, hlen3, hget3, R3⟩ := hp
  have hg4 : updateNode (fun n => { n with links := sub, stackDepth := none }) s0.graph.length s3.graph =
      s0.graph ++ (⟨g, cur, none, sub⟩ : Node) :: new := by
    rw [hg3, updateNode_mid]
  have hpop : s0.stack.length + 1 = s3.stack.length := hlen3.symm
  simp only [finishGoal, pop, hpop, if_true, hg4, mid_at]
  by_cases hge : Min.ge sub s0.graph.length = true
  · obtain ⟨cc1, hc1⟩ := A.i1.cacheOn
    have hint : s3.interrupted = false := by rw [R3.interrupted]; exact A.i1.quiet.2.2
    have hc3 : s3.cache = some cc1 := by rw [R3.cache]; exact hc1
    have hand : (cfg.fixF3 && s3.interrupted) = false := by rw [hint]; simp
    simp only [hge, if_true, hc3, hand, Bool.false_eq_true, if_false, moveToCache,
      List.drop_left, List.take_left]
    obtain ⟨cc6, hdr⟩ := drain_ok s0.graph.length ((⟨g, cur, none, sub⟩ : Node) :: new) cc1 (by
      intro n hn
      cases List.mem_cons.mp hn with
      | inl e => rw [e]; exact ⟨rfl, hge⟩
      | inr e =>
        exact ⟨(A.hnew n e).1, (minGe_iff _ _).mpr (((minGe_iff _ _).mp hge).trans (A.hnew n e).2)⟩)
    rw [hdr]
    exact ⟨_, _, _, rfl⟩
  · simp only [hge, Bool.false_eq_true, if_false]
    exact ⟨_, _, _, rfl⟩

/-- TOTALITY of `solve_goal`: no assert of the framework fires, the stack does not overflow, the
    loop stops within two rounds -/
theorem solveGoal_tot (hyp : Hyp c inst dom) (hb : cfg.budget = none)
    (hov : dom.length ≤ cfg.overflowDepth) (hr : 2 ≤ cfg.rounds) :
    ∀ d, SubTot c inst dom cfg d (solveGoal inst cfg d)
  | 0 => by
    intro g m s hi _ hres
    have := hi.stack_le
    omega
  | d + 1 => by
    intro g m s hi hg hres
    have ht := tick_none hb s
    have i0 : Inv c inst dom { s with work := s.work + 1 } := hi.work _
    obtain ⟨cc, hcc⟩ := i0.cacheOn
    cases hc : cacheGet cc g with
    | some w => exact ⟨_, _, _, solveGoal_cached inst cfg d g m s _ w ht cc hcc hc⟩
    | none =>
      cases hl : lookup ({ s with work := s.work + 1 } : St).graph g with
      | some dfn =>
        obtain ⟨node, hn, hgo⟩ := lookup_some hl
        rw [solveGoal_hit inst cfg d g m s _ ht cc hcc hc dfn hl node hn]
        cases hsd : node.stackDepth with
        | none => exact ⟨_, _, _, rfl⟩
        | some depth =>
          obtain ⟨hdl, _⟩ := i0.stk dfn node depth hn hsd
          have hnle : ¬ ({ s with work := s.work + 1 } : St).stack.length ≤ depth := Nat.not_le.mpr hdl
          have hext := stackExt_setCycle_true depth s.stack
          have i1 : Inv c inst dom { ({ s with work := s.work + 1 } : St) with stack := setCycle true depth s.stack } :=
            i0.stackChange rfl ⟨rfl, rfl, rfl, rfl⟩ hext
          have hmix : mixedFrom (setCycle true depth ({ s with work := s.work + 1 } : St).stack) depth = false :=
            mixedFrom_false i1.stackCo depth
          simp only [hnle, if_false, hmix, Bool.false_eq_true]
          exact ⟨_, _, _, rfl⟩
      | none =>
        have hu : Undef ({ s with work := s.work + 1 } : St) g := by
          intro w hw
          cases hw with
          | inl hw =>
            obtain ⟨cc', e, hk⟩ := hw
            rw [hcc] at e
            cases e
            rw [hc] at hk
            cases hk
          | inr hw =>
            obtain ⟨i, n, hn, hgo, _⟩ := hw
            exact lookup_none hl n (List.mem_of_getElem? hn) hgo
        have hlt : s.stack.length < dom.length := i0.stack_lt hg hu
        have hnov : ¬ cfg.overflowDepth ≤ ({ s with work := s.work + 1 } : St).stack.length := by
          show ¬ cfg.overflowDepth ≤ s.stack.length
          omega
        rw [solveGoal_new inst cfg d g m s _ ht cc hcc hc hl hnov]
        have hspec := solveGoal_sem (cfg := cfg) hyp d
        have L := push_loopSt hyp i0 hu hg
        obtain ⟨sub, s3, hloop⟩ := loop_tot hyp hb hspec (solveGoal_tot hyp hb hov hr d)
          (s0 := { s with work := s.work + 1 }) (g := g)
          (by show cfg.overflowDepth < d + (s.stack.length + 1); omega) cfg.rounds _ L
          (Or.inl ⟨hr, by
            have hco : inst.coind g = c := hyp.coind g hg
            simp only [pushed, headNode, top, hco]⟩)
        rw [hloop]
        exact finishGoal_tot (loop_sem hyp hspec cfg.rounds _ sub s3 L hloop) m

end

end Chalk.FixedPoint.Cyc
