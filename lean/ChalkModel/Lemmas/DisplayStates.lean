/-
  C22: the parser states of items are faithful: `PSt.init.deeper ks none` (struct/enum/impl),
  `PSt.init.deeper (.ty :: own) (some 0)` (trait, `Self` first) and the "mapped" states inside
  associated types and associated type values.
-/
import ChalkModel.Lemmas.DisplayWhere

set_option linter.unusedSimpArgs false
set_option linter.unusedVariables false

namespace Chalk.Display.Parse
open Chalk.Display

theorem faithful_item (ks : List VK) : Faithful (PSt.init.deeper ks none) := Faithful.init.deeper ks

theorem fresh_item : FreshFrom (St.init.deeper none) 0 := Faithful.init.fresh_deeper

theorem faithful_trait (own : List VK) : Faithful (PSt.init.deeper (.ty :: own) (some 0)) where
  deep := rfl
  keys := fun k w hm => by simp [PSt.init, PSt.deeper, St.init, St.deeper] at hm
  self := fun r hr => by
    simp [PSt.init, PSt.deeper, St.init, St.deeper] at hr
    subst hr; simp [PSt.init, PSt.deeper, St.init, St.deeper]
  var := fun d i k hk hne => by
    cases d with
    | succ d => simp [PSt.init, PSt.deeper, kindAt] at hk
    | zero =>
      by_cases hi : i = 0
      · subst hi
        simp [PSt.init, PSt.deeper, St.init, St.deeper, St.inv, St.varTok, lookupPair, PSt.varOf, PSt.decode, invLookup]
      · have : ¬ (0 = i) := fun e => hi e.symm
        simp [PSt.init, PSt.deeper, St.init, St.deeper, St.inv, St.varTok, lookupPair, PSt.varOf, PSt.decode,
          invLookup, hi, this]
  lt := fun d i hk => by
    cases d with
    | succ d => simp [PSt.init, PSt.deeper, kindAt] at hk
    | zero =>
      by_cases hi : i = 0
      · subst hi
        simp [PSt.init, PSt.deeper, kindAt] at hk
      · have : ¬ (0 = i) := fun e => hi e.symm
        simp [PSt.init, PSt.deeper, St.init, St.deeper, St.inv, St.ltTok, lookupPair, PSt.decode,
          invLookup, hi, this]
        exact ⟨1, i, ⟨rfl, rfl⟩, Nat.le_refl 1, rfl, rfl⟩

theorem fresh_trait : FreshFrom (St.init.deeper (some 0)) 1 := by
  intro j hj
  have : ¬ (0 = j) := by omega
  simp [St.init, St.deeper, lookupPair, this]

/-! ### mapped states -/

theorem lookupPair_of_mem : ∀ (m : List ((Nat × Nat) × (Nat × Nat))) (k w : Nat × Nat),
    (k, w) ∈ m → (∀ w', (k, w') ∈ m → w' = w) → lookupPair k m = some w
  | [], _, _, h, _ => by simp at h
  | (k0, w0) :: m, k, w, h, hu => by
      by_cases e : k0 = k
      · subst e
        have := hu w0 (by simp)
        simp [lookupPair, this]
      · simp only [lookupPair, e, if_false]
        refine lookupPair_of_mem m k w ?_ (fun w' h' => hu w' (by simp [h']))
        rcases List.mem_cons.1 h with h | h
        · simp at h; exact absurd h.1.symm e
        · exact h

theorem invLookup_of_mem : ∀ (m : List ((Nat × Nat) × (Nat × Nat))) (k w : Nat × Nat),
    (k, w) ∈ m → (∀ k', (k', w) ∈ m → k' = k) → invLookup w m = some k
  | [], _, _, h, _ => by simp at h
  | (k0, w0) :: m, k, w, h, hu => by
      by_cases e : w0 = w
      · subst e
        have := hu k0 (by simp)
        simp [invLookup, this]
      · simp only [invLookup, e, if_false]
        refine invLookup_of_mem m k w ?_ (fun k' h' => hu k' (by simp [h']))
        rcases List.mem_cons.1 h with h | h
        · simp at h; exact absurd h.2.symm e
        · exact h

/-- the remapping table of a mapped state -/
def mapTable (D n : Nat) : List ((Nat × Nat) × (Nat × Nat)) :=
  (List.range n).map (fun i => ((D + 1, i), (D, i)))

theorem mem_mapTable {D n : Nat} {k w : Nat × Nat} :
    (k, w) ∈ mapTable D n ↔ ∃ i, i < n ∧ k = (D + 1, i) ∧ w = (D, i) := by
  simp only [mapTable, List.mem_map, List.mem_range, Prod.mk.injEq]
  constructor
  · rintro ⟨i, hi, h1, h2⟩; exact ⟨i, hi, h1.symm, h2.symm⟩
  · rintro ⟨i, hi, h1, h2⟩; exact ⟨i, hi, h1.symm, h2.symm⟩

theorem lookup_mapTable_lt {D n i : Nat} (hi : i < n) : lookupPair (D + 1, i) (mapTable D n) = some (D, i) := by
  apply lookupPair_of_mem
  · exact mem_mapTable.2 ⟨i, hi, rfl, rfl⟩
  · intro w' h
    obtain ⟨j, _, h1, h2⟩ := mem_mapTable.1 h
    simp at h1; subst h1; exact h2

theorem lookup_mapTable_ge {D n i : Nat} (hi : n ≤ i) : lookupPair (D + 1, i) (mapTable D n) = none := by
  apply lookupPair_none
  intro k w h e
  obtain ⟨j, hj, h1, h2⟩ := mem_mapTable.1 h
  subst e; simp at h1; omega

theorem invLookup_mapTable_lt {D n i : Nat} (hi : i < n) : invLookup (D, i) (mapTable D n) = some (D + 1, i) := by
  apply invLookup_of_mem
  · exact mem_mapTable.2 ⟨i, hi, rfl, rfl⟩
  · intro k' h
    obtain ⟨j, _, h1, h2⟩ := mem_mapTable.1 h
    simp at h2; subst h2; exact h1

theorem invLookup_mapTable_top {D n i : Nat} : invLookup (D + 1, i) (mapTable D n) = none := by
  apply invLookup_none
  intro k w h e
  obtain ⟨j, hj, h1, h2⟩ := mem_mapTable.1 h
  subst e; simp at h2

theorem mapped_st (p : PSt) (n : Nat) (ks : List VK) (hn : n ≤ ks.length) (hre : p.st.remap = []) :
    (p.mapped n ks).st = ⟨p.st.deep + 1, mapTable p.st.deep n, p.st.self?⟩ := by
  simp only [PSt.mapped, St.addMapping, St.deeper, St.binderIndices, hre, List.append_nil, mapTable]
  rw [← List.map_take, List.take_range, Nat.min_eq_left hn, List.zip_map']

theorem kindAt_blank (l : List (List VK)) (d i : Nat) : kindAt (l.map (fun _ => [])) d i = none := by
  simp only [kindAt, List.getElem?_map]
  cases l[d]? <;> simp

theorem kindAt_mapped {p : PSt} {n : Nat} {ks : List VK} {d i : Nat} {k : VK}
    (h : kindAt (p.mapped n ks).env d i = some k) : d = 0 ∧ ks[i]? = some k := by
  cases d with
  | zero => exact ⟨rfl, by simpa [PSt.mapped, kindAt] using h⟩
  | succ d =>
      rw [show (p.mapped n ks).env = ks :: p.env.map (fun _ => []) from rfl, kindAt_succ, kindAt_blank] at h
      simp at h

theorem Faithful.mapped {p : PSt} (hp : Faithful p) (hre : p.st.remap = []) {ks0 tl} (henv : p.env = ks0 :: tl)
    (own : List VK) : Faithful (p.mapped ks0.length (ks0 ++ own)) := by
  have hst := mapped_st p ks0.length (ks0 ++ own) (by simp) hre
  have hdec_lt : ∀ i, i < ks0.length → (p.mapped ks0.length (ks0 ++ own)).decode (p.st.deep, i) = some (0, i) := by
    intro i hi
    simp [PSt.decode, hst, invLookup_mapTable_lt hi]
  have hdec_ge : ∀ i, (p.mapped ks0.length (ks0 ++ own)).decode (p.st.deep + 1, i) = some (0, i) := by
    intro i
    simp [PSt.decode, hst, invLookup_mapTable_top]
  have hself : ∀ i, p.st.self? ≠ some (p.st.deep + 1, i) := by
    intro i e
    have := hp.self _ e
    simp at this
    omega
  refine ⟨?_, ?_, ?_, ?_, ?_⟩
  · rw [hst]; simp [PSt.mapped, hp.deep]
  · intro k w hm
    rw [hst] at hm ⊢
    obtain ⟨j, _, h1, h2⟩ := mem_mapTable.1 hm
    subst h1 h2; simp
  · intro r hr
    rw [hst] at hr ⊢
    have := hp.self r hr
    simp only; omega
  · intro d i k hk hne
    obtain ⟨rfl, hki⟩ := kindAt_mapped hk
    by_cases hi : i < ks0.length
    · have htok : (p.mapped ks0.length (ks0 ++ own)).st.varTok ((p.mapped ks0.length (ks0 ++ own)).st.inv 0 i)
          = if p.st.self? = some (p.st.deep, i) then Tok.self else Tok.var p.st.deep i := by
        simp [hst, St.inv, St.varTok, lookup_mapTable_lt hi]
      rw [htok]
      split
      · rename_i hs
        simp only [PSt.varOf, hst, hs]
        exact hdec_lt i hi
      · exact hdec_lt i hi
    · have hi' : ks0.length ≤ i := by omega
      have htok : (p.mapped ks0.length (ks0 ++ own)).st.varTok ((p.mapped ks0.length (ks0 ++ own)).st.inv 0 i)
          = Tok.var (p.st.deep + 1) i := by
        simp [hst, St.inv, St.varTok, lookup_mapTable_ge hi', hself]
      rw [htok]
      exact hdec_ge i
  · intro d i hk
    obtain ⟨rfl, hki⟩ := kindAt_mapped hk
    by_cases hi : i < ks0.length
    · have hk0 : kindAt p.env 0 i = some .lt := by
        rw [henv, kindAt_zero]
        rwa [List.getElem?_append_left hi] at hki
      obtain ⟨a, b, h1, _⟩ := hp.lt 0 i hk0
      have hns : p.st.self? ≠ some (p.st.deep, i) := by
        intro e
        simp [St.ltTok, St.inv, hre, lookupPair, e] at h1
      refine ⟨p.st.deep, i, ?_, hdec_lt i hi⟩
      simp [hst, St.inv, St.ltTok, lookup_mapTable_lt hi, hns]
    · have hi' : ks0.length ≤ i := by omega
      refine ⟨p.st.deep + 1, i, ?_, hdec_ge i⟩
      simp [hst, St.inv, St.ltTok, lookup_mapTable_ge hi', hself]

theorem fresh_mapped {p : PSt} (hp : Faithful p) (hre : p.st.remap = []) (n : Nat) (ks : List VK) (hn : n ≤ ks.length) :
    FreshFrom (p.mapped n ks).st n := by
  intro j hj
  rw [mapped_st p n ks hn hre]
  refine ⟨lookup_mapTable_ge hj, ?_⟩
  intro e
  have := hp.self _ e
  simp at this
  omega

end Chalk.Display.Parse
