/-
  The STRUCTURE half of the rigid theorem for types whose lifetimes may be inference variables:
  on types without type/const inference variables (no bound variables, aliases, `dyn`, error type;
  fn pointers without binders) `relateTy` succeeds iff the lifetime-erased types are equal, and
  otherwise answers `NoSolution`; it never panics. The table changes (lifetime variables are unified
  or bound), the invariant "every lifetime variable in `S` is in range and unbound or bound to a
  rigid lifetime" is preserved, no variable or universe is created, only outlives goals are pushed.
-/
import ChalkModel.Lemmas.UnifyRigid
import ChalkModel.Lemmas.UnifyTable

namespace Chalk

/-! ## the fragment -/

def Lifetime.rigidT : Lifetime → Bool
  | .bound _ _ => false
  | _ => true

mutual
  def Ty.rigidT : Ty → Bool
    | .app _ args => args.rigidT
    | .scalar _ => true
    | .str => true
    | .never => true
    | .foreign _ => true
    | .placeholder _ _ => true
    | .array t c => t.rigidT && c.rigidT
    | .slice t => t.rigidT
    | .raw _ t => t.rigidT
    | .ref _ l t => l.rigidT && t.rigidT
    | .function nb _ args => nb == 0 && !args.isNil && args.rigidT
    | _ => false
  def Const.rigidT : Const → Bool
    | .mk ty v => ty.rigidT && v.rigid
  def GArg.rigidT : GArg → Bool
    | .ty t => t.rigidT
    | .lt l => l.rigidT
    | .ct c => c.rigidT
  def Args.rigidT : Args → Bool
    | .nil => true
    | .cons a as => a.rigidT && as.rigidT
end

def Lifetime.ltVars : Lifetime → List Nat
  | .infer v => [v]
  | _ => []

/- the lifetime variables occurring in a term -/
mutual
  def Ty.ltVars : Ty → List Nat
    | .app _ args => args.ltVars
    | .array t c => t.ltVars ++ c.ltVars
    | .slice t => t.ltVars
    | .raw _ t => t.ltVars
    | .ref _ l t => l.ltVars ++ t.ltVars
    | .function _ _ args => args.ltVars
    | .proj _ args => args.ltVars
    | .opaque _ args => args.ltVars
    | _ => []
  def Const.ltVars : Const → List Nat
    | .mk ty _ => ty.ltVars
  def GArg.ltVars : GArg → List Nat
    | .ty t => t.ltVars
    | .lt l => l.ltVars
    | .ct c => c.ltVars
  def Args.ltVars : Args → List Nat
    | .nil => []
    | .cons a as => a.ltVars ++ as.ltVars
end

/-- the lifetime variable `x` is in range and unbound or bound to a rigid lifetime -/
def LtVarOk (t : Table) (x : Nat) : Prop :=
  x < t.numVars ∧ (t.probeVar x = none ∨ ∃ l, t.probeVar x = some (.lt l) ∧ l.rigid = true)

/-- the state invariant: well-formed forest, every variable of `S` is a good lifetime variable -/
def Good (S : Nat → Prop) (st : UState) : Prop :=
  st.table.WF ∧ ∀ x, S x → LtVarOk st.table x

/-- what one successful relation does to the state -/
structure Step (S : Nat → Prop) (st st' : UState) : Prop where
  good : Good S st'
  numVars : st'.table.numVars = st.table.numVars
  maxU : st'.table.maxUniverse = st.table.maxUniverse
  goals : ∃ l, st'.goals = st.goals ++ outlivesGoals l

theorem Step.refl {S : Nat → Prop} {st : UState} (h : Good S st) : Step S st st :=
  ⟨h, rfl, rfl, [], by simp⟩

theorem Step.trans {S : Nat → Prop} {st1 st2 st3 : UState} (h12 : Step S st1 st2) (h23 : Step S st2 st3) :
    Step S st1 st3 := by
  obtain ⟨l1, e1⟩ := h12.goals
  obtain ⟨l2, e2⟩ := h23.goals
  exact ⟨h23.good, by rw [h23.numVars, h12.numVars], by rw [h23.maxU, h12.maxU], l1 ++ l2,
    by rw [e2, e1]; simp [List.append_assoc]⟩

/-- `r` succeeds with a good step when `P`, and is `NoSolution` otherwise -/
def Outcome (S : Nat → Prop) (st : UState) (P : Prop) (r : URes UState) : Prop :=
  (P → ∃ st', r = .ok st' ∧ Step S st st') ∧ (¬ P → r = .error .noSolution)

theorem Outcome.of_ok {S : Nat → Prop} {st st' : UState} {P : Prop} (hP : P) (h : Step S st st') :
    Outcome S st P (.ok st') :=
  ⟨fun _ => ⟨st', rfl, h⟩, fun hn => absurd hP hn⟩

theorem Outcome.of_err {S : Nat → Prop} {st : UState} {P : Prop} (hP : ¬ P) :
    Outcome S st P (.error .noSolution) :=
  ⟨fun h => absurd h hP, fun _ => rfl⟩

@[simp] theorem Outcome.false_err {S : Nat → Prop} {st : UState} :
    Outcome S st False (.error .noSolution) := Outcome.of_err (fun h => h)

theorem Outcome.congr {S : Nat → Prop} {st : UState} {P Q : Prop} {r : URes UState} (hPQ : P ↔ Q)
    (h : Outcome S st P r) : Outcome S st Q r :=
  ⟨fun hq => h.1 (hPQ.mpr hq), fun hq => h.2 (fun hp => hq (hPQ.mp hp))⟩

theorem Outcome.cases {S : Nat → Prop} {st : UState} {P : Prop} {r : URes UState} (h : Outcome S st P r) :
    (P ∧ ∃ st', r = .ok st' ∧ Step S st st') ∨ (¬ P ∧ r = .error .noSolution) := by
  by_cases hP : P
  · exact .inl ⟨hP, h.1 hP⟩
  · exact .inr ⟨hP, h.2 hP⟩

/-- sequencing, in continuation form: `k` is "match on the result, propagate errors" -/
theorem Outcome.bind {S : Nat → Prop} {st : UState} {P Q : Prop} {r : URes UState}
    (k : URes UState → URes UState) (f : UState → URes UState)
    (hok : ∀ s, k (.ok s) = f s) (herr : ∀ e, k (.error e) = .error e)
    (h1 : Outcome S st P r) (h2 : ∀ st', Step S st st' → Outcome S st' Q (f st')) :
    Outcome S st (P ∧ Q) (k r) := by
  rcases h1.cases with ⟨hP, st1, hr, hs⟩ | ⟨hP, hr⟩
  · rw [hr, hok]
    rcases (h2 st1 hs).cases with ⟨hQ, st2, hr2, hs2⟩ | ⟨hQ, hr2⟩
    · rw [hr2]; exact Outcome.of_ok ⟨hP, hQ⟩ (hs.trans hs2)
    · rw [hr2]; exact Outcome.of_err (fun h => hQ h.2)
  · rw [hr, herr]; exact Outcome.of_err (fun h => hP h.1)

/-! ## table facts for lifetime variables -/

theorem probeValue_of_probeVar_none (t : Table) (x : Nat) (h : t.probeVar x = none) :
    ∃ ui, t.probeValue x = .unbound ui := by
  unfold Table.probeVar at h
  cases hv : t.probeValue x with
  | unbound ui => exact ⟨ui, rfl⟩
  | bound g => rw [hv] at h; cases h

theorem LtVarOk.of_probe {t t' : Table} {x : Nat} (hn : t'.numVars = t.numVars)
    (hp : t'.probeVar x = t.probeVar x ∨ t'.probeVar x = none ∨
      ∃ l, t'.probeVar x = some (.lt l) ∧ l.rigid = true)
    (h : LtVarOk t x) : LtVarOk t' x := by
  refine ⟨by rw [hn]; exact h.1, ?_⟩
  rcases hp with hp | hp | hp
  · rw [hp]; exact h.2
  · exact .inl hp
  · exact .inr hp

/-- binding the class of an unbound variable to a lifetime -/
theorem unifyVarValue_unbound (t : Table) (x : Nat) (l : Lifetime) (h : t.probeVar x = none) :
    t.unifyVarValue x (.bound (.lt l)) =
      .ok { t with value := t.value.set (t.find x) (.bound (.lt l)) } := by
  obtain ⟨ui, hu⟩ := probeValue_of_probeVar_none t x h
  unfold Table.probeValue at hu
  unfold Table.unifyVarValue
  simp only [hu, unifyValues]

theorem unifyVarVar_unbound_ok (t : Table) (a b : Nat) (ha : t.probeVar a = none) (hb : t.probeVar b = none) :
    ∃ t', t.unifyVarVar a b = .ok t' := by
  obtain ⟨ua, hua⟩ := probeValue_of_probeVar_none t a ha
  obtain ⟨ub, hub⟩ := probeValue_of_probeVar_none t b hb
  unfold Table.probeValue at hua hub
  unfold Table.unifyVarVar
  simp only [hua, hub, unifyValues]
  repeat' split
  all_goals exact ⟨_, rfl⟩

/-- after unifying two unbound classes every old variable is unbound or as before -/
theorem unifyVarVar_unbound_spec (t t' : Table) (a b : Nat) (hwf : t.WF) (han : a < t.numVars)
    (hbn : b < t.numVars) (ha : t.probeVar a = none) (hb : t.probeVar b = none)
    (h : t.unifyVarVar a b = .ok t') :
    t'.WF ∧ t'.numVars = t.numVars ∧ t'.maxUniverse = t.maxUniverse ∧
    ∀ v, v < t.numVars → t'.probeVar v = t.probeVar v ∨ t'.probeVar v = none := by
  rcases t.unifyVarVar_cases a b t' hwf han hbn h with ⟨rfl, _⟩ | ⟨r1, r2, z, hr, hz, hwf', hfind, hval, hn, hmu⟩
  · exact ⟨hwf, rfl, rfl, fun v _ => .inl rfl⟩
  · refine ⟨hwf', hn, hmu, ?_⟩
    have hfa := t.find_lt hwf a han
    have hfb := t.find_lt hwf b hbn
    have hpa : (t.value.getD (t.find a) (.unbound 0)).toOpt = none := by rw [← Table.probeVar_eq]; exact ha
    have hpb : (t.value.getD (t.find b) (.unbound 0)).toOpt = none := by rw [← Table.probeVar_eq]; exact hb
    have hr2 : r2 < t.numVars := by
      rcases hr with ⟨_, e⟩ | ⟨_, e⟩ <;> subst e <;> assumption
    have h12 : (t.value.getD r1 (.unbound 0)).toOpt = none ∧ (t.value.getD r2 (.unbound 0)).toOpt = none := by
      rcases hr with ⟨e1, e2⟩ | ⟨e1, e2⟩ <;> subst e1 <;> subst e2 <;> exact ⟨by assumption, by assumption⟩
    have hzn : z.toOpt = none := by
      cases hzo : z.toOpt with
      | none => rfl
      | some g =>
        rcases hz with hz | hz <;> obtain ⟨_, _, s3, _⟩ := unifyValues_spec _ _ _ hz <;>
          rcases s3 g hzo with h' | h' <;>
          first | (rw [h12.1] at h'; cases h') | (rw [h12.2] at h'; cases h')
    intro v hv
    rw [Table.probeVar_eq t' v, hfind v hv, hval]
    by_cases h2 : (if t.find v = r1 then r2 else t.find v) = r2
    · right
      rw [h2, getD_set_eq _ _ _ _ (by rw [hwf.lenValue]; exact hr2)]; exact hzn
    · left
      rw [getD_set_ne _ _ _ _ _ (Ne.symm h2)]
      have : t.find v ≠ r1 := by intro e; rw [if_pos e] at h2; exact h2 rfl
      rw [if_neg this, ← Table.probeVar_eq]

/-! ## lifetimes -/

/-- a lifetime after shallow normalization: rigid, or an unbound variable of `S` -/
def Resolved (S : Nat → Prop) (t : Table) (l : Lifetime) : Prop :=
  l.rigid = true ∨ ∃ x, l = .infer x ∧ S x ∧ t.probeVar x = none

theorem Resolved.kindOk {S : Nat → Prop} {t : Table} {l : Lifetime} (h : Resolved S t l) :
    t.ltKindOk l = true ∧ t.normalizeLifetimeShallow l = none := by
  rcases h with h | ⟨x, rfl, _, hp⟩
  · exact ⟨ltKindOk_rigid t l h, normalizeLifetimeShallow_rigid t l h⟩
  · simp [Table.ltKindOk, Table.normalizeLifetimeShallow, hp]

theorem resolved_normalize {S : Nat → Prop} {st : UState} (hg : Good S st) (l : Lifetime)
    (hr : l.rigidT = true) (hS : ∀ x ∈ l.ltVars, S x) :
    st.table.ltKindOk l = true ∧ Resolved S st.table ((st.table.normalizeLifetimeShallow l).getD l) := by
  cases l <;> simp [Lifetime.rigidT] at hr
  case infer x =>
    have hSx : S x := hS x (by simp [Lifetime.ltVars])
    rcases (hg.2 x hSx).2 with hp | ⟨l', hp, hl'⟩
    · simp [Table.ltKindOk, Table.normalizeLifetimeShallow, hp]
      exact .inr ⟨x, rfl, hSx, hp⟩
    · simp [Table.ltKindOk, Table.normalizeLifetimeShallow, hp]
      exact .inl hl'
  all_goals
    simp [Table.ltKindOk, Table.normalizeLifetimeShallow]
    exact .inl rfl

theorem relateLifetime_normalize (v : Variance) (a0 b0 : Lifetime) (st : UState)
    (ha0 : st.table.ltKindOk a0 = true) (hb0 : st.table.ltKindOk b0 = true)
    (ha : st.table.ltKindOk ((st.table.normalizeLifetimeShallow a0).getD a0) = true)
    (hb : st.table.ltKindOk ((st.table.normalizeLifetimeShallow b0).getD b0) = true)
    (hna : st.table.normalizeLifetimeShallow ((st.table.normalizeLifetimeShallow a0).getD a0) = none)
    (hnb : st.table.normalizeLifetimeShallow ((st.table.normalizeLifetimeShallow b0).getD b0) = none) :
    relateLifetime v a0 b0 st =
      relateLifetime v ((st.table.normalizeLifetimeShallow a0).getD a0)
        ((st.table.normalizeLifetimeShallow b0).getD b0) st := by
  simp only [relateLifetime, ha0, hb0, ha, hb, hna, hnb, Option.getD_none]

theorem pushOutlives_step {S : Nat → Prop} {st : UState} (hg : Good S st) (v : Variance) (a b : Lifetime) :
    Step S st (pushOutlives v a b st) := by
  refine ⟨hg, rfl, rfl, ?_⟩
  cases v
  · exact ⟨[(b, a)], by simp [pushOutlives, outlivesGoals]⟩
  · exact ⟨[(a, b), (b, a)], by simp [pushOutlives, outlivesGoals]⟩
  · exact ⟨[(a, b)], by simp [pushOutlives, outlivesGoals]⟩

theorem unifyLifetimeVar_ok {S : Nat → Prop} {st : UState} (hg : Good S st) (v : Variance) (x : Nat)
    (l : Lifetime) (ui : Nat) (hp : st.table.probeVar x = none) (hl : l.rigid = true) :
    ∃ st', unifyLifetimeVar v x l ui st = .ok st' ∧ Step S st st' := by
  obtain ⟨u, hu⟩ := probeValue_of_probeVar_none _ x hp
  simp only [unifyLifetimeVar, Table.universeOfUnbound, hu, liftRes]
  split
  · rw [unifyVarValue_unbound _ x l hp]
    refine ⟨_, rfl, ⟨Table.setValue_WF _ hg.1 _ _, ?_⟩, rfl, rfl, [], by simp⟩
    intro y hy
    have hyok := hg.2 y hy
    refine LtVarOk.of_probe (t := st.table) rfl ?_ hyok
    show Table.probeVar { st.table with value := _ } y = _ ∨ _
    rw [Table.setValue_probeVar _ hg.1 _ _ y hyok.1]
    by_cases hf : st.table.find y = st.table.find x
    · rw [if_pos hf]; exact .inr (.inr ⟨l, rfl, hl⟩)
    · rw [if_neg hf]; exact .inl rfl
  · exact ⟨_, rfl, pushOutlives_step hg _ _ _⟩

theorem relateLifetime_resolved {S : Nat → Prop} {st : UState} (hg : Good S st) (v : Variance)
    (a b : Lifetime) (ra : Resolved S st.table a) (rb : Resolved S st.table b) :
    ∃ st', relateLifetime v a b st = .ok st' ∧ Step S st st' := by
  rcases ra with hra | ⟨x, rfl, hSx, hpx⟩ <;> rcases rb with hrb | ⟨y, rfl, hSy, hpy⟩
  · rw [relateLifetime_rigid v a b st hra hrb]
    exact ⟨_, rfl, hg, rfl, rfl, _, rfl⟩
  · cases a <;> simp [Lifetime.rigid] at hra <;>
      simp only [relateLifetime, Table.ltKindOk, Table.normalizeLifetimeShallow, hpy, Option.getD_none,
        Bool.and_self, Bool.not_true, Bool.false_eq_true, if_false] <;>
      exact unifyLifetimeVar_ok hg _ y _ _ hpy (by simp [Lifetime.rigid])
  · cases b <;> simp [Lifetime.rigid] at hrb <;>
      simp only [relateLifetime, Table.ltKindOk, Table.normalizeLifetimeShallow, hpx, Option.getD_none,
        Bool.and_self, Bool.not_true, Bool.false_eq_true, if_false] <;>
      exact unifyLifetimeVar_ok hg _ x _ _ hpx (by simp [Lifetime.rigid])
  · simp only [relateLifetime, Table.ltKindOk, Table.normalizeLifetimeShallow, hpx, hpy, Option.getD_none,
      Bool.and_self, Bool.not_true, Bool.false_eq_true, if_false]
    obtain ⟨t', ht'⟩ := unifyVarVar_unbound_ok st.table x y hpx hpy
    have hx := hg.2 x hSx
    have hy := hg.2 y hSy
    obtain ⟨hwf', hn, hmu, hpr⟩ := unifyVarVar_unbound_spec st.table t' x y hg.1 hx.1 hy.1 hpx hpy ht'
    rw [ht']
    refine ⟨_, rfl, ⟨hwf', ?_⟩, hn, hmu, [], by simp⟩
    intro z hz
    have hzok := hg.2 z hz
    refine LtVarOk.of_probe (t := st.table) hn ?_ hzok
    rcases hpr z hzok.1 with h | h
    · exact .inl h
    · exact .inr (.inl h)

theorem relateLifetime_T {S : Nat → Prop} {st : UState} (hg : Good S st) (v : Variance) (la lb : Lifetime)
    (hra : la.rigidT = true) (hrb : lb.rigidT = true)
    (hSa : ∀ x ∈ la.ltVars, S x) (hSb : ∀ x ∈ lb.ltVars, S x) :
    ∃ st', relateLifetime v la lb st = .ok st' ∧ Step S st st' := by
  obtain ⟨ka, ra⟩ := resolved_normalize hg la hra hSa
  obtain ⟨kb, rb⟩ := resolved_normalize hg lb hrb hSb
  rw [relateLifetime_normalize v la lb st ka kb ra.kindOk.1 rb.kindOk.1 ra.kindOk.2 rb.kindOk.2]
  exact relateLifetime_resolved hg v _ _ ra rb

/-! ## rigid-up-to-lifetime-variables terms are untouched by the type-level table operations -/

theorem tyKindOk_rigidT (t : Table) (a : Ty) (h : a.rigidT = true) : t.tyKindOk a = true := by
  cases a <;> simp_all [Ty.rigidT, Table.tyKindOk]

theorem normalizeTyShallow_rigidT (t : Table) (a : Ty) (h : a.rigidT = true) : t.normalizeTyShallow a = none := by
  cases a <;> simp_all [Ty.rigidT, Table.normalizeTyShallow, Table.normalizeTyShallowInner]

theorem foldLifetime_rigidT (f : Folder) (h2 : f.phLt = none) (h4 : f.inferLt = none) (outer : Nat)
    (l : Lifetime) (h : l.rigidT = true) : foldLifetime f outer l = .ok l := by
  cases l <;> simp_all [foldLifetime, Lifetime.rigidT]

mutual
  theorem foldTy_rigidT (f : Folder) (h1 : f.phTy = none) (h2 : f.phLt = none) (h3 : f.phConst = none)
      (h4 : f.inferLt = none) (outer : Nat) : (t : Ty) → t.rigidT = true → foldTy f outer t = .ok t
    | .app n args, h => by
        simp [Ty.rigidT] at h; simp [foldTy, foldArgs_rigidT f h1 h2 h3 h4 outer args h]
    | .scalar s, _ => by simp [foldTy]
    | .str, _ => by simp [foldTy]
    | .never, _ => by simp [foldTy]
    | .foreign id, _ => by simp [foldTy]
    | .error, h => by simp [Ty.rigidT] at h
    | .array t c, h => by
        simp [Ty.rigidT] at h
        simp [foldTy, foldTy_rigidT f h1 h2 h3 h4 outer t h.1, foldConst_rigidT f h1 h2 h3 h4 outer c h.2]
    | .slice t, h => by
        simp [Ty.rigidT] at h; simp [foldTy, foldTy_rigidT f h1 h2 h3 h4 outer t h]
    | .raw m t, h => by
        simp [Ty.rigidT] at h; simp [foldTy, foldTy_rigidT f h1 h2 h3 h4 outer t h]
    | .ref m l t, h => by
        simp [Ty.rigidT] at h
        simp [foldTy, foldTy_rigidT f h1 h2 h3 h4 outer t h.2, foldLifetime_rigidT f h2 h4 outer l h.1]
    | .placeholder ui idx, _ => by simp [foldTy, h1]
    | .dyn kinds bounds l, h => by simp [Ty.rigidT] at h
    | .proj id args, h => by simp [Ty.rigidT] at h
    | .opaque id args, h => by simp [Ty.rigidT] at h
    | .function nb sig args, h => by
        simp [Ty.rigidT] at h; simp [foldTy, foldArgs_rigidT f h1 h2 h3 h4 (outer + 1) args h.2]
    | .bound db idx, h => by simp [Ty.rigidT] at h
    | .infer v k, h => by simp [Ty.rigidT] at h
  theorem foldConst_rigidT (f : Folder) (h1 : f.phTy = none) (h2 : f.phLt = none) (h3 : f.phConst = none)
      (h4 : f.inferLt = none) (outer : Nat) : (c : Const) → c.rigidT = true → foldConst f outer c = .ok c
    | .mk ty (.bound db idx), h => by simp [Const.rigidT, ConstValue.rigid] at h
    | .mk ty (.infer v), h => by simp [Const.rigidT, ConstValue.rigid] at h
    | .mk ty (.placeholder ui idx), h => by
        simp [Const.rigidT, ConstValue.rigid] at h
        simp [foldConst, h3, foldTy_rigidT f h1 h2 h3 h4 outer ty h]
    | .mk ty (.concrete k), h => by
        simp [Const.rigidT, ConstValue.rigid] at h
        simp [foldConst, foldTy_rigidT f h1 h2 h3 h4 outer ty h]
  theorem foldGArg_rigidT (f : Folder) (h1 : f.phTy = none) (h2 : f.phLt = none) (h3 : f.phConst = none)
      (h4 : f.inferLt = none) (outer : Nat) : (a : GArg) → a.rigidT = true → foldGArg f outer a = .ok a
    | .ty t, h => by simp [GArg.rigidT] at h; simp [foldGArg, foldTy_rigidT f h1 h2 h3 h4 outer t h]
    | .lt l, h => by simp [GArg.rigidT] at h; simp [foldGArg, foldLifetime_rigidT f h2 h4 outer l h]
    | .ct c, h => by simp [GArg.rigidT] at h; simp [foldGArg, foldConst_rigidT f h1 h2 h3 h4 outer c h]
  theorem foldArgs_rigidT (f : Folder) (h1 : f.phTy = none) (h2 : f.phLt = none) (h3 : f.phConst = none)
      (h4 : f.inferLt = none) (outer : Nat) : (a : Args) → a.rigidT = true → foldArgs f outer a = .ok a
    | .nil, _ => by simp [foldArgs]
    | .cons a as, h => by
        simp [Args.rigidT] at h
        simp [foldArgs, foldGArg_rigidT f h1 h2 h3 h4 outer a h.1, foldArgs_rigidT f h1 h2 h3 h4 outer as h.2]
end

theorem instFnUniversally_rigidT (args : Args) (st : UState) (h : args.rigidT = true) :
    instFnUniversally 0 args st = .ok (args, st) := by
  simp [instFnUniversally, Args.subst, foldArgs_rigidT (substFolder []) rfl rfl rfl rfl 0 args h, liftRes]

theorem instFnExistentially_rigidT (args : Args) (st : UState) (h : args.rigidT = true) :
    instFnExistentially 0 args st = .ok (args, st) := by
  simp [instFnExistentially, freshLifetimeVars, foldArgs_rigidT (applyFolder []) rfl rfl rfl rfl 0 args h,
    liftRes]

/-! ## bundled side conditions: in the fragment, lifetime variables in `S`, arities respected -/

def Lifetime.okT (S : Nat → Prop) (l : Lifetime) : Prop := l.rigidT = true ∧ ∀ x ∈ l.ltVars, S x
def Ty.okT (ar : TyName → Nat) (S : Nat → Prop) (a : Ty) : Prop :=
  a.rigidT = true ∧ (∀ x ∈ a.ltVars, S x) ∧ a.arityOk ar = true
def Const.okT (ar : TyName → Nat) (S : Nat → Prop) (a : Const) : Prop :=
  a.rigidT = true ∧ (∀ x ∈ a.ltVars, S x) ∧ a.arityOk ar = true
def GArg.okT (ar : TyName → Nat) (S : Nat → Prop) (a : GArg) : Prop :=
  a.rigidT = true ∧ (∀ x ∈ a.ltVars, S x) ∧ a.arityOk ar = true
def Args.okT (ar : TyName → Nat) (S : Nat → Prop) (a : Args) : Prop :=
  a.rigidT = true ∧ (∀ x ∈ a.ltVars, S x) ∧ a.arityOk ar = true

section okT
variable {ar : TyName → Nat} {S : Nat → Prop}

theorem Ty.okT_app {n : TyName} {as : Args} (h : (Ty.app n as).okT ar S) :
    as.toList.length = ar n ∧ as.okT ar S := by
  simp [Ty.okT, Args.okT, Ty.rigidT, Ty.ltVars, Ty.arityOk, Args.length] at *; grind
theorem Ty.okT_array {t : Ty} {c : Const} (h : (Ty.array t c).okT ar S) : t.okT ar S ∧ c.okT ar S := by
  simp [Ty.okT, Const.okT, Ty.rigidT, Ty.ltVars, Ty.arityOk] at *; grind
theorem Ty.okT_slice {t : Ty} (h : (Ty.slice t).okT ar S) : t.okT ar S := by
  simpa [Ty.okT, Ty.rigidT, Ty.ltVars, Ty.arityOk] using h
theorem Ty.okT_raw {m : Bool} {t : Ty} (h : (Ty.raw m t).okT ar S) : t.okT ar S := by
  simpa [Ty.okT, Ty.rigidT, Ty.ltVars, Ty.arityOk] using h
theorem Ty.okT_ref {m : Bool} {l : Lifetime} {t : Ty} (h : (Ty.ref m l t).okT ar S) :
    l.okT S ∧ t.okT ar S := by
  simp [Ty.okT, Lifetime.okT, Ty.rigidT, Ty.ltVars, Ty.arityOk] at *; grind
theorem Ty.okT_function {nb sig : Nat} {as : Args} (h : (Ty.function nb sig as).okT ar S) :
    nb = 0 ∧ as.isNil = false ∧ as.okT ar S := by
  simp [Ty.okT, Args.okT, Ty.rigidT, Ty.ltVars, Ty.arityOk] at *; grind
theorem Const.okT_mk {ty : Ty} {v : ConstValue} (h : (Const.mk ty v).okT ar S) :
    ty.okT ar S ∧ v.rigid = true := by
  simp [Ty.okT, Const.okT, Const.rigidT, Const.ltVars, Const.arityOk] at *; grind
theorem GArg.okT_ty {t : Ty} (h : (GArg.ty t).okT ar S) : t.okT ar S := by
  simpa [GArg.okT, Ty.okT, GArg.rigidT, GArg.ltVars, GArg.arityOk] using h
theorem GArg.okT_lt {l : Lifetime} (h : (GArg.lt l).okT ar S) : l.okT S := by
  simpa [GArg.okT, Lifetime.okT, GArg.rigidT, GArg.ltVars, GArg.arityOk] using h
theorem GArg.okT_ct {c : Const} (h : (GArg.ct c).okT ar S) : c.okT ar S := by
  simpa [GArg.okT, Const.okT, GArg.rigidT, GArg.ltVars, GArg.arityOk] using h
theorem Args.okT_cons {a : GArg} {as : Args} (h : (Args.cons a as).okT ar S) : a.okT ar S ∧ as.okT ar S := by
  simp [Args.okT, GArg.okT, Args.rigidT, Args.ltVars, Args.arityOk] at *; grind

end okT

/-! ## the induction hypothesis on the nested `relate_ty_ty` -/

def RelOKT (ar : TyName → Nat) (S : Nat → Prop) (rel : RelTy) (n : Nat) : Prop :=
  ∀ (v : Variance) (a b : Ty) (st : UState), Good S st → a.okT ar S → b.okT ar S → a.depth ≤ n →
    Outcome S st (a.eraseLt = b.eraseLt) (rel v a b st)

section rel
variable {db : UDb} {ar : TyName → Nat} {S : Nat → Prop} {rel : RelTy} {n : Nat}

theorem relateConst_T (hrel : RelOKT ar S rel n) (jf : Nat) (v : Variance) (ka kb : Const) (st : UState)
    (hg : Good S st) (ha : ka.okT ar S) (hb : kb.okT ar S) (hd : ka.depth ≤ n) :
    Outcome S st (ka.eraseLt = kb.eraseLt) (relateConst rel jf v ka kb st) := by
  obtain ⟨ta, va⟩ := ka
  obtain ⟨tb, vb⟩ := kb
  obtain ⟨hta, hva⟩ := Const.okT_mk ha
  obtain ⟨htb, hvb⟩ := Const.okT_mk hb
  simp only [Const.depth] at hd
  have h := hrel v ta tb st hg hta htb hd
  rcases h.cases with ⟨he, st1, hr, hs⟩ | ⟨he, hr⟩ <;>
    cases va <;> simp [ConstValue.rigid] at hva <;> cases vb <;> simp [ConstValue.rigid] at hvb <;>
    simp [relateConst, Table.ctKindOk, Table.normalizeConstShallow, hr, he, Const.eraseLt]
  all_goals
    split
    · next hc => exact Outcome.of_ok hc hs
    · next hc => exact Outcome.of_err hc

theorem relateGArg_T (hrel : RelOKT ar S rel n) (jf : Nat) (v : Variance) (a b : GArg) (st : UState)
    (hg : Good S st) (ha : a.okT ar S) (hb : b.okT ar S) (hd : a.depth ≤ n) :
    Outcome S st (a.eraseLt = b.eraseLt) (relateGArg rel jf v a b st) := by
  cases a <;> cases b <;> simp [relateGArg, GArg.eraseLt]
  · rename_i ta tb
    exact hrel v ta tb st hg (GArg.okT_ty ha) (GArg.okT_ty hb) (by simpa [GArg.depth] using hd)
  · rename_i la lb
    obtain ⟨st', hr, hs⟩ := relateLifetime_T hg v la lb (GArg.okT_lt ha).1 (GArg.okT_lt hb).1
      (GArg.okT_lt ha).2 (GArg.okT_lt hb).2
    rw [hr]; exact Outcome.of_ok trivial hs
  · rename_i ka kb
    exact relateConst_T hrel jf v ka kb st hg (GArg.okT_ct ha) (GArg.okT_ct hb) (by simpa [GArg.depth] using hd)

theorem zipSubsts_T (hrel : RelOKT ar S rel n) (jf : Nat) (v : Variance) (vs : Option (List Variance)) :
    (as bs : Args) → (i : Nat) → (st : UState) → Good S st →
    as.toList.length = bs.toList.length →
    (∀ l, vs = some l → i + as.toList.length ≤ l.length) →
    as.okT ar S → bs.okT ar S → as.depth ≤ n →
    Outcome S st (as.eraseLt = bs.eraseLt) (zipSubsts rel jf v vs i as bs st)
  | .nil, .nil, i, st, hg, _, _, _, _, _ => by
      simp only [zipSubsts]; exact Outcome.of_ok (by trivial) (Step.refl hg)
  | .nil, .cons b bs, i, st, _, hl, _, _, _, _ => by simp [Args.toList] at hl
  | .cons a as, .nil, i, st, _, hl, _, _, _, _ => by simp [Args.toList] at hl
  | .cons a as, .cons b bs, i, st, hg, hl, hvs, ha, hb, hd => by
      simp [Args.toList] at hl hvs
      obtain ⟨ha1, ha2⟩ := Args.okT_cons ha
      obtain ⟨hb1, hb2⟩ := Args.okT_cons hb
      simp [Args.depth] at hd
      have hgo := fun w => relateGArg_T hrel jf (v.xform w) a b st hg ha1 hb1 (by omega)
      have ih := fun st' (hs : Step S st st') => zipSubsts_T hrel jf v vs as bs (i + 1) st' hs.good hl
        (fun l h => by have := hvs l h; omega) ha2 hb2 (by omega)
      have hpv : ∀ l, vs = some l → l[i]? = some (positionVariance vs i) := by
        intro l h
        have := hvs l h
        have hi : i < l.length := by omega
        subst h
        simp [positionVariance, hi]
      have key := fun w => Outcome.bind
        (fun r => match r with
          | .ok st' => zipSubsts rel jf v vs (i + 1) as bs st'
          | .error e => .error e) _ (fun _ => rfl) (fun _ => rfl) (hgo w) ih
      refine Outcome.congr (P := a.eraseLt = b.eraseLt ∧ as.eraseLt = bs.eraseLt) (by simp [Args.eraseLt]) ?_
      simp only [zipSubsts]
      cases vs with
      | none => exact key .inv
      | some l => simp only [hpv l rfl]; exact key _

theorem zipFnSubst_T (hrel : RelOKT ar S rel n) (jf : Nat) (v : Variance) :
    (as bs : Args) → (st : UState) → Good S st →
    as.isNil = false → bs.isNil = false → as.okT ar S → bs.okT ar S → as.depth ≤ n →
    Outcome S st (as.eraseLt = bs.eraseLt) (zipFnSubst rel jf v as bs st)
  | .nil, _, st, _, h, _, _, _, _ => by simp [Args.isNil] at h
  | .cons _ _, .nil, st, _, _, h, _, _, _ => by simp [Args.isNil] at h
  | .cons a .nil, .cons b .nil, st, hg, _, _, ha, hb, hd => by
      simp [Args.depth] at hd
      have := relateGArg_T hrel jf v a b st hg (Args.okT_cons ha).1 (Args.okT_cons hb).1 hd
      simpa [zipFnSubst, Args.toList, zipSlice, Args.eraseLt] using this
  | .cons a .nil, .cons b (.cons b' bs), st, _, _, _, _, _, _ => by
      simp [zipFnSubst, Args.toList, Args.eraseLt]
  | .cons a (.cons a' as), .cons b .nil, st, _, _, _, _, _, _ => by
      simp [zipFnSubst, Args.toList, Args.eraseLt]
  | .cons a (.cons a' as), .cons b (.cons b' bs), st, hg, _, _, ha, hb, hd => by
      by_cases hlen : as.toList.length = bs.toList.length
      · obtain ⟨ha1, ha2⟩ := Args.okT_cons ha
        obtain ⟨hb1, hb2⟩ := Args.okT_cons hb
        have hd' : a.depth ≤ n ∧ (Args.cons a' as).depth ≤ n := by
          have : max a.depth (Args.cons a' as).depth ≤ n := by simpa [Args.depth] using hd
          omega
        have hgo := relateGArg_T hrel jf (v.xform .contra) a b st hg ha1 hb1 hd'.1
        have ih := fun st' (hs : Step S st st') =>
          zipFnSubst_T hrel jf v (.cons a' as) (.cons b' bs) st' hs.good rfl rfl ha2 hb2 hd'.2
        rw [zipFnSubst_cons_cons _ _ _ _ _ _ _ _ _ _ hlen]
        refine Outcome.congr (P := a.eraseLt = b.eraseLt ∧ (Args.cons a' as).eraseLt = (Args.cons b' bs).eraseLt)
          (by simp [Args.eraseLt]) ?_
        exact Outcome.bind
          (fun r => match r with
            | .ok st' => zipFnSubst rel jf v (.cons a' as) (.cons b' bs) st'
            | .error e => .error e) _ (fun _ => rfl) (fun _ => rfl) hgo ih
      · have hne : ¬ (Args.cons a (.cons a' as)).eraseLt = (Args.cons b (.cons b' bs)).eraseLt := by
          intro h
          simp [Args.eraseLt] at h
          have h1 := Args.eraseLt_length as
          have h2 := Args.eraseLt_length bs
          rw [h.2.2] at h1
          omega
        have : zipFnSubst rel jf v (.cons a (.cons a' as)) (.cons b (.cons b' bs)) st = .error .noSolution := by
          simp [zipFnSubst, Args.toList, hlen]
        rw [this]; exact Outcome.of_err hne

theorem relateFnBinders_T (hrel : RelOKT ar S rel n) (jf : Nat) (v : Variance) (as bs : Args) (st : UState)
    (hg : Good S st) (hna : as.isNil = false) (hnb : bs.isNil = false)
    (ha : as.okT ar S) (hb : bs.okT ar S) (hd : as.depth ≤ n) :
    Outcome S st (as.eraseLt = bs.eraseLt) (relateFnBinders rel jf v 0 as 0 bs st) := by
  have hz := fun w st' (hg' : Good S st') => zipFnSubst_T hrel jf w as bs st' hg' hna hnb ha hb hd
  cases v
  · simpa [relateFnBinders, instFnUniversally_rigidT, instFnExistentially_rigidT, ha.1, hb.1] using hz .co st hg
  · have := Outcome.bind
      (fun r => match r with
        | .error e => .error e
        | .ok st3 => zipFnSubst rel jf .co as bs st3) _ (fun _ => rfl) (fun _ => rfl)
      (hz .contra st hg) (fun st' (hs : Step S st st') => hz .co st' hs.good)
    simp [relateFnBinders, instFnUniversally_rigidT, instFnExistentially_rigidT, ha.1, hb.1]
    exact Outcome.congr (by simp) this
  · have := Outcome.bind (Q := True)
      (fun r => match r with
        | .error e => .error e
        | .ok st3 => .ok st3) _ (fun _ => rfl) (fun _ => rfl)
      (hz .contra st hg) (fun st' (hs : Step S st st') => Outcome.of_ok trivial (Step.refl hs.good))
    simp [relateFnBinders, instFnUniversally_rigidT, instFnExistentially_rigidT, ha.1, hb.1]
    exact Outcome.congr (by simp) this

end rel

/-! ## one level of `relate_ty_ty` -/

macro "step_simpT" h:term : tactic =>
  `(tactic| simp [relateTyStep, Table.tyKindOk, Table.normalizeTyShallow, Table.normalizeTyShallowInner, $h:term,
      Ty.isBoundVar, Ty.asAlias, Ty.isErrorTy, Ty.isFunction, Ty.isPlaceholder, Ty.isDyn,
      relateSameCtor, Ty.eraseLt])

section stepT
variable {db : UDb} {ar : TyName → Nat} {S : Nat → Prop} {rel : RelTy} {n : Nat}

theorem step_all_T (hdb : db.arityOk ar) (hrel : RelOKT ar S rel n) (jf : Nat) (v : Variance) (a b : Ty)
    (st : UState) (hg : Good S st) (ha : a.okT ar S) (hb : b.okT ar S) (hd : a.depth ≤ n + 1) (hne : a ≠ b) :
    Outcome S st (a.eraseLt = b.eraseLt) (relateTyStep rel db jf v a b st) := by
  have har := ha.1
  have hbr := hb.1
  cases a <;> simp [Ty.rigidT] at har <;> cases b <;> simp [Ty.rigidT] at hbr <;> step_simpT hne
  case app.app na as nb bs =>
    obtain ⟨hla, hoa⟩ := Ty.okT_app ha
    obtain ⟨hlb, hob⟩ := Ty.okT_app hb
    simp only [Ty.depth] at hd
    have := relateSameCtor_app (rel := rel) (db := db) jf v na nb as bs st
    simp only [relateSameCtor] at this
    rw [this]
    by_cases hn : na = nb
    · subst hn
      have hz := zipSubsts_T hrel jf v (declaredVariances db na) as bs 0 st hg (by omega)
        (fun l h => by have := hdb na l h; omega) hoa hob (by omega)
      simpa using hz
    · simp [hn]
  case scalar.scalar => simp at hne; simp [hne]
  case str.str => exact absurd rfl hne
  case never.never => exact absurd rfl hne
  case foreign.foreign => simp at hne; simp [hne]
  case placeholder.placeholder =>
    simp at hne
    split
    · next hc => exact absurd hc.2 (hne hc.1)
    · exact Outcome.false_err
  case array.array ta ka tb kb =>
    obtain ⟨hta, hka⟩ := Ty.okT_array ha
    obtain ⟨htb, hkb⟩ := Ty.okT_array hb
    simp only [Ty.depth] at hd
    exact Outcome.bind
      (fun r => match r with
        | .error e => .error e
        | .ok st1 => relateConst rel jf v ka kb st1) _ (fun _ => rfl) (fun _ => rfl)
      (hrel v ta tb st hg hta htb (by omega))
      (fun st' hs => relateConst_T hrel jf v ka kb st' hs.good hka hkb (by omega))
  case slice.slice ta tb =>
    simp only [Ty.depth] at hd
    exact hrel v ta tb st hg (Ty.okT_slice ha) (Ty.okT_slice hb) (by omega)
  case raw.raw ma ta mb tb =>
    simp only [Ty.depth] at hd
    by_cases hm : ma = mb
    · simpa [hm] using hrel (v.xform (if mb then .inv else .co)) ta tb st hg (Ty.okT_raw ha) (Ty.okT_raw hb)
        (by omega)
    · simp [hm]
  case ref.ref ma la ta mb lb tb =>
    obtain ⟨hla, hta⟩ := Ty.okT_ref ha
    obtain ⟨hlb, htb⟩ := Ty.okT_ref hb
    simp only [Ty.depth] at hd
    by_cases hm : ma = mb
    · obtain ⟨st1, hr, hs⟩ := relateLifetime_T hg (v.xform .contra) la lb hla.1 hlb.1 hla.2 hlb.2
      have := hrel (v.xform (if mb then .inv else .co)) ta tb st1 hs.good hta htb (by omega)
      rcases this.cases with ⟨he, st2, hr2, hs2⟩ | ⟨he, hr2⟩
      · simp only [hm, hr, hr2, if_true]
        exact Outcome.of_ok ⟨trivial, he⟩ (hs.trans hs2)
      · simp only [hm, hr, hr2, if_true]
        exact Outcome.of_err (fun h => he h.2)
    · simp [hm]
  case function.function nba sa as nbb sb bs =>
    obtain ⟨hna, hnila, hoa⟩ := Ty.okT_function ha
    obtain ⟨hnb, hnilb, hob⟩ := Ty.okT_function hb
    simp only [Ty.depth] at hd
    subst hna hnb
    by_cases hs : sa = sb
    · simpa [hs] using relateFnBinders_T hrel jf v as bs st hg hnila hnilb hoa hob (by omega)
    · simp [hs]

end stepT

theorem relateTyStep_reflT (rel : RelTy) (db : UDb) (jf : Nat) (v : Variance) (a : Ty) (st : UState)
    (ha : a.rigidT = true) : relateTyStep rel db jf v a a st = .ok st := by
  simp [relateTyStep, tyKindOk_rigidT _ _ ha, normalizeTyShallow_rigidT _ _ ha]

theorem relateTyStep_T {db : UDb} {ar : TyName → Nat} {S : Nat → Prop} {rel : RelTy} {n : Nat}
    (hdb : db.arityOk ar) (hrel : RelOKT ar S rel n) (jf : Nat) :
    RelOKT ar S (relateTyStep rel db jf) (n + 1) := by
  intro v a b st hg ha hb hd
  by_cases hne : a = b
  · subst hne
    rw [relateTyStep_reflT _ _ _ _ _ _ ha.1]
    exact Outcome.of_ok rfl (Step.refl hg)
  · exact step_all_T hdb hrel jf v a b st hg ha hb hd hne

theorem relateTy_relOKT (db : UDb) (ar : TyName → Nat) (hdb : db.arityOk ar) (jf : Nat) (S : Nat → Prop) :
    ∀ fuel : Nat, RelOKT ar S (relateTy db jf fuel) fuel
  | 0 => by
      intro v a b st _ _ _ hd
      have := Ty.depth_pos a
      omega
  | n + 1 => by
      have ih := relateTy_relOKT db ar hdb jf S n
      have := relateTyStep_T hdb ih jf
      intro v a b st hg ha hb hd
      simpa [relateTy] using this v a b st hg ha hb hd

/-- MAIN THEOREM: the structure half of the rigid theorem with lifetime variables -/
theorem relateTy_rigidT (db : UDb) (ar : TyName → Nat) (hdb : db.arityOk ar) (jf : Nat) (S : Nat → Prop) :
    ∀ (fuel : Nat) (v : Variance) (a b : Ty) (st : UState),
      st.table.WF → (∀ x, S x → LtVarOk st.table x) →
      a.rigidT = true → b.rigidT = true → (∀ x ∈ a.ltVars, S x) → (∀ x ∈ b.ltVars, S x) →
      a.arityOk ar = true → b.arityOk ar = true → a.depth ≤ fuel →
      (a.eraseLt = b.eraseLt →
        ∃ st', relateTy db jf fuel v a b st = .ok st' ∧ st'.table.WF ∧ (∀ x, S x → LtVarOk st'.table x) ∧
          st'.table.numVars = st.table.numVars ∧ st'.table.maxUniverse = st.table.maxUniverse ∧
          (∃ l, st'.goals = st.goals ++ outlivesGoals l)) ∧
      (a.eraseLt ≠ b.eraseLt → relateTy db jf fuel v a b st = .error .noSolution) := by
  intro fuel v a b st hwf hS har hbr hSa hSb haa hab hd
  have h := relateTy_relOKT db ar hdb jf S fuel v a b st ⟨hwf, hS⟩ ⟨har, hSa, haa⟩ ⟨hbr, hSb, hab⟩ hd
  refine ⟨fun he => ?_, h.2⟩
  obtain ⟨st', hr, hs⟩ := h.1 he
  exact ⟨st', hr, hs.good.1, hs.good.2, hs.numVars, hs.maxU, hs.goals⟩

/-! ## corollaries at the level of `relate` -/

/-- the outcome of `relate` is `Ok(_)` -/
def Succeeds (r : Table × RelOutcome) : Prop := ∃ gs, r.2 = .ok gs

theorem relate_rigidT (db : UDb) (ar : TyName → Nat) (hdb : db.arityOk ar) (jf fuel : Nat) (S : Nat → Prop)
    (t : Table) (v : Variance) (a b : Ty)
    (hwf : t.WF) (hS : ∀ x, S x → LtVarOk t x)
    (har : a.rigidT = true) (hbr : b.rigidT = true) (hSa : ∀ x ∈ a.ltVars, S x) (hSb : ∀ x ∈ b.ltVars, S x)
    (haa : a.arityOk ar = true) (hab : b.arityOk ar = true) (hd : a.depth ≤ fuel) :
    (Succeeds (relate db jf fuel t v a b) ↔ a.eraseLt = b.eraseLt) ∧
    (a.eraseLt ≠ b.eraseLt → relate db jf fuel t v a b = (t, .noSolution)) := by
  have h := relateTy_rigidT db ar hdb jf S fuel v a b { table := t, goals := [] } hwf hS har hbr hSa hSb
    haa hab hd
  by_cases he : a.eraseLt = b.eraseLt
  · obtain ⟨st', hr, _⟩ := h.1 he
    refine ⟨⟨fun _ => he, fun _ => ?_⟩, fun hn => absurd he hn⟩
    simp only [relate, hr]
    exact ⟨_, rfl⟩
  · have hr := h.2 he
    have hrel : relate db jf fuel t v a b = (t, .noSolution) := by
      simp only [relate, hr]; rfl
    refine ⟨⟨fun hs => ?_, fun h' => absurd h' he⟩, fun _ => hrel⟩
    obtain ⟨gs, hgs⟩ := hs
    rw [hrel] at hgs
    cases hgs

theorem relate_rigidT_swap (db : UDb) (ar : TyName → Nat) (hdb : db.arityOk ar) (jf fuel : Nat) (S : Nat → Prop)
    (t : Table) (v v' : Variance) (a b : Ty)
    (hwf : t.WF) (hS : ∀ x, S x → LtVarOk t x)
    (har : a.rigidT = true) (hbr : b.rigidT = true) (hSa : ∀ x ∈ a.ltVars, S x) (hSb : ∀ x ∈ b.ltVars, S x)
    (haa : a.arityOk ar = true) (hab : b.arityOk ar = true) (hda : a.depth ≤ fuel) (hdb' : b.depth ≤ fuel) :
    Succeeds (relate db jf fuel t v a b) ↔ Succeeds (relate db jf fuel t v' b a) := by
  rw [(relate_rigidT db ar hdb jf fuel S t v a b hwf hS har hbr hSa hSb haa hab hda).1,
    (relate_rigidT db ar hdb jf fuel S t v' b a hwf hS hbr har hSb hSa hab haa hdb').1]
  exact ⟨Eq.symm, Eq.symm⟩

#print axioms Chalk.relateTy_rigidT
#print axioms Chalk.relate_rigidT
#print axioms Chalk.relate_rigidT_swap

end Chalk
