import ChalkModel.Lemmas.EvalLemmas

namespace Chalk.Sem

theorem evalInd_no_holds (P : Program) (Γ : List Atom) (fuel : Nat) (a : Atom)
    (h : evalInd P Γ fuel [] a = .no) : ¬ Holds P Γ a :=
  fun hh => evalInd_no P Γ fuel [] a h ((indStepS_nil P Γ a).mpr hh)

theorem evalGoal_sound (P : Program) (fuel : Nat) : (g : Goal) → (Γ : List Atom) →
    (evalGoal P fuel Γ g = .yes → GHolds P Γ g) ∧ (evalGoal P fuel Γ g = .no → ¬ GHolds P Γ g)
  | .atom a, Γ => ⟨fun h => evalInd_yes P Γ fuel [] a h, fun h => evalInd_no_holds P Γ fuel a h⟩
  | .tt, _ => ⟨fun _ => trivial, fun h => by simp [evalGoal] at h⟩
  | .and g h, Γ => by
      obtain ⟨g1, g2⟩ := evalGoal_sound P fuel g Γ
      obtain ⟨h1, h2⟩ := evalGoal_sound P fuel h Γ
      constructor
      · intro hy
        simp only [evalGoal, Verdict.and_eq_yes] at hy
        exact ⟨g1 hy.1, h1 hy.2⟩
      · intro hn
        simp only [evalGoal, Verdict.and_eq_no] at hn
        rintro ⟨hg, hh⟩
        rcases hn with hn | hn
        · exact g2 hn hg
        · exact h2 hn hh
  | .implies hyps g, Γ => by
      obtain ⟨g1, g2⟩ := evalGoal_sound P fuel g (hyps ++ Γ)
      exact ⟨fun hy => g1 (by simpa [evalGoal] using hy), fun hn => g2 (by simpa [evalGoal] using hn)⟩
  | .not g, Γ => by
      obtain ⟨g1, g2⟩ := evalGoal_sound P fuel g Γ
      constructor
      · intro hy
        simp only [evalGoal] at hy
        cases hv : evalGoal P fuel Γ g <;> simp [hv, Verdict.neg] at hy
        exact g2 hv
      · intro hn
        simp only [evalGoal] at hn
        cases hv : evalGoal P fuel Γ g <;> simp [hv, Verdict.neg] at hn
        exact fun hng => hng (g1 hv)
  | .eq s t, _ => by
      constructor
      · intro hy
        simp only [evalGoal] at hy
        split at hy
        · assumption
        · cases hy
      · intro hn
        simp only [evalGoal] at hn
        split at hn
        · cases hn
        · assumption

end Chalk.Sem
