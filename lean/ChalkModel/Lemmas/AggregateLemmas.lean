import ChalkModel.Aggregate

namespace Chalk

/-! ### `r` generalizes `t`, structurally (pattern variables = `^_._` of the pattern) -/

def Lifetime.genOf : Lifetime → Lifetime → Bool
  | .bound _ _, _ => true
  | r, t => r == t

/-- constants: the pattern variable matches anything; otherwise the *values* agree (the types of
    corresponding constants agree by typing and are not compared by the Rust code either) -/
def Const.genOf : Const → Const → Bool
  | .mk _ (.bound _ _), _ => true
  | .mk _ v, .mk _ v' => v == v'

mutual
  def Ty.genOf : Ty → Ty → Bool
    | .bound _ _, _ => true
    | .app n a, .app n' a' => n == n' && a.genOf a'
    | .proj i a, .proj i' a' => i == i' && a.genOf a'
    | .opaque i a, .opaque i' a' => i == i' && a.genOf a'
    | .slice t, .slice t' => t.genOf t'
    | .raw m t, .raw m' t' => m == m' && t.genOf t'
    | .ref m l t, .ref m' l' t' => m == m' && l.genOf l' && t.genOf t'
    | .array t c, .array t' c' => t.genOf t' && c.genOf c'
    | .scalar s, .scalar s' => s == s'
    | .foreign s, .foreign s' => s == s'
    | .placeholder u i, .placeholder u' i' => u == u' && i == i'
    | .str, .str => true
    | .never, .never => true
    | .error, .error => true
    | _, _ => false
  def GArg.genOf : GArg → GArg → Bool
    | .ty r, .ty t => r.genOf t
    | .lt r, .lt t => r.genOf t
    | .ct r, .ct t => r.genOf t
    | _, _ => false
  def Args.genOf : Args → Args → Bool
    | .nil, .nil => true
    | .cons r rs, .cons t ts => r.genOf t && rs.genOf ts
    | _, _ => false
end

theorem auLifetime_gen {u : Nat} {l1 l2 r : Lifetime} {st st' : AuSt}
    (h : auLifetime u l1 l2 st = (r, st')) : r.genOf l1 = true ∧ r.genOf l2 = true := by
  unfold auLifetime at h
  split at h
  · simp [newLtVar] at h; simp [← h.1, Lifetime.genOf]
  · simp [newLtVar] at h; simp [← h.1, Lifetime.genOf]
  · split at h
    · rename_i heq; simp at h; subst heq; rw [← h.1]
      cases l1 <;> simp [Lifetime.genOf]
    · simp [newLtVar] at h; simp [← h.1, Lifetime.genOf]

theorem auConst_gen {u : Nat} {c1 c2 r : Const} {st st' : AuSt}
    (h : auConst u c1 c2 st = (r, st')) : r.genOf c1 = true ∧ r.genOf c2 = true := by
  unfold auConst at h
  split at h
  rename_i ty v1 ty2 v2
  split at h
  all_goals (try (simp [newCtVar] at h; simp [← h.1, Const.genOf]; done))
  · split at h
    · rename_i heq; simp at h; rw [← h.1]; injection heq with h1 h2; simp [Const.genOf, h2]
    · simp [newCtVar] at h; simp [← h.1, Const.genOf]
  · split at h
    · rename_i heq; simp at h; rw [← h.1]; subst heq; simp [Const.genOf]
    · simp [newCtVar] at h; simp [← h.1, Const.genOf]

theorem Args.genOf_nil_of_len {a b : Args} : True := trivial

mutual
  theorem auTy_gen (u : Nat) : (t1 t2 : Ty) → (st : AuSt) → (r : Ty) → (st' : AuSt) →
      auTy u t1 t2 st = .ok (r, st') → r.genOf t1 = true ∧ r.genOf t2 = true
    | t1, t2, st, r, st', h => by
        unfold auTy at h
        split at h
        all_goals (try (simp [newTyVar] at h; simp [← h.1, Ty.genOf]; done))
        -- proj
        · split at h
          · split at h
            · simp at h
            · rename_i id a id' a' hid hlen
              cases ha : auArgs u a a' st with
              | error e => simp [ha] at h
              | ok p =>
                obtain ⟨ra, sa⟩ := p
                simp [ha] at h
                have := auArgs_gen u a a' st ra sa ha (by simpa using hlen)
                simp [← h.1, Ty.genOf, this, hid]
          · simp [newTyVar] at h; simp [← h.1, Ty.genOf]
        -- opaque
        · split at h
          · split at h
            · simp at h
            · rename_i id a id' a' hid hlen
              cases ha : auArgs u a a' st with
              | error e => simp [ha] at h
              | ok p =>
                obtain ⟨ra, sa⟩ := p
                simp [ha] at h
                have := auArgs_gen u a a' st ra sa ha (by simpa using hlen)
                simp [← h.1, Ty.genOf, this, hid]
          · simp [newTyVar] at h; simp [← h.1, Ty.genOf]
        -- placeholder
        · split at h
          · rename_i hp; simp at h; simp [← h.1, Ty.genOf, hp.1, hp.2]
          · simp [newTyVar] at h; simp [← h.1, Ty.genOf]
        -- app
        · split at h
          · split at h
            · simp at h
            · rename_i n a n' a' hid hlen
              cases ha : auArgs u a a' st with
              | error e => simp [ha] at h
              | ok p =>
                obtain ⟨ra, sa⟩ := p
                simp [ha] at h
                have := auArgs_gen u a a' st ra sa ha (by simpa using hlen)
                simp [← h.1, Ty.genOf, this, hid]
          · simp [newTyVar] at h; simp [← h.1, Ty.genOf]
        -- scalar
        · split at h
          · rename_i hs; simp at h; simp [← h.1, Ty.genOf, hs]
          · simp [newTyVar] at h; simp [← h.1, Ty.genOf]
        -- slice
        · rename_i t t'
          cases ht : auTy u t t' st with
          | error e => simp [ht] at h
          | ok p =>
            obtain ⟨rt, s1⟩ := p
            simp [ht] at h
            have := auTy_gen u t t' st rt s1 ht
            simp [← h.1, Ty.genOf, this]
        -- ref
        · split at h
          · rename_i m l t m' l' t' hm
            cases hl : auLifetime u l l' st with
            | mk rl s1 =>
              simp [hl] at h
              cases ht : auTy u t t' s1 with
              | error e => simp [ht] at h
              | ok p =>
                obtain ⟨rt, s2⟩ := p
                simp [ht] at h
                have h1 := auTy_gen u t t' s1 rt s2 ht
                have h2 := auLifetime_gen hl
                simp [← h.1, Ty.genOf, h1, h2, hm]
          · simp [newTyVar] at h; simp [← h.1, Ty.genOf]
        -- raw
        · split at h
          · rename_i m t m' t' hm
            cases ht : auTy u t t' st with
            | error e => simp [ht] at h
            | ok p =>
              obtain ⟨rt, s1⟩ := p
              simp [ht] at h
              have := auTy_gen u t t' st rt s1 ht
              simp [← h.1, Ty.genOf, this, hm]
          · simp [newTyVar] at h; simp [← h.1, Ty.genOf]
        -- array
        · rename_i t c t' c'
          cases ht : auTy u t t' st with
          | error e => simp [ht] at h
          | ok p =>
            obtain ⟨rt, s1⟩ := p
            simp [ht] at h
            cases hc : auConst u c c' s1 with
            | mk rc s2 =>
              simp [hc] at h
              have h1 := auTy_gen u t t' st rt s1 ht
              have h2 := auConst_gen hc
              simp [← h.1, Ty.genOf, h1, h2]
        -- foreign
        · split at h
          · rename_i hs; simp at h; simp [← h.1, Ty.genOf, hs]
          · simp [newTyVar] at h; simp [← h.1, Ty.genOf]
  theorem auGArg_gen (u : Nat) : (a1 a2 : GArg) → (st : AuSt) → (r : GArg) → (st' : AuSt) →
      auGArg u a1 a2 st = .ok (r, st') → r.genOf a1 = true ∧ r.genOf a2 = true
    | .ty t, .ty t', st, r, st', h => by
        simp only [auGArg] at h
        cases ht : auTy u t t' st with
        | error e => simp [ht] at h
        | ok p =>
          obtain ⟨rt, s1⟩ := p
          simp [ht] at h
          have := auTy_gen u t t' st rt s1 ht
          simp [← h.1, GArg.genOf, this]
    | .lt l, .lt l', st, r, st', h => by
        simp only [auGArg] at h
        cases hl : auLifetime u l l' st with
        | mk rl s1 =>
          simp [hl] at h
          have := auLifetime_gen hl
          simp [← h.1, GArg.genOf, this]
    | .ct c, .ct c', st, r, st', h => by
        simp only [auGArg] at h
        cases hc : auConst u c c' st with
        | mk rc s1 =>
          simp [hc] at h
          have := auConst_gen hc
          simp [← h.1, GArg.genOf, this]
    | .ty _, .lt _, _, _, _, h => by simp [auGArg] at h
    | .ty _, .ct _, _, _, _, h => by simp [auGArg] at h
    | .lt _, .ty _, _, _, _, h => by simp [auGArg] at h
    | .lt _, .ct _, _, _, _, h => by simp [auGArg] at h
    | .ct _, .ty _, _, _, _, h => by simp [auGArg] at h
    | .ct _, .lt _, _, _, _, h => by simp [auGArg] at h
  theorem auArgs_gen (u : Nat) : (a1 a2 : Args) → (st : AuSt) → (r : Args) → (st' : AuSt) →
      auArgs u a1 a2 st = .ok (r, st') → a1.length = a2.length → r.genOf a1 = true ∧ r.genOf a2 = true
    | .nil, .nil, st, r, st', h, _ => by simp [auArgs] at h; simp [← h.1, Args.genOf]
    | .nil, .cons _ _, _, _, _, _, hl => by simp [Args.length, Args.toList] at hl
    | .cons _ _, .nil, _, _, _, _, hl => by simp [Args.length, Args.toList] at hl
    | .cons x xs, .cons y ys, st, r, st', h, hl => by
        simp only [auArgs] at h
        cases hx : auGArg u x y st with
        | error e => simp [hx] at h
        | ok p =>
          obtain ⟨rx, s1⟩ := p
          simp [hx] at h
          cases hxs : auArgs u xs ys s1 with
          | error e => simp [hxs] at h
          | ok q =>
            obtain ⟨rxs, s2⟩ := q
            simp [hxs] at h
            have h1 := auGArg_gen u x y st rx s1 hx
            have h2 := auArgs_gen u xs ys s1 rxs s2 hxs (by simp [Args.length, Args.toList] at hl ⊢; exact hl)
            simp [← h.1, Args.genOf, h1, h2]
end


/-! ### merge_into_guidance generalizes -/

def GArg.sameKind : GArg → GArg → Bool
  | .ty _, .ty _ => true
  | .lt _, .lt _ => true
  | .ct _, .ct _ => true
  | _, _ => false

def Args.sameKinds : Args → Args → Bool
  | .nil, .nil => true
  | .cons a as, .cons b bs => a.sameKind b && as.sameKinds bs
  | _, _ => false

theorem mergeLoop_gen (us : List Nat) : (idx : Nat) → (g a : Args) → (st : AuSt) → (r : Args) → (st' : AuSt) →
    mergeLoop us idx g a st = .ok (r, st') → g.sameKinds a = true → r.genOf g = true ∧ r.genOf a = true
  | _, .nil, .nil, st, r, st', h, _ => by simp [mergeLoop] at h; simp [← h.1, Args.genOf]
  | _, .nil, .cons _ _, _, _, _, _, hk => by simp [Args.sameKinds] at hk
  | _, .cons _ _, .nil, _, _, _, _, hk => by simp [Args.sameKinds] at hk
  | idx, .cons p1 ps1, .cons p2 ps2, st, r, st', h, hk => by
      simp only [Args.sameKinds, Bool.and_eq_true] at hk
      simp only [mergeLoop] at h
      cases hu : us[idx]? with
      | none => simp [hu] at h
      | some u =>
        simp only [hu] at h
        have hstep : ∀ rr s1, (match p1 with
            | .lt _ => match newLtVar u st with | (l, st') => (Except.ok (GArg.lt l, st') : Res (GArg × AuSt))
            | _ => auGArg u p1 p2 st) = .ok (rr, s1) → rr.genOf p1 = true ∧ rr.genOf p2 = true := by
          intro rr s1 hs
          cases p1 with
          | lt l =>
            cases p2 with
            | lt l' => simp [newLtVar] at hs; simp [← hs.1, GArg.genOf, Lifetime.genOf]
            | ty _ => simp [GArg.sameKind] at hk
            | ct _ => simp [GArg.sameKind] at hk
          | ty t => exact auGArg_gen u _ _ st rr s1 hs
          | ct c => exact auGArg_gen u _ _ st rr s1 hs
        split at h
        · rename_i rr s1 hs
          cases hr : mergeLoop us (idx + 1) ps1 ps2 s1 with
          | error e => simp [hr] at h
          | ok q =>
            obtain ⟨rs, s2⟩ := q
            simp [hr] at h
            have h1 := hstep rr s1 hs
            have h2 := mergeLoop_gen us (idx + 1) ps1 ps2 s1 rs s2 hr hk.2
            simp [← h.1, Args.genOf, h1, h2]
        · simp at h

/-! ### MayInvalidate: `false` only for (structural) instances of the current guidance -/

theorem miConstValue_false {v v' : ConstValue} {ty ty' : Ty} (h : miConstValue v v' = .ok false) :
    (Const.mk ty' v').genOf (Const.mk ty v) = true := by
  unfold miConstValue at h
  split at h <;> simp at h
  · simp [Const.genOf]
  · rename_i u i u' i' ; simp [Const.genOf, h.1, h.2]
  · rename_i a b; simp [Const.genOf, h]

mutual
  theorem miTy_false : (new cur : Ty) → miTy new cur = .ok false → cur.genOf new = true
    | new, cur, h => by
        unfold miTy at h
        split at h
        all_goals (try (simp at h; done))
        all_goals (try (simp [Ty.genOf]; done))
        · rename_i u i u' i'; simp at h; simp [Ty.genOf, h.1, h.2]
        · rename_i id a id' a'
          have := miNamed_false id id' a a' h
          simp [Ty.genOf, this.1, this.2]
        · rename_i id a id' a'
          have := miNamed_false id id' a a' h
          simp [Ty.genOf, this.1, this.2]
        · rename_i n a n' a'
          split at h
          · rename_i i j hk
            have := miNamed_false i j a a' h
            have hn : n' = n := by
              cases n <;> cases n' <;> simp [TyName.sameKind] at hk <;> simp [hk.1, hk.2, this.1]
            simp [Ty.genOf, hn, this.2]
          · simp at h
        · simp at h; simp [Ty.genOf, h]
        · rename_i t t'; simp [Ty.genOf, miTy_false t t' h]
        · rename_i m t m' t'
          split at h
          · simp at h
          · rename_i hm; simp at hm; simp [Ty.genOf, hm, miTy_false t t' h]
        · rename_i t c t' c'
          split at h
          · rename_i ht
            simp [Ty.genOf, miTy_false t t' ht, miConst_false c c' h]
          · rename_i r hr
            exact (hr h).elim
        · simp at h; simp [Ty.genOf, h]
  theorem miConst_false : (new cur : Const) → miConst new cur = .ok false → cur.genOf new = true
    | .mk ty v, .mk ty' v', h => by
        simp only [miConst] at h
        split at h
        · exact miConstValue_false h
        · rename_i r hr
          exact (hr h).elim
  theorem miGArg_false : (new cur : GArg) → miGArg new cur = .ok false → cur.genOf new = true
    | .ty t, .ty t', h => by simp only [miGArg] at h; simp [GArg.genOf, miTy_false t t' h]
    | .ct c, .ct c', h => by simp only [miGArg] at h; simp [GArg.genOf, miConst_false c c' h]
    | .lt _, .lt _, h => by simp [miGArg] at h
    | .ty _, .lt _, h => by simp [miGArg] at h
    | .ty _, .ct _, h => by simp [miGArg] at h
    | .lt _, .ty _, h => by simp [miGArg] at h
    | .lt _, .ct _, h => by simp [miGArg] at h
    | .ct _, .ty _, h => by simp [miGArg] at h
    | .ct _, .lt _, h => by simp [miGArg] at h
  theorem miNamed_false : (i j : Nat) → (a b : Args) → miNamed i j a b = .ok false → i = j ∧ b.genOf a = true
    | i, j, a, b, h => by
        unfold miNamed at h
        split at h
        · simp at h
        · split at h
          · simp at h
          · rename_i hij hlen
            simp at hij hlen
            exact ⟨hij, miAny_false a b h hlen⟩
  theorem miAny_false : (a b : Args) → miAny a b = .ok false → a.length = b.length → b.genOf a = true
    | .nil, .nil, _, _ => by simp [Args.genOf]
    | .nil, .cons _ _, _, hl => by simp [Args.length, Args.toList] at hl
    | .cons _ _, .nil, _, hl => by simp [Args.length, Args.toList] at hl
    | .cons x xs, .cons y ys, h, hl => by
        simp only [miAny] at h
        split at h
        · rename_i hx
          have hl' : xs.length = ys.length := by simp [Args.length, Args.toList] at hl ⊢; exact hl
          simp [Args.genOf, miGArg_false x y hx, miAny_false xs ys h hl']
        · rename_i r hr
          exact (hr h).elim
end

end Chalk
