/-
  FixedPointSem.lean — semantic correctness of the fixed-point iteration of `FixedPoint.lean` on
  CYCLIC ground instances of one polarity (all goals coinductive / all goals inductive).

  Part 1: the semantics (`InGfp`, `InLfp`, the polarity-generic target `Tgt`, relative greatest
          fixed point `InG` over a partial valuation), order on `Min`.
-/
import ChalkModel.FixedPoint

namespace Chalk.FixedPoint.Cyc

/-! ## semantics -/

/-- `∃ alt ∈ deps k, ∀ j ∈ alt, X j` (the one-step operator `T`) -/
def JE (inst : Instance) (X : Nat → Prop) (k : Nat) : Prop :=
  ∃ alt, alt ∈ inst.deps k ∧ ∀ j, j ∈ alt → X j

/-- the dual operator: `∀ alt ∈ deps k, ∃ j ∈ alt, X j` -/
def JA (inst : Instance) (X : Nat → Prop) (k : Nat) : Prop :=
  ∀ alt, alt ∈ inst.deps k → ∃ j, j ∈ alt ∧ X j

/-- polarity-generic operator: `JE` for `true`, `JA` for `false` -/
def J (b : Bool) (inst : Instance) (X : Nat → Prop) (k : Nat) : Prop :=
  if b then JE inst X k else JA inst X k

/-- greatest fixed point of `T` (impredicative) -/
def InGfp (inst : Instance) (k : Nat) : Prop :=
  ∃ S : Nat → Prop, (∀ x, S x → JE inst S x) ∧ S k

/-- least fixed point of `T` -/
inductive InLfp (inst : Instance) : Nat → Prop where
  | intro (k : Nat) (alt : List Nat) : alt ∈ inst.deps k → (∀ j, j ∈ alt → InLfp inst j) → InLfp inst k

theorem JE.mono {inst : Instance} {X Y : Nat → Prop} (h : ∀ j, X j → Y j) {k : Nat} (hk : JE inst X k) :
    JE inst Y k := by
  obtain ⟨alt, ha, hj⟩ := hk
  exact ⟨alt, ha, fun j hjm => h j (hj j hjm)⟩

theorem JA.mono {inst : Instance} {X Y : Nat → Prop} (h : ∀ j, X j → Y j) {k : Nat} (hk : JA inst X k) :
    JA inst Y k := by
  intro alt ha
  obtain ⟨j, hj, hx⟩ := hk alt ha
  exact ⟨j, hj, h j hx⟩

theorem J.mono {b : Bool} {inst : Instance} {X Y : Nat → Prop} (h : ∀ j, X j → Y j) {k : Nat}
    (hk : J b inst X k) : J b inst Y k := by
  cases b with
  | true => exact JE.mono h hk
  | false => exact JA.mono h hk

/-- duality: `J (!b) (¬ X)` excludes `J b X` -/
theorem J.dual {b : Bool} {inst : Instance} {X : Nat → Prop} {k : Nat}
    (h : J (!b) inst (fun j => ¬ X j) k) : ¬ J b inst X k := by
  cases b with
  | true =>
    rintro ⟨alt, ha, hj⟩
    obtain ⟨j, hjm, hn⟩ := h alt ha
    exact hn (hj j hjm)
  | false =>
    intro h2
    obtain ⟨alt, ha, hj⟩ := h
    obtain ⟨j, hjm, hx⟩ := h2 alt ha
    exact hj j hjm hx

/-- the semantic target of polarity `c`: the gfp of `T` for coinductive instances, the complement of
    the lfp of `T` (= the gfp of the dual operator) for inductive ones.  In both cases the goals whose
    correct answer is `initialValue c`. -/
def Tgt (c : Bool) (inst : Instance) (k : Nat) : Prop :=
  if c then InGfp inst k else ¬ InLfp inst k

theorem Tgt.unfold {c : Bool} {inst : Instance} {k : Nat} (h : Tgt c inst k) : J c inst (Tgt c inst) k := by
  cases c with
  | true =>
    obtain ⟨S, hS, hk⟩ := h
    exact JE.mono (fun j hj => ⟨S, hS, hj⟩) (hS k hk)
  | false =>
    intro alt ha
    apply Classical.byContradiction
    intro hn
    apply h
    refine InLfp.intro k alt ha (fun j hj => ?_)
    apply Classical.byContradiction
    intro hl
    exact hn ⟨j, hj, hl⟩

theorem Tgt.coind {c : Bool} {inst : Instance} (S : Nat → Prop)
    (hS : ∀ k, S k → J c inst (fun j => S j ∨ Tgt c inst j) k) : ∀ k, S k → Tgt c inst k := by
  cases c with
  | true =>
    intro k hk
    refine ⟨fun j => S j ∨ InGfp inst j, ?_, Or.inl hk⟩
    intro x hx
    cases hx with
    | inl h => exact hS x h
    | inr h =>
      obtain ⟨S', hS', hx'⟩ := h
      exact JE.mono (fun j hj => Or.inr ⟨S', hS', hj⟩) (hS' x hx')
  | false =>
    intro k hk hl
    induction hl with
    | intro k alt ha _ ih =>
      obtain ⟨j, hj, hx⟩ := hS k hk alt ha
      cases hx with
      | inl h => exact ih j hj h
      | inr h => exact h (by rename_i hall; exact hall j hj)

theorem Tgt.fold {c : Bool} {inst : Instance} {k : Nat} (h : J c inst (Tgt c inst) k) : Tgt c inst k := by
  refine Tgt.coind (fun x => J c inst (Tgt c inst) x) ?_ k h
  intro x hx
  exact J.mono (fun j hj => Or.inr hj) hx

/-! ## values -/

/-- the optimistic value of polarity `c` (`initial_value`) -/
def top (c : Bool) : V := initialValue c
/-- the other definite value -/
def bot (c : Bool) : V := if c then .noSolution else .unique

theorem top_ne_bot (c : Bool) : top c ≠ bot c := by cases c <;> decide
theorem top_ne_ambig (c : Bool) : top c ≠ .ambig := by cases c <;> decide
theorem bot_ne_ambig (c : Bool) : bot c ≠ .ambig := by cases c <;> decide

/-- `v` is the correct answer for goal `k` -/
def Corr (c : Bool) (inst : Instance) (k : Nat) (v : V) : Prop :=
  (v = top c ∧ Tgt c inst k) ∨ (v = bot c ∧ ¬ Tgt c inst k)

/-! ## order on `Min` (`none` = +∞) -/

def MinLe (a b : Min) : Prop :=
  match a, b with
  | _, none => True
  | none, some _ => False
  | some x, some y => x ≤ y

theorem MinLe.refl (a : Min) : MinLe a a := by
  cases a with
  | none => trivial
  | some x => exact Nat.le_refl x

theorem MinLe.trans {a b d : Min} (h1 : MinLe a b) (h2 : MinLe b d) : MinLe a d := by
  cases a <;> cases b <;> cases d <;> simp_all [MinLe]
  omega

theorem MinLe.none (a : Min) : MinLe a none := by cases a <;> trivial

theorem updateFrom_le_left (a b : Min) : MinLe (Min.updateFrom a b) a := by
  cases a <;> cases b <;> simp [Min.updateFrom, MinLe]
  exact Nat.min_le_left _ _

theorem updateFrom_le_right (a b : Min) : MinLe (Min.updateFrom a b) b := by
  cases a <;> cases b <;> simp [Min.updateFrom, MinLe]
  exact Nat.min_le_right _ _

theorem le_updateFrom {x a b : Min} (h1 : MinLe x a) (h2 : MinLe x b) : MinLe x (Min.updateFrom a b) := by
  cases x <;> cases a <;> cases b <;> simp_all [Min.updateFrom, MinLe]
  exact Nat.le_min.mpr ⟨h1, h2⟩

theorem minGe_iff (m : Min) (dfn : Nat) : Min.ge m dfn = true ↔ MinLe (some dfn) m := by
  cases m <;> simp [Min.ge, MinLe]

/-! ## Part 2: valuations carried by a solver state, relative fixed point, invariant, frame -/

/-- goal `k` has the answer `v` in the cache -/
def InCache (s : St) (k : Nat) (v : V) : Prop := ∃ cc, s.cache = some cc ∧ cacheGet cc k = some v
/-- goal `k` has a node with (provisional) answer `v` in the search graph -/
def InGraph (s : St) (k : Nat) (v : V) : Prop := ∃ (i : Nat) (n : Node), s.graph[i]? = some n ∧ n.goal = k ∧ n.solution = v
/-- the valuation of a state: cache and search graph -/
def Def (s : St) (k : Nat) (v : V) : Prop := InCache s k v ∨ InGraph s k v
def Undef (s : St) (k : Nat) : Prop := ∀ v, ¬ Def s k v

/-- the cycle flag of the stack entry at depth `d` is set -/
def flagAt (st : List StackEntry) (d : Nat) : Prop := ∃ e : StackEntry, st[d]? = some e ∧ e.cycle = true

/-- same stack up to cycle flags that were set -/
def StackExt (st st' : List StackEntry) : Prop :=
  st'.length = st.length ∧
  ∀ (i : Nat) (e : StackEntry), st[i]? = some e → ∃ e' : StackEntry, st'[i]? = some e' ∧ e'.coinductiveGoal = e.coinductiveGoal ∧
    (e.cycle = true → e'.cycle = true)

/-- goals of the nodes that are on the stack -/
def stackGoals (gr : List Node) : List Nat := (gr.filter (fun n => n.stackDepth.isSome)).map (·.goal)

section Sem
variable (c : Bool) (inst : Instance)

/-- relative greatest fixed point (of the operator of polarity `c`): the goals that get the
    optimistic value when every goal the state knows is held at its current value -/
def InG (s : St) (k : Nat) : Prop :=
  ∃ S : Nat → Prop, (∀ x, S x → (Def s x (top c) ∨ Def s x .ambig) ∨ (Undef s x ∧ J c inst S x)) ∧ S k

/-- the optimistic answer for `j` is justified in `s` by nodes at or above `lb`: it is correct
    outright, or a node at `dfn ≥ lb` holds it (if that node is on the stack, its cycle flag is set) -/
def Wit (s : St) (lb : Min) (j : Nat) : Prop :=
  Tgt c inst j ∨ ∃ (i : Nat) (n : Node), s.graph[i]? = some n ∧ n.goal = j ∧ n.solution = top c ∧ MinLe lb (some i) ∧
    ∀ d, n.stackDepth = some d → flagAt s.stack d

/-- the `should_continue` callback will not say "stop" -/
def QuietSt (s : St) : Prop := s.oracle = [] ∧ s.oracleDefault = true

/-- the state invariant (caching may be enabled or not: with `cache = none` nothing is `InCache`;
    the `should_continue` oracle is arbitrary: `ambig` values exist only once `interrupted` is set) -/
structure Inv (dom : List Nat) (fx : Bool) (s : St) : Prop where
  /-- the repairs F10 and F16 are assumed (`fx`), or solving is not interrupted at all -/
  fixes : fx = true ∨ (QuietSt s ∧ s.interrupted = false)
  amb : ∀ (i : Nat) (n : Node), s.graph[i]? = some n → n.solution = .ambig → s.interrupted = true
  cacheOK : ∀ k v, InCache s k v → Corr c inst k v
  stackCo : ∀ e, e ∈ s.stack → e.coinductiveGoal = c
  nodup : (s.graph.map (·.goal)).Nodup
  disj : ∀ (i : Nat) (n : Node), s.graph[i]? = some n → ∀ v, ¬ InCache s n.goal v
  inDom : ∀ (i : Nat) (n : Node), s.graph[i]? = some n → n.goal ∈ dom
  val : ∀ (i : Nat) (n : Node), s.graph[i]? = some n →
    n.solution = top c ∨ n.solution = bot c ∨ n.solution = .ambig
  approx : ∀ (i : Nat) (n : Node), s.graph[i]? = some n → n.solution = bot c → ¬ Tgt c inst n.goal
  stk : ∀ (i : Nat) (n : Node) (d : Nat), s.graph[i]? = some n → n.stackDepth = some d → d < s.stack.length ∧ n.links = some i
  nonstk : ∀ (i : Nat) (n : Node), s.graph[i]? = some n → n.stackDepth = none → ∃ l, n.links = some l ∧ l < i
  cnt : (stackGoals s.graph).length = s.stack.length
  just : ∀ (i : Nat) (n : Node), s.graph[i]? = some n → n.stackDepth = none → n.solution = top c →
    J c inst (Wit c inst s n.links) n.goal

/-- what a completed `solve_goal` did to the state (`lb`: lower bound of the links of new nodes) -/
structure Step (s s' : St) (lb : Min) : Prop where
  graph : ∃ new, s'.graph = s.graph ++ new ∧ ∀ n : Node, n ∈ new → n.stackDepth = none ∧ MinLe lb n.links
  stack : StackExt s.stack s'.stack
  cacheExt : ∀ k v, InCache s k v → InCache s' k v
  ext : ∀ k v, Def s k v → Def s' k v
  low : ∀ k, Undef s k → Def s' k (bot c) → ¬ InG c inst s k
  cacheMode : s'.cache.isSome = s.cache.isSome
  intr : s.interrupted = true → s'.interrupted = true
  quiet : QuietSt s → QuietSt s' ∧ (s.interrupted = false → s'.interrupted = false)

/-- what a sub-goal call reports about its answer -/
def Fact (s0 s' : St) (m' : Min) (g : Nat) (v : V) : Prop :=
  (v = top c ∧ Wit c inst s' m' g) ∨ (v = bot c ∧ ¬ Tgt c inst g ∧ ¬ InG c inst s0 g) ∨
  (v = .ambig ∧ s'.interrupted = true)

end Sem

end Chalk.FixedPoint.Cyc
