/-
  FixedPointSemD.lean — the loop of `solve_new_subgoal`: state at the start of an iteration
  (`LoopSt`), and what follows from one completed iteration.
-/
import ChalkModel.Lemmas.FixedPointSemC

namespace Chalk.FixedPoint.Cyc

section
variable {c : Bool} {inst : Instance} {dom : List Nat} {fx : Bool}

/-- the node of the goal being solved, while it is on the stack -/
def headNode (s0 : St) (g : Nat) (v : V) : Node := ⟨g, v, some s0.stack.length, some s0.graph.length⟩

/-- `s` is the state at the start of an iteration of the loop for the new goal `g`, which was
    pushed on the state `s0` -/
structure LoopSt (c : Bool) (inst : Instance) (dom : List Nat) (fx : Bool) (s0 : St) (g : Nat) (s : St) : Prop where
  i0 : Inv c inst dom fx s0
  u0 : Undef s0 g
  gdom : g ∈ dom
  inv : Inv c inst dom fx s
  graph : ∃ v, s.graph = s0.graph ++ [headNode s0 g v]
  slen : s.stack.length = s0.stack.length + 1
  sext : ∀ (i : Nat) (e : StackEntry), s0.stack[i]? = some e → ∃ e' : StackEntry, s.stack[i]? = some e' ∧
    e'.coinductiveGoal = e.coinductiveGoal ∧ (e.cycle = true → e'.cycle = true)
  cacheExt : ∀ k v, InCache s0 k v → InCache s k v
  low : ∀ k, Undef s0 k → Def s k (bot c) → ¬ InG c inst s0 k
  cacheMode : s.cache.isSome = s0.cache.isSome
  intr : s0.interrupted = true → s.interrupted = true
  quiet : QuietSt s0 → QuietSt s ∧ (s0.interrupted = false → s.interrupted = false)

theorem LoopSt.ext {s0 s : St} {g : Nat} (L : LoopSt c inst dom fx s0 g s) : ∀ k v, Def s0 k v → Def s k v := by
  intro k v h
  cases h with
  | inl h => exact Or.inl (L.cacheExt k v h)
  | inr h =>
    obtain ⟨i, n, hn, hg, hv⟩ := h
    obtain ⟨w, hw⟩ := L.graph
    exact Or.inr ⟨i, n, by rw [hw]; exact getElem?_prefix hn, hg, hv⟩

theorem LoopSt.inG {s0 s : St} {g : Nat} (L : LoopSt c inst dom fx s0 g s) {k : Nat} (h : InG c inst s0 k) :
    InG c inst s k :=
  InG.mono L.inv L.ext L.low h

/-- the pessimistic outcome of an iteration is correct -/
theorem IterFact.not_tgt {s s' : St} {m : Min} {g : Nat} {v : V} (h : IterFact c inst s s' m g v)
    (hv : v = bot c) : ¬ Tgt c inst g := by
  rcases h with h | h | h
  · rw [hv] at h; exact absurd h.1.symm (top_ne_bot c)
  · intro ht
    exact J.dual (J.mono (fun j hj => hj.1) h.2) ht.unfold
  · rw [hv] at h; exact absurd h.1 (bot_ne_ambig c)

theorem IterFact.val {s s' : St} {m : Min} {g : Nat} {v : V} (h : IterFact c inst s s' m g v) :
    v = top c ∨ v = bot c ∨ v = .ambig := by
  rcases h with h | h | h
  · exact Or.inl h.1
  · exact Or.inr (Or.inl h.1)
  · exact Or.inr (Or.inr h.1)

theorem IterFact.ambig {s s' : St} {m : Min} {g : Nat} (h : IterFact c inst s s' m g .ambig) :
    s'.interrupted = true := by
  rcases h with h | h | h
  · exact absurd h.1.symm (top_ne_ambig c)
  · exact absurd h.1.symm (bot_ne_ambig c)
  · exact h.2

/-- the relative lower bound, from the state before the push: entries that are new since `s0` and
    pessimistic are outside the fixed point relative to `s0` -/
theorem loop_low {s0 st s1 : St} {g : Nat} {m : Min} {cur : V} (L : LoopSt c inst dom fx s0 g st)
    (i1 : Inv c inst dom fx s1) (hs : Step c inst st s1 m) (hf : IterFact c inst st s1 m g cur) :
    ∀ k, Undef s0 k → (Def s1 k (bot c) ∨ (k = g ∧ cur = bot c)) → ¬ InG c inst s0 k := by
  intro k hu hk hin
  cases hk with
  | inl hd =>
    cases def_or_undef st k with
    | inl hdt =>
      obtain ⟨v, hv⟩ := hdt
      have : v = bot c := i1.defFun (hs.ext k v hv) hd
      rw [this] at hv
      exact L.low k hu hv hin
    | inr hut => exact hs.low k hut hd (L.inG hin)
  | inr hk =>
    obtain ⟨hkg, hcur⟩ := hk
    subst hkg
    rcases hf with h | h | h
    · rw [hcur] at h; exact absurd h.1.symm (top_ne_bot c)
    · cases hin.unfold with
      | inl hd => exact hd.elim (hu _) (hu _)
      | inr hj =>
        exact J.dual (J.mono (fun j hj => hj.2) h.2) (J.mono (fun j hj => L.inG hj) hj.2)
    · rw [hcur] at h; exact absurd h.1 (bot_ne_ambig c)

/-- a witness of `s0` is a witness of any state that extends its graph and keeps its flags -/
theorem Wit.from0 {s0 sX : St} {lb : Min} {j : Nat} (h : Wit c inst s0 lb j)
    (hg : ∃ r, sX.graph = s0.graph ++ r) (hfl : ∀ d, flagAt s0.stack d → flagAt sX.stack d) :
    Wit c inst sX lb j := by
  cases h with
  | inl h => exact Or.inl h
  | inr h =>
    obtain ⟨i, n, hn, hgo, hv, hl, hf⟩ := h
    obtain ⟨r, hr⟩ := hg
    exact Or.inr ⟨i, n, by rw [hr]; exact getElem?_prefix hn, hgo, hv, hl, fun d hd => hfl d (hf d hd)⟩

theorem mid_corr {α : Type} (G : List α) (h h' : α) (new : List α) (i : Nat) (n : α)
    (hn : (G ++ h :: new)[i]? = some n) :
    ∃ n', (G ++ h' :: new)[i]? = some n' ∧ ((i = G.length ∧ n = h ∧ n' = h') ∨ (i ≠ G.length ∧ n' = n)) := by
  rcases mid_cases G h new i n hn with h1 | h1 | h1
  · exact ⟨n, getElem?_prefix h1.2, Or.inr ⟨Nat.ne_of_lt h1.1, rfl⟩⟩
  · obtain ⟨e1, e2⟩ := h1
    subst e1
    exact ⟨h', mid_at G h' new, Or.inl ⟨rfl, e2, rfl⟩⟩
  · exact ⟨n, h1.2.2 h', Or.inr ⟨Nat.ne_of_gt h1.1, rfl⟩⟩

/-- the situation after one completed iteration of the loop -/
structure After (c : Bool) (inst : Instance) (dom : List Nat) (fx : Bool) (s0 st s1 : St) (g : Nat) (old cur : V)
    (m : Min) (new : List Node) : Prop where
  L : LoopSt c inst dom fx s0 g st
  i1 : Inv c inst dom fx s1
  step : Step c inst st s1 m
  fact : IterFact c inst st s1 m g cur
  gt : st.graph = s0.graph ++ [headNode s0 g old]
  g1 : s1.graph = s0.graph ++ headNode s0 g old :: new
  hnew : ∀ n : Node, n ∈ new → n.stackDepth = none ∧ MinLe m n.links

theorem After.intro {s0 st s1 : St} {g : Nat} {m : Min} {cur : V} (L : LoopSt c inst dom fx s0 g st)
    (i1 : Inv c inst dom fx s1) (hs : Step c inst st s1 m) (hf : IterFact c inst st s1 m g cur) :
    ∃ old new, After c inst dom fx s0 st s1 g old cur m new := by
  obtain ⟨old, hold⟩ := L.graph
  obtain ⟨new, hnew, hn⟩ := hs.graph
  refine ⟨old, new, L, i1, hs, hf, hold, ?_, hn⟩
  rw [hnew, hold, List.append_assoc]
  rfl

section AfterLemmas
variable {s0 st s1 : St} {g : Nat} {old cur : V} {m : Min} {new : List Node}

theorem After.slen (A : After c inst dom fx s0 st s1 g old cur m new) : s1.stack.length = s0.stack.length + 1 := by
  rw [A.step.stack.1, A.L.slen]

theorem After.sext (A : After c inst dom fx s0 st s1 g old cur m new) :
    ∀ (i : Nat) (e : StackEntry), s0.stack[i]? = some e → ∃ e' : StackEntry, s1.stack[i]? = some e' ∧
      e'.coinductiveGoal = e.coinductiveGoal ∧ (e.cycle = true → e'.cycle = true) := by
  intro i e he
  obtain ⟨e', he', hc', hf'⟩ := A.L.sext i e he
  obtain ⟨e'', he'', hc'', hf''⟩ := A.step.stack.2 i e' he'
  exact ⟨e'', he'', hc''.trans hc', fun h => hf'' (hf' h)⟩

theorem After.cacheExt (A : After c inst dom fx s0 st s1 g old cur m new) :
    ∀ k v, InCache s0 k v → InCache s1 k v :=
  fun k v h => A.step.cacheExt k v (A.L.cacheExt k v h)

theorem After.g0 (A : After c inst dom fx s0 st s1 g old cur m new) {i : Nat} {n : Node}
    (h : s0.graph[i]? = some n) : s1.graph[i]? = some n := by
  rw [A.g1]; exact getElem?_prefix h

theorem After.head (A : After c inst dom fx s0 st s1 g old cur m new) :
    s1.graph[s0.graph.length]? = some (headNode s0 g old) := by
  rw [A.g1]; exact mid_at _ _ _

/-- the outcome is one of the two definite values, and correct if pessimistic -/
theorem After.cur_val (A : After c inst dom fx s0 st s1 g old cur m new) :
    cur = top c ∨ cur = bot c ∨ cur = .ambig :=
  A.fact.val

/-- `s5`: `s1` with the stack popped (the graph is given separately) -/
structure Popped (s0 s1 s5 : St) : Prop where
  slen : s5.stack.length = s0.stack.length
  sget : ∀ i, i < s0.stack.length → s5.stack[i]? = s1.stack[i]?
  cache : s5.cache = s1.cache
  oracle : s5.oracle = s1.oracle
  oracleDefault : s5.oracleDefault = s1.oracleDefault
  interrupted : s5.interrupted = s1.interrupted

theorem After.popExt (A : After c inst dom fx s0 st s1 g old cur m new) {s5 : St} (P : Popped s0 s1 s5) :
    StackExt s0.stack s5.stack := by
  refine ⟨P.slen, fun i e he => ?_⟩
  obtain ⟨e', he', h2⟩ := A.sext i e he
  exact ⟨e', by rw [P.sget i (getElem?_lt_length he)]; exact he', h2⟩

theorem Popped.flag {s5 : St} (P : Popped s0 s1 s5) {d : Nat} (hd : d < s0.stack.length)
    (h : flagAt s1.stack d) : flagAt s5.stack d := by
  obtain ⟨e, he, hc⟩ := h
  exact ⟨e, by rw [P.sget d hd]; exact he, hc⟩

theorem Popped.inCache {s5 : St} (P : Popped s0 s1 s5) {k : Nat} {v : V} :
    InCache s5 k v ↔ InCache s1 k v := by
  unfold InCache
  rw [P.cache]

theorem After.popCo (A : After c inst dom fx s0 st s1 g old cur m new) {s5 : St} (P : Popped s0 s1 s5) :
    ∀ e, e ∈ s5.stack → e.coinductiveGoal = c := by
  intro e he
  obtain ⟨i, hi⟩ := List.getElem?_of_mem he
  have hlt : i < s0.stack.length := by rw [← P.slen]; exact getElem?_lt_length hi
  rw [P.sget i hlt] at hi
  exact A.i1.stackCo e (List.mem_of_getElem? hi)

/-- a witness in `s1` whose node is not the head node, seen from a state that keeps the other nodes -/
theorem After.wit (A : After c inst dom fx s0 st s1 g old cur m new) {s5 : St} (P : Popped s0 s1 s5)
    {h5 : Node} (hg5 : s5.graph = s0.graph ++ h5 :: new) (hgo : h5.goal = g) (hsd : h5.stackDepth = none)
    (hv : flagAt s1.stack s0.stack.length → old = top c → h5.solution = top c)
    {lb : Min} {j : Nat} (h : Wit c inst s1 lb j) : Wit c inst s5 lb j := by
  cases h with
  | inl h => exact Or.inl h
  | inr h =>
    obtain ⟨i, n, hn, hgn, hvn, hl, hf⟩ := h
    rw [A.g1] at hn
    obtain ⟨n', hn', hc⟩ := mid_corr s0.graph (headNode s0 g old) h5 new i n hn
    rw [← hg5] at hn'
    cases hc with
    | inl hc =>
      obtain ⟨_, e2, e3⟩ := hc
      subst e2; subst e3
      refine Or.inr ⟨i, _, hn', hgo.trans hgn, ?_, hl, fun d hd => ?_⟩
      · exact hv (hf _ rfl) hvn
      · rw [hsd] at hd; cases hd
    | inr hc =>
      obtain ⟨hne, e⟩ := hc
      subst e
      refine Or.inr ⟨i, _, hn', hgn, hvn, hl, fun d hd => ?_⟩
      rcases mid_cases _ _ _ i _ hn with h1 | h1 | h1
      · have := (A.L.i0.stk i _ d h1.2 hd).1
        exact P.flag this (hf d hd)
      · exact absurd h1.1 hne
      · rw [(A.hnew _ h1.2.1).1] at hd; cases hd

end AfterLemmas

end

end Chalk.FixedPoint.Cyc
