/-
  C22, layer "types": the parser inverts the writer on well-formed types
  (`parseTy_print` … `parseBounds_print`, continuation form).
-/
import ChalkModel.Lemmas.DisplaySteps

set_option linter.unusedSimpArgs false
set_option linter.unusedVariables false

namespace Chalk.Display.Parse
open Chalk.Display

/-! ### list printers -/

theorem printArgsTail_cons (s : St) (a : GArg) (as : Args) :
    printArgsTail s (.cons a as) = .kw "," :: printArgs s (.cons a as) := by
  simp [printArgsTail, printArgs]

theorem printTysTail_cons (s : St) (t : Ty) (ts : Tys) :
    printTysTail s (.cons t ts) = .kw "," :: printTys s (.cons t ts) := by
  simp [printTysTail, printTys]

theorem printBoundsTail_cons (s : St) (b : Bound) (bs : Bounds) :
    printBoundsTail s (.cons b bs) = .kw "+" :: printBounds s (.cons b bs) := by
  simp [printBoundsTail, printBounds]

theorem printArgsTail_snoc (s : St) : (as : Args) → (x : GArg) →
    printArgsTail s (snocArgs as x) = printArgsTail s as ++ .kw "," :: printGArg s x
  | .nil, x => by simp [snocArgs, printArgsTail]
  | .cons a as, x => by simp [snocArgs, printArgsTail, printArgsTail_snoc s as x]

theorem printArgs_snoc (s : St) (as : Args) (x : GArg) :
    printArgs s (snocArgs as x) = printArgsThenComma s as ++ printGArg s x := by
  cases as with
  | nil => simp [snocArgs, printArgs, printArgsThenComma, printArgsTail]
  | cons a as => simp [snocArgs, printArgs, printArgsThenComma, printArgsTail_snoc]

theorem unsnoc_snoc : (as : Args) → (x : GArg) → unsnocArgs (snocArgs as x) = some (as, x)
  | .nil, x => by simp [snocArgs, unsnocArgs]
  | .cons a .nil, x => by simp [snocArgs, unsnocArgs]
  | .cons a (.cons a' as), x => by
      have ih := unsnoc_snoc (.cons a' as) x
      simp only [snocArgs] at ih ⊢
      simp [unsnocArgs, ih]

theorem wfArgs_snoc (env : List (List VK)) : (as : Args) → (x : GArg) →
    wfArgs env (snocArgs as x) = (wfArgs env as && wfGArg env x)
  | .nil, x => by simp [snocArgs, wfArgs]
  | .cons a as, x => by simp [snocArgs, wfArgs, wfArgs_snoc env as x, Bool.and_assoc]

theorem szArgs_snoc : (as : Args) → (x : GArg) → szArgs (snocArgs as x) = szArgs as + 1 + szGArg x
  | .nil, x => by simp [snocArgs, szArgs]
  | .cons a as, x => by simp [snocArgs, szArgs, szArgs_snoc as x]; omega

theorem snocArgs_ne_nil (as : Args) (x : GArg) : snocArgs as x ≠ .nil := by
  cases as <;> simp [snocArgs]

/-! ### statements -/

def TyOK (t : Ty) : Prop :=
  ∀ (p : PSt) (fuel : Nat) (rest : List Tok), Faithful p → wfTy p.env t = true → szTy t ≤ fuel →
    (∀ r, rest ≠ .kw "<" :: r) → parseTy fuel p (printTy p.st t ++ rest) = some (t, rest)

def GArgOK (a : GArg) : Prop :=
  ∀ (p : PSt) (fuel : Nat) (rest : List Tok), Faithful p → wfGArg p.env a = true → szGArg a ≤ fuel →
    (∀ r, rest ≠ .kw "<" :: r) → parseGArg fuel p (printGArg p.st a ++ rest) = some (a, rest)

def BoundOK (b : Bound) : Prop :=
  ∀ (p : PSt) (fuel : Nat) (rest : List Tok), Faithful p → wfBound p.env b = true → szBound b ≤ fuel →
    (∀ r, rest ≠ .kw "<" :: r) → parseBound fuel p (printBound p.st b ++ rest) = some (b, rest)

def ArgsAllOK : Args → Prop
  | .nil => True
  | .cons a as => GArgOK a ∧ ArgsAllOK as

def TysAllOK : Tys → Prop
  | .nil => True
  | .cons t ts => TyOK t ∧ TysAllOK ts

def BoundsAllOK : Bounds → Prop
  | .nil => True
  | .cons b bs => BoundOK b ∧ BoundsAllOK bs

/-! ### lists -/

theorem parseTys_of_all : (ts : Tys) → TysAllOK ts → ∀ (p : PSt) (fuel : Nat) (rest : List Tok), Faithful p →
    ts ≠ .nil → wfTys p.env ts = true → szTys ts ≤ fuel →
    (∀ r, rest ≠ .kw "<" :: r) → (∀ r, rest ≠ .kw "," :: r) →
    parseTys fuel p (printTys p.st ts ++ rest) = some (ts, rest)
  | .nil, _, _, _, _, _, h, _, _, _, _ => absurd rfl h
  | .cons t .nil, hall, p, fuel, rest, hp, _, hwf, hsz, h1, h2 => by
      obtain ⟨f, rfl⟩ : ∃ f, fuel = f + 1 := ⟨fuel - 1, by simp [szTys] at hsz; omega⟩
      simp only [wfTys, Bool.and_eq_true] at hwf
      simp only [szTys] at hsz
      have := hall.1 p f rest hp hwf.1 (by omega) h1
      simp only [printTys, printTysTail, List.append_nil]
      exact parseTys_one f p this h2
  | .cons t (.cons t' ts), hall, p, fuel, rest, hp, _, hwf, hsz, h1, h2 => by
      obtain ⟨f, rfl⟩ : ∃ f, fuel = f + 1 := ⟨fuel - 1, by simp [szTys] at hsz; omega⟩
      rw [wfTys, Bool.and_eq_true] at hwf
      rw [szTys] at hsz
      have ih := parseTys_of_all (.cons t' ts) hall.2 p f rest hp (by simp) hwf.2 (by omega) h1 h2
      have := hall.1 p f (.kw "," :: (printTys p.st (.cons t' ts) ++ rest)) hp hwf.1 (by omega) (by simp)
      rw [printTys, printTysTail_cons]
      simp only [List.append_assoc, List.cons_append]
      exact parseTys_more f p this ih

theorem parseArgs_of_all : (as : Args) → ArgsAllOK as → ∀ (p : PSt) (fuel : Nat) (rest : List Tok), Faithful p →
    as ≠ .nil → wfArgs p.env as = true → szArgs as ≤ fuel →
    (∀ r, rest ≠ .kw "<" :: r) → (∀ r, rest ≠ .kw "," :: r) →
    parseArgs fuel p (printArgs p.st as ++ rest) = some (as, rest)
  | .nil, _, _, _, _, _, h, _, _, _, _ => absurd rfl h
  | .cons a .nil, hall, p, fuel, rest, hp, _, hwf, hsz, h1, h2 => by
      obtain ⟨f, rfl⟩ : ∃ f, fuel = f + 1 := ⟨fuel - 1, by simp [szArgs] at hsz; omega⟩
      simp only [wfArgs, Bool.and_eq_true] at hwf
      simp only [szArgs] at hsz
      have := hall.1 p f rest hp hwf.1 (by omega) h1
      simp only [printArgs, printArgsTail, List.append_nil]
      exact parseArgs_one f p this h2
  | .cons a (.cons a' as), hall, p, fuel, rest, hp, _, hwf, hsz, h1, h2 => by
      obtain ⟨f, rfl⟩ : ∃ f, fuel = f + 1 := ⟨fuel - 1, by simp [szArgs] at hsz; omega⟩
      rw [wfArgs, Bool.and_eq_true] at hwf
      rw [szArgs] at hsz
      have ih := parseArgs_of_all (.cons a' as) hall.2 p f rest hp (by simp) hwf.2 (by omega) h1 h2
      have := hall.1 p f (.kw "," :: (printArgs p.st (.cons a' as) ++ rest)) hp hwf.1 (by omega) (by simp)
      rw [printArgs, printArgsTail_cons]
      simp only [List.append_assoc, List.cons_append]
      exact parseArgs_more f p this ih

theorem argsAllOK_snoc : (as : Args) → (x : GArg) → ArgsAllOK as → GArgOK x → ArgsAllOK (snocArgs as x)
  | .nil, x, _, hx => ⟨hx, trivial⟩
  | .cons a as, x, h, hx => ⟨h.1, argsAllOK_snoc as x h.2 hx⟩

/-- `<args>` or nothing -/
theorem angleOK {args : Args} (hall : ArgsAllOK args) {p : PSt} (hp : Faithful p) {f : Nat} {rest : List Tok}
    (hwf : wfArgs p.env args = true) (hsz : szArgs args ≤ f) (hr : ∀ r, rest ≠ .kw "<" :: r) :
    parseAngleArgs (f + 1) p (printAngleArgs p.st args ++ rest) = some (args, rest) := by
  cases args with
  | nil => simp only [printAngleArgs, List.nil_append]; exact parseAngleArgs_nil f p hr
  | cons a as =>
      have := parseArgs_of_all (.cons a as) hall p f (.kw ">" :: rest) hp (by simp) hwf hsz (by simp) (by simp)
      simp only [printArgs, List.append_assoc] at this
      simp only [printAngleArgs, List.cons_append, List.append_assoc, List.nil_append]
      exact parseAngleArgs_cons f p this

/-! ### types, one constructor at a time -/

theorem tyOK_adt (id : String) {args : Args} (h : ArgsAllOK args) : TyOK (.adt id args) := by
  intro p fuel rest hp hwf hsz hr
  simp only [szTy] at hsz
  simp only [wfTy] at hwf
  obtain ⟨f, rfl⟩ : ∃ f, fuel = f + 2 := ⟨fuel - 2, by omega⟩
  simp only [printTy, List.cons_append]
  exact parseTy_adt _ _ (angleOK h hp hwf (by omega) hr)

theorem tyOK_scalar (sc : Scalar) : TyOK (.scalar sc) := by
  intro p fuel rest hp hwf hsz hr
  simp only [szTy] at hsz
  obtain ⟨f, rfl⟩ : ∃ f, fuel = f + 1 := ⟨fuel - 1, by omega⟩
  simp only [printTy, List.cons_append, List.nil_append]
  exact parseTy_scalar _ _ _ _

theorem tyOK_never : TyOK .never := by
  intro p fuel rest hp hwf hsz hr
  simp only [szTy] at hsz
  obtain ⟨f, rfl⟩ : ∃ f, fuel = f + 1 := ⟨fuel - 1, by omega⟩
  simp only [printTy, List.cons_append, List.nil_append]
  exact parseTy_never _ _ _

theorem tyOK_str : TyOK .str := by
  intro p fuel rest hp hwf hsz hr
  simp only [szTy] at hsz
  obtain ⟨f, rfl⟩ : ∃ f, fuel = f + 1 := ⟨fuel - 1, by omega⟩
  simp only [printTy, List.cons_append, List.nil_append]
  exact parseTy_str _ _ _

theorem tyOK_bound (d i : Nat) : TyOK (.bound d i) := by
  intro p fuel rest hp hwf hsz hr
  simp only [szTy] at hsz
  simp only [wfTy, hasKind_iff] at hwf
  obtain ⟨f, rfl⟩ : ∃ f, fuel = f + 1 := ⟨fuel - 1, by omega⟩
  simp only [printTy, List.cons_append, List.nil_append]
  exact parseTy_var _ _ _ _ _ (hp.var d i .ty hwf (by decide))

theorem tyOK_tuple {ts : Tys} (h : TysAllOK ts) : TyOK (.tuple ts) := by
  intro p fuel rest hp hwf hsz hr
  simp only [szTy] at hsz
  simp only [wfTy] at hwf
  obtain ⟨f, rfl⟩ : ∃ f, fuel = f + 1 := ⟨fuel - 1, by omega⟩
  cases ts with
  | nil =>
      simp only [printTy, printTys, Tys.length, List.cons_append, List.nil_append]
      exact parseTy_unit _ _ _
  | cons t ts =>
      simp only [wfTys, Bool.and_eq_true] at hwf
      simp only [szTys] at hsz
      cases ts with
      | nil =>
          have ht := h.1 p f (.kw "," :: .kw ")" :: rest) hp hwf.1 (by omega) (by simp)
          simp only [printTy, printTys, printTysTail, Tys.length, List.cons_append, List.nil_append,
            List.append_nil, List.append_assoc, if_true]
          exact parseTy_tuple1 _ _ (printTy_not_kw _ _ _ _ (by decide)) ht
      | cons t' ts =>
          have hts := parseTys_of_all (.cons t' ts) h.2 p f (.kw ")" :: rest) hp (by simp) hwf.2
            (by omega) (by simp) (by simp)
          have ht := h.1 p f (.kw "," :: (printTys p.st (.cons t' ts) ++ .kw ")" :: rest)) hp hwf.1
            (by omega) (by simp)
          have hlen : (Tys.cons t (Tys.cons t' ts)).length ≠ 1 := by simp [Tys.length]
          rw [printTy, printTys, printTysTail_cons]
          simp only [hlen, if_false, List.cons_append, List.nil_append, List.append_nil, List.append_assoc]
          refine parseTy_tuple2 _ _ (printTy_not_kw _ _ _ _ (by decide)) ht ?_ hts
          rw [printTys, List.append_assoc]
          exact printTy_not_kw _ _ _ _ (by decide)

theorem tyOK_ref (m : Bool) (l : Lt) {t : Ty} (h : TyOK t) : TyOK (.ref m l t) := by
  intro p fuel rest hp hwf hsz hr
  simp only [szTy] at hsz
  simp only [wfTy, Bool.and_eq_true] at hwf
  obtain ⟨f, rfl⟩ : ∃ f, fuel = f + 1 := ⟨fuel - 1, by omega⟩
  have ht := h p f rest hp hwf.2 (by omega) hr
  cases m with
  | true =>
      simp only [printTy, if_true, List.cons_append, List.nil_append, List.append_assoc]
      exact parseTy_ref_mut _ _ (parseLt_print hp hwf.1 _) ht
  | false =>
      simp only [printTy, Bool.false_eq_true, if_false, List.cons_append, List.nil_append, List.append_assoc]
      exact parseTy_ref _ _ (parseLt_print hp hwf.1 _) (printTy_not_kw _ _ _ _ (by decide)) ht

theorem tyOK_raw (m : Bool) {t : Ty} (h : TyOK t) : TyOK (.raw m t) := by
  intro p fuel rest hp hwf hsz hr
  simp only [szTy] at hsz
  simp only [wfTy] at hwf
  obtain ⟨f, rfl⟩ : ∃ f, fuel = f + 1 := ⟨fuel - 1, by omega⟩
  have ht := h p f rest hp hwf (by omega) hr
  cases m with
  | true =>
      simp only [printTy, if_true, List.cons_append]
      exact parseTy_raw_mut _ _ ht
  | false =>
      simp only [printTy, Bool.false_eq_true, if_false, List.cons_append]
      exact parseTy_raw_const _ _ ht

theorem tyOK_slice {t : Ty} (h : TyOK t) : TyOK (.slice t) := by
  intro p fuel rest hp hwf hsz hr
  simp only [szTy] at hsz
  simp only [wfTy] at hwf
  obtain ⟨f, rfl⟩ : ∃ f, fuel = f + 1 := ⟨fuel - 1, by omega⟩
  have ht := h p f (.kw "]" :: rest) hp hwf (by omega) (by simp)
  simp only [printTy, List.cons_append, List.nil_append, List.append_assoc]
  exact parseTy_slice _ _ ht

theorem tyOK_array {t : Ty} (c : Ct) (h : TyOK t) : TyOK (.array t c) := by
  intro p fuel rest hp hwf hsz hr
  simp only [szTy] at hsz
  simp only [wfTy, Bool.and_eq_true] at hwf
  obtain ⟨f, rfl⟩ : ∃ f, fuel = f + 1 := ⟨fuel - 1, by omega⟩
  have ht := h p f (.kw ";" :: (printCt p.st c ++ .kw "]" :: rest)) hp hwf.1 (by omega) (by simp)
  simp only [printTy, List.cons_append, List.nil_append, List.append_assoc]
  exact parseTy_array _ _ ht (parseCt_print hp hwf.2 _)

theorem fnRestOK {nb : Nat} {args : Tys} {ret : Ty} (ha : TysAllOK args) (hr : TyOK ret)
    {p : PSt} (hp : Faithful p) {f : Nat} {rest : List Tok}
    (hwa : wfTys (List.replicate nb .lt :: p.env) args = true)
    (hwr : wfTy (List.replicate nb .lt :: p.env) ret = true)
    (hsz : szTys args + szTy ret ≤ f) (hrest : ∀ r, rest ≠ .kw "<" :: r) :
    parseFnRest (f + 1) p nb
      (printTys (p.st.deeper none) args ++ .kw ")" :: .kw "->" :: (printTy (p.st.deeper none) ret ++ rest))
      = some (.fnPtr nb args ret, rest) := by
  have hp' : Faithful (p.deeper (List.replicate nb .lt) none) := hp.deeper _
  have hret := hr (p.deeper (List.replicate nb .lt) none) f rest hp' hwr (by omega) hrest
  cases args with
  | nil =>
      simp only [printTys, List.nil_append]
      exact parseFnRest_nil _ _ hret
  | cons t ts =>
      have hargs := parseTys_of_all (.cons t ts) ha (p.deeper (List.replicate nb .lt) none) f
        (.kw ")" :: .kw "->" :: (printTy (p.st.deeper none) ret ++ rest)) hp' (by simp) hwa (by omega)
        (by simp) (by simp)
      refine parseFnRest_cons _ _ ?_ hargs hret
      rw [printTys, List.append_assoc]
      intro r
      exact printTy_not_kw _ _ _ _ (by decide) _

theorem tyOK_fnPtr (nb : Nat) {args : Tys} {ret : Ty} (ha : TysAllOK args) (hr : TyOK ret) :
    TyOK (.fnPtr nb args ret) := by
  intro p fuel rest hp hwf hsz hrest
  simp only [szTy] at hsz
  simp only [wfTy, Bool.and_eq_true] at hwf
  obtain ⟨f, rfl⟩ : ∃ f, fuel = f + 2 := ⟨fuel - 2, by omega⟩
  have hfn := fnRestOK (nb := nb) ha hr hp (f := f) hwf.1 hwf.2 (by omega) hrest
  by_cases h0 : nb = 0
  · subst h0
    simp only [printTy, if_true, List.cons_append, List.nil_append, List.append_assoc]
    rw [parseTy_fn]
    exact hfn
  · have hb := parseBinders_print (p.st.deeper none) (List.replicate nb .lt) 0 (f + 1)
      (.kw ">" :: .kw "fn" :: .kw "(" :: (printTys (p.st.deeper none) args ++ .kw ")" :: .kw "->" ::
        (printTy (p.st.deeper none) ret ++ rest)))
      (by cases nb with | zero => exact absurd rfl h0 | succ n => simp [List.replicate_succ])
      hp.fresh_deeper (by simp; omega) (by simp)
    rw [← fnBinderNames_eq] at hb
    simp only [printTy, h0, if_false, List.cons_append, List.nil_append, List.append_assoc]
    refine parseTy_for _ _ hb ?_
    rw [List.length_replicate]
    exact hfn

theorem tyOK_proj (tr assoc : String) {self : Ty} {targs aargs : Args}
    (hs : TyOK self) (ht : ArgsAllOK targs) (ha : ArgsAllOK aargs) : TyOK (.proj tr assoc self targs aargs) := by
  intro p fuel rest hp hwf hsz hrest
  simp only [szTy] at hsz
  simp only [wfTy, Bool.and_eq_true] at hwf
  obtain ⟨f, rfl⟩ : ∃ f, fuel = f + 2 := ⟨fuel - 2, by omega⟩
  have h3 := angleOK ha hp (f := f) (rest := rest) hwf.2 (by omega) hrest
  have h2 := angleOK ht hp (f := f) (rest := .kw ">" :: .kw "::" :: .name assoc :: (printAngleArgs p.st aargs ++ rest))
    hwf.1.2 (by omega) (by simp)
  have h1 := hs p (f + 1) (.kw "as" :: .name tr :: (printAngleArgs p.st targs ++
    .kw ">" :: .kw "::" :: .name assoc :: (printAngleArgs p.st aargs ++ rest))) hp hwf.1.1 (by omega) (by simp)
  simp only [printTy, List.cons_append, List.nil_append, List.append_assoc]
  exact parseTy_proj _ _ h1 h2 h3

/-! ### generic arguments -/

theorem gargOK_ty {t : Ty} (h : TyOK t) : GArgOK (.ty t) := by
  intro p fuel rest hp hwf hsz hrest
  simp only [szGArg] at hsz
  simp only [wfGArg] at hwf
  obtain ⟨f, rfl⟩ : ∃ f, fuel = f + 1 := ⟨fuel - 1, by omega⟩
  simp only [printGArg]
  rcases printTy_head p.st t with ⟨d, i, rfl⟩ | ⟨tok, tl, e, hh⟩
  · simp only [wfTy, hasKind_iff] at hwf
    simp only [printTy, List.cons_append, List.nil_append]
    exact parseGArg_var_ty _ _ _ _ _ (hp.var d i .ty hwf (by decide)) hwf
  · have ht := h p f rest hp hwf (by omega) hrest
    have hl := printTy_not_ltStart p.st t rest
    rw [e] at ht hl ⊢
    exact parseGArg_ty _ _ hh hl ht

theorem gargOK_lt (l : Lt) : GArgOK (.lt l) := by
  intro p fuel rest hp hwf hsz hrest
  simp only [szGArg] at hsz
  simp only [wfGArg] at hwf
  obtain ⟨f, rfl⟩ : ∃ f, fuel = f + 1 := ⟨fuel - 1, by omega⟩
  simp only [printGArg]
  exact parseGArg_lt _ _ (isLtStart_printLt hp hwf _) (parseLt_print hp hwf _)

theorem gargOK_ct (c : Ct) : GArgOK (.ct c) := by
  intro p fuel rest hp hwf hsz hrest
  simp only [szGArg] at hsz
  simp only [wfGArg] at hwf
  obtain ⟨f, rfl⟩ : ∃ f, fuel = f + 1 := ⟨fuel - 1, by omega⟩
  cases c with
  | val n =>
      simp only [printGArg, printCt, List.cons_append, List.nil_append]
      exact parseGArg_num _ _ _ _
  | bound d i =>
      simp only [wfCt, hasKind_iff] at hwf
      simp only [printGArg, printCt, List.cons_append, List.nil_append]
      exact parseGArg_var_ct _ _ _ _ _ (hp.var d i .ct hwf (by decide)) hwf

/-! ### bounds -/

theorem forallToks_head (s : St) (ks : List VK) :
    forallToks s ks = [] ∨ ∃ tl, forallToks s ks = .kw "forall" :: tl := by
  cases ks with
  | nil => exact Or.inl rfl
  | cons k ks => exact Or.inr ⟨.kw "<" :: sepBy comma (s.binderNames (k :: ks)) ++ [.kw ">"], by simp [forallToks]⟩

theorem printBound_head (s : St) (b : Bound) :
    ∃ tok tl, printBound s b = tok :: tl ∧ (tok = .kw "forall" ∨ ∃ n, tok = .name n) := by
  cases b with
  | trait ks tr args =>
      rcases forallToks_head (s.deeper none) ks with e | ⟨tl, e⟩
      · exact ⟨_, _, by simp only [printBound, e, List.nil_append]; rfl, Or.inr ⟨_, rfl⟩⟩
      · exact ⟨_, _, by simp only [printBound, e, List.cons_append]; rfl, Or.inl rfl⟩
  | aliasEq ks tr assoc targs aargs v =>
      rcases forallToks_head (s.deeper none) ks with e | ⟨tl, e⟩
      · exact ⟨_, _, by simp only [printBound, e, List.nil_append, List.cons_append]; rfl, Or.inr ⟨_, rfl⟩⟩
      · exact ⟨_, _, by simp only [printBound, e, List.cons_append]; rfl, Or.inl rfl⟩

theorem printBound_not_ltStart (s : St) (b : Bound) (rest : List Tok) :
    isLtStart (printBound s b ++ rest) = false := by
  obtain ⟨tok, tl, e, h⟩ := printBound_head s b
  rw [e]
  rcases h with rfl | ⟨n, rfl⟩ <;> simp [isLtStart]

theorem boundOK_trait (ks : List VK) (tr : String) {args : Args} (h : ArgsAllOK args) : BoundOK (.trait ks tr args) := by
  intro p fuel rest hp hwf hsz hrest
  simp only [szBound] at hsz
  simp only [wfBound] at hwf
  obtain ⟨f, rfl⟩ : ∃ f, fuel = f + 2 := ⟨fuel - 2, by omega⟩
  have hp' : Faithful (p.deeper ks none) := hp.deeper ks
  have h1 := parseForall_print hp ks (f + 1) (.name tr :: (printAngleArgs (p.st.deeper none) args ++ rest))
    (by omega) (by simp)
  have h2 : parseTraitTail (f + 1) (p.deeper ks none) (printAngleArgs (p.st.deeper none) args ++ rest)
      = some (.plain args, rest) := by
    cases args with
    | nil => simp only [printAngleArgs, List.nil_append]; exact parseTraitTail_nil _ _ hrest
    | cons a as =>
        have := parseArgs_of_all (.cons a as) h (p.deeper ks none) f (.kw ">" :: rest) hp' (by simp) hwf
          (by omega) (by simp) (by simp)
        simp only [printArgs, List.append_assoc] at this
        simp only [printAngleArgs, List.cons_append, List.append_assoc, List.nil_append]
        exact parseTraitTail_plain _ _ this
  simp only [printBound, List.cons_append, List.nil_append, List.append_assoc]
  exact parseBound_trait _ _ h1 h2

/-- the part `<targs, assoc<aargs> = v>` behind a trait name -/
theorem traitTailOK_assoc {targs aargs : Args} {v : Ty} (assoc : String)
    (ht : ArgsAllOK targs) (ha : ArgsAllOK aargs) (hv : TyOK v)
    {p : PSt} (hp : Faithful p) {f : Nat} (rest : List Tok)
    (hwt : wfArgs p.env targs = true) (hwa : wfArgs p.env aargs = true) (hwv : wfTy p.env v = true)
    (hsz : 5 + szArgs targs + szArgs aargs + szTy v ≤ f) :
    parseTraitTail (f + 1) p (.kw "<" :: (printArgsThenComma p.st targs ++ .name assoc ::
        (printAngleArgs p.st aargs ++ .kw "=" :: (printTy p.st v ++ .kw ">" :: rest))))
      = some (.assoc targs assoc aargs v, rest) := by
  have hx : GArgOK (.ty (.adt assoc aargs)) := gargOK_ty (tyOK_adt assoc ha)
  have hall := argsAllOK_snoc targs _ ht hx
  have hargs := parseArgs_of_all _ hall p f (.kw "=" :: (printTy p.st v ++ .kw ">" :: rest)) hp
    (snocArgs_ne_nil _ _) (by simp [wfArgs_snoc, hwt, wfGArg, wfTy, hwa])
    (by rw [szArgs_snoc]; simp only [szGArg, szTy]; omega) (by simp) (by simp)
  rw [printArgs_snoc] at hargs
  simp only [printGArg, printTy, List.cons_append, List.append_assoc] at hargs
  have hvv := hv p f (.kw ">" :: rest) hp hwv (by omega) (by simp)
  exact parseTraitTail_assoc _ _ hargs (unsnoc_snoc _ _) hvv

theorem boundOK_aliasEq (ks : List VK) (tr assoc : String) {targs aargs : Args} {v : Ty}
    (ht : ArgsAllOK targs) (ha : ArgsAllOK aargs) (hv : TyOK v) : BoundOK (.aliasEq ks tr assoc targs aargs v) := by
  intro p fuel rest hp hwf hsz hrest
  simp only [szBound] at hsz
  simp only [wfBound, Bool.and_eq_true] at hwf
  obtain ⟨f, rfl⟩ : ∃ f, fuel = f + 2 := ⟨fuel - 2, by omega⟩
  have hp' : Faithful (p.deeper ks none) := hp.deeper ks
  have h2 := traitTailOK_assoc assoc ht ha hv hp' (f := f) rest hwf.1.1 hwf.1.2 hwf.2 (by omega)
  have h1 := parseForall_print hp ks (f + 1) (.name tr :: .kw "<" :: (printArgsThenComma (p.st.deeper none) targs ++ .name assoc ::
        (printAngleArgs (p.st.deeper none) aargs ++ .kw "=" :: (printTy (p.st.deeper none) v ++ .kw ">" :: rest))))
    (by omega) (by simp)
  simp only [printBound, List.cons_append, List.nil_append, List.append_assoc]
  exact parseBound_aliasEq _ _ h1 h2

theorem parseBounds_of_all : (bs : Bounds) → BoundsAllOK bs → ∀ (p : PSt) (fuel : Nat) (rest : List Tok), Faithful p →
    bs ≠ .nil → wfBounds p.env bs = true → szBounds bs ≤ fuel →
    (∀ r, rest ≠ .kw "<" :: r) → (∀ r, rest = .kw "+" :: r → isLtStart r = true) →
    parseBounds fuel p (printBounds p.st bs ++ rest) = some (bs, rest)
  | .nil, _, _, _, _, _, h, _, _, _, _ => absurd rfl h
  | .cons b .nil, hall, p, fuel, rest, hp, _, hwf, hsz, h1, h2 => by
      obtain ⟨f, rfl⟩ : ∃ f, fuel = f + 1 := ⟨fuel - 1, by simp [szBounds] at hsz; omega⟩
      simp only [wfBounds, Bool.and_eq_true] at hwf
      simp only [szBounds] at hsz
      have := hall.1 p f rest hp hwf.1 (by omega) h1
      simp only [printBounds, printBoundsTail, List.append_nil]
      exact parseBounds_last f p this h2
  | .cons b (.cons b' bs), hall, p, fuel, rest, hp, _, hwf, hsz, h1, h2 => by
      obtain ⟨f, rfl⟩ : ∃ f, fuel = f + 1 := ⟨fuel - 1, by simp [szBounds] at hsz; omega⟩
      rw [wfBounds, Bool.and_eq_true] at hwf
      rw [szBounds] at hsz
      have ih := parseBounds_of_all (.cons b' bs) hall.2 p f rest hp (by simp) hwf.2 (by omega) h1 h2
      have := hall.1 p f (.kw "+" :: (printBounds p.st (.cons b' bs) ++ rest)) hp hwf.1 (by omega) (by simp)
      rw [printBounds, printBoundsTail_cons]
      simp only [List.append_assoc, List.cons_append]
      refine parseBounds_more f p this ?_ ih
      rw [printBounds, List.append_assoc]
      exact printBound_not_ltStart _ _ _

theorem wfBoundsNe_iff (env : List (List VK)) (bs : Bounds) :
    wfBoundsNe env bs = true ↔ bs ≠ .nil ∧ wfBounds env bs = true := by
  cases bs <;> simp [wfBoundsNe, wfBounds]

theorem tyOK_dyn {bs : Bounds} (l : Lt) (h : BoundsAllOK bs) : TyOK (.dyn bs l) := by
  intro p fuel rest hp hwf hsz hrest
  simp only [szTy] at hsz
  simp only [wfTy, Bool.and_eq_true, wfBoundsNe_iff] at hwf
  obtain ⟨f, rfl⟩ : ∃ f, fuel = f + 1 := ⟨fuel - 1, by omega⟩
  have hp' : Faithful (p.deeper [.ty] none) := hp.deeper _
  have hb := parseBounds_of_all bs h (p.deeper [.ty] none) f (.kw "+" :: (printLt p.st l ++ rest)) hp'
    hwf.1.1 hwf.1.2 (by omega) (by simp)
    (by intro r e; simp at e; subst e; exact isLtStart_printLt hp hwf.2 _)
  simp only [printTy, List.cons_append, List.nil_append, List.append_assoc]
  exact parseTy_dyn _ _ hb (parseLt_print hp hwf.2 _)

/-! ### the induction -/

mutual
  theorem tyOK : (t : Ty) → TyOK t
    | .adt id args => tyOK_adt id (argsOK args)
    | .scalar sc => tyOK_scalar sc
    | .tuple ts => tyOK_tuple (tysOK ts)
    | .ref m l t => tyOK_ref m l (tyOK t)
    | .raw m t => tyOK_raw m (tyOK t)
    | .slice t => tyOK_slice (tyOK t)
    | .array t c => tyOK_array c (tyOK t)
    | .fnPtr nb args ret => tyOK_fnPtr nb (tysOK args) (tyOK ret)
    | .proj tr assoc self targs aargs => tyOK_proj tr assoc (tyOK self) (argsOK targs) (argsOK aargs)
    | .dyn bs l => tyOK_dyn l (boundsOK bs)
    | .never => tyOK_never
    | .str => tyOK_str
    | .bound d i => tyOK_bound d i
  theorem gargOK : (a : GArg) → GArgOK a
    | .ty t => gargOK_ty (tyOK t)
    | .lt l => gargOK_lt l
    | .ct c => gargOK_ct c
  theorem argsOK : (as : Args) → ArgsAllOK as
    | .nil => trivial
    | .cons a as => ⟨gargOK a, argsOK as⟩
  theorem tysOK : (ts : Tys) → TysAllOK ts
    | .nil => trivial
    | .cons t ts => ⟨tyOK t, tysOK ts⟩
  theorem boundOK : (b : Bound) → BoundOK b
    | .trait ks tr args => boundOK_trait ks tr (argsOK args)
    | .aliasEq ks tr assoc targs aargs v => boundOK_aliasEq ks tr assoc (argsOK targs) (argsOK aargs) (tyOK v)
  theorem boundsOK : (bs : Bounds) → BoundsAllOK bs
    | .nil => trivial
    | .cons b bs => ⟨boundOK b, boundsOK bs⟩
end

/-- **P1, continuation form.** -/
theorem parseTy_print {p : PSt} (hp : Faithful p) {t : Ty} (hwf : wfTy p.env t = true) {fuel : Nat}
    (hsz : szTy t ≤ fuel) {rest : List Tok} (hrest : ∀ r, rest ≠ .kw "<" :: r) :
    parseTy fuel p (printTy p.st t ++ rest) = some (t, rest) :=
  tyOK t p fuel rest hp hwf hsz hrest

end Chalk.Display.Parse
