/-
  FixedPointMixA.lean — basic lemmas (mixed polarities): valuation of a state, relative fixed point
  `InG`, frame `Step`, witnesses.
-/
import ChalkModel.Lemmas.FixedPointMix
import ChalkModel.Lemmas.FixedPointSemC

namespace Chalk.FixedPoint.Mix
open Chalk.FixedPoint.Cyc (JE JA MinLe InCache InGraph Def Undef flagAt StackExt stackGoals nodup_index
  def_or_undef getElem?_lt_length getElem?_prefix QuietSt)

section
variable {inst : Instance} {P : Nat → Prop} {dom : List Nat} {lvl : Nat → Nat} {fx : Bool}

theorem Inv.index_inj {s : St} (hi : Inv inst P dom lvl fx s) {i j : Nat} {a b : Node}
    (h1 : s.graph[i]? = some a) (h2 : s.graph[j]? = some b) (h : a.goal = b.goal) : i = j :=
  nodup_index (·.goal) s.graph i j a b hi.nodup h1 h2 h

theorem Inv.defFun {s : St} (hi : Inv inst P dom lvl fx s) {k : Nat} {v v' : V}
    (h1 : Def s k v) (h2 : Def s k v') : v = v' := by
  cases h1 with
  | inl h1 =>
    cases h2 with
    | inl h2 =>
      obtain ⟨cc, e1, g1⟩ := h1
      obtain ⟨cc', e2, g2⟩ := h2
      rw [e1] at e2
      cases e2
      rw [g1] at g2
      exact Option.some.inj g2
    | inr h2 =>
      obtain ⟨i, n, hn, hg, _⟩ := h2
      exact absurd (hg ▸ h1) (hi.disj i n hn v)
  | inr h1 =>
    cases h2 with
    | inl h2 =>
      obtain ⟨i, n, hn, hg, _⟩ := h1
      exact absurd (hg ▸ h2) (hi.disj i n hn v')
    | inr h2 =>
      obtain ⟨i, n, hn, hg, hv⟩ := h1
      obtain ⟨j, n', hn', hg', hv'⟩ := h2
      have : i = j := hi.index_inj hn hn' (hg.trans hg'.symm)
      subst this
      rw [hn] at hn'
      cases hn'
      exact hv.symm.trans hv'

/-- the value of a known goal is one of its two definite values or `ambig` -/
theorem Inv.defVal {s : St} (hi : Inv inst P dom lvl fx s) {k : Nat} {v : V} (h : Def s k v) :
    v = topOf inst k ∨ v = botOf inst k ∨ v = .ambig := by
  cases h with
  | inl hc =>
    have hh := hi.cacheOK k v hc
    unfold topOf initialValue botOf
    cases v <;> cases hcx : inst.coind k <;> simp_all [Holds]
  | inr hg =>
    obtain ⟨i, n, hn, hgo, hvn⟩ := hg
    subst hgo; subst hvn
    exact hi.val i n hn

/-- a pessimistic value of the state is the true answer -/
theorem Inv.defHolds {s : St} (hi : Inv inst P dom lvl fx s) {k : Nat} (h : Def s k (botOf inst k)) :
    Holds P (botOf inst k) k := by
  cases h with
  | inl h => exact hi.cacheOK k _ h
  | inr h =>
    obtain ⟨i, n, hn, hg, hv⟩ := h
    subst hg
    rw [← hv]
    exact hi.approx i n hn hv

theorem Inv.defTop {s : St} (hi : Inv inst P dom lvl fx s) {k : Nat} {v : V} (h : Def s k v)
    (ht : Holds P (topOf inst k) k) : v = topOf inst k ∨ v = .ambig := by
  rcases hi.defVal h with e | e | e
  · exact Or.inl e
  · rw [e] at h
    have := hi.defHolds h
    exact absurd (this.unique ht) (topOf_ne_botOf inst k).symm
  · exact Or.inr e

/-- the state holds `x` optimistically: at its optimistic value, or as `ambig` -/
def DefOpt (inst : Instance) (s : St) (x : Nat) : Prop := Def s x (topOf inst x) ∨ Def s x .ambig

theorem Inv.defOpt_of_ne_bot {s : St} (hi : Inv inst P dom lvl fx s) {k : Nat} {v : V} (h : Def s k v)
    (hne : v ≠ botOf inst k) : DefOpt inst s k := by
  rcases hi.defVal h with e | e | e
  · rw [e] at h; exact Or.inl h
  · exact absurd e hne
  · rw [e] at h; exact Or.inr h

theorem InG.unfold {s : St} {x : Nat} (h : InG inst P s x) :
    DefOpt inst s x ∨
      (Undef s x ∧ JV inst (topOf inst x) (Opt inst P (InG inst P s) (topOf inst x)) x) := by
  obtain ⟨S, hS, hx⟩ := h
  cases hS x hx with
  | inl h => exact Or.inl h
  | inr h => exact Or.inr ⟨h.1, JV.mono (fun j hj => hj.mono (fun j' hj' => ⟨S, hS, hj'⟩)) h.2⟩

theorem InG.coind {s : St} (S : Nat → Prop)
    (hS : ∀ x, S x → DefOpt inst s x ∨
      (Undef s x ∧ JV inst (topOf inst x) (Opt inst P (fun j => S j ∨ InG inst P s j) (topOf inst x)) x)) :
    ∀ k, S k → InG inst P s k := by
  intro k hk
  refine ⟨fun j => S j ∨ InG inst P s j, ?_, Or.inl hk⟩
  intro x hx
  cases hx with
  | inl h => exact hS x h
  | inr h =>
    cases h.unfold with
    | inl h => exact Or.inl h
    | inr h => exact Or.inr ⟨h.1, JV.mono (fun j hj => hj.mono (fun j' hj' => Or.inr hj')) h.2⟩

theorem InG.of_def_top {s : St} {j : Nat} (h : Def s j (topOf inst j)) : InG inst P s j :=
  ⟨fun x => Def s x (topOf inst x), fun _ hx => Or.inl (Or.inl hx), h⟩

/-- the true optimistic answers lie inside every relative fixed point -/
theorem Inv.tgt_sub_InG (hP : Strat inst P) {s : St} (hi : Inv inst P dom lvl fx s) {k : Nat}
    (h : Holds P (topOf inst k) k) : InG inst P s k := by
  refine InG.coind (fun x => Holds P (topOf inst x) x) ?_ k h
  intro x hx
  cases def_or_undef s x with
  | inl hd =>
    obtain ⟨v, hv⟩ := hd
    left
    cases hi.defTop hv hx with
    | inl e => rw [e] at hv; exact Or.inl hv
    | inr e => rw [e] at hv; exact Or.inr hv
  | inr hu => exact Or.inr ⟨hu, JV.mono (fun j hj => Or.inr hj) (hP.unfold hx)⟩

/-- extending the valuation consistently keeps the relative fixed point -/
theorem InG.mono {s s' : St} (hi' : Inv inst P dom lvl fx s') (hext : ∀ k v, Def s k v → Def s' k v)
    (hlow : ∀ k, Undef s k → Def s' k (botOf inst k) → ¬ InG inst P s k) {k : Nat} (h : InG inst P s k) :
    InG inst P s' k := by
  refine InG.coind (InG inst P s) ?_ k h
  intro x hx
  cases hx.unfold with
  | inl hd => exact Or.inl (hd.imp (hext x _) (hext x _))
  | inr hu =>
    cases def_or_undef s' x with
    | inl hd =>
      obtain ⟨v, hv⟩ := hd
      by_cases e : v = botOf inst x
      · rw [e] at hv; exact absurd hx (hlow x hu.1 hv)
      · exact Or.inl (hi'.defOpt_of_ne_bot hv e)
    | inr hu' => exact Or.inr ⟨hu', JV.mono (fun j hj => hj.mono (fun j' hj' => Or.inl hj')) hu.2⟩

/-! ### frame -/

theorem Step.refl (s : St) (lb : Min) : Step inst P s s lb :=
  ⟨⟨[], by simp, fun n hn => by cases hn⟩, StackExt.refl _, fun _ _ h => h, fun _ _ h => h,
   fun k hu hd => absurd hd (hu _), rfl, id, fun q => ⟨q, id⟩⟩

theorem Step.weaken {s s' : St} {lb lb' : Min} (h : Step inst P s s' lb) (hle : MinLe lb' lb) :
    Step inst P s s' lb' := by
  obtain ⟨new, hg, hn⟩ := h.graph
  exact ⟨⟨new, hg, fun n hm => ⟨(hn n hm).1, hle.trans (hn n hm).2⟩⟩, h.stack, h.cacheExt, h.ext, h.low,
    h.cacheMode, h.intr, h.quiet⟩

theorem Step.inG {s s' : St} {lb : Min} (h : Step inst P s s' lb) (hi' : Inv inst P dom lvl fx s') {k : Nat}
    (hk : InG inst P s k) : InG inst P s' k :=
  InG.mono hi' h.ext h.low hk

theorem Step.trans {s s' s'' : St} {m1 m2 : Min} (h1 : Step inst P s s' m1) (h2 : Step inst P s' s'' m2)
    (hle : MinLe m2 m1) (hi' : Inv inst P dom lvl fx s') (hi'' : Inv inst P dom lvl fx s'') :
    Step inst P s s'' m2 := by
  obtain ⟨new1, hg1, hn1⟩ := h1.graph
  obtain ⟨new2, hg2, hn2⟩ := h2.graph
  refine ⟨⟨new1 ++ new2, by rw [hg2, hg1, List.append_assoc], ?_⟩, h1.stack.trans h2.stack,
    fun k v h => h2.cacheExt k v (h1.cacheExt k v h), fun k v h => h2.ext k v (h1.ext k v h), ?_,
    h2.cacheMode.trans h1.cacheMode, fun e => h2.intr (h1.intr e), fun q => by
      obtain ⟨q1, i1⟩ := h1.quiet q
      obtain ⟨q2, i2⟩ := h2.quiet q1
      exact ⟨q2, fun e => i2 (i1 e)⟩⟩
  · intro n hn
    cases List.mem_append.mp hn with
    | inl h => exact ⟨(hn1 n h).1, hle.trans (hn1 n h).2⟩
    | inr h => exact hn2 n h
  · intro k hu hd hin
    cases def_or_undef s' k with
    | inl hd' =>
      obtain ⟨v, hv⟩ := hd'
      have : v = botOf inst k := hi''.defFun (h2.ext k v hv) hd
      rw [this] at hv
      exact h1.low k hu hv hin
    | inr hu' => exact h2.low k hu' hd (h1.inG hi' hin)

theorem Wit.step {s s' : St} {lb lb' m : Min} {v : V} {j : Nat} (h : Wit inst P s lb v j)
    (hs : Step inst P s s' m) (hle : MinLe lb' lb) : Wit inst P s' lb' v j := by
  cases h with
  | inl h => exact Or.inl h
  | inr h =>
    obtain ⟨i, n, hn, hg, hv, ht, hl, hf⟩ := h
    obtain ⟨new, hgr, _⟩ := hs.graph
    exact Or.inr ⟨i, n, by rw [hgr]; exact getElem?_prefix hn, hg, hv, ht, hle.trans hl,
      fun d hd => hs.stack.flag (hf d hd)⟩

theorem Fact.step {s0 s1 s' s'' : St} {m0 m' m'' : Min} {g : Nat} {v : V}
    (h : Fact inst P s1 s' m' g v) (h0 : Step inst P s0 s1 m0) (hi1 : Inv inst P dom lvl fx s1)
    (hs : Step inst P s' s'' m'') (hle : MinLe m'' m') : Fact inst P s0 s'' m'' g v := by
  cases h with
  | inl h => exact Or.inl ⟨h.1, h.2.step hs hle⟩
  | inr h =>
    cases h with
    | inl h => exact Or.inr (Or.inl ⟨h.1, h.2.1, fun hin => h.2.2 (h0.inG hi1 hin)⟩)
    | inr h => exact Or.inr (Or.inr ⟨h.1, hs.intr h.2⟩)

/-- an ambiguous answer means that solving was interrupted -/
theorem Fact.ambig {s0 s' : St} {m' : Min} {g : Nat} (h : Fact inst P s0 s' m' g .ambig) :
    s'.interrupted = true := by
  rcases h with h | h | h
  · exact absurd h.1.symm (topOf_ne_ambig inst g)
  · exact absurd h.1.symm (botOf_ne_ambig inst g)
  · exact h.2

/-- stack nodes are kept by a step -/
theorem Step.stackNode {s s' : St} {m : Min} (hs : Step inst P s s' m) {i : Nat} {n : Node} {d : Nat}
    (hn : s'.graph[i]? = some n) (hd : n.stackDepth = some d) : s.graph[i]? = some n := by
  obtain ⟨new, hgr, hnew⟩ := hs.graph
  rw [hgr] at hn
  rcases Nat.lt_or_ge i s.graph.length with hlt | hge
  · rw [List.getElem?_append_left hlt] at hn; exact hn
  · rw [List.getElem?_append_right hge] at hn
    have := (hnew n (List.mem_of_getElem? hn)).1
    rw [this] at hd; cases hd

theorem Below.step {s s' : St} {m : Min} {g : Nat} (h : Below inst lvl s g) (hs : Step inst P s s' m) :
    Below inst lvl s' g :=
  fun i n d hn hd => h i n d (hs.stackNode hn hd) hd

theorem LinkOK.step {s' s'' : St} {m2 : Min} {L B : Nat} {m m' : Min} (h : LinkOK lvl s' L B m m')
    (hs : Step inst P s' s'' m2) : LinkOK lvl s'' L B m m' := by
  cases h with
  | inl h => exact Or.inl h
  | inr h =>
    obtain ⟨l, e, hex⟩ := h
    obtain ⟨new, hgr, _⟩ := hs.graph
    refine Or.inr ⟨l, e, fun hlt => ?_⟩
    obtain ⟨n', hn', hl⟩ := hex hlt
    exact ⟨n', by rw [hgr]; exact getElem?_prefix hn', hl⟩

/-- chaining two minimums updates -/
theorem LinkOK.trans {s' : St} {L B : Nat} {m m1 m2 : Min} (h1 : LinkOK lvl s' L B m m1)
    (h2 : LinkOK lvl s' L B m1 m2) : LinkOK lvl s' L B m m2 := by
  cases h2 with
  | inl h => rw [h]; exact h1
  | inr h => exact Or.inr h

theorem LinkOK.mono {s' : St} {L L' B B' : Nat} {m m' : Min} (h : LinkOK lvl s' L B m m') (hl : L ≤ L')
    (hb : B' ≤ B) : LinkOK lvl s' L' B' m m' := by
  cases h with
  | inl h => exact Or.inl h
  | inr h =>
    obtain ⟨l, e, hex⟩ := h
    refine Or.inr ⟨l, e, fun hlt => ?_⟩
    obtain ⟨n', hn', hl'⟩ := hex (Nat.lt_of_lt_of_le hlt hb)
    exact ⟨n', hn', Nat.le_trans hl' hl⟩

theorem Step.graph_le {s s' : St} {m : Min} (hs : Step inst P s s' m) : s.graph.length ≤ s'.graph.length := by
  obtain ⟨new, hgr, _⟩ := hs.graph
  rw [hgr, List.length_append]
  exact Nat.le_add_right _ _

end

end Chalk.FixedPoint.Mix
