/-
  Specification vocabulary for the unifier theorems (C14, C15, C29). Definitions only.
  Nothing here is used by the executable model; everything here is written from the meaning of
  the properties, not from the unifier's code.
-/
import ChalkModel.Unify

namespace Chalk

/-! ## the rigid fragment (C15 `relate_symm`, C29): no inference variables of any sort, no bound
    variables, no aliases, no `dyn`, no error type, function pointers without binders -/

def Lifetime.rigid : Lifetime → Bool
  | .infer _ => false
  | .bound _ _ => false
  | _ => true

def ConstValue.rigid : ConstValue → Bool
  | .concrete _ => true
  | .placeholder _ _ => true
  | _ => false

def Args.isNil : Args → Bool
  | .nil => true
  | _ => false

mutual
  def Ty.rigid : Ty → Bool
    | .app _ args => args.rigid
    | .scalar _ => true
    | .str => true
    | .never => true
    | .foreign _ => true
    | .placeholder _ _ => true
    | .array t c => t.rigid && c.rigid
    | .slice t => t.rigid
    | .raw _ t => t.rigid
    | .ref _ l t => l.rigid && t.rigid
    | .function nb _ args => nb == 0 && !args.isNil && args.rigid
    | _ => false
  def Const.rigid : Const → Bool
    | .mk ty v => ty.rigid && v.rigid
  def GArg.rigid : GArg → Bool
    | .ty t => t.rigid
    | .lt l => l.rigid
    | .ct c => c.rigid
  def Args.rigid : Args → Bool
    | .nil => true
    | .cons a as => a.rigid && as.rigid
end

/- every lifetime replaced by `'static`: two types "have the same structure" iff their erasures
    are equal (same constructors, ids, arities, mutabilities, scalars, placeholders, constants) -/
mutual
  def Ty.eraseLt : Ty → Ty
    | .app n args => .app n args.eraseLt
    | .array t c => .array t.eraseLt c.eraseLt
    | .slice t => .slice t.eraseLt
    | .raw m t => .raw m t.eraseLt
    | .ref m _ t => .ref m .static t.eraseLt
    | .function nb sig args => .function nb sig args.eraseLt
    | .proj id args => .proj id args.eraseLt
    | .opaque id args => .opaque id args.eraseLt
    | t => t
  def Const.eraseLt : Const → Const
    | .mk ty v => .mk ty.eraseLt v
  def GArg.eraseLt : GArg → GArg
    | .ty t => .ty t.eraseLt
    | .lt _ => .lt .static
    | .ct c => .ct c.eraseLt
  def Args.eraseLt : Args → Args
    | .nil => .nil
    | .cons a as => .cons a.eraseLt as.eraseLt
end

/- nesting depth (= the number of nested `relate_ty_ty` calls needed) -/
mutual
  def Ty.depth : Ty → Nat
    | .app _ args => args.depth + 1
    | .array t c => max t.depth c.depth + 1
    | .slice t => t.depth + 1
    | .raw _ t => t.depth + 1
    | .ref _ _ t => t.depth + 1
    | .function _ _ args => args.depth + 1
    | .proj _ args => args.depth + 1
    | .opaque _ args => args.depth + 1
    | _ => 1
  def Const.depth : Const → Nat
    | .mk ty _ => ty.depth
  def GArg.depth : GArg → Nat
    | .ty t => t.depth
    | .lt _ => 0
    | .ct c => c.depth
  def Args.depth : Args → Nat
    | .nil => 0
    | .cons a as => max a.depth as.depth
end

/-- the variance list `zip_substs` is handed for a head (`None` = every position invariant) -/
def declaredVariances (db : UDb) : TyName → Option (List Variance)
  | .adt i => some (db.adtVariance i)
  | .fnDef i => some (db.fnDefVariance i)
  | .tuple n => some (List.replicate n .co)
  | _ => none

/- well-kindedness against an arity table: every applied name has exactly `ar name` arguments,
    and the declared variance lists have that length (what lowering guarantees) -/
mutual
  def Ty.arityOk (ar : TyName → Nat) : Ty → Bool
    | .app n args => args.length == ar n && args.arityOk ar
    | .array t c => t.arityOk ar && c.arityOk ar
    | .slice t => t.arityOk ar
    | .raw _ t => t.arityOk ar
    | .ref _ _ t => t.arityOk ar
    | .function _ _ args => args.arityOk ar
    | _ => true
  def Const.arityOk (ar : TyName → Nat) : Const → Bool
    | .mk ty _ => ty.arityOk ar
  def GArg.arityOk (ar : TyName → Nat) : GArg → Bool
    | .ty t => t.arityOk ar
    | .lt _ => true
    | .ct c => c.arityOk ar
  def Args.arityOk (ar : TyName → Nat) : Args → Bool
    | .nil => true
    | .cons a as => a.arityOk ar && as.arityOk ar
end

def UDb.arityOk (db : UDb) (ar : TyName → Nat) : Prop :=
  ∀ n vs, declaredVariances db n = some vs → vs.length = ar n

/-! ## C29: the outlives constraints dictated by variance

  Orientation (chalk's): relating lifetimes `a`, `b` in a position of variance `Covariant`
  demands `b: a`, `Contravariant` demands `a: b`, `Invariant` both; `&'a T` is contravariant in
  `'a` (so `&'a T <: &'b T` demands `'a: 'b`) and covariant in `T`; `&mut T`, `*mut T` are
  invariant in `T`; `*const T`, slices, arrays, tuples covariant; ADT / fn-def parameters have
  their declared variance; all other applied names are invariant in every parameter; a function
  pointer is contravariant in its parameters and covariant in its result, and two function
  pointers are *equal* (invariant position) iff each is a subtype of the other. Equal lifetimes
  and the error lifetime impose nothing. The list is in left-to-right order. -/

def ltConstraints (v : Variance) (a b : Lifetime) : List (Lifetime × Lifetime) :=
  if a = b ∨ a = .error ∨ b = .error then []
  else match v with
    | .inv => [(a, b), (b, a)]
    | .contra => [(a, b)]
    | .co => [(b, a)]

def positionVariance (vs : Option (List Variance)) (i : Nat) : Variance :=
  match vs with
  | some l => l.getD i .inv
  | none => .inv

mutual
  def subConstraints (db : UDb) (v : Variance) (x y : Ty) : List (Lifetime × Lifetime) :=
    match x, y with
    | .app n as, .app _ bs => subConstraintsArgs db v (declaredVariances db n) 0 as bs
    | .slice a, .slice b => subConstraints db v a b
    | .raw m a, .raw _ b => subConstraints db (v.xform (if m then .inv else .co)) a b
    | .ref m la a, .ref _ lb b =>
        ltConstraints (v.xform .contra) la lb ++ subConstraints db (v.xform (if m then .inv else .co)) a b
    | .array a (.mk ta _), .array b (.mk tb _) => subConstraints db v a b ++ subConstraints db v ta tb
    | .function _ _ as, .function _ _ bs =>
        match v with
        | .inv => subConstraintsFn db .contra as bs ++ subConstraintsFn db .co as bs
        | v => subConstraintsFn db v as bs
    | _, _ => []
  termination_by structural x
  def subConstraintsGArg (db : UDb) (v : Variance) (x y : GArg) : List (Lifetime × Lifetime) :=
    match x, y with
    | .ty a, .ty b => subConstraints db v a b
    | .lt a, .lt b => ltConstraints v a b
    | .ct (.mk ta _), .ct (.mk tb _) => subConstraints db v ta tb
    | _, _ => []
  termination_by structural x
  /-- parameters of an applied name: position `i` has variance `v.xform (declared i)` -/
  def subConstraintsArgs (db : UDb) (v : Variance) (vs : Option (List Variance)) (i : Nat)
      (x y : Args) : List (Lifetime × Lifetime) :=
    match x, y with
    | .cons a as, .cons b bs =>
        subConstraintsGArg db (v.xform (positionVariance vs i)) a b ++ subConstraintsArgs db v vs (i + 1) as bs
    | _, _ => []
  termination_by structural x
  /-- `fn(P..) -> R`: every argument but the last is a parameter -/
  def subConstraintsFn (db : UDb) (v : Variance) (x y : Args) : List (Lifetime × Lifetime) :=
    match x, y with
    | .cons a .nil, .cons b .nil => subConstraintsGArg db v a b
    | .cons a as, .cons b bs => subConstraintsGArg db (v.xform .contra) a b ++ subConstraintsFn db v as bs
    | _, _ => []
  termination_by structural x
end

/-! ## C14: the first-order fragment and the meaning of a table

  Fragment: applied names over type arguments (ADTs, tuples, fn defs, closures, ...), slices, raw
  pointers, scalars, `str`, `!`, foreign types, placeholders, type variables of the three kinds. -/

mutual
  def Ty.fo : Ty → Bool
    | .app _ args => args.fo
    | .scalar _ => true
    | .str => true
    | .never => true
    | .foreign _ => true
    | .placeholder _ _ => true
    | .slice t => t.fo
    | .raw _ t => t.fo
    | .infer _ _ => true
    | _ => false
  def GArg.fo : GArg → Bool
    | .ty t => t.fo
    | _ => false
  def Args.fo : Args → Bool
    | .nil => true
    | .cons a as => a.fo && as.fo
end

/- all type variables of a first-order type are below `n` -/
mutual
  def Ty.varsBelow (n : Nat) : Ty → Bool
    | .app _ args => args.varsBelow n
    | .slice t => t.varsBelow n
    | .raw _ t => t.varsBelow n
    | .infer v _ => decide (v < n)
    | _ => true
  def GArg.varsBelow (n : Nat) : GArg → Bool
    | .ty t => t.varsBelow n
    | _ => true
  def Args.varsBelow (n : Nat) : Args → Bool
    | .nil => true
    | .cons a as => a.varsBelow n && as.varsBelow n
end

/- apply an assignment of types to type variables (homomorphically; the kind annotation of a
    variable occurrence is ignored) -/
mutual
  def Ty.applyAsg (θ : Nat → Ty) : Ty → Ty
    | .app n args => .app n (args.applyAsg θ)
    | .slice t => .slice (t.applyAsg θ)
    | .raw m t => .raw m (t.applyAsg θ)
    | .infer v _ => θ v
    | t => t
  def GArg.applyAsg (θ : Nat → Ty) : GArg → GArg
    | .ty t => .ty (t.applyAsg θ)
    | g => g
  def Args.applyAsg (θ : Nat → Ty) : Args → Args
    | .nil => .nil
    | .cons a as => .cons (a.applyAsg θ) (as.applyAsg θ)
end

/-- `θ` is a solution of the table: variables of one class have one image, and a variable bound to
    a type has the image of that type -/
def Table.Models (t : Table) (θ : Nat → Ty) : Prop :=
  (∀ v, v < t.numVars → θ v = θ (t.find v)) ∧
  (∀ v ty, v < t.numVars → t.probeVar v = some (.ty ty) → θ v = ty.applyAsg θ)

/-- the union-find forest of the table is well formed: equal lengths, parents in range, ranks
    strictly increase towards the root (what `ena` maintains) -/
structure Table.WF (t : Table) : Prop where
  lenRank : t.rank.length = t.parent.length
  lenValue : t.value.length = t.parent.length
  parentLt : ∀ v, v < t.parent.length → t.parent.getD v v < t.parent.length
  rankInc : ∀ v, v < t.parent.length → t.parent.getD v v ≠ v → t.rank.getD v 0 < t.rank.getD (t.parent.getD v v) 0

/-- every value stored in the table is a first-order type over the table's variables -/
def Table.foValues (t : Table) : Prop :=
  ∀ v g, v < t.numVars → t.probeVar v = some g → ∃ ty, g = .ty ty ∧ ty.fo = true ∧ ty.varsBelow t.numVars = true

/-- every type stored in the table respects the arity table (`Ty.arityOk`): `zip_substs` truncates
    to the shorter argument list, so soundness of the unifier needs well-kinded input -/
def Table.arityValues (ar : TyName → Nat) (t : Table) : Prop :=
  ∀ v ty, v < t.numVars → t.probeVar v = some (.ty ty) → ty.arityOk ar = true

end Chalk
