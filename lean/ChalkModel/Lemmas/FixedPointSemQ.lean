/-
  FixedPointSemQ.lean — arbitrary calls (any `should_continue` oracle, any work budget): the answer
  is exact or `ambig`, the cache stays correct, later calls are exact.
-/
import ChalkModel.Lemmas.FixedPointSemP

namespace Chalk.FixedPoint.Cyc

section
variable {c : Bool} {inst : Instance} {dom : List Nat} {cfg : Cfg}

/-- one arbitrary call: the correct answer or `ambig` (exact if the call is not interrupted), or the
    budget panic; correct cache after -/
theorem anyCall_good (hyp : Hyp c inst dom) (h3 : cfg.fixF3 = true) (h7 : cfg.fixF7 = true)
    (h10 : cfg.fixF10 = true) (h16 : cfg.fixF16 = true)
    (hov : dom.length ≤ cfg.overflowDepth) (hr : 2 ≤ cfg.rounds) (s : St) (hok : CacheOK c inst s)
    (k : Call) (hg : k.goal ∈ dom) :
    (∃ v s', runCall inst cfg k s = .ok v s' ∧ (Corr c inst k.goal v ∨ (v = .ambig ∧ s'.interrupted = true)) ∧
      (QuietCall k → Corr c inst k.goal v) ∧ CacheOK c inst s') ∨
    (∃ s', runCall inst cfg k s = .panic .budget s' ∧ k.budget ≠ none ∧ CacheOK c inst s') := by
  unfold runCall
  cases solveRootGoal_general (fx := true) (cfg := { cfg with budget := k.budget }) hyp h3 h7 (fun _ => h10)
      (fun _ => h16) hov hr { s with oracle := k.oracle, oracleDefault := k.dflt, work := 0 } (Or.inl rfl) hok
      k.goal hg with
  | inr h => exact Or.inr h
  | inl h =>
    obtain ⟨v, s', h1, h2, _, _, h5, _, h7'⟩ := h
    refine Or.inl ⟨v, s', h1, h2, fun hq => ?_, h5⟩
    cases h2 with
    | inl hc => exact hc
    | inr ha =>
      have := h7' hq
      rw [ha.2] at this
      cases this

theorem anyCall_state (hyp : Hyp c inst dom) (h3 : cfg.fixF3 = true) (h7 : cfg.fixF7 = true)
    (h10 : cfg.fixF10 = true) (h16 : cfg.fixF16 = true)
    (hov : dom.length ≤ cfg.overflowDepth) (hr : 2 ≤ cfg.rounds) (s : St) (hok : CacheOK c inst s)
    (k : Call) (hg : k.goal ∈ dom) : CacheOK c inst (runCall inst cfg k s).state := by
  cases anyCall_good hyp h3 h7 h10 h16 hov hr s hok k hg with
  | inl h => obtain ⟨v, s', h1, _, _, h4⟩ := h; rw [h1]; exact h4
  | inr h => obtain ⟨s', h1, _, h3'⟩ := h; rw [h1]; exact h3'

/-- any history of arbitrary calls keeps the cache correct -/
theorem anyHistory_cacheOK (hyp : Hyp c inst dom) (h3 : cfg.fixF3 = true) (h7 : cfg.fixF7 = true)
    (h10 : cfg.fixF10 = true) (h16 : cfg.fixF16 = true)
    (hov : dom.length ≤ cfg.overflowDepth) (hr : 2 ≤ cfg.rounds) :
    ∀ (ks : List Call), (∀ k, k ∈ ks → k.goal ∈ dom) → ∀ s, CacheOK c inst s →
      CacheOK c inst (runHistory inst cfg ks s)
  | [], _, _, h => h
  | k :: ks, hd, s, h => by
    simp only [runHistory]
    exact anyHistory_cacheOK hyp h3 h7 h10 h16 hov hr ks (fun x hx => hd x (List.mem_cons_of_mem _ hx)) _
      (anyCall_state hyp h3 h7 h10 h16 hov hr s h k (hd k (List.mem_cons_self ..)))

/-- every outcome of such a history: the budget panic, or the correct answer, or `ambig` (only if
    the call was interrupted) -/
theorem anyHistory_outcomes (hyp : Hyp c inst dom) (h3 : cfg.fixF3 = true) (h7 : cfg.fixF7 = true)
    (h10 : cfg.fixF10 = true) (h16 : cfg.fixF16 = true)
    (hov : dom.length ≤ cfg.overflowDepth) (hr : 2 ≤ cfg.rounds) :
    ∀ (ks : List Call), (∀ k, k ∈ ks → k.goal ∈ dom) → ∀ s, CacheOK c inst s →
      ∀ (i : Nat) (k : Call), ks[i]? = some k →
        (outcomes inst cfg ks s)[i]? = some (.panic .budget) ∧ k.budget ≠ none ∨
        ∃ v, (outcomes inst cfg ks s)[i]? = some (.value v) ∧
          (Corr c inst k.goal v ∨ (v = .ambig ∧ ¬ QuietCall k))
  | [], _, _, _, i, k, hi => by simp at hi
  | k0 :: ks, hd, s, h, i, k, hi => by
    have hk0 := hd k0 (List.mem_cons_self ..)
    simp only [outcomes]
    cases i with
    | zero =>
      simp only [List.getElem?_cons_zero, Option.some.injEq] at hi
      subst hi
      simp only [List.getElem?_cons_zero]
      cases anyCall_good hyp h3 h7 h10 h16 hov hr s h k0 hk0 with
      | inl h1 =>
        obtain ⟨v, s', e, hc, hq, _⟩ := h1
        rw [e]
        refine Or.inr ⟨v, rfl, ?_⟩
        cases hc with
        | inl hc => exact Or.inl hc
        | inr ha =>
          by_cases hqc : QuietCall k0
          · exact Or.inl (hq hqc)
          · exact Or.inr ⟨ha.1, hqc⟩
      | inr h1 => obtain ⟨s', e, hne, _⟩ := h1; rw [e]; exact Or.inl ⟨rfl, hne⟩
    | succ i =>
      simp only [List.getElem?_cons_succ] at hi ⊢
      exact anyHistory_outcomes hyp h3 h7 h10 h16 hov hr ks (fun x hx => hd x (List.mem_cons_of_mem _ hx)) _
        (anyCall_state hyp h3 h7 h10 h16 hov hr s h k0 hk0) i k hi

/-- after any such history a plain call is exact -/
theorem anyHistory_then_plain (hyp : Hyp c inst dom) (h3 : cfg.fixF3 = true) (h7 : cfg.fixF7 = true)
    (h10 : cfg.fixF10 = true) (h16 : cfg.fixF16 = true)
    (hov : dom.length ≤ cfg.overflowDepth) (hr : 2 ≤ cfg.rounds) (b : Bool)
    (ks : List Call) (hd : ∀ k, k ∈ ks → k.goal ∈ dom) (g : Nat) (hg : g ∈ dom) :
    ∃ v, solveOn inst cfg g (runHistory inst cfg ks (St.fresh b)) = .value v ∧ Corr c inst g v := by
  have hok := anyHistory_cacheOK hyp h3 h7 h10 h16 hov hr ks hd _ (cacheOK_fresh c inst b)
  cases anyCall_good hyp h3 h7 h10 h16 hov hr _ hok (Call.plain g) hg with
  | inl h =>
    obtain ⟨v, s', e, _, hq, _⟩ := h
    exact ⟨v, by unfold solveOn; rw [e]; rfl, hq ⟨rfl, rfl⟩⟩
  | inr h =>
    obtain ⟨_, _, hne, _⟩ := h
    exact absurd rfl hne

end

end Chalk.FixedPoint.Cyc
