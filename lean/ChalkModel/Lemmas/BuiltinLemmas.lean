/-
  Lemmas for C08: the clause model derives exactly the spec; `clausesFor` enumerates exactly the
  clause instances (under E0207); `decide` is sound.
-/
import ChalkModel.Builtin
import ChalkModel.Lemmas.GroundResLemmas
import ChalkModel.Lemmas.MatchLemmas

namespace Chalk.Builtin
open Chalk.Sem

theorem holds_iff (P : Program) (g : Goal) :
    Holds P g ↔ ∃ body, ClauseInst P g body ∧ ∀ b ∈ body, Holds P b := by
  constructor
  · intro h
    cases h with
    | step hc hall => exact ⟨_, hc, hall⟩
  · rintro ⟨body, hc, hall⟩
    exact .step hc hall

/-! ### clause model ⊆ spec -/

theorem spec_of_builtin (P : Program) (tr : Trait) (c : String) (args : Tms) (body : List Goal)
    (hb : body ∈ builtinClauses P tr (P.ctor c) args)
    (ih : ∀ b ∈ body, BuiltinHolds P b.tr b.ty) : BuiltinHolds P tr (.app c args) := by
  cases tr with
  | sized =>
      simp only [builtinClauses] at hb
      cases hk : P.ctor c with
      | adt id =>
          simp only [hk, sizedClauses, List.mem_singleton] at hb
          subst hb
          cases hd : P.adt id with
          | struct fields =>
              cases hl : fields.getLast? with
              | none =>
                  have : fields = [] := by simpa using hl
                  subst this
                  exact .sized_struct_empty hk hd
              | some last =>
                  refine .sized_struct hk hd hl ?_
                  have := ih ⟨.sized, substArgs args last⟩
                    (by simp [needsImplForTys, lastFieldOfStruct, hd, hl])
                  exact this
          | enum vs => exact .sized_enum hk hd
          | union fs => exact .sized_union hk hd
      | tuple =>
          simp only [hk, sizedClauses] at hb
          cases hl : (Tms.toList args).getLast? with
          | none =>
              have : args = .nil := by
                cases args with
                | nil => rfl
                | cons t ts => simp [Tms.toList] at hl
              subst this
              exact .sized_unit hk
          | some last =>
              simp only [hl, List.mem_singleton] at hb
              subst hb
              exact .sized_tuple hk hl (ih ⟨.sized, last⟩ (by simp [needsImplForTys]))
      | scalar => exact .sized_scalar hk
      | array => exact .sized_array hk
      | ref => exact .sized_ref hk
      | raw => exact .sized_raw hk
      | fnPtr => exact .sized_fnPtr hk
      | fnDef => exact .sized_fnDef hk
      | never => exact .sized_never hk
      | slice => simp [hk, sizedClauses] at hb
      | str => simp [hk, sizedClauses] at hb
      | dyn => simp [hk, sizedClauses] at hb
      | other => simp [hk, sizedClauses] at hb
  | copy =>
      simp only [builtinClauses] at hb
      cases hk : P.ctor c with
      | tuple =>
          refine .copy_tuple rfl hk ?_
          cases args with
          | nil => simp [Tms.toList]
          | cons t ts =>
              simp only [hk, copyClauses, List.mem_singleton] at hb
              subst hb
              intro u hu
              exact ih ⟨.copy, u⟩ (by simpa [needsImplForTys] using hu)
      | array =>
          cases args with
          | nil => simp [hk, copyClauses] at hb
          | cons elem rest =>
              simp only [hk, copyClauses, List.mem_singleton] at hb
              subst hb
              exact .copy_array rfl hk (ih ⟨.copy, elem⟩ (by simp [needsImplForTys]))
      | fnPtr => exact .copy_fnPtr rfl hk
      | fnDef => exact .copy_fnDef rfl hk
      | adt id => simp [hk, copyClauses] at hb
      | scalar => simp [hk, copyClauses] at hb
      | slice => simp [hk, copyClauses] at hb
      | ref => simp [hk, copyClauses] at hb
      | raw => simp [hk, copyClauses] at hb
      | str => simp [hk, copyClauses] at hb
      | never => simp [hk, copyClauses] at hb
      | dyn => simp [hk, copyClauses] at hb
      | other => simp [hk, copyClauses] at hb
  | clone =>
      simp only [builtinClauses] at hb
      cases hk : P.ctor c with
      | tuple =>
          refine .copy_tuple rfl hk ?_
          cases args with
          | nil => simp [Tms.toList]
          | cons t ts =>
              simp only [hk, copyClauses, List.mem_singleton] at hb
              subst hb
              intro u hu
              exact ih ⟨.clone, u⟩ (by simpa [needsImplForTys] using hu)
      | array =>
          cases args with
          | nil => simp [hk, copyClauses] at hb
          | cons elem rest =>
              simp only [hk, copyClauses, List.mem_singleton] at hb
              subst hb
              exact .copy_array rfl hk (ih ⟨.clone, elem⟩ (by simp [needsImplForTys]))
      | fnPtr => exact .copy_fnPtr rfl hk
      | fnDef => exact .copy_fnDef rfl hk
      | adt id => simp [hk, copyClauses] at hb
      | scalar => simp [hk, copyClauses] at hb
      | slice => simp [hk, copyClauses] at hb
      | ref => simp [hk, copyClauses] at hb
      | raw => simp [hk, copyClauses] at hb
      | str => simp [hk, copyClauses] at hb
      | never => simp [hk, copyClauses] at hb
      | dyn => simp [hk, copyClauses] at hb
      | other => simp [hk, copyClauses] at hb
  | tuple =>
      simp only [builtinClauses] at hb
      cases hk : P.ctor c <;> simp [hk] at hb
      exact .tuple_tuple hk
  | fnPtr =>
      simp only [builtinClauses] at hb
      cases hk : P.ctor c <;> simp [hk] at hb
      exact .fnPtr_fnPtr hk

theorem spec_of_holds (P : Program) {g : Goal} (h : Holds P g) : BuiltinHolds P g.tr g.ty := by
  induction h with
  | step hc _ ih =>
      cases hc with
      | builtin hb => exact spec_of_builtin P _ _ _ _ hb ih
      | impl him =>
          refine .explicit him rfl ?_
          intro wc hwc
          exact ih ⟨wc.1, wc.2.inst _⟩ (by simp only [implBody, List.mem_map]; exact ⟨wc, hwc, rfl⟩)

/-! ### spec ⊆ clause model -/

theorem holds_fact (P : Program) {tr : Trait} {c : String} {args : Tms}
    (h : [] ∈ builtinClauses P tr (P.ctor c) args) : Holds P ⟨tr, .app c args⟩ :=
  .step (.builtin h) (by simp)

theorem holds_of_spec (P : Program) {tr : Trait} {ty : Tm} (h : BuiltinHolds P tr ty) : Holds P ⟨tr, ty⟩ := by
  induction h with
  | sized_scalar hk => exact holds_fact P (by simp [builtinClauses, sizedClauses, hk])
  | sized_ref hk => exact holds_fact P (by simp [builtinClauses, sizedClauses, hk])
  | sized_raw hk => exact holds_fact P (by simp [builtinClauses, sizedClauses, hk])
  | sized_array hk => exact holds_fact P (by simp [builtinClauses, sizedClauses, hk])
  | sized_fnPtr hk => exact holds_fact P (by simp [builtinClauses, sizedClauses, hk])
  | sized_fnDef hk => exact holds_fact P (by simp [builtinClauses, sizedClauses, hk])
  | sized_never hk => exact holds_fact P (by simp [builtinClauses, sizedClauses, hk])
  | sized_unit hk => exact holds_fact P (by simp [builtinClauses, sizedClauses, hk, Tms.toList])
  | @sized_tuple c args last hk hl _ ih =>
      refine .step (.builtin (body := [⟨.sized, last⟩]) (by simp [builtinClauses, sizedClauses, hk, hl, needsImplForTys])) ?_
      intro b hb
      simp only [List.mem_singleton] at hb
      subst hb; exact ih
  | sized_struct_empty hk hd =>
      exact holds_fact P (by simp [builtinClauses, sizedClauses, hk, hd, lastFieldOfStruct, needsImplForTys])
  | @sized_struct c args id fields last hk hd hl _ ih =>
      refine .step (.builtin (body := [⟨.sized, substArgs args last⟩])
        (by simp [builtinClauses, sizedClauses, hk, hd, hl, lastFieldOfStruct, needsImplForTys])) ?_
      intro b hb
      simp only [List.mem_singleton] at hb
      subst hb; exact ih
  | sized_enum hk hd =>
      exact holds_fact P (by simp [builtinClauses, sizedClauses, hk, hd, lastFieldOfStruct, needsImplForTys])
  | sized_union hk hd =>
      exact holds_fact P (by simp [builtinClauses, sizedClauses, hk, hd, lastFieldOfStruct, needsImplForTys])
  | @copy_tuple tr c args hc hk _ ih =>
      cases args with
      | nil => cases tr <;> simp [Trait.copyLike] at hc <;> exact holds_fact P (by simp [builtinClauses, copyClauses, hk])
      | cons t ts =>
          refine .step (.builtin (body := needsImplForTys tr (Tms.toList (.cons t ts))) ?_) ?_
          · cases tr <;> simp [Trait.copyLike] at hc <;> simp [builtinClauses, copyClauses, hk]
          · intro b hb
            simp only [needsImplForTys, List.mem_map] at hb
            obtain ⟨u, hu, rfl⟩ := hb
            exact ih u hu
  | @copy_array tr c elem rest hc hk _ ih =>
      refine .step (.builtin (body := [⟨tr, elem⟩]) ?_) ?_
      · cases tr <;> simp [Trait.copyLike] at hc <;> simp [builtinClauses, copyClauses, hk, needsImplForTys]
      · intro b hb
        simp only [List.mem_singleton] at hb
        subst hb; exact ih
  | @copy_fnPtr tr c args hc hk =>
      cases tr <;> simp [Trait.copyLike] at hc <;> exact holds_fact P (by simp [builtinClauses, copyClauses, hk])
  | @copy_fnDef tr c args hc hk =>
      cases tr <;> simp [Trait.copyLike] at hc <;> exact holds_fact P (by simp [builtinClauses, copyClauses, hk])
  | tuple_tuple hk => exact holds_fact P (by simp [builtinClauses, hk])
  | fnPtr_fnPtr hk => exact holds_fact P (by simp [builtinClauses, hk])
  | @explicit im σ ty him hty _ ih =>
      subst hty
      refine .step (.impl (σ := σ) him) ?_
      intro b hb
      simp only [implBody, List.mem_map] at hb
      obtain ⟨wc, hwc, rfl⟩ := hb
      exact ih wc hwc

theorem holds_iff_spec (P : Program) (tr : Trait) (ty : Tm) : Holds P ⟨tr, ty⟩ ↔ BuiltinHolds P tr ty :=
  ⟨fun h => spec_of_holds P h, fun h => holds_of_spec P h⟩

/-- inversion of the spec through the clause model: a type has the trait by a structural rule
    (listed by `builtinClauses` for its constructor) or by an explicit impl -/
theorem spec_inv (P : Program) {tr : Trait} {ty : Tm} (h : BuiltinHolds P tr ty) :
    (∃ c args body, ty = .app c args ∧ body ∈ builtinClauses P tr (P.ctor c) args ∧
        ∀ b ∈ body, BuiltinHolds P b.tr b.ty) ∨
    (∃ im ∈ P.impls, ∃ σ : Nat → Tm, im.trait = tr ∧ im.self.inst σ = ty ∧
        ∀ wc ∈ im.wcs, BuiltinHolds P wc.1 (wc.2.inst σ)) := by
  have hh := (holds_iff_spec P tr ty).2 h
  obtain ⟨body, hc, hall⟩ := (holds_iff P _).1 hh
  generalize hg : Goal.mk tr ty = g at hc
  cases hc with
  | @builtin tr' c args body hb =>
      cases hg
      exact Or.inl ⟨c, args, body, rfl, hb, fun b hbb => (holds_iff_spec P b.tr b.ty).1 (hall b hbb)⟩
  | @impl im σ him =>
      cases hg
      refine Or.inr ⟨im, him, σ, rfl, rfl, ?_⟩
      intro wc hwc
      exact (holds_iff_spec P wc.1 (wc.2.inst σ)).1
        (hall ⟨wc.1, wc.2.inst σ⟩ (by simp only [implBody, List.mem_map]; exact ⟨wc, hwc, rfl⟩))

/-! ### `clausesFor` enumerates the clause instances -/

mutual
  theorem varsIn_of_vars (σ : Asg) : (t : Tm) → (∀ i ∈ Tm.vars t, (σ.get i).isSome = true) → t.varsIn σ = true
    | .var i, h => by simpa [Sem.Tm.varsIn] using h i (by simp [Tm.vars])
    | .app c args, h => by
        simp only [Sem.Tm.varsIn]
        exact varsIn_of_vars_tms σ args (by simpa [Tm.vars] using h)
  theorem varsIn_of_vars_tms (σ : Asg) : (ts : Tms) → (∀ i ∈ Tms.vars ts, (σ.get i).isSome = true) → ts.varsIn σ = true
    | .nil, _ => by simp [Sem.Tms.varsIn]
    | .cons t ts, h => by
        simp only [Sem.Tms.varsIn, Bool.and_eq_true]
        exact ⟨varsIn_of_vars σ t (fun i hi => h i (by simp [Tms.vars, hi])),
               varsIn_of_vars_tms σ ts (fun i hi => h i (by simp [Tms.vars, hi]))⟩
end

mutual
  theorem vars_of_varsIn (σ : Asg) : (t : Tm) → t.varsIn σ = true → ∀ i ∈ Tm.vars t, (σ.get i).isSome = true
    | .var i, h => by simpa [Sem.Tm.varsIn, Tm.vars] using h
    | .app c args, h => by
        simp only [Sem.Tm.varsIn] at h
        simpa [Tm.vars] using vars_of_varsIn_tms σ args h
  theorem vars_of_varsIn_tms (σ : Asg) : (ts : Tms) → ts.varsIn σ = true → ∀ i ∈ Tms.vars ts, (σ.get i).isSome = true
    | .nil, _ => by simp [Tms.vars]
    | .cons t ts, h => by
        simp only [Sem.Tms.varsIn, Bool.and_eq_true] at h
        intro i hi
        simp only [Tms.vars, List.mem_append] at hi
        rcases hi with hi | hi
        · exact vars_of_varsIn σ t h.1 i hi
        · exact vars_of_varsIn_tms σ ts h.2 i hi
end

theorem clausesFor_sound (P : Program) (g : Goal) (body : List Goal) (h : body ∈ clausesFor P g) :
    ClauseInst P g body := by
  obtain ⟨tr, ty⟩ := g
  simp only [clausesFor, List.mem_append] at h
  rcases h with h | h
  · cases ty with
    | var i => simp at h
    | app c args => exact .builtin h
  · simp only [implClauses, List.mem_filterMap] at h
    obtain ⟨im, him, hf⟩ := h
    split at hf
    · rename_i htr
      cases hm : matchTm im.self ty [] with
      | none => simp [hm] at hf
      | some σ =>
          simp only [hm, Option.some.injEq] at hf
          subst hf
          obtain ⟨_, _, hi⟩ := matchTm_sound im.self ty [] σ hm
          subst htr
          rw [← hi]
          exact .impl him
    · cases hf

theorem clausesFor_complete (P : Program) (hp : P.implParamsInHeader = true) (g : Goal) (body : List Goal)
    (h : ClauseInst P g body) : body ∈ clausesFor P g := by
  cases h with
  | builtin hb => simp only [clausesFor, List.mem_append]; exact Or.inl hb
  | @impl im τ him =>
      simp only [clausesFor, List.mem_append]
      right
      simp only [implClauses, List.mem_filterMap]
      refine ⟨im, him, ?_⟩
      obtain ⟨σ, hm, hag⟩ := matchTm_complete τ im.self (im.self.inst τ) [] (fun _ _ h => by simp [Asg.get] at h) rfl
      simp only [if_true, hm, Option.some.injEq]
      obtain ⟨_, hv, _⟩ := matchTm_sound im.self _ [] σ hm
      have hvars := vars_of_varsIn σ im.self hv
      simp only [Program.implParamsInHeader, List.all_eq_true] at hp
      have him' := hp im him
      simp only [Impl.paramsInHeader, List.all_eq_true, List.contains_iff_mem] at him'
      simp only [implBody]
      apply List.map_congr_left
      intro wc hwc
      have hwv : wc.2.varsIn σ = true :=
        varsIn_of_vars σ wc.2 (fun i hi => hvars i (by simpa using him' wc hwc i hi))
      rw [Tm.inst_congr σ.toFun τ σ (agrees_toFun σ) hag wc.2 hwv]

theorem derivable_iff_holds (P : Program) (hp : P.implParamsInHeader = true) (g : Goal) :
    GroundRes.Derivable (clausesFor P) g ↔ Holds P g := by
  constructor
  · intro h
    induction h with
    | step hb _ ih => exact .step (clausesFor_sound P _ _ hb) ih
  · intro h
    induction h with
    | step hc _ ih => exact .step (clausesFor_complete P hp _ _ hc) ih

theorem holds_of_derivable (P : Program) (g : Goal) (h : GroundRes.Derivable (clausesFor P) g) : Holds P g := by
  induction h with
  | step hb _ ih => exact .step (clausesFor_sound P _ _ hb) ih

end Chalk.Builtin
