/-
  C22: basic facts about tokens, states, lifetimes, constants and binder lists.
-/
import ChalkModel.Lemmas.DisplayDefs

set_option linter.unusedSimpArgs false
set_option linter.unusedVariables false

namespace Chalk.Display.Parse
open Chalk.Display

/-! ### head tokens -/

theorem scalar_name_mem (sc : Scalar) : sc.name ∈ tyKws := by
  cases sc <;> decide

theorem scalarOfName_name (sc : Scalar) : scalarOfName sc.name = some sc := by
  cases sc <;> decide

theorem varTok_cases (s : St) (v : Nat × Nat) : s.varTok v = .self ∨ ∃ a b, s.varTok v = .var a b := by
  unfold St.varTok
  simp only
  split
  · exact Or.inl rfl
  · exact Or.inr ⟨_, _, rfl⟩

theorem varTok_ne_kw (s : St) (v : Nat × Nat) (w : String) : s.varTok v ≠ .kw w := by
  rcases varTok_cases s v with h | ⟨a, b, h⟩ <;> simp [h]

theorem varTok_ne_name (s : St) (v : Nat × Nat) (w : String) : s.varTok v ≠ .name w := by
  rcases varTok_cases s v with h | ⟨a, b, h⟩ <;> simp [h]

theorem varTok_ne_num (s : St) (v : Nat × Nat) (n : Nat) : s.varTok v ≠ .num n := by
  rcases varTok_cases s v with h | ⟨a, b, h⟩ <;> simp [h]

theorem varTok_ne_ltVar (s : St) (v : Nat × Nat) (a b : Nat) : s.varTok v ≠ .ltVar a b := by
  rcases varTok_cases s v with h | ⟨a, b, h⟩ <;> simp [h]

theorem isLtStart_varTok (s : St) (v : Nat × Nat) (rest : List Tok) : isLtStart (s.varTok v :: rest) = false := by
  rcases varTok_cases s v with h | ⟨a, b, h⟩ <;> simp [h, isLtStart]

/-- a printed type is a single variable token or starts with a `tyHead` token -/
theorem printTy_head (s : St) (t : Ty) :
    (∃ d i, t = .bound d i) ∨ ∃ tok tl, printTy s t = tok :: tl ∧ tyHead tok = true := by
  cases t with
  | bound d i => exact Or.inl ⟨d, i, rfl⟩
  | adt id args => exact Or.inr ⟨.name id, _, by simp only [printTy, List.cons_append]; rfl, rfl⟩
  | scalar sc => exact Or.inr ⟨.kw sc.name, _, by simp only [printTy, List.cons_append]; rfl, by simp [tyHead, scalar_name_mem]⟩
  | tuple ts => exact Or.inr ⟨.kw "(", _, by simp only [printTy, List.cons_append]; rfl, by decide⟩
  | ref m l t => exact Or.inr ⟨.kw "&", _, by simp only [printTy, List.cons_append]; rfl, by decide⟩
  | raw m t => exact Or.inr ⟨.kw "*", _, by simp only [printTy, List.cons_append]; rfl, by decide⟩
  | slice t => exact Or.inr ⟨.kw "[", _, by simp only [printTy, List.cons_append]; rfl, by decide⟩
  | array t c => exact Or.inr ⟨.kw "[", _, by simp only [printTy, List.cons_append]; rfl, by decide⟩
  | fnPtr nb args ret =>
      by_cases h : nb = 0
      · exact Or.inr ⟨.kw "fn", _, by simp only [printTy, h, if_true, List.nil_append]; rfl, by decide⟩
      · exact Or.inr ⟨.kw "for", _, by simp only [printTy, h, if_false, List.cons_append]; rfl, by decide⟩
  | proj tr assoc self targs aargs => exact Or.inr ⟨.kw "<", _, by simp only [printTy, List.cons_append]; rfl, by decide⟩
  | dyn bs l => exact Or.inr ⟨.kw "dyn", _, by simp only [printTy, List.cons_append]; rfl, by decide⟩
  | never => exact Or.inr ⟨.kw "!", _, by simp only [printTy]; rfl, by decide⟩
  | str => exact Or.inr ⟨.kw "str", _, by simp only [printTy]; rfl, by decide⟩

/-- a printed type never starts with a keyword outside `tyKws` -/
theorem printTy_not_kw (s : St) (t : Ty) (rest : List Tok) (w : String) (hw : w ∉ tyKws) :
    ∀ r, printTy s t ++ rest ≠ .kw w :: r := by
  intro r h
  rcases printTy_head s t with ⟨d, i, rfl⟩ | ⟨tok, tl, e, hh⟩
  · simp [printTy] at h
    exact varTok_ne_kw _ _ _ h.1
  · rw [e] at h
    simp at h
    obtain ⟨rfl, -⟩ := h
    simp [tyHead] at hh
    exact hw hh

theorem printTy_not_ltStart (s : St) (t : Ty) (rest : List Tok) : isLtStart (printTy s t ++ rest) = false := by
  rcases printTy_head s t with ⟨d, i, rfl⟩ | ⟨tok, tl, e, hh⟩
  · simp [printTy, isLtStart_varTok]
  · rw [e]
    cases tok with
    | kw w =>
        simp [tyHead] at hh
        have h1 : w ≠ "'static" := by intro e; subst e; revert hh; decide
        have h2 : w ≠ "'erased" := by intro e; subst e; revert hh; decide
        simp [isLtStart, h1, h2]
    | name n => simp [isLtStart]
    | _ => simp [tyHead] at hh


/-! ### environments -/

theorem kindAt_zero (ks : List VK) (env : List (List VK)) (i : Nat) : kindAt (ks :: env) 0 i = ks[i]? := by
  simp [kindAt]

theorem kindAt_succ (ks : List VK) (env : List (List VK)) (d i : Nat) : kindAt (ks :: env) (d + 1) i = kindAt env d i := by
  simp [kindAt]

theorem hasKind_iff (env : List (List VK)) (d i : Nat) (k : VK) : hasKind env d i k = true ↔ kindAt env d i = some k := by
  simp [hasKind]

/-! ### writer state: fresh binder indices -/

theorem lookupPair_none (v : Nat × Nat) : ∀ (m : List ((Nat × Nat) × (Nat × Nat))),
    (∀ k w, (k, w) ∈ m → k ≠ v) → lookupPair v m = none
  | [], _ => rfl
  | (k, w) :: m, h => by
      have h1 : k ≠ v := h k w (by simp)
      simp only [lookupPair, h1, if_false]
      exact lookupPair_none v m (fun k' w' hm => h k' w' (by simp [hm]))

theorem invLookup_none (r : Nat × Nat) : ∀ (m : List ((Nat × Nat) × (Nat × Nat))),
    (∀ k w, (k, w) ∈ m → w ≠ r) → invLookup r m = none
  | [], _ => rfl
  | (k, w) :: m, h => by
      have h1 : w ≠ r := h k w (by simp)
      simp only [invLookup, h1, if_false]
      exact invLookup_none r m (fun k' w' hm => h k' w' (by simp [hm]))

/-- the binders at the current depth with index `≥ i` are printed under their own names -/
def FreshFrom (s : St) (i : Nat) : Prop :=
  ∀ j, i ≤ j → lookupPair (s.deep, j) s.remap = none ∧ s.self? ≠ some (s.deep, j)

theorem varTok_fresh {s : St} {i j : Nat} (h : FreshFrom s i) (hj : i ≤ j) : s.varTok (s.deep, j) = .var s.deep j := by
  obtain ⟨h1, h2⟩ := h j hj
  simp [St.varTok, h1, h2]

theorem ltTok_fresh {s : St} {i j : Nat} (h : FreshFrom s i) (hj : i ≤ j) : s.ltTok (s.deep, j) = .ltVar s.deep j := by
  obtain ⟨h1, h2⟩ := h j hj
  simp [St.ltTok, h1, h2]

theorem FreshFrom.mono {s : St} {i j : Nat} (h : FreshFrom s i) (hj : i ≤ j) : FreshFrom s j :=
  fun k hk => h k (Nat.le_trans hj hk)

theorem Faithful.fresh_deeper {p : PSt} (hp : Faithful p) : FreshFrom (p.st.deeper none) 0 := by
  intro j _
  constructor
  · apply lookupPair_none
    intro k w hm e
    have := (hp.keys k w hm).1
    subst e
    simp [St.deeper] at this
    omega
  · intro e
    have := hp.self _ e
    simp [St.deeper] at this
    omega

/-! ### decoding under one more binder -/

theorem decode_deeper {p : PSt} {r : Nat × Nat} {d i : Nat} (ks : List VK) (sel : Option Nat)
    (h : p.decode r = some (d, i)) : (p.deeper ks sel).decode r = some (d + 1, i) := by
  simp only [PSt.decode, PSt.deeper, St.deeper] at *
  split at h
  · rename_i hle
    simp at h
    have : ((invLookup r p.st.remap).getD r).1 ≤ p.st.deep + 1 := by omega
    simp [this]
    omega
  · simp at h

theorem decode_top {p : PSt} (hp : Faithful p) (ks : List VK) (sel : Option Nat) (i : Nat) :
    (p.deeper ks sel).decode (p.st.deep + 1, i) = some (0, i) := by
  have : invLookup (p.st.deep + 1, i) p.st.remap = none := by
    apply invLookup_none
    intro k w hm e
    have := (hp.keys k w hm).2
    subst e
    simp at this
    omega
  simp [PSt.decode, PSt.deeper, St.deeper, this]

theorem varOf_deeper {p : PSt} {tok : Tok} {d i : Nat} (ks : List VK)
    (h : p.varOf tok = some (d, i)) : (p.deeper ks none).varOf tok = some (d + 1, i) := by
  cases tok with
  | var a b => exact decode_deeper ks none h
  | self =>
      simp only [PSt.varOf] at h ⊢
      have e : (p.deeper ks none).st.self? = p.st.self? := rfl
      rw [e]
      cases hs : p.st.self? with
      | none => simp [hs] at h
      | some r => simp only [hs] at h ⊢; exact decode_deeper ks none h
  | _ => simp [PSt.varOf] at h

theorem Faithful.deeper {p : PSt} (hp : Faithful p) (ks : List VK) : Faithful (p.deeper ks none) where
  deep := by simp [PSt.deeper, St.deeper, hp.deep]
  keys := fun k w hm => by
    have := hp.keys k w hm
    simp only [PSt.deeper, St.deeper]; omega
  self := fun r hr => by
    have := hp.self r hr
    simp only [PSt.deeper, St.deeper]; omega
  var := fun d i k hk hne => by
    cases d with
    | zero =>
        have e : (p.deeper ks none).st.inv 0 i = ((p.deeper ks none).st.deep, i) := by simp [St.inv]
        rw [e]
        show (p.deeper ks none).varOf ((p.st.deeper none).varTok ((p.st.deeper none).deep, i)) = some (0, i)
        rw [varTok_fresh hp.fresh_deeper (Nat.zero_le i)]
        exact decode_top hp ks none i
    | succ d =>
        rw [show (p.deeper ks none).env = ks :: p.env from rfl, kindAt_succ] at hk
        have e : (p.deeper ks none).st.inv (d + 1) i = p.st.inv d i := by
          simp [St.inv, PSt.deeper, St.deeper]
        have e2 : (p.deeper ks none).st.varTok (p.st.inv d i) = p.st.varTok (p.st.inv d i) := rfl
        rw [e, e2]
        exact varOf_deeper ks (hp.var d i k hk hne)
  lt := fun d i hk => by
    cases d with
    | zero =>
        have e : (p.deeper ks none).st.inv 0 i = ((p.deeper ks none).st.deep, i) := by simp [St.inv]
        rw [e]
        show ∃ a b, (p.st.deeper none).ltTok ((p.st.deeper none).deep, i) = Tok.ltVar a b ∧
          (p.deeper ks none).decode (a, b) = some (0, i)
        rw [ltTok_fresh hp.fresh_deeper (Nat.zero_le i)]
        exact ⟨_, _, rfl, decode_top hp ks none i⟩
    | succ d =>
        rw [show (p.deeper ks none).env = ks :: p.env from rfl, kindAt_succ] at hk
        have e : (p.deeper ks none).st.inv (d + 1) i = p.st.inv d i := by
          simp [St.inv, PSt.deeper, St.deeper]
        have e2 : (p.deeper ks none).st.ltTok (p.st.inv d i) = p.st.ltTok (p.st.inv d i) := rfl
        rw [e, e2]
        obtain ⟨a, b, h1, h2⟩ := hp.lt d i hk
        exact ⟨a, b, h1, decode_deeper ks none h2⟩

theorem Faithful.init : Faithful PSt.init where
  deep := rfl
  keys := fun k w hm => by simp [PSt.init, St.init] at hm
  self := fun r hr => by simp [PSt.init, St.init] at hr
  var := fun d i k hk => by simp [PSt.init, kindAt] at hk
  lt := fun d i hk => by simp [PSt.init, kindAt] at hk

/-! ### lifetimes and constants -/

theorem parseLt_print {p : PSt} (hp : Faithful p) {l : Lt} (hl : wfLt p.env l = true) (rest : List Tok) :
    parseLt p (printLt p.st l ++ rest) = some (l, rest) := by
  cases l with
  | static => simp [printLt, parseLt]
  | erased => simp [printLt, parseLt]
  | bound d i =>
      simp only [wfLt, hasKind_iff] at hl
      obtain ⟨a, b, h1, h2⟩ := hp.lt d i hl
      simp [printLt, h1, parseLt, h2]

theorem isLtStart_printLt {p : PSt} (hp : Faithful p) {l : Lt} (hl : wfLt p.env l = true) (rest : List Tok) :
    isLtStart (printLt p.st l ++ rest) = true := by
  cases l with
  | static => simp [printLt, isLtStart]
  | erased => simp [printLt, isLtStart]
  | bound d i =>
      simp only [wfLt, hasKind_iff] at hl
      obtain ⟨a, b, h1, h2⟩ := hp.lt d i hl
      simp [printLt, h1, isLtStart]

theorem parseCt_print {p : PSt} (hp : Faithful p) {c : Ct} (hc : wfCt p.env c = true) (rest : List Tok) :
    parseCt p (printCt p.st c ++ rest) = some (c, rest) := by
  cases c with
  | val n => simp [printCt, parseCt]
  | bound d i =>
      simp only [wfCt, hasKind_iff] at hc
      have h := hp.var d i .ct hc (by decide)
      rcases varTok_cases p.st (p.st.inv d i) with e | ⟨a, b, e⟩
      · rw [e] at h; simp [printCt, e, parseCt, h]
      · rw [e] at h; simp [printCt, e, parseCt, h]

/-! ### binder lists -/

theorem sepBy_cons_cons (sep x y : List Tok) (zs : List (List Tok)) :
    sepBy sep (x :: y :: zs) = x ++ sep ++ sepBy sep (y :: zs) := by
  simp [sepBy]

def binderTok (s : St) (i : Nat) : VK → List Tok
  | .ty => [s.varTok (s.deep, i)]
  | .lt => [s.ltTok (s.deep, i)]
  | .ct => [.kw "const", s.varTok (s.deep, i)]

theorem binderNamesFrom_cons (s : St) (i : Nat) (k : VK) (ks : List VK) :
    s.binderNamesFrom i (k :: ks) = binderTok s i k :: s.binderNamesFrom (i + 1) ks := by
  cases k <;> simp [St.binderNamesFrom, binderTok]

theorem parseBinders_print (s : St) : ∀ (ks : List VK) (i fuel : Nat) (rest : List Tok),
    ks ≠ [] → FreshFrom s i → ks.length ≤ fuel → (∀ r, rest ≠ .kw "," :: r) →
    parseBinders fuel (sepBy comma (s.binderNamesFrom i ks) ++ rest) = some (ks, rest)
  | [], _, _, _, h, _, _, _ => absurd rfl h
  | [k], i, fuel, rest, _, hf, hfuel, hr => by
      obtain ⟨f, rfl⟩ : ∃ f, fuel = f + 1 := ⟨fuel - 1, by simp at hfuel; omega⟩
      cases k <;>
        simp [St.binderNamesFrom, sepBy, parseBinders, varTok_fresh hf (Nat.le_refl i), ltTok_fresh hf (Nat.le_refl i), hr]
  | k :: k' :: ks, i, fuel, rest, _, hf, hfuel, hr => by
      obtain ⟨f, rfl⟩ : ∃ f, fuel = f + 1 := ⟨fuel - 1, by simp at hfuel; omega⟩
      have ih := parseBinders_print s (k' :: ks) (i + 1) f rest (by simp) (hf.mono (Nat.le_succ i))
        (by simp at hfuel ⊢; omega) hr
      rw [binderNamesFrom_cons, binderNamesFrom_cons, sepBy_cons_cons, ← binderNamesFrom_cons]
      simp only [comma] at ih
      cases k <;>
        simp [parseBinders, comma, binderTok, varTok_fresh hf (Nat.le_refl i), ltTok_fresh hf (Nat.le_refl i), ih]

theorem fnBinderNames_eq (s : St) : ∀ (n i : Nat), fnBinderNames s i n = s.binderNamesFrom i (List.replicate n .lt)
  | 0, _ => rfl
  | n + 1, i => by simp [fnBinderNames, List.replicate_succ, St.binderNamesFrom, fnBinderNames_eq s n (i + 1)]

/-- `forall<..>` in front of a clause or bound, printed in the state under the new binders -/
theorem parseForall_print {p : PSt} (hp : Faithful p) (ks : List VK) (fuel : Nat) (rest : List Tok)
    (hfuel : ks.length ≤ fuel) (hr : ∀ r, rest ≠ .kw "forall" :: r) :
    parseForall fuel (forallToks (p.st.deeper none) ks ++ rest) = some (ks, rest) := by
  cases ks with
  | nil =>
      simp only [forallToks, List.isEmpty_nil, if_true, List.nil_append]
      unfold parseForall
      split
      · exact absurd rfl (hr _)
      · rfl
  | cons k ks =>
      have h := parseBinders_print (p.st.deeper none) (k :: ks) 0 fuel (.kw ">" :: rest) (by simp)
        hp.fresh_deeper hfuel (by simp)
      simp only [forallToks, St.binderNames, List.isEmpty_cons, Bool.false_eq_true, if_false,
        List.cons_append, List.append_assoc, List.nil_append] at h ⊢
      simp [parseForall, h]

end Chalk.Display.Parse
