import ChalkModel.SFold

/-!
  Generic lemmas about stateful folds:
  * `sfold*_sim`  — forward simulation between two stateful folders run on the same term;
  * `SFolder.comp` / `sfold*_comp` — a stateless fold followed by a stateful fold is one stateful
    fold with composed leaf handlers (fusion).
-/
namespace Chalk

theorem bindS_eq_ok {α β σ : Type} {x : Res (α × σ)} {k : α → σ → Res (β × σ)} {r : β × σ} :
    bindS x k = .ok r ↔ ∃ a s, x = .ok (a, s) ∧ k a s = .ok r := by
  unfold bindS
  cases x with
  | error e => simp
  | ok p =>
    obtain ⟨a, s⟩ := p
    simp only [Except.ok.injEq, Prod.mk.injEq]
    constructor
    · intro h; exact ⟨a, s, ⟨rfl, rfl⟩, h⟩
    · rintro ⟨a', s', ⟨rfl, rfl⟩, h⟩; exact h

@[simp] theorem bindS_ok {α β σ : Type} (a : α) (s : σ) (k : α → σ → Res (β × σ)) :
    bindS (.ok (a, s)) k = k a s := rfl

@[simp] theorem bindS_error {α β σ : Type} (e : Err) (k : α → σ → Res (β × σ)) :
    bindS (.error e : Res (α × σ)) k = .error e := rfl

/-! ### forward simulation -/

section Sim
variable {σ1 σ2 : Type}

/-- whenever the first run succeeds, the second succeeds with a related state and — if `E` — the
    same value -/
def SimRes (E : Prop) (R : σ1 → σ2 → Prop) {α : Type} (r1 : Res (α × σ1)) (r2 : Res (α × σ2)) : Prop :=
  ∀ a s1, r1 = .ok (a, s1) → ∃ b s2, r2 = .ok (b, s2) ∧ (E → b = a) ∧ R s1 s2

theorem SimRes.pure {E : Prop} {R : σ1 → σ2 → Prop} {α : Type} {a b : α} {s1 : σ1} {s2 : σ2}
    (hab : E → b = a) (h : R s1 s2) : SimRes E R (.ok (a, s1)) (.ok (b, s2)) := by
  intro a' s1' h1
  cases h1
  exact ⟨b, s2, rfl, hab, h⟩

theorem SimRes.bind {E : Prop} {R : σ1 → σ2 → Prop} {α β : Type}
    {x1 : Res (α × σ1)} {x2 : Res (α × σ2)} {k1 : α → σ1 → Res (β × σ1)} {k2 : α → σ2 → Res (β × σ2)}
    (hx : SimRes E R x1 x2)
    (hk : ∀ a b s1 s2, (E → b = a) → R s1 s2 → SimRes E R (k1 a s1) (k2 b s2)) :
    SimRes E R (bindS x1 k1) (bindS x2 k2) := by
  intro r s1' h1
  obtain ⟨a, s1, hx1, hk1⟩ := bindS_eq_ok.mp h1
  obtain ⟨b, s2, hx2, hab, hr⟩ := hx a s1 hx1
  obtain ⟨c, s2', hk2, hc, hr'⟩ := hk a b s1 s2 hab hr r s1' hk1
  exact ⟨c, s2', by rw [hx2]; exact hk2, hc, hr'⟩

/-- the leaf handlers of `f2` simulate those of `f1` -/
structure SimHandlers (E : Prop) (R : σ1 → σ2 → Prop) (f1 : SFolder σ1) (f2 : SFolder σ2) : Prop where
  freeVarTy : ∀ db idx o s1 s2, R s1 s2 → SimRes E R (f1.freeVarTy db idx o s1) (f2.freeVarTy db idx o s2)
  freeVarLt : ∀ db idx o s1 s2, R s1 s2 → SimRes E R (f1.freeVarLt db idx o s1) (f2.freeVarLt db idx o s2)
  freeVarConst : ∀ ty1 ty2 db idx o s1 s2, (E ∨ f1.foldsFreeVarConstTy = false → ty2 = ty1) → R s1 s2 →
    SimRes E R (f1.freeVarConst ty1 db idx o s1) (f2.freeVarConst ty2 db idx o s2)
  inferTy : ∀ v k o s1 s2, R s1 s2 → SimRes E R (f1.inferTy v k o s1) (f2.inferTy v k o s2)
  inferLt : ∀ v o s1 s2, R s1 s2 → SimRes E R (f1.inferLt v o s1) (f2.inferLt v o s2)
  inferConst : ∀ ty1 ty2 v o s1 s2, (E ∨ f1.foldsInferConstTy = false → ty2 = ty1) → R s1 s2 →
    SimRes E R (f1.inferConst ty1 v o s1) (f2.inferConst ty2 v o s2)
  phTy : ∀ ui idx o s1 s2, R s1 s2 → SimRes E R (f1.phTy ui idx o s1) (f2.phTy ui idx o s2)
  phLt : ∀ ui idx o s1 s2, R s1 s2 → SimRes E R (f1.phLt ui idx o s1) (f2.phLt ui idx o s2)
  phConst : ∀ ty1 ty2 ui idx o s1 s2, (E ∨ f1.foldsPhConstTy = false → ty2 = ty1) → R s1 s2 →
    SimRes E R (f1.phConst ty1 ui idx o s1) (f2.phConst ty2 ui idx o s2)
  flagFreeVar : f1.foldsFreeVarConstTy = f2.foldsFreeVarConstTy
  flagInfer : f1.foldsInferConstTy = f2.foldsInferConstTy
  flagPh : f1.foldsPhConstTy = f2.foldsPhConstTy

variable {E : Prop} {R : σ1 → σ2 → Prop} {f1 : SFolder σ1} {f2 : SFolder σ2}

theorem sfoldLifetime_sim (H : SimHandlers E R f1 f2) (o : Nat) (l : Lifetime) (s1 : σ1) (s2 : σ2)
    (hr : R s1 s2) : SimRes E R (sfoldLifetime f1 o l s1) (sfoldLifetime f2 o l s2) := by
  cases l with
  | bound db idx =>
    simp only [sfoldLifetime]
    split
    · exact H.freeVarLt _ _ _ _ _ hr
    · exact SimRes.pure (fun _ => rfl) hr
  | infer v => exact H.inferLt _ _ _ _ hr
  | placeholder ui idx => exact H.phLt _ _ _ _ _ hr
  | static => exact SimRes.pure (fun _ => rfl) hr
  | erased => exact SimRes.pure (fun _ => rfl) hr
  | error => exact SimRes.pure (fun _ => rfl) hr

mutual
  theorem sfoldTy_sim (H : SimHandlers E R f1 f2) (o : Nat) : (t : Ty) → (s1 : σ1) → (s2 : σ2) → R s1 s2 →
      SimRes E R (sfoldTy f1 o t s1) (sfoldTy f2 o t s2)
    | .app n args, s1, s2, hr => by
        simp only [sfoldTy]
        exact SimRes.bind (sfoldArgs_sim H o args s1 s2 hr) fun a b _ _ hab h =>
          SimRes.pure (fun e => by rw [hab e]) h
    | .scalar _, _, _, hr => SimRes.pure (fun _ => rfl) hr
    | .str, _, _, hr => SimRes.pure (fun _ => rfl) hr
    | .never, _, _, hr => SimRes.pure (fun _ => rfl) hr
    | .foreign _, _, _, hr => SimRes.pure (fun _ => rfl) hr
    | .error, _, _, hr => SimRes.pure (fun _ => rfl) hr
    | .array t c, s1, s2, hr => by
        simp only [sfoldTy]
        exact SimRes.bind (sfoldTy_sim H o t s1 s2 hr) fun a b s1' s2' hab h =>
          SimRes.bind (sfoldConst_sim H o c s1' s2' h) fun a' b' _ _ hab' h' =>
            SimRes.pure (fun e => by rw [hab e, hab' e]) h'
    | .slice t, s1, s2, hr => by
        simp only [sfoldTy]
        exact SimRes.bind (sfoldTy_sim H o t s1 s2 hr) fun a b _ _ hab h =>
          SimRes.pure (fun e => by rw [hab e]) h
    | .raw m t, s1, s2, hr => by
        simp only [sfoldTy]
        exact SimRes.bind (sfoldTy_sim H o t s1 s2 hr) fun a b _ _ hab h =>
          SimRes.pure (fun e => by rw [hab e]) h
    | .ref m l t, s1, s2, hr => by
        simp only [sfoldTy]
        exact SimRes.bind (sfoldLifetime_sim H o l s1 s2 hr) fun a b s1' s2' hab h =>
          SimRes.bind (sfoldTy_sim H o t s1' s2' h) fun a' b' _ _ hab' h' =>
            SimRes.pure (fun e => by rw [hab e, hab' e]) h'
    | .placeholder ui idx, s1, s2, hr => H.phTy _ _ _ _ _ hr
    | .dyn kinds bounds l, s1, s2, hr => by
        simp only [sfoldTy]
        exact SimRes.bind (sfoldQWCs_sim H (o + 1) bounds s1 s2 hr) fun a b s1' s2' hab h =>
          SimRes.bind (sfoldLifetime_sim H o l s1' s2' h) fun a' b' _ _ hab' h' =>
            SimRes.pure (fun e => by rw [hab e, hab' e]) h'
    | .proj id args, s1, s2, hr => by
        simp only [sfoldTy]
        exact SimRes.bind (sfoldArgs_sim H o args s1 s2 hr) fun a b _ _ hab h =>
          SimRes.pure (fun e => by rw [hab e]) h
    | .opaque id args, s1, s2, hr => by
        simp only [sfoldTy]
        exact SimRes.bind (sfoldArgs_sim H o args s1 s2 hr) fun a b _ _ hab h =>
          SimRes.pure (fun e => by rw [hab e]) h
    | .function nb sig args, s1, s2, hr => by
        simp only [sfoldTy]
        exact SimRes.bind (sfoldArgs_sim H (o + 1) args s1 s2 hr) fun a b _ _ hab h =>
          SimRes.pure (fun e => by rw [hab e]) h
    | .bound db idx, s1, s2, hr => by
        simp only [sfoldTy]
        split
        · exact H.freeVarTy _ _ _ _ _ hr
        · exact SimRes.pure (fun _ => rfl) hr
    | .infer v k, s1, s2, hr => H.inferTy _ _ _ _ _ hr
  theorem sfoldConst_sim (H : SimHandlers E R f1 f2) (o : Nat) : (c : Const) → (s1 : σ1) → (s2 : σ2) → R s1 s2 →
      SimRes E R (sfoldConst f1 o c s1) (sfoldConst f2 o c s2)
    | .mk ty (.bound db idx), s1, s2, hr => by
        simp only [sfoldConst, ← H.flagFreeVar]
        split
        · split
          · rename_i hflag
            exact SimRes.bind (sfoldTy_sim H o ty s1 s2 hr) fun a b s1' s2' hab h =>
              H.freeVarConst _ _ _ _ _ _ _ (fun hh => hh.elim hab (fun hf => by simp [hflag] at hf)) h
          · exact H.freeVarConst _ _ _ _ _ _ _ (fun _ => rfl) hr
        · exact SimRes.pure (fun _ => rfl) hr
    | .mk ty (.infer v), s1, s2, hr => by
        simp only [sfoldConst, ← H.flagInfer]
        split
        · rename_i hflag
          exact SimRes.bind (sfoldTy_sim H o ty s1 s2 hr) fun a b s1' s2' hab h =>
            H.inferConst _ _ _ _ _ _ (fun hh => hh.elim hab (fun hf => by simp [hflag] at hf)) h
        · exact H.inferConst _ _ _ _ _ _ (fun _ => rfl) hr
    | .mk ty (.placeholder ui idx), s1, s2, hr => by
        simp only [sfoldConst, ← H.flagPh]
        split
        · rename_i hflag
          exact SimRes.bind (sfoldTy_sim H o ty s1 s2 hr) fun a b s1' s2' hab h =>
            H.phConst _ _ _ _ _ _ _ (fun hh => hh.elim hab (fun hf => by simp [hflag] at hf)) h
        · exact H.phConst _ _ _ _ _ _ _ (fun _ => rfl) hr
    | .mk ty (.concrete k), s1, s2, hr => by
        simp only [sfoldConst]
        exact SimRes.bind (sfoldTy_sim H o ty s1 s2 hr) fun a b _ _ hab h =>
          SimRes.pure (fun e => by rw [hab e]) h
  theorem sfoldGArg_sim (H : SimHandlers E R f1 f2) (o : Nat) : (g : GArg) → (s1 : σ1) → (s2 : σ2) → R s1 s2 →
      SimRes E R (sfoldGArg f1 o g s1) (sfoldGArg f2 o g s2)
    | .ty t, s1, s2, hr => by
        simp only [sfoldGArg]
        exact SimRes.bind (sfoldTy_sim H o t s1 s2 hr) fun a b _ _ hab h =>
          SimRes.pure (fun e => by rw [hab e]) h
    | .lt l, s1, s2, hr => by
        simp only [sfoldGArg]
        exact SimRes.bind (sfoldLifetime_sim H o l s1 s2 hr) fun a b _ _ hab h =>
          SimRes.pure (fun e => by rw [hab e]) h
    | .ct c, s1, s2, hr => by
        simp only [sfoldGArg]
        exact SimRes.bind (sfoldConst_sim H o c s1 s2 hr) fun a b _ _ hab h =>
          SimRes.pure (fun e => by rw [hab e]) h
  theorem sfoldArgs_sim (H : SimHandlers E R f1 f2) (o : Nat) : (as : Args) → (s1 : σ1) → (s2 : σ2) → R s1 s2 →
      SimRes E R (sfoldArgs f1 o as s1) (sfoldArgs f2 o as s2)
    | .nil, _, _, hr => SimRes.pure (fun _ => rfl) hr
    | .cons g as, s1, s2, hr => by
        simp only [sfoldArgs]
        exact SimRes.bind (sfoldGArg_sim H o g s1 s2 hr) fun a b s1' s2' hab h =>
          SimRes.bind (sfoldArgs_sim H o as s1' s2' h) fun a' b' _ _ hab' h' =>
            SimRes.pure (fun e => by rw [hab e, hab' e]) h'
  theorem sfoldWC_sim (H : SimHandlers E R f1 f2) (o : Nat) : (w : WC) → (s1 : σ1) → (s2 : σ2) → R s1 s2 →
      SimRes E R (sfoldWC f1 o w s1) (sfoldWC f2 o w s2)
    | .implemented tr args, s1, s2, hr => by
        simp only [sfoldWC]
        exact SimRes.bind (sfoldArgs_sim H o args s1 s2 hr) fun a b _ _ hab h =>
          SimRes.pure (fun e => by rw [hab e]) h
    | .aliasEqProj id args ty, s1, s2, hr => by
        simp only [sfoldWC]
        exact SimRes.bind (sfoldArgs_sim H o args s1 s2 hr) fun a b s1' s2' hab h =>
          SimRes.bind (sfoldTy_sim H o ty s1' s2' h) fun a' b' _ _ hab' h' =>
            SimRes.pure (fun e => by rw [hab e, hab' e]) h'
    | .aliasEqOpaque id args ty, s1, s2, hr => by
        simp only [sfoldWC]
        exact SimRes.bind (sfoldArgs_sim H o args s1 s2 hr) fun a b s1' s2' hab h =>
          SimRes.bind (sfoldTy_sim H o ty s1' s2' h) fun a' b' _ _ hab' h' =>
            SimRes.pure (fun e => by rw [hab e, hab' e]) h'
    | .ltOutlives x y, s1, s2, hr => by
        simp only [sfoldWC]
        exact SimRes.bind (sfoldLifetime_sim H o x s1 s2 hr) fun a b s1' s2' hab h =>
          SimRes.bind (sfoldLifetime_sim H o y s1' s2' h) fun a' b' _ _ hab' h' =>
            SimRes.pure (fun e => by rw [hab e, hab' e]) h'
    | .tyOutlives t l, s1, s2, hr => by
        simp only [sfoldWC]
        exact SimRes.bind (sfoldTy_sim H o t s1 s2 hr) fun a b s1' s2' hab h =>
          SimRes.bind (sfoldLifetime_sim H o l s1' s2' h) fun a' b' _ _ hab' h' =>
            SimRes.pure (fun e => by rw [hab e, hab' e]) h'
  theorem sfoldQWC_sim (H : SimHandlers E R f1 f2) (o : Nat) : (q : QWC) → (s1 : σ1) → (s2 : σ2) → R s1 s2 →
      SimRes E R (sfoldQWC f1 o q s1) (sfoldQWC f2 o q s2)
    | .mk kinds wc, s1, s2, hr => by
        simp only [sfoldQWC]
        exact SimRes.bind (sfoldWC_sim H (o + 1) wc s1 s2 hr) fun a b _ _ hab h =>
          SimRes.pure (fun e => by rw [hab e]) h
  theorem sfoldQWCs_sim (H : SimHandlers E R f1 f2) (o : Nat) : (qs : QWCs) → (s1 : σ1) → (s2 : σ2) → R s1 s2 →
      SimRes E R (sfoldQWCs f1 o qs s1) (sfoldQWCs f2 o qs s2)
    | .nil, _, _, hr => SimRes.pure (fun _ => rfl) hr
    | .cons q qs, s1, s2, hr => by
        simp only [sfoldQWCs]
        exact SimRes.bind (sfoldQWC_sim H o q s1 s2 hr) fun a b s1' s2' hab h =>
          SimRes.bind (sfoldQWCs_sim H o qs s1' s2' h) fun a' b' _ _ hab' h' =>
            SimRes.pure (fun e => by rw [hab e, hab' e]) h'
end

end Sim

/-! ### fusion: a stateless fold followed by a stateful fold -/

section Comp
variable {σ : Type}

/-- the stateful folder that does "first `g`, then `f`" leaf by leaf (for `f` whose const methods
    do not fold the type) -/
def SFolder.comp (f : SFolder σ) (g : Folder) : SFolder σ where
  freeVarTy := fun db idx o s =>
    match g.freeVarTy with
    | some h => (match h db idx o with | .ok t => sfoldTy f o t s | .error e => .error e)
    | none => f.freeVarTy db idx o s
  freeVarLt := fun db idx o s =>
    match g.freeVarLt with
    | some h => (match h db idx o with | .ok t => sfoldLifetime f o t s | .error e => .error e)
    | none => f.freeVarLt db idx o s
  freeVarConst := fun ty db idx o s =>
    match g.freeVarConst with
    | some h => (match h ty db idx o with | .ok c => sfoldConst f o c s | .error e => .error e)
    | none => (match foldTy g o ty with | .ok ty' => f.freeVarConst ty' db idx o s | .error e => .error e)
  inferTy := fun v k o s =>
    match g.inferTy with
    | some h => (match h v k o with | .ok t => sfoldTy f o t s | .error e => .error e)
    | none => f.inferTy v k o s
  inferLt := fun v o s =>
    match g.inferLt with
    | some h => (match h v o with | .ok t => sfoldLifetime f o t s | .error e => .error e)
    | none => f.inferLt v o s
  inferConst := fun ty v o s =>
    match g.inferConst with
    | some h => (match h ty v o with | .ok c => sfoldConst f o c s | .error e => .error e)
    | none => (match foldTy g o ty with | .ok ty' => f.inferConst ty' v o s | .error e => .error e)
  phTy := fun ui idx o s =>
    match g.phTy with
    | some h => (match h ui idx o with | .ok t => sfoldTy f o t s | .error e => .error e)
    | none => f.phTy ui idx o s
  phLt := fun ui idx o s =>
    match g.phLt with
    | some h => (match h ui idx o with | .ok t => sfoldLifetime f o t s | .error e => .error e)
    | none => f.phLt ui idx o s
  phConst := fun ty ui idx o s =>
    match g.phConst with
    | some h => (match h ty ui idx o with | .ok c => sfoldConst f o c s | .error e => .error e)
    | none => (match foldTy g o ty with | .ok ty' => f.phConst ty' ui idx o s | .error e => .error e)

/-- `f`'s const methods receive the type unfolded -/
structure SFolder.NoTyFold (f : SFolder σ) : Prop where
  freeVar : f.foldsFreeVarConstTy = false
  infer : f.foldsInferConstTy = false
  ph : f.foldsPhConstTy = false

variable {f : SFolder σ} {g : Folder}

theorem sfoldLifetime_comp (o : Nat) (l : Lifetime) (s : σ) (r : Lifetime × σ)
    (h : sfoldLifetime (f.comp g) o l s = .ok r) :
    ∃ l', foldLifetime g o l = .ok l' ∧ sfoldLifetime f o l' s = .ok r := by
  cases l with
  | bound db idx =>
    by_cases hd : o ≤ db
    · simp only [sfoldLifetime, hd, if_true, SFolder.comp] at h
      cases hg : g.freeVarLt with
      | none =>
        simp only [hg] at h
        refine ⟨.bound (db - o + o) idx, by simp [foldLifetime, hd, hg], ?_⟩
        simpa [sfoldLifetime] using h
      | some hh =>
        simp only [hg] at h
        cases hx : hh (db - o) idx o with
        | error e => simp [hx] at h
        | ok t => simp only [hx] at h; exact ⟨t, by simp [foldLifetime, hd, hg, hx], h⟩
    · simp only [sfoldLifetime, hd, if_false] at h
      exact ⟨.bound db idx, by simp [foldLifetime, hd], by simpa [sfoldLifetime, hd] using h⟩
  | infer v =>
    simp only [sfoldLifetime, SFolder.comp] at h
    cases hg : g.inferLt with
    | none => simp only [hg] at h; exact ⟨.infer v, by simp [foldLifetime, hg], by simpa [sfoldLifetime] using h⟩
    | some hh =>
      simp only [hg] at h
      cases hx : hh v o with
      | error e => simp [hx] at h
      | ok t => simp only [hx] at h; exact ⟨t, by simp [foldLifetime, hg, hx], h⟩
  | placeholder ui idx =>
    simp only [sfoldLifetime, SFolder.comp] at h
    cases hg : g.phLt with
    | none => simp only [hg] at h; exact ⟨.placeholder ui idx, by simp [foldLifetime, hg], by simpa [sfoldLifetime] using h⟩
    | some hh =>
      simp only [hg] at h
      cases hx : hh ui idx o with
      | error e => simp [hx] at h
      | ok t => simp only [hx] at h; exact ⟨t, by simp [foldLifetime, hg, hx], h⟩
  | static => exact ⟨.static, by simp [foldLifetime], by simpa [sfoldLifetime] using h⟩
  | erased => exact ⟨.erased, by simp [foldLifetime], by simpa [sfoldLifetime] using h⟩
  | error => exact ⟨.error, by simp [foldLifetime], by simpa [sfoldLifetime] using h⟩

mutual
  theorem sfoldTy_comp (hf : f.NoTyFold) (o : Nat) : (t : Ty) → (s : σ) → (r : Ty × σ) →
      sfoldTy (f.comp g) o t s = .ok r → ∃ t', foldTy g o t = .ok t' ∧ sfoldTy f o t' s = .ok r
    | .app n args, s, r, h => by
        simp only [sfoldTy] at h
        obtain ⟨a1, s1, h1, h2⟩ := bindS_eq_ok.mp h
        obtain ⟨x, hgx, hx⟩ := sfoldArgs_comp hf o args s _ h1
        exact ⟨.app n x, by simp [foldTy, hgx], by simpa [sfoldTy, hx] using h2⟩
    | .scalar sc, s, r, h => ⟨.scalar sc, by simp [foldTy], by simpa [sfoldTy] using h⟩
    | .str, s, r, h => ⟨.str, by simp [foldTy], by simpa [sfoldTy] using h⟩
    | .never, s, r, h => ⟨.never, by simp [foldTy], by simpa [sfoldTy] using h⟩
    | .foreign id, s, r, h => ⟨.foreign id, by simp [foldTy], by simpa [sfoldTy] using h⟩
    | .error, s, r, h => ⟨.error, by simp [foldTy], by simpa [sfoldTy] using h⟩
    | .array t c, s, r, h => by
        simp only [sfoldTy] at h
        obtain ⟨a1, s1, h1, h'⟩ := bindS_eq_ok.mp h
        obtain ⟨a2, s2, h2, h3⟩ := bindS_eq_ok.mp h'
        obtain ⟨x, hgx, hx⟩ := sfoldTy_comp hf o t s _ h1
        obtain ⟨y, hgy, hy⟩ := sfoldConst_comp hf o c s1 _ h2
        exact ⟨.array x y, by simp [foldTy, hgx, hgy], by simpa [sfoldTy, hx, hy] using h3⟩
    | .slice t, s, r, h => by
        simp only [sfoldTy] at h
        obtain ⟨a1, s1, h1, h2⟩ := bindS_eq_ok.mp h
        obtain ⟨x, hgx, hx⟩ := sfoldTy_comp hf o t s _ h1
        exact ⟨.slice x, by simp [foldTy, hgx], by simpa [sfoldTy, hx] using h2⟩
    | .raw m t, s, r, h => by
        simp only [sfoldTy] at h
        obtain ⟨a1, s1, h1, h2⟩ := bindS_eq_ok.mp h
        obtain ⟨x, hgx, hx⟩ := sfoldTy_comp hf o t s _ h1
        exact ⟨.raw m x, by simp [foldTy, hgx], by simpa [sfoldTy, hx] using h2⟩
    | .ref m l t, s, r, h => by
        simp only [sfoldTy] at h
        obtain ⟨a1, s1, h1, h'⟩ := bindS_eq_ok.mp h
        obtain ⟨a2, s2, h2, h3⟩ := bindS_eq_ok.mp h'
        obtain ⟨x, hgx, hx⟩ := sfoldLifetime_comp o l s _ h1
        obtain ⟨y, hgy, hy⟩ := sfoldTy_comp hf o t s1 _ h2
        exact ⟨.ref m x y, by simp [foldTy, hgx, hgy], by simpa [sfoldTy, hx, hy] using h3⟩
    | .placeholder ui idx, s, r, h => by
        simp only [sfoldTy, SFolder.comp] at h
        cases hg : g.phTy with
        | none => simp only [hg] at h; exact ⟨.placeholder ui idx, by simp [foldTy, hg], by simpa [sfoldTy] using h⟩
        | some hh =>
          simp only [hg] at h
          cases hx : hh ui idx o with
          | error e => simp [hx] at h
          | ok t => simp only [hx] at h; exact ⟨t, by simp [foldTy, hg, hx], h⟩
    | .dyn kinds bounds l, s, r, h => by
        simp only [sfoldTy] at h
        obtain ⟨a1, s1, h1, h'⟩ := bindS_eq_ok.mp h
        obtain ⟨a2, s2, h2, h3⟩ := bindS_eq_ok.mp h'
        obtain ⟨x, hgx, hx⟩ := sfoldQWCs_comp hf (o + 1) bounds s _ h1
        obtain ⟨y, hgy, hy⟩ := sfoldLifetime_comp o l s1 _ h2
        exact ⟨.dyn kinds x y, by simp [foldTy, hgx, hgy], by simpa [sfoldTy, hx, hy] using h3⟩
    | .proj id args, s, r, h => by
        simp only [sfoldTy] at h
        obtain ⟨a1, s1, h1, h2⟩ := bindS_eq_ok.mp h
        obtain ⟨x, hgx, hx⟩ := sfoldArgs_comp hf o args s _ h1
        exact ⟨.proj id x, by simp [foldTy, hgx], by simpa [sfoldTy, hx] using h2⟩
    | .opaque id args, s, r, h => by
        simp only [sfoldTy] at h
        obtain ⟨a1, s1, h1, h2⟩ := bindS_eq_ok.mp h
        obtain ⟨x, hgx, hx⟩ := sfoldArgs_comp hf o args s _ h1
        exact ⟨.opaque id x, by simp [foldTy, hgx], by simpa [sfoldTy, hx] using h2⟩
    | .function nb sig args, s, r, h => by
        simp only [sfoldTy] at h
        obtain ⟨a1, s1, h1, h2⟩ := bindS_eq_ok.mp h
        obtain ⟨x, hgx, hx⟩ := sfoldArgs_comp hf (o + 1) args s _ h1
        exact ⟨.function nb sig x, by simp [foldTy, hgx], by simpa [sfoldTy, hx] using h2⟩
    | .bound db idx, s, r, h => by
        by_cases hd : o ≤ db
        · simp only [sfoldTy, hd, if_true, SFolder.comp] at h
          cases hg : g.freeVarTy with
          | none =>
            simp only [hg] at h
            refine ⟨.bound (db - o + o) idx, by simp [foldTy, hd, hg], ?_⟩
            simpa [sfoldTy] using h
          | some hh =>
            simp only [hg] at h
            cases hx : hh (db - o) idx o with
            | error e => simp [hx] at h
            | ok t => simp only [hx] at h; exact ⟨t, by simp [foldTy, hd, hg, hx], h⟩
        · simp only [sfoldTy, hd, if_false] at h
          exact ⟨.bound db idx, by simp [foldTy, hd], by simpa [sfoldTy, hd] using h⟩
    | .infer v k, s, r, h => by
        simp only [sfoldTy, SFolder.comp] at h
        cases hg : g.inferTy with
        | none => simp only [hg] at h; exact ⟨.infer v k, by simp [foldTy, hg], by simpa [sfoldTy] using h⟩
        | some hh =>
          simp only [hg] at h
          cases hx : hh v k o with
          | error e => simp [hx] at h
          | ok t => simp only [hx] at h; exact ⟨t, by simp [foldTy, hg, hx], h⟩
  theorem sfoldConst_comp (hf : f.NoTyFold) (o : Nat) : (c : Const) → (s : σ) → (r : Const × σ) →
      sfoldConst (f.comp g) o c s = .ok r → ∃ c', foldConst g o c = .ok c' ∧ sfoldConst f o c' s = .ok r
    | .mk ty (.bound db idx), s, r, h => by
        by_cases hd : o ≤ db
        · simp only [sfoldConst, hd, if_true, SFolder.comp] at h
          cases hg : g.freeVarConst with
          | none =>
            simp only [hg] at h
            cases hx : foldTy g o ty with
            | error e => simp [hx] at h
            | ok ty' =>
              simp only [hx] at h
              refine ⟨.mk ty' (.bound (db - o + o) idx), by simp [foldConst, hd, hg, hx], ?_⟩
              simpa [sfoldConst, hf.freeVar] using h
          | some hh =>
            simp only [hg] at h
            cases hx : hh ty (db - o) idx o with
            | error e => simp [hx] at h
            | ok t => simp only [hx] at h; exact ⟨t, by simp [foldConst, hd, hg, hx], h⟩
        · simp only [sfoldConst, hd, if_false] at h
          exact ⟨.mk ty (.bound db idx), by simp [foldConst, hd], by simpa [sfoldConst, hd] using h⟩
    | .mk ty (.infer v), s, r, h => by
        simp only [sfoldConst, SFolder.comp] at h
        cases hg : g.inferConst with
        | none =>
          simp only [hg] at h
          cases hx : foldTy g o ty with
          | error e => simp [hx] at h
          | ok ty' =>
            simp only [hx] at h
            exact ⟨.mk ty' (.infer v), by simp [foldConst, hg, hx], by simpa [sfoldConst, hf.infer] using h⟩
        | some hh =>
          simp only [hg] at h
          cases hx : hh ty v o with
          | error e => simp [hx] at h
          | ok t => simp only [hx] at h; exact ⟨t, by simp [foldConst, hg, hx], h⟩
    | .mk ty (.placeholder ui idx), s, r, h => by
        simp only [sfoldConst, SFolder.comp] at h
        cases hg : g.phConst with
        | none =>
          simp only [hg] at h
          cases hx : foldTy g o ty with
          | error e => simp [hx] at h
          | ok ty' =>
            simp only [hx] at h
            exact ⟨.mk ty' (.placeholder ui idx), by simp [foldConst, hg, hx], by simpa [sfoldConst, hf.ph] using h⟩
        | some hh =>
          simp only [hg] at h
          cases hx : hh ty ui idx o with
          | error e => simp [hx] at h
          | ok t => simp only [hx] at h; exact ⟨t, by simp [foldConst, hg, hx], h⟩
    | .mk ty (.concrete k), s, r, h => by
        simp only [sfoldConst] at h
        obtain ⟨a1, s1, h1, h2⟩ := bindS_eq_ok.mp h
        obtain ⟨x, hgx, hx⟩ := sfoldTy_comp hf o ty s _ h1
        exact ⟨.mk x (.concrete k), by simp [foldConst, hgx], by simpa [sfoldConst, hx] using h2⟩
  theorem sfoldGArg_comp (hf : f.NoTyFold) (o : Nat) : (a : GArg) → (s : σ) → (r : GArg × σ) →
      sfoldGArg (f.comp g) o a s = .ok r → ∃ a', foldGArg g o a = .ok a' ∧ sfoldGArg f o a' s = .ok r
    | .ty t, s, r, h => by
        simp only [sfoldGArg] at h
        obtain ⟨a1, s1, h1, h2⟩ := bindS_eq_ok.mp h
        obtain ⟨x, hgx, hx⟩ := sfoldTy_comp hf o t s _ h1
        exact ⟨.ty x, by simp [foldGArg, hgx], by simpa [sfoldGArg, hx] using h2⟩
    | .lt l, s, r, h => by
        simp only [sfoldGArg] at h
        obtain ⟨a1, s1, h1, h2⟩ := bindS_eq_ok.mp h
        obtain ⟨x, hgx, hx⟩ := sfoldLifetime_comp o l s _ h1
        exact ⟨.lt x, by simp [foldGArg, hgx], by simpa [sfoldGArg, hx] using h2⟩
    | .ct c, s, r, h => by
        simp only [sfoldGArg] at h
        obtain ⟨a1, s1, h1, h2⟩ := bindS_eq_ok.mp h
        obtain ⟨x, hgx, hx⟩ := sfoldConst_comp hf o c s _ h1
        exact ⟨.ct x, by simp [foldGArg, hgx], by simpa [sfoldGArg, hx] using h2⟩
  theorem sfoldArgs_comp (hf : f.NoTyFold) (o : Nat) : (as : Args) → (s : σ) → (r : Args × σ) →
      sfoldArgs (f.comp g) o as s = .ok r → ∃ as', foldArgs g o as = .ok as' ∧ sfoldArgs f o as' s = .ok r
    | .nil, s, r, h => ⟨.nil, by simp [foldArgs], by simpa [sfoldArgs] using h⟩
    | .cons a as, s, r, h => by
        simp only [sfoldArgs] at h
        obtain ⟨a1, s1, h1, h'⟩ := bindS_eq_ok.mp h
        obtain ⟨a2, s2, h2, h3⟩ := bindS_eq_ok.mp h'
        obtain ⟨x, hgx, hx⟩ := sfoldGArg_comp hf o a s _ h1
        obtain ⟨y, hgy, hy⟩ := sfoldArgs_comp hf o as s1 _ h2
        exact ⟨.cons x y, by simp [foldArgs, hgx, hgy], by simpa [sfoldArgs, hx, hy] using h3⟩
  theorem sfoldWC_comp (hf : f.NoTyFold) (o : Nat) : (w : WC) → (s : σ) → (r : WC × σ) →
      sfoldWC (f.comp g) o w s = .ok r → ∃ w', foldWC g o w = .ok w' ∧ sfoldWC f o w' s = .ok r
    | .implemented tr args, s, r, h => by
        simp only [sfoldWC] at h
        obtain ⟨a1, s1, h1, h2⟩ := bindS_eq_ok.mp h
        obtain ⟨x, hgx, hx⟩ := sfoldArgs_comp hf o args s _ h1
        exact ⟨.implemented tr x, by simp [foldWC, hgx], by simpa [sfoldWC, hx] using h2⟩
    | .aliasEqProj id args ty, s, r, h => by
        simp only [sfoldWC] at h
        obtain ⟨a1, s1, h1, h'⟩ := bindS_eq_ok.mp h
        obtain ⟨a2, s2, h2, h3⟩ := bindS_eq_ok.mp h'
        obtain ⟨x, hgx, hx⟩ := sfoldArgs_comp hf o args s _ h1
        obtain ⟨y, hgy, hy⟩ := sfoldTy_comp hf o ty s1 _ h2
        exact ⟨.aliasEqProj id x y, by simp [foldWC, hgx, hgy], by simpa [sfoldWC, hx, hy] using h3⟩
    | .aliasEqOpaque id args ty, s, r, h => by
        simp only [sfoldWC] at h
        obtain ⟨a1, s1, h1, h'⟩ := bindS_eq_ok.mp h
        obtain ⟨a2, s2, h2, h3⟩ := bindS_eq_ok.mp h'
        obtain ⟨x, hgx, hx⟩ := sfoldArgs_comp hf o args s _ h1
        obtain ⟨y, hgy, hy⟩ := sfoldTy_comp hf o ty s1 _ h2
        exact ⟨.aliasEqOpaque id x y, by simp [foldWC, hgx, hgy], by simpa [sfoldWC, hx, hy] using h3⟩
    | .ltOutlives a b, s, r, h => by
        simp only [sfoldWC] at h
        obtain ⟨a1, s1, h1, h'⟩ := bindS_eq_ok.mp h
        obtain ⟨a2, s2, h2, h3⟩ := bindS_eq_ok.mp h'
        obtain ⟨x, hgx, hx⟩ := sfoldLifetime_comp o a s _ h1
        obtain ⟨y, hgy, hy⟩ := sfoldLifetime_comp o b s1 _ h2
        exact ⟨.ltOutlives x y, by simp [foldWC, hgx, hgy], by simpa [sfoldWC, hx, hy] using h3⟩
    | .tyOutlives t l, s, r, h => by
        simp only [sfoldWC] at h
        obtain ⟨a1, s1, h1, h'⟩ := bindS_eq_ok.mp h
        obtain ⟨a2, s2, h2, h3⟩ := bindS_eq_ok.mp h'
        obtain ⟨x, hgx, hx⟩ := sfoldTy_comp hf o t s _ h1
        obtain ⟨y, hgy, hy⟩ := sfoldLifetime_comp o l s1 _ h2
        exact ⟨.tyOutlives x y, by simp [foldWC, hgx, hgy], by simpa [sfoldWC, hx, hy] using h3⟩
  theorem sfoldQWC_comp (hf : f.NoTyFold) (o : Nat) : (q : QWC) → (s : σ) → (r : QWC × σ) →
      sfoldQWC (f.comp g) o q s = .ok r → ∃ q', foldQWC g o q = .ok q' ∧ sfoldQWC f o q' s = .ok r
    | .mk kinds wc, s, r, h => by
        simp only [sfoldQWC] at h
        obtain ⟨a1, s1, h1, h2⟩ := bindS_eq_ok.mp h
        obtain ⟨x, hgx, hx⟩ := sfoldWC_comp hf (o + 1) wc s _ h1
        exact ⟨.mk kinds x, by simp [foldQWC, hgx], by simpa [sfoldQWC, hx] using h2⟩
  theorem sfoldQWCs_comp (hf : f.NoTyFold) (o : Nat) : (qs : QWCs) → (s : σ) → (r : QWCs × σ) →
      sfoldQWCs (f.comp g) o qs s = .ok r → ∃ qs', foldQWCs g o qs = .ok qs' ∧ sfoldQWCs f o qs' s = .ok r
    | .nil, s, r, h => ⟨.nil, by simp [foldQWCs], by simpa [sfoldQWCs] using h⟩
    | .cons q qs, s, r, h => by
        simp only [sfoldQWCs] at h
        obtain ⟨a1, s1, h1, h'⟩ := bindS_eq_ok.mp h
        obtain ⟨a2, s2, h2, h3⟩ := bindS_eq_ok.mp h'
        obtain ⟨x, hgx, hx⟩ := sfoldQWC_comp hf o q s _ h1
        obtain ⟨y, hgy, hy⟩ := sfoldQWCs_comp hf o qs s1 _ h2
        exact ⟨.cons x y, by simp [foldQWCs, hgx, hgy], by simpa [sfoldQWCs, hx, hy] using h3⟩
end

end Comp

end Chalk
