/-
  FixedPointSemN.lean — `solve_root_goal` and histories of plain calls: total correctness on
  ground instances of one polarity.
-/
import ChalkModel.Lemmas.FixedPointSemM

namespace Chalk.FixedPoint.Cyc

section
variable {c : Bool} {inst : Instance} {dom : List Nat} {fx : Bool} {cfg : Cfg}

/-- caching is enabled and every cache entry is the correct answer -/
def GoodCache (c : Bool) (inst : Instance) (s : St) : Prop :=
  (∃ cc, s.cache = some cc) ∧ ∀ k v, InCache s k v → Corr c inst k v

theorem goodCache_fresh (c : Bool) (inst : Instance) : GoodCache c inst (St.fresh true) := by
  refine ⟨⟨[], rfl⟩, ?_⟩
  intro k v h
  obtain ⟨cc, e, hk⟩ := h
  simp only [St.fresh, if_true, Option.some.injEq] at e
  subst e
  cases hk

theorem cacheOK_of_none {s : St} (h : s.cache = none) : CacheOK c inst s := by
  rintro k v ⟨cc, e, _⟩
  rw [h] at e
  cases e

/-- `solve_root_goal` with ANY work budget and ANY `should_continue` oracle (the repaired code; the
    repairs F10 and F16 are needed only if the oracle can say "stop": `fx`), caching enabled or disabled:
    it returns the correct answer — or `ambig`, and then solving was interrupted —, or it ends in the
    budget panic; the cache it leaves is correct in all cases -/
theorem solveRootGoal_general (hyp : Hyp c inst dom) (h3 : cfg.fixF3 = true) (h7 : cfg.fixF7 = true)
    (h10 : fx = true → cfg.fixF10 = true) (h16 : fx = true → cfg.fixF16 = true)
    (hov : dom.length ≤ cfg.overflowDepth) (hr : 2 ≤ cfg.rounds)
    (s : St) (hfx : fx = true ∨ QuietSt s) (hok : CacheOK c inst s)
    (g : Nat) (hg : g ∈ dom) :
    (∃ v s', solveRootGoal inst cfg g s = .ok v s' ∧ (Corr c inst g v ∨ (v = .ambig ∧ s'.interrupted = true)) ∧
      s'.stack = [] ∧ s'.graph = [] ∧ CacheOK c inst s' ∧ s'.cache.isSome = s.cache.isSome ∧
      (QuietSt s → s'.interrupted = false)) ∨
    (∃ s', solveRootGoal inst cfg g s = .panic .budget s' ∧ cfg.budget ≠ none ∧ CacheOK c inst s') := by
  have i1 : Inv c inst dom fx { s with stack := [], graph := [], interrupted := false } := by
    refine ⟨hfx.imp id (fun q => ⟨q, rfl⟩), ?_, hok, ?_, List.nodup_nil, ?_, ?_, ?_, ?_, ?_, ?_, rfl, ?_⟩
    · intro i n hn; exact absurd hn (by simp)
    · intro e he; cases he
    all_goals first
      | (intro i n d hn; exact absurd hn (by simp))
      | (intro i n hn; exact absurd hn (by simp))
  cases solveGoal_good hyp h3 h10 h16 hov hr (cfg.overflowDepth + 1) g none _ i1 hg
    (by show cfg.overflowDepth < cfg.overflowDepth + 1 + 0; omega) with
  | inr hp =>
    obtain ⟨s', hrun, h2⟩ := hp
    refine Or.inr ⟨s', ?_, h2⟩
    unfold solveRootGoal
    simp only [h7, h3, Bool.not_true, Bool.false_and, Bool.false_eq_true, if_false, if_true]
    rw [hrun]
  | inl hok' =>
  left
  obtain ⟨⟨v, m'⟩, s', hrun⟩ := hok'
  obtain ⟨i', hs', _, hf'⟩ := solveGoal_sem hyp h3 h10 (cfg.overflowDepth + 1) g none _ v m' s' i1 hg hrun
  have hstack : s'.stack = [] := List.eq_nil_of_length_eq_zero hs'.stack.1
  have hgraph : s'.graph = [] := by
    cases hgr : s'.graph with
    | nil => rfl
    | cons n rest =>
      exfalso
      have hn : s'.graph[0]? = some n := by rw [hgr]; rfl
      cases hsd : n.stackDepth with
      | some d =>
        have := (i'.stk 0 n d hn hsd).1
        rw [hstack] at this
        exact Nat.not_lt_zero _ this
      | none =>
        obtain ⟨l, _, hl⟩ := i'.nonstk 0 n hn hsd
        exact Nat.not_lt_zero _ hl
  refine ⟨v, s', ?_, ?_, hstack, hgraph, i'.cacheOK, hs'.cacheMode, fun q => (hs'.quiet q).2 rfl⟩
  · unfold solveRootGoal
    simp only [h7, h3, Bool.not_true, Bool.false_and, Bool.false_eq_true, if_false, if_true]
    rw [hrun]
  · rcases hf' with h | h | h
    · refine Or.inl (Or.inl ⟨h.1, ?_⟩)
      cases h.2 with
      | inl ht => exact ht
      | inr hw =>
        obtain ⟨i, n, hn, _⟩ := hw
        rw [hgraph] at hn
        simp at hn
    · exact Or.inl (Or.inr ⟨h.1, h.2.1⟩)
    · exact Or.inr h

/-- `solve_root_goal` with ANY work budget (no interruption, the repaired code), caching enabled or
    disabled: it returns the correct answer, or it ends in the budget panic; the cache it leaves is
    correct in both cases -/
theorem solveRootGoal_good (hyp : Hyp c inst dom) (h3 : cfg.fixF3 = true) (h7 : cfg.fixF7 = true)
    (hov : dom.length ≤ cfg.overflowDepth) (hr : 2 ≤ cfg.rounds)
    (s : St) (hq : s.oracle = [] ∧ s.oracleDefault = true) (hok : CacheOK c inst s)
    (g : Nat) (hg : g ∈ dom) :
    (∃ v s', solveRootGoal inst cfg g s = .ok v s' ∧ Corr c inst g v ∧
      s'.stack = [] ∧ s'.graph = [] ∧ CacheOK c inst s' ∧ s'.cache.isSome = s.cache.isSome) ∨
    (∃ s', solveRootGoal inst cfg g s = .panic .budget s' ∧ cfg.budget ≠ none ∧ CacheOK c inst s') := by
  cases solveRootGoal_general (fx := false) hyp h3 h7 (fun e => by cases e) (fun e => by cases e) hov hr s
      (Or.inr hq) hok g hg with
  | inr h => exact Or.inr h
  | inl h =>
    obtain ⟨v, s', h1, h2, h3', h4, h5, h6, h7'⟩ := h
    refine Or.inl ⟨v, s', h1, ?_, h3', h4, h5, h6⟩
    cases h2 with
    | inl hc => exact hc
    | inr ha =>
      have := h7' hq
      rw [ha.2] at this
      cases this

/-- TOTAL CORRECTNESS of `solve_root_goal` (no interruption, no work budget, the repaired code),
    caching enabled or disabled -/
theorem solveRootGoal_correct_any (hyp : Hyp c inst dom) (h3 : cfg.fixF3 = true) (h7 : cfg.fixF7 = true)
    (hb : cfg.budget = none) (hov : dom.length ≤ cfg.overflowDepth) (hr : 2 ≤ cfg.rounds)
    (s : St) (hq : s.oracle = [] ∧ s.oracleDefault = true) (hok : CacheOK c inst s)
    (g : Nat) (hg : g ∈ dom) :
    ∃ v s', solveRootGoal inst cfg g s = .ok v s' ∧ Corr c inst g v ∧
      s'.stack = [] ∧ s'.graph = [] ∧ CacheOK c inst s' ∧ s'.cache.isSome = s.cache.isSome := by
  cases solveRootGoal_good hyp h3 h7 hov hr s hq hok g hg with
  | inl h => exact h
  | inr h => obtain ⟨_, _, hne, _⟩ := h; exact absurd hb hne

/-- … with caching enabled -/
theorem solveRootGoal_correct (hyp : Hyp c inst dom) (h3 : cfg.fixF3 = true) (h7 : cfg.fixF7 = true)
    (hb : cfg.budget = none) (hov : dom.length ≤ cfg.overflowDepth) (hr : 2 ≤ cfg.rounds)
    (s : St) (hq : s.oracle = [] ∧ s.oracleDefault = true) (hgc : GoodCache c inst s)
    (g : Nat) (hg : g ∈ dom) :
    ∃ v s', solveRootGoal inst cfg g s = .ok v s' ∧ Corr c inst g v ∧
      s'.stack = [] ∧ s'.graph = [] ∧ GoodCache c inst s' := by
  obtain ⟨v, s', h1, h2, h3', h4, h5, h6⟩ := solveRootGoal_correct_any hyp h3 h7 hb hov hr s hq hgc.2 g hg
  refine ⟨v, s', h1, h2, h3', h4, ?_, h5⟩
  obtain ⟨cc, hcc⟩ := hgc.1
  rw [hcc] at h6
  cases hc' : s'.cache with
  | none => rw [hc'] at h6; cases h6
  | some cc' => exact ⟨cc', rfl⟩

/-- … with caching disabled -/
theorem solveRootGoal_correct_nocache (hyp : Hyp c inst dom) (h3 : cfg.fixF3 = true) (h7 : cfg.fixF7 = true)
    (hb : cfg.budget = none) (hov : dom.length ≤ cfg.overflowDepth) (hr : 2 ≤ cfg.rounds)
    (s : St) (hq : s.oracle = [] ∧ s.oracleDefault = true) (hnc : s.cache = none)
    (g : Nat) (hg : g ∈ dom) :
    ∃ v s', solveRootGoal inst cfg g s = .ok v s' ∧ Corr c inst g v ∧
      s'.stack = [] ∧ s'.graph = [] ∧ s'.cache = none := by
  obtain ⟨v, s', h1, h2, h3', h4, _, h6⟩ :=
    solveRootGoal_correct_any hyp h3 h7 hb hov hr s hq (cacheOK_of_none hnc) g hg
  refine ⟨v, s', h1, h2, h3', h4, ?_⟩
  rw [hnc] at h6
  cases hc' : s'.cache with
  | none => rfl
  | some cc' => rw [hc'] at h6; cases h6

/-- a plain call (`Solver::solve`) on a solver whose cache is good -/
theorem plainCall_correct (hyp : Hyp c inst dom) (h3 : cfg.fixF3 = true) (h7 : cfg.fixF7 = true)
    (hov : dom.length ≤ cfg.overflowDepth) (hr : 2 ≤ cfg.rounds)
    (s : St) (hgc : GoodCache c inst s) (g : Nat) (hg : g ∈ dom) :
    ∃ v s', runCall inst cfg (Call.plain g) s = .ok v s' ∧ Corr c inst g v ∧ GoodCache c inst s' := by
  obtain ⟨v, s', h1, h2, _, _, h5⟩ := solveRootGoal_correct (cfg := { cfg with budget := none }) hyp h3 h7 rfl hov hr
    { s with oracle := [], oracleDefault := true, work := 0 } ⟨rfl, rfl⟩ hgc g hg
  exact ⟨v, s', h1, h2, h5⟩

/-- any history of plain calls keeps the cache good -/
theorem history_good (hyp : Hyp c inst dom) (h3 : cfg.fixF3 = true) (h7 : cfg.fixF7 = true)
    (hov : dom.length ≤ cfg.overflowDepth) (hr : 2 ≤ cfg.rounds) :
    ∀ (gs : List Nat), (∀ g, g ∈ gs → g ∈ dom) → ∀ s, GoodCache c inst s →
      GoodCache c inst (runHistory inst cfg (gs.map Call.plain) s)
  | [], _, _, h => h
  | g :: gs, hd, s, h => by
    simp only [List.map_cons, runHistory]
    obtain ⟨v, s', h1, _, h3'⟩ := plainCall_correct hyp h3 h7 hov hr s h g (hd g (List.mem_cons_self ..))
    rw [h1]
    exact history_good hyp h3 h7 hov hr gs (fun x hx => hd x (List.mem_cons_of_mem _ hx)) s' h3'

/-- the answer of a plain call after any history of plain calls, starting from a fresh solver -/
theorem history_correct (hyp : Hyp c inst dom) (h3 : cfg.fixF3 = true) (h7 : cfg.fixF7 = true)
    (hov : dom.length ≤ cfg.overflowDepth) (hr : 2 ≤ cfg.rounds)
    (gs : List Nat) (hd : ∀ g, g ∈ gs → g ∈ dom) (g : Nat) (hg : g ∈ dom) :
    ∃ v, solveOn inst cfg g (runHistory inst cfg (gs.map Call.plain) (St.fresh true)) = .value v ∧
      Corr c inst g v := by
  have hgood := history_good hyp h3 h7 hov hr gs hd _ (goodCache_fresh c inst)
  obtain ⟨v, s', h1, h2, _⟩ := plainCall_correct hyp h3 h7 hov hr _ hgood g hg
  exact ⟨v, by unfold solveOn; rw [h1]; rfl, h2⟩

/-- a plain call on a solver without cache -/
theorem plainCall_correct_nocache (hyp : Hyp c inst dom) (h3 : cfg.fixF3 = true) (h7 : cfg.fixF7 = true)
    (hov : dom.length ≤ cfg.overflowDepth) (hr : 2 ≤ cfg.rounds)
    (s : St) (hnc : s.cache = none) (g : Nat) (hg : g ∈ dom) :
    ∃ v s', runCall inst cfg (Call.plain g) s = .ok v s' ∧ Corr c inst g v ∧ s'.cache = none := by
  obtain ⟨v, s', h1, h2, _, _, h5⟩ := solveRootGoal_correct_nocache (cfg := { cfg with budget := none })
    hyp h3 h7 rfl hov hr { s with oracle := [], oracleDefault := true, work := 0 } ⟨rfl, rfl⟩ hnc g hg
  exact ⟨v, s', h1, h2, h5⟩

theorem history_nocache (hyp : Hyp c inst dom) (h3 : cfg.fixF3 = true) (h7 : cfg.fixF7 = true)
    (hov : dom.length ≤ cfg.overflowDepth) (hr : 2 ≤ cfg.rounds) :
    ∀ (gs : List Nat), (∀ g, g ∈ gs → g ∈ dom) → ∀ s, s.cache = none →
      (runHistory inst cfg (gs.map Call.plain) s).cache = none
  | [], _, _, h => h
  | g :: gs, hd, s, h => by
    simp only [List.map_cons, runHistory]
    obtain ⟨v, s', h1, _, h3'⟩ := plainCall_correct_nocache hyp h3 h7 hov hr s h g (hd g (List.mem_cons_self ..))
    rw [h1]
    exact history_nocache hyp h3 h7 hov hr gs (fun x hx => hd x (List.mem_cons_of_mem _ hx)) s' h3'

/-- the answer of a plain call after any history of plain calls, caching disabled -/
theorem history_correct_nocache (hyp : Hyp c inst dom) (h3 : cfg.fixF3 = true) (h7 : cfg.fixF7 = true)
    (hov : dom.length ≤ cfg.overflowDepth) (hr : 2 ≤ cfg.rounds)
    (gs : List Nat) (hd : ∀ g, g ∈ gs → g ∈ dom) (g : Nat) (hg : g ∈ dom) :
    ∃ v, solveOn inst cfg g (runHistory inst cfg (gs.map Call.plain) (St.fresh false)) = .value v ∧
      Corr c inst g v := by
  have hnc := history_nocache hyp h3 h7 hov hr gs hd (St.fresh false) rfl
  obtain ⟨v, s', h1, h2, _⟩ := plainCall_correct_nocache hyp h3 h7 hov hr _ hnc g hg
  exact ⟨v, by unfold solveOn; rw [h1]; rfl, h2⟩

/-- two correct answers for the same goal are equal -/
theorem Corr.unique {k : Nat} {v w : V} (h1 : Corr c inst k v) (h2 : Corr c inst k w) : v = w := by
  cases h1 with
  | inl a =>
    cases h2 with
    | inl b => rw [a.1, b.1]
    | inr b => exact absurd a.2 b.2
  | inr a =>
    cases h2 with
    | inl b => exact absurd b.2 a.2
    | inr b => rw [a.1, b.1]

end

end Chalk.FixedPoint.Cyc

namespace Chalk.FixedPoint.Cyc

/-- correctness of an answer, spelled out for coinductive instances -/
theorem corr_true (inst : Instance) (k : Nat) (v : V) :
    Corr true inst k v ↔ (v = .unique ∧ InGfp inst k) ∨ (v = .noSolution ∧ ¬ InGfp inst k) := by
  simp [Corr, top, bot, Tgt, initialValue]

/-- … and for inductive instances -/
theorem corr_false (inst : Instance) (k : Nat) (v : V) :
    Corr false inst k v ↔ (v = .unique ∧ InLfp inst k) ∨ (v = .noSolution ∧ ¬ InLfp inst k) := by
  simp only [Corr, top, bot, Tgt, initialValue, Bool.false_eq_true, if_false, Classical.not_not]
  exact Or.comm

/-- `InGfp` is a fixed point of `T` … -/
theorem inGfp_iff (inst : Instance) (k : Nat) : InGfp inst k ↔ JE inst (InGfp inst) k :=
  ⟨fun h => Tgt.unfold (c := true) h, fun h => Tgt.fold (c := true) h⟩

/-- … the greatest post-fixed point -/
theorem inGfp_greatest (inst : Instance) (S : Nat → Prop) (hS : ∀ x, S x → JE inst S x) :
    ∀ k, S k → InGfp inst k := fun _ hk => ⟨S, hS, hk⟩

/-- `InLfp` is a fixed point of `T` … -/
theorem inLfp_iff (inst : Instance) (k : Nat) : InLfp inst k ↔ JE inst (InLfp inst) k := by
  constructor
  · intro h
    cases h with
    | intro _ alt ha hall => exact ⟨alt, ha, hall⟩
  · rintro ⟨alt, ha, hall⟩
    exact InLfp.intro k alt ha hall

/-- … the least pre-fixed point -/
theorem inLfp_least (inst : Instance) (X : Nat → Prop) (hX : ∀ x, JE inst X x → X x) :
    ∀ k, InLfp inst k → X k := by
  intro k hk
  induction hk with
  | intro k alt ha _ ih => exact hX k ⟨alt, ha, ih⟩

end Chalk.FixedPoint.Cyc
