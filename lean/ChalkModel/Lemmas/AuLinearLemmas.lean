import ChalkModel.Lemmas.MakeSolutionLemmas
import ChalkModel.Lemmas.ShiftPure

/-!
  Linearity of the anti-unifier's results, and "structural instance = instance" for linear patterns.

  * `vars0` lists, left to right, the pattern variables `^0.i` of a term at the positions the
    anti-unifier (`auTy`/`auConst`/`auLifetime`) looks at: it recurses into `app/proj/opaque`
    arguments, `slice`, `raw`, `ref` (lifetime and type), `array` (element type and length constant);
    `dyn`, `function`, inference variables and all scalars are leaves, and so are the TYPES carried by
    constants (`auConst` copies the type of its first argument, it never aggregates it).
  * `top0`: every pattern variable at those positions has de Bruijn depth 0.
  * `bindings r t`: the (index, matched subterm) pairs of a structural match of `t` against `r`.
  * `ctAgree r t`: where `r` and `t` run in parallel and `r` has a NON-variable constant, the two
    constants carry the same type, and that type has no free bound variable.  (`genOf` does not
    compare constant types, and neither does the Rust code; well-typed answers to one query satisfy
    this: constant types are closed scalar types.)
-/
namespace Chalk

/-! ### variables -/

def Lifetime.vars0 : Lifetime → List Nat
  | .bound db i => if db = 0 then [i] else []
  | _ => []

def Const.vars0 : Const → List Nat
  | .mk _ (.bound db i) => if db = 0 then [i] else []
  | _ => []

mutual
  def Ty.vars0 : Ty → List Nat
    | .bound db i => if db = 0 then [i] else []
    | .app _ a => a.vars0
    | .proj _ a => a.vars0
    | .opaque _ a => a.vars0
    | .slice t => t.vars0
    | .raw _ t => t.vars0
    | .ref _ l t => l.vars0 ++ t.vars0
    | .array t c => t.vars0 ++ c.vars0
    | _ => []
  def GArg.vars0 : GArg → List Nat
    | .ty t => t.vars0
    | .lt l => l.vars0
    | .ct c => c.vars0
  def Args.vars0 : Args → List Nat
    | .nil => []
    | .cons a as => a.vars0 ++ as.vars0
end

def Lifetime.top0 : Lifetime → Bool
  | .bound db _ => db == 0
  | _ => true

def Const.top0 : Const → Bool
  | .mk _ (.bound db _) => db == 0
  | _ => true

mutual
  def Ty.top0 : Ty → Bool
    | .bound db _ => db == 0
    | .app _ a => a.top0
    | .proj _ a => a.top0
    | .opaque _ a => a.top0
    | .slice t => t.top0
    | .raw _ t => t.top0
    | .ref _ l t => l.top0 && t.top0
    | .array t c => t.top0 && c.top0
    | _ => true
  def GArg.top0 : GArg → Bool
    | .ty t => t.top0
    | .lt l => l.top0
    | .ct c => c.top0
  def Args.top0 : Args → Bool
    | .nil => true
    | .cons a as => a.top0 && as.top0
end

/-- no pattern variable `^0.i` occurs twice -/
def Ty.Linear (t : Ty) : Prop := t.vars0.Nodup
def GArg.Linear (t : GArg) : Prop := t.vars0.Nodup
def Args.Linear (t : Args) : Prop := t.vars0.Nodup

instance (t : Ty) : Decidable t.Linear := inferInstanceAs (Decidable (t.vars0.Nodup))
instance (t : GArg) : Decidable t.Linear := inferInstanceAs (Decidable (t.vars0.Nodup))
instance (t : Args) : Decidable t.Linear := inferInstanceAs (Decidable (t.vars0.Nodup))

/-! ### bindings of a structural match -/

def Lifetime.bindings : Lifetime → Lifetime → List (Nat × GArg)
  | .bound _ i, t => [(i, .lt t)]
  | _, _ => []

def Const.bindings : Const → Const → List (Nat × GArg)
  | .mk _ (.bound _ i), c => [(i, .ct c)]
  | _, _ => []

mutual
  def Ty.bindings : Ty → Ty → List (Nat × GArg)
    | .bound _ i, t => [(i, .ty t)]
    | .app _ a, .app _ a' => a.bindings a'
    | .proj _ a, .proj _ a' => a.bindings a'
    | .opaque _ a, .opaque _ a' => a.bindings a'
    | .slice t, .slice t' => t.bindings t'
    | .raw _ t, .raw _ t' => t.bindings t'
    | .ref _ l t, .ref _ l' t' => l.bindings l' ++ t.bindings t'
    | .array t c, .array t' c' => t.bindings t' ++ c.bindings c'
    | _, _ => []
  def GArg.bindings : GArg → GArg → List (Nat × GArg)
    | .ty r, .ty t => r.bindings t
    | .lt r, .lt t => r.bindings t
    | .ct r, .ct t => r.bindings t
    | _, _ => []
  def Args.bindings : Args → Args → List (Nat × GArg)
    | .cons r rs, .cons t ts => r.bindings t ++ rs.bindings ts
    | _, _ => []
end

/-! ### terms without free bound variables (under `o` binders of their own) -/

def Lifetime.noFree (o : Nat) : Lifetime → Bool
  | .bound db _ => db < o
  | _ => true

mutual
  def Ty.noFree (o : Nat) : Ty → Bool
    | .app _ a => a.noFree o
    | .scalar _ => true | .str => true | .never => true | .foreign _ => true | .error => true
    | .array t c => t.noFree o && c.noFree o
    | .slice t => t.noFree o
    | .raw _ t => t.noFree o
    | .ref _ l t => l.noFree o && t.noFree o
    | .placeholder _ _ => true
    | .dyn _ b l => b.noFree (o + 1) && l.noFree o
    | .proj _ a => a.noFree o
    | .opaque _ a => a.noFree o
    | .function _ _ a => a.noFree (o + 1)
    | .bound db _ => db < o
    | .infer _ _ => true
  def Const.noFree (o : Nat) : Const → Bool
    | .mk _ (.bound db _) => db < o
    | .mk ty _ => ty.noFree o
  def GArg.noFree (o : Nat) : GArg → Bool
    | .ty t => t.noFree o
    | .lt l => l.noFree o
    | .ct c => c.noFree o
  def Args.noFree (o : Nat) : Args → Bool
    | .nil => true
    | .cons a as => a.noFree o && as.noFree o
  def WC.noFree (o : Nat) : WC → Bool
    | .implemented _ a => a.noFree o
    | .aliasEqProj _ a t => a.noFree o && t.noFree o
    | .aliasEqOpaque _ a t => a.noFree o && t.noFree o
    | .ltOutlives a b => a.noFree o && b.noFree o
    | .tyOutlives t l => t.noFree o && l.noFree o
  def QWC.noFree (o : Nat) : QWC → Bool
    | .mk _ w => w.noFree (o + 1)
  def QWCs.noFree (o : Nat) : QWCs → Bool
    | .nil => true
    | .cons q qs => q.noFree o && qs.noFree o
end

/-! ### agreement of constant types -/

def Const.ctAgree : Const → Const → Bool
  | .mk _ (.bound _ _), _ => true
  | .mk ty _, .mk ty' _ => ty == ty' && ty.noFree 0

mutual
  def Ty.ctAgree : Ty → Ty → Bool
    | .bound _ _, _ => true
    | .app _ a, .app _ a' => a.ctAgree a'
    | .proj _ a, .proj _ a' => a.ctAgree a'
    | .opaque _ a, .opaque _ a' => a.ctAgree a'
    | .slice t, .slice t' => t.ctAgree t'
    | .raw _ t, .raw _ t' => t.ctAgree t'
    | .ref _ _ t, .ref _ _ t' => t.ctAgree t'
    | .array t c, .array t' c' => t.ctAgree t' && c.ctAgree c'
    | _, _ => true
  def GArg.ctAgree : GArg → GArg → Bool
    | .ty r, .ty t => r.ctAgree t
    | .ct r, .ct t => r.ctAgree t
    | _, _ => true
  def Args.ctAgree : Args → Args → Bool
    | .cons r rs, .cons t ts => r.ctAgree t && rs.ctAgree ts
    | _, _ => true
end

/-! ### shifting by 0 is the identity -/

theorem Lifetime.shift_zero (c : Nat) (l : Lifetime) : l.shift 0 c = l := by
  cases l <;> simp [Lifetime.shift]

mutual
  theorem Ty.shift_zero (c : Nat) : (t : Ty) → t.shift 0 c = t
    | .app n a => by simp [Ty.shift, Args.shift_zero c a]
    | .scalar _ => by simp [Ty.shift]
    | .str => by simp [Ty.shift]
    | .never => by simp [Ty.shift]
    | .foreign _ => by simp [Ty.shift]
    | .error => by simp [Ty.shift]
    | .array t k => by simp [Ty.shift, Ty.shift_zero c t, Const.shift_zero c k]
    | .slice t => by simp [Ty.shift, Ty.shift_zero c t]
    | .raw _ t => by simp [Ty.shift, Ty.shift_zero c t]
    | .ref _ l t => by simp [Ty.shift, Ty.shift_zero c t, Lifetime.shift_zero]
    | .placeholder _ _ => by simp [Ty.shift]
    | .dyn _ b l => by simp [Ty.shift, QWCs.shift_zero (c + 1) b, Lifetime.shift_zero]
    | .proj _ a => by simp [Ty.shift, Args.shift_zero c a]
    | .opaque _ a => by simp [Ty.shift, Args.shift_zero c a]
    | .function _ _ a => by simp [Ty.shift, Args.shift_zero (c + 1) a]
    | .bound _ _ => by simp [Ty.shift]
    | .infer _ _ => by simp [Ty.shift]
  theorem Const.shift_zero (c : Nat) : (k : Const) → k.shift 0 c = k
    | .mk ty (.bound _ _) => by simp [Const.shift]
    | .mk ty (.infer _) => by simp [Const.shift, Ty.shift_zero c ty]
    | .mk ty (.placeholder _ _) => by simp [Const.shift, Ty.shift_zero c ty]
    | .mk ty (.concrete _) => by simp [Const.shift, Ty.shift_zero c ty]
  theorem GArg.shift_zero (c : Nat) : (a : GArg) → a.shift 0 c = a
    | .ty t => by simp [GArg.shift, Ty.shift_zero c t]
    | .lt l => by simp [GArg.shift, Lifetime.shift_zero]
    | .ct k => by simp [GArg.shift, Const.shift_zero c k]
  theorem Args.shift_zero (c : Nat) : (a : Args) → a.shift 0 c = a
    | .nil => by simp [Args.shift]
    | .cons x xs => by simp [Args.shift, GArg.shift_zero c x, Args.shift_zero c xs]
  theorem WC.shift_zero (c : Nat) : (w : WC) → w.shift 0 c = w
    | .implemented _ a => by simp [WC.shift, Args.shift_zero c a]
    | .aliasEqProj _ a t => by simp [WC.shift, Args.shift_zero c a, Ty.shift_zero c t]
    | .aliasEqOpaque _ a t => by simp [WC.shift, Args.shift_zero c a, Ty.shift_zero c t]
    | .ltOutlives _ _ => by simp [WC.shift, Lifetime.shift_zero]
    | .tyOutlives t _ => by simp [WC.shift, Ty.shift_zero c t, Lifetime.shift_zero]
  theorem QWC.shift_zero (c : Nat) : (q : QWC) → q.shift 0 c = q
    | .mk _ w => by simp [QWC.shift, WC.shift_zero (c + 1) w]
  theorem QWCs.shift_zero (c : Nat) : (q : QWCs) → q.shift 0 c = q
    | .nil => by simp [QWCs.shift]
    | .cons q qs => by simp [QWCs.shift, QWC.shift_zero c q, QWCs.shift_zero c qs]
end

/-! ### substitution leaves terms without free variables alone -/

@[simp] theorem substFolder_inferTy (θ : List GArg) : (substFolder θ).inferTy = none := rfl
@[simp] theorem substFolder_inferLt (θ : List GArg) : (substFolder θ).inferLt = none := rfl
@[simp] theorem substFolder_inferConst (θ : List GArg) : (substFolder θ).inferConst = none := rfl
@[simp] theorem substFolder_phTy (θ : List GArg) : (substFolder θ).phTy = none := rfl
@[simp] theorem substFolder_phLt (θ : List GArg) : (substFolder θ).phLt = none := rfl
@[simp] theorem substFolder_phConst (θ : List GArg) : (substFolder θ).phConst = none := rfl

theorem foldLifetime_subst_noFree (θ : List GArg) (o : Nat) (l : Lifetime) (h : l.noFree o = true) :
    foldLifetime (substFolder θ) o l = .ok l := by
  cases l <;> simp [foldLifetime]
  case bound db idx =>
    simp [Lifetime.noFree] at h
    intro h'; omega

mutual
  theorem foldTy_subst_noFree (θ : List GArg) (o : Nat) : (t : Ty) → t.noFree o = true →
      foldTy (substFolder θ) o t = .ok t
    | .app n a, h => by
        simp only [Ty.noFree] at h
        simp [foldTy, foldArgs_subst_noFree θ o a h]
    | .scalar _, _ => by simp [foldTy]
    | .str, _ => by simp [foldTy]
    | .never, _ => by simp [foldTy]
    | .foreign _, _ => by simp [foldTy]
    | .error, _ => by simp [foldTy]
    | .array t k, h => by
        simp only [Ty.noFree, Bool.and_eq_true] at h
        simp [foldTy, foldTy_subst_noFree θ o t h.1, foldConst_subst_noFree θ o k h.2]
    | .slice t, h => by
        simp only [Ty.noFree] at h
        simp [foldTy, foldTy_subst_noFree θ o t h]
    | .raw _ t, h => by
        simp only [Ty.noFree] at h
        simp [foldTy, foldTy_subst_noFree θ o t h]
    | .ref _ l t, h => by
        simp only [Ty.noFree, Bool.and_eq_true] at h
        simp [foldTy, foldTy_subst_noFree θ o t h.2, foldLifetime_subst_noFree θ o l h.1]
    | .placeholder _ _, _ => by simp [foldTy]
    | .dyn _ b l, h => by
        simp only [Ty.noFree, Bool.and_eq_true] at h
        simp [foldTy, foldQWCs_subst_noFree θ (o + 1) b h.1, foldLifetime_subst_noFree θ o l h.2]
    | .proj _ a, h => by
        simp only [Ty.noFree] at h
        simp [foldTy, foldArgs_subst_noFree θ o a h]
    | .opaque _ a, h => by
        simp only [Ty.noFree] at h
        simp [foldTy, foldArgs_subst_noFree θ o a h]
    | .function _ _ a, h => by
        simp only [Ty.noFree] at h
        simp [foldTy, foldArgs_subst_noFree θ (o + 1) a h]
    | .bound db _, h => by
        simp [Ty.noFree] at h
        simp [foldTy]
        intro h'; omega
    | .infer _ _, _ => by simp [foldTy]
  theorem foldConst_subst_noFree (θ : List GArg) (o : Nat) : (k : Const) → k.noFree o = true →
      foldConst (substFolder θ) o k = .ok k
    | .mk ty (.bound db _), h => by
        simp [Const.noFree] at h
        simp [foldConst]
        intro h'; omega
    | .mk ty (.infer _), h => by
        simp only [Const.noFree] at h
        simp [foldConst, foldTy_subst_noFree θ o ty h]
    | .mk ty (.placeholder _ _), h => by
        simp only [Const.noFree] at h
        simp [foldConst, foldTy_subst_noFree θ o ty h]
    | .mk ty (.concrete _), h => by
        simp only [Const.noFree] at h
        simp [foldConst, foldTy_subst_noFree θ o ty h]
  theorem foldGArg_subst_noFree (θ : List GArg) (o : Nat) : (a : GArg) → a.noFree o = true →
      foldGArg (substFolder θ) o a = .ok a
    | .ty t, h => by
        simp only [GArg.noFree] at h
        simp [foldGArg, foldTy_subst_noFree θ o t h]
    | .lt l, h => by
        simp only [GArg.noFree] at h
        simp [foldGArg, foldLifetime_subst_noFree θ o l h]
    | .ct k, h => by
        simp only [GArg.noFree] at h
        simp [foldGArg, foldConst_subst_noFree θ o k h]
  theorem foldArgs_subst_noFree (θ : List GArg) (o : Nat) : (a : Args) → a.noFree o = true →
      foldArgs (substFolder θ) o a = .ok a
    | .nil, _ => by simp [foldArgs]
    | .cons x xs, h => by
        simp only [Args.noFree, Bool.and_eq_true] at h
        simp [foldArgs, foldGArg_subst_noFree θ o x h.1, foldArgs_subst_noFree θ o xs h.2]
  theorem foldWC_subst_noFree (θ : List GArg) (o : Nat) : (w : WC) → w.noFree o = true →
      foldWC (substFolder θ) o w = .ok w
    | .implemented _ a, h => by
        simp only [WC.noFree] at h
        simp [foldWC, foldArgs_subst_noFree θ o a h]
    | .aliasEqProj _ a t, h => by
        simp only [WC.noFree, Bool.and_eq_true] at h
        simp [foldWC, foldArgs_subst_noFree θ o a h.1, foldTy_subst_noFree θ o t h.2]
    | .aliasEqOpaque _ a t, h => by
        simp only [WC.noFree, Bool.and_eq_true] at h
        simp [foldWC, foldArgs_subst_noFree θ o a h.1, foldTy_subst_noFree θ o t h.2]
    | .ltOutlives a b, h => by
        simp only [WC.noFree, Bool.and_eq_true] at h
        simp [foldWC, foldLifetime_subst_noFree θ o a h.1, foldLifetime_subst_noFree θ o b h.2]
    | .tyOutlives t l, h => by
        simp only [WC.noFree, Bool.and_eq_true] at h
        simp [foldWC, foldTy_subst_noFree θ o t h.1, foldLifetime_subst_noFree θ o l h.2]
  theorem foldQWC_subst_noFree (θ : List GArg) (o : Nat) : (q : QWC) → q.noFree o = true →
      foldQWC (substFolder θ) o q = .ok q
    | .mk _ w, h => by
        simp only [QWC.noFree] at h
        simp [foldQWC, foldWC_subst_noFree θ (o + 1) w h]
  theorem foldQWCs_subst_noFree (θ : List GArg) (o : Nat) : (q : QWCs) → q.noFree o = true →
      foldQWCs (substFolder θ) o q = .ok q
    | .nil, _ => by simp [foldQWCs]
    | .cons q qs, h => by
        simp only [QWCs.noFree, Bool.and_eq_true] at h
        simp [foldQWCs, foldQWC_subst_noFree θ o q h.1, foldQWCs_subst_noFree θ o qs h.2]
end

/-! ### a substitution that realises the bindings of a structural match maps the pattern to the term -/

theorem Lifetime.subst_of_bindings (θ : List GArg) (r t : Lifetime) (hg : r.genOf t = true)
    (h0 : r.top0 = true) (hb : ∀ p, p ∈ r.bindings t → θ[p.1]? = some p.2) :
    foldLifetime (substFolder θ) 0 r = .ok t := by
  cases r with
  | bound db i =>
    simp [Lifetime.top0] at h0
    subst h0
    have := hb (i, .lt t) (by simp [Lifetime.bindings])
    simp at this
    rw [foldLifetime]
    simp only [substFolder, Nat.le_refl, if_true, Nat.sub_zero, this]
    rw [foldLifetime_shifter, Lifetime.shift_zero]
  | _ => simp [Lifetime.genOf] at hg; subst hg; simp [foldLifetime]

theorem Const.subst_of_bindings (θ : List GArg) (r t : Const) (hg : r.genOf t = true)
    (h0 : r.top0 = true) (hc : r.ctAgree t = true) (hb : ∀ p, p ∈ r.bindings t → θ[p.1]? = some p.2) :
    foldConst (substFolder θ) 0 r = .ok t := by
  obtain ⟨ty, v⟩ := r
  obtain ⟨ty', v'⟩ := t
  cases v with
  | bound db i =>
    simp [Const.top0] at h0
    subst h0
    have := hb (i, .ct (.mk ty' v')) (by simp [Const.bindings])
    simp at this
    simp [foldConst, substFolder, this, foldConst_shifter, Const.shift_zero]
  | infer v =>
    simp [Const.genOf] at hg; subst hg
    simp [Const.ctAgree] at hc
    obtain ⟨h1, h2⟩ := hc; subst h1
    simp [foldConst, foldTy_subst_noFree θ 0 ty h2]
  | placeholder u i =>
    simp [Const.genOf] at hg; subst hg
    simp [Const.ctAgree] at hc
    obtain ⟨h1, h2⟩ := hc; subst h1
    simp [foldConst, foldTy_subst_noFree θ 0 ty h2]
  | concrete k =>
    simp [Const.genOf] at hg; subst hg
    simp [Const.ctAgree] at hc
    obtain ⟨h1, h2⟩ := hc; subst h1
    simp [foldConst, foldTy_subst_noFree θ 0 ty h2]

mutual
  theorem Ty.subst_of_bindings (θ : List GArg) : (r t : Ty) → r.genOf t = true → r.top0 = true →
      r.ctAgree t = true → (∀ p, p ∈ r.bindings t → θ[p.1]? = some p.2) →
      foldTy (substFolder θ) 0 r = .ok t
    | r, t, hg, h0, hc, hb => by
        cases r with
        | bound db i =>
          simp [Ty.top0] at h0
          subst h0
          have := hb (i, .ty t) (by simp [Ty.bindings])
          simp at this
          simp [foldTy, substFolder, this, foldTy_shifter, Ty.shift_zero]
        | app n x =>
          cases t <;> simp [Ty.genOf] at hg
          rename_i n' y
          simp only [Ty.top0] at h0
          simp only [Ty.ctAgree] at hc
          simp only [Ty.bindings] at hb
          simp [foldTy, Args.subst_of_bindings θ x y hg.2 h0 hc hb, hg.1]
        | proj n x =>
          cases t <;> simp [Ty.genOf] at hg
          rename_i n' y
          simp only [Ty.top0] at h0
          simp only [Ty.ctAgree] at hc
          simp only [Ty.bindings] at hb
          simp [foldTy, Args.subst_of_bindings θ x y hg.2 h0 hc hb, hg.1]
        | «opaque» n x =>
          cases t <;> simp [Ty.genOf] at hg
          rename_i n' y
          simp only [Ty.top0] at h0
          simp only [Ty.ctAgree] at hc
          simp only [Ty.bindings] at hb
          simp [foldTy, Args.subst_of_bindings θ x y hg.2 h0 hc hb, hg.1]
        | slice x =>
          cases t <;> simp [Ty.genOf] at hg
          rename_i y
          simp only [Ty.top0] at h0
          simp only [Ty.ctAgree] at hc
          simp only [Ty.bindings] at hb
          simp [foldTy, Ty.subst_of_bindings θ x y hg h0 hc hb]
        | raw m x =>
          cases t <;> simp [Ty.genOf] at hg
          rename_i m' y
          simp only [Ty.top0] at h0
          simp only [Ty.ctAgree] at hc
          simp only [Ty.bindings] at hb
          simp [foldTy, Ty.subst_of_bindings θ x y hg.2 h0 hc hb, hg.1]
        | ref m l x =>
          cases t <;> simp [Ty.genOf] at hg
          rename_i m' l' y
          simp only [Ty.top0, Bool.and_eq_true] at h0
          simp only [Ty.ctAgree] at hc
          simp only [Ty.bindings, List.mem_append] at hb
          have h1 := Lifetime.subst_of_bindings θ l l' hg.1.2 h0.1 (fun p hp => hb p (Or.inl hp))
          have h2 := Ty.subst_of_bindings θ x y hg.2 h0.2 hc (fun p hp => hb p (Or.inr hp))
          simp [foldTy, h1, h2, hg.1.1]
        | array x k =>
          cases t <;> simp [Ty.genOf] at hg
          rename_i y k'
          simp only [Ty.top0, Bool.and_eq_true] at h0
          simp only [Ty.ctAgree, Bool.and_eq_true] at hc
          simp only [Ty.bindings, List.mem_append] at hb
          have h1 := Ty.subst_of_bindings θ x y hg.1 h0.1 hc.1 (fun p hp => hb p (Or.inl hp))
          have h2 := Const.subst_of_bindings θ k k' hg.2 h0.2 hc.2 (fun p hp => hb p (Or.inr hp))
          simp [foldTy, h1, h2]
        | scalar s => cases t <;> simp [Ty.genOf] at hg; simp [foldTy, hg]
        | foreign s => cases t <;> simp [Ty.genOf] at hg; simp [foldTy, hg]
        | placeholder u i => cases t <;> simp [Ty.genOf] at hg; simp [foldTy, hg.1, hg.2]
        | str => cases t <;> simp [Ty.genOf] at hg; simp [foldTy]
        | never => cases t <;> simp [Ty.genOf] at hg; simp [foldTy]
        | error => cases t <;> simp [Ty.genOf] at hg; simp [foldTy]
        | _ => simp [Ty.genOf] at hg
  theorem GArg.subst_of_bindings (θ : List GArg) : (r t : GArg) → r.genOf t = true → r.top0 = true →
      r.ctAgree t = true → (∀ p, p ∈ r.bindings t → θ[p.1]? = some p.2) →
      foldGArg (substFolder θ) 0 r = .ok t
    | .ty r, .ty t, hg, h0, hc, hb => by
        simp only [GArg.genOf] at hg
        simp only [GArg.top0] at h0
        simp only [GArg.ctAgree] at hc
        simp only [GArg.bindings] at hb
        simp [foldGArg, Ty.subst_of_bindings θ r t hg h0 hc hb]
    | .lt r, .lt t, hg, h0, _, hb => by
        simp only [GArg.genOf] at hg
        simp only [GArg.top0] at h0
        simp only [GArg.bindings] at hb
        simp [foldGArg, Lifetime.subst_of_bindings θ r t hg h0 hb]
    | .ct r, .ct t, hg, h0, hc, hb => by
        simp only [GArg.genOf] at hg
        simp only [GArg.top0] at h0
        simp only [GArg.ctAgree] at hc
        simp only [GArg.bindings] at hb
        simp [foldGArg, Const.subst_of_bindings θ r t hg h0 hc hb]
    | .ty _, .lt _, hg, _, _, _ => by simp [GArg.genOf] at hg
    | .ty _, .ct _, hg, _, _, _ => by simp [GArg.genOf] at hg
    | .lt _, .ty _, hg, _, _, _ => by simp [GArg.genOf] at hg
    | .lt _, .ct _, hg, _, _, _ => by simp [GArg.genOf] at hg
    | .ct _, .ty _, hg, _, _, _ => by simp [GArg.genOf] at hg
    | .ct _, .lt _, hg, _, _, _ => by simp [GArg.genOf] at hg
  theorem Args.subst_of_bindings (θ : List GArg) : (r t : Args) → r.genOf t = true → r.top0 = true →
      r.ctAgree t = true → (∀ p, p ∈ r.bindings t → θ[p.1]? = some p.2) →
      foldArgs (substFolder θ) 0 r = .ok t
    | .nil, .nil, _, _, _, _ => by simp [foldArgs]
    | .cons r rs, .cons t ts, hg, h0, hc, hb => by
        simp only [Args.genOf, Bool.and_eq_true] at hg
        simp only [Args.top0, Bool.and_eq_true] at h0
        simp only [Args.ctAgree, Bool.and_eq_true] at hc
        simp only [Args.bindings, List.mem_append] at hb
        have h1 := GArg.subst_of_bindings θ r t hg.1 h0.1 hc.1 (fun p hp => hb p (Or.inl hp))
        have h2 := Args.subst_of_bindings θ rs ts hg.2 h0.2 hc.2 (fun p hp => hb p (Or.inr hp))
        simp [foldArgs, h1, h2]
    | .nil, .cons _ _, hg, _, _, _ => by simp [Args.genOf] at hg
    | .cons _ _, .nil, hg, _, _, _ => by simp [Args.genOf] at hg
end

/-! ### the keys of the bindings are the pattern's variables -/

theorem Lifetime.bindings_keys (r t : Lifetime) (h0 : r.top0 = true) :
    (r.bindings t).map Prod.fst = r.vars0 := by
  cases r <;> simp [Lifetime.bindings, Lifetime.vars0]
  simp [Lifetime.top0] at h0; simp [h0]

theorem Const.bindings_keys (r t : Const) (h0 : r.top0 = true) :
    (r.bindings t).map Prod.fst = r.vars0 := by
  obtain ⟨ty, v⟩ := r
  cases v <;> simp [Const.bindings, Const.vars0]
  simp [Const.top0] at h0; simp [h0]

mutual
  theorem Ty.bindings_keys : (r t : Ty) → r.genOf t = true → r.top0 = true →
      (r.bindings t).map Prod.fst = r.vars0
    | r, t, hg, h0 => by
        cases r with
        | bound db i => simp [Ty.top0] at h0; simp [Ty.bindings, Ty.vars0, h0]
        | app n x =>
          cases t <;> simp [Ty.genOf] at hg
          rename_i n' y
          simp only [Ty.top0] at h0
          simp [Ty.bindings, Ty.vars0, Args.bindings_keys x y hg.2 h0]
        | proj n x =>
          cases t <;> simp [Ty.genOf] at hg
          rename_i n' y
          simp only [Ty.top0] at h0
          simp [Ty.bindings, Ty.vars0, Args.bindings_keys x y hg.2 h0]
        | «opaque» n x =>
          cases t <;> simp [Ty.genOf] at hg
          rename_i n' y
          simp only [Ty.top0] at h0
          simp [Ty.bindings, Ty.vars0, Args.bindings_keys x y hg.2 h0]
        | slice x =>
          cases t <;> simp [Ty.genOf] at hg
          rename_i y
          simp only [Ty.top0] at h0
          simp [Ty.bindings, Ty.vars0, Ty.bindings_keys x y hg h0]
        | raw m x =>
          cases t <;> simp [Ty.genOf] at hg
          rename_i m' y
          simp only [Ty.top0] at h0
          simp [Ty.bindings, Ty.vars0, Ty.bindings_keys x y hg.2 h0]
        | ref m l x =>
          cases t <;> simp [Ty.genOf] at hg
          rename_i m' l' y
          simp only [Ty.top0, Bool.and_eq_true] at h0
          simp [Ty.bindings, Ty.vars0, Ty.bindings_keys x y hg.2 h0.2, Lifetime.bindings_keys l l' h0.1]
        | array x k =>
          cases t <;> simp [Ty.genOf] at hg
          rename_i y k'
          simp only [Ty.top0, Bool.and_eq_true] at h0
          simp [Ty.bindings, Ty.vars0, Ty.bindings_keys x y hg.1 h0.1, Const.bindings_keys k k' h0.2]
        | scalar s => cases t <;> simp [Ty.bindings, Ty.vars0]
        | foreign s => cases t <;> simp [Ty.bindings, Ty.vars0]
        | placeholder u i => cases t <;> simp [Ty.bindings, Ty.vars0]
        | str => cases t <;> simp [Ty.bindings, Ty.vars0]
        | never => cases t <;> simp [Ty.bindings, Ty.vars0]
        | error => cases t <;> simp [Ty.bindings, Ty.vars0]
        | _ => simp [Ty.genOf] at hg
  theorem GArg.bindings_keys : (r t : GArg) → r.genOf t = true → r.top0 = true →
      (r.bindings t).map Prod.fst = r.vars0
    | .ty r, .ty t, hg, h0 => by
        simp only [GArg.genOf] at hg
        simp only [GArg.top0] at h0
        simp [GArg.bindings, GArg.vars0, Ty.bindings_keys r t hg h0]
    | .lt r, .lt t, _, h0 => by
        simp only [GArg.top0] at h0
        simp [GArg.bindings, GArg.vars0, Lifetime.bindings_keys r t h0]
    | .ct r, .ct t, _, h0 => by
        simp only [GArg.top0] at h0
        simp [GArg.bindings, GArg.vars0, Const.bindings_keys r t h0]
    | .ty _, .lt _, hg, _ => by simp [GArg.genOf] at hg
    | .ty _, .ct _, hg, _ => by simp [GArg.genOf] at hg
    | .lt _, .ty _, hg, _ => by simp [GArg.genOf] at hg
    | .lt _, .ct _, hg, _ => by simp [GArg.genOf] at hg
    | .ct _, .ty _, hg, _ => by simp [GArg.genOf] at hg
    | .ct _, .lt _, hg, _ => by simp [GArg.genOf] at hg
  theorem Args.bindings_keys : (r t : Args) → r.genOf t = true → r.top0 = true →
      (r.bindings t).map Prod.fst = r.vars0
    | .nil, .nil, _, _ => by simp [Args.bindings, Args.vars0]
    | .cons r rs, .cons t ts, hg, h0 => by
        simp only [Args.genOf, Bool.and_eq_true] at hg
        simp only [Args.top0, Bool.and_eq_true] at h0
        simp [Args.bindings, Args.vars0, GArg.bindings_keys r t hg.1 h0.1, Args.bindings_keys rs ts hg.2 h0.2]
    | .nil, .cons _ _, hg, _ => by simp [Args.genOf] at hg
    | .cons _ _, .nil, hg, _ => by simp [Args.genOf] at hg
end

/-! ### a list of bindings with distinct keys below `n` is realised by a substitution of length `n` -/

theorem exists_subst_of_bindings (n : Nat) : (bs : List (Nat × GArg)) → (bs.map Prod.fst).Nodup →
    (∀ p, p ∈ bs → p.1 < n) →
    ∃ θ : List GArg, θ.length = n ∧ ∀ p, p ∈ bs → θ[p.1]? = some p.2
  | [], _, _ => ⟨List.replicate n (.lt .static), by simp, by simp⟩
  | (i, g) :: bs, hnd, hlt => by
      simp only [List.map_cons, List.nodup_cons] at hnd
      obtain ⟨θ, hl, hθ⟩ := exists_subst_of_bindings n bs hnd.2 (fun p hp => hlt p (List.mem_cons_of_mem _ hp))
      refine ⟨θ.set i g, by simp [hl], ?_⟩
      intro p hp
      rcases List.mem_cons.mp hp with e | hp'
      · subst e
        have : i < θ.length := by rw [hl]; exact hlt (i, g) (List.mem_cons_self ..)
        simp [this]
      · have hne : i ≠ p.1 := by
          intro e
          apply hnd.1
          rw [e]
          exact List.mem_map_of_mem hp'
        simp [hne, hθ p hp']

/-! ### for a LINEAR pattern, structural instance is instance -/

theorem Args.genOf_linear_instance (r t : Args) (n : Nat) (hlin : r.Linear) (hg : r.genOf t = true)
    (h0 : r.top0 = true) (hc : r.ctAgree t = true) (hn : ∀ i, i ∈ r.vars0 → i < n) :
    ∃ θ : List GArg, θ.length = n ∧ r.subst θ = .ok t := by
  have hk := Args.bindings_keys r t hg h0
  obtain ⟨θ, hl, hθ⟩ := exists_subst_of_bindings n (r.bindings t) (by rw [hk]; exact hlin)
    (fun p hp => hn p.1 (by rw [← hk]; exact List.mem_map_of_mem hp))
  exact ⟨θ, hl, Args.subst_of_bindings θ r t hg h0 hc hθ⟩

theorem Ty.genOf_linear_instance (r t : Ty) (n : Nat) (hlin : r.Linear) (hg : r.genOf t = true)
    (h0 : r.top0 = true) (hc : r.ctAgree t = true) (hn : ∀ i, i ∈ r.vars0 → i < n) :
    ∃ θ : List GArg, θ.length = n ∧ r.subst θ = .ok t := by
  have hk := Ty.bindings_keys r t hg h0
  obtain ⟨θ, hl, hθ⟩ := exists_subst_of_bindings n (r.bindings t) (by rw [hk]; exact hlin)
    (fun p hp => hn p.1 (by rw [← hk]; exact List.mem_map_of_mem hp))
  exact ⟨θ, hl, Ty.subst_of_bindings θ r t hg h0 hc hθ⟩

/-! ### the anti-unifier's results: the variables are exactly the fresh indices, once each, in order -/

/-- `vs` is the list of the indices created between the states `st` and `st'` -/
def AuFresh (st st' : AuSt) (vs : List Nat) : Prop :=
  st.length ≤ st'.length ∧ vs = List.range' st.length (st'.length - st.length)

theorem AuFresh.refl (st : AuSt) : AuFresh st st [] := by simp [AuFresh]

theorem AuFresh.one (st : AuSt) (x : VarKind × Nat) : AuFresh st (st ++ [x]) [st.length] := by
  simp [AuFresh, List.range'_succ]

theorem AuFresh.append {s1 s2 s3 : AuSt} {v1 v2 : List Nat} (h1 : AuFresh s1 s2 v1) (h2 : AuFresh s2 s3 v2) :
    AuFresh s1 s3 (v1 ++ v2) := by
  obtain ⟨a1, b1⟩ := h1
  obtain ⟨a2, b2⟩ := h2
  refine ⟨Nat.le_trans a1 a2, ?_⟩
  subst b1 b2
  have := @List.range'_append s1.length (s2.length - s1.length) (s3.length - s2.length) 1
  simp only [Nat.one_mul] at this
  rw [show s1.length + (s2.length - s1.length) = s2.length by omega] at this
  rw [this]
  congr 1
  omega

theorem AuFresh.nodup {st st' : AuSt} {vs : List Nat} (h : AuFresh st st' vs) : vs.Nodup := by
  rw [h.2]; exact List.nodup_range' 1

theorem AuFresh.lt {st st' : AuSt} {vs : List Nat} (h : AuFresh st st' vs) : ∀ i, i ∈ vs → i < st'.length := by
  intro i hi
  rw [h.2, List.mem_range'] at hi
  obtain ⟨k, hk, e⟩ := hi
  have := h.1
  omega

theorem auLifetime_spec {u : Nat} {l1 l2 r : Lifetime} {st st' : AuSt}
    (h : auLifetime u l1 l2 st = (r, st')) : AuFresh st st' r.vars0 ∧ r.top0 = true := by
  unfold auLifetime at h
  split at h
  · simp [newLtVar] at h; simp [← h.1, ← h.2, Lifetime.vars0, Lifetime.top0, AuFresh.one]
  · simp [newLtVar] at h; simp [← h.1, ← h.2, Lifetime.vars0, Lifetime.top0, AuFresh.one]
  · split at h
    · simp at h
      rw [← h.1, ← h.2]
      cases l1 with
      | bound db i => rename_i hx _; exact (hx db i rfl).elim
      | _ => simp [Lifetime.vars0, Lifetime.top0, AuFresh.refl]
    · simp [newLtVar] at h; simp [← h.1, ← h.2, Lifetime.vars0, Lifetime.top0, AuFresh.one]

theorem newCtVar_spec (u : Nat) (ty : Ty) (st : AuSt) (c1 c2 : Const) :
    AuFresh st (newCtVar u ty st).2 (newCtVar u ty st).1.vars0 ∧ (newCtVar u ty st).1.top0 = true ∧
      (newCtVar u ty st).1.ctAgree c1 = true ∧ (newCtVar u ty st).1.ctAgree c2 = true := by
  simp [newCtVar, Const.vars0, Const.top0, Const.ctAgree, AuFresh.one]

theorem auConst_spec {u : Nat} {c1 c2 r : Const} {st st' : AuSt}
    (h : auConst u c1 c2 st = (r, st')) :
    AuFresh st st' r.vars0 ∧ r.top0 = true ∧
      (c1.ctAgree c2 = true → r.ctAgree c1 = true ∧ r.ctAgree c2 = true) := by
  unfold auConst at h
  split at h
  rename_i ty v1 ty2 v2
  have key : ∀ (c1 c2 : Const), (newCtVar u ty st) = (r, st') → AuFresh st st' r.vars0 ∧ r.top0 = true ∧
      (c1.ctAgree c2 = true → r.ctAgree c1 = true ∧ r.ctAgree c2 = true) := by
    intro c1 c2 e
    have := newCtVar_spec u ty st c1 c2
    rw [e] at this
    exact ⟨this.1, this.2.1, fun _ => this.2.2⟩
  split at h
  all_goals (try (exact key _ _ h))
  · split at h
    · rename_i heq
      simp at h
      rw [← h.1, ← h.2]
      injection heq with e1 e2
      subst e1
      refine ⟨by simp [Const.vars0, AuFresh.refl], by simp [Const.top0], ?_⟩
      intro hc
      simp [Const.ctAgree] at hc ⊢
      exact hc
    · exact key _ _ h
  · split at h
    · rename_i heq
      simp at h
      rw [← h.1, ← h.2]
      refine ⟨by simp [Const.vars0, AuFresh.refl], by simp [Const.top0], ?_⟩
      intro hc
      simp [Const.ctAgree] at hc ⊢
      exact ⟨hc.2, hc⟩
    · exact key _ _ h

/-- what the anti-unifier guarantees about its result `r` (state `st` before, `st'` after): the
    variables of `r` are the fresh indices in order, all at depth 0, and constant types stay in
    agreement when they were -/
def TySpec (t1 t2 r : Ty) (st st' : AuSt) : Prop :=
  AuFresh st st' r.vars0 ∧ r.top0 = true ∧
    (t1.ctAgree t2 = true → r.ctAgree t1 = true ∧ r.ctAgree t2 = true)
def GArgSpec (t1 t2 r : GArg) (st st' : AuSt) : Prop :=
  AuFresh st st' r.vars0 ∧ r.top0 = true ∧
    (t1.ctAgree t2 = true → r.ctAgree t1 = true ∧ r.ctAgree t2 = true)
def ArgsSpec (t1 t2 r : Args) (st st' : AuSt) : Prop :=
  AuFresh st st' r.vars0 ∧ r.top0 = true ∧
    (t1.ctAgree t2 = true → r.ctAgree t1 = true ∧ r.ctAgree t2 = true)

theorem newTyVar_spec {u : Nat} {st st' : AuSt} {r : Ty} (t1 t2 : Ty)
    (h : (Except.ok (newTyVar u st) : Res (Ty × AuSt)) = .ok (r, st')) : TySpec t1 t2 r st st' := by
  simp [newTyVar] at h
  obtain ⟨h1, h2⟩ := h
  subst h1 h2
  simp [TySpec, Ty.vars0, Ty.top0, Ty.ctAgree, AuFresh.one]

mutual
  theorem auTy_spec (u : Nat) : (t1 t2 : Ty) → (st : AuSt) → (r : Ty) → (st' : AuSt) →
      auTy u t1 t2 st = .ok (r, st') → TySpec t1 t2 r st st'
    | t1, t2, st, r, st', h => by
        unfold auTy at h
        split at h
        all_goals (try (exact newTyVar_spec _ _ h))
        -- proj
        · split at h
          · split at h
            · simp at h
            · rename_i id a id' a' hid hlen
              cases ha : auArgs u a a' st with
              | error e => simp [ha] at h
              | ok p =>
                obtain ⟨ra, sa⟩ := p
                simp [ha] at h
                obtain ⟨h1, h2⟩ := h
                subst h1 h2
                have := auArgs_spec u a a' st ra sa ha
                simpa [TySpec, ArgsSpec, Ty.vars0, Ty.top0, Ty.ctAgree] using this
          · exact newTyVar_spec _ _ h
        -- opaque
        · split at h
          · split at h
            · simp at h
            · rename_i id a id' a' hid hlen
              cases ha : auArgs u a a' st with
              | error e => simp [ha] at h
              | ok p =>
                obtain ⟨ra, sa⟩ := p
                simp [ha] at h
                obtain ⟨h1, h2⟩ := h
                subst h1 h2
                have := auArgs_spec u a a' st ra sa ha
                simpa [TySpec, ArgsSpec, Ty.vars0, Ty.top0, Ty.ctAgree] using this
          · exact newTyVar_spec _ _ h
        -- placeholder
        · split at h
          · simp at h
            obtain ⟨h1, h2⟩ := h
            subst h1 h2
            simp [TySpec, Ty.vars0, Ty.top0, Ty.ctAgree, AuFresh.refl]
          · exact newTyVar_spec _ _ h
        -- app
        · split at h
          · split at h
            · simp at h
            · rename_i n a n' a' hid hlen
              cases ha : auArgs u a a' st with
              | error e => simp [ha] at h
              | ok p =>
                obtain ⟨ra, sa⟩ := p
                simp [ha] at h
                obtain ⟨h1, h2⟩ := h
                subst h1 h2
                have := auArgs_spec u a a' st ra sa ha
                simpa [TySpec, ArgsSpec, Ty.vars0, Ty.top0, Ty.ctAgree] using this
          · exact newTyVar_spec _ _ h
        -- scalar
        · split at h
          · simp at h
            obtain ⟨h1, h2⟩ := h
            subst h1 h2
            simp [TySpec, Ty.vars0, Ty.top0, Ty.ctAgree, AuFresh.refl]
          · exact newTyVar_spec _ _ h
        -- str
        · simp at h
          obtain ⟨h1, h2⟩ := h
          subst h1 h2
          simp [TySpec, Ty.vars0, Ty.top0, Ty.ctAgree, AuFresh.refl]
        -- slice
        · rename_i t t'
          cases ht : auTy u t t' st with
          | error e => simp [ht] at h
          | ok p =>
            obtain ⟨rt, s1⟩ := p
            simp [ht] at h
            obtain ⟨h1, h2⟩ := h
            subst h1 h2
            have := auTy_spec u t t' st rt s1 ht
            simpa [TySpec, Ty.vars0, Ty.top0, Ty.ctAgree] using this
        -- ref
        · split at h
          · rename_i m l t m' l' t' hm
            cases hl : auLifetime u l l' st with
            | mk rl s1 =>
              simp [hl] at h
              cases ht : auTy u t t' s1 with
              | error e => simp [ht] at h
              | ok p =>
                obtain ⟨rt, s2⟩ := p
                simp [ht] at h
                obtain ⟨h1, h2⟩ := h
                subst h1 h2
                obtain ⟨a1, a2, a3⟩ := auTy_spec u t t' s1 rt s2 ht
                obtain ⟨b1, b2⟩ := auLifetime_spec hl
                refine ⟨by simpa [Ty.vars0] using b1.append a1, by simp [Ty.top0, a2, b2], ?_⟩
                simpa [Ty.ctAgree] using a3
          · exact newTyVar_spec _ _ h
        -- raw
        · split at h
          · rename_i m t m' t' hm
            cases ht : auTy u t t' st with
            | error e => simp [ht] at h
            | ok p =>
              obtain ⟨rt, s1⟩ := p
              simp [ht] at h
              obtain ⟨h1, h2⟩ := h
              subst h1 h2
              have := auTy_spec u t t' st rt s1 ht
              simpa [TySpec, Ty.vars0, Ty.top0, Ty.ctAgree] using this
          · exact newTyVar_spec _ _ h
        -- never
        · simp at h
          obtain ⟨h1, h2⟩ := h
          subst h1 h2
          simp [TySpec, Ty.vars0, Ty.top0, Ty.ctAgree, AuFresh.refl]
        -- array
        · rename_i t c t' c'
          cases ht : auTy u t t' st with
          | error e => simp [ht] at h
          | ok p =>
            obtain ⟨rt, s1⟩ := p
            simp [ht] at h
            cases hc : auConst u c c' s1 with
            | mk rc s2 =>
              simp [hc] at h
              obtain ⟨h1, h2⟩ := h
              subst h1 h2
              obtain ⟨a1, a2, a3⟩ := auTy_spec u t t' st rt s1 ht
              obtain ⟨b1, b2, b3⟩ := auConst_spec hc
              refine ⟨by simpa [Ty.vars0] using a1.append b1, by simp [Ty.top0, a2, b2], ?_⟩
              simp only [Ty.ctAgree, Bool.and_eq_true]
              intro hh
              exact ⟨⟨(a3 hh.1).1, (b3 hh.2).1⟩, ⟨(a3 hh.1).2, (b3 hh.2).2⟩⟩
        -- foreign
        · split at h
          · simp at h
            obtain ⟨h1, h2⟩ := h
            subst h1 h2
            simp [TySpec, Ty.vars0, Ty.top0, Ty.ctAgree, AuFresh.refl]
          · exact newTyVar_spec _ _ h
        -- error
        · simp at h
          obtain ⟨h1, h2⟩ := h
          subst h1 h2
          simp [TySpec, Ty.vars0, Ty.top0, Ty.ctAgree, AuFresh.refl]
  theorem auGArg_spec (u : Nat) : (a1 a2 : GArg) → (st : AuSt) → (r : GArg) → (st' : AuSt) →
      auGArg u a1 a2 st = .ok (r, st') → GArgSpec a1 a2 r st st'
    | .ty t, .ty t', st, r, st', h => by
        simp only [auGArg] at h
        cases ht : auTy u t t' st with
        | error e => simp [ht] at h
        | ok p =>
          obtain ⟨rt, s1⟩ := p
          simp [ht] at h
          obtain ⟨h1, h2⟩ := h
          subst h1 h2
          have := auTy_spec u t t' st rt s1 ht
          simpa [TySpec, GArgSpec, GArg.vars0, GArg.top0, GArg.ctAgree] using this
    | .lt l, .lt l', st, r, st', h => by
        simp only [auGArg] at h
        cases hl : auLifetime u l l' st with
        | mk rl s1 =>
          simp [hl] at h
          obtain ⟨h1, h2⟩ := h
          subst h1 h2
          have := auLifetime_spec hl
          simpa [GArgSpec, GArg.vars0, GArg.top0, GArg.ctAgree] using this
    | .ct c, .ct c', st, r, st', h => by
        simp only [auGArg] at h
        cases hc : auConst u c c' st with
        | mk rc s1 =>
          simp [hc] at h
          obtain ⟨h1, h2⟩ := h
          subst h1 h2
          have := auConst_spec hc
          simpa [GArgSpec, GArg.vars0, GArg.top0, GArg.ctAgree] using this
    | .ty _, .lt _, _, _, _, h => by simp [auGArg] at h
    | .ty _, .ct _, _, _, _, h => by simp [auGArg] at h
    | .lt _, .ty _, _, _, _, h => by simp [auGArg] at h
    | .lt _, .ct _, _, _, _, h => by simp [auGArg] at h
    | .ct _, .ty _, _, _, _, h => by simp [auGArg] at h
    | .ct _, .lt _, _, _, _, h => by simp [auGArg] at h
  theorem auArgs_spec (u : Nat) : (a1 a2 : Args) → (st : AuSt) → (r : Args) → (st' : AuSt) →
      auArgs u a1 a2 st = .ok (r, st') → ArgsSpec a1 a2 r st st'
    | .nil, .nil, st, r, st', h => by
        simp [auArgs] at h
        obtain ⟨h1, h2⟩ := h
        subst h1 h2
        simp [ArgsSpec, Args.vars0, Args.top0, Args.ctAgree, AuFresh.refl]
    | .nil, .cons _ _, st, r, st', h => by
        simp [auArgs] at h
        obtain ⟨h1, h2⟩ := h
        subst h1 h2
        simp [ArgsSpec, Args.vars0, Args.top0, Args.ctAgree, AuFresh.refl]
    | .cons _ _, .nil, st, r, st', h => by
        simp [auArgs] at h
        obtain ⟨h1, h2⟩ := h
        subst h1 h2
        simp [ArgsSpec, Args.vars0, Args.top0, Args.ctAgree, AuFresh.refl]
    | .cons x xs, .cons y ys, st, r, st', h => by
        simp only [auArgs] at h
        cases hx : auGArg u x y st with
        | error e => simp [hx] at h
        | ok p =>
          obtain ⟨rx, s1⟩ := p
          simp [hx] at h
          cases hxs : auArgs u xs ys s1 with
          | error e => simp [hxs] at h
          | ok q =>
            obtain ⟨rxs, s2⟩ := q
            simp [hxs] at h
            obtain ⟨h1, h2⟩ := h
            subst h1 h2
            obtain ⟨a1, a2, a3⟩ := auGArg_spec u x y st rx s1 hx
            obtain ⟨b1, b2, b3⟩ := auArgs_spec u xs ys s1 rxs s2 hxs
            refine ⟨by simpa [Args.vars0] using a1.append b1, by simp [Args.top0, a2, b2], ?_⟩
            simp only [Args.ctAgree, Bool.and_eq_true]
            intro hh
            exact ⟨⟨(a3 hh.1).1, (b3 hh.2).1⟩, ⟨(a3 hh.1).2, (b3 hh.2).2⟩⟩
end

/-! ### `merge_into_guidance` -/

theorem mergeLoop_spec (us : List Nat) : (idx : Nat) → (g a : Args) → (st : AuSt) → (r : Args) → (st' : AuSt) →
    mergeLoop us idx g a st = .ok (r, st') → ArgsSpec g a r st st'
  | _, .nil, .nil, st, r, st', h => by
      simp [mergeLoop] at h
      obtain ⟨h1, h2⟩ := h
      subst h1 h2
      simp [ArgsSpec, Args.vars0, Args.top0, Args.ctAgree, AuFresh.refl]
  | _, .nil, .cons _ _, st, r, st', h => by
      simp [mergeLoop] at h
      obtain ⟨h1, h2⟩ := h
      subst h1 h2
      simp [ArgsSpec, Args.vars0, Args.top0, Args.ctAgree, AuFresh.refl]
  | _, .cons _ _, .nil, st, r, st', h => by
      simp [mergeLoop] at h
      obtain ⟨h1, h2⟩ := h
      subst h1 h2
      simp [ArgsSpec, Args.vars0, Args.top0, Args.ctAgree, AuFresh.refl]
  | idx, .cons p1 ps1, .cons p2 ps2, st, r, st', h => by
      simp only [mergeLoop] at h
      cases hu : us[idx]? with
      | none => simp [hu] at h
      | some u =>
        simp only [hu] at h
        have hstep : ∀ rr s1, (match p1 with
            | .lt _ => match newLtVar u st with | (l, st') => (Except.ok (GArg.lt l, st') : Res (GArg × AuSt))
            | _ => auGArg u p1 p2 st) = .ok (rr, s1) → GArgSpec p1 p2 rr st s1 := by
          intro rr s1 hs
          cases p1 with
          | lt l =>
            simp [newLtVar] at hs
            obtain ⟨h1, h2⟩ := hs
            subst h1 h2
            cases p2 <;> simp [GArgSpec, GArg.vars0, GArg.top0, GArg.ctAgree, Lifetime.vars0, Lifetime.top0, AuFresh.one]
          | ty t => exact auGArg_spec u _ _ st rr s1 hs
          | ct c => exact auGArg_spec u _ _ st rr s1 hs
        split at h
        · rename_i rr s1 hs
          cases hr : mergeLoop us (idx + 1) ps1 ps2 s1 with
          | error e => simp [hr] at h
          | ok q =>
            obtain ⟨rs, s2⟩ := q
            simp [hr] at h
            obtain ⟨h1, h2⟩ := h
            subst h1 h2
            obtain ⟨a1, a2, a3⟩ := hstep rr s1 hs
            obtain ⟨b1, b2, b3⟩ := mergeLoop_spec us (idx + 1) ps1 ps2 s1 rs s2 hr
            refine ⟨by simpa [Args.vars0] using a1.append b1, by simp [Args.top0, a2, b2], ?_⟩
            simp only [Args.ctAgree, Bool.and_eq_true]
            intro hh
            exact ⟨⟨(a3 hh.1).1, (b3 hh.2).1⟩, ⟨(a3 hh.1).2, (b3 hh.2).2⟩⟩
        · simp at h

/-- the shape of every result of `merge_into_guidance`: the `k` binders are used as `^0.0 … ^0.(k-1)`,
    once each, left to right -/
def MergedShape (c : Canon Args) : Prop :=
  c.value.vars0 = List.range' 0 c.binders.length ∧ c.value.top0 = true

theorem MergedShape.linear {c : Canon Args} (h : MergedShape c) : c.value.Linear := by
  unfold Args.Linear; rw [h.1]; exact List.nodup_range' 1

theorem MergedShape.lt {c : Canon Args} (h : MergedShape c) : ∀ i, i ∈ c.value.vars0 → i < c.binders.length := by
  intro i hi
  rw [h.1, List.mem_range'] at hi
  obtain ⟨k, hk, e⟩ := hi
  omega

theorem mergeIntoGuidance_spec {us : List Nat} {g a : Args} {r : Canon Args}
    (h : mergeIntoGuidance us g a = .ok r) :
    MergedShape r ∧ (g.ctAgree a = true → r.value.ctAgree g = true ∧ r.value.ctAgree a = true) := by
  unfold mergeIntoGuidance at h
  cases hm : mergeLoop us 0 g a [] with
  | error e => simp [hm] at h
  | ok p =>
    obtain ⟨v, st⟩ := p
    simp [hm] at h
    subst h
    obtain ⟨a1, a2, a3⟩ := mergeLoop_spec us 0 g a [] v st hm
    refine ⟨⟨?_, a2⟩, a3⟩
    simpa using a1.2

/-! ### agreement of constant types passes from a term to its generalisations -/

theorem Const.ctAgree_trans {r g b : Const} (h1 : r.genOf g = true) (h2 : r.ctAgree g = true)
    (h3 : g.ctAgree b = true) : r.ctAgree b = true := by
  obtain ⟨tr, vr⟩ := r
  obtain ⟨tg, vg⟩ := g
  obtain ⟨tb, vb⟩ := b
  cases vr <;> cases vg <;> simp [Const.genOf, Const.ctAgree] at h1 h2 h3 ⊢ <;>
    (obtain ⟨e2, n2⟩ := h2; obtain ⟨e3, _⟩ := h3; subst e2 e3; exact ⟨rfl, n2⟩)

mutual
  theorem Ty.ctAgree_trans : (r g b : Ty) → r.genOf g = true → r.ctAgree g = true → g.ctAgree b = true →
      r.ctAgree b = true
    | r, g, b, h1, h2, h3 => by
        cases r with
        | bound _ _ => simp [Ty.ctAgree]
        | app n x =>
          cases g <;> simp [Ty.genOf] at h1
          rename_i n' y
          simp only [Ty.ctAgree] at h2
          cases b <;> simp [Ty.ctAgree] at h3 ⊢
          rename_i n'' z
          exact Args.ctAgree_trans x y z h1.2 h2 h3
        | proj n x =>
          cases g <;> simp [Ty.genOf] at h1
          rename_i n' y
          simp only [Ty.ctAgree] at h2
          cases b <;> simp [Ty.ctAgree] at h3 ⊢
          rename_i n'' z
          exact Args.ctAgree_trans x y z h1.2 h2 h3
        | «opaque» n x =>
          cases g <;> simp [Ty.genOf] at h1
          rename_i n' y
          simp only [Ty.ctAgree] at h2
          cases b <;> simp [Ty.ctAgree] at h3 ⊢
          rename_i n'' z
          exact Args.ctAgree_trans x y z h1.2 h2 h3
        | slice x =>
          cases g <;> simp [Ty.genOf] at h1
          rename_i y
          simp only [Ty.ctAgree] at h2
          cases b <;> simp [Ty.ctAgree] at h3 ⊢
          rename_i z
          exact Ty.ctAgree_trans x y z h1 h2 h3
        | raw m x =>
          cases g <;> simp [Ty.genOf] at h1
          rename_i m' y
          simp only [Ty.ctAgree] at h2
          cases b <;> simp [Ty.ctAgree] at h3 ⊢
          rename_i m'' z
          exact Ty.ctAgree_trans x y z h1.2 h2 h3
        | ref m l x =>
          cases g <;> simp [Ty.genOf] at h1
          rename_i m' l' y
          simp only [Ty.ctAgree] at h2
          cases b <;> simp [Ty.ctAgree] at h3 ⊢
          rename_i m'' l'' z
          exact Ty.ctAgree_trans x y z h1.2 h2 h3
        | array x k =>
          cases g <;> simp [Ty.genOf] at h1
          rename_i y k'
          simp only [Ty.ctAgree, Bool.and_eq_true] at h2
          cases b <;> simp [Ty.ctAgree] at h3 ⊢
          rename_i z k''
          exact ⟨Ty.ctAgree_trans x y z h1.1 h2.1 h3.1, Const.ctAgree_trans h1.2 h2.2 h3.2⟩
        | scalar s => cases b <;> simp [Ty.ctAgree]
        | foreign s => cases b <;> simp [Ty.ctAgree]
        | placeholder u i => cases b <;> simp [Ty.ctAgree]
        | str => cases b <;> simp [Ty.ctAgree]
        | never => cases b <;> simp [Ty.ctAgree]
        | error => cases b <;> simp [Ty.ctAgree]
        | _ => simp [Ty.genOf] at h1
  theorem GArg.ctAgree_trans : (r g b : GArg) → r.genOf g = true → r.ctAgree g = true → g.ctAgree b = true →
      r.ctAgree b = true
    | .ty r, .ty g, .ty b, h1, h2, h3 => by
        simp only [GArg.genOf] at h1
        simp only [GArg.ctAgree] at h2 h3 ⊢
        exact Ty.ctAgree_trans r g b h1 h2 h3
    | .ct r, .ct g, .ct b, h1, h2, h3 => by
        simp only [GArg.genOf] at h1
        simp only [GArg.ctAgree] at h2 h3 ⊢
        exact Const.ctAgree_trans h1 h2 h3
    | .lt _, _, _, _, _, _ => by simp [GArg.ctAgree]
    | .ty _, _, .lt _, _, _, _ => by simp [GArg.ctAgree]
    | .ty _, _, .ct _, _, _, _ => by simp [GArg.ctAgree]
    | .ct _, _, .lt _, _, _, _ => by simp [GArg.ctAgree]
    | .ct _, _, .ty _, _, _, _ => by simp [GArg.ctAgree]
    | .ty _, .lt _, .ty _, h1, _, _ => by simp [GArg.genOf] at h1
    | .ty _, .ct _, .ty _, h1, _, _ => by simp [GArg.genOf] at h1
    | .ct _, .lt _, .ct _, h1, _, _ => by simp [GArg.genOf] at h1
    | .ct _, .ty _, .ct _, h1, _, _ => by simp [GArg.genOf] at h1
  theorem Args.ctAgree_trans : (r g b : Args) → r.genOf g = true → r.ctAgree g = true → g.ctAgree b = true →
      r.ctAgree b = true
    | .cons x xs, .cons y ys, .cons z zs, h1, h2, h3 => by
        simp only [Args.genOf, Bool.and_eq_true] at h1
        simp only [Args.ctAgree, Bool.and_eq_true] at h2 h3 ⊢
        exact ⟨GArg.ctAgree_trans x y z h1.1 h2.1 h3.1, Args.ctAgree_trans xs ys zs h1.2 h2.2 h3.2⟩
    | .nil, _, _, _, _, _ => by simp [Args.ctAgree]
    | .cons _ _, _, .nil, _, _, _ => by simp [Args.ctAgree]
    | .cons _ _, .nil, .cons _ _, h1, _, _ => by simp [Args.genOf] at h1
end

/-! ### the loop of `make_solution` -/

/-- the guidance handed out is the initial substitution unchanged, or has the shape of a merge result -/
theorem guidanceLoop_shape (us : List Nat) : (rest : List CAnswer) → (subst : Canon Args) → (n : Nat) →
    (g : Canon Args) → (m : Nat) →
    guidanceLoop us rest subst n = .ok (.definite g, m) →
    (g = subst ∧ m = n) ∨ (n < m ∧ MergedShape g)
  | rest, subst, n, g, m, h => by
      unfold guidanceLoop at h
      split at h
      · simp at h
      · split at h
        · simp at h
        · simp at h; exact Or.inl ⟨h.1.symm, h.2.symm⟩
        · cases rest with
          | nil => simp at h; exact Or.inl ⟨h.1.symm, h.2.symm⟩
          | cons a rest' =>
            simp only at h
            cases hm : mergeIntoGuidance us subst.value a.subst with
            | error e => simp [hm] at h
            | ok s' =>
              simp only [hm] at h
              have hs := (mergeIntoGuidance_spec hm).1
              rcases guidanceLoop_shape us rest' s' (n + 1) g m h with ⟨e1, e2⟩ | ⟨e1, e2⟩
              · subst e1; exact Or.inr ⟨by omega, hs⟩
              · exact Or.inr ⟨by omega, e2⟩

/-- loop invariant: the guidance handed out is the initial substitution, or a merge result that
    generalises it; and it generalises every remaining stored answer; constant types stay in
    agreement throughout -/
theorem guidanceLoop_inv (us : List Nat) : (rest : List CAnswer) → (subst : Canon Args) → (n : Nat) →
    (g : Canon Args) → (m : Nat) →
    guidanceLoop us rest subst n = .ok (.definite g, m) →
    (∀ a, a ∈ rest → subst.value.sameKinds a.subst = true) →
    (∀ a, a ∈ rest → subst.value.ctAgree a.subst = true) →
    ((g = subst ∧ m = n) ∨
      (n < m ∧ MergedShape g ∧ g.value.genOf subst.value = true ∧ g.value.ctAgree subst.value = true)) ∧
    ∀ a, a ∈ rest → g.value.genOf a.subst = true ∧ g.value.ctAgree a.subst = true
  | rest, subst, n, g, m, h, hk, hc => by
      unfold guidanceLoop at h
      split at h
      · simp at h
      · split at h
        · simp at h
        · rename_i hf
          simp at h
          have hg : g = subst := h.1.symm
          subst hg
          refine ⟨Or.inl ⟨rfl, h.2.symm⟩, fun a ha => ⟨?_, hc a ha⟩⟩
          have hmi := anyFutureInvalidates_false g.value rest hf a ha
          have hl : a.subst.length = g.value.length := (Args.length_eq_of_sameKinds _ _ (hk a ha)).symm
          exact miAny_false a.subst g.value hmi hl
        · cases rest with
          | nil =>
            simp at h
            have hg : g = subst := h.1.symm
            subst hg
            exact ⟨Or.inl ⟨rfl, h.2.symm⟩, fun a ha => by simp at ha⟩
          | cons a rest' =>
            simp only at h
            cases hm : mergeIntoGuidance us subst.value a.subst with
            | error e => simp [hm] at h
            | ok s' =>
              simp only [hm] at h
              have hka : subst.value.sameKinds a.subst = true := hk a (List.mem_cons_self ..)
              have hca : subst.value.ctAgree a.subst = true := hc a (List.mem_cons_self ..)
              obtain ⟨hshape, hct⟩ := mergeIntoGuidance_spec hm
              have hct := hct hca
              have hgen : s'.value.genOf subst.value = true ∧ s'.value.genOf a.subst = true := by
                unfold mergeIntoGuidance at hm
                cases hml : mergeLoop us 0 subst.value a.subst [] with
                | error e => simp [hml] at hm
                | ok p =>
                  obtain ⟨v, st⟩ := p
                  simp [hml] at hm
                  rw [← hm]
                  exact mergeLoop_gen us 0 subst.value a.subst [] v st hml hka
              have hk' : ∀ b, b ∈ rest' → s'.value.sameKinds b.subst = true := fun b hb =>
                Args.sameKinds_trans _ _ _ (Args.sameKinds_of_genOf _ _ hgen.1) (hk b (List.mem_cons_of_mem _ hb))
              have hc' : ∀ b, b ∈ rest' → s'.value.ctAgree b.subst = true := fun b hb =>
                Args.ctAgree_trans _ _ _ hgen.1 hct.1 (hc b (List.mem_cons_of_mem _ hb))
              obtain ⟨ih1, ih2⟩ := guidanceLoop_inv us rest' s' (n + 1) g m h hk' hc'
              -- `g` generalises `s'` (or is `s'`), with constant types in agreement
              have up : ∀ t : Args, s'.value.genOf t = true → s'.value.ctAgree t = true →
                  g.value.genOf t = true ∧ g.value.ctAgree t = true := by
                intro t t1 t2
                rcases ih1 with ⟨e1, _⟩ | ⟨_, _, e3, e4⟩
                · subst e1; exact ⟨t1, t2⟩
                · exact ⟨Args.genOf_trans _ _ _ e3 t1, Args.ctAgree_trans _ _ _ e3 e4 t2⟩
              refine ⟨Or.inr ?_, fun b hb => ?_⟩
              · have hsub := up subst.value hgen.1 hct.1
                rcases ih1 with ⟨e1, e2⟩ | ⟨e1, e2, _, _⟩
                · subst e1; exact ⟨by omega, hshape, hsub.1, hsub.2⟩
                · exact ⟨by omega, e2, hsub.1, hsub.2⟩
              · rcases List.mem_cons.mp hb with e | hb'
                · rw [e]; exact up a.subst hgen.2 hct.2
                · exact ih2 b hb'

end Chalk
