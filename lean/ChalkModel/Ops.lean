/-
  Line-protocol operations of the model driver: one request S-expression in, one response out.
  Only *calls* model definitions; contains no model logic of its own.
-/
import ChalkModel.Wire
import ChalkModel.Shift
import ChalkModel.Flags
import ChalkModel.OpsMatch
import ChalkModel.OpsAggregate
import ChalkModel.OpsSem
import ChalkModel.OpsInPlace
import ChalkModel.OpsCoherence
import ChalkModel.OpsCanon
import ChalkModel.OpsUnify
import ChalkModel.OpsOrphan
import ChalkModel.OpsResolve
import ChalkModel.OpsBuiltin
import ChalkModel.OpsDisplay
import ChalkModel.OpsLogging
import ChalkModel.OpsFixedPoint
import ChalkModel.OpsTruncate

namespace Chalk
open Sexp

def badOp : Sexp := .atom "bad-op"

def opsIR : Sexp → Option Sexp
  -- a case evaluated on the implementation only (no model computation): acknowledged
  | .list (.atom "note" :: _) => some (.atom "noted")
  | .list [.atom "flags", t] => do
      let t ← Ty.ofSexp? t
      some (.list [.atom "ok", sNat (Flags.toBits t.computeFlags)])
  | .list [.atom "shift-in", k, t] => do
      some (resToSexp Ty.toSexp ((← Ty.ofSexp? t).shiftedInFrom (← k.nat?)))
  | .list [.atom "shift-out", k, t] => do
      some (resToSexp Ty.toSexp ((← Ty.ofSexp? t).shiftedOutTo (← k.nat?)))
  | .list [.atom "shift-in-out", k, t] => do
      let k ← k.nat?
      let r := match (← Ty.ofSexp? t).shiftedInFrom k with
        | .ok t' => t'.shiftedOutTo k
        | .error e => .error e
      some (resToSexp Ty.toSexp r)
  | .list [.atom "subst", ps, t] => do
      some (resToSexp Ty.toSexp ((← Ty.ofSexp? t).subst (← argsListOfSexp? ps)))
  | .list [.atom "subst-wc", ps, w] => do
      some (resToSexp WC.toSexp ((← WC.ofSexp? w).subst (← argsListOfSexp? ps)))
  | .list [.atom "substitute", ks, t, ps] => do
      some (resToSexp Ty.toSexp (bindersSubstituteTy (← kindsOfSexp? ks) (← Ty.ofSexp? t) (← argsListOfSexp? ps)))
  | .list [.atom "identity-subst", ks] => do
      some (.list [.atom "ok", .list ((identitySubst Ty.scalar (← kindsOfSexp? ks)).map GArg.toSexp)])
  | .list [.atom "subst-identity", ks, t] => do
      let ks ← kindsOfSexp? ks
      some (resToSexp Ty.toSexp (bindersSubstituteTy ks (← Ty.ofSexp? t) (identitySubst Ty.scalar ks)))
  | .list [.atom "subst-shift-comm", k, ks, t, ps] => do
      let k ← k.nat?
      let r := match bindersSubstituteTy (← kindsOfSexp? ks) (← Ty.ofSexp? t) (← argsListOfSexp? ps) with
        | .ok t' => t'.shiftedInFrom k
        | .error e => .error e
      some (resToSexp Ty.toSexp r)
  | .list [.atom "fold-noop", t] => do
      some (resToSexp Ty.toSexp (foldTy Folder.noop 0 (← Ty.ofSexp? t)))
  | _ => none

/-- all op tables; add new ones at the end of this list -/
def allOps : List (Sexp → Option Sexp) :=
  [opsIR, opsMatch, opsAggregate, opsInPlace, opsCoherence, Chalk.Sem.opsSem, opsCanon, opsUnify, Chalk.Orphan.opsOrphan, opsResolve, Chalk.Builtin.opsBuiltin, Chalk.Display.opsDisplay, Chalk.Logging.opsLogging, opsFixedPoint, opsTruncate]

def dispatch (req : Sexp) : Sexp :=
  match allOps.findSome? (fun f => f req) with
  | some r => r
  | none => badOp

def handleLine (line : String) : String :=
  match Sexp.parse line with
  | some req => (dispatch req).toStr
  | none => "bad-op"

end Chalk
