/-
  Model of `chalk-solve/src/infer/canonicalize.rs` (`InferenceTable::canonicalize`,
  `Canonicalizer::{add, into_binders, fold_inference_ty/_lifetime/_const,
  fold_free_placeholder_ty/_lifetime/_const, forbid_free_vars}`, `Canonicalized`) and of
  `chalk-solve/src/infer/instantiate.rs` (`fresh_subst`, `instantiate_canonical`, `instantiate_in`,
  `instantiate_binders_existentially`, `instantiate_binders_universally`).

  The canonicalizer is a *stateful* folder (`free_vars`, `max_universe`) over the traversal of
  `SFold.lean`.  A variable that the table has bound is replaced by the canonical form of its value:
  `fold_inference_*` folds the value with the *same* canonicalizer at `DebruijnIndex::INNERMOST`
  and shifts the result in by `outer_binder`.  That recursion goes through table values, so it is
  not structural; the model takes a FUEL argument = the number of nested look-ups still allowed.
  In a table without cycles among its bound variables (the occurs check of the unifier guarantees
  that) every chain of nested look-ups passes through distinct bound variables, so
  `fuel = number of variables of the table` is never exhausted; `canonicalize` uses that value.
  Running out of fuel (only possible on a cyclic table, where the Rust code recurses until the
  stack overflows) is reported as the panic `canonicalize: cyclic inference table`.

  Constants: `fold_inference_const` / `fold_free_placeholder_const` receive the type of the constant
  *unfolded* (`try_super_fold_with` passes `ty.clone()`) and put it unchanged into the result and
  into the binder kind; the model does the same (`VarKind.const` keeps the scalar code of that type,
  see `Ty.scalarCode`).

  Variables that do not exist in the table (index ≥ number of variables) are outside the model:
  `ena` panics with an index error, the look-ups of `Infer.lean` return defaults; the correspondence
  runs only use variables the table has.
-/
import ChalkModel.SFold
import ChalkModel.Infer
import ChalkModel.Aggregate

namespace Chalk

/-- state of a `Canonicalizer` besides the table: `free_vars` (kind of the first occurrence and
    union-find root) and `max_universe` (computed by the Rust code, never returned) -/
structure CState where
  freeVars : List (VarKind × Nat) := []
  maxUniverse : Nat := 0
  deriving DecidableEq, Repr

/-- `free_vars.iter().position(|v| v.skip_kind() == free_var.skip_kind())` -/
def posOf (root : Nat) : List (VarKind × Nat) → Option Nat
  | [] => none
  | (_, x) :: rest => if x = root then some 0 else
      match posOf root rest with
      | some i => some (i + 1)
      | none => none

/-- `Canonicalizer::add` -/
def canonAdd (t : Table) (st : CState) (k : VarKind) (root : Nat) : Res (Nat × CState) :=
  match t.universeOfUnbound root with
  | .error e => .error e
  | .ok ui =>
    match posOf root st.freeVars with
    | some i => .ok (i, { st with maxUniverse := max st.maxUniverse ui })
    | none => .ok (st.freeVars.length,
        { freeVars := st.freeVars ++ [(k, root)], maxUniverse := max st.maxUniverse ui })

def pCyclic : Err := .panic "canonicalize: cyclic inference table"
def pUnwrapNone : Err := .panic "called Option::unwrap on a None value"

/-- The `TypeFolder for Canonicalizer` methods.  `inner` is the canonicalizer that folds the value
    of a bound variable (the same canonicalizer in the Rust code; here the one with one look-up
    less in its budget), `none` when the budget is used up. -/
def canonStep (t : Table) (inner : Option (SFolder CState)) : SFolder CState where
  -- forbid_free_vars() = true
  freeVarTy := forbidFreeVarTy
  freeVarLt := forbidFreeVarLt
  freeVarConst := forbidFreeVarConst
  -- fold_inference_ty
  inferTy := fun v k outer st =>
    match t.probeVar v with
    | some g =>
      match inner with
      | none => .error pCyclic
      | some f =>
        match g with
        | .ty ty =>
          bindS (sfoldTy f 0 ty st) fun ty' st' =>
            match ty'.shiftedInFrom outer with
            | .ok r => .ok (r, st')
            | .error e => .error e
        | _ => .error pUnwrapNone
    | none =>
      match canonAdd t st (.ty k) (t.find v) with
      | .ok (i, st') => .ok (.bound outer i, st')
      | .error e => .error e
  -- fold_inference_lifetime
  inferLt := fun v outer st =>
    match t.probeVar v with
    | some g =>
      match inner with
      | none => .error pCyclic
      | some f =>
        match g with
        | .lt l =>
          bindS (sfoldLifetime f 0 l st) fun l' st' =>
            match l'.shiftedInFrom outer with
            | .ok r => .ok (r, st')
            | .error e => .error e
        | _ => .error pUnwrapNone
    | none =>
      match canonAdd t st .lt (t.find v) with
      | .ok (i, st') => .ok (.bound outer i, st')
      | .error e => .error e
  -- fold_inference_const (`ty` is the unfolded type of the constant)
  inferConst := fun ty v outer st =>
    match t.probeVar v with
    | some g =>
      match inner with
      | none => .error pCyclic
      | some f =>
        match g with
        | .ct c =>
          bindS (sfoldConst f 0 c st) fun c' st' =>
            match c'.shiftedInFrom outer with
            | .ok r => .ok (r, st')
            | .error e => .error e
        | _ => .error pUnwrapNone
    | none =>
      match canonAdd t st (.const ty.scalarCode) (t.find v) with
      | .ok (i, st') => .ok (.mk ty (.bound outer i), st')
      | .error e => .error e
  -- fold_free_placeholder_*: only `max_universe` is updated
  phTy := fun ui idx _ st => .ok (.placeholder ui idx, { st with maxUniverse := max st.maxUniverse ui })
  phLt := fun ui idx _ st => .ok (.placeholder ui idx, { st with maxUniverse := max st.maxUniverse ui })
  phConst := fun ty ui idx _ st =>
    .ok (.mk ty (.placeholder ui idx), { st with maxUniverse := max st.maxUniverse ui })

/-- the canonicalizer with `fuel` nested look-ups of bound variables still allowed -/
def canonFolder (t : Table) : (fuel : Nat) → SFolder CState
  | 0 => canonStep t none
  | n + 1 => canonStep t (some (canonFolder t n))

/-- `Canonicalizer::into_binders`: kind of the first occurrence × universe of the root -/
def intoBinders (t : Table) : List (VarKind × Nat) → Res (List (VarKind × Nat))
  | [] => .ok []
  | (k, v) :: rest =>
    match t.universeOfUnbound v with
    | .error e => .error e
    | .ok ui =>
      match intoBinders t rest with
      | .error e => .error e
      | .ok bs => .ok ((k, ui) :: bs)

/-- `Canonicalized<T>`; `maxUniverse` is the canonicalizer's final `max_universe`, which the Rust
    code computes and drops. -/
structure Canonicalized (α : Type) where
  quantified : Canon α
  freeVars : List (VarKind × Nat)
  maxUniverse : Nat
  deriving Repr, DecidableEq

def canonFinish {α : Type} (t : Table) : Res (α × CState) → Res (Canonicalized α)
  | .error e => .error e
  | .ok (v, st) =>
    match intoBinders t st.freeVars with
    | .error e => .error e
    | .ok bs => .ok { quantified := { binders := bs, value := v }, freeVars := st.freeVars,
                      maxUniverse := st.maxUniverse }

/-- `InferenceTable::canonicalize` with an explicit look-up budget -/
def Table.canonicalizeFuel (t : Table) (fuel : Nat) (v : Args) : Res (Canonicalized Args) :=
  canonFinish t (sfoldArgs (canonFolder t fuel) 0 v {})

/-- `InferenceTable::canonicalize` for a substitution / list of generic arguments -/
def Table.canonicalize (t : Table) (v : Args) : Res (Canonicalized Args) :=
  t.canonicalizeFuel t.numVars v

/-- `InferenceTable::canonicalize` for a type -/
def Table.canonicalizeTy (t : Table) (v : Ty) : Res (Canonicalized Ty) :=
  canonFinish t (sfoldTy (canonFolder t t.numVars) 0 v {})

/-! ### `instantiate.rs` -/

/-- `ParameterEnaVariable::to_generic_arg` -/
def VarKind.toInferArg (v : Nat) : VarKind → GArg
  | .ty k => .ty (.infer v k)
  | .lt => .lt (.infer v)
  | .const c => .ct (.mk (.scalar c) (.infer v))

/-- `fresh_subst`: one fresh variable per binder, in the binder's universe -/
def Table.freshSubst (t : Table) : List (VarKind × Nat) → Table × List GArg
  | [] => (t, [])
  | (k, ui) :: bs =>
    let p := t.newVariable ui
    let r := Table.freshSubst p.1 bs
    (r.1, k.toInferArg p.2 :: r.2)

/-- `instantiate_canonical` -/
def Table.instantiateCanonical (t : Table) (c : Canon Args) : Res (Args × Table) :=
  let r := t.freshSubst c.binders
  match foldArgs (applyFolder r.2) 0 c.value with
  | .ok v => .ok (v, r.1)
  | .error e => .error e

/-- `instantiate_in` -/
def Table.instantiateIn (t : Table) (ui : Nat) (kinds : List VarKind) (v : Args) : Res (Args × Table) :=
  t.instantiateCanonical { binders := kinds.map fun k => (k, ui), value := v }

/-- `instantiate_binders_existentially` -/
def Table.instantiateBindersExistentially (t : Table) (kinds : List VarKind) (v : Args) : Res (Args × Table) :=
  t.instantiateIn t.maxUniverse kinds v

/-- the parameters built by `instantiate_binders_universally` -/
def universalParams (ui : Nat) : (idx : Nat) → List VarKind → List GArg
  | _, [] => []
  | idx, .ty _ :: ks => .ty (.placeholder ui idx) :: universalParams ui (idx + 1) ks
  | idx, .lt :: ks => .lt (.placeholder ui idx) :: universalParams ui (idx + 1) ks
  | idx, .const c :: ks => .ct (.mk (.scalar c) (.placeholder ui idx)) :: universalParams ui (idx + 1) ks

/-- `instantiate_binders_universally`: a new universe is created only when there is a binder -/
def Table.instantiateBindersUniversally (t : Table) (kinds : List VarKind) (v : Args) : Res (Args × Table) :=
  let t' := if kinds.isEmpty then t else t.newUniverse.1
  match foldArgs (substFolder (universalParams t'.maxUniverse 0 kinds)) 0 v with
  | .ok r => .ok (r, t')
  | .error e => .error e

end Chalk
