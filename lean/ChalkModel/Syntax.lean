/-
  Syntax of chalk-ir terms (model of `chalk-ir/src/lib.rs`: `TyKind`, `LifetimeData`,
  `ConstData`/`ConstValue`, `GenericArgData`, `WhereClause`, `Binders`, `DynTy`, `FnPointer`).

  The eight `TyKind` variants that are "a name applied to a substitution" (Adt, AssociatedType,
  Tuple, OpaqueType, FnDef, Closure, Coroutine, CoroutineWitness) are one constructor `Ty.app`
  carrying a `TyName`; every Rust function modelled here treats them by one shared arm or
  distinguishes them by the name only.  All other variants are separate constructors.
  Import-free on purpose (the driver links as a `lean_exe`).
-/
namespace Chalk

inductive TyVarKind where
  | general | integer | float
  deriving DecidableEq, Repr, Inhabited

/-- `VariableKind`; the type carried by `Const` kinds is a code of a closed scalar type. -/
inductive VarKind where
  | ty (k : TyVarKind)
  | lt
  | const (tyCode : Nat)
  deriving DecidableEq, Repr, Inhabited

/-- `LifetimeData` (without `Phantom`). -/
inductive Lifetime where
  | bound (db idx : Nat)
  | infer (v : Nat)
  | placeholder (ui idx : Nat)
  | static
  | erased
  | error
  deriving DecidableEq, Repr, Inhabited

inductive ConstValue where
  | bound (db idx : Nat)
  | infer (v : Nat)
  | placeholder (ui idx : Nat)
  | concrete (k : Nat)
  deriving DecidableEq, Repr, Inhabited

inductive Variance where
  | co | inv | contra
  deriving DecidableEq, Repr, Inhabited

/-- The head of a "name applied to a substitution" type. -/
inductive TyName where
  | adt (id : Nat)
  | assocTy (id : Nat)
  | tuple (arity : Nat)
  | opaqueTy (id : Nat)
  | fnDef (id : Nat)
  | closure (id : Nat)
  | coroutine (id : Nat)
  | witness (id : Nat)
  deriving DecidableEq, Repr, Inhabited

mutual
  inductive Ty where
    | app (n : TyName) (args : Args)
    | scalar (s : Nat)
    | str
    | never
    | foreign (id : Nat)
    | error
    | array (t : Ty) (c : Const)
    | slice (t : Ty)
    | raw (m : Bool) (t : Ty)
    | ref (m : Bool) (l : Lifetime) (t : Ty)
    | placeholder (ui idx : Nat)
    /-- `DynTy { bounds: Binders<QuantifiedWhereClauses>, lifetime }` -/
    | dyn (kinds : List VarKind) (bounds : QWCs) (l : Lifetime)
    /-- `Alias(AliasTy::Projection(..))` -/
    | proj (id : Nat) (args : Args)
    /-- `Alias(AliasTy::Opaque(..))` -/
    | opaque (id : Nat) (args : Args)
    /-- `Function(FnPointer { num_binders, sig, substitution })`; `sig` is an opaque code. -/
    | function (nb : Nat) (sig : Nat) (args : Args)
    | bound (db idx : Nat)
    | infer (v : Nat) (k : TyVarKind)
  inductive Const where
    | mk (ty : Ty) (v : ConstValue)
  inductive GArg where
    | ty (t : Ty)
    | lt (l : Lifetime)
    | ct (c : Const)
  inductive Args where
    | nil
    | cons (a : GArg) (as : Args)
  inductive WC where
    | implemented (tr : Nat) (args : Args)
    | aliasEqProj (id : Nat) (args : Args) (ty : Ty)
    | aliasEqOpaque (id : Nat) (args : Args) (ty : Ty)
    | ltOutlives (a b : Lifetime)
    | tyOutlives (t : Ty) (l : Lifetime)
  inductive QWC where
    | mk (kinds : List VarKind) (wc : WC)
  inductive QWCs where
    | nil
    | cons (q : QWC) (qs : QWCs)
end

deriving instance Repr for Ty, Const, GArg, Args, WC, QWC, QWCs
deriving instance DecidableEq for Ty, Const, GArg, Args, WC, QWC, QWCs

instance : Inhabited Ty := ⟨.error⟩
instance : Inhabited Const := ⟨.mk .error (.concrete 0)⟩
instance : Inhabited GArg := ⟨.ty .error⟩
instance : Inhabited Args := ⟨.nil⟩
instance : Inhabited QWCs := ⟨.nil⟩

def Args.toList : Args → List GArg
  | .nil => []
  | .cons a as => a :: as.toList

def Args.ofList : List GArg → Args
  | [] => .nil
  | a :: as => .cons a (Args.ofList as)

def QWCs.toList : QWCs → List QWC
  | .nil => []
  | .cons a as => a :: as.toList

def QWCs.ofList : List QWC → QWCs
  | [] => .nil
  | a :: as => .cons a (QWCs.ofList as)

@[simp] theorem Args.toList_ofList (l : List GArg) : (Args.ofList l).toList = l := by
  induction l with
  | nil => rfl
  | cons a as ih => simp [Args.ofList, Args.toList, ih]

@[simp] theorem Args.ofList_toList : (a : Args) → Args.ofList a.toList = a
  | .nil => rfl
  | .cons a as => by simp [Args.ofList, Args.toList, Args.ofList_toList as]

def Args.length (a : Args) : Nat := a.toList.length

/-- `AliasTy` -/
inductive Alias where
  | proj (id : Nat) (args : Args)
  | opaque (id : Nat) (args : Args)
  deriving DecidableEq, Repr

/-- `DomainGoal` (all 12 variants; `WellFormed`/`FromEnv` split into their two variants). -/
inductive DomainGoal where
  | holds (wc : WC)
  | wfTrait (tr : Nat) (args : Args)
  | wfTy (t : Ty)
  | fromEnvTrait (tr : Nat) (args : Args)
  | fromEnvTy (t : Ty)
  | normalize (alias : Alias) (ty : Ty)
  | isLocal (t : Ty)
  | isUpstream (t : Ty)
  | isFullyVisible (t : Ty)
  | localImplAllowed (tr : Nat) (args : Args)
  | compatible
  | downstreamType (t : Ty)
  | reveal
  | objectSafe (tr : Nat)
  deriving DecidableEq, Repr

end Chalk
