/-
  Model of the answer-aggregation layer:
  * `MayInvalidate` and `SubstitutionExt::may_invalidate` (`chalk-engine/src/slg.rs`),
  * `AntiUnifier`, `merge_into_guidance`, `is_trivial` (`chalk-engine/src/slg/aggregate.rs`),
  * `Solution::{combine, is_trivial_and_always_true, into_guidance, constrained_subst}`
    (`chalk-solve/src/solve.rs`), `Substitution::is_identity_subst` (`chalk-ir/src/lib.rs`),
  * `with_priorities`, `calculate_inputs` (`chalk-recursive/src/combine.rs`),
    `DomainGoal::inputs`.
  Panics of the Rust code (`mismatched parameter kinds`, the `assert_eq!` on substitution lengths,
  `unexpected free inference variable`) are explicit `Err.panic` outcomes.
-/
import ChalkModel.Shift

namespace Chalk

def pMismatch : Err := .panic "mismatched parameter kinds"
def pLen : Err := .panic "assert_eq substitution lengths"
def pFreeInfer : Err := .panic "unexpected free inference variable in may-invalidate"

/-- same kind of name? then the ids; `none` when the kinds differ (the `(_, _)` arm) -/
def TyName.sameKind : TyName → TyName → Option (Nat × Nat)
  | .adt i, .adt j => some (i, j)
  | .assocTy i, .assocTy j => some (i, j)
  | .tuple i, .tuple j => some (i, j)
  | .opaqueTy i, .opaqueTy j => some (i, j)
  | .fnDef i, .fnDef j => some (i, j)
  | .closure i, .closure j => some (i, j)
  | .coroutine i, .coroutine j => some (i, j)
  | .witness i, .witness j => some (i, j)
  | _, _ => none

/-! ## MayInvalidate -/

/-- `MayInvalidate::aggregate_consts` after the type test: the `match (new_value, current_value)` -/
def miConstValue : ConstValue → ConstValue → Res Bool
  | _, .bound _ _ => .ok false
  | .bound _ _, _ => .ok true
  | .infer _, _ => .error pFreeInfer
  | _, .infer _ => .error pFreeInfer
  | .placeholder u i, .placeholder u' i' => .ok (!(u == u' && i == i'))
  | .concrete a, .concrete b => .ok (a != b)
  | _, _ => .ok true

mutual
  /-- `MayInvalidate::aggregate_tys(new, current)` -/
  def miTy : Ty → Ty → Res Bool
    | new, .bound _ _ => match new with | _ => .ok false
    | .bound _ _, _ => .ok true
    | .infer _ _, _ => .error pFreeInfer
    | _, .infer _ _ => .error pFreeInfer
    | .placeholder u i, .placeholder u' i' => .ok (!(u == u' && i == i'))
    | .proj id a, .proj id' a' => miNamed id id' a a'
    | .opaque id a, .opaque id' a' => miNamed id id' a a'
    | .app n a, .app n' a' => match n.sameKind n' with
        | some (i, j) => miNamed i j a a'
        | none => .ok true
    | .scalar s, .scalar s' => .ok (s != s')
    | .str, .str => .ok false
    | .slice t, .slice t' => miTy t t'
    | .ref _ _ _, .ref _ _ _ => .ok true   -- `id_a != id_b || aggregate_lifetimes(..) /* always true */ || ..`
    | .raw m t, .raw m' t' => if m != m' then .ok true else miTy t t'
    | .never, .never => .ok false
    | .array t c, .array t' c' => match miTy t t' with
        | .ok false => miConst c c'
        | r => r
    | .foreign i, .foreign i' => .ok (i != i')
    | .error, .error => .ok false
    | _, _ => .ok true
  def miConst : Const → Const → Res Bool
    | .mk ty v, .mk ty' v' => match miTy ty ty' with
        | .ok false => miConstValue v v'
        | r => r
  def miGArg : GArg → GArg → Res Bool
    | .ty t, .ty t' => miTy t t'
    | .lt _, .lt _ => .ok true
    | .ct c, .ct c' => miConst c c'
    | _, _ => .error pMismatch
  /-- `aggregate_name_and_substs`: name test, length assertion, `zip(..).any(..)` -/
  def miNamed (i j : Nat) (a b : Args) : Res Bool :=
    if i != j then .ok true
    else if a.length != b.length then .error pLen
    else miAny a b
  /-- `new.iter().zip(current.iter()).any(|..| aggregate_generic_args(..))` -/
  def miAny : Args → Args → Res Bool
    | .cons x xs, .cons y ys => match miGArg x y with
        | .ok false => miAny xs ys
        | r => r
    | _, _ => .ok false
end

/-- `SubstitutionExt::may_invalidate(new, current)` -/
def mayInvalidate (new cur : Args) : Res Bool := miAny new cur

/-! ## AntiUnifier / merge_into_guidance

The anti-unifier draws fresh inference variables from a new `InferenceTable`, all in universe
`universe`; `infer.canonicalize(..).quantified` then turns the k-th created variable into `^0.k`
with binder `(kind, universe)` (each fresh variable occurs exactly once, in creation order, which
is the canonicalizer's first-occurrence order). The model threads the binder list: the next fresh
variable is `^0.(st.length)`. -/

abbrev AuSt := List (VarKind × Nat)

def newTyVar (u : Nat) (st : AuSt) : Ty × AuSt := (.bound 0 st.length, st ++ [(.ty .general, u)])
def newLtVar (u : Nat) (st : AuSt) : Lifetime × AuSt := (.bound 0 st.length, st ++ [(.lt, u)])
/-- `new_const_variable(ty)`; the binder kind records the constant's type (a scalar code, 0 otherwise) -/
def Ty.scalarCode : Ty → Nat
  | .scalar s => s
  | _ => 0
def newCtVar (u : Nat) (ty : Ty) (st : AuSt) : Const × AuSt :=
  (.mk ty (.bound 0 st.length), st ++ [(.const ty.scalarCode, u)])

/-- `AntiUnifier::aggregate_lifetimes` -/
def auLifetime (u : Nat) (l1 l2 : Lifetime) (st : AuSt) : Lifetime × AuSt :=
  match l1, l2 with
  | .bound _ _, _ => newLtVar u st
  | _, .bound _ _ => newLtVar u st
  | _, _ => if l1 = l2 then (l1, st) else newLtVar u st

/-- `AntiUnifier::aggregate_consts` (the result's type is `c1`'s type, never aggregated) -/
def auConst (u : Nat) (c1 c2 : Const) (st : AuSt) : Const × AuSt :=
  match c1, c2 with
  | .mk ty v1, .mk _ v2 =>
    match v1, v2 with
    | .infer _, _ => newCtVar u ty st
    | _, .infer _ => newCtVar u ty st
    | .bound _ _, _ => newCtVar u ty st
    | _, .bound _ _ => newCtVar u ty st
    | .placeholder _ _, .placeholder _ _ => if c1 = c2 then (c1, st) else newCtVar u ty st
    | .concrete a, .concrete b => if a = b then (c1, st) else newCtVar u ty st
    | _, _ => newCtVar u ty st

mutual
  /-- `AntiUnifier::aggregate_tys` -/
  def auTy (u : Nat) : Ty → Ty → AuSt → Res (Ty × AuSt)
    | .proj id a, .proj id' a', st =>
        if id = id' then
          if a.length != a'.length then .error pLen
          else match auArgs u a a' st with
            | .ok (r, st') => .ok (.proj id r, st')
            | .error e => .error e
        else .ok (newTyVar u st)
    | .opaque id a, .opaque id' a', st =>
        if id = id' then
          if a.length != a'.length then .error pLen
          else match auArgs u a a' st with
            | .ok (r, st') => .ok (.opaque id r, st')
            | .error e => .error e
        else .ok (newTyVar u st)
    | .placeholder ui i, .placeholder ui' i', st =>
        if ui = ui' ∧ i = i' then .ok (.placeholder ui i, st) else .ok (newTyVar u st)
    | .app n a, .app n' a', st =>
        if n = n' then
          if a.length != a'.length then .error pLen
          else match auArgs u a a' st with
            | .ok (r, st') => .ok (.app n r, st')
            | .error e => .error e
        else .ok (newTyVar u st)
    | .scalar s, .scalar s', st => if s = s' then .ok (.scalar s, st) else .ok (newTyVar u st)
    | .str, .str, st => .ok (.str, st)
    | .slice t, .slice t', st => match auTy u t t' st with
        | .ok (r, st') => .ok (.slice r, st')
        | .error e => .error e
    | .ref m l t, .ref m' l' t', st =>
        if m = m' then
          match auLifetime u l l' st with
          | (rl, st1) => match auTy u t t' st1 with
            | .ok (rt, st2) => .ok (.ref m rl rt, st2)
            | .error e => .error e
        else .ok (newTyVar u st)
    | .raw m t, .raw m' t', st =>
        if m = m' then
          match auTy u t t' st with
          | .ok (r, st') => .ok (.raw m r, st')
          | .error e => .error e
        else .ok (newTyVar u st)
    | .never, .never, st => .ok (.never, st)
    | .array t c, .array t' c', st => match auTy u t t' st with
        | .ok (rt, st1) => match auConst u c c' st1 with
          | (rc, st2) => .ok (.array rt rc, st2)
        | .error e => .error e
    | .foreign i, .foreign i', st => if i = i' then .ok (.foreign i, st) else .ok (newTyVar u st)
    | .error, .error, st => .ok (.error, st)
    | _, _, st => .ok (newTyVar u st)
  /-- `AntiUnifier::aggregate_generic_args` -/
  def auGArg (u : Nat) : GArg → GArg → AuSt → Res (GArg × AuSt)
    | .ty t, .ty t', st => match auTy u t t' st with
        | .ok (r, st') => .ok (.ty r, st')
        | .error e => .error e
    | .lt l, .lt l', st => match auLifetime u l l' st with
        | (r, st') => .ok (.lt r, st')
    | .ct c, .ct c', st => match auConst u c c' st with
        | (r, st') => .ok (.ct r, st')
    | _, _, _ => .error pMismatch
  /-- the `zip(..).map(aggregate_generic_args)` of `aggregate_name_and_substs` -/
  def auArgs (u : Nat) : Args → Args → AuSt → Res (Args × AuSt)
    | .cons x xs, .cons y ys, st => match auGArg u x y st with
        | .ok (r, st1) => match auArgs u xs ys st1 with
          | .ok (rs, st2) => .ok (.cons r rs, st2)
          | .error e => .error e
        | .error e => .error e
    | _, _, st => .ok (.nil, st)
end

structure Canon (α : Type) where
  binders : List (VarKind × Nat)
  value : α
  deriving Repr, DecidableEq

/-- `merge_into_guidance(root_goal, guidance, answer)`; `universes` = the universes of the root
    goal's canonical binders (`root_goal.binders[index]` panics when out of range). -/
def mergeLoop (universes : List Nat) : (idx : Nat) → Args → Args → AuSt → Res (Args × AuSt)
  | idx, .cons p1 ps1, .cons p2 ps2, st =>
      match universes[idx]? with
      | none => .error (.panic "index out of bounds")
      | some u =>
        let step : Res (GArg × AuSt) := match p1 with
          | .lt _ => match newLtVar u st with | (l, st') => .ok (.lt l, st')
          | _ => auGArg u p1 p2 st
        match step with
        | .ok (r, st1) => match mergeLoop universes (idx + 1) ps1 ps2 st1 with
          | .ok (rs, st2) => .ok (.cons r rs, st2)
          | .error e => .error e
        | .error e => .error e
  | _, _, _, st => .ok (.nil, st)

def mergeIntoGuidance (universes : List Nat) (guidance answer : Args) : Res (Canon Args) :=
  match mergeLoop universes 0 guidance answer [] with
  | .ok (v, st) => .ok ⟨st, v⟩
  | .error e => .error e

/-- `is_trivial(subst)` -/
def isTrivialFrom : Nat → Args → Bool
  | _, .nil => true
  | i, .cons p ps =>
      (match p with
       | .ty (.bound 0 j) => i == j
       | .ct (.mk _ (.bound 0 j)) => i == j
       | _ => false) && isTrivialFrom (i + 1) ps
def isTrivial (subst : Args) : Bool := isTrivialFrom 0 subst

/-! ## Solutions -/

inductive Constraint where
  | ltOutlives (a b : Lifetime)
  | tyOutlives (t : Ty) (l : Lifetime)
  deriving DecidableEq, Repr

inductive Guidance where
  | definite (c : Canon Args)
  | suggested (c : Canon Args)
  | unknown
  deriving DecidableEq, Repr

inductive Solution where
  | unique (binders : List (VarKind × Nat)) (subst : Args) (constraints : List Constraint)
  | ambig (g : Guidance)
  deriving DecidableEq, Repr

/-- `Substitution::is_identity_subst` -/
def isIdentityFrom : Nat → Args → Bool
  | _, .nil => true
  | i, .cons p ps =>
      (match p with
       | .ty (.bound 0 j) => i == j
       | .lt (.bound 0 j) => i == j
       | .ct (.mk _ (.bound 0 j)) => i == j
       | _ => false) && isIdentityFrom (i + 1) ps
def isIdentitySubst (a : Args) : Bool := isIdentityFrom 0 a

def Solution.isTrivialAndAlwaysTrue : Solution → Bool
  | .unique _ s cs => isIdentitySubst s && cs.isEmpty
  | .ambig _ => false

def Solution.intoGuidance : Solution → Guidance
  | .unique b s _ => .definite ⟨b, s⟩
  | .ambig g => g

/-- `Solution::combine` -/
def Solution.combine (a b : Solution) : Solution :=
  if a = b then a
  else if a.isTrivialAndAlwaysTrue then a
  else if b.isTrivialAndAlwaysTrue then b
  else
    .ambig (match a.intoGuidance, b.intoGuidance with
      | .definite s1, .definite s2 => if s1 = s2 then .definite s1 else .unknown
      | .suggested s1, .suggested s2 => if s1 = s2 then .suggested s1 else .unknown
      | _, _ => .unknown)

/-- `Solution::constrained_subst` (the substitution part) -/
def Solution.substOpt : Solution → Option Args
  | .unique _ s _ => some s
  | .ambig (.definite c) => some c.value
  | .ambig (.suggested c) => some c.value
  | .ambig .unknown => none

/-- `DomainGoal::inputs`: the alias of an `AliasEq`, as a type -/
def DomainGoal.inputs : DomainGoal → List Ty
  | .holds (.aliasEqProj id a _) => [.proj id a]
  | .holds (.aliasEqOpaque id a _) => [.opaque id a]
  | _ => []

/-- `calculate_inputs`: apply the solution's substitution to the goal, take its inputs -/
def calculateInputs (goal : DomainGoal) (s : Solution) : Res (List Ty) :=
  match s.substOpt with
  | some subst => match foldDomainGoal (applyFolder subst.toList) 0 goal with
      | .ok g => .ok g.inputs
      | .error e => .error e
  | none => .ok goal.inputs

/-- `with_priorities`; priorities: `true` = High -/
def withPriorities (goal : DomainGoal) (a : Solution) (pa : Bool) (b : Solution) (pb : Bool) :
    Res (Solution × Bool) :=
  if pa = pb then .ok (a.combine b, pa)
  else
    let higher := if pa then a else b
    let lower := if pa then b else a
    match calculateInputs goal higher with
    | .error e => .error e
    | .ok ih => match calculateInputs goal lower with
      | .error e => .error e
      | .ok il => if ih = il then .ok (higher, true) else .ok (higher.combine lower, true)

end Chalk
