/-
  C19 — coherence checking is total and its accepted priorities are consistent.
  Property theorems only; the model is `ChalkModel/Coherence.lean` (it mirrors /repo AFTER the
  repair of finding F4), helper lemmas are in `Lemmas/CoherenceLemmas.lean`.

  Conventions: impls of one trait are numbered `0..n-1` in source order; `inp.oracle l r` holds the
  three solver answers for the pair `l < r`; `specializationPriorities inp` is the outcome of
  `CoherenceSolver::specialization_priorities` (`ok` with the priority map / `overlap` =
  `Err(OverlappingImpls)` / `panic`).  In the set-theoretic reading impl `i` applies exactly to the
  trait references in `S i` (any type `τ` of trait references, sets of any size).
-/
import ChalkModel.Lemmas.CoherenceLemmas

namespace Chalk.C19
open Chalk.Coherence

/-! ## Totality (full strength: every number of impls, every table of solver answers, every
    assignment of the marker / negative flags) -/

/-- The coherence check of a trait never panics. -/
theorem coherence_total (inp : Input) : specializationPriorities inp ≠ .panic :=
  specializationPriorities_ne_panic inp

/-- … it ends with acceptance or with the overlap error. -/
theorem coherence_total_cases (inp : Input) :
    (∃ pm, specializationPriorities inp = .ok pm) ∨ specializationPriorities inp = .overlap := by
  cases h : specializationPriorities inp with
  | ok pm => exact Or.inl ⟨pm, rfl⟩
  | overlap => exact Or.inr rfl
  | panic => exact absurd h (coherence_total inp)

/-- Finding F4, on the code before the repair: three impls that specialize one another in a chain
    (`impl<T> Foo for T`, `impl<T> Foo for Vec<T>`, `impl Foo for Vec<I32>`: every pair overlaps
    and the later impl is the more special one) trip `assert!(old_value.is_none())`. -/
theorem legacy_assert_trips_on_chain :
    Legacy.specializationPriorities
      (Input.ofTable 3 false [false, false, false]
        [⟨false, true, false⟩, ⟨false, true, false⟩, ⟨false, true, false⟩]) = .panic := by
  decide

/-- The same table on the repaired code: accepted, priorities 0, 1, 2. -/
theorem chain_accepted :
    specializationPriorities
      (Input.ofTable 3 false [false, false, false]
        [⟨false, true, false⟩, ⟨false, true, false⟩, ⟨false, true, false⟩])
      = .ok [(0, 0), (2, 2), (1, 1)] := by
  decide

/-- A table no set-theoretic oracle produces (cyclic "specializes" answers 0 → 1 → 2 → 3 → 1
    below the root 0): the depth test of `set_priorities` reports it as an overlap. -/
example :
    specializationPriorities
      (Input.ofTable 4 false []
        [⟨false, true, false⟩, ⟨true, false, false⟩, ⟨true, false, false⟩,
         ⟨false, true, false⟩, ⟨false, false, true⟩, ⟨false, true, false⟩]) = .overlap := by
  decide

/-! ## Consistency of accepted priorities under the set-theoretic oracle -/

/-- The property's sentence read literally, for every impl whatever its flags. -/
def PrioritiesConsistent {τ : Type} (S : Nat → τ → Prop) (inp : Input) (pm : PMap) : Prop :=
  (∀ i j, i < inp.n → j < inp.n → i ≠ j → ∀ p, pm.get? i = some p → pm.get? j = some p →
      ¬ Overlap (S i) (S j)) ∧
  (∀ i j, i < inp.n → j < inp.n → StrictSub (S j) (S i) →
      ∃ pi pj, pm.get? i = some pi ∧ pm.get? j = some pj ∧ pi < pj)

/-- What holds (and is what the code intends): for a trait that is not a marker trait, and for
    impls `i ≠ j` that are not both negative,
    * if they apply to a common trait reference, both have a priority and the two differ — so
      equal priorities (or no priority at all) imply disjoint sets;
    * if `j` applies to a non-empty strict subset of what `i` applies to, `j` has the strictly
      higher priority. -/
theorem priorities_consistent_partial {τ : Type} (S : Nat → τ → Prop) (inp : Input) (pm : PMap)
    (hS : SetOracle S inp) (hmarker : inp.marker = false)
    (h : specializationPriorities inp = .ok pm) :
    (∀ i j, i < inp.n → j < inp.n → i ≠ j →
        ¬ (inp.negative i = true ∧ inp.negative j = true) →
        pm.get? i = pm.get? j → ¬ Overlap (S i) (S j)) ∧
    (∀ i j, i < inp.n → j < inp.n →
        ¬ (inp.negative i = true ∧ inp.negative j = true) →
        StrictSub (S j) (S i) → (∃ x, S j x) →
        ∃ pi pj, pm.get? i = some pi ∧ pm.get? j = some pj ∧ pi < pj) := by
  refine ⟨?_, ?_⟩
  · intro i j hi hj hij hneg heq hov
    obtain ⟨pa, pb, ha, hb, hne, _⟩ := overlap_priorities S inp pm hS hmarker h i j hi hj hij hneg hov
    rw [ha, hb] at heq
    simp only [Option.some.injEq] at heq
    exact hne heq
  · intro i j hi hj hneg hsub ⟨x, hx⟩
    have hij : i ≠ j := by
      rintro rfl; exact StrictSub.irrefl _ hsub
    have hov : Overlap (S i) (S j) := ⟨x, hsub.1 x hx, hx⟩
    obtain ⟨pa, pb, ha, hb, _, hlt⟩ := overlap_priorities S inp pm hS hmarker h i j hi hj hij hneg hov
    exact ⟨pa, pb, ha, hb, hlt hsub⟩

/-- Same hypotheses, in the literal form "equal priority ⇒ no common trait reference". -/
theorem equal_priority_disjoint_partial {τ : Type} (S : Nat → τ → Prop) (inp : Input) (pm : PMap)
    (hS : SetOracle S inp) (hmarker : inp.marker = false)
    (h : specializationPriorities inp = .ok pm)
    (i j : Nat) (hi : i < inp.n) (hj : j < inp.n) (hij : i ≠ j)
    (hneg : ¬ (inp.negative i = true ∧ inp.negative j = true))
    (p : Nat) (hpi : pm.get? i = some p) (hpj : pm.get? j = some p) (x : τ) :
    ¬ (S i x ∧ S j x) := by
  intro hx
  exact (priorities_consistent_partial S inp pm hS hmarker h).1 i j hi hj hij hneg
    (hpi.trans hpj.symm) ⟨x, hx⟩

/-! ### The literal sentence is false of the code in four corner classes (all intended by the
    code: marker traits may overlap, two negative impls never conflict, an impl that applies to
    nothing is disjoint from everything).  Witnesses over `τ = Bool`. -/

/-- sets of trait references over `Bool` from a membership table -/
def setOf (tbl : Nat → Bool → Bool) : Nat → Bool → Prop := fun i x => tbl i x = true

/-- W1: `impl Foo for T` (positive, everything), two negative impls for the same single
    reference.  The negative pair is skipped, both get priority 1, and they overlap. -/
def w1 : Input := Input.ofTable 3 false [false, true, true]
  [⟨false, true, false⟩, ⟨false, true, false⟩, ⟨false, false, false⟩]
def w1S : Nat → Bool → Prop := setOf (fun i x => i == 0 || x)

/-- W2: marker trait, impl 1 inside impl 0: accepted with no priorities. -/
def w2 : Input := Input.ofTable 2 true [false, false] [⟨false, true, false⟩]
/-- W3: impl 1 applies to nothing (disjoint from impl 0, yet a strict subset of it). -/
def w3 : Input := Input.ofTable 2 false [false, false] [⟨true, true, false⟩]
def w3S : Nat → Bool → Prop := setOf (fun i x => i == 0 && x)
/-- W4: two negative impls, impl 1 inside impl 0: pair skipped, no priorities. -/
def w4 : Input := Input.ofTable 2 false [true, true] [⟨false, true, false⟩]

theorem setOracle2 (S : Nat → Bool → Prop) (inp : Input) (hn : inp.n = 2)
    (h0 : (inp.oracle 0 1).disjoint = true ↔ ¬ Overlap (S 0) (S 1))
    (h1 : (inp.oracle 0 1).specLR = true ↔ StrictSub (S 1) (S 0))
    (h2 : (inp.oracle 0 1).specRL = true ↔ StrictSub (S 0) (S 1)) : SetOracle S inp := by
  constructor <;> intro l r hlr hr <;> rw [hn] at hr <;>
    (obtain ⟨rfl, rfl⟩ : l = 0 ∧ r = 1 := by omega) <;> assumption

theorem w1_setOracle : SetOracle w1S w1 := by
  constructor <;> intro l r hlr hr <;>
    (have hr' : r < 3 := hr) <;>
    (obtain ⟨rfl, rfl⟩ | ⟨rfl, rfl⟩ | ⟨rfl, rfl⟩ :
      (l = 0 ∧ r = 1) ∨ (l = 0 ∧ r = 2) ∨ (l = 1 ∧ r = 2) := by omega) <;>
    simp only [StrictSub, Overlap, w1S, setOf] <;> decide

theorem w2_setOracle : SetOracle w1S w2 := by
  apply setOracle2 _ _ rfl <;> simp only [StrictSub, Overlap, w1S, setOf] <;> decide

theorem w3_setOracle : SetOracle w3S w3 := by
  apply setOracle2 _ _ rfl <;> simp only [StrictSub, Overlap, w3S, setOf] <;> decide

theorem w4_setOracle : SetOracle w1S w4 := by
  apply setOracle2 _ _ rfl <;> simp only [StrictSub, Overlap, w1S, setOf] <;> decide

/-- Equal priorities, overlapping sets: two negative impls below a common positive one. -/
theorem equal_priority_overlap_negative_pair :
    specializationPriorities w1 = .ok [(0, 0), (2, 1), (1, 1)] ∧
    PMap.get? [(0, 0), (2, 1), (1, 1)] 1 = some 1 ∧ PMap.get? [(0, 0), (2, 1), (1, 1)] 2 = some 1 ∧
    Overlap (w1S 1) (w1S 2) := by
  refine ⟨by decide, by decide, by decide, ?_⟩
  simp only [Overlap, w1S, setOf]; decide

/-- Strict subset without a higher priority: marker trait. -/
theorem strict_subset_no_priority_marker :
    specializationPriorities w2 = .ok [] ∧ StrictSub (w1S 1) (w1S 0) := by
  refine ⟨by decide, ?_⟩
  simp only [StrictSub, w1S, setOf]; decide

/-- Strict subset without a higher priority: the smaller impl applies to nothing. -/
theorem strict_subset_no_priority_empty_impl :
    specializationPriorities w3 = .ok [] ∧ StrictSub (w3S 1) (w3S 0) := by
  refine ⟨by decide, ?_⟩
  simp only [StrictSub, w3S, setOf]; decide

/-- Strict subset without a higher priority: two negative impls. -/
theorem strict_subset_no_priority_negative_pair :
    specializationPriorities w4 = .ok [] ∧ StrictSub (w1S 1) (w1S 0) := by
  refine ⟨by decide, ?_⟩
  simp only [StrictSub, w1S, setOf]; decide

/-- Hence the literal statement, quantified over all flags, is refuted (both of its clauses). -/
theorem priorities_consistent_literal_false :
    ¬ (∀ (S : Nat → Bool → Prop) (inp : Input) (pm : PMap), SetOracle S inp →
        specializationPriorities inp = .ok pm → PrioritiesConsistent S inp pm) := by
  intro hall
  obtain ⟨hrun, h1, h2, hov⟩ := equal_priority_overlap_negative_pair
  exact (hall w1S w1 _ w1_setOracle hrun).1 1 2 (by decide) (by decide) (by decide) 1 h1 h2 hov

theorem priorities_consistent_literal_false_clause2 :
    ¬ (∀ (S : Nat → Bool → Prop) (inp : Input) (pm : PMap), SetOracle S inp → inp.marker = false →
        (∀ i, inp.negative i = false) →
        specializationPriorities inp = .ok pm → PrioritiesConsistent S inp pm) := by
  intro hall
  obtain ⟨hrun, hsub⟩ := strict_subset_no_priority_empty_impl
  obtain ⟨pi, pj, hi, _⟩ :=
    (hall w3S w3 _ w3_setOracle rfl (by intro i; simp [w3, Input.ofTable, List.getD]; rcases i with _ | _ | i <;> simp) hrun).2
      0 1 (by decide) (by decide) hsub
  simp [PMap.get?] at hi

/-! ### Non-vacuity of the hypotheses of `priorities_consistent_partial` -/

/-- the chain `everything ⊋ {1, 2} ⊋ {2}` over `Fin 3` -/
def chainS : Nat → Fin 3 → Prop := fun i x => i ≤ x.val

def chain3 : Input := Input.ofTable 3 false [false, false, false]
  [⟨false, true, false⟩, ⟨false, true, false⟩, ⟨false, true, false⟩]

theorem chain3_setOracle : SetOracle chainS chain3 := by
  constructor <;> intro l r hlr hr <;>
    (have hr' : r < 3 := hr) <;>
    (obtain ⟨rfl, rfl⟩ | ⟨rfl, rfl⟩ | ⟨rfl, rfl⟩ :
      (l = 0 ∧ r = 1) ∨ (l = 0 ∧ r = 2) ∨ (l = 1 ∧ r = 2) := by omega) <;>
    simp only [StrictSub, Overlap, chainS] <;> decide

example : ∃ pm, specializationPriorities chain3 = .ok pm ∧ chain3.marker = false ∧
    SetOracle chainS chain3 ∧ StrictSub (chainS 2) (chainS 1) ∧ (∃ x, chainS 2 x) ∧
    pm.get? 0 = some 0 ∧ pm.get? 1 = some 1 ∧ pm.get? 2 = some 2 :=
  ⟨[(0, 0), (2, 2), (1, 1)], by decide, rfl, chain3_setOracle,
    by simp only [StrictSub, chainS]; decide, ⟨2, by simp [chainS]⟩, by decide, by decide, by decide⟩

/-- two identical impls: rejected -/
example : specializationPriorities (Input.ofTable 2 false [] [⟨false, false, false⟩]) = .overlap := by
  decide

end Chalk.C19

#print axioms Chalk.C19.coherence_total
#print axioms Chalk.C19.coherence_total_cases
#print axioms Chalk.C19.legacy_assert_trips_on_chain
#print axioms Chalk.C19.chain_accepted
#print axioms Chalk.C19.priorities_consistent_partial
#print axioms Chalk.C19.equal_priority_disjoint_partial
#print axioms Chalk.C19.setOracle2
#print axioms Chalk.C19.w1_setOracle
#print axioms Chalk.C19.w2_setOracle
#print axioms Chalk.C19.w3_setOracle
#print axioms Chalk.C19.w4_setOracle
#print axioms Chalk.C19.equal_priority_overlap_negative_pair
#print axioms Chalk.C19.strict_subset_no_priority_marker
#print axioms Chalk.C19.strict_subset_no_priority_empty_impl
#print axioms Chalk.C19.strict_subset_no_priority_negative_pair
#print axioms Chalk.C19.priorities_consistent_literal_false
#print axioms Chalk.C19.priorities_consistent_literal_false_clause2
#print axioms Chalk.C19.chain3_setOracle
