/-
  C01, generalisation ("theorem on constants").  `Props/C01.lean` certifies an accepted `Unique σ`
  for the GENERIC instantiation of `σ`'s own variables (variable `i` ↦ the opaque constant `!g<i>`).
  The property says "for EVERY instantiation".  Here: opaque constants that occur nowhere in the
  program, the goal and the answer may be replaced by arbitrary terms, for positive goals (no `not`),
  hence the generic instance implies every instance; for goals with negation this is false
  (`generalisation_fails_with_negation`).  Helpers: `Lemmas/GenericLemmas.lean`.
-/
import ChalkModel.Lemmas.GenericLemmas
import ChalkModel.Props.C01
import Std.Data.String.ToNat

namespace Chalk.C01gen
open Chalk.Sem

/-! ### any injective naming of fresh constants -/

/-- variable `i` ↦ the constant `name i` -/
def genericSubstN (name : Nat → String) : Nat → Tm := fun i => .app (name i) .nil

/-- the symbol `c` is one of the names -/
def IsName (name : Nat → String) (c : String) : Prop := ∃ j, name j = c

open Classical in
/-- the replacement `name j ↦ τ j` (a proof device, not executable) -/
noncomputable def nameRepl (name : Nat → String) (τ : Nat → Tm) : String → Option Tm :=
  fun c => if h : ∃ j, name j = c then some (τ (Classical.choose h)) else none

theorem nameRepl_none (name : Nat → String) (τ : Nat → Tm) (c : String) (h : ¬ IsName name c) :
    nameRepl name τ c = none := by
  unfold nameRepl
  exact dif_neg h

theorem nameRepl_name (name : Nat → String) (hinj : ∀ i j, name i = name j → i = j) (τ : Nat → Tm) (j : Nat) :
    nameRepl name τ (name j) = some (τ j) := by
  have h : ∃ i, name i = name j := ⟨j, rfl⟩
  unfold nameRepl
  rw [dif_pos h, hinj _ _ (Classical.choose_spec h)]

/-- The theorem on constants for goals with an answer substitution, for ANY injective naming of
    fresh constants: if the positive goal instantiated by `σ`, with `σ`'s own variables replaced by
    the fresh constants, holds, then it holds with `σ`'s variables replaced by arbitrary terms. -/
theorem generic_instance_generalises_named (name : Nat → String) (hinj : ∀ i j, name i = name j → i = j)
    (P : Program) (g : Goal) (σ : List Tm) (τ : Nat → Tm)
    (hP : P.Avoids (IsName name)) (hg : g.Avoids (IsName name)) (hpos : g.Positive)
    (hσ : ∀ t ∈ σ, t.Avoids (IsName name))
    (h : GHolds P [] (g.inst (fun i => (σ.getD i (.var i)).inst (genericSubstN name)))) :
    GHolds P [] (g.inst (fun i => (σ.getD i (.var i)).inst τ)) := by
  have hρ := nameRepl_none name τ
  have h2 := GHolds.repl hρ hP _ (Goal.positive_inst _ g hpos) [] h
  rw [Goal.repl_inst hρ _ g hg] at h2
  have hfun : (fun i => ((σ.getD i (.var i)).inst (genericSubstN name)).repl (nameRepl name τ)) =
      (fun i => (σ.getD i (.var i)).inst τ) := by
    funext i
    rw [Tm.repl_inst hρ _ _ (avoids_getD hσ i)]
    congr 1
    funext j
    simp [genericSubstN, Tm.repl, nameRepl_name name hinj τ j]
  rw [hfun] at h2
  exact h2

/-! ### the concrete naming `!g<i>` of `Contract.lean` -/

def genericName (i : Nat) : String := "!g" ++ toString i

theorem genericSubst_eq : genericSubst = genericSubstN genericName := rfl

theorem genericName_injective : ∀ i j, genericName i = genericName j → i = j := by
  intro i j h
  unfold genericName at h
  rw [String.append_right_inj] at h
  exact Nat.repr_injective h

/-- executable: the symbol starts with `!g` -/
def isGenericNameB (c : String) : Bool :=
  match c.toList with
  | '!' :: 'g' :: _ => true
  | _ => false

theorem not_isName_of_isGenericNameB_false (c : String) (h : (!isGenericNameB c) = true) :
    ¬ IsName genericName c := by
  rintro ⟨j, rfl⟩
  simp [isGenericNameB, genericName, String.toList_append] at h

/-- executable side conditions: no symbol starting with `!g` occurs -/
def Tm.avoidsGenericB (t : Tm) : Bool := t.allSyms (fun c => !isGenericNameB c)
def Program.avoidsGenericB (P : Program) : Bool := P.allSyms (fun c => !isGenericNameB c)
def Goal.avoidsGenericB (g : Goal) : Bool := g.allSyms (fun c => !isGenericNameB c)
def answerAvoidsGenericB (σ : List Tm) : Bool := σ.all Tm.avoidsGenericB

theorem Tm.avoids_of_avoidsGenericB (t : Tm) (h : Tm.avoidsGenericB t = true) : t.Avoids (IsName genericName) :=
  Tm.avoids_of_allSyms not_isName_of_isGenericNameB_false t h
theorem Program.avoids_of_avoidsGenericB (P : Program) (h : Program.avoidsGenericB P = true) :
    P.Avoids (IsName genericName) :=
  Program.avoids_of_allSyms not_isName_of_isGenericNameB_false P h
theorem Goal.avoids_of_avoidsGenericB (g : Goal) (h : Goal.avoidsGenericB g = true) :
    g.Avoids (IsName genericName) :=
  Goal.avoids_of_allSyms not_isName_of_isGenericNameB_false g h
theorem answer_avoids_of_avoidsGenericB (σ : List Tm) (h : answerAvoidsGenericB σ = true) :
    ∀ t ∈ σ, t.Avoids (IsName genericName) := by
  simp only [answerAvoidsGenericB, List.all_eq_true] at h
  exact fun t ht => Tm.avoids_of_avoidsGenericB t (h t ht)

/-- The generic instance of an answer generalises to every instance (Prop side conditions). -/
theorem generic_instance_generalises (P : Program) (g : Goal) (σ : List Tm) (τ : Nat → Tm)
    (hP : P.Avoids (IsName genericName)) (hg : g.Avoids (IsName genericName)) (hpos : g.Positive)
    (hσ : ∀ t ∈ σ, t.Avoids (IsName genericName)) :
    GHolds P [] (g.inst (fun i => (σ.getD i (.var i)).inst genericSubst)) →
    GHolds P [] (g.inst (fun i => (σ.getD i (.var i)).inst τ)) := by
  rw [genericSubst_eq]
  exact generic_instance_generalises_named genericName genericName_injective P g σ τ hP hg hpos hσ

/-- The same with the executable side conditions. -/
theorem generic_instance_generalises_B (P : Program) (g : Goal) (σ : List Tm) (τ : Nat → Tm)
    (hP : Program.avoidsGenericB P = true) (hg : Goal.avoidsGenericB g = true) (hpos : g.positiveB = true)
    (hσ : answerAvoidsGenericB σ = true) :
    GHolds P [] (g.inst (fun i => (σ.getD i (.var i)).inst genericSubst)) →
    GHolds P [] (g.inst (fun i => (σ.getD i (.var i)).inst τ)) :=
  generic_instance_generalises P g σ τ (Program.avoids_of_avoidsGenericB P hP) (Goal.avoids_of_avoidsGenericB g hg)
    ((Goal.positive_iff_positiveB g).mpr hpos) (answer_avoids_of_avoidsGenericB σ hσ)

/-- C01, soundness half in full: an accepted `Unique σ` for a positive goal holds for EVERY
    instantiation of `σ`'s variables (program, goal and answer do not mention `!g…` symbols). -/
theorem accepted_unique_holds_every_instance (P : Program) (fuel : Nat) (g : Goal) (cands : List (List Tm))
    (slg : Bool) (σ : List Tm) (st : String)
    (h : judgeAnswer P fuel g cands slg (.unique σ) = .accepted st)
    (hP : Program.avoidsGenericB P = true) (hg : Goal.avoidsGenericB g = true) (hpos : g.positiveB = true)
    (hσ : answerAvoidsGenericB σ = true) :
    ∀ τ : Nat → Tm, GHolds P [] (g.inst (fun i => (σ.getD i (.var i)).inst τ)) :=
  fun τ => generic_instance_generalises_B P g σ τ hP hg hpos hσ
    (Chalk.C01.accepted_unique_holds P fuel g cands slg σ st h)

/-! ### non-vacuity: `impl<T> Foo for Vec<T>`, goal `Foo(?0)`, answer `?0 := Vec<^0>` -/

def exP : Program := ⟨[⟨⟨"Foo", .cons (.app "Vec" (.cons (.var 0) .nil)) .nil⟩, []⟩], fun _ => false⟩
def exG : Goal := .atom ⟨"Foo", .cons (.var 0) .nil⟩
def exσ : List Tm := [.app "Vec" (.cons (.var 0) .nil)]

example : Program.avoidsGenericB exP = true ∧ Goal.avoidsGenericB exG = true ∧ exG.positiveB = true ∧
    answerAvoidsGenericB exσ = true := by decide

example : ∃ st, judgeAnswer exP 3 exG [] false (.unique exσ) = .accepted st := ⟨_, rfl⟩

/-- the conclusion used at a concrete `τ`: `Foo(Vec<u32>)` holds -/
example : GHolds exP [] (.atom ⟨"Foo", .cons (.app "Vec" (.cons (.app "u32" .nil) .nil)) .nil⟩) := by
  have h : judgeAnswer exP 3 exG [] false (.unique exσ) = .accepted "unique:A+bounded" := rfl
  exact accepted_unique_holds_every_instance exP 3 exG [] false exσ _ h (by decide) (by decide) (by decide)
    (by decide) (fun _ => .app "u32" .nil)

/-! a second one with a where clause and a hypothetical goal: `impl<T: Foo> Foo for Vec<T>`,
    `impl Foo for u32`, goal `if (Foo(?0)) { Foo(Vec<?0>) }` with the identity answer -/

def ex2P : Program :=
  ⟨[⟨⟨"Foo", .cons (.app "Vec" (.cons (.var 0) .nil)) .nil⟩, [⟨"Foo", .cons (.var 0) .nil⟩]⟩,
    ⟨⟨"Foo", .cons (.app "u32" .nil) .nil⟩, []⟩], fun _ => false⟩
def ex2G : Goal :=
  .implies [⟨"Foo", .cons (.var 0) .nil⟩] (.atom ⟨"Foo", .cons (.app "Vec" (.cons (.var 0) .nil)) .nil⟩)

example (t : Tm) : GHolds ex2P [⟨"Foo", .cons t .nil⟩] (.atom ⟨"Foo", .cons (.app "Vec" (.cons t .nil)) .nil⟩) := by
  have h : judgeAnswer ex2P 4 ex2G [] false (.unique []) = .accepted "unique:A+bounded" := rfl
  exact accepted_unique_holds_every_instance ex2P 4 ex2G [] false [] _ h (by decide) (by decide) (by decide)
    (by decide) (fun _ => t)

/-! ### the restriction to positive goals is necessary -/

def cexP : Program := ⟨[⟨⟨"Foo", .cons (.app "u32" .nil) .nil⟩, []⟩], fun _ => false⟩
def cexG : Goal := .not (.atom ⟨"Foo", .cons (.var 0) .nil⟩)

theorem cexP_holds_only (a : Atom) (h : Holds cexP [] a) : a = ⟨"Foo", .cons (.app "u32" .nil) .nil⟩ := by
  refine h (fun a => a = ⟨"Foo", .cons (.app "u32" .nil) .nil⟩) ?_
  intro x hx
  rcases hx with h1 | ⟨h1, _⟩ | ⟨_, c, hc, σ, hs, _⟩
  · cases h1
  · cases h1
  · simp only [cexP, List.mem_singleton] at hc
    subst hc
    rw [← hs]
    rfl

/-- With negation the generic instance does NOT generalise: `not Foo(?0)` with the identity answer
    holds for the opaque constant `!g0` and fails for `?0 := u32`; all other side conditions hold. -/
theorem generalisation_fails_with_negation :
    Program.avoidsGenericB cexP = true ∧ Goal.avoidsGenericB cexG = true ∧ answerAvoidsGenericB [] = true ∧
    cexG.positiveB = false ∧
    GHolds cexP [] (cexG.inst (fun i => (([] : List Tm).getD i (.var i)).inst genericSubst)) ∧
    ¬ GHolds cexP [] (cexG.inst (fun i => (([] : List Tm).getD i (.var i)).inst (fun _ => .app "u32" .nil))) := by
  refine ⟨by decide, by decide, by decide, rfl, ?_, ?_⟩
  · intro hh
    have := cexP_holds_only _ hh
    simp only [Atom.inst, Tms.inst, Tm.inst, List.getD_nil, genericSubst, Atom.mk.injEq,
      Tms.cons.injEq, Tm.app.injEq, true_and, and_true] at this
    exact absurd this (by decide)
  · intro hn
    apply hn
    show Holds cexP [] _
    apply Holds.closed
    refine Or.inr (Or.inr ⟨rfl, _, List.mem_singleton.mpr rfl, fun i => .var i, rfl, ?_⟩)
    intro b hb
    cases hb

end Chalk.C01gen

#print axioms Chalk.Sem.Tm.repl_inst
#print axioms Chalk.Sem.Tms.repl_inst
#print axioms Chalk.Sem.Atom.repl_inst
#print axioms Chalk.Sem.Goal.repl_inst
#print axioms Chalk.Sem.ViaClause.repl
#print axioms Chalk.Sem.ViaClause.repl_image
#print axioms Chalk.Sem.CoHolds.repl
#print axioms Chalk.Sem.Holds.closed
#print axioms Chalk.Sem.Holds.repl
#print axioms Chalk.Sem.GHolds.repl
#print axioms Chalk.Sem.Goal.positive_iff_positiveB
#print axioms Chalk.Sem.Program.avoids_of_allSyms
#print axioms Chalk.Sem.Goal.avoids_of_allSyms
#print axioms Chalk.C01gen.nameRepl_none
#print axioms Chalk.C01gen.nameRepl_name
#print axioms Chalk.C01gen.generic_instance_generalises_named
#print axioms Chalk.C01gen.genericSubst_eq
#print axioms Chalk.C01gen.genericName_injective
#print axioms Chalk.C01gen.not_isName_of_isGenericNameB_false
#print axioms Chalk.C01gen.Tm.avoids_of_avoidsGenericB
#print axioms Chalk.C01gen.Program.avoids_of_avoidsGenericB
#print axioms Chalk.C01gen.Goal.avoids_of_avoidsGenericB
#print axioms Chalk.C01gen.answer_avoids_of_avoidsGenericB
#print axioms Chalk.C01gen.generic_instance_generalises
#print axioms Chalk.C01gen.generic_instance_generalises_B
#print axioms Chalk.C01gen.accepted_unique_holds_every_instance
#print axioms Chalk.C01gen.cexP_holds_only
#print axioms Chalk.C01gen.generalisation_fails_with_negation
