/-
  C08 — built-in traits follow the language's structural rules.
  Property theorems only.  Model: `ChalkModel/Builtin.lean` (spec `BuiltinHolds`: one rule per
  sentence of the property / the Rust reference, plus the program's explicit impls; clause model
  `ClauseInst` after `add_builtin_program_clauses`, `sized.rs`, `copy.rs`, `clone.rs`, `tuple.rs`,
  `last_field_of_struct`, `ImplDatum::to_program_clauses`; meaning `Holds` = least fixed point;
  `decideGoal` = resolution with ancestor check, what the driver runs and what is compared with both
  real solvers).  Lemmas: `Lemmas/BuiltinLemmas.lean`, `Lemmas/GroundResLemmas.lean`.

  All statements are for every program (any table of type constructors, any struct / enum / union
  declarations with any fields, generic or recursive; any list of explicit impls, generic,
  overlapping or recursive) and every type term of any size.
-/
import ChalkModel.Lemmas.BuiltinLemmas

namespace Chalk.C08
open Chalk.Builtin
open Chalk.Sem (Tm Tms Verdict)

/-- The atoms derivable from the clauses chalk generates for Sized / Copy / Clone / Tuple / FnPtr
    are exactly the ones the rules grant. -/
theorem builtinClauses_iff_spec (P : Program) (tr : Trait) (ty : Tm) :
    Holds P ⟨tr, ty⟩ ↔ BuiltinHolds P tr ty :=
  holds_iff_spec P tr ty

/-- The executable enumeration of matching clause instances produces only instances … -/
theorem clausesFor_sound (P : Program) (g : Goal) (body : List Goal) (h : body ∈ clausesFor P g) :
    ClauseInst P g body :=
  Builtin.clausesFor_sound P g body h

/-- … and all of them, when every impl parameter occurs in the impl header (rustc's E0207;
    otherwise the clause has an existential variable and matching the header cannot find it). -/
theorem clausesFor_complete (P : Program) (hp : P.implParamsInHeader = true) (g : Goal) (body : List Goal)
    (h : ClauseInst P g body) : body ∈ clausesFor P g :=
  Builtin.clausesFor_complete P hp g body h

/-- A `yes` of the model's decision procedure certifies the spec (any program, any fuel). -/
theorem decide_yes (P : Program) (fuel : Nat) (g : Goal) (h : decideGoal P fuel g = .yes) :
    BuiltinHolds P g.tr g.ty :=
  (holds_iff_spec P g.tr g.ty).1 (holds_of_derivable P g (GroundRes.solve_yes _ fuel [] g h))

/-- A `no` refutes it (the ancestor check is sound: an inductive cycle proves nothing). -/
theorem decide_no (P : Program) (hp : P.implParamsInHeader = true) (fuel : Nat) (g : Goal)
    (h : decideGoal P fuel g = .no) : ¬ BuiltinHolds P g.tr g.ty := by
  intro hs
  have hh : Holds P g := (holds_iff_spec P g.tr g.ty).2 hs
  exact GroundRes.solve_no _ fuel g h ((derivable_iff_holds P hp g).2 hh)

/-! ### the sentences of the property, read off the spec (programs without an explicit impl of
    the trait in question, so that only the structural rules speak) -/

/-- "slices, str and trait objects are never Sized" -/
theorem unsized_never_sized (P : Program) (hno : ∀ im ∈ P.impls, im.trait ≠ .sized) (c : String) (args : Tms)
    (hk : P.ctor c = .slice ∨ P.ctor c = .str ∨ P.ctor c = .dyn) :
    ¬ BuiltinHolds P .sized (.app c args) := by
  intro h
  rcases spec_inv P h with ⟨c', args', body, hty, hb, _⟩ | ⟨im, him, _, htr, _⟩
  · cases hty
    rcases hk with hk | hk | hk <;> simp [builtinClauses, sizedClauses, hk] at hb
  · exact hno im him htr

/-- "tuples are Copy exactly when their elements are" -/
theorem tuple_copy_iff_elements (P : Program) (hno : ∀ im ∈ P.impls, im.trait ≠ .copy) (c : String) (args : Tms)
    (hk : P.ctor c = .tuple) :
    BuiltinHolds P .copy (.app c args) ↔ ∀ t ∈ Tms.toList args, BuiltinHolds P .copy t := by
  constructor
  · intro h
    rcases spec_inv P h with ⟨c', args', body, hty, hb, hall⟩ | ⟨im, him, _, htr, _⟩
    · cases hty
      cases args with
      | nil => simp [Tms.toList]
      | cons t ts =>
          simp only [builtinClauses, copyClauses, hk, List.mem_singleton] at hb
          subst hb
          intro u hu
          exact hall ⟨.copy, u⟩ (by simpa [needsImplForTys] using hu)
    · exact absurd htr (hno im him)
  · intro h
    exact .copy_tuple rfl hk h

/-- "arrays are Copy exactly when their elements are" -/
theorem array_copy_iff_element (P : Program) (hno : ∀ im ∈ P.impls, im.trait ≠ .copy) (c : String)
    (elem : Tm) (rest : Tms) (hk : P.ctor c = .array) :
    BuiltinHolds P .copy (.app c (.cons elem rest)) ↔ BuiltinHolds P .copy elem := by
  constructor
  · intro h
    rcases spec_inv P h with ⟨c', args', body, hty, hb, hall⟩ | ⟨im, him, _, htr, _⟩
    · cases hty
      simp only [builtinClauses, copyClauses, hk, List.mem_singleton] at hb
      subst hb
      exact hall ⟨.copy, elem⟩ (by simp [needsImplForTys])
    · exact absurd htr (hno im him)
  · intro h
    exact .copy_array rfl hk h

/-- "a struct is Sized exactly when it has no fields or its last field is" -/
theorem struct_sized_iff_last_field (P : Program) (hno : ∀ im ∈ P.impls, im.trait ≠ .sized) (c : String)
    (args : Tms) (id : Nat) (fields : List Tm) (hk : P.ctor c = .adt id) (hd : P.adt id = .struct fields) :
    BuiltinHolds P .sized (.app c args) ↔
      (fields = [] ∨ ∃ last, fields.getLast? = some last ∧ BuiltinHolds P .sized (substArgs args last)) := by
  constructor
  · intro h
    rcases spec_inv P h with ⟨c', args', body, hty, hb, hall⟩ | ⟨im, him, _, htr, _⟩
    · cases hty
      simp only [builtinClauses, sizedClauses, hk, hd, lastFieldOfStruct, List.mem_singleton] at hb
      subst hb
      cases hl : fields.getLast? with
      | none => exact Or.inl (by simpa using hl)
      | some last =>
          exact Or.inr ⟨last, rfl, hall ⟨.sized, substArgs args last⟩ (by simp [needsImplForTys, hl])⟩
    · exact absurd htr (hno im him)
  · rintro (rfl | ⟨last, hl, hs⟩)
    · exact .sized_struct_empty hk hd
    · exact .sized_struct hk hd hl hs

/-- "an enum is always Sized" (what chalk does: only structs look at a field) -/
theorem enum_sized (P : Program) (c : String) (args : Tms) (id : Nat) (vs : List (List Tm))
    (hk : P.ctor c = .adt id) (hd : P.adt id = .enum vs) : BuiltinHolds P .sized (.app c args) :=
  .sized_enum hk hd

/-- "Tuple: exactly the tuples; FnPtr: exactly the fn pointers" -/
theorem tuple_trait_iff (P : Program) (hno : ∀ im ∈ P.impls, im.trait ≠ .tuple) (c : String) (args : Tms) :
    BuiltinHolds P .tuple (.app c args) ↔ P.ctor c = .tuple := by
  constructor
  · intro h
    rcases spec_inv P h with ⟨c', args', body, hty, hb, _⟩ | ⟨im, him, _, htr, _⟩
    · cases hty
      cases hk : P.ctor c <;> simp [builtinClauses, hk] at hb ⊢
    · exact absurd htr (hno im him)
  · exact fun h => .tuple_tuple h

theorem fnPtr_trait_iff (P : Program) (hno : ∀ im ∈ P.impls, im.trait ≠ .fnPtr) (c : String) (args : Tms) :
    BuiltinHolds P .fnPtr (.app c args) ↔ P.ctor c = .fnPtr := by
  constructor
  · intro h
    rcases spec_inv P h with ⟨c', args', body, hty, hb, _⟩ | ⟨im, him, _, htr, _⟩
    · cases hty
      cases hk : P.ctor c <;> simp [builtinClauses, hk] at hb ⊢
    · exact absurd htr (hno im him)
  · exact fun h => .fnPtr_fnPtr h

/-- scalars are Copy only through an explicit impl (chalk leaves these impls to the program:
    "these impls are in libcore") -/
theorem scalar_copy_only_by_impl (P : Program) (hno : ∀ im ∈ P.impls, im.trait ≠ .copy) (c : String) (args : Tms)
    (hk : P.ctor c = .scalar) : ¬ BuiltinHolds P .copy (.app c args) := by
  intro h
  rcases spec_inv P h with ⟨c', args', body, hty, hb, _⟩ | ⟨im, him, _, htr, _⟩
  · cases hty
    simp [builtinClauses, copyClauses, hk] at hb
  · exact hno im him htr

/-! ### non-vacuity -/

def u8 : Tm := .app "u8" .nil
def tup (ts : List Tm) : Tm := .app "tuple" (ts.foldr .cons .nil)
def slice (t : Tm) : Tm := .app "slice" (.cons t .nil)
def vec (t : Tm) : Tm := .app "Vec" (.cons t .nil)

/-- `struct Foo { a: u8, b: [u8] }  struct Vec<T> { p: *const T }  struct A { b: B }  struct B { a: A }`
    `impl Copy for u8 {}  impl Clone for u8 {}  impl<T> Clone for Vec<T> where T: Clone {}` -/
def demo : Program :=
  ⟨fun n => if n = "u8" then .scalar else if n = "tuple" then .tuple else if n = "slice" then .slice
      else if n = "raw" then .raw else if n = "Foo" then .adt 0 else if n = "Vec" then .adt 1
      else if n = "A" then .adt 2 else if n = "B" then .adt 3 else .other,
   fun id => match id with
      | 0 => .struct [u8, slice u8]
      | 1 => .struct [.app "raw" (.cons (.var 0) .nil)]
      | 2 => .struct [.app "B" .nil]
      | _ => .struct [.app "A" .nil],
   [⟨.copy, u8, []⟩, ⟨.clone, u8, []⟩, ⟨.clone, vec (.var 0), [(.clone, .var 0)]⟩]⟩

example : demo.implParamsInHeader = true := by decide
example : decideGoal demo 8 ⟨.copy, tup [u8, tup [u8]]⟩ = .yes := by decide
example : decideGoal demo 8 ⟨.copy, tup [u8, slice u8]⟩ = .no := by decide
example : decideGoal demo 8 ⟨.sized, tup [slice u8, u8]⟩ = .yes := by decide
example : decideGoal demo 8 ⟨.sized, tup [u8, slice u8]⟩ = .no := by decide
example : decideGoal demo 8 ⟨.sized, .app "Foo" .nil⟩ = .no := by decide
example : decideGoal demo 8 ⟨.sized, vec (slice u8)⟩ = .yes := by decide
example : decideGoal demo 8 ⟨.clone, vec (vec u8)⟩ = .yes := by decide
example : decideGoal demo 8 ⟨.clone, vec (slice u8)⟩ = .no := by decide
-- mutually recursive structs: the inductive cycle proves nothing
example : decideGoal demo 8 ⟨.sized, .app "A" .nil⟩ = .no := by decide
example : decideGoal demo 8 ⟨.tuple, tup []⟩ = .yes := by decide
example : decideGoal demo 8 ⟨.tuple, u8⟩ = .no := by decide

end Chalk.C08

#print axioms Chalk.C08.builtinClauses_iff_spec
#print axioms Chalk.C08.clausesFor_sound
#print axioms Chalk.C08.clausesFor_complete
#print axioms Chalk.C08.decide_yes
#print axioms Chalk.C08.decide_no
#print axioms Chalk.C08.unsized_never_sized
#print axioms Chalk.C08.tuple_copy_iff_elements
#print axioms Chalk.C08.array_copy_iff_element
#print axioms Chalk.C08.struct_sized_iff_last_field
#print axioms Chalk.C08.enum_sized
#print axioms Chalk.C08.scalar_copy_only_by_impl
#print axioms Chalk.C08.tuple_trait_iff
#print axioms Chalk.C08.fnPtr_trait_iff
