/-
  C05fp — semantic correctness of the recursive solver's fixed-point iteration on CYCLIC ground
  instances (the heart of C05: "cyclic requirements count as satisfied; a result that relied on a
  cyclic assumption that later turned out false is never reported or reused").

  Model: `FixedPoint.lean` (`RecursiveContext::{solve_root_goal, solve_goal, solve_new_subgoal}`,
  search graph, `Minimums`, stack, cache), unchanged.  Proofs: `Lemmas/FixedPointSem*.lean`.

  Semantics.  `T(S) = {k | ∃ alt ∈ deps k, ∀ j ∈ alt, j ∈ S}` (`JE`).  `InGfp` is its greatest fixed
  point (impredicative; `inGfp_is_greatest_fixed_point`), `InLfp` its least fixed point (inductive;
  `inLfp_is_least_fixed_point`).

  Class of instances (`Cyc.Hyp c inst dom`): `dom` is a finite list of goals closed under `deps`,
  every goal of `dom` is `ground`, and every goal of `dom` has the same polarity `c`
  (`true`: all coinductive, `false`: all inductive).  ANY dependency graph: any number of
  alternatives per goal, any nesting / interlocking of cycles.

  Hypotheses on the run: the repaired code (`Cfg.current`), no work budget, no interruption
  (`oracle = []`, `oracleDefault = true`), caching enabled, every entry already in the cache is the
  correct answer of its goal (in particular: the empty cache), `dom.length ≤ overflowDepth`,
  `2 ≤ rounds`.  Stack and search graph of the state may be anything (`solve_root_goal` clears
  them, F7).

  Theorems (TOTAL correctness, both directions):
    `coinductive_cycles_correct` — (A) `solveRootGoal` returns (no panic, no model fuel runs out),
        the answer is `unique` iff the goal is in the GREATEST fixed point and `noSolution` iff it
        is not, never `ambig`; stack and graph are empty afterwards and every cache entry is
        correct again ("never reused": nothing provisional reaches the cache);
    `inductive_cycles_correct` — (B) the same with the LEAST fixed point;
    `coinductive_history_correct`, `inductive_history_correct` — any sequence of `Solver::solve`
        calls on one solver instance started fresh: every answer is the fixed-point answer;
    `fixed_point_correct` — the polarity-generic statement both are instances of;
    `loop_needs_two_rounds` — `2 ≤ rounds` is tight (a retraction costs a second round).
  NOT covered (see C05fp.md): instances that mix coinductive and inductive goals inside `dom`,
  goals with unknowns (`ground = false`), interrupted runs, `cache = none`.
-/
import ChalkModel.Lemmas.FixedPointSemN

namespace Chalk.FixedPoint.C05fp
open Chalk.FixedPoint.Cyc

/-- `InGfp` is the greatest fixed point of `T` -/
theorem inGfp_is_greatest_fixed_point (inst : Instance) :
    (∀ k, InGfp inst k ↔ ∃ alt, alt ∈ inst.deps k ∧ ∀ j, j ∈ alt → InGfp inst j) ∧
    (∀ S : Nat → Prop, (∀ x, S x → ∃ alt, alt ∈ inst.deps x ∧ ∀ j, j ∈ alt → S j) → ∀ k, S k → InGfp inst k) :=
  ⟨inGfp_iff inst, inGfp_greatest inst⟩

/-- `InLfp` is the least fixed point of `T` -/
theorem inLfp_is_least_fixed_point (inst : Instance) :
    (∀ k, InLfp inst k ↔ ∃ alt, alt ∈ inst.deps k ∧ ∀ j, j ∈ alt → InLfp inst j) ∧
    (∀ X : Nat → Prop, (∀ x, (∃ alt, alt ∈ inst.deps x ∧ ∀ j, j ∈ alt → X j) → X x) → ∀ k, InLfp inst k → X k) :=
  ⟨inLfp_iff inst, inLfp_least inst⟩

/-- every cache entry of `s` is the gfp answer of its goal -/
def CacheIsGfp (inst : Instance) (s : St) : Prop :=
  ∃ cc, s.cache = some cc ∧ ∀ k v, cacheGet cc k = some v →
    (v = .unique ∧ InGfp inst k) ∨ (v = .noSolution ∧ ¬ InGfp inst k)

/-- every cache entry of `s` is the lfp answer of its goal -/
def CacheIsLfp (inst : Instance) (s : St) : Prop :=
  ∃ cc, s.cache = some cc ∧ ∀ k v, cacheGet cc k = some v →
    (v = .unique ∧ InLfp inst k) ∨ (v = .noSolution ∧ ¬ InLfp inst k)

theorem goodCache_of_gfp {inst : Instance} {s : St} (h : CacheIsGfp inst s) : GoodCache true inst s := by
  obtain ⟨cc, hc, hall⟩ := h
  refine ⟨⟨cc, hc⟩, ?_⟩
  rintro k v ⟨cc', e, hk⟩
  rw [hc] at e
  cases e
  exact (corr_true inst k v).mpr (hall k v hk)

theorem gfp_of_goodCache {inst : Instance} {s : St} (h : GoodCache true inst s) : CacheIsGfp inst s := by
  obtain ⟨⟨cc, hc⟩, hall⟩ := h
  exact ⟨cc, hc, fun k v hk => (corr_true inst k v).mp (hall k v ⟨cc, hc, hk⟩)⟩

theorem goodCache_of_lfp {inst : Instance} {s : St} (h : CacheIsLfp inst s) : GoodCache false inst s := by
  obtain ⟨cc, hc, hall⟩ := h
  refine ⟨⟨cc, hc⟩, ?_⟩
  rintro k v ⟨cc', e, hk⟩
  rw [hc] at e
  cases e
  exact (corr_false inst k v).mpr (hall k v hk)

theorem lfp_of_goodCache {inst : Instance} {s : St} (h : GoodCache false inst s) : CacheIsLfp inst s := by
  obtain ⟨⟨cc, hc⟩, hall⟩ := h
  exact ⟨cc, hc, fun k v hk => (corr_false inst k v).mp (hall k v ⟨cc, hc, hk⟩)⟩

/-- the polarity-generic statement: total correctness of `solve_root_goal` -/
theorem fixed_point_correct (c : Bool) (inst : Instance) (dom : List Nat) (hyp : Hyp c inst dom)
    (overflowDepth rounds : Nat) (hov : dom.length ≤ overflowDepth) (hr : 2 ≤ rounds)
    (s : St) (hq : s.oracle = [] ∧ s.oracleDefault = true) (hgc : GoodCache c inst s)
    (g : Nat) (hg : g ∈ dom) :
    ∃ v s', solveRootGoal inst (Cfg.current overflowDepth rounds) g s = .ok v s' ∧ Corr c inst g v ∧
      s'.stack = [] ∧ s'.graph = [] ∧ GoodCache c inst s' :=
  solveRootGoal_correct hyp rfl rfl rfl hov hr s hq hgc g hg

/-- (A) all goals coinductive: the answer is membership in the GREATEST fixed point -/
theorem coinductive_cycles_correct (inst : Instance) (dom : List Nat) (hyp : Hyp true inst dom)
    (overflowDepth rounds : Nat) (hov : dom.length ≤ overflowDepth) (hr : 2 ≤ rounds)
    (s : St) (hq : s.oracle = [] ∧ s.oracleDefault = true) (hc : CacheIsGfp inst s)
    (g : Nat) (hg : g ∈ dom) :
    ∃ v s', solveRootGoal inst (Cfg.current overflowDepth rounds) g s = .ok v s' ∧
      (v = .unique ↔ InGfp inst g) ∧ (v = .noSolution ↔ ¬ InGfp inst g) ∧ v ≠ .ambig ∧
      s'.stack = [] ∧ s'.graph = [] ∧ CacheIsGfp inst s' := by
  obtain ⟨v, s', h1, h2, h3, h4, h5⟩ :=
    fixed_point_correct true inst dom hyp overflowDepth rounds hov hr s hq (goodCache_of_gfp hc) g hg
  refine ⟨v, s', h1, ?_, ?_, ?_, h3, h4, gfp_of_goodCache h5⟩
  all_goals rcases (corr_true inst g v).mp h2 with ⟨e, ht⟩ | ⟨e, ht⟩ <;> subst e <;> simp [ht]

/-- (B) all goals inductive: the answer is membership in the LEAST fixed point -/
theorem inductive_cycles_correct (inst : Instance) (dom : List Nat) (hyp : Hyp false inst dom)
    (overflowDepth rounds : Nat) (hov : dom.length ≤ overflowDepth) (hr : 2 ≤ rounds)
    (s : St) (hq : s.oracle = [] ∧ s.oracleDefault = true) (hc : CacheIsLfp inst s)
    (g : Nat) (hg : g ∈ dom) :
    ∃ v s', solveRootGoal inst (Cfg.current overflowDepth rounds) g s = .ok v s' ∧
      (v = .unique ↔ InLfp inst g) ∧ (v = .noSolution ↔ ¬ InLfp inst g) ∧ v ≠ .ambig ∧
      s'.stack = [] ∧ s'.graph = [] ∧ CacheIsLfp inst s' := by
  obtain ⟨v, s', h1, h2, h3, h4, h5⟩ :=
    fixed_point_correct false inst dom hyp overflowDepth rounds hov hr s hq (goodCache_of_lfp hc) g hg
  refine ⟨v, s', h1, ?_, ?_, ?_, h3, h4, lfp_of_goodCache h5⟩
  all_goals rcases (corr_false inst g v).mp h2 with ⟨e, ht⟩ | ⟨e, ht⟩ <;> subst e <;> simp [ht]

/-- (A) for a whole history: after any sequence of `Solver::solve` calls on one fresh solver
    instance (the cache filling up on the way), the next answer is still the gfp answer -/
theorem coinductive_history_correct (inst : Instance) (dom : List Nat) (hyp : Hyp true inst dom)
    (overflowDepth rounds : Nat) (hov : dom.length ≤ overflowDepth) (hr : 2 ≤ rounds)
    (gs : List Nat) (hd : ∀ g, g ∈ gs → g ∈ dom) (g : Nat) (hg : g ∈ dom) :
    ∃ v, solveOn inst (Cfg.current overflowDepth rounds) g
        (runHistory inst (Cfg.current overflowDepth rounds) (gs.map Call.plain) (St.fresh true)) = .value v ∧
      (v = .unique ↔ InGfp inst g) ∧ (v = .noSolution ↔ ¬ InGfp inst g) := by
  obtain ⟨v, h1, h2⟩ := history_correct (cfg := Cfg.current overflowDepth rounds) hyp rfl rfl hov hr gs hd g hg
  refine ⟨v, h1, ?_, ?_⟩
  all_goals rcases (corr_true inst g v).mp h2 with ⟨e, ht⟩ | ⟨e, ht⟩ <;> subst e <;> simp [ht]

/-- (B) for a whole history -/
theorem inductive_history_correct (inst : Instance) (dom : List Nat) (hyp : Hyp false inst dom)
    (overflowDepth rounds : Nat) (hov : dom.length ≤ overflowDepth) (hr : 2 ≤ rounds)
    (gs : List Nat) (hd : ∀ g, g ∈ gs → g ∈ dom) (g : Nat) (hg : g ∈ dom) :
    ∃ v, solveOn inst (Cfg.current overflowDepth rounds) g
        (runHistory inst (Cfg.current overflowDepth rounds) (gs.map Call.plain) (St.fresh true)) = .value v ∧
      (v = .unique ↔ InLfp inst g) ∧ (v = .noSolution ↔ ¬ InLfp inst g) := by
  obtain ⟨v, h1, h2⟩ := history_correct (cfg := Cfg.current overflowDepth rounds) hyp rfl rfl hov hr gs hd g hg
  refine ⟨v, h1, ?_, ?_⟩
  all_goals rcases (corr_false inst g v).mp h2 with ⟨e, ht⟩ | ⟨e, ht⟩ <;> subst e <;> simp [ht]

/-! ### non-vacuity: interlocking cycles, a provisional `unique` that is retracted -/

/-- `0 :- 3, 2, 1.  1 :- 0.  2 :- 1.  3` has no clause; cycles `0 → 1 → 0` and `0 → 2 → 1 → 0`
    share the edge `1 → 0`.  While `0` is being solved, `1` and then `2` get the provisional answer
    `unique` (relying on the provisional `unique` of `0`); `3` fails, `0` becomes `noSolution`, the
    provisional results are rolled back and the second round confirms. -/
def retract (co : Bool) : Instance :=
  Instance.ofTable [(co, true, [[3, 2, 1]]), (co, true, [[0]]), (co, true, [[1]]), (co, true, [])]

/-- `0 :- 1.  1 :- 2 | 0.  2 :- 0, 1.`: three interlocking cycles, no exit -/
def knot (co : Bool) : Instance :=
  Instance.ofTable [(co, true, [[1]]), (co, true, [[2], [0]]), (co, true, [[0, 1]])]

theorem retract_hyp (co : Bool) : Hyp co (retract co) [0, 1, 2, 3] := by
  cases co <;> exact ⟨by decide, by decide, by decide⟩

theorem knot_hyp (co : Bool) : Hyp co (knot co) [0, 1, 2] := by
  cases co <;> exact ⟨by decide, by decide, by decide⟩

/-- the hypotheses of (A) and (B) are satisfiable by instances with interlocking cycles -/
example : Hyp true (retract true) [0, 1, 2, 3] := retract_hyp true
example : Hyp false (knot false) [0, 1, 2] := knot_hyp false
example : CacheIsGfp (retract true) (St.fresh true) := gfp_of_goodCache (goodCache_fresh true _)

/-- concrete run: goal `0` and then goal `2` on the same solver are both `noSolution`
    (the provisional `unique` of `2` from the first call was not kept) -/
example : outcomes (retract true) (Cfg.current 4 2) [Call.plain 0, Call.plain 2] (St.fresh true) =
    [.value .noSolution, .value .noSolution] := by decide

/-- … and what the cache holds afterwards -/
example : cacheDump (runHistory (retract true) (Cfg.current 4 2) [Call.plain 0] (St.fresh true)) =
    [(0, .noSolution), (1, .noSolution), (3, .noSolution)] := by decide

/-- so none of the four goals is in the greatest fixed point — by the theorem, not by inspection -/
example : ¬ InGfp (retract true) 2 := by
  obtain ⟨v, h1, _, h3⟩ := coinductive_history_correct (retract true) [0, 1, 2, 3] (retract_hyp true) 4 2
    (by decide) (by decide) [0] (by decide) 2 (by decide)
  have : v = .noSolution := by
    have h2 : solveOn (retract true) (Cfg.current 4 2) 2
        (runHistory (retract true) (Cfg.current 4 2) ([0].map Call.plain) (St.fresh true)) =
        .value .noSolution := by decide
    rw [h2] at h1
    cases h1
    rfl
  exact h3.mp this

/-- the knot: coinductively every goal holds, inductively none -/
example : outcomes (knot true) (Cfg.current 3 2) [Call.plain 2, Call.plain 0, Call.plain 1] (St.fresh true) =
    [.value .unique, .value .unique, .value .unique] := by decide
example : outcomes (knot false) (Cfg.current 3 2) [Call.plain 2, Call.plain 0, Call.plain 1] (St.fresh true) =
    [.value .noSolution, .value .noSolution, .value .noSolution] := by decide

/-- `2 ≤ rounds` is tight: the retraction needs the second round -/
theorem loop_needs_two_rounds :
    solveOn (retract true) (Cfg.current 4 1) 0 (St.fresh true) = .panic .fuelRounds ∧
    solveOn (retract true) (Cfg.current 4 2) 0 (St.fresh true) = .value .noSolution := by decide

/-- `dom.length ≤ overflowDepth` cannot be lowered in general: the knot (3 goals) overflows a stack of
    depth 2 — although a particular instance may need less (`retract`: 4 goals, depth 3 suffices) -/
theorem depth_bound_tight :
    solveOn (retract true) (Cfg.current 3 2) 0 (St.fresh true) = .value .noSolution ∧
    solveOn (knot true) (Cfg.current 2 2) 0 (St.fresh true) = .panic .overflow := by decide

end Chalk.FixedPoint.C05fp

#print axioms Chalk.FixedPoint.C05fp.inGfp_is_greatest_fixed_point
#print axioms Chalk.FixedPoint.C05fp.inLfp_is_least_fixed_point
#print axioms Chalk.FixedPoint.C05fp.fixed_point_correct
#print axioms Chalk.FixedPoint.C05fp.coinductive_cycles_correct
#print axioms Chalk.FixedPoint.C05fp.inductive_cycles_correct
#print axioms Chalk.FixedPoint.C05fp.coinductive_history_correct
#print axioms Chalk.FixedPoint.C05fp.inductive_history_correct
#print axioms Chalk.FixedPoint.C05fp.loop_needs_two_rounds
#print axioms Chalk.FixedPoint.C05fp.depth_bound_tight
#print axioms Chalk.FixedPoint.C05fp.goodCache_of_gfp
#print axioms Chalk.FixedPoint.C05fp.gfp_of_goodCache
#print axioms Chalk.FixedPoint.C05fp.goodCache_of_lfp
#print axioms Chalk.FixedPoint.C05fp.lfp_of_goodCache
#print axioms Chalk.FixedPoint.C05fp.retract_hyp
#print axioms Chalk.FixedPoint.C05fp.knot_hyp

/-! ## caching disabled (`cache = none`)

  Same statements, same bounds (`dom.length ≤ overflowDepth`, `2 ≤ rounds`): without the cache the
  nodes of a completed component are dropped (`rollback_to(dfn)`) instead of cached; nothing else
  changes in the argument (`After.finish_discard`).  The bounds stay tight. -/

namespace Chalk.FixedPoint.C05fp
open Chalk.FixedPoint.Cyc

/-- the polarity-generic statement, caching enabled or disabled: every cache entry correct
    (vacuous for `cache = none`) before and after, the caching mode is kept -/
theorem fixed_point_correct_any (c : Bool) (inst : Instance) (dom : List Nat) (hyp : Hyp c inst dom)
    (overflowDepth rounds : Nat) (hov : dom.length ≤ overflowDepth) (hr : 2 ≤ rounds)
    (s : St) (hq : s.oracle = [] ∧ s.oracleDefault = true) (hok : CacheOK c inst s)
    (g : Nat) (hg : g ∈ dom) :
    ∃ v s', solveRootGoal inst (Cfg.current overflowDepth rounds) g s = .ok v s' ∧ Corr c inst g v ∧
      s'.stack = [] ∧ s'.graph = [] ∧ CacheOK c inst s' ∧ s'.cache.isSome = s.cache.isSome :=
  solveRootGoal_correct_any hyp rfl rfl rfl hov hr s hq hok g hg

/-- (A) without cache -/
theorem coinductive_cycles_correct_nocache (inst : Instance) (dom : List Nat) (hyp : Hyp true inst dom)
    (overflowDepth rounds : Nat) (hov : dom.length ≤ overflowDepth) (hr : 2 ≤ rounds)
    (s : St) (hq : s.oracle = [] ∧ s.oracleDefault = true) (hnc : s.cache = none)
    (g : Nat) (hg : g ∈ dom) :
    ∃ v s', solveRootGoal inst (Cfg.current overflowDepth rounds) g s = .ok v s' ∧
      (v = .unique ↔ InGfp inst g) ∧ (v = .noSolution ↔ ¬ InGfp inst g) ∧ v ≠ .ambig ∧
      s'.stack = [] ∧ s'.graph = [] ∧ s'.cache = none := by
  obtain ⟨v, s', h1, h2, h3, h4, h5⟩ :=
    solveRootGoal_correct_nocache (cfg := Cfg.current overflowDepth rounds) hyp rfl rfl rfl hov hr s hq hnc g hg
  refine ⟨v, s', h1, ?_, ?_, ?_, h3, h4, h5⟩
  all_goals rcases (corr_true inst g v).mp h2 with ⟨e, ht⟩ | ⟨e, ht⟩ <;> subst e <;> simp [ht]

/-- (B) without cache -/
theorem inductive_cycles_correct_nocache (inst : Instance) (dom : List Nat) (hyp : Hyp false inst dom)
    (overflowDepth rounds : Nat) (hov : dom.length ≤ overflowDepth) (hr : 2 ≤ rounds)
    (s : St) (hq : s.oracle = [] ∧ s.oracleDefault = true) (hnc : s.cache = none)
    (g : Nat) (hg : g ∈ dom) :
    ∃ v s', solveRootGoal inst (Cfg.current overflowDepth rounds) g s = .ok v s' ∧
      (v = .unique ↔ InLfp inst g) ∧ (v = .noSolution ↔ ¬ InLfp inst g) ∧ v ≠ .ambig ∧
      s'.stack = [] ∧ s'.graph = [] ∧ s'.cache = none := by
  obtain ⟨v, s', h1, h2, h3, h4, h5⟩ :=
    solveRootGoal_correct_nocache (cfg := Cfg.current overflowDepth rounds) hyp rfl rfl rfl hov hr s hq hnc g hg
  refine ⟨v, s', h1, ?_, ?_, ?_, h3, h4, h5⟩
  all_goals rcases (corr_false inst g v).mp h2 with ⟨e, ht⟩ | ⟨e, ht⟩ <;> subst e <;> simp [ht]

/-- (A) for a whole history on a solver without cache -/
theorem coinductive_history_correct_nocache (inst : Instance) (dom : List Nat) (hyp : Hyp true inst dom)
    (overflowDepth rounds : Nat) (hov : dom.length ≤ overflowDepth) (hr : 2 ≤ rounds)
    (gs : List Nat) (hd : ∀ g, g ∈ gs → g ∈ dom) (g : Nat) (hg : g ∈ dom) :
    ∃ v, solveOn inst (Cfg.current overflowDepth rounds) g
        (runHistory inst (Cfg.current overflowDepth rounds) (gs.map Call.plain) (St.fresh false)) = .value v ∧
      (v = .unique ↔ InGfp inst g) ∧ (v = .noSolution ↔ ¬ InGfp inst g) := by
  obtain ⟨v, h1, h2⟩ :=
    history_correct_nocache (cfg := Cfg.current overflowDepth rounds) hyp rfl rfl hov hr gs hd g hg
  refine ⟨v, h1, ?_, ?_⟩
  all_goals rcases (corr_true inst g v).mp h2 with ⟨e, ht⟩ | ⟨e, ht⟩ <;> subst e <;> simp [ht]

/-- (B) for a whole history on a solver without cache -/
theorem inductive_history_correct_nocache (inst : Instance) (dom : List Nat) (hyp : Hyp false inst dom)
    (overflowDepth rounds : Nat) (hov : dom.length ≤ overflowDepth) (hr : 2 ≤ rounds)
    (gs : List Nat) (hd : ∀ g, g ∈ gs → g ∈ dom) (g : Nat) (hg : g ∈ dom) :
    ∃ v, solveOn inst (Cfg.current overflowDepth rounds) g
        (runHistory inst (Cfg.current overflowDepth rounds) (gs.map Call.plain) (St.fresh false)) = .value v ∧
      (v = .unique ↔ InLfp inst g) ∧ (v = .noSolution ↔ ¬ InLfp inst g) := by
  obtain ⟨v, h1, h2⟩ :=
    history_correct_nocache (cfg := Cfg.current overflowDepth rounds) hyp rfl rfl hov hr gs hd g hg
  refine ⟨v, h1, ?_, ?_⟩
  all_goals rcases (corr_false inst g v).mp h2 with ⟨e, ht⟩ | ⟨e, ht⟩ <;> subst e <;> simp [ht]

/-- the bounds are the same and stay tight without the cache -/
theorem bounds_tight_nocache :
    solveOn (retract true) (Cfg.current 4 1) 0 (St.fresh false) = .panic .fuelRounds ∧
    solveOn (retract true) (Cfg.current 4 2) 0 (St.fresh false) = .value .noSolution ∧
    solveOn (knot true) (Cfg.current 2 2) 0 (St.fresh false) = .panic .overflow ∧
    solveOn (knot true) (Cfg.current 3 2) 0 (St.fresh false) = .value .unique := by decide

/-- concrete runs without cache -/
example : outcomes (retract true) (Cfg.current 4 2) [Call.plain 0, Call.plain 2] (St.fresh false) =
    [.value .noSolution, .value .noSolution] := by decide
example : outcomes (knot false) (Cfg.current 3 2) [Call.plain 2, Call.plain 0, Call.plain 1] (St.fresh false) =
    [.value .noSolution, .value .noSolution, .value .noSolution] := by decide

end Chalk.FixedPoint.C05fp

#print axioms Chalk.FixedPoint.C05fp.fixed_point_correct_any
#print axioms Chalk.FixedPoint.C05fp.coinductive_cycles_correct_nocache
#print axioms Chalk.FixedPoint.C05fp.inductive_cycles_correct_nocache
#print axioms Chalk.FixedPoint.C05fp.coinductive_history_correct_nocache
#print axioms Chalk.FixedPoint.C05fp.inductive_history_correct_nocache
#print axioms Chalk.FixedPoint.C05fp.bounds_tight_nocache
