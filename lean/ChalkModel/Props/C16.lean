/-
  C16 — canonical forms identify queries up to renaming.
  Models: `Canon.lean`, `UCanon.lean`, `Invert.lean` (+ the stateful traversal `SFold.lean`);
  lemmas: `Lemmas/{SFoldLemmas,TableLemmas,CanonLemmas,UCanonLemmas}.lean`.
-/
import ChalkModel.Lemmas.CanonLemmas
import ChalkModel.Lemmas.CanonClosed
import ChalkModel.Lemmas.CanonOcc
import ChalkModel.Lemmas.CanonFinal
import ChalkModel.Lemmas.UCanonLemmas
import ChalkModel.Invert

namespace Chalk.C16

/-- First-occurrence numbering.  Let `log` be the list of `(kind, root)` of the unbound variables
    met by the canonicalizer's traversal (`Table.occurrences`: the same walk, through the values of
    bound variables, without numbering).  Then `free_vars` is exactly `firstOccurrences log`: the
    first occurrence of each distinct root, in order of first occurrence — so no root is listed
    twice, every listed pair is an occurrence, every root that occurs is listed, and the i-th canonical
    binder is (kind of that first occurrence, universe of the i-th root). -/
theorem canon_first_occurrence (t : Table) (fuel : Nat) (v : Args) (c : Canonicalized Args)
    (h : t.canonicalizeFuel fuel v = .ok c) :
    ∃ resolved log, t.occurrences fuel v = .ok (resolved, log) ∧
      c.freeVars = firstOccurrences log ∧
      (c.freeVars.map (·.2)).Nodup ∧
      (∀ p ∈ c.freeVars, p ∈ log) ∧
      (∀ r ∈ log.map (·.2), r ∈ c.freeVars.map (·.2)) ∧
      (∀ (i : Nat) (k : VarKind) (r : Nat), c.freeVars[i]? = some (k, r) →
        ∃ u, t.universeOfUnbound r = .ok u ∧ c.quantified.binders[i]? = some (k, u)) := by
  unfold Table.canonicalizeFuel at h
  cases hrun : sfoldArgs (canonFolder t fuel) 0 v {} with
  | error e => simp [hrun, canonFinish] at h
  | ok p =>
    obtain ⟨val, st⟩ := p
    simp only [hrun, canonFinish] at h
    cases hb : intoBinders t st.freeVars with
    | error e => simp [hb] at h
    | ok bs =>
      simp [hb] at h; subst h
      have h0 : OccRel ({} : CState) [] := rfl
      obtain ⟨resolved, log, hocc, _, hrel⟩ := sfoldArgs_sim (occ_handlers t fuel) 0 v {} [] h0 val st hrun
      have hrel : st.freeVars = firstOccurrences log := hrel
      refine ⟨resolved, log, hocc, hrel, ?_, ?_, ?_, ?_⟩
      · show (st.freeVars.map (·.2)).Nodup
        rw [hrel]; exact firstOccurrences_nodup log
      · intro p hp
        have hp : p ∈ firstOccurrences log := by rw [← hrel]; exact hp
        rcases foldl_addIfNew_sub log [] p hp with h | h
        · simp at h
        · exact h
      · intro r hr
        show r ∈ st.freeVars.map (·.2)
        rw [hrel]; exact (foldl_addIfNew_complete log []).2 r hr
      · exact intoBinders_spec t st.freeVars bs hb

/-- The numbering itself: the canonical value is the input in which every unbound variable `?x` is
    replaced by `^d.i` where `i` is the position of the union-find root of `?x` in `free_vars`
    (and `d` the number of binders of the value entered), and every bound variable by the value
    numbered the same way (`numFolder`, a stateless substitution determined by the FINAL
    `free_vars`).  Together with `canon_first_occurrence` (what `free_vars` is): `^0.i` stands for
    the i-th distinct unbound root in order of first occurrence. -/
theorem canon_numbering (t : Table) (fuel : Nat) (v : Args) (c : Canonicalized Args)
    (h : t.canonicalizeFuel fuel v = .ok c) :
    foldArgs (numFolder t c.freeVars fuel) 0 v = .ok c.quantified.value := by
  unfold Table.canonicalizeFuel at h
  cases hrun : sfoldArgs (canonFolder t fuel) 0 v {} with
  | error e => simp [hrun, canonFinish] at h
  | ok p =>
    obtain ⟨val, st⟩ := p
    simp only [hrun, canonFinish] at h
    cases hb : intoBinders t st.freeVars with
    | error e => simp [hb] at h
    | ok bs =>
      simp [hb] at h; subst h
      exact (sfoldArgs_final (num_handlers t fuel) 0 v {} val st hrun).2 st (List.prefix_refl _)

/-- Closedness of canonical forms: the canonical value contains no inference variable, and every
    bound variable that is free in it is `^0.i` (seen from the top; `^d.i` under `d` binders of the
    value itself) with `i <` the number of canonical binders; the binder list and `free_vars` have
    the same length.  For every table — including bound variables whose values are folded through
    and shifted — every value and every look-up budget. -/
theorem canon_closed (t : Table) (fuel : Nat) (v : Args) (c : Canonicalized Args)
    (h : t.canonicalizeFuel fuel v = .ok c) :
    c.quantified.value.closedAt c.quantified.binders.length 0 = true ∧
    c.quantified.binders.length = c.freeVars.length := by
  unfold Table.canonicalizeFuel at h
  cases hrun : sfoldArgs (canonFolder t fuel) 0 v {} with
  | error e => simp [hrun, canonFinish] at h
  | ok p =>
    obtain ⟨val, st⟩ := p
    simp only [hrun, canonFinish] at h
    cases hb : intoBinders t st.freeVars with
    | error e => simp [hb] at h
    | ok bs =>
      simp [hb] at h; subst h
      have hlen := intoBinders_length t _ _ hb
      obtain ⟨_, hc⟩ := sfoldArgs_closed (canonFolder_closed t fuel) 0 v {} val st hrun
      exact ⟨by simpa [hlen] using hc st.freeVars.length (Nat.le_refl _), hlen⟩

/-- Instantiating a canonical value that is numbered by first occurrence (`WellNumbered`: variables
    `^0.i` first appear in the order 0,1,2,…, sorts agree with the binders, every binder used, no
    inference variables) with fresh variables and canonicalizing again gives it back — binders
    (every kind: general/integer/float type, lifetime, const; any universes) and value.
    For every table (with one value/parent entry per variable) and any look-up budget. -/
theorem canon_roundtrip (t : Table) (ht : t.Aligned) (c : Canon Args) (hwn : WellNumbered c) :
    ∃ v t', t.instantiateCanonical c = .ok (v, t') ∧
      ∃ cz, t'.canonicalize v = .ok cz ∧ cz.quantified = c ∧ cz.freeVars = freshVars t.numVars c.binders := by
  obtain ⟨bs, val⟩ := c
  simp only [WellNumbered] at hwn
  have H := round_handlers t ht bs (t.freshSubst bs).1.numVars
  have h0 : RoundRel bs t.numVars 0 ({} : CState) := ⟨Nat.zero_le _, by simp [freshVars]⟩
  obtain ⟨b, st, hrun, hb, hn, hfv⟩ := sfoldArgs_sim H 0 val 0 {} h0 val bs.length hwn
  have hb : val = b := (hb trivial).symm
  subst hb
  obtain ⟨v, hinst, hcanon⟩ := sfoldArgs_comp (canonFolder_noTyFold _ _) 0 val {} _ hrun
  refine ⟨v, (t.freshSubst bs).1, by simp [Table.instantiateCanonical, hinst], ?_⟩
  rw [List.take_length] at hfv
  have hbind : intoBinders (t.freshSubst bs).1 (freshVars t.numVars bs) = .ok bs :=
    intoBinders_fresh _ bs t.numVars (fun i k u hi => (freshSubst_var t ht bs i k u hi).2.2)
  refine ⟨_, by simp [Table.canonicalize, Table.canonicalizeFuel, hcanon, canonFinish, hfv, hbind]; rfl, rfl, rfl⟩

/-- Non-vacuity, and "the canonicalizer produces well-numbered values" on a concrete input: a table
    with universes U0,U1, `?0` (U1) and `?1` (U0) unbound, `?2 := Vec<?0>`, `?3` (U1) unified with
    `?1`, a lifetime variable `'?4` (U0); the value `[?3, ?2, '?4, fn(?2, ^0.0), ?0]`.
    The canonical form is `[^0.0, Vec<^0.1>, '^0.2, fn(Vec<^1.1>, ^0.0), ^0.1]` with binders
    `[(ty, U0), (ty, U1), (lifetime, U0)]` (the class of `?1/?3` has the smaller universe) — and it is `WellNumbered`. -/
def exTable : Table :=
  let t0 := Table.new.newUniverse.1
  let t1 := (t0.newVariable 1).1
  let t2 := (t1.newVariable 0).1
  let t3 := (t2.newVariable 1).1
  let t4' := (t3.newVariable 1).1
  let t4 := (t4'.newVariable 0).1
  let t5 := match t4.unifyVarValue 2 (.bound (.ty (.app (.adt 1) (.cons (.ty (.infer 0 .general)) .nil)))) with
    | .ok t => t
    | .error _ => t4
  match t5.unifyVarVar 3 1 with
  | .ok t => t
  | .error _ => t5

def exValue : Args :=
  .cons (.ty (.infer 3 .general)) (.cons (.ty (.infer 2 .general)) (.cons (.lt (.infer 4))
    (.cons (.ty (.function 1 0 (.cons (.ty (.infer 2 .general)) (.cons (.ty (.bound 0 0)) .nil))))
      (.cons (.ty (.infer 0 .general)) .nil))))

def exCanon : Canon Args :=
  ⟨[(.ty .general, 0), (.ty .general, 1), (.lt, 0)],
   .cons (.ty (.bound 0 0)) (.cons (.ty (.app (.adt 1) (.cons (.ty (.bound 0 1)) .nil))) (.cons (.lt (.bound 0 2))
    (.cons (.ty (.function 1 0 (.cons (.ty (.app (.adt 1) (.cons (.ty (.bound 1 1)) .nil))) (.cons (.ty (.bound 0 0)) .nil))))
      (.cons (.ty (.bound 0 1)) .nil))))⟩

example : (exTable.canonicalize exValue).map (·.quantified) = .ok exCanon := by rfl
example : WellNumbered exCanon := by unfold WellNumbered; rfl
example : exTable.Aligned := by unfold Table.Aligned; rfl

/-- "If" direction of *canonical forms identify values up to renaming*, for two (table, value)
    pairs: if `ρ` renames the variables of `t1` into variables of `t2` so that unbound variables go
    to unbound variables of the same universe, classes of unified variables are kept apart and kept
    together (a bijection between the roots that occur), and bound variables go to variables bound
    to the renamed value (`Renaming`), then `v` on `t1` and `ρ(v)` on `t2` have the SAME canonical
    form (binders with kinds and universes, and value).  Kinds are kept because renaming keeps the
    kind annotation of every occurrence.  All values, any look-up budget. -/
theorem canon_eq_of_renaming (t1 t2 : Table) (ρ : Nat → Nat) (H : Renaming t1 t2 ρ) (fuel : Nat)
    (v : Args) (c1 : Canonicalized Args) (h : t1.canonicalizeFuel fuel v = .ok c1) :
    ∃ v' c2, foldArgs (renameFolder ρ) 0 v = .ok v' ∧ t2.canonicalizeFuel fuel v' = .ok c2 ∧
      c2.quantified = c1.quantified := by
  unfold Table.canonicalizeFuel at h
  cases hrun : sfoldArgs (canonFolder t1 fuel) 0 v {} with
  | error e => simp [hrun, canonFinish] at h
  | ok p =>
    obtain ⟨val, s1⟩ := p
    have h0 : RenRel t1 t2 ρ {} {} := ⟨rfl, rfl, rfl, fun _ _ => rfl⟩
    obtain ⟨b, s2, hrun2, hb, hmu, hlen, hbind, _⟩ :=
      sfoldArgs_sim (ren_handlers t1 t2 ρ H fuel) 0 v {} {} h0 val s1 hrun
    have hb : val = b := (hb trivial).symm
    subst hb
    obtain ⟨v', hren, hcanon⟩ := sfoldArgs_comp (canonFolder_noTyFold _ _) 0 v {} _ hrun2
    simp only [hrun, canonFinish] at h
    cases hb1 : intoBinders t1 s1.freeVars with
    | error e => simp [hb1] at h
    | ok bs =>
      simp [hb1] at h
      refine ⟨v', { quantified := { binders := bs, value := val }, freeVars := s2.freeVars,
                    maxUniverse := s2.maxUniverse }, hren, ?_, by rw [← h]⟩
      simp [Table.canonicalizeFuel, hcanon, canonFinish, ← hbind, hb1]

/-- the same on one table, with the budget `canonicalize` uses -/
theorem canon_eq_of_renaming_same_table (t : Table) (ρ : Nat → Nat) (H : Renaming t t ρ)
    (v : Args) (c1 : Canonicalized Args) (h : t.canonicalize v = .ok c1) :
    ∃ v' c2, foldArgs (renameFolder ρ) 0 v = .ok v' ∧ t.canonicalize v' = .ok c2 ∧
      c2.quantified = c1.quantified :=
  canon_eq_of_renaming t t ρ H t.numVars v c1 h

/-- Non-vacuity of `Renaming`: on the empty table (every variable unbound, its own root, universe 0)
    every injective renaming qualifies. -/
example (ρ : Nat → Nat) (hinj : ∀ x y, ρ x = ρ y → x = y) : Renaming Table.new Table.new ρ :=
  { unbound := fun x _ => ⟨rfl, rfl⟩
    roots := fun x y _ _ => ⟨fun h => hinj x y h, fun h => by
      have : x = y := h
      rw [this]⟩
    bound := fun x g h => by simp [Table.new, Table.probeVar, Table.probeValue] at h }

/-! ### invert -/

/-- `invert` refuses (`None`) exactly when the canonicalizer's traversal of the value — through the
    values of bound variables — meets a variable that the table has not bound (the log of
    `Table.occurrences` is non-empty); whenever canonicalization itself succeeds. -/
theorem invert_none_iff (t : Table) (v : Args) (c : Canonicalized Args) (hc : t.canonicalize v = .ok c) :
    t.invert v = .ok none ↔
      ∃ resolved log, t.occurrences t.numVars v = .ok (resolved, log) ∧ log ≠ [] := by
  obtain ⟨resolved, log, hocc, hfv, _⟩ := canon_first_occurrence t t.numVars v c hc
  have hnil : c.freeVars = [] ↔ log = [] := by rw [hfv]; exact firstOccurrences_eq_nil log
  unfold Table.invert
  simp only [hc]
  constructor
  · intro h
    by_cases hf : c.freeVars = []
    · simp only [hf, ne_eq, not_true_eq_false, if_false] at h
      split at h
      · simp at h
      · split at h <;> simp at h
    · exact ⟨resolved, log, hocc, fun hl => hf (hnil.mpr hl)⟩
  · rintro ⟨r', l', h', hne⟩
    rw [hocc] at h'
    simp only [Except.ok.injEq, Prod.mk.injEq] at h'
    obtain ⟨_, rfl⟩ := h'
    have hf : c.freeVars ≠ [] := fun hf => hne (hnil.mp hf)
    simp [hf]

/-- when `invert` does not refuse, the canonical form it works on has no binders, and the result is
    the `Inverter` fold of the (fully resolved) canonical value, started on the same table -/
theorem invert_some_spec (t : Table) (v r : Args) (t' : Table) (h : t.invert v = .ok (some (r, t'))) :
    ∃ c st, t.canonicalize v = .ok c ∧ c.freeVars = [] ∧ c.quantified.binders = [] ∧
      sfoldArgs inverterFolder 0 c.quantified.value { table := t } = .ok (r, st) ∧ st.table = t' := by
  unfold Table.invert at h
  cases hc : t.canonicalize v with
  | error e => simp [hc] at h
  | ok c =>
    simp only [hc] at h
    by_cases hf : c.freeVars = []
    · by_cases hb : c.quantified.binders = []
      · simp only [hf, hb, ne_eq, not_true_eq_false, if_false] at h
        cases hrun : sfoldArgs inverterFolder 0 c.quantified.value { table := t } with
        | error e => simp [hrun] at h
        | ok p =>
          obtain ⟨r', st⟩ := p
          simp [hrun] at h
          exact ⟨c, st, rfl, hf, hb, by rw [← h.1]; exact hrun, h.2⟩
      · simp [hf, hb] at h
    · simp [hf] at h

/-- When `invert` does not refuse, its result is the (fully resolved, binder-free) canonical value
    in which every type placeholder `!u_i` is replaced by `?(M (u,i))` and every lifetime placeholder
    by `'?(M' (u,i))`, where `M`, `M'` are the final `inverted_ty` / `inverted_lifetime` maps — one
    variable per placeholder, consistently at all its occurrences (`invSubst`); const placeholders
    are left in place (the `Inverter` has no `fold_free_placeholder_const`).  The variables are
    fresh (created after `t`), pairwise distinct within and across the two maps, their own roots,
    unbound, and each lives in the universe of its placeholder (`InvOk`). -/
theorem invert_consistent (t : Table) (ht : t.Aligned) (v r : Args) (t' : Table)
    (h : t.invert v = .ok (some (r, t'))) :
    ∃ c st, t.canonicalize v = .ok c ∧ c.freeVars = [] ∧ st.table = t' ∧
      foldArgs (invSubst st) 0 c.quantified.value = .ok r ∧ InvOk t st := by
  obtain ⟨c, st, hc, hf, _, hrun, ht'⟩ := invert_some_spec t v r t' h
  have h0 : InvOk t ({ table := t } : InvState) :=
    { aligned := ht, grows := Nat.le_refl _, vars := fun p v hv => by simp at hv, nodup := by simp }
  obtain ⟨b, s2, hrun2, _, hs, hok⟩ :=
    sfoldArgs_sim (inv_invariant t) 0 c.quantified.value _ _ ⟨rfl, h0⟩ r st hrun
  subst hs
  exact ⟨c, st, hc, hf, ht',
    (sfoldArgs_final inv_final 0 c.quantified.value _ r st hrun).2 st ⟨List.prefix_refl _, List.prefix_refl _⟩, hok⟩

/-- reading `InvOk` in the table's own terms: a variable of the maps is its own root, unbound, in
    the universe of the placeholder it replaces -/
theorem invOk_var (t0 : Table) (st : InvState) (hok : InvOk t0 st) (p : Nat × Nat) (v : Nat)
    (hv : (p, v) ∈ st.invertedTy ∨ (p, v) ∈ st.invertedLt) :
    t0.numVars ≤ v ∧ st.table.find v = v ∧ st.table.probeVar v = none ∧
      st.table.universeOfUnbound v = .ok p.1 := by
  obtain ⟨h1, _, h3, h4⟩ := hok.vars p v hv
  have hfind := Table.find_self st.table v h3
  have hval : st.table.probeValue v = .unbound p.1 := by
    unfold Table.probeValue; rw [hfind]; exact h4
  exact ⟨h1, hfind, by simp [Table.probeVar, hval], by simp [Table.universeOfUnbound, hval]⟩

/-! ### universe compression -/

/-- The universe map built by `u_canonicalize` lists the original universes in strictly increasing
    order starting with the root universe `U0`; it contains the universe of every binder and of
    every placeholder the collector visits; its length is the number of canonical universes; and
    compression `map_universe_to_canonical` is strictly monotone and order-reflecting on it (so
    the relative order of all universes present is kept), with `U0 ↦ U0`. -/
theorem ucanon_monotone (c : Canon Args) (uc : UCanonicalized Args) (h : uCanonicalize c = .ok uc) :
    uc.universes.Pairwise (· < ·) ∧ uc.universes.head? = some 0 ∧
    uc.quantified.universes = uc.universes.length ∧
    (∀ k u, (k, u) ∈ c.binders → ∃ i, mapUniverseToCanonical uc.universes u = some i) ∧
    (∀ ui idx, VisitEvent.placeholder ui idx ∈ visitArgs c.value →
        ∃ i, mapUniverseToCanonical uc.universes ui = some i) ∧
    mapUniverseToCanonical uc.universes 0 = some 0 ∧
    (∀ a b i j, mapUniverseToCanonical uc.universes a = some i →
        mapUniverseToCanonical uc.universes b = some j → (a < b ↔ i < j)) := by
  unfold uCanonicalize at h
  cases hc : collectUniverses c with
  | error e => simp [hc] at h
  | ok um =>
    simp only [hc] at h
    cases hv : foldArgs (uMapToCanonical um) 0 c.value with
    | error e => simp [hv] at h
    | ok v1 =>
      simp only [hv] at h
      split at h
      · simp at h
      · rename_i bs hbs
        simp at h; subst h
        unfold collectUniverses at hc
        have hok0 := addBinderUniverses_ok c.binders umapNew umapNew_ok
        have hok := uCollect_ok _ _ _ hok0 hc
        have hmem := uCollect_mem _ _ _ hc
        refine ⟨hok.sorted, hok.head, rfl, ?_, ?_, umapIndex_zero um hok.head, ?_⟩
        · intro k u hku
          apply umapIndex_of_mem
          exact (hmem u).mpr (.inl ((addBinderUniverses_mem c.binders umapNew u).mpr (.inr ⟨k, hku⟩)))
        · intro ui idx hev
          apply umapIndex_of_mem
          exact (hmem ui).mpr (.inr ⟨idx, hev⟩)
        · intro a b i j ha hb
          exact umapIndex_lt_iff um hok.sorted a b i j ha hb

/-- Universe compression can be undone: mapping the u-canonical form back through the universe map
    gives the original canonical value — binders and value, placeholders of all three kinds
    (type, lifetime, CONST: this is the code as repaired for finding F8). -/
theorem ucanon_roundtrip (c : Canon Args) (uc : UCanonicalized Args) (h : uCanonicalize c = .ok uc) :
    mapFromCanonical uc.universes uc.quantified.canonical = .ok c := by
  unfold uCanonicalize at h
  cases hc : collectUniverses c with
  | error e => simp [hc] at h
  | ok um =>
    simp only [hc] at h
    cases hv : foldArgs (uMapToCanonical um) 0 c.value with
    | error e => simp [hv] at h
    | ok v1 =>
      simp only [hv] at h
      split at h
      · simp at h
      · rename_i bs hbs
        simp at h; subst h
        simp [mapFromCanonical, foldArgs_to_from um 0 c.value v1 hv, mapBinders_to_from um c.binders bs hbs]

/-- F8 on the code BEFORE the repair (`Legacy.mapFromCanonical`: `UMapFromCanonical` without
    `fold_free_placeholder_const`): for `[!3_0 (type), !3_1 (const)]` compression gives `[!1_0, !1_1]`
    and mapping back gives `[!3_0, !1_1]` — the const placeholder stays in the compressed universe. -/
def f8Witness : Canon Args :=
  ⟨[], .cons (.ty (.placeholder 3 0)) (.cons (.ct (.mk (.scalar 20) (.placeholder 3 1))) .nil)⟩

theorem legacy_ucanon_roundtrip_refuted :
    ∃ uc, uCanonicalize f8Witness = .ok uc ∧
      Legacy.mapFromCanonical uc.universes uc.quantified.canonical =
        .ok ⟨[], .cons (.ty (.placeholder 3 0)) (.cons (.ct (.mk (.scalar 20) (.placeholder 1 1))) .nil)⟩ ∧
      Legacy.mapFromCanonical uc.universes uc.quantified.canonical ≠ .ok f8Witness :=
  ⟨_, rfl, rfl, by intro h; cases h⟩

/-- `map_universe_from_canonical` on any strictly increasing non-empty map is total and strictly
    increasing on ALL canonical universes, in range or not (relative order preserved); a canonical
    universe beyond the map lands strictly above every original universe of the map. -/
theorem from_canonical_fresh (um : List Nat) (hs : um.Pairwise (· < ·)) (hne : um ≠ []) :
    (∀ c, ∃ u, mapUniverseFromCanonical um c = .ok u) ∧
    (∀ c1 c2 u1 u2, mapUniverseFromCanonical um c1 = .ok u1 → mapUniverseFromCanonical um c2 = .ok u2 →
        c1 < c2 → u1 < u2) ∧
    (∀ c u, um.length ≤ c → mapUniverseFromCanonical um c = .ok u → ∀ x ∈ um, x < u) := by
  refine ⟨mapUniverseFromCanonical_ok um hne, mapUniverseFromCanonical_strictMono um hs, ?_⟩
  intro c u hc h x hx
  obtain ⟨mx, hl, rfl⟩ := mapUniverseFromCanonical_outOfRange um c u (by omega) h
  obtain ⟨i, hi, rfl⟩ := List.getElem_of_mem hx
  have := getLast?_ge um hs mx hl i um[i] (by simp [hi])
  omega

end Chalk.C16

#print axioms Chalk.C16.canon_first_occurrence
#print axioms Chalk.C16.canon_numbering
#print axioms Chalk.C16.canon_closed
#print axioms Chalk.C16.canon_roundtrip
#print axioms Chalk.C16.canon_eq_of_renaming
#print axioms Chalk.C16.canon_eq_of_renaming_same_table
#print axioms Chalk.C16.invert_none_iff
#print axioms Chalk.C16.invert_some_spec
#print axioms Chalk.C16.invert_consistent
#print axioms Chalk.C16.invOk_var
#print axioms Chalk.C16.ucanon_monotone
#print axioms Chalk.C16.ucanon_roundtrip
#print axioms Chalk.C16.legacy_ucanon_roundtrip_refuted
#print axioms Chalk.C16.from_canonical_fresh
