/-
  C17ms — `make_solution` (chalk-engine/src/slg/aggregate.rs) over a completed table: what the
  aggregate of a table's answers guarantees.  Model: `MakeSolution.lean`; helper lemmas:
  `Lemmas/MakeSolutionLemmas.lean` (`genOf` is transitive, the stream test looks at every remaining
  stored answer, the loop invariant `guidanceLoop_covers`).

  The property's sentence for the aggregate: "combining candidate answers only generalizes" — the
  guidance handed out as DEFINITE must not exclude any answer of the table.
-/
import ChalkModel.Lemmas.MakeSolutionLemmas
import ChalkModel.Props.C17

namespace Chalk.C17ms

/-- `None` ("No possible solution") exactly for the empty table. -/
theorem none_iff_no_answers (us : List Nat) (answers : List CAnswer) :
    makeSolution us answers = .ok none ↔ answers = [] := by
  cases answers with
  | nil => simp [makeSolution]
  | cons a rest =>
    simp only [makeSolution]
    split
    · simp
    · split <;> simp

/-- `Unique` exactly when the table holds one answer and that answer is unconditional; the
    solution is that answer (substitution and region constraints). -/
theorem unique_iff_single_unconditional (us : List Nat) (answers : List CAnswer) (b : List (VarKind × Nat))
    (s : Args) (cs : List Constraint) :
    makeSolution us answers = .ok (some (.unique b s cs)) ↔
      ∃ a, answers = [a] ∧ a.ambiguous = false ∧ a.binders = b ∧ a.subst = s ∧ a.constraints = cs := by
  cases answers with
  | nil => simp [makeSolution]
  | cons a rest =>
    simp only [makeSolution]
    split
    · rename_i hc
      simp only [Bool.and_eq_true, List.isEmpty_iff, Bool.not_eq_true'] at hc
      constructor
      · intro h
        simp at h
        exact ⟨a, by simp [hc.1], hc.2, h.1, h.2.1, h.2.2⟩
      · rintro ⟨a', h1, _, h3, h4, h5⟩
        simp at h1
        rw [← h1.1] at h3 h4 h5
        simp [h3, h4, h5]
    · rename_i hc
      constructor
      · intro h
        split at h <;> simp at h
      · rintro ⟨a', h1, h2, _⟩
        simp at h1
        rw [← h1.1] at h2
        simp [h1.2, h2] at hc

/-- PARTIAL (structural) form of "definite guidance excludes no answer": when `make_solution`
    hands out `Ambig(Definite(g))`, every stored answer of the table — merged into the guidance or
    skipped because `any_future_answer` found nothing that `may_invalidate` — is covered by `g`:
    equal to it or a STRUCTURAL instance (`genOf`: pattern variables match anything, everything
    else agrees).  For a guidance in which no variable repeats this is the instance relation.
    All tables, any number of answers; the hypothesis says that the answers' substitutions have the
    kinds of the first one position by position (answers to one query always do). -/
theorem definite_guidance_covers_every_answer_partial (us : List Nat) (answers : List CAnswer) (g : Canon Args)
    (h : makeSolution us answers = .ok (some (.ambig (.definite g))))
    (hk : ∀ a0, answers.head? = some a0 → ∀ a, a ∈ answers → a0.subst.sameKinds a.subst = true) :
    ∀ a, a ∈ answers → Covers g.value a.subst := by
  cases answers with
  | nil => simp
  | cons a0 rest =>
    simp only [makeSolution] at h
    split at h
    · simp at h
    · cases hl : guidanceLoop us rest ⟨a0.binders, a0.subst⟩ 1 with
      | error e => simp [hl] at h
      | ok p =>
        obtain ⟨g', m⟩ := p
        simp [hl] at h
        subst h
        have hk0 := hk a0 (by simp)
        have := guidanceLoop_covers us rest ⟨a0.binders, a0.subst⟩ 1 g m hl
          (fun a ha => hk0 a (List.mem_cons_of_mem _ ha))
        intro a ha
        rcases List.mem_cons.mp ha with e | ha'
        · rw [e]; exact this.1
        · exact this.2 a ha'

/-- FULL STATEMENT, false of the code (F1): "every answer is an INSTANCE of the definite guidance".
    Table `[Pair<^0, ^0>] ; [Pair<A, B>]` (answers of `impl<T> Tr for Pair<T, T>` and
    `impl Tr for Pair<A, B>` to `exists<X> { X: Tr }`): `make_solution` returns
    `Ambig(Definite([Pair<^0, ^0>]))` although no substitution maps it to `[Pair<A, B>]`. -/
def f1Table : List CAnswer :=
  [⟨[(.ty .general, 0)], C17.pairAA, [], false⟩, ⟨[], C17.pairAB, [], false⟩]

theorem definite_guidance_excludes_answer_refuted :
    makeSolution [0] f1Table = .ok (some (.ambig (.definite ⟨[(.ty .general, 0)], C17.pairAA⟩))) ∧
    ∀ θ : List GArg, C17.pairAA.subst θ ≠ .ok C17.pairAB := by
  refine ⟨?_, C17.mayInvalidate_sound_refuted.2⟩
  simp [makeSolution, f1Table, guidanceLoop, anyFutureInvalidates, C17.mayInvalidate_sound_refuted.1]
  simp [C17.pairAA, Args.isNil, isTrivial, isTrivialFrom]

/-- non-vacuity of the partial theorem: a table `Vec<^0>`, `Vec<A>` (`adt 0` = Vec, `adt 2` = A)
    whose kinds agree: the second answer cannot invalidate the first, the guidance is
    `Definite(Vec<^0>)` and covers both (the driver evaluates longer tables, e.g. with a third
    answer `Box<A>` the guidance is merged down to `^0` and `Unknown` is returned). -/
def vecVar : Args := .cons (.ty (.app (.adt 0) (.cons (.ty (.bound 0 0)) .nil))) .nil
def vecA : Args := .cons (.ty (.app (.adt 0) (.cons (.ty (.app (.adt 2) .nil)) .nil))) .nil
def demoTable : List CAnswer :=
  [⟨[(.ty .general, 0)], vecVar, [], false⟩, ⟨[], vecA, [], false⟩]

theorem demo_definite : makeSolution [0] demoTable = .ok (some (.ambig (.definite ⟨[(.ty .general, 0)], vecVar⟩))) := by
  simp [makeSolution, demoTable, guidanceLoop, anyFutureInvalidates, mayInvalidate, miAny, miGArg, miTy, miNamed,
    TyName.sameKind, Args.length, Args.toList, vecVar, vecA, Args.isNil, isTrivial, isTrivialFrom]

example : ∀ a, a ∈ demoTable → Covers vecVar a.subst :=
  definite_guidance_covers_every_answer_partial [0] demoTable ⟨[(.ty .general, 0)], vecVar⟩ demo_definite
    (by intro a0 h a ha; simp [demoTable] at h; subst h; revert a ha; decide)

end Chalk.C17ms

#print axioms Chalk.C17ms.none_iff_no_answers
#print axioms Chalk.C17ms.unique_iff_single_unconditional
#print axioms Chalk.C17ms.definite_guidance_covers_every_answer_partial
#print axioms Chalk.C17ms.definite_guidance_excludes_answer_refuted
#print axioms Chalk.C17ms.demo_definite
