/-
  C23 — the logging database: the sub-program printed from the recorded items gives the same
  answers as the original program.  The Lean side is the restriction lemma: a sub-program that
  contains every clause reachable from the goal has the same meaning on the reachable atoms
  (`sol_restrict`, `sol_restrict_instance`, `goal_restrict`), its executable form
  (`restrict_needs_cert`, `restrict_needs`, `needs_exact`), and the one place where lowering items
  to clauses is not monotone in the recorded item set: auto traits
  (`auto_log_without_suppressing_impl_differs`, `auto_log_changes_answer`,
  `lowerAuto_sublist_of_faithful`).
-/
import ChalkModel.Lemmas.LoggingLemmas
import ChalkModel.Lemmas.GoalLemmas

namespace Chalk.C23
open Chalk.Sem Chalk.Logging

/-- Any log `Q` between the clauses reachable from the seed predicates and the whole program `P`
    has the same meaning as `P` on every atom with a reachable predicate, under any hypotheses. -/
theorem sol_restrict (P : Program) (seeds : List String) (Q : Program)
    (hco : ∀ p, Q.coind p = P.coind p)
    (hsub : ∀ c ∈ Q.clauses, c ∈ P.clauses)
    (hneeds : ∀ c ∈ P.clauses, Reach P seeds c.head.pred → c ∈ Q.clauses)
    (Γ : List Atom) (a : Atom) (ha : Reach P seeds a.pred) : Holds Q Γ a ↔ Holds P Γ a :=
  holds_agree (R := fun a => Reach P seeds a.pred) (agree_of_between hco hsub hneeds)
    (reach_closed P seeds) a ha

/-- Instance level, symmetric: `P` and `Q` need only have the same clauses among those with a head
    *instance* in a set `R` of atoms closed under the clauses of `P`.  This is the form matching
    chalk's `could_match`-filtered `impls_for_trait`: impls that cannot match any reachable atom
    may be missing from (or added to) the log. -/
theorem sol_restrict_instance (P Q : Program) (R : Atom → Prop) (hA : AgreeOn P Q R)
    (hC : ClosedUnder P R) (Γ : List Atom) (a : Atom) (ha : R a) : Holds Q Γ a ↔ Holds P Γ a :=
  holds_agree hA hC a ha

/-- the same in the coinductive stratum alone -/
theorem sol_restrict_instance_co (P Q : Program) (R : Atom → Prop) (hA : AgreeOn P Q R)
    (hC : ClosedUnder P R) (Γ : List Atom) (a : Atom) (ha : R a) : CoHolds Q Γ a ↔ CoHolds P Γ a :=
  coholds_agree hA hC a ha

/-- Goals, including negation and hypothetical goals: every goal all of whose atoms have reachable
    predicates has the same truth value in the log as in the original program. -/
theorem goal_restrict (P : Program) (seeds : List String) (Q : Program)
    (hco : ∀ p, Q.coind p = P.coind p)
    (hsub : ∀ c ∈ Q.clauses, c ∈ P.clauses)
    (hneeds : ∀ c ∈ P.clauses, Reach P seeds c.head.pred → c ∈ Q.clauses)
    (Γ : List Atom) (g : Goal) (hg : ∀ p ∈ goalPreds g, Reach P seeds p) :
    GHolds Q Γ g ↔ GHolds P Γ g :=
  gholds_agree (R := fun a => Reach P seeds a.pred) (agree_of_between hco hsub hneeds)
    (reach_closed P seeds) g Γ (goalIn_of_preds g hg)

/-- Executable form with a checked certificate: any predicate list `S` that passes the decidable
    closure check and contains the goal's predicates. -/
theorem restrict_needs_cert (P : Program) (S : List String) (Γ : List Atom) (g : Goal)
    (hclosed : closedList P S = true) (hg : ∀ p ∈ goalPreds g, p ∈ S) :
    GHolds (restrict P S) Γ g ↔ GHolds P Γ g :=
  gholds_agree (R := fun a => a.pred ∈ S) (restrict_agreeOn P S) (closedUnder_of_closedList hclosed)
    g Γ (goalIn_of_preds g hg)

/-- The computed predicate list is closed and contains the seeds, and it is exactly the set of
    reachable predicates. -/
theorem needs_closed (P : Program) (g : Goal) : closedList P (needs P g) = true :=
  reachList_closed P (goalPreds g)

theorem needs_exact (P : Program) (g : Goal) (p : String) :
    p ∈ needs P g ↔ Reach P (goalPreds g) p :=
  ⟨reachList_sound P (goalPreds g) p, reachList_complete P (goalPreds g)⟩

/-- Unconditional: restricting a program to what the goal needs preserves the goal's truth value. -/
theorem restrict_needs (P : Program) (Γ : List Atom) (g : Goal) :
    GHolds (restrict P (needs P g)) Γ g ↔ GHolds P Γ g :=
  restrict_needs_cert P (needs P g) Γ g (needs_closed P g) (seeds_subset_reachList P (goalPreds g))

/-! ### auto traits -/

/-- Finding F9a, clause level: dropping the (non-matching) explicit impl `impl Send for Foo<A>`
    from the log *adds* the default clause `Send(Foo<v0>) :- .` to the lowered program: the log is
    not a sub-program of the original, `lowerAuto` is not monotone in the item set. -/
theorem auto_log_without_suppressing_impl_differs :
    (∀ e ∈ f9aLog.explicit, e ∈ f9aItems.explicit) ∧ f9aLog.base = f9aItems.base ∧
    f9aLog.autoTraits = f9aItems.autoTraits ∧ f9aLog.adts = f9aItems.adts ∧
    defaultClause "Send" "Foo" 1 [] ∈ lowerAuto f9aLog ∧
    defaultClause "Send" "Foo" 1 [] ∉ lowerAuto f9aItems ∧
    ¬ SuppressionFaithful f9aItems f9aLog := by
  refine ⟨by simp [f9aLog], rfl, rfl, rfl, by decide, by decide, ?_⟩
  intro h
  have := (h "Send" (by decide) ("Foo", 1, []) (by decide)).mpr (by decide)
  exact absurd this (by decide)

/-- Finding F9a, answer level: `Foo<B>: Send` does not hold in the original program but holds in
    the program replayed from such a log. -/
theorem auto_log_changes_answer :
    ¬ Holds (autoProgram f9aItems) [] ⟨"Send", .cons (.app "Foo" (.cons (.app "B" .nil) .nil)) .nil⟩ ∧
    Holds (autoProgram f9aLog) [] ⟨"Send", .cons (.app "Foo" (.cons (.app "B" .nil) .nil)) .nil⟩ :=
  ⟨(evalGoal_sound (autoProgram f9aItems) 5 (.atom _) []).2 (by rfl),
   (evalGoal_sound (autoProgram f9aLog) 5 (.atom _) []).1 (by rfl)⟩

/-- The obligation of the recording wrapper: if the log's items are among the original's and the
    log is suppression-faithful, the lowered log is a sub-program of the lowered original, so the
    restriction lemma above applies to it. -/
theorem lowerAuto_sublist_of_faithful (I L : AutoItems)
    (hb : ∀ c ∈ L.base, c ∈ I.base) (ht : ∀ t ∈ L.autoTraits, t ∈ I.autoTraits)
    (ha : ∀ a ∈ L.adts, a ∈ I.adts) (he : ∀ e ∈ L.explicit, e ∈ I.explicit)
    (hf : SuppressionFaithful I L) : ∀ c ∈ lowerAuto L, c ∈ lowerAuto I :=
  lowerAuto_subset_of_faithful hb ht ha he hf

/-! ### non-vacuity -/

/-- `impl Foo for A`, `impl<T> Foo for V<T> where T: Foo`, `impl Bar for A where A: Foo`,
    `impl Bar for B` -/
def demo : Program :=
  ⟨[⟨⟨"Foo", .cons (.app "A" .nil) .nil⟩, []⟩,
    ⟨⟨"Foo", .cons (.app "V" (.cons (.var 0) .nil)) .nil⟩, [⟨"Foo", .cons (.var 0) .nil⟩]⟩,
    ⟨⟨"Bar", .cons (.app "A" .nil) .nil⟩, [⟨"Foo", .cons (.app "A" .nil) .nil⟩]⟩,
    ⟨⟨"Bar", .cons (.app "B" .nil) .nil⟩, []⟩], fun _ => false⟩

def fooVA : Goal := .atom ⟨"Foo", .cons (.app "V" (.cons (.app "A" .nil) .nil)) .nil⟩
def barA : Goal := .atom ⟨"Bar", .cons (.app "A" .nil) .nil⟩

example : needs demo fooVA = ["Foo"] := by decide
example : needs demo barA = ["Bar", "Foo"] := by decide
example : needs demo (.implies [⟨"Bar", .nil⟩] (.not fooVA)) = ["Bar", "Foo"] := by decide
example : (restrict demo (needs demo fooVA)).clauses = demo.clauses.take 2 := by decide
example : (restrict demo (needs demo barA)).clauses = demo.clauses := by decide
example : closedList demo ["Foo"] = true := by decide
example : closedList demo ["Bar"] = false := by decide
example : evalGoal (restrict demo (needs demo fooVA)) 10 [] fooVA = .yes := by rfl
example : evalGoal demo 10 [] fooVA = .yes := by rfl

end Chalk.C23

#print axioms Chalk.C23.sol_restrict
#print axioms Chalk.C23.sol_restrict_instance
#print axioms Chalk.C23.sol_restrict_instance_co
#print axioms Chalk.C23.goal_restrict
#print axioms Chalk.C23.restrict_needs_cert
#print axioms Chalk.C23.needs_closed
#print axioms Chalk.C23.needs_exact
#print axioms Chalk.C23.restrict_needs
#print axioms Chalk.C23.auto_log_without_suppressing_impl_differs
#print axioms Chalk.C23.auto_log_changes_answer
#print axioms Chalk.C23.lowerAuto_sublist_of_faithful
