/-
  C28 — every returned solution is a well-formed answer for its query.
  `wfAnswer` is evaluated by the check on every solution either solver returns; the theorems say
  what passing it guarantees.
-/
import ChalkModel.Lemmas.WfAnswerLemmas

namespace Chalk.C28

/-- Applying a well-formed answer to (any type inside) its query never fails: every query term whose
    free variables are the query's binders (`scoped`, what a canonical query guarantees) is mapped
    to a term — none of the panics of `SubstFolder` (wrong kind, index out of range, non-innermost
    variable) can occur. -/
theorem wfAnswer_apply_ok (cty : Nat → Ty) (queryKinds : List VarKind) (nu : Nat) (ans : Canon Args)
    (h : wfAnswer queryKinds nu ans = true) (t : Ty) (ht : t.scoped cty queryKinds 0 = true) :
    ∃ r, foldTy (applyFolder ans.value.toList) 0 t = .ok r := by
  simp only [wfAnswer, Bool.and_eq_true] at h
  exact foldTy_apply_ok cty queryKinds ans.value.toList h.1 0 t ht

theorem wfAnswer_apply_ok_wc (cty : Nat → Ty) (queryKinds : List VarKind) (nu : Nat) (ans : Canon Args)
    (h : wfAnswer queryKinds nu ans = true) (w : WC) (hw : w.scoped cty queryKinds 0 = true) :
    ∃ r, foldWC (applyFolder ans.value.toList) 0 w = .ok r := by
  simp only [wfAnswer, Bool.and_eq_true] at h
  exact foldWC_apply_ok cty queryKinds ans.value.toList h.1 0 w hw

/-- one entry per unknown of the query, each of the query's kind -/
theorem wfAnswer_arity (queryKinds : List VarKind) (nu : Nat) (ans : Canon Args)
    (h : wfAnswer queryKinds nu ans = true) : ans.value.toList.length = queryKinds.length := by
  simp only [wfAnswer, Bool.and_eq_true] at h
  have : ∀ (ks : List VarKind) (as : List GArg), kindsMatch ks as = true → as.length = ks.length := by
    intro ks
    induction ks with
    | nil => intro as h; cases as <;> simp [kindsMatch] at h ⊢
    | cons k ks ih =>
      intro as h
      cases as with
      | nil => simp [kindsMatch] at h
      | cons a as => simp [kindsMatch] at h; simp [ih as h.2]
  exact this _ _ h.1

/-- refers only to variables bound by the solution itself, each in a universe the query can name,
    contains no inference variable, and names no placeholder universe beyond the query's
    (binders used only by region constraints are not restricted, as the property says) -/
theorem wfAnswer_closed (queryKinds : List VarKind) (nu : Nat) (ans : Canon Args)
    (h : wfAnswer queryKinds nu ans = true) :
    ans.value.okIn (ans.binders.map (·.2)) nu 0 = true := by
  simp only [wfAnswer, Bool.and_eq_true] at h
  exact h.2

/-- Non-vacuity: a query with a type and a lifetime unknown and a well-formed answer for it. -/
example : wfAnswer [.ty .general, .lt] 2
    ⟨[(.ty .general, 0)], .cons (.ty (.app (.adt 1) (.cons (.ty (.bound 0 0)) .nil))) (.cons (.lt (.placeholder 1 0)) .nil)⟩ = true := by
  decide
example : wfAnswer [.ty .general] 1 ⟨[], .cons (.ty (.bound 0 0)) .nil⟩ = false := by decide

end Chalk.C28

#print axioms Chalk.C28.wfAnswer_apply_ok
#print axioms Chalk.C28.wfAnswer_apply_ok_wc
#print axioms Chalk.C28.wfAnswer_arity
#print axioms Chalk.C28.wfAnswer_closed
