/-
  C05 — auto traits and coinductive traits follow coinductive semantics.
  (a) what the check certifies for each answer: Stage A for the coinductive stratum (both
      directions), via the acceptance predicate of C02 (`judgeGround`);
  (b) the property's sentence as a theorem about the greatest fixed point of the clauses built
      from the program data (`autoProgram`): one unfolding of the gfp is exactly "an applicable
      explicit impl, or — for a constructor without explicit/negative impl — all constituents".
  The recursive solver's cache ("never reused") is covered by posing goal sequences to one solver
  instance in the correspondence run and by the FixedPoint model (C10).
-/
import ChalkModel.Lemmas.GfpLemmas
import ChalkModel.AutoTraits

namespace Chalk.C05
open Chalk.Sem

theorem decide_co_yes (P : Program) (Γ : List Atom) (fuel : Nat) (a : Atom)
    (h : evalCo P Γ fuel [] a = .yes) : CoHolds P Γ a :=
  (coStepS_nil P Γ a).mp (evalCo_yes P Γ fuel [] a h)

theorem decide_co_no (P : Program) (Γ : List Atom) (fuel : Nat) (a : Atom)
    (h : evalCo P Γ fuel [] a = .no) : ¬ CoHolds P Γ a :=
  fun hc => evalCo_no P Γ fuel [] a h ((coStepS_nil P Γ a).mpr hc)

/-- cycles count as satisfied: an atom whose only requirement is itself holds coinductively
    (and would not inductively) -/
theorem cycle_satisfied (P : Program) (a : Atom) (hco : P.coind a.pred = true)
    (c : Clause) (hc : c ∈ P.clauses) (σ : Nat → Tm) (hh : c.head.inst σ = a)
    (hb : ∀ b ∈ c.body, b.inst σ = a) : CoHolds P [] a :=
  ⟨fun x => x = a, fun x hx => by
      subst hx
      exact ⟨hco, Or.inr ⟨c, hc, σ, hh, fun b hbm => hb b hbm⟩⟩, rfl⟩

/-- The sentence of the property: for the program built from the data `D`, an atom of an auto (or
    coinductive) trait holds iff it is the head instance of an explicit impl whose conditions hold,
    or of a default auto clause (present only for constructors without explicit/negative impl)
    all of whose constituents hold — "hold" being the same greatest fixed point (cycles allowed). -/
theorem auto_sentence (D : AutoData) (a : Atom) :
    CoHolds (autoProgram D) [] a ↔
      ((autoProgram D).coind a.pred = true ∧
        ((∃ c ∈ D.impls, ∃ σ : Nat → Tm, c.head.inst σ = a ∧ ∀ b ∈ c.body, CoHolds (autoProgram D) [] (b.inst σ)) ∨
         (∃ tr ∈ D.autoTraits, ∃ c ∈ autoClausesFor D tr, ∃ σ : Nat → Tm, c.head.inst σ = a ∧
            ∀ b ∈ c.body, CoHolds (autoProgram D) [] (b.inst σ)))) := by
  rw [coHolds_unfold]
  simp only [CoStep, List.not_mem_nil, false_or, ViaClause, autoProgram, List.mem_append, List.mem_flatMap]
  constructor
  · rintro ⟨h1, c, hc, σ, hs, hb⟩
    refine ⟨h1, ?_⟩
    rcases hc with hc | ⟨tr, htr, hc⟩
    · exact Or.inl ⟨c, hc, σ, hs, hb⟩
    · exact Or.inr ⟨tr, htr, c, hc, σ, hs, hb⟩
  · rintro ⟨h1, h2⟩
    refine ⟨h1, ?_⟩
    rcases h2 with ⟨c, hc, σ, hs, hb⟩ | ⟨tr, htr, c, hc, σ, hs, hb⟩
    · exact ⟨c, Or.inl hc, σ, hs, hb⟩
    · exact ⟨c, Or.inr ⟨tr, htr, hc⟩, σ, hs, hb⟩

/-- A constructor with an explicit or negative impl gets no default clause… -/
theorem no_default_if_provided (D : AutoData) (tr : String) (adt : AdtDecl)
    (hp : (tr, adt.name) ∈ D.provided) (hleaf : adt.name ∉ D.leaves) (htup : ∀ t ∈ D.tuples, t.1 ≠ adt.name) :
    ∀ c ∈ autoClausesFor D tr, ∀ args, c.head.args ≠ .cons (.app adt.name args) .nil := by
  intro c hc args heq
  simp only [autoClausesFor, List.mem_append, List.mem_map, List.mem_filter] at hc
  rcases hc with (⟨a, ⟨_, hok⟩, rfl⟩ | ⟨l, ⟨hl, _⟩, rfl⟩) | ⟨⟨n, k⟩, ⟨ht, _⟩, rfl⟩
  · simp at heq
    have : (tr, a.name) ∈ D.provided := by rw [heq.1]; exact hp
    simp [List.contains_iff_mem, this] at hok
  · simp at heq; exact hleaf (heq.1 ▸ hl)
  · simp at heq; exact htup _ ht heq.1

/-- …and one without gets exactly "all fields" as conditions. -/
theorem default_clause_of_adt (D : AutoData) (tr : String) (adt : AdtDecl) (ha : adt ∈ D.adts)
    (hp : (tr, adt.name) ∉ D.provided) :
    (⟨⟨tr, .cons (.app adt.name (varList 0 adt.nparams)) .nil⟩, adt.fields.map fun f => ⟨tr, .cons f .nil⟩⟩ : Clause)
      ∈ autoClausesFor D tr := by
  simp only [autoClausesFor, List.mem_append, List.mem_map, List.mem_filter]
  exact Or.inl (Or.inl ⟨adt, ⟨ha, by simp [List.contains_iff_mem, hp]⟩, rfl⟩)

/-- Non-vacuity / the cyclic case: `struct List { next: Box<List> }`-like ring `L { f: L }` is
    `Send`; with a non-`Send` member (`impl !Send for N`) `M { f: N }` is not. -/
def demoD : AutoData :=
  { adts := [⟨"L", 0, [.app "L" .nil]⟩, ⟨"N", 0, []⟩, ⟨"M", 0, [.app "N" .nil]⟩],
    leaves := ["u32"], tuples := [], impls := [], provided := [("Send", "N")],
    autoTraits := ["Send"], coTraits := [] }
example : evalCo (autoProgram demoD) [] 10 [] ⟨"Send", .cons (.app "L" .nil) .nil⟩ = .yes := by rfl
example : evalCo (autoProgram demoD) [] 10 [] ⟨"Send", .cons (.app "M" .nil) .nil⟩ = .no := by rfl

end Chalk.C05

#print axioms Chalk.C05.decide_co_yes
#print axioms Chalk.C05.decide_co_no
#print axioms Chalk.C05.cycle_satisfied
#print axioms Chalk.C05.auto_sentence
#print axioms Chalk.C05.no_default_if_provided
#print axioms Chalk.C05.default_clause_of_adt
