/-
  C13 — declaration order does not change solutions.
  (1) The meaning of a program does not depend on the order of its clauses or of the conditions of
  a clause (`sol_perm_invariant`), so any order dependence of an answer is a defect of the solver,
  never of the semantics.  (2) At the aggregation layer of the SLG solver the full statement is
  FALSE (DESIGN §9-F2): the guidance depends on the order in which answers arrive; refuted on the
  model of `merge_into_guidance`/`may_invalidate` with the two orders of the same two answers.
-/
import ChalkModel.Lemmas.PermLemmas
import ChalkModel.Lemmas.AggregateLemmas

namespace Chalk.C13
open Chalk.Sem

/-- Programs that agree as sets of clauses (with conditions as sets) give every closed goal the
    same truth value under every hypothesis list. -/
theorem sol_perm_invariant (P Q : Program) (h : SameProgram P Q) (g : Goal) (Γ : List Atom) :
    GHolds P Γ g ↔ GHolds Q Γ g := gholds_same h g Γ

/-- In particular: any permutation of the clause list. -/
theorem sol_perm_clauses (P : Program) (cs : List Clause) (hp : cs.Perm P.clauses) (g : Goal) (Γ : List Atom) :
    GHolds P Γ g ↔ GHolds ⟨cs, P.coind⟩ Γ g := by
  apply sol_perm_invariant
  refine ⟨rfl, ?_, ?_⟩
  · intro c hc; exact ⟨c, hp.symm.subset hc, rfl, fun _ => Iff.rfl⟩
  · intro d hd; exact ⟨d, hp.subset hd, rfl, fun _ => Iff.rfl⟩

/-- The two answers of F2: `Pair<A, A>` (from `impl Foo for Pair<A,A>`) and `Pair<^0.0, ^0.0>`
    (from `impl<T> Foo for Pair<T,T>`). -/
def ansConcrete : Args := .cons (.ty (.app (.adt 0) (.cons (.ty (.app (.adt 1) .nil)) (.cons (.ty (.app (.adt 1) .nil)) .nil)))) .nil
def ansGeneric : Args := .cons (.ty (.app (.adt 0) (.cons (.ty (.bound 0 0)) (.cons (.ty (.bound 0 0)) .nil)))) .nil

/-- FULL STATEMENT REFUTED: "the guidance computed from a complete answer stream does not depend on
    the order of the answers".  Concrete first: the second answer may invalidate, the merge gives
    `Pair<^0.0, ^0.1>`.  Generic first: `may_invalidate` says no future answer matters and the
    guidance stays `Pair<^0.0, ^0.0>`.  Both are sound, but they differ. -/
theorem guidance_order_dependent :
    (mayInvalidate ansGeneric ansConcrete = .ok true ∧
     mergeIntoGuidance [0] ansConcrete ansGeneric =
       .ok ⟨[(.ty .general, 0), (.ty .general, 0)],
            .cons (.ty (.app (.adt 0) (.cons (.ty (.bound 0 0)) (.cons (.ty (.bound 0 1)) .nil)))) .nil⟩) ∧
    mayInvalidate ansConcrete ansGeneric = .ok false := by
  refine ⟨⟨?_, ?_⟩, ?_⟩
  · simp [mayInvalidate, ansGeneric, ansConcrete, miAny, miGArg, miTy, miNamed, TyName.sameKind, Args.length, Args.toList]
  · rfl
  · simp [mayInvalidate, ansGeneric, ansConcrete, miAny, miGArg, miTy, miNamed, TyName.sameKind, Args.length, Args.toList]

/-- What does hold at that layer (any order): whatever guidance results, every answer merged into
    it is an instance of it (C17 `merge_generalizes`) — order changes precision, never soundness. -/
theorem guidance_sound_any_order (universes : List Nat) (guidance answer : Args) (r : Canon Args)
    (h : mergeIntoGuidance universes guidance answer = .ok r) (hk : guidance.sameKinds answer = true) :
    r.value.genOf guidance = true ∧ r.value.genOf answer = true := by
  unfold mergeIntoGuidance at h
  cases hm : mergeLoop universes 0 guidance answer [] with
  | error e => simp [hm] at h
  | ok p =>
    obtain ⟨v, st⟩ := p
    simp [hm] at h
    rw [← h]
    exact mergeLoop_gen universes 0 guidance answer [] v st hm hk

end Chalk.C13

#print axioms Chalk.C13.sol_perm_invariant
#print axioms Chalk.C13.sol_perm_clauses
#print axioms Chalk.C13.guidance_order_dependent
#print axioms Chalk.C13.guidance_sound_any_order
