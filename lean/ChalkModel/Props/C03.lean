/-
  C03 — SLG answer enumeration is sound, duplicate-free and complete; the look-ahead flag is accurate.
  (1) exact model of the stream logic (`AnswerStream.lean`): push de-duplication, `peek`/`next`
      with the invalid-answer skip, the `solve_multiple` loop and its flag;
  (2) content: the acceptance predicate `judgeEnumeration` over the certified evaluator.
-/
import ChalkModel.Lemmas.StreamLemmas
import ChalkModel.Enumeration
import ChalkModel.Lemmas.ContractLemmas

namespace Chalk.C03
open Chalk.Sem

/-- no sequence of `push_answer` calls ever stores two answers with the same substitution -/
theorem pushAnswer_nodup (as : List StoredAnswer) (t' : STable)
    (h : as.foldlM (fun (t : STable) a => (t.pushAnswer a).map (·.1)) {} = .ok t') :
    (t'.answers.map (·.key)).Nodup :=
  (pushes_nodup as {} t' STable.inv_empty h).1

/-- On a non-floundered table and a callback that always continues, the callback sequence of
    `solve_multiple` is exactly the table's valid answers (no delayed subgoals) in table order — and
    the flag passed with each is `true` iff another valid answer follows (`specYields`). -/
theorem enumerate_eq_filter_and_flag_accurate (answers : List StoredAnswer) (ds : List Bool)
    (hd : ∀ d ∈ ds, d = true) (hl : answers.length < ds.length) :
    solveMultiple false answers ds = specYields (answers.filter validAns) :=
  solveMultiple_spec answers.length answers (Nat.le_refl _) ds hd hl

/-- the flag of the last yielded answer is `false`, of every earlier one `true` -/
theorem flag_last_false (a : StoredAnswer) : specYields [a] = [(classify a, false)] := rfl
theorem flag_earlier_true (a b : StoredAnswer) (r : List StoredAnswer) :
    specYields (a :: b :: r) = (classify a, true) :: specYields (b :: r) := rfl

/-- content, soundness: a rejected answer is certified not to hold for its generic instantiation -/
theorem rejected_not_sound (P : Program) (fuel : Nat) (g : Goal) (cands answers : List (List Tm)) (c : Bool)
    (i : Nat) (σ : List Tm) (h : judgeEnumeration P fuel g cands answers c = .notSound i σ) :
    ¬ GHolds P [] (g.inst (fun k => (σ.getD k (.var k)).inst genericSubst)) := by
  unfold judgeEnumeration at h
  have key : ∀ (l : List (List Tm)) (n : Nat) i σ, firstUnsound P fuel g l n = some (i, σ, .no) →
      ¬ GHolds P [] (g.inst (fun k => (σ.getD k (.var k)).inst genericSubst)) := by
    intro l
    induction l with
    | nil => intro n i σ h; simp [firstUnsound] at h
    | cons x xs ih =>
      intro n i σ h
      simp only [firstUnsound] at h
      split at h
      · exact ih _ _ _ h
      · rename_i v hv
        simp only [Option.some.injEq, Prod.mk.injEq] at h
        obtain ⟨_, h2, h3⟩ := h
        subst h2
        exact (evalGoal_sound P fuel _ []).2 (by rw [← h3])
  split at h
  · rename_i i' σ' hu
    injection h with h1 h2; subst h1; subst h2
    exact key answers 0 _ _ hu
  · cases h
  · split at h
    · cases h
    · split at h
      · split at h <;> cases h
      · cases h

/-- content, completeness: a reported miss is a certified solution that is an instance of none
    of the enumerated answers -/
theorem rejected_misses (P : Program) (fuel : Nat) (g : Goal) (cands answers : List (List Tm)) (c : Bool)
    (θ : List Tm) (h : judgeEnumeration P fuel g cands answers c = .misses θ) :
    GHolds P [] (g.inst (listSubst θ)) ∧ ∀ σ ∈ answers, ∀ τ : Nat → Tm, σ.map (Tm.inst τ) ≠ θ := by
  unfold judgeEnumeration at h
  split at h
  · cases h
  · cases h
  · split at h
    · cases h
    · split at h
      · split at h
        · rename_i θ' rest hf
          injection h with h; subst h
          have hm : θ' ∈ (solutionsAmong P fuel g cands).filter (fun θ => !(answers.any fun σ => isInstance σ θ)) := by
            rw [hf]; simp
          simp only [List.mem_filter, Bool.not_eq_true', List.any_eq_false] at hm
          refine ⟨mem_solutionsAmong hm.1, ?_⟩
          intro σ hσ τ
          have := hm.2 σ hσ
          exact not_instance_of_isInstance_false (by simpa using this) τ
        · cases h
      · cases h

end Chalk.C03

#print axioms Chalk.C03.pushAnswer_nodup
#print axioms Chalk.C03.enumerate_eq_filter_and_flag_accurate
#print axioms Chalk.C03.flag_last_false
#print axioms Chalk.C03.flag_earlier_true
#print axioms Chalk.C03.rejected_not_sound
#print axioms Chalk.C03.rejected_misses
