/-
  C09 (and C02) — "proof search stays within the solver's configured size limits": what the size
  limit MEASURES.  Theorems about the exact model (`Truncate.lean`) of
  `chalk_solve::solve::truncate::{needs_truncation, TySizeVisitor}`, tied to the Rust code by the
  `ty-size` / `args-size` / `tys-size` / `garg-size` / `wc-size` / `goal-size` lines of the C09
  correspondence (harness/src/ops/trunc.rs, inference table without bound variables).
  Property theorems only; helper lemmas live in `Lemmas/TruncateLemmas.lean`.
-/
import ChalkModel.Lemmas.TruncateLemmas

namespace Chalk.C09trunc
open Chalk.Truncate

/-- The generalised invariant of `TySizeVisitor::visit_ty`, all types, all states with
    `size ≤ max_size` (which every reachable state satisfies): visiting `t` adds the number of type
    nodes of `t` to `size`, records the new `size` in `max_size`, leaves `depth` alone - and resets
    `size` to 0 exactly when the visit returns to `depth = 0`. -/
theorem visitTy_invariant (t : Ty) (s d m : Nat) (hs : s ≤ m) :
    visitTy ⟨s, d, m⟩ t = ⟨if d = 0 then 0 else s + tyNodes t, d, max m (s + tyNodes t)⟩ := by
  cases d with
  | zero => simp [visitTy_zero' t s m hs]
  | succ d => simp [visitTy_pos t s d m hs]

/-- ... and it keeps `size ≤ max_size`. -/
theorem visitTy_size_le_max (t : Ty) (s d m : Nat) (hs : s ≤ m) :
    (visitTy ⟨s, d, m⟩ t).size ≤ (visitTy ⟨s, d, m⟩ t).maxSize := by
  rw [visitTy_invariant t s d m hs]
  by_cases h : d = 0 <;> simp only [h, if_true, if_false] <;> omega

/-- Inside a type (`depth > 0`) the sizes of the types of a substitution ADD UP. -/
theorem visitArgs_inside (a : Args) (s d m : Nat) (hs : s ≤ m) :
    visitArgs ⟨s, d + 1, m⟩ a = ⟨s + argsNodes a, d + 1, max m (s + argsNodes a)⟩ :=
  visitArgs_pos a s d m hs

/-- The stateful visitor run from `TySizeVisitor::new` on a value ends in
    `size = 0, depth = 0, max_size = maxTop v`: the size of the LARGEST top-level type of the value
    (for a type: the number of its type nodes). -/
theorem visit_eq_spec (v : Value) : visitValue St.init v = ⟨0, 0, maxTop v⟩ := by
  rw [St.init, visitValue_zero, Nat.zero_max]

theorem maxSizeOf_eq_maxTop (v : Value) : maxSizeOf v = maxTop v := by
  rw [maxSizeOf, visit_eq_spec]

/-- `needs_truncation(.., max_size, value)` iff some top-level type of the value has more than
    `max_size` type nodes. -/
theorem needsTruncation_iff (max : Nat) (v : Value) :
    needsTruncation max v = true ↔ max < maxTop v := by
  simp [needsTruncation, maxSizeOf_eq_maxTop]

theorem needsTruncation_iff_exists (max : Nat) (v : Value) :
    needsTruncation max v = true ↔ ∃ t ∈ v.topTys, max < tyNodes t := by
  rw [needsTruncation_iff, maxTop]
  generalize v.topTys = ts
  induction ts with
  | nil => simp [maxNodes]
  | cons t ts ih =>
    simp only [maxNodes, List.mem_cons, exists_eq_or_imp, ← ih]
    omega

/-- Monotone in the limit: what fits under a limit fits under every larger one. -/
theorem needsTruncation_mono (max max' : Nat) (v : Value) (h : needsTruncation max v = false)
    (hle : max ≤ max') : needsTruncation max' v = false := by
  have h1 : ¬ (max < maxTop v) := by rw [← needsTruncation_iff]; simp [h]
  have h2 : ¬ (max' < maxTop v) := by omega
  rw [← needsTruncation_iff] at h2
  simpa using h2

/-- Closed under the arguments of a substitution: if a substitution does not need truncation, none
    of its type arguments does. -/
theorem needsTruncation_args_closed (max : Nat) (a : Args)
    (h : needsTruncation max (.args a) = false) (t : Ty) (ht : GArg.ty t ∈ a.toList) :
    needsTruncation max (.ty t) = false := by
  have h1 : ¬ (max < maxTop (.args a)) := by rw [← needsTruncation_iff]; simp [h]
  have h3 : tyNodes t ≤ maxTop (.args a) := le_maxNodes (mem_argsTopTys.mpr ht)
  have h2 : ¬ (max < maxTop (.ty t)) := by
    simp only [maxTop, Value.topTys, maxNodes] at h1 h3 ⊢; omega
  rw [← needsTruncation_iff] at h2
  simpa using h2

/-- A type argument of an application is strictly smaller than the application ... -/
theorem tyNodes_arg_lt (n : TyName) (args : Args) (t : Ty) (ht : GArg.ty t ∈ args.toList) :
    tyNodes t < tyNodes (.app n args) := by
  have := gargNodes_le_argsNodes ht
  simp only [gargNodes, tyNodes] at this ⊢; omega

/-- ... so a type that fits under the limit has only type arguments that fit. -/
theorem needsTruncation_subterm_closed (max : Nat) (n : TyName) (args : Args) (t : Ty)
    (ht : GArg.ty t ∈ args.toList) (h : needsTruncation max (.ty (.app n args)) = false) :
    needsTruncation max (.ty t) = false := by
  have h1 : ¬ (max < maxTop (.ty (.app n args))) := by rw [← needsTruncation_iff]; simp [h]
  have h3 := tyNodes_arg_lt n args t ht
  have h2 : ¬ (max < maxTop (.ty t)) := by
    simp only [maxTop, Value.topTys, maxNodes] at h1 ⊢; omega
  rw [← needsTruncation_iff] at h2
  simpa using h2

/-! ### structure of the measure -/

/-- every type has at least one node: with `max_size = 0` every type needs truncation -/
theorem tyNodes_pos (t : Ty) : 0 < tyNodes t := tyNodes_pos' t

theorem needsTruncation_zero (t : Ty) : needsTruncation 0 (.ty t) = true := by
  rw [needsTruncation_iff]
  have := tyNodes_pos t
  simp only [maxTop, Value.topTys, maxNodes]; omega

/-- an ADT (tuple, fn-def, closure, ...) application: 1 + the sum over its type arguments;
    lifetime and constant arguments (including the constants' types) count 0 -/
@[simp] theorem tyNodes_app (n : TyName) (args : Args) :
    tyNodes (.app n args) = 1 + (args.toList.map gargNodes).sum := by
  rw [tyNodes, argsNodes_eq_sum]

@[simp] theorem gargNodes_ty (t : Ty) : gargNodes (.ty t) = tyNodes t := by rw [gargNodes]
@[simp] theorem gargNodes_lt (l : Lifetime) : gargNodes (.lt l) = 0 := by rw [gargNodes]
@[simp] theorem gargNodes_ct (c : Const) : gargNodes (.ct c) = 0 := by rw [gargNodes]

/-- QUIRK of the code, mirrored: the type of a constant is not reached by the traversal
    (`Const::super_visit_with` looks at `value` only), so an array's size ignores its length's type
    and a constant argument never needs truncation, whatever its type. -/
@[simp] theorem tyNodes_array (t cty : Ty) (v : ConstValue) :
    tyNodes (.array t (.mk cty v)) = 1 + tyNodes t := by rw [tyNodes]

theorem const_never_needs_truncation (max : Nat) (c : Const) :
    needsTruncation max (.garg (.ct c)) = false := by
  have h2 : ¬ (max < maxTop (.garg (.ct c))) := by
    simp only [maxTop, Value.topTys, gargTopTys, maxNodes]; omega
  rw [← needsTruncation_iff] at h2
  simpa using h2

/-- The limit is per top-level type (maximum), never more than the sum. -/
theorem maxTop_args_le_sum (a : Args) : maxTop (.args a) ≤ argsNodes a :=
  maxNodes_argsTopTys_le a

/-! ### non-vacuity: the unit tests of `truncate.rs` and two more -/

/-- `Vec<Vec<Vec<Vec<T>>>>` of the tests `one_type` / `multiple_types` -/
def vec (t : Ty) : Ty := .app (.adt 0) (.cons (.ty t) .nil)
def ty0 : Ty := vec (vec (vec (vec (.placeholder 1 0))))
def ty1 : Ty := vec (vec (vec (.placeholder 1 0)))

/-- test `one_type`: `visitor.max_size == 5` -/
example : (visitValue St.init (.ty ty0)).maxSize = 5 := by decide
example : needsTruncation 4 (.ty ty0) = true ∧ needsTruncation 5 (.ty ty0) = false := by decide

/-- test `multiple_types`: `vec![&ty0, &ty1]` has `max_size == 5` (the maximum, NOT the sum 9),
    also as a substitution -/
example : (visitValue St.init (.tys [ty0, ty1])).maxSize = 5 := by decide
example : visitValue St.init (.args (.cons (.ty ty0) (.cons (.lt .static) (.cons (.ty ty1) .nil)))) = ⟨0, 0, 5⟩ := by
  decide
example : argsNodes (.cons (.ty ty0) (.cons (.ty ty1) .nil)) = 9 ∧
    maxTop (.args (.cons (.ty ty0) (.cons (.ty ty1) .nil))) = 5 := by decide

/-- nested: inside ONE type everything adds up - the types inside a `dyn` bound, a fn pointer, a
    reference, an alias; lifetimes and the constant (with its big type `ty0`) count 0 -/
def nested : Ty :=
  .app (.tuple 3) (.cons (.ty (.ref false .static (.slice (.scalar 1))))
    (.cons (.ty (.dyn [.ty .general] (.cons (.mk [] (.implemented 2 (.cons (.ty (.bound 0 0)) (.cons (.ty ty1) .nil))))
        (.cons (.mk [] (.aliasEqProj 1 (.cons (.ty (.bound 1 0)) .nil) (.infer 0 .general))) .nil)) .erased))
    (.cons (.ty (.function 1 0 (.cons (.ty (.array .str (.mk ty0 (.concrete 3)))) (.cons (.ty .never) .nil)))) .nil)))

example : visitValue St.init (.ty nested) = ⟨0, 0, 16⟩ ∧ tyNodes nested = 16 := by decide
example : needsTruncation 15 (.ty nested) = true ∧ needsTruncation 16 (.ty nested) = false := by decide
/-- the same three types as a top-level substitution: the largest one (the `dyn`, 8 nodes) decides -/
example : (match nested with | .app _ args => visitValue St.init (.args args) | _ => St.init) = ⟨0, 0, 8⟩ := by
  decide
/-- a goal: `Normalize(<T as Tr>::Assoc<ty1> -> ty0)`: top-level types `T`, `ty1`, `ty0` -/
example : maxSizeOf (.goal (.normalize (.proj 0 (.cons (.ty (.placeholder 0 0)) (.cons (.ty ty1) .nil))) ty0)) = 5 := by
  decide

end Chalk.C09trunc

#print axioms Chalk.C09trunc.visitTy_invariant
#print axioms Chalk.C09trunc.visitTy_size_le_max
#print axioms Chalk.C09trunc.visitArgs_inside
#print axioms Chalk.C09trunc.visit_eq_spec
#print axioms Chalk.C09trunc.maxSizeOf_eq_maxTop
#print axioms Chalk.C09trunc.needsTruncation_iff
#print axioms Chalk.C09trunc.needsTruncation_iff_exists
#print axioms Chalk.C09trunc.needsTruncation_mono
#print axioms Chalk.C09trunc.needsTruncation_args_closed
#print axioms Chalk.C09trunc.tyNodes_arg_lt
#print axioms Chalk.C09trunc.needsTruncation_subterm_closed
#print axioms Chalk.C09trunc.tyNodes_pos
#print axioms Chalk.C09trunc.needsTruncation_zero
#print axioms Chalk.C09trunc.tyNodes_app
#print axioms Chalk.C09trunc.gargNodes_ty
#print axioms Chalk.C09trunc.gargNodes_lt
#print axioms Chalk.C09trunc.gargNodes_ct
#print axioms Chalk.C09trunc.tyNodes_array
#print axioms Chalk.C09trunc.const_never_needs_truncation
#print axioms Chalk.C09trunc.maxTop_args_le_sum
