/-
  C10fp — C10 ("answers do not depend on what the same solver solved before", "the recursive solver
  gives the same answers with its cache enabled or disabled") for CYCLIC ground instances of one
  polarity: the case `Props/C10.lean` lists as "not yet theorems".

  Model: `FixedPoint.lean`, unchanged.  Proofs: `Lemmas/FixedPointSem*.lean` (see `Props/C05fp.lean`:
  every answer of a plain call — cache on or off, after any history of plain calls — is the
  greatest- resp. least-fixed-point answer; two correct answers are equal).

  Class of instances (`Cyc.Hyp c inst dom`): `dom` finite and closed under `deps`, every goal of
  `dom` ground and of polarity `c` (all coinductive or all inductive); any cyclic structure.
  Configuration: F3 and F7 repairs, `dom.length ≤ overflowDepth`, `2 ≤ rounds`.  Histories: plain
  `Solver::solve` calls on goals of `dom`.

    `answer_is_fixed_point_cyclic` — a plain call after any history, cache on or off, returns
        (no panic) the fixed-point answer `Corr c inst g`;
    `history_independent_cyclic` — any two histories, each with the cache on or off: same answer;
    `cache_on_off_agree_cyclic` — the named special cases: after `gs` with cache = fresh with
        cache = fresh without cache = after `gs` without cache.
  The mixed case stays refuted (`C10.cache_transparent_refuted`, F13: a mixed cycle).
-/
import ChalkModel.Lemmas.FixedPointSemN

namespace Chalk.FixedPoint.C10fp
open Chalk.FixedPoint.Cyc

/-- a plain call after any history of plain calls, caching enabled (`b = true`) or disabled,
    returns the fixed-point answer -/
theorem answer_is_fixed_point_cyclic (c : Bool) (inst : Instance) (dom : List Nat) (hyp : Hyp c inst dom)
    (cfg : Cfg) (h3 : cfg.fixF3 = true) (h7 : cfg.fixF7 = true) (hov : dom.length ≤ cfg.overflowDepth)
    (hr : 2 ≤ cfg.rounds) (b : Bool) (gs : List Nat) (hd : ∀ g, g ∈ gs → g ∈ dom) (g : Nat) (hg : g ∈ dom) :
    ∃ v, solveOn inst cfg g (runHistory inst cfg (gs.map Call.plain) (St.fresh b)) = .value v ∧
      Corr c inst g v := by
  cases b with
  | true => exact history_correct hyp h3 h7 hov hr gs hd g hg
  | false => exact history_correct_nocache hyp h3 h7 hov hr gs hd g hg

/-- answers do not depend on the history, nor on whether the cache is enabled -/
theorem history_independent_cyclic (c : Bool) (inst : Instance) (dom : List Nat) (hyp : Hyp c inst dom)
    (cfg : Cfg) (h3 : cfg.fixF3 = true) (h7 : cfg.fixF7 = true) (hov : dom.length ≤ cfg.overflowDepth)
    (hr : 2 ≤ cfg.rounds) (b b' : Bool) (gs gs' : List Nat) (hd : ∀ g, g ∈ gs → g ∈ dom)
    (hd' : ∀ g, g ∈ gs' → g ∈ dom) (g : Nat) (hg : g ∈ dom) :
    solveOn inst cfg g (runHistory inst cfg (gs.map Call.plain) (St.fresh b)) =
      solveOn inst cfg g (runHistory inst cfg (gs'.map Call.plain) (St.fresh b')) := by
  obtain ⟨v, h1, c1⟩ := answer_is_fixed_point_cyclic c inst dom hyp cfg h3 h7 hov hr b gs hd g hg
  obtain ⟨w, h2, c2⟩ := answer_is_fixed_point_cyclic c inst dom hyp cfg h3 h7 hov hr b' gs' hd' g hg
  rw [h1, h2, c1.unique c2]

/-- cache on = cache off, after a history = fresh -/
theorem cache_on_off_agree_cyclic (c : Bool) (inst : Instance) (dom : List Nat) (hyp : Hyp c inst dom)
    (cfg : Cfg) (h3 : cfg.fixF3 = true) (h7 : cfg.fixF7 = true) (hov : dom.length ≤ cfg.overflowDepth)
    (hr : 2 ≤ cfg.rounds) (gs : List Nat) (hd : ∀ g, g ∈ gs → g ∈ dom) (g : Nat) (hg : g ∈ dom) :
    solveOn inst cfg g (runHistory inst cfg (gs.map Call.plain) (St.fresh true)) =
      solveOn inst cfg g (St.fresh true) ∧
    solveOn inst cfg g (St.fresh true) = solveOn inst cfg g (St.fresh false) ∧
    solveOn inst cfg g (St.fresh false) =
      solveOn inst cfg g (runHistory inst cfg (gs.map Call.plain) (St.fresh false)) :=
  ⟨history_independent_cyclic c inst dom hyp cfg h3 h7 hov hr true true gs [] hd (by simp) g hg,
   history_independent_cyclic c inst dom hyp cfg h3 h7 hov hr true false [] [] (by simp) (by simp) g hg,
   history_independent_cyclic c inst dom hyp cfg h3 h7 hov hr false false [] gs (by simp) hd g hg⟩

/-! ### non-vacuity -/

/-- `0 :- 3, 2, 1.  1 :- 0.  2 :- 1.` (`3` has no clause): two cycles sharing the edge `1 → 0` -/
def retract (co : Bool) : Instance :=
  Instance.ofTable [(co, true, [[3, 2, 1]]), (co, true, [[0]]), (co, true, [[1]]), (co, true, [])]

/-- `0 :- 1.  1 :- 2 | 0.  2 :- 0, 1.`: three interlocking cycles -/
def knot (co : Bool) : Instance :=
  Instance.ofTable [(co, true, [[1]]), (co, true, [[2], [0]]), (co, true, [[0, 1]])]

theorem retract_hyp (co : Bool) : Hyp co (retract co) [0, 1, 2, 3] := by
  cases co <;> exact ⟨by decide, by decide, by decide⟩

theorem knot_hyp (co : Bool) : Hyp co (knot co) [0, 1, 2] := by
  cases co <;> exact ⟨by decide, by decide, by decide⟩

example : (Cfg.current 4 2).fixF3 = true ∧ (Cfg.current 4 2).fixF7 = true ∧
    [0, 1, 2, 3].length ≤ (Cfg.current 4 2).overflowDepth ∧ 2 ≤ (Cfg.current 4 2).rounds := by decide

/-- the history matters for what is in the cache (so the statement is not about equal states) … -/
example : cacheDump (runHistory (retract true) (Cfg.current 4 2) [Call.plain 0] (St.fresh true)) =
      [(0, .noSolution), (1, .noSolution), (3, .noSolution)] ∧
    cacheDump (runHistory (retract true) (Cfg.current 4 2) [Call.plain 2] (St.fresh true)) =
      [(0, .noSolution), (1, .noSolution), (2, .noSolution), (3, .noSolution)] := by decide

/-- … and the answers agree, as computed … -/
example :
    solveOn (retract true) (Cfg.current 4 2) 2
        (runHistory (retract true) (Cfg.current 4 2) [Call.plain 0] (St.fresh true)) = .value .noSolution ∧
    solveOn (retract true) (Cfg.current 4 2) 2 (St.fresh true) = .value .noSolution ∧
    solveOn (retract true) (Cfg.current 4 2) 2 (St.fresh false) = .value .noSolution ∧
    solveOn (retract true) (Cfg.current 4 2) 2
        (runHistory (retract true) (Cfg.current 4 2) [Call.plain 0] (St.fresh false)) = .value .noSolution := by
  decide

/-- … and as the theorem says (instantiated) -/
example :
    solveOn (knot true) (Cfg.current 3 2) 0
        (runHistory (knot true) (Cfg.current 3 2) ([2, 1].map Call.plain) (St.fresh true)) =
      solveOn (knot true) (Cfg.current 3 2) 0 (St.fresh false) :=
  history_independent_cyclic true (knot true) [0, 1, 2] (knot_hyp true) (Cfg.current 3 2) rfl rfl
    (by decide) (by decide) true false [2, 1] [] (by decide) (by decide) 0 (by decide)

example : solveOn (knot true) (Cfg.current 3 2) 0 (St.fresh false) = .value .unique := by decide
example : solveOn (knot false) (Cfg.current 3 2) 0 (St.fresh false) = .value .noSolution := by decide

end Chalk.FixedPoint.C10fp

#print axioms Chalk.FixedPoint.C10fp.answer_is_fixed_point_cyclic
#print axioms Chalk.FixedPoint.C10fp.history_independent_cyclic
#print axioms Chalk.FixedPoint.C10fp.cache_on_off_agree_cyclic
#print axioms Chalk.FixedPoint.C10fp.retract_hyp
#print axioms Chalk.FixedPoint.C10fp.knot_hyp
