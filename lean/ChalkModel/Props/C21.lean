/-
  C21 — well-formedness checking guarantees the bounds it lets code assume.
  The universal meta-theorem (accepted ⇒ implied bounds hold for ALL well-formed types) is not
  proved; what is certified is every *instance* checked, and every reported counterexample:
  a rejection exhibits a program that the real checker accepted together with a closed
  instantiation for which the premises (type well-formed, trait implemented) are certified true
  and the implied bound certified false.
-/
import ChalkModel.WfCheck
import ChalkModel.Lemmas.GoalLemmas

namespace Chalk.C21
open Chalk.Sem

theorem checkImplication_witness (P : Program) (fuel : Nat) (imp : Implication) (pool : List Tm) (maxc : Nat)
    (θ : List Tm) (c u : Nat) (h : checkImplication P fuel imp pool maxc = (some θ, c, u)) :
    (∀ a ∈ imp.premises, Holds P [] (a.inst (listSubst θ))) ∧ ¬ Holds P [] (imp.conclusion.inst (listSubst θ)) := by
  unfold checkImplication at h
  generalize ((assignments pool imp.nvars).take maxc) = L at h
  -- invariant of the fold: an accumulated witness is a certified counterexample
  have key : ∀ (L : List (List Tm)) (acc : Option (List Tm) × Nat × Nat),
      (∀ w, acc.1 = some w → (∀ a ∈ imp.premises, Holds P [] (a.inst (listSubst w))) ∧
          ¬ Holds P [] (imp.conclusion.inst (listSubst w))) →
      ∀ w, (L.foldl (wfStep P fuel imp) acc).1 = some w →
        (∀ a ∈ imp.premises, Holds P [] (a.inst (listSubst w))) ∧ ¬ Holds P [] (imp.conclusion.inst (listSubst w)) := by
    intro L
    induction L with
    | nil => intro acc hacc w hw; exact hacc w hw
    | cons x xs ih =>
      intro acc hacc w hw
      simp only [List.foldl_cons] at hw
      refine ih _ ?_ w hw
      intro w' hw'
      obtain ⟨o, c0, u0⟩ := acc
      cases o with
      | some w0 => simp [wfStep] at hw'; subst hw'; exact hacc w0 rfl
      | none =>
        simp only [wfStep] at hw'
        split at hw'
        · rename_i hall
          split at hw'
          · rename_i hno
            simp at hw'; subst hw'
            refine ⟨?_, evalInd_no_holds P [] fuel _ hno⟩
            intro a ha
            simp only [List.all_eq_true, decide_eq_true_eq] at hall
            exact evalInd_yes P [] fuel [] _ (hall a ha)
          · simp at hw'
          · simp at hw'
        · simp at hw'
  exact key L (none, 0, 0) (by simp) θ (by rw [h])

/-- a rejection of an accepted program is a certified violation of the property -/
theorem rejected_is_counterexample (P : Program) (fuel : Nat) (pool : List Tm) (maxc : Nat) :
    (imps : List Implication) → (i0 c0 u0 : Nat) → (i : Nat) → (θ : List Tm) →
    judgeWf P fuel pool maxc imps i0 c0 u0 = .rejected i θ →
    ∃ imp ∈ imps, (∀ a ∈ imp.premises, Holds P [] (a.inst (listSubst θ))) ∧
      ¬ Holds P [] (imp.conclusion.inst (listSubst θ))
  | [], _, _, _, _, _, h => by simp [judgeWf] at h
  | imp :: rest, i0, c0, u0, i, θ, h => by
      simp only [judgeWf] at h
      split at h
      · rename_i θ' c u hc
        injection h with _ hθ; subst hθ
        exact ⟨imp, by simp, checkImplication_witness P fuel imp pool maxc _ c u hc⟩
      · obtain ⟨imp', hm, hw⟩ := rejected_is_counterexample P fuel pool maxc rest _ _ _ i θ h
        exact ⟨imp', by simp [hm], hw⟩

end Chalk.C21

#print axioms Chalk.C21.checkImplication_witness
#print axioms Chalk.C21.rejected_is_counterexample
