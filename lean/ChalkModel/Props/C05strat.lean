/-
  C05strat — the converse of `C05mixed.no_mixed_cycle_of_lvl`: on a finite domain closed under `deps`, a
  stratification `lvl` exists iff no dependency cycle through `dom` mixes polarities.  So the class of
  `Props/C05mixed.lean` ("stratified instances") is exactly the class "ground, no mixed cycle", and the
  correctness theorems can be stated with that hypothesis.

  Level function (classical, not computable; `Lemmas/StratExists.lean`): `lvl k` = number of goals of
  `dom` reachable from `k` by a dependency path of length ≥ 0.  Along an edge `k → j` the reachable set
  shrinks (`lvl j ≤ lvl k`); if it does not shrink strictly then `k` is reachable from `j`, i.e. `k` and `j`
  lie on one cycle, and the absence of mixed cycles gives equal polarity.

  Theorems:
    `stratification_exists`, `stratified_iff_no_mixed_cycle`,
    `mixed_strata_correct_of_no_mixed_cycle`, `mixed_history_correct_of_no_mixed_cycle`
        (`C05mixed.mixed_strata_correct_canonical` / `mixed_history_correct_canonical` with the hypothesis
        "no mixed cycle" instead of a given stratification),
    `strata_no_mixed_cycle` (non-vacuity), `f13_has_mixed_cycle` (the counterexample of C10 is outside).
-/
import ChalkModel.Lemmas.StratExists

namespace Chalk.FixedPoint.C05strat
open Chalk.FixedPoint.Cyc (JE JA InCache)
open Chalk.FixedPoint.C05mixed Chalk.FixedPoint.Mix
open Chalk.FixedPoint.StratExists

/-- no mixed cycle ⇒ a stratification exists -/
theorem stratification_exists (inst : Instance) (dom : List Nat)
    (closed : ∀ k, k ∈ dom → ∀ alt, alt ∈ inst.deps k → ∀ j, j ∈ alt → j ∈ dom)
    (ground : ∀ k, k ∈ dom → inst.ground k = true)
    (nomix : ∀ a b, a ∈ dom → Reach inst a b → Reach inst b a → inst.coind a = inst.coind b) :
    ∃ lvl : Nat → Nat, Stratified inst dom lvl := by
  refine ⟨reachLvl inst dom, closed, ground, ?_⟩
  intro k hk alt ha j hj
  refine ⟨reachLvl_le dom ha hj, fun e => ?_⟩
  cases reach0_back_of_lvl_eq dom hk ha hj e with
  | inl ekj => rw [ekj]
  | inr r => exact (nomix k j hk (Reach.step k j alt ha hj) r).symm

/-- on a closed ground domain: stratifiable ⇔ no mixed cycle -/
theorem stratified_iff_no_mixed_cycle (inst : Instance) (dom : List Nat)
    (closed : ∀ k, k ∈ dom → ∀ alt, alt ∈ inst.deps k → ∀ j, j ∈ alt → j ∈ dom)
    (ground : ∀ k, k ∈ dom → inst.ground k = true) :
    (∃ lvl : Nat → Nat, Stratified inst dom lvl) ↔
      (∀ a b, a ∈ dom → Reach inst a b → Reach inst b a → inst.coind a = inst.coind b) := by
  constructor
  · rintro ⟨lvl, h⟩ a b ha hab hba
    exact no_mixed_cycle_of_lvl inst (StratP inst) dom lvl h.mhyp a b ha hab hba
  · exact stratification_exists inst dom closed ground

/-- `mixed_strata_correct_canonical` with "no mixed cycle" as the hypothesis -/
theorem mixed_strata_correct_of_no_mixed_cycle (inst : Instance) (dom : List Nat)
    (closed : ∀ k, k ∈ dom → ∀ alt, alt ∈ inst.deps k → ∀ j, j ∈ alt → j ∈ dom)
    (ground : ∀ k, k ∈ dom → inst.ground k = true)
    (nomix : ∀ a b, a ∈ dom → Reach inst a b → Reach inst b a → inst.coind a = inst.coind b)
    (overflowDepth rounds : Nat) (hov : dom.length ≤ overflowDepth)
    (hr : 2 ≤ rounds) (s : St) (hq : s.oracle = [] ∧ s.oracleDefault = true)
    (hok : ∀ k v, InCache s k v → (v = .unique ∧ StratP inst k) ∨ (v = .noSolution ∧ ¬ StratP inst k))
    (g : Nat) (hg : g ∈ dom) :
    ∃ v s', solveRootGoal inst (Cfg.current overflowDepth rounds) g s = .ok v s' ∧
      (v = .unique ↔ StratP inst g) ∧ (v = .noSolution ↔ ¬ StratP inst g) ∧ v ≠ .ambig ∧
      s'.stack = [] ∧ s'.graph = [] ∧ s'.cache.isSome = s.cache.isSome ∧
      (∀ k w, InCache s' k w → (w = .unique ∧ StratP inst k) ∨ (w = .noSolution ∧ ¬ StratP inst k)) := by
  obtain ⟨lvl, h⟩ := stratification_exists inst dom closed ground nomix
  exact mixed_strata_correct_canonical inst dom lvl h overflowDepth rounds hov hr s hq hok g hg

/-- `mixed_history_correct_canonical` with "no mixed cycle" as the hypothesis -/
theorem mixed_history_correct_of_no_mixed_cycle (inst : Instance) (dom : List Nat)
    (closed : ∀ k, k ∈ dom → ∀ alt, alt ∈ inst.deps k → ∀ j, j ∈ alt → j ∈ dom)
    (ground : ∀ k, k ∈ dom → inst.ground k = true)
    (nomix : ∀ a b, a ∈ dom → Reach inst a b → Reach inst b a → inst.coind a = inst.coind b)
    (cfg : Cfg) (h3 : cfg.fixF3 = true) (h7 : cfg.fixF7 = true)
    (hov : dom.length ≤ cfg.overflowDepth) (hr : 2 ≤ cfg.rounds) (b : Bool)
    (gs : List Nat) (hd : ∀ g, g ∈ gs → g ∈ dom) (g : Nat) (hg : g ∈ dom) :
    ∃ v, solveOn inst cfg g (runHistory inst cfg (gs.map Call.plain) (St.fresh b)) = .value v ∧
      (v = .unique ↔ StratP inst g) ∧ (v = .noSolution ↔ ¬ StratP inst g) := by
  obtain ⟨lvl, h⟩ := stratification_exists inst dom closed ground nomix
  exact mixed_history_correct_canonical inst dom lvl h cfg h3 h7 hov hr b gs hd g hg

/-! ### non-vacuity -/

/-- `strata` (cycles of both polarities, none mixed) satisfies the three hypotheses -/
theorem strata_no_mixed_cycle :
    (∀ k, k ∈ [0, 1, 2, 3, 4, 5] → ∀ alt, alt ∈ strata.deps k → ∀ j, j ∈ alt → j ∈ [0, 1, 2, 3, 4, 5]) ∧
    (∀ k, k ∈ [0, 1, 2, 3, 4, 5] → strata.ground k = true) ∧
    (∀ a b, a ∈ [0, 1, 2, 3, 4, 5] → Reach strata a b → Reach strata b a → strata.coind a = strata.coind b) :=
  ⟨strata_stratified.closed, strata_stratified.ground,
    (stratified_iff_no_mixed_cycle strata _ strata_stratified.closed strata_stratified.ground).mp
      ⟨strataLvl, strata_stratified⟩⟩

/-- so the theorem applies to it: goal `5` holds whatever was solved before, `0` does not -/
example (gs : List Nat) (hd : ∀ g, g ∈ gs → g ∈ [0, 1, 2, 3, 4, 5]) (b : Bool) :
    ∃ v, solveOn strata (Cfg.current 6 2) 5 (runHistory strata (Cfg.current 6 2) (gs.map Call.plain) (St.fresh b)) =
      .value v ∧ (v = .unique ↔ StratP strata 5) ∧ (v = .noSolution ↔ ¬ StratP strata 5) :=
  mixed_history_correct_of_no_mixed_cycle strata [0, 1, 2, 3, 4, 5] strata_no_mixed_cycle.1
    strata_no_mixed_cycle.2.1 strata_no_mixed_cycle.2.2 (Cfg.current 6 2) rfl rfl (by decide) (by decide) b gs hd 5
    (by decide)

/-- F13 has the mixed cycle `0 → 1 → 0` (`0` inductive, `1` coinductive): `nomix` fails -/
theorem f13_has_mixed_cycle :
    ¬ (∀ a b, a ∈ [0, 1] → Reach f13 a b → Reach f13 b a → f13.coind a = f13.coind b) := by
  intro h
  have r01 : Reach f13 0 1 := Reach.step 0 1 [1] (by decide) (by decide)
  have r10 : Reach f13 1 0 := Reach.step 1 0 [0] (by decide) (by decide)
  have := h 0 1 (by decide) r01 r10
  revert this
  decide

/-- … consistently with `f13_not_stratified`: no stratification of `f13` on `[0, 1]` -/
theorem f13_no_stratification : ¬ ∃ lvl : Nat → Nat, Stratified f13 [0, 1] lvl := by
  rintro ⟨lvl, h⟩
  exact f13_not_stratified (StratP f13) lvl h.mhyp

end Chalk.FixedPoint.C05strat

#print axioms Chalk.FixedPoint.StratExists.mem_reachList
#print axioms Chalk.FixedPoint.StratExists.reach0_of_edge
#print axioms Chalk.FixedPoint.StratExists.filter_sublist_of_imp
#print axioms Chalk.FixedPoint.StratExists.reachList_sublist
#print axioms Chalk.FixedPoint.StratExists.reachLvl_le
#print axioms Chalk.FixedPoint.StratExists.reach0_back_of_lvl_eq
#print axioms Chalk.FixedPoint.C05strat.stratification_exists
#print axioms Chalk.FixedPoint.C05strat.stratified_iff_no_mixed_cycle
#print axioms Chalk.FixedPoint.C05strat.mixed_strata_correct_of_no_mixed_cycle
#print axioms Chalk.FixedPoint.C05strat.mixed_history_correct_of_no_mixed_cycle
#print axioms Chalk.FixedPoint.C05strat.strata_no_mixed_cycle
#print axioms Chalk.FixedPoint.C05strat.f13_has_mixed_cycle
#print axioms Chalk.FixedPoint.C05strat.f13_no_stratification
