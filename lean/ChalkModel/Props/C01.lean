/-
  C01 — a definite answer from either solver matches the program's logical meaning.
  What the check's acceptance predicate `judgeAnswer` certifies (all programs, goals, answers,
  candidate lists, fuel).  The end-to-end claim is translation validation: every answer the real
  solvers produce is judged; the solvers' search is not verified.  The aggregation layer that turns
  engine answers into a `Solution` has its own exact model and theorems (Props/C17.lean).
-/
import ChalkModel.Lemmas.ContractLemmas

namespace Chalk.C01
open Chalk.Sem

/-- "No possible solution" is rejected only with a certified solution of the goal. -/
theorem rejected_none_has_solution (P : Program) (fuel : Nat) (g : Goal) (cands : List (List Tm)) (slg : Bool)
    (k : RejectKind) (c : String) (θ : List Tm) (h : judgeAnswer P fuel g cands slg .none = .rejected k c θ) :
    GHolds P [] (g.inst (listSubst θ)) := by
  simp only [judgeAnswer] at h
  split at h
  · rename_i θ' rest hs
    injection h with _ _ hθ; subst hθ
    exact mem_solutionsAmong (by rw [hs]; simp)
  · cases h

/-- `Unique σ` rejected as unsound: the goal fails for the instantiation of `σ`'s variables by
    distinct opaque constants, so it does not hold "for every instantiation". -/
theorem rejected_unique_does_not_hold (P : Program) (fuel : Nat) (g : Goal) (cands : List (List Tm)) (slg : Bool)
    (σ w : List Tm) (c : String) (h : judgeAnswer P fuel g cands slg (.unique σ) = .rejected .uniqueDoesNotHold c w) :
    ¬ GHolds P [] (g.inst (fun i => (σ.getD i (.var i)).inst genericSubst)) := by
  simp only [judgeAnswer] at h
  split at h
  · rename_i hv; exact (evalGoal_sound P fuel _ []).2 hv
  · split at h
    · injection h with hc _; cases hc
    · split at h <;> cases h

/-- `Unique σ` or definite guidance `σ` rejected as incomplete: a certified solution `θ` of the goal
    that is not an instance of `σ` under any substitution. -/
theorem rejected_excludes_solution (P : Program) (fuel : Nat) (g : Goal) (cands : List (List Tm)) (slg : Bool)
    (σ θ : List Tm) (c : String)
    (h : judgeAnswer P fuel g cands slg (.unique σ) = .rejected .excludesSolution c θ ∨
         judgeAnswer P fuel g cands slg (.definite σ) = .rejected .excludesSolution c θ) :
    GHolds P [] (g.inst (listSubst θ)) ∧ ∀ τ : Nat → Tm, σ.map (Tm.inst τ) ≠ θ := by
  have key : ∀ θ' rest, (solutionsAmong P fuel g cands).filter (fun θ => !isInstance σ θ) = θ' :: rest →
      GHolds P [] (g.inst (listSubst θ')) ∧ ∀ τ : Nat → Tm, σ.map (Tm.inst τ) ≠ θ' := by
    intro θ' rest hf
    have hm : θ' ∈ (solutionsAmong P fuel g cands).filter (fun θ => !isInstance σ θ) := by rw [hf]; simp
    simp only [List.mem_filter, Bool.not_eq_true'] at hm
    exact ⟨mem_solutionsAmong hm.1, not_instance_of_isInstance_false hm.2⟩
  rcases h with h | h
  · simp only [judgeAnswer] at h
    split at h
    · injection h with hc' _; cases hc'
    · split at h
      · rename_i θ' rest hf
        injection h with _ _ hθ; subst hθ
        exact key _ _ hf
      · split at h <;> cases h
  · simp only [judgeAnswer] at h
    split at h
    · rename_i θ' rest hf
      injection h with _ _ hθ; subst hθ
      exact key _ _ hf
    · cases h

/-- An accepted `Unique σ` is certified to hold for the generic instantiation of `σ`. -/
theorem accepted_unique_holds (P : Program) (fuel : Nat) (g : Goal) (cands : List (List Tm)) (slg : Bool)
    (σ : List Tm) (st : String) (h : judgeAnswer P fuel g cands slg (.unique σ) = .accepted st) :
    GHolds P [] (g.inst (fun i => (σ.getD i (.var i)).inst genericSubst)) := by
  simp only [judgeAnswer] at h
  split at h
  · cases h
  · split at h
    · cases h
    · split at h
      · rename_i hv; exact (evalGoal_sound P fuel _ []).1 hv
      · cases h

/-- An accepted `Unique σ` / definite `σ` / `No solution`: no candidate of the enumeration is a
    certified solution outside the answer (refutation-completeness relative to `cands`). -/
theorem accepted_complete_on_candidates (P : Program) (fuel : Nat) (g : Goal) (cands : List (List Tm)) (slg : Bool)
    (σ : List Tm) (st : String)
    (h : judgeAnswer P fuel g cands slg (.unique σ) = .accepted st ∨
         judgeAnswer P fuel g cands slg (.definite σ) = .accepted st) :
    ∀ θ ∈ cands, evalGoal P fuel [] (g.inst (listSubst θ)) = .yes → isInstance σ θ = true := by
  intro θ hθ hy
  have hmem : θ ∈ solutionsAmong P fuel g cands := by
    simp [solutionsAmong, List.mem_filter, hθ, hy]
  have hempty : (solutionsAmong P fuel g cands).filter (fun θ => !isInstance σ θ) = [] := by
    rcases h with h | h
    · simp only [judgeAnswer] at h
      split at h
      · cases h
      · split at h
        · cases h
        · assumption
    · simp only [judgeAnswer] at h
      split at h
      · cases h
      · assumption
  cases hi : isInstance σ θ with
  | true => rfl
  | false =>
    have : θ ∈ (solutionsAmong P fuel g cands).filter (fun θ => !isInstance σ θ) := by
      simp [List.mem_filter, hmem, hi]
    rw [hempty] at this; cases this

end Chalk.C01

#print axioms Chalk.C01.rejected_none_has_solution
#print axioms Chalk.C01.rejected_unique_does_not_hold
#print axioms Chalk.C01.rejected_excludes_solution
#print axioms Chalk.C01.accepted_unique_holds
#print axioms Chalk.C01.accepted_complete_on_candidates
