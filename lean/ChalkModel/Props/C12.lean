/-
  C12 — a panic in a database callback leaves the solver usable (recursive solver side; SLG:
  differential — the crash-point enumeration found strands lost after a panic, see props.py).

  Model: `FixedPoint.lean`.  A panic that escapes from inside a solve leaves `stack` and
  `search_graph` exactly as they are (there is no unwinding cleanup in the Rust code); it is
  injected at a chosen work step (`Call.budget`: the hook ticks at every `solve_goal` entry and at
  the head of every iteration, i.e. between any two database callbacks that see different contexts).

  * `legacy_recursive_usable_after_panic_refuted` (F7, code as found): `solve_root_goal` asserted
    `stack.is_empty()`, so after a mid-solve panic every later solve panicked.
  * `legacy_panic_before_push_partial`: on the code as found the solver stayed usable exactly when
    the panic came before the first `stack.push` (first work step of the root call).
  * `root_ignores_leftovers` (repaired code, ALL instances): a root call does not see what a
    panic left on the stack and in the search graph; only the cache survives.
  * `usable_after_panic_partial` (repaired code, acyclic instances): after any history of calls
    that panicked at any work step (and interrupted calls) a solve returns what a fresh solver
    returns.
  * `usable_after_panic_refuted`: for ALL instances the statement is still false of the repaired
    code, through F13 (what was cached BEFORE the panic is wrong), not through the panic.
  NOT YET THEOREMS (differential only): instances with cycles.
-/
import ChalkModel.Lemmas.FixedPointLemmas

namespace Chalk.FixedPoint.C12

def chain : Instance := Instance.ofTable [(false, true, [[1]]), (false, true, [[2]]), (false, true, [[]])]
def f13 : Instance := Instance.ofTable [(false, true, [[1], []]), (true, true, [[0]])]

/-- F7: a panic at the third work step (inside `solve_iteration` of the root goal), then a solve -/
theorem legacy_recursive_usable_after_panic_refuted :
    outcomes chain (Cfg.legacy 100 8) [{ goal := 0, budget := some 3 }, Call.plain 0] (St.fresh true)
      = [.panic .budget, .panic .stackNotEmpty] ∧
    solveOn chain (Cfg.legacy 100 8) 0 (St.fresh true) = .value .unique := by decide

/-- the same script on the repaired code -/
theorem usable_after_panic_repaired :
    outcomes chain (Cfg.current 100 8) [{ goal := 0, budget := some 3 }, Call.plain 0] (St.fresh true)
      = [.panic .budget, .value .unique] := by decide

/-- code as found: a panic at the first work step of a root call (before the first `push`: the
    database calls of `is_coinductive_goal` / `initial_value` of the root goal) leaves stack,
    search graph and cache as they were -/
theorem legacy_panic_before_push_partial (inst : Instance) (cfg : Cfg) (g : Nat) (o : List Bool)
    (d : Bool) (s : St) (hs : s.stack = []) (h7 : cfg.fixF7 = false) :
    (runCall inst cfg ⟨g, o, d, some 0⟩ s).outcome = .panic .budget ∧
    (runCall inst cfg ⟨g, o, d, some 0⟩ s).state.stack = [] ∧
    (runCall inst cfg ⟨g, o, d, some 0⟩ s).state.graph = s.graph ∧
    (runCall inst cfg ⟨g, o, d, some 0⟩ s).state.cache = s.cache := by
  simp only [runCall, solveRootGoal, h7, hs, solveGoal, tick]
  cases cfg.fixF3 <;> simp [Res.outcome, Res.state]

/-- repaired code, every instance: a root call starts from an empty stack and search graph,
    whatever an earlier panic left there -/
theorem root_ignores_leftovers (inst : Instance) (cfg : Cfg) (h7 : cfg.fixF7 = true) (g : Nat) (s : St) :
    solveRootGoal inst cfg g s = solveRootGoal inst cfg g { s with stack := [], graph := [] } := by
  simp [solveRootGoal, h7]

/-- repaired code, acyclic instances: after any history (calls that panicked at any work step,
    interrupted calls, plain calls) a solve that returns gives the answer of a fresh solver -/
theorem usable_after_panic_partial (inst : Instance) (rank : Nat → Nat) (hrank : Ranked inst rank)
    (cfg : Cfg) (h3 : cfg.fixF3 = true) (h7 : cfg.fixF7 = true)
    (h : List Call) (caching caching' : Bool) (g : Nat) (v w : V)
    (hv : solveOn inst cfg g (runHistory inst cfg h (St.fresh caching)) = .value v)
    (hw : solveOn inst cfg g (St.fresh caching') = .value w) :
    v = w := by
  have hsem := semOf_isSem inst rank hrank
  have hu : (Call.plain g).Uninterrupted := ⟨rfl, fun b hb => by cases hb⟩
  have e1 := (history_answer h3 h7 hsem hrank h caching (Call.plain g) v hv).2 hu
  have e2 := (history_answer h3 h7 hsem hrank [] caching' (Call.plain g) w hw).2 hu
  rw [e1, e2]

/-- a panic never corrupts the cache (acyclic instances): every entry is the semantic value -/
theorem cache_sound_after_panics (inst : Instance) (rank : Nat → Nat) (hrank : Ranked inst rank)
    (cfg : Cfg) (h3 : cfg.fixF3 = true) (h7 : cfg.fixF7 = true) (h : List Call) (caching : Bool) :
    CacheSound (semOf inst rank) (runHistory inst cfg h (St.fresh caching)) :=
  runHistory_sound h3 h7 (semOf_isSem inst rank hrank) hrank h _ (fresh_sound _ caching)

/-- for all instances the statement is false of the repaired code too, through F13 -/
theorem usable_after_panic_refuted :
    outcomes f13 (Cfg.current 100 8) [{ goal := 0, budget := some 2 }, Call.plain 0, Call.plain 1] (St.fresh true)
      = [.panic .budget, .value .unique, .value .noSolution] ∧
    solveOn f13 (Cfg.current 100 8) 1 (St.fresh true) = .value .unique := by decide

/-! non-vacuity -/
example : Ranked chain (fun g => 3 - g) :=
  ranked_of_table [(false, true, [[1]]), (false, true, [[2]]), (false, true, [[]])] _ (by decide)
example : outcomes chain (Cfg.current 100 8)
    [{ goal := 0, budget := some 4 }, { goal := 1, budget := some 1 }, Call.plain 0] (St.fresh true)
    = [.panic .budget, .panic .budget, .value .unique] := by decide
example : (St.fresh true).stack = [] ∧ (Cfg.legacy 100 8).fixF7 = false := ⟨rfl, rfl⟩

end Chalk.FixedPoint.C12

#print axioms Chalk.FixedPoint.C12.legacy_recursive_usable_after_panic_refuted
#print axioms Chalk.FixedPoint.C12.usable_after_panic_repaired
#print axioms Chalk.FixedPoint.C12.legacy_panic_before_push_partial
#print axioms Chalk.FixedPoint.C12.root_ignores_leftovers
#print axioms Chalk.FixedPoint.C12.usable_after_panic_partial
#print axioms Chalk.FixedPoint.C12.cache_sound_after_panics
#print axioms Chalk.FixedPoint.C12.usable_after_panic_refuted
