/-
  C09 — every solve call terminates (recursive solver side: the bounding mechanisms of the
  fixed-point framework; the real engines' termination is observed through the deterministic
  work counters of the cfg(chalk_verif) hooks, SLG included — differential only).

  Model: `FixedPoint.lean`.  What bounds a call of the recursive solver:
    (a) the stack: `Stack::push` panics at `overflow_depth` — the nesting of `solve_goal` is
        bounded (the model's depth fuel `overflowDepth + 1` is never exhausted);
    (b) the loop of `solve_new_subgoal`, the only loop without a structural bound: it stops when
        `reached_fixed_point` holds.
  Theorems:
    `reached_fixed_point_ambig_stops` — an ambiguous answer ends the loop in the same round;
    `fixedPoint_terminates` — on the model's value domain (`noSolution < unique < ambig`, the order
        of the Rust comment; finite height) a monotone iteration reaches `reached_fixed_point`
        within 3 rounds (2 from the initial values of `initial_value`), and 3 is tight;
        `termination_needs_monotone`: without monotonicity the loop need not stop;
    `work_bounded` — explicit bound `workBound` on the number of `solve_goal` entries + loop rounds
        of ONE call, for every instance, state, oracle and outcome, in terms of the overflow depth,
        the rounds per loop, the number of alternatives per goal and of sub-goals per alternative;
    `workBound_attained` — the exponential shape of the bound is real: without its cache the
        solver proves every ambiguous sub-goal twice (main pass and last pass of `Fulfill::solve`),
        the work doubles per level of a chain (finding F18); with the cache it is linear.
    `acyclic_call_terminates` — on acyclic instances every call (any history, any oracle, cache on
        or off) returns a value when the goal's rank fits under the overflow depth: none of the
        framework's asserts fires, each loop runs one round.
  REMARK (F12).  `fixedPoint_terminates` has the hypothesis "the value order has finite height"
  built into `V`.  The real value domain does not satisfy it: `Unique σ` carries a substitution and
  `Unique(V<^0>) , Unique(V<V<^0>>), …` is an infinite strictly increasing chain of answers, on
  which neither disjunct of `reached_fixed_point` ever holds (coinductive goal with an unknown;
  reproduced as F12, repaired in /repo by turning an oversized `Unique` into `Ambig`, after which
  `reached_fixed_point_ambig_stops` applies).
  NOT YET THEOREMS (differential only): that the iteration of the real loop IS monotone in the
  provisional answer (so that 3 rounds suffice for every instance); termination of the SLG engine.
-/
import ChalkModel.Lemmas.FixedPointWork
import ChalkModel.Lemmas.FixedPointLemmas

namespace Chalk.FixedPoint.C09

/-- `reached_fixed_point(old, Ambig) = true` -/
theorem reached_fixed_point_ambig (old : V) : reachedFixedPoint old .ambig = true :=
  reachedFixedPoint_ambig old

/-- an ambiguous answer of the iteration ends the loop of `solve_new_subgoal` in that round,
    whatever fuel is left (even none) -/
theorem reached_fixed_point_ambig_stops (inst : Instance) (cfg : Cfg) (rec : SubSolver)
    (g depth dfn r : Nat) (s s0 s1 : St) (m : Min)
    (ht : tick cfg s = .ok () s0)
    (hi : solveIteration inst cfg rec g none s0 = .ok (.ambig, m) s1) :
    (∃ s', solveNewSubgoal inst cfg rec g depth dfn (r + 1) s = .ok m s') ∨
      solveNewSubgoal inst cfg rec g depth dfn (r + 1) s = .panic .index s1 :=
  ambig_stops inst cfg rec g depth dfn r s s0 s1 m ht hi

/-- finite height: a monotone iteration stops within 3 rounds from any start, within 2 from the
    initial values -/
theorem fixedPoint_terminates (f : V → V) (hf : Monotone f) :
    (∀ x0, (iterate f 3 x0).isSome = true) ∧ (∀ co, (iterate f 2 (initialValue co)).isSome = true) :=
  ⟨monotone_stabilizes f hf, monotone_stabilizes_initial f hf⟩

/-- 3 is tight -/
theorem fixedPoint_three_rounds_tight :
    Monotone downF ∧ iterate downF 2 .ambig = none ∧ iterate downF 3 .ambig = some (0, .noSolution) :=
  ⟨downF_monotone, downF_two_rounds_fail, downF_three_rounds⟩

/-- the hypothesis matters -/
theorem termination_needs_monotone :
    ¬ Monotone swapF ∧ ∀ n, iterate swapF n .noSolution = none ∧ iterate swapF n .unique = none :=
  ⟨swapF_not_monotone, nonmonotone_diverges_all⟩

/-- explicit bound on the work of one `solve_goal` call, every instance / state / outcome -/
theorem work_bounded (inst : Instance) (cfg : Cfg) (A S : Nat) (hb : inst.Bounded A S) :
    ∀ d g m s, (solveGoal inst cfg d g m s).state.work ≤ s.work + workBound cfg.rounds A S d :=
  Chalk.FixedPoint.work_bounded inst cfg A S hb

/-- … and of one call of `Solver::solve` / `solve_limited` -/
theorem call_work_bounded (inst : Instance) (cfg : Cfg) (A S : Nat) (hb : inst.Bounded A S)
    (c : Call) (s : St) :
    (runCall inst cfg c s).state.work ≤ workBound cfg.rounds A S (cfg.overflowDepth + 1) :=
  runCall_work inst cfg A S hb c s

/-- the exponential shape is attained without the cache (F18), linear with it -/
theorem workBound_attained :
    chainWork false 3 = 30 ∧ chainWork false 4 = 62 ∧ chainWork false 5 = 126 ∧
    chainWork true 3 = 11 ∧ chainWork true 4 = 14 ∧ chainWork true 5 = 17 ∧
    chainWork false 5 = workBound 1 1 1 6 :=
  ⟨workBound_attained_shape.1, workBound_attained_shape.2.1, workBound_attained_shape.2.2.1,
   workBound_attained_shape.2.2.2.1, workBound_attained_shape.2.2.2.2.1, workBound_attained_shape.2.2.2.2.2,
   workBound_attained_exact.2.2⟩

/-- the property's sentence for the recursive framework on ACYCLIC instances: every call without
    work budget, on a solver instance with any history (answers, interruptions, panics), returns a
    value when the goal's rank (longest dependency chain) fits under the configured overflow depth
    — no assert fires, every loop runs one round -/
theorem acyclic_call_terminates (inst : Instance) (rank : Nat → Nat) (hrank : Ranked inst rank)
    (cfg : Cfg) (h3 : cfg.fixF3 = true) (h7 : cfg.fixF7 = true) (h16 : cfg.fixF16 = true)
    (hr : 1 ≤ cfg.rounds) (h : List Call) (caching : Bool) (c : Call) (hb : c.budget = none)
    (hfit : rank c.goal < cfg.overflowDepth) :
    ∃ v, (runCall inst cfg c (runHistory inst cfg h (St.fresh caching))).outcome = .value v :=
  history_call_returns h3 h7 h16 hr (semOf_isSem inst rank hrank) hrank h caching c hb hfit

/-! non-vacuity -/
example : (chain 4).Bounded 2 1 := chain_bounded 4
example : Monotone (fun v => v) := fun _ _ h => h

end Chalk.FixedPoint.C09

#print axioms Chalk.FixedPoint.C09.reached_fixed_point_ambig
#print axioms Chalk.FixedPoint.C09.reached_fixed_point_ambig_stops
#print axioms Chalk.FixedPoint.C09.fixedPoint_terminates
#print axioms Chalk.FixedPoint.C09.fixedPoint_three_rounds_tight
#print axioms Chalk.FixedPoint.C09.termination_needs_monotone
#print axioms Chalk.FixedPoint.C09.work_bounded
#print axioms Chalk.FixedPoint.C09.call_work_bounded
#print axioms Chalk.FixedPoint.C09.workBound_attained
#print axioms Chalk.FixedPoint.C09.acyclic_call_terminates
