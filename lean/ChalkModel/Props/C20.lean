/-
  C20 — the orphan check implements the orphan rules.
  Property theorems only.  Model: `ChalkModel/Orphan.lean` (spec `OrphanOk` from the property's
  sentence; clause model `clausesFor` after `match_ty` / `AdtDatum` / `TraitDatum::to_program_clauses`;
  meaning `Derivable` = least fixed point; `provable` = resolution, what the driver runs and what
  is compared with the real `perform_orphan_check` under both solvers).  Lemmas:
  `Lemmas/OrphanLemmas.lean`.

  `Derivable true` / `provable true` is /repo AFTER the repair of finding F5 (commit recorded in
  known_findings.json); `… false` is the code before it, kept so that the defect stays a theorem.

  All statements are for every program (any assignment of `#[upstream]` / `#[fundamental]` to
  structs and of `#[upstream]` to traits), every number of type arguments and every type of the
  fragment of any size.
-/
import ChalkModel.Lemmas.OrphanLemmas

namespace Chalk.C20
open Chalk.Orphan

/-- The clauses chalk generates derive `forall<P̄> { LocalImplAllowed(A0: Trait<A1..An>) }`
    exactly for the impls the orphan rules allow. -/
theorem orphan_iff_spec (P : Program) (im : Impl) :
    Derivable true P (orphanGoal im) ↔ OrphanOk P im := by
  rw [orphanGoal, localImplAllowed_iff, ← orphanOkB_iff]
  simp [orphanOkB]

/-- Resolution over the clause model (the driver's `orphan` op) decides the least fixed point,
    for either version of the code and every goal of the family. -/
theorem provable_iff_derivable (fixed : Bool) (P : Program) (g : DG) :
    provable fixed P g = true ↔ Derivable fixed P g :=
  Orphan.provable_iff_derivable fixed P g

/-- … hence the model's verdict is the spec's. -/
theorem orphanCheck_iff_spec (P : Program) (im : Impl) :
    orphanCheck P im = true ↔ OrphanOk P im := by
  rw [orphanCheck, provable_iff_derivable, orphan_iff_spec]

/-- The scanning evaluation of the spec (what the harness evaluates independently in Rust)
    is the sentence. -/
theorem orphanOkB_iff_spec (P : Program) (im : Impl) : orphanOkB P im = true ↔ OrphanOk P im :=
  orphanOkB_iff P im

/-! ### the auxiliary predicates, one by one -/

/-- `IsFullyVisible(T)` is derivable exactly when `T` mentions no impl type parameter:
    scalars, and tuples / structs of fully visible types, are fully visible. -/
theorem isFullyVisible_iff (P : Program) (t : Ty) :
    Derivable true P (.ty .isFullyVisible t) ↔ t.mentionsParam = false :=
  fullyVisible_ty P t

/-- `IsLocal(T)`: a struct of the current crate, or a fundamental struct with a local argument;
    never a scalar, a tuple or a parameter (before and after the repair). -/
theorem isLocal_iff (fixed : Bool) (P : Program) (t : Ty) :
    Derivable fixed P (.ty .isLocal t) ↔ t.isLocal P = true :=
  isLocal_ty fixed P t

/-- `IsUpstream(T)` (a predicate the orphan check never asks; the overlap check does): derivable
    for `#[upstream]` structs (a `#[fundamental]` one only if all its arguments are upstream) —
    and, before and after the repair, for no scalar and no tuple: finding F5b (open). -/
theorem isUpstream_iff (fixed : Bool) (P : Program) (t : Ty) :
    Derivable fixed P (.ty .isUpstream t) ↔ t.isUpstream P = true :=
  isUpstream_ty fixed P t

/-- F5b as a theorem about the clause model: `IsUpstream(u32)` is not derivable. -/
theorem isUpstream_scalar_underivable (fixed : Bool) (P : Program) (s : Nat) :
    ¬ Derivable fixed P (.ty .isUpstream (.scalar s)) := by
  rw [isUpstream_iff]; simp [Ty.isUpstream]

/-- No type is local and upstream at once. -/
theorem not_local_and_upstream (P : Program) (t : Ty) :
    ¬ (Derivable true P (.ty .isLocal t) ∧ Derivable true P (.ty .isUpstream t)) := by
  rw [isLocal_iff, isUpstream_iff]
  have key : ∀ t : Ty, ¬ (t.isLocal P = true ∧ t.isUpstream P = true) := by
    intro t
    induction t using Ty.rec (motive_2 := fun ts => ¬ (ts.anyLocal P = true ∧ ts.allUpstream P = true)) with
    | adt id args ih =>
        cases hu : (P.adt id).upstream <;> cases hf : (P.adt id).fundamental <;>
          simp [Ty.isLocal, Ty.isUpstream, hu, hf]
        simpa using ih
    | scalar s => simp [Ty.isLocal]
    | tuple args _ => simp [Ty.isLocal]
    | param i => simp [Ty.isLocal]
    | nil => simp [Tys.anyLocal]
    | cons t ts iht ihts =>
        simp only [Tys.anyLocal, Tys.allUpstream, Bool.or_eq_true, Bool.and_eq_true]
        rintro ⟨h | h, h1, h2⟩
        · exact iht ⟨h, h1⟩
        · exact ihts ⟨h, h2⟩
  exact key t

/-- `DownstreamType(T)` is not derivable for any type in the empty environment of the orphan
    check (it only comes from the hypotheses of `compatible { .. }`). -/
theorem downstreamType_never (fixed : Bool) (P : Program) (t : Ty) :
    ¬ Derivable fixed P (.ty .downstreamType t) :=
  downstream_ty fixed P t

/-! ### finding F5: the code before the repair -/

/-- structs: 0 = `struct Local`, 1 = `#[upstream] struct Up<..>`, 2 = `#[upstream] #[fundamental]
    struct Box<T>`; traits: 0 local, every other one `#[upstream]` -/
def demo : Program :=
  ⟨fun id => match id with
      | 0 => ⟨false, false⟩
      | 2 => ⟨true, true⟩
      | _ => ⟨true, false⟩,
   fun tr => tr != 0⟩

def tLocal : Ty := .adt 0 .nil
def tUp : Ty := .adt 1 .nil
def tU32 : Ty := .scalar 0

/-- `#[upstream] trait Remote<T> {}  struct Local {}  impl Remote<Local> for u32 {}` -/
def f5 : Impl := ⟨1, .cons tU32 (.cons tLocal .nil)⟩

/-- The rules allow it (`u32` mentions no parameter, `Local` is local) … -/
theorem f5_allowed_by_the_rules : OrphanOk demo f5 := by
  rw [← orphanOkB_iff]; decide

/-- … the old clauses could not derive it: `match_ty` gave scalars no `IsFullyVisible` fact.
    So `orphan_iff_spec` was false of the code before the repair. -/
theorem legacy_rejects_f5 : ¬ Derivable false demo (orphanGoal f5) := by
  intro h
  rw [derivable_iff] at h
  obtain ⟨body, hb, hall⟩ := h
  simp [orphanGoal, f5, clausesFor, demo, Tys.toList, liaBodies] at hb
  rcases hb with rfl | rfl
  · have := hall (.ty .isLocal tU32) (by simp)
    rw [isLocal_iff] at this
    simp [tU32, Ty.isLocal] at this
  · have := hall (.ty .isFullyVisible tU32) (by simp)
    rw [derivable_iff] at this
    simp [tU32, clausesFor, scalarClauses] at this

theorem legacy_orphan_iff_spec_false :
    ¬ ∀ (P : Program) (im : Impl), Derivable false P (orphanGoal im) ↔ OrphanOk P im :=
  fun h => legacy_rejects_f5 ((h demo f5).2 f5_allowed_by_the_rules)

/-- What did hold before the repair: the equivalence for impls whose arguments are built from
    structs and impl parameters only. -/
theorem legacy_orphan_iff_spec_partial (P : Program) (im : Impl) (h : im.args.structOnly = true) :
    Derivable false P (orphanGoal im) ↔ OrphanOk P im := by
  rw [orphanGoal, legacy_localImplAllowed_iff P im.trait im.args h, ← orphanOkB_iff]
  simp [orphanOkB]

/-- The repaired clauses accept F5. -/
theorem f5_accepted : orphanCheck demo f5 = true := by
  rw [orphanCheck_iff_spec]; exact f5_allowed_by_the_rules

/-! ### non-vacuity: the spec separates impls of a remote trait -/

-- `impl<T> Remote<Local> for T`: the parameter comes before the local type
example : ¬ OrphanOk demo ⟨1, .cons (.param 0) (.cons tLocal .nil)⟩ := by
  rw [← orphanOkB_iff]; decide
-- `impl<T> Remote<T> for Local`: fine, nothing is required of later arguments
example : OrphanOk demo ⟨1, .cons tLocal (.cons (.param 0) .nil)⟩ := by
  rw [← orphanOkB_iff]; decide
-- `impl Remote for Box<Local>`: local through the fundamental constructor
example : OrphanOk demo ⟨1, .cons (.adt 2 (.cons tLocal .nil)) .nil⟩ := by
  rw [← orphanOkB_iff]; decide
-- `impl Remote for Up<Local>`: `Up` is not fundamental
example : ¬ OrphanOk demo ⟨1, .cons (.adt 1 (.cons tLocal .nil)) .nil⟩ := by
  rw [← orphanOkB_iff]; decide
-- `impl Remote for (Local, u32)`: tuples are built-in, never local
example : ¬ OrphanOk demo ⟨1, .cons (.tuple (.cons tLocal (.cons tU32 .nil))) .nil⟩ := by
  rw [← orphanOkB_iff]; decide
-- `impl<T> Remote<Local> for (u32, T)`: a tuple mentioning a parameter is not fully visible
example : ¬ OrphanOk demo ⟨1, .cons (.tuple (.cons tU32 (.cons (.param 0) .nil))) (.cons tLocal .nil)⟩ := by
  rw [← orphanOkB_iff]; decide
-- `impl Remote<(u32, Up), Local> for u32`
example : OrphanOk demo ⟨1, .cons tU32 (.cons (.tuple (.cons tU32 (.cons tUp .nil))) (.cons tLocal .nil))⟩ := by
  rw [← orphanOkB_iff]; decide
-- any impl of a local trait
example : OrphanOk demo ⟨0, .cons (.param 0) .nil⟩ := Or.inl rfl
-- the hypothesis of the partial theorem is satisfiable by a non-trivial impl
example : (Impl.mk 1 (.cons (.adt 1 (.cons (.param 0) .nil)) (.cons tLocal .nil))).args.structOnly = true := by decide

end Chalk.C20

#print axioms Chalk.C20.orphan_iff_spec
#print axioms Chalk.C20.provable_iff_derivable
#print axioms Chalk.C20.orphanCheck_iff_spec
#print axioms Chalk.C20.orphanOkB_iff_spec
#print axioms Chalk.C20.isFullyVisible_iff
#print axioms Chalk.C20.isLocal_iff
#print axioms Chalk.C20.isUpstream_iff
#print axioms Chalk.C20.isUpstream_scalar_underivable
#print axioms Chalk.C20.not_local_and_upstream
#print axioms Chalk.C20.downstreamType_never
#print axioms Chalk.C20.f5_allowed_by_the_rules
#print axioms Chalk.C20.legacy_rejects_f5
#print axioms Chalk.C20.legacy_orphan_iff_spec_false
#print axioms Chalk.C20.legacy_orphan_iff_spec_partial
#print axioms Chalk.C20.f5_accepted
