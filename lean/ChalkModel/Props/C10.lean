/-
  C10 — answers do not depend on what the same solver solved before (recursive solver side; the
  SLG solver is covered by the differential part of the harness only).

  Model: `ChalkModel/FixedPoint.lean` (one `St` = one `RecursiveContext`, the cache persists across
  `solve_root_goal` calls; `St.fresh false` = caching disabled).  `Cfg.legacy` = the code as found,
  `Cfg.current` = the code as repaired for F3, F7, F10, F16.

  * The full statement ("for every history h and goal g: solve(after h) g = solve(fresh) g, and
    cache on = cache off") was FALSE of the code as found: `legacy_cache_transparent_refuted`
    (F10: nodes computed from an outdated provisional answer were cached when the loop stopped on
    ambiguity).  With the repair the witness behaves: `f10_repaired`.
  * It is STILL FALSE of the repaired code: `cache_transparent_refuted` (F13, open: the
    `error_value` a goal gets for closing a mixed inductive/coinductive cycle depends on what is on
    the stack, but is kept in the search graph and cached with its SCC).
  * `cache_transparent_partial`: proved for every instance whose dependency relation is
    well-founded (`Ranked`: acyclic, any size, coinductive and inductive goals, goals with
    unknowns), every configuration with the F3 and F7 repairs, every pair of histories made of
    arbitrary calls (plain, interrupted by any oracle, panicking by any work budget), cache on or
    off on either side.
  * `cache_transparent_acyclic`: the unconditional form for goals whose rank fits under the
    overflow depth: the solve after any history returns, and returns what a fresh solver returns.
  NOT YET THEOREMS (differential only): the same statement for instances with inductive or
  coinductive cycles (without mixed cycles).
-/
import ChalkModel.Lemmas.FixedPointLemmas

namespace Chalk.FixedPoint.C10

/-- DESIGN §9-F10 as an abstract instance: goal 0 = `exists<X> { X: T1 }` with the alternatives
    `impl<X> T1 for X where X: T2`, `impl T1 for A`, `impl T1 for B`; goal 1 = `exists<X> { X: T2 }`
    with `impl<X> T2 for X where X: T1`. -/
def f10 : Instance := Instance.ofTable [(false, false, [[1], [], []]), (false, false, [[0]])]

/-- F13: goal 0 inductive `G :- C | true`, goal 1 coinductive `C :- G` (both ground). -/
def f13 : Instance := Instance.ofTable [(false, true, [[1], []]), (true, true, [[0]])]

/-- F10 on the code as found: after `exists<X>{X: T1}` the goal `exists<X>{X: T2}` is answered
    "no solution" from the cache; a fresh solver and the same history without the cache say
    `ambig`. -/
theorem legacy_cache_transparent_refuted :
    solveOn f10 (Cfg.legacy 100 8) 1 (runHistory f10 (Cfg.legacy 100 8) [Call.plain 0] (St.fresh true))
        = .value .noSolution ∧
    solveOn f10 (Cfg.legacy 100 8) 1 (St.fresh true) = .value .ambig ∧
    solveOn f10 (Cfg.legacy 100 8) 1 (runHistory f10 (Cfg.legacy 100 8) [Call.plain 0] (St.fresh false))
        = .value .ambig := by decide

/-- the same history on the repaired code -/
theorem f10_repaired :
    solveOn f10 (Cfg.current 100 8) 1 (runHistory f10 (Cfg.current 100 8) [Call.plain 0] (St.fresh true))
        = .value .ambig ∧
    cacheDump (runHistory f10 (Cfg.current 100 8) [Call.plain 0] (St.fresh true)) = [(0, .ambig)] := by
  decide

/-- the full statement is false of the repaired code as well (F13, mixed cycles) -/
theorem cache_transparent_refuted :
    ¬ (∀ (inst : Instance) (h : List Call) (g : Nat),
        solveOn inst (Cfg.current 100 8) g (runHistory inst (Cfg.current 100 8) h (St.fresh true))
          = solveOn inst (Cfg.current 100 8) g (St.fresh true)) := by
  intro h
  have := h f13 [Call.plain 0] 1
  revert this
  decide

/-- cache on ≠ cache off on the same witness -/
theorem cache_on_off_refuted :
    solveOn f13 (Cfg.current 100 8) 1 (runHistory f13 (Cfg.current 100 8) [Call.plain 0] (St.fresh true))
      ≠ solveOn f13 (Cfg.current 100 8) 1 (runHistory f13 (Cfg.current 100 8) [Call.plain 0] (St.fresh false)) := by
  decide

/-- On acyclic instances the answer to a goal does not depend on the history of the solver
    instance nor on whether the cache is enabled: two plain solves of `g` that return, after any
    two histories of arbitrary calls on solvers with or without cache, return the same value. -/
theorem cache_transparent_partial (inst : Instance) (rank : Nat → Nat) (hrank : Ranked inst rank)
    (cfg : Cfg) (h3 : cfg.fixF3 = true) (h7 : cfg.fixF7 = true)
    (h h' : List Call) (caching caching' : Bool) (g : Nat) (v v' : V)
    (hv : solveOn inst cfg g (runHistory inst cfg h (St.fresh caching)) = .value v)
    (hv' : solveOn inst cfg g (runHistory inst cfg h' (St.fresh caching')) = .value v') :
    v = v' := by
  have hsem := semOf_isSem inst rank hrank
  have hu : (Call.plain g).Uninterrupted := ⟨rfl, fun b hb => by cases hb⟩
  have e1 := (history_answer h3 h7 hsem hrank h caching (Call.plain g) v hv).2 hu
  have e2 := (history_answer h3 h7 hsem hrank h' caching' (Call.plain g) v' hv').2 hu
  rw [e1, e2]

/-- the value is the one the instance's equations determine (`semOf`) -/
theorem answer_is_semantic (inst : Instance) (rank : Nat → Nat) (hrank : Ranked inst rank)
    (cfg : Cfg) (h3 : cfg.fixF3 = true) (h7 : cfg.fixF7 = true)
    (h : List Call) (caching : Bool) (g : Nat) (v : V)
    (hv : solveOn inst cfg g (runHistory inst cfg h (St.fresh caching)) = .value v) :
    v = semOf inst rank g :=
  (history_answer h3 h7 (semOf_isSem inst rank hrank) hrank h caching (Call.plain g) v hv).2
    ⟨rfl, fun b hb => by cases hb⟩

/-- unconditional form for goals that fit under the overflow depth: after ANY history the plain
    solve returns, and returns the value a fresh solver (cache on or off) returns -/
theorem cache_transparent_acyclic (inst : Instance) (rank : Nat → Nat) (hrank : Ranked inst rank)
    (cfg : Cfg) (h3 : cfg.fixF3 = true) (h7 : cfg.fixF7 = true) (h16 : cfg.fixF16 = true)
    (hr : 1 ≤ cfg.rounds) (h : List Call) (caching caching' : Bool) (g : Nat)
    (hfit : rank g < cfg.overflowDepth) :
    solveOn inst cfg g (runHistory inst cfg h (St.fresh caching)) = .value (semOf inst rank g) ∧
    solveOn inst cfg g (St.fresh caching') = .value (semOf inst rank g) := by
  have hsem := semOf_isSem inst rank hrank
  have hu : (Call.plain g).Uninterrupted := ⟨rfl, fun b hb => by cases hb⟩
  obtain ⟨v, hv⟩ := history_call_returns h3 h7 h16 hr hsem hrank h caching (Call.plain g) rfl hfit
  obtain ⟨w, hw⟩ := history_call_returns h3 h7 h16 hr hsem hrank [] caching' (Call.plain g) rfl hfit
  have e1 := (history_answer h3 h7 hsem hrank h caching (Call.plain g) v hv).2 hu
  have e2 := (history_answer h3 h7 hsem hrank [] caching' (Call.plain g) w hw).2 hu
  have e1' : v = semOf inst rank g := e1
  have e2' : w = semOf inst rank g := e2
  exact ⟨by rw [← e1']; exact hv, by rw [← e2']; exact hw⟩

/-! non-vacuity: a diamond over a chain, with a goal with unknowns on top -/
def diamondTable : List (Bool × Bool × List (List Nat)) :=
  [(false, false, [[1], [2]]), (false, true, [[3, 4]]), (true, true, [[3], [4]]),
   (false, true, [[4]]), (true, true, [[]])]
def diamond : Instance := Instance.ofTable diamondTable
def diamondRank (g : Nat) : Nat := 5 - g

example : Ranked diamond diamondRank := ranked_of_table diamondTable diamondRank (by decide)
example : (Cfg.current 100 8).fixF3 = true ∧ (Cfg.current 100 8).fixF7 = true := ⟨rfl, rfl⟩
example : solveOn diamond (Cfg.current 100 8) 0
    (runHistory diamond (Cfg.current 100 8) [Call.plain 3, { goal := 0, oracle := [true, false] }] (St.fresh true))
    = .value .ambig := by decide

end Chalk.FixedPoint.C10

#print axioms Chalk.FixedPoint.C10.legacy_cache_transparent_refuted
#print axioms Chalk.FixedPoint.C10.f10_repaired
#print axioms Chalk.FixedPoint.C10.cache_transparent_refuted
#print axioms Chalk.FixedPoint.C10.cache_on_off_refuted
#print axioms Chalk.FixedPoint.C10.cache_transparent_partial
#print axioms Chalk.FixedPoint.C10.answer_is_semantic
#print axioms Chalk.FixedPoint.C10.cache_transparent_acyclic
