/-
  C11 — interrupted solving is a safe approximation (recursive solver side; SLG: differential).

  Model: `FixedPoint.lean`; the callback `should_continue` is an oracle (`Call.oracle`, then
  `Call.dflt` for ever) read at the head of every `solve_iteration`.  Every interruption schedule
  is an oracle: false on the k-th call only (`true^k false`, default `true`), from the k-th call on
  (default `false`), always (`[]`, default `false`), never.

  * `legacy_interrupt_then_fresh_refuted` (F3, code as found): the placeholder `Ambig` of the
    interrupted iteration was moved to the cache; every later solve of that goal returned it.
  * `legacy_unwrap_panics` (F16, code as found): with the cache disabled (or, after the F3 repair,
    always) a callback that says "stop" once and "go on" afterwards made the last pass of
    `Fulfill::solve` unwrap a `NoSolution`.
  * `interrupt_weaker_partial`, `interrupt_then_fresh_partial`: proved on the repaired code for
    every acyclic instance (`Ranked`), every history and every schedule: an interrupted call
    that returns gives the full answer or `ambig`; whatever was interrupted before (or panicked),
    a later uninterrupted solve gives the answer of a fresh solver.
  * `interrupt_then_fresh_refuted`: read literally for ALL instances the second sentence is still
    false of the repaired code — not through interruption but through F13 (C10): the witness is
    the mixed-cycle instance with an interrupted call in front.
  NOT YET THEOREMS (differential only): both sentences for instances with cycles (no mixed cycles).
-/
import ChalkModel.Lemmas.FixedPointLemmas

namespace Chalk.FixedPoint.C11

/-- `V<V<A>>: Foo`-like chain: 0 :- 1, 1 :- 2, 2. -/
def chain : Instance := Instance.ofTable [(false, true, [[1]]), (false, true, [[2]]), (false, true, [[]])]

/-- goal 0 = `exists<X> { X: Q }` with `impl<X> Q for X where X: Q` and the `FromEnv` clause whose
    sub-goal (goal 1) has no clause -/
def selfCycle : Instance := Instance.ofTable [(false, false, [[0], [1]]), (false, false, [])]

def f13 : Instance := Instance.ofTable [(false, true, [[1], []]), (true, true, [[0]])]

/-- F3: callback false at its second call, then a plain solve on the same instance -/
theorem legacy_interrupt_then_fresh_refuted :
    outcomes chain (Cfg.legacy 100 8) [{ goal := 0, oracle := [true, false] }, Call.plain 0] (St.fresh true)
      = [.value .ambig, .value .ambig] ∧
    solveOn chain (Cfg.legacy 100 8) 0 (St.fresh true) = .value .unique := by decide

/-- the same script on the repaired code -/
theorem interrupt_then_fresh_repaired :
    outcomes chain (Cfg.current 100 8) [{ goal := 0, oracle := [true, false] }, Call.plain 0] (St.fresh true)
      = [.value .ambig, .value .unique] := by decide

/-- F16: callback false at its second call only, cache disabled -/
theorem legacy_unwrap_panics :
    outcomes selfCycle (Cfg.legacy 100 8) [{ goal := 0, oracle := [true, false], dflt := true }] (St.fresh false)
      = [.panic .unwrapNoSolution] ∧
    outcomes selfCycle (Cfg.current 100 8) [{ goal := 0, oracle := [true, false], dflt := true }] (St.fresh false)
      = [.value .noSolution] ∧
    solveOn selfCycle (Cfg.current 100 8) 0 (St.fresh false) = .value .noSolution := by decide

/-- first sentence: a call interrupted by ANY schedule, after ANY history, returns the answer of
    a fresh solver or `ambig` (acyclic instances, repaired code) -/
theorem interrupt_weaker_partial (inst : Instance) (rank : Nat → Nat) (hrank : Ranked inst rank)
    (cfg : Cfg) (h3 : cfg.fixF3 = true) (h7 : cfg.fixF7 = true)
    (h : List Call) (caching caching' : Bool) (c : Call) (v w : V)
    (hv : (runCall inst cfg c (runHistory inst cfg h (St.fresh caching))).outcome = .value v)
    (hw : solveOn inst cfg c.goal (St.fresh caching') = .value w) :
    v = w ∨ v = .ambig := by
  have hsem := semOf_isSem inst rank hrank
  have e1 := (history_answer h3 h7 hsem hrank h caching c v hv).1
  have e2 := (history_answer h3 h7 hsem hrank [] caching' (Call.plain c.goal) w hw).2
    ⟨rfl, fun b hb => by cases hb⟩
  rw [e2]
  exact e1

/-- second sentence: after any history of interrupted (and panicking) calls an uninterrupted solve
    returns what a fresh solver returns (acyclic instances, repaired code) -/
theorem interrupt_then_fresh_partial (inst : Instance) (rank : Nat → Nat) (hrank : Ranked inst rank)
    (cfg : Cfg) (h3 : cfg.fixF3 = true) (h7 : cfg.fixF7 = true)
    (h : List Call) (caching caching' : Bool) (c : Call) (hc : c.Uninterrupted) (v w : V)
    (hv : (runCall inst cfg c (runHistory inst cfg h (St.fresh caching))).outcome = .value v)
    (hw : solveOn inst cfg c.goal (St.fresh caching') = .value w) :
    v = w := by
  have hsem := semOf_isSem inst rank hrank
  have e1 := (history_answer h3 h7 hsem hrank h caching c v hv).2 hc
  have e2 := (history_answer h3 h7 hsem hrank [] caching' (Call.plain c.goal) w hw).2
    ⟨rfl, fun b hb => by cases hb⟩
  rw [e1, e2]
  rfl

/-- the second sentence for all instances is false of the repaired code too, through F13 -/
theorem interrupt_then_fresh_refuted :
    outcomes f13 (Cfg.current 100 8) [{ goal := 0, dflt := false }, Call.plain 0, Call.plain 1] (St.fresh true)
      = [.value .ambig, .value .unique, .value .noSolution] ∧
    solveOn f13 (Cfg.current 100 8) 1 (St.fresh true) = .value .unique := by decide

/-! non-vacuity -/
example : Ranked chain (fun g => 3 - g) :=
  ranked_of_table [(false, true, [[1]]), (false, true, [[2]]), (false, true, [[]])] _ (by decide)
example : (⟨0, [true, true], true, none⟩ : Call).Uninterrupted :=
  ⟨rfl, fun b hb => by simp at hb; exact hb⟩

end Chalk.FixedPoint.C11

#print axioms Chalk.FixedPoint.C11.legacy_interrupt_then_fresh_refuted
#print axioms Chalk.FixedPoint.C11.interrupt_then_fresh_repaired
#print axioms Chalk.FixedPoint.C11.legacy_unwrap_panics
#print axioms Chalk.FixedPoint.C11.interrupt_weaker_partial
#print axioms Chalk.FixedPoint.C11.interrupt_then_fresh_partial
#print axioms Chalk.FixedPoint.C11.interrupt_then_fresh_refuted
