/-
  C11C12mixed — C12 ("a panic leaves the solver usable") and C11 ("interrupted solving is a safe
  approximation") for the STRATIFIED MIXED class of `Props/C05mixed.lean`: ground instances with
  coinductive and inductive goals and no mixed cycle (`Mix.MHyp inst P dom lvl`: `dom` closed and ground,
  `lvl` a stratification, `P` the stratified truth).

  Model: `FixedPoint.lean`, unchanged.  Proofs: `Lemmas/FixedPointMix*.lean` — the invariant of
  `C05mixed` with the third value `ambig` (only once `interrupted` is set) and "returns, or budget
  panic with a correct cache" in place of totality, exactly as `Props/C11fp.lean` / `Props/C12fp.lean`
  did for one polarity.  `Holds P v g` is `(v = unique ∧ P g) ∨ (v = noSolution ∧ ¬ P g)` (`holds_iff`).

    `mixed_panic_leaves_cache_correct` — every work budget, quiet oracle, repairs F3/F7: the call returns
        the stratified answer or ends in the budget panic; the cache is correct afterwards either way;
    `mixed_history_with_panics_correct` — histories of such calls: outcomes, cache, next plain call;
    `mixed_interrupted_is_safe_approximation` — any oracle, `Cfg.current`: the stratified answer or
        `ambig` (only if interrupted; exact if the oracle is quiet), correct cache;
    `mixed_history_with_interruptions_correct` — histories of arbitrary calls (any oracle, any budget),
        repairs F3/F7/F10/F16.
-/
import ChalkModel.Lemmas.FixedPointMixP
import ChalkModel.Props.C05mixed

namespace Chalk.FixedPoint.C11C12mixed
open Chalk.FixedPoint.Cyc (InCache)
open Chalk.FixedPoint.Mix

theorem holds_iff (P : Nat → Prop) (v : V) (g : Nat) :
    Holds P v g ↔ (v = .unique ∧ P g) ∨ (v = .noSolution ∧ ¬ P g) := by
  cases v <;> simp [Holds]

/-- (mixed) a panic at any work step leaves a correct cache -/
theorem mixed_panic_leaves_cache_correct (inst : Instance) (P : Nat → Prop) (dom : List Nat) (lvl : Nat → Nat)
    (hyp : MHyp inst P dom lvl) (cfg : Cfg) (h3 : cfg.fixF3 = true) (h7 : cfg.fixF7 = true)
    (hov : dom.length ≤ cfg.overflowDepth) (hr : 2 ≤ cfg.rounds) (s : St)
    (hq : s.oracle = [] ∧ s.oracleDefault = true) (hok : ∀ k v, InCache s k v → Holds P v k)
    (g : Nat) (hg : g ∈ dom) :
    (∃ v s', solveRootGoal inst cfg g s = .ok v s' ∧ Holds P v g ∧ s'.stack = [] ∧ s'.graph = [] ∧
      (∀ k w, InCache s' k w → Holds P w k) ∧ s'.cache.isSome = s.cache.isSome) ∨
    (∃ s', solveRootGoal inst cfg g s = .panic .budget s' ∧ cfg.budget ≠ none ∧
      (∀ k w, InCache s' k w → Holds P w k)) :=
  solveRootGoal_good hyp h3 h7 hov hr s hq hok g hg

/-- (mixed) histories of calls with arbitrary budgets -/
theorem mixed_history_with_panics_correct (inst : Instance) (P : Nat → Prop) (dom : List Nat) (lvl : Nat → Nat)
    (hyp : MHyp inst P dom lvl) (cfg : Cfg) (h3 : cfg.fixF3 = true) (h7 : cfg.fixF7 = true)
    (hov : dom.length ≤ cfg.overflowDepth) (hr : 2 ≤ cfg.rounds) (b : Bool) (ks : List Call)
    (hd : ∀ k, k ∈ ks → (k.oracle = [] ∧ k.dflt = true) ∧ k.goal ∈ dom) (g : Nat) (hg : g ∈ dom) :
    (∀ (i : Nat) (k : Call), ks[i]? = some k →
      (outcomes inst cfg ks (St.fresh b))[i]? = some (.panic .budget) ∧ k.budget ≠ none ∨
      ∃ v, (outcomes inst cfg ks (St.fresh b))[i]? = some (.value v) ∧ Holds P v k.goal) ∧
    (∀ k w, InCache (runHistory inst cfg ks (St.fresh b)) k w → Holds P w k) ∧
    ∃ v, solveOn inst cfg g (runHistory inst cfg ks (St.fresh b)) = .value v ∧ Holds P v g := by
  have hd' : ∀ k, k ∈ ks → (false = true ∨ Cyc.QuietCall k) ∧ k.goal ∈ dom :=
    fun k hk => ⟨Or.inr (hd k hk).1, (hd k hk).2⟩
  refine ⟨fun i k hi => ?_,
    history_cacheOK false hyp h3 h7 (fun e => by cases e) (fun e => by cases e) hov hr ks hd' _ (cacheOK_fresh b),
    history_then_plain false hyp h3 h7 (fun e => by cases e) (fun e => by cases e) hov hr b ks hd' g hg⟩
  cases history_outcomes false hyp h3 h7 (fun e => by cases e) (fun e => by cases e) hov hr ks hd' _
      (cacheOK_fresh (P := P) b) i k hi with
  | inl h => exact Or.inl h
  | inr h =>
    obtain ⟨v, e, hv⟩ := h
    refine Or.inr ⟨v, e, ?_⟩
    cases hv with
    | inl hc => exact hc
    | inr ha => exact absurd (hd k (List.mem_of_getElem? hi)).1 ha.2

/-- (mixed) interrupted solving is a safe approximation -/
theorem mixed_interrupted_is_safe_approximation (inst : Instance) (P : Nat → Prop) (dom : List Nat)
    (lvl : Nat → Nat) (hyp : MHyp inst P dom lvl) (overflowDepth rounds : Nat) (hov : dom.length ≤ overflowDepth)
    (hr : 2 ≤ rounds) (s : St) (hok : ∀ k v, InCache s k v → Holds P v k) (g : Nat) (hg : g ∈ dom) :
    ∃ v s', solveRootGoal inst (Cfg.current overflowDepth rounds) g s = .ok v s' ∧
      (Holds P v g ∨ v = .ambig) ∧ (v = .ambig → s'.interrupted = true) ∧
      (s.oracle = [] ∧ s.oracleDefault = true → Holds P v g) ∧
      s'.stack = [] ∧ s'.graph = [] ∧ s'.cache.isSome = s.cache.isSome ∧
      (∀ k w, InCache s' k w → Holds P w k) := by
  cases solveRootGoal_general (fx := true) (cfg := Cfg.current overflowDepth rounds) hyp rfl rfl (fun _ => rfl)
      (fun _ => rfl) hov hr s (Or.inl rfl) hok g hg with
  | inr h => obtain ⟨_, _, hne, _⟩ := h; exact absurd rfl hne
  | inl h =>
    obtain ⟨v, s', h1, h2, h3, h4, h5, h6, h7⟩ := h
    refine ⟨v, s', h1, h2.imp id (fun a => a.1), ?_, ?_, h3, h4, h6, h5⟩
    · intro e
      cases h2 with
      | inl hc => rw [e] at hc; exact hc.elim
      | inr ha => exact ha.2
    · intro hq
      cases h2 with
      | inl hc => exact hc
      | inr ha =>
        have := h7 hq
        rw [ha.2] at this
        cases this

/-- (mixed) histories of arbitrary calls: any oracle, any work budget -/
theorem mixed_history_with_interruptions_correct (inst : Instance) (P : Nat → Prop) (dom : List Nat)
    (lvl : Nat → Nat) (hyp : MHyp inst P dom lvl) (cfg : Cfg) (h3 : cfg.fixF3 = true) (h7 : cfg.fixF7 = true)
    (h10 : cfg.fixF10 = true) (h16 : cfg.fixF16 = true) (hov : dom.length ≤ cfg.overflowDepth)
    (hr : 2 ≤ cfg.rounds) (b : Bool) (ks : List Call) (hd : ∀ k, k ∈ ks → k.goal ∈ dom) (g : Nat) (hg : g ∈ dom) :
    (∀ (i : Nat) (k : Call), ks[i]? = some k →
      (outcomes inst cfg ks (St.fresh b))[i]? = some (.panic .budget) ∧ k.budget ≠ none ∨
      ∃ v, (outcomes inst cfg ks (St.fresh b))[i]? = some (.value v) ∧
        (Holds P v k.goal ∨ (v = .ambig ∧ ¬ (k.oracle = [] ∧ k.dflt = true)))) ∧
    (∀ k w, InCache (runHistory inst cfg ks (St.fresh b)) k w → Holds P w k) ∧
    ∃ v, solveOn inst cfg g (runHistory inst cfg ks (St.fresh b)) = .value v ∧ Holds P v g := by
  have hd' : ∀ k, k ∈ ks → (true = true ∨ Cyc.QuietCall k) ∧ k.goal ∈ dom := fun k hk => ⟨Or.inl rfl, hd k hk⟩
  exact ⟨history_outcomes true hyp h3 h7 (fun _ => h10) (fun _ => h16) hov hr ks hd' _ (cacheOK_fresh b),
    history_cacheOK true hyp h3 h7 (fun _ => h10) (fun _ => h16) hov hr ks hd' _ (cacheOK_fresh b),
    history_then_plain true hyp h3 h7 (fun _ => h10) (fun _ => h16) hov hr b ks hd' g hg⟩

/-! ### non-vacuity on `strata` (`Props/C05mixed.lean`: 6 goals, cycles of both polarities) -/

open Chalk.FixedPoint.C05mixed (strata strataP strataLvl strata_hyp)

/-- a clean solve of goal `5` takes 13 work steps -/
example : (runCall strata (Cfg.current 6 2) (Call.plain 5) (St.fresh true)).state.work = 13 := by decide

/-- a panic at work step 11, after the inductive fact `3` and the coinductive cycle `2` were cached and
    while `4` and `5` are in progress: the cache holds final entries only, the next solves are exact
    (`5` holds; `0`, a coinductive cycle that needs the failing inductive loop `1`, does not) -/
example :
    outcomes strata (Cfg.current 6 2) [{ goal := 5, budget := some 10 }, Call.plain 5, Call.plain 0]
        (St.fresh true) = [.panic .budget, .value .unique, .value .noSolution] ∧
    cacheDump (runHistory strata (Cfg.current 6 2) [{ goal := 5, budget := some 10 }] (St.fresh true)) =
      [(2, .unique), (3, .unique)] := by decide

/-- every crash point of the clean run -/
example :
    ((List.range 13).all fun b =>
      outcomes strata (Cfg.current 6 2) [{ goal := 5, budget := some b }, Call.plain 5, Call.plain 0]
        (St.fresh true) == [.panic .budget, .value .unique, .value .noSolution]) = true := by decide

/-- interrupted at the `k`-th call of `should_continue`, for every `k` a clean run reaches (5 calls):
    `ambig`, nothing provisional cached, the next solves exact -/
example :
    ((List.range 5).all fun k =>
      outcomes strata (Cfg.current 6 2)
        [{ goal := 5, oracle := List.replicate k true ++ [false] }, Call.plain 5, Call.plain 0]
        (St.fresh true) == [.value .ambig, .value .unique, .value .noSolution]) = true ∧
    cacheDump (runHistory strata (Cfg.current 6 2)
      [{ goal := 5, oracle := List.replicate 4 true ++ [false] }] (St.fresh true)) =
      [(2, .unique), (3, .unique)] := by decide

/-- the theorem, instantiated: whatever panicked or was interrupted before, goal `5` then holds -/
example (ks : List Call) (hd : ∀ k, k ∈ ks → k.goal ∈ [0, 1, 2, 3, 4, 5]) (b : Bool) :
    solveOn strata (Cfg.current 6 2) 5 (runHistory strata (Cfg.current 6 2) ks (St.fresh b)) = .value .unique := by
  obtain ⟨_, _, v, h1, h2⟩ := mixed_history_with_interruptions_correct strata strataP _ strataLvl strata_hyp
    (Cfg.current 6 2) rfl rfl rfl rfl (by decide) (by decide) b ks hd 5 (by decide)
  have : v = .unique := by
    rcases (holds_iff strataP v 5).mp h2 with ⟨e, _⟩ | ⟨_, hn⟩
    · exact e
    · exact absurd (by simp [strataP]) hn
  rw [h1, this]

end Chalk.FixedPoint.C11C12mixed

#print axioms Chalk.FixedPoint.C11C12mixed.holds_iff
#print axioms Chalk.FixedPoint.C11C12mixed.mixed_panic_leaves_cache_correct
#print axioms Chalk.FixedPoint.C11C12mixed.mixed_history_with_panics_correct
#print axioms Chalk.FixedPoint.C11C12mixed.mixed_interrupted_is_safe_approximation
#print axioms Chalk.FixedPoint.C11C12mixed.mixed_history_with_interruptions_correct
