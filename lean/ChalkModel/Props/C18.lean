/-
  C18 — clause pre-filtering never discards an applicable clause.
  "Unifiable" is stated in the strongest syntactic form available without the unifier model: the
  two terms have a *common instance* under two arbitrary folders `F`, `G` — arbitrary replacement
  of free (bound) variables, inference variables and placeholders by anything, at arbitrary binder
  depths.  Every unifier yields such a common instance, so whenever the conclusion of a clause can
  be unified with the goal the pre-filter does not answer `false` (it answers `true`, or hits the
  variance-index panic of `zip_substs`, which the model makes explicit).
-/
import ChalkModel.Lemmas.CouldMatchLemmas

namespace Chalk.C18

/-- types -/
theorem couldMatch_of_unifiable_ty (db : UDb) (F G : Folder) (o1 o2 : Nat) (a b c : Ty)
    (h1 : foldTy F o1 a = .ok c) (h2 : foldTy G o2 b = .ok c) : cmTy db a b ≠ .ok false :=
  cmTy_common_instance db F G a o1 o2 b c h1 h2

/-- clause conclusion vs goal (`ProgramClause::could_match(goal)` is `consequence.could_match(goal)`) -/
theorem couldMatch_of_unifiable (db : UDb) (F G : Folder) (o1 o2 : Nat) (concl goal c : DomainGoal)
    (h1 : foldDomainGoal F o1 concl = .ok c) (h2 : foldDomainGoal G o2 goal = .ok c) :
    cmDomainGoal db concl goal ≠ .ok false :=
  cmDomainGoal_common_instance db F G o1 o2 concl goal c h1 h2

/-- impl header vs trait-reference argument list -/
theorem couldMatch_of_unifiable_args (db : UDb) (F G : Folder) (o1 o2 : Nat) (a b c : Args)
    (h1 : foldArgs F o1 a = .ok c) (h2 : foldArgs G o2 b = .ok c) : cmSlice db a b ≠ .ok false :=
  cmSlice_common_instance db F G o1 o2 a b c h1 h2

/-- `impls_for_trait` returns every impl of the trait whose header has a common instance with the
    argument list: whenever it returns at all, the index of each such impl is in the result. -/
theorem implsFor_superset (db : UDb) (traitId : Nat) (params : Args) (F G : Folder) (o1 o2 : Nat)
    (impls : List (Nat × Args)) (kept : List Nat)
    (hk : implsForTrait db traitId params impls 0 = .ok kept)
    (j : Nat) (hdr : Args) (hj : impls[j]? = some (traitId, hdr))
    (hc : ∃ c, foldArgs F o1 params = .ok c ∧ foldArgs G o2 hdr = .ok c) : j ∈ kept := by
  have := implsForTrait_keeps db traitId params F G o1 o2 impls 0 kept hk j hdr hj hc
  simpa using this

/-- Non-vacuity: `Vec<?0>` and `Vec<^0.0>` have the common instance `Vec<u32>` (so the theorem
    applies), and the filter does reject something (`Vec<..>` vs `Box<..>` with distinct ids). -/
example : ∃ F G c, foldTy F 0 (.app (.adt 1) (.cons (.ty (.infer 0 .general)) .nil)) = .ok c ∧
    foldTy G 0 (.app (.adt 1) (.cons (.ty (.bound 0 0)) .nil)) = .ok c :=
  ⟨{ inferTy := some fun _ _ _ => .ok (.scalar 23) }, { freeVarTy := some fun _ _ _ => .ok (.scalar 23) },
   .app (.adt 1) (.cons (.ty (.scalar 23)) .nil), by rfl, by rfl⟩
example : cmTy ⟨fun _ => [.co], fun _ => []⟩ (.app (.adt 1) (.cons (.ty .str) .nil))
    (.app (.adt 2) (.cons (.ty .str) .nil)) = .ok false := by rfl

end Chalk.C18

#print axioms Chalk.C18.couldMatch_of_unifiable_ty
#print axioms Chalk.C18.couldMatch_of_unifiable
#print axioms Chalk.C18.couldMatch_of_unifiable_args
#print axioms Chalk.C18.implsFor_superset
