/-
  C17 — combining candidate answers only generalizes.
  Helper lemmas: `Lemmas/AggregateLemmas.lean`.  `genOf r t` is the structural "t is an instance
  of r" (pattern variables of `r` match anything, everything else must agree); for a pattern in
  which no variable repeats (every result of the anti-unifier: each fresh variable is used once)
  it is exactly the instance relation.
-/
import ChalkModel.Lemmas.AggregateLemmas

namespace Chalk.C17

/-- Every merged answer is an instance of the result of `merge_into_guidance`: the old guidance
    always, the new answer whenever it has the kinds of the guidance position by position (which
    answers to one query always have).  All substitutions, any length, any universes. -/
theorem merge_generalizes (universes : List Nat) (guidance answer : Args) (r : Canon Args)
    (h : mergeIntoGuidance universes guidance answer = .ok r)
    (hk : guidance.sameKinds answer = true) :
    r.value.genOf guidance = true ∧ r.value.genOf answer = true := by
  unfold mergeIntoGuidance at h
  cases hm : mergeLoop universes 0 guidance answer [] with
  | error e => simp [hm] at h
  | ok p =>
    obtain ⟨v, st⟩ := p
    simp [hm] at h
    rw [← h]
    exact mergeLoop_gen universes 0 guidance answer [] v st hm hk

/-- The anti-unifier itself, on types. -/
theorem antiUnify_generalizes (u : Nat) (t1 t2 r : Ty) (st st' : AuSt)
    (h : auTy u t1 t2 st = .ok (r, st')) : r.genOf t1 = true ∧ r.genOf t2 = true :=
  auTy_gen u t1 t2 st r st' h

/-- FULL STATEMENT (false of the code, hence of the model): "when `may_invalidate(new, cur)` says
    `false`, `new` is an instance of `cur`, so merging it cannot change the guidance".
    Refuted by `cur = [Pair<^0.0, ^0.0>]`, `new = [Pair<A, B>]` (DESIGN §9-F1): the check answers
    `false`, yet no substitution maps `cur` to `new`. -/
def pairAA : Args := .cons (.ty (.app (.adt 0) (.cons (.ty (.bound 0 0)) (.cons (.ty (.bound 0 0)) .nil)))) .nil
def pairAB : Args := .cons (.ty (.app (.adt 0) (.cons (.ty (.app (.adt 1) .nil)) (.cons (.ty (.app (.adt 2) .nil)) .nil)))) .nil

theorem mayInvalidate_sound_refuted :
    mayInvalidate pairAB pairAA = .ok false ∧ ∀ θ : List GArg, pairAA.subst θ ≠ .ok pairAB := by
  refine ⟨by simp [mayInvalidate, pairAB, pairAA, miAny, miGArg, miTy, miNamed, TyName.sameKind, Args.length, Args.toList], ?_⟩
  intro θ h
  simp only [pairAA, pairAB, Args.subst, foldArgs, foldGArg, foldTy, substFolder] at h
  cases h0 : θ[0]? with
  | none => simp [h0] at h
  | some a =>
    cases a with
    | ty t =>
      simp [h0] at h
      cases ht : foldTy (shifter 0) 0 t with
      | error e => simp [ht] at h
      | ok t' =>
        simp [ht] at h
        obtain ⟨h1, h2⟩ := h
        subst h1
        cases h2
    | lt l => simp [h0] at h
    | ct c => simp [h0] at h

/-- What does hold (for every pair of substitutions of equal length): `false` is only answered
    when `new` is a structural instance of `cur` — i.e. an instance, whenever `cur` repeats no
    variable.  The excluded class is exactly the witness class above (a repeated variable bound to
    two different terms). -/
theorem mayInvalidate_sound_partial (new cur : Args) (hl : new.length = cur.length)
    (h : mayInvalidate new cur = .ok false) : cur.genOf new = true :=
  miAny_false new cur h hl

/-- `Solution::combine` gives the same result in either order, except when both arguments are
    "trivially true" (`Unique` with the identity substitution and no constraints) and differ — then
    each call returns its own first argument.  (Two such solutions of one query differ at most in
    binder annotations; the correspondence run reports how often the exception occurred.) -/
theorem combine_comm (a b : Solution) :
    a.combine b = b.combine a ∨
      (a.isTrivialAndAlwaysTrue = true ∧ b.isTrivialAndAlwaysTrue = true ∧ a ≠ b) := by
  by_cases hab : a = b
  · left; subst hab; rfl
  · have hba : ¬ b = a := fun h => hab h.symm
    cases ha : a.isTrivialAndAlwaysTrue <;> cases hb : b.isTrivialAndAlwaysTrue
    · left
      simp only [Solution.combine, hab, hba, ha, hb, if_false]
      cases hga : a.intoGuidance <;> cases hgb : b.intoGuidance <;> simp
      · rename_i c1 c2
        by_cases hc : c1 = c2
        · subst hc; simp
        · have : ¬ c2 = c1 := fun h => hc h.symm
          simp [hc, this]
      · rename_i c1 c2
        by_cases hc : c1 = c2
        · subst hc; simp
        · have : ¬ c2 = c1 := fun h => hc h.symm
          simp [hc, this]
    · left; simp [Solution.combine, hab, hba, ha, hb]
    · left; simp [Solution.combine, hab, hba, ha, hb]
    · right; exact ⟨rfl, rfl, hab⟩

/-- information order on guidance: `unknown` below everything, otherwise equal -/
def Guidance.le : Guidance → Guidance → Bool
  | .unknown, _ => true
  | g, g' => g == g'

/-- `combine` never claims more than either candidate: the result is one of the arguments, or an
    ambiguous answer whose guidance is below the guidance of both. -/
theorem combine_no_more (a b : Solution) :
    a.combine b = a ∨ a.combine b = b ∨
      ∃ g, a.combine b = .ambig g ∧ Guidance.le g a.intoGuidance = true ∧ Guidance.le g b.intoGuidance = true := by
  unfold Solution.combine
  split
  · left; rfl
  · split
    · left; rfl
    · split
      · right; left; rfl
      · right; right
        cases a.intoGuidance <;> cases b.intoGuidance <;> simp [Guidance.le] <;> split <;> simp_all [Guidance.le]

/-- With equal inputs the high-priority solution is returned unchanged (so a unique answer to an
    `AliasEq` goal is the value given by the impl, not the placeholder fallback). -/
theorem withPriorities_prefers_high (goal : DomainGoal) (hi lo : Solution) (i : List Ty)
    (h1 : calculateInputs goal hi = .ok i) (h2 : calculateInputs goal lo = .ok i) :
    withPriorities goal hi true lo false = .ok (hi, true) ∧
    withPriorities goal lo false hi true = .ok (hi, true) := by
  simp [withPriorities, h1, h2]

/-- Non-vacuity: a merge that really generalizes (`[Vec<A>]` with `[Vec<B>]` gives `[Vec<^0.0>]`). -/
example : mergeIntoGuidance [0]
    (.cons (.ty (.app (.adt 0) (.cons (.ty (.app (.adt 1) .nil)) .nil))) .nil)
    (.cons (.ty (.app (.adt 0) (.cons (.ty (.app (.adt 2) .nil)) .nil))) .nil)
    = .ok ⟨[(.ty .general, 0)], .cons (.ty (.app (.adt 0) (.cons (.ty (.bound 0 0)) .nil))) .nil⟩ := by rfl

end Chalk.C17

#print axioms Chalk.C17.merge_generalizes
#print axioms Chalk.C17.antiUnify_generalizes
#print axioms Chalk.C17.mayInvalidate_sound_refuted
#print axioms Chalk.C17.mayInvalidate_sound_partial
#print axioms Chalk.C17.combine_comm
#print axioms Chalk.C17.combine_no_more
#print axioms Chalk.C17.withPriorities_prefers_high
