/-
  C29 — subtyping follows declared variance.

  Model: `relate` (`ChalkModel/Unify.lean`), `Variance.xform/invert` (`ChalkModel/Variance.lean`).
  Specification (`Lemmas/UnifyDefs.lean`, written from the variance rules, not from the unifier):
  `Ty.eraseLt` (the structure of a type = the type with every lifetime erased) and
  `subConstraints db v a b` (the outlives constraints dictated by the variance of every lifetime
  position: covariant position ⇒ `b: a`, contravariant ⇒ `a: b`, invariant ⇒ both; `&'a T`
  contravariant in `'a` — chalk's orientation of lifetimes, under which `&'a T <: &'b T` demands
  `'a: 'b` —, `&mut T` / `*mut T` invariant in `T`, fn pointers contravariant in parameters and
  covariant in the result, ADT / fn-def parameters by declared variance composed with `xform`).

  Fragment of the `relate_*` theorems (`Ty.rigid`): no inference variables of any sort (type,
  const, lifetime), no bound variables, no aliases, no `dyn`, no error type; function pointers
  without binders; every lifetime is `'static`, a placeholder, erased or the error lifetime.
  Lifetime *variables* are excluded on purpose: the unifier may bind or unify them instead of
  returning obligations (`unify_lifetime_var`), and for two lifetime variables under a
  covariant / contravariant relation it does so although the variance only dictates one outlives
  obligation (known finding F16, reproduced by the harness). Types are well-kinded against an
  arity table (`arityOk`): `zip_substs` does not compare the lengths of argument lists.
  Goal lists are compared as lists (same order, same multiplicity).
-/
import ChalkModel.Lemmas.UnifyRigidSymm
import ChalkModel.Lemmas.UnifyRigidLt

namespace Chalk.C29

/-! ## the algebra of `Variance` -/

theorem xform_assoc (a b c : Variance) : (a.xform b).xform c = a.xform (b.xform c) := by
  cases a <;> cases b <;> cases c <;> rfl
theorem xform_comm (a b : Variance) : a.xform b = b.xform a := by cases a <;> cases b <;> rfl
theorem xform_invert (a b : Variance) : (a.xform b).invert = a.invert.xform b := by
  cases a <;> cases b <;> rfl
theorem xform_co (a : Variance) : a.xform .co = a ∧ Variance.co.xform a = a := by cases a <;> exact ⟨rfl, rfl⟩
theorem xform_inv (a : Variance) : a.xform .inv = .inv ∧ Variance.inv.xform a = .inv := by
  cases a <;> exact ⟨rfl, rfl⟩
theorem invert_invert (a : Variance) : a.invert.invert = a := by cases a <;> rfl
theorem invert_eq_xform_contra (a : Variance) : a.invert = a.xform .contra := by cases a <;> rfl

/-! ## structure -/

/-- On the rigid fragment `relate` succeeds exactly when the two types have the same structure
    (are equal once lifetimes are erased) — whatever the variance, the table and the fuel (at
    least the depth of the left type) —, it then leaves the table as it was, and otherwise it
    answers `NoSolution` (never a panic). -/
theorem relate_variance_struct (db : UDb) (ar : TyName → Nat) (hdb : db.arityOk ar) (jf fuel : Nat)
    (t : Table) (v : Variance) (a b : Ty)
    (ha : a.rigid = true) (hb : b.rigid = true) (haa : a.arityOk ar = true) (hab : b.arityOk ar = true)
    (hd : a.depth ≤ fuel) :
    ((∃ gs, relate db jf fuel t v a b = (t, .ok gs)) ↔ a.eraseLt = b.eraseLt) ∧
    (a.eraseLt ≠ b.eraseLt → relate db jf fuel t v a b = (t, .noSolution)) := by
  have h := relateTy_rigid db ar hdb jf fuel v a b { table := t, goals := [] } ha hb haa hab hd
  by_cases he : a.eraseLt = b.eraseLt
  · simp only [he, if_true] at h
    refine ⟨⟨fun _ => he, fun _ => ⟨_, by simp [relate, h]; rfl⟩⟩, fun hn => absurd he hn⟩
  · simp only [he, if_false] at h
    refine ⟨⟨fun ⟨gs, hg⟩ => ?_, fun h' => absurd h' he⟩, fun _ => by simp [relate, h, Table.rollbackTo, Table.snapshot]⟩
    simp [relate, h] at hg

/-- The same with LIFETIME inference variables allowed (`Ty.rigidT`: no type / const inference
    variables, no aliases, no binders): on every well-formed table in which the lifetime variables of
    the two types are unbound or bound to rigid lifetimes, `relate` succeeds exactly when the
    structures agree, and otherwise answers `NoSolution` with the table untouched. (What it returns
    on success is then goals AND bindings of lifetime variables; see the note on F16 above.) -/
theorem relate_variance_struct_ltvars (db : UDb) (ar : TyName → Nat) (hdb : db.arityOk ar) (jf fuel : Nat)
    (t : Table) (v : Variance) (a b : Ty) (hwf : t.WF)
    (har : a.rigidT = true) (hbr : b.rigidT = true)
    (hSa : ∀ x ∈ a.ltVars, LtVarOk t x) (hSb : ∀ x ∈ b.ltVars, LtVarOk t x)
    (haa : a.arityOk ar = true) (hab : b.arityOk ar = true) (hd : a.depth ≤ fuel) :
    (Succeeds (relate db jf fuel t v a b) ↔ a.eraseLt = b.eraseLt) ∧
    (a.eraseLt ≠ b.eraseLt → relate db jf fuel t v a b = (t, .noSolution)) :=
  relate_rigidT db ar hdb jf fuel (fun x => LtVarOk t x) t v a b hwf (fun _ h => h) har hbr hSa hSb haa hab hd

/-! ## constraints -/

/-- On the rigid fragment the goals `relate` returns are exactly (as a list) the outlives
    constraints dictated by variance. -/
theorem relate_variance_constraints (db : UDb) (ar : TyName → Nat) (hdb : db.arityOk ar) (jf fuel : Nat)
    (t : Table) (v : Variance) (a b : Ty)
    (ha : a.rigid = true) (hb : b.rigid = true) (haa : a.arityOk ar = true) (hab : b.arityOk ar = true)
    (hd : a.depth ≤ fuel) (he : a.eraseLt = b.eraseLt) :
    relate db jf fuel t v a b = (t, .ok (outlivesGoals (subConstraints db v a b))) := by
  have h := relateTy_rigid db ar hdb jf fuel v a b { table := t, goals := [] } ha hb haa hab hd
  simp only [he, if_true] at h
  simp [relate, h, filter_retain_outlives]

/-- Swapping the two types and inverting the variance dictates the same constraints, up to order. -/
theorem subConstraints_swap (db : UDb) (v : Variance) (a b : Ty) (h : a.eraseLt = b.eraseLt) :
    (subConstraints db v.invert b a).Perm (subConstraints db v a b) :=
  Chalk.subConstraints_swap db v a b h

/-- Equal types impose nothing. -/
theorem subConstraints_self (db : UDb) (v : Variance) (a : Ty) : subConstraints db v a a = [] :=
  subConstraints_refl db v a

/-! ## non-vacuity -/

/-- `Foo<'a, T>` declared (covariant, invariant); `&'static Foo<'!0, &'static u32>` related to
    `&'!1 Foo<'!2, &'erased u32>` covariantly: rigid, well-kinded, same structure, and the
    constraints are `'static: '!1` (reference), `'!2: '!0` (covariant parameter in chalk's
    orientation) and both directions for the lifetime below the invariant parameter. -/
def exDb : UDb := { adtVariance := fun _ => [.co, .inv], fnDefVariance := fun _ => [] }
def exAr : TyName → Nat
  | .adt _ => 2
  | .tuple n => n
  | _ => 0
def exA : Ty := .ref false .static (.app (.adt 0) (.cons (.lt (.placeholder 0 0))
  (.cons (.ty (.ref false .static (.scalar 23))) .nil)))
def exB : Ty := .ref false (.placeholder 1 0) (.app (.adt 0) (.cons (.lt (.placeholder 2 0))
  (.cons (.ty (.ref false .erased (.scalar 23))) .nil)))

example : exDb.arityOk exAr := by
  intro n vs h
  cases n <;> simp [declaredVariances, exDb] at h <;> subst h <;> simp [exAr]
example : exA.rigid = true ∧ exB.rigid = true ∧ exA.arityOk exAr = true ∧ exB.arityOk exAr = true ∧
    exA.eraseLt = exB.eraseLt ∧ exA.depth = 4 := by decide
example : subConstraints exDb .co exA exB =
    [(.static, .placeholder 1 0), (.placeholder 2 0, .placeholder 0 0), (.static, .erased), (.erased, .static)] := by
  decide
example : relate exDb 0 4 Table.new .co exA exB = (Table.new, .ok (outlivesGoals (subConstraints exDb .co exA exB))) := by
  decide

end Chalk.C29

#print axioms Chalk.C29.xform_assoc
#print axioms Chalk.C29.xform_comm
#print axioms Chalk.C29.xform_invert
#print axioms Chalk.C29.xform_co
#print axioms Chalk.C29.xform_inv
#print axioms Chalk.C29.invert_invert
#print axioms Chalk.C29.invert_eq_xform_contra
#print axioms Chalk.C29.relate_variance_struct
#print axioms Chalk.C29.relate_variance_struct_ltvars
#print axioms Chalk.C29.relate_variance_constraints
#print axioms Chalk.C29.subConstraints_swap
#print axioms Chalk.C29.subConstraints_self
