/-
  C07 — associated types normalize to the value of the applicable impl.
  Oracle: the certified contract of C01/C02 on the clauses
      norm:A(x̄, value) :- impl where-clauses        aeq:A(x̄, u) :- norm:A(x̄, u)
      aeq:A(x̄, assocty:A(x̄))
  read off chalk's lowered Program.  Theorems: what the semantics of these clauses says.
-/
import ChalkModel.Lemmas.ContractLemmas
import ChalkModel.Props.C17

namespace Chalk.C07
open Chalk.Sem

/-- inversion: a fact of an inductive predicate without hypotheses comes from a clause instance
    whose conditions are facts (the least fixed point is a fixed point) -/
theorem holds_inv (P : Program) (a : Atom) (hind : P.coind a.pred = false) (h : Holds P [] a) :
    ViaClause P (Holds P []) a := by
  have key := h (fun x => IndStep P [] (Holds P []) x) (by
    intro x hx
    rcases hx with h1 | h1 | ⟨h1, h2⟩
    · exact Or.inl h1
    · exact Or.inr (Or.inl h1)
    · refine Or.inr (Or.inr ⟨h1, h2.mono ?_⟩)
      intro y hy X hX
      exact hX y (by
        rcases hy with g1 | g1 | ⟨g1, g2⟩
        · exact Or.inl g1
        · exact Or.inr (Or.inl g1)
        · exact Or.inr (Or.inr ⟨g1, g2.mono fun z hz => hz X hX⟩)))
  rcases key with h1 | ⟨h1, _⟩ | ⟨_, h2⟩
  · simp at h1
  · simp [hind] at h1
  · exact h2

/-- "inputs" of a normalization atom: all arguments but the last; "output": the last -/
def inputs : Tms → Tms
  | .nil => .nil
  | .cons _ .nil => .nil
  | .cons t ts => .cons t (inputs ts)
def output : Tms → Option Tm
  | .nil => none
  | .cons t .nil => some t
  | .cons _ ts => output ts

/-- coherence for the predicate `p`: two clause instances with the same inputs have the same output -/
def Functional (P : Program) (p : String) : Prop :=
  ∀ c1 ∈ P.clauses, ∀ c2 ∈ P.clauses, c1.head.pred = p → c2.head.pred = p →
    ∀ σ1 σ2 : Nat → Tm, inputs (c1.head.args.inst σ1) = inputs (c2.head.args.inst σ2) →
      output (c1.head.args.inst σ1) = output (c2.head.args.inst σ2)

/-- A projection has at most one normal form in a coherent program: any two solutions of
    `Normalize(proj -> U)` agree. -/
theorem normalize_unique (P : Program) (p : String) (hind : P.coind p = false) (hf : Functional P p)
    (a b : Atom) (ha : a.pred = p) (hb : b.pred = p) (hin : inputs a.args = inputs b.args)
    (h1 : Holds P [] a) (h2 : Holds P [] b) : output a.args = output b.args := by
  obtain ⟨c1, hc1, σ1, hs1, _⟩ := holds_inv P a (by rw [ha]; exact hind) h1
  obtain ⟨c2, hc2, σ2, hs2, _⟩ := holds_inv P b (by rw [hb]; exact hind) h2
  have e1 : c1.head.pred = p := by rw [← ha, ← hs1]; rfl
  have e2 : c2.head.pred = p := by rw [← hb, ← hs2]; rfl
  have a1 : a.args = c1.head.args.inst σ1 := by rw [← hs1]; rfl
  have b1 : b.args = c2.head.args.inst σ2 := by rw [← hs2]; rfl
  rw [a1, b1] at hin ⊢
  exact hf c1 hc1 c2 hc2 e1 e2 σ1 σ2 hin

/-- An `AliasEq` fact is the normalized value or the placeholder associated type — nothing else —
    when the `aeq` predicate is defined by exactly the two clauses above. -/
theorem aliasEq_sols (P : Program) (aeq : String) (cNorm cPh : Clause) (hind : P.coind aeq = false)
    (hdef : ∀ c ∈ P.clauses, c.head.pred = aeq → c = cNorm ∨ c = cPh)
    (a : Atom) (ha : a.pred = aeq) (h : Holds P [] a) :
    (∃ σ : Nat → Tm, cNorm.head.inst σ = a ∧ ∀ b ∈ cNorm.body, Holds P [] (b.inst σ)) ∨
    (∃ σ : Nat → Tm, cPh.head.inst σ = a) := by
  obtain ⟨c, hc, σ, hs, hb⟩ := holds_inv P a (by rw [ha]; exact hind) h
  have e : c.head.pred = aeq := by rw [← ha, ← hs]; rfl
  rcases hdef c hc e with rfl | rfl
  · exact Or.inl ⟨σ, hs, hb⟩
  · exact Or.inr ⟨σ, hs⟩

/-- With equal inputs the high-priority (impl) solution wins over the low-priority (placeholder)
    one in the recursive solver's combination — so a unique answer to an `AliasEq` goal is the value. -/
theorem withPriorities_prefers_high (goal : DomainGoal) (hi lo : Solution) (i : List Ty)
    (h1 : calculateInputs goal hi = .ok i) (h2 : calculateInputs goal lo = .ok i) :
    withPriorities goal hi true lo false = .ok (hi, true) ∧
    withPriorities goal lo false hi true = .ok (hi, true) :=
  Chalk.C17.withPriorities_prefers_high goal hi lo i h1 h2

/-- Certification of closed goals and of answers with unknowns is that of C02 / C01. -/
theorem decide_yes (P : Program) (fuel : Nat) (g : Goal) (h : evalGoal P fuel [] g = .yes) : GHolds P [] g :=
  (evalGoal_sound P fuel g []).1 h
theorem decide_no (P : Program) (fuel : Nat) (g : Goal) (h : evalGoal P fuel [] g = .no) : ¬ GHolds P [] g :=
  (evalGoal_sound P fuel g []).2 h

/-- Non-vacuity: `impl<T> Tr for V<T> { type A = W<T>; }`: the normal form of `<V<u32> as Tr>::A`
    is certified to be `W<u32>`, and `W<bool>` is refuted. -/
def demo : Program :=
  ⟨[⟨⟨"norm:A", .cons (.app "V" (.cons (.var 0) .nil)) (.cons (.app "W" (.cons (.var 0) .nil)) .nil)⟩, []⟩], fun _ => false⟩
example : evalGoal demo 5 [] (.atom ⟨"norm:A", .cons (.app "V" (.cons (.app "u32" .nil) .nil))
    (.cons (.app "W" (.cons (.app "u32" .nil) .nil)) .nil)⟩) = .yes := by rfl
example : evalGoal demo 5 [] (.atom ⟨"norm:A", .cons (.app "V" (.cons (.app "u32" .nil) .nil))
    (.cons (.app "W" (.cons (.app "bool" .nil) .nil)) .nil)⟩) = .no := by rfl

end Chalk.C07

#print axioms Chalk.C07.holds_inv
#print axioms Chalk.C07.normalize_unique
#print axioms Chalk.C07.aliasEq_sols
#print axioms Chalk.C07.withPriorities_prefers_high
#print axioms Chalk.C07.decide_yes
#print axioms Chalk.C07.decide_no
