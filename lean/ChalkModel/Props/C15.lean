/-
  C15 — failed unification leaves inference state untouched; the order of the two types never
  changes whether unification succeeds.

  Model: `relate` (`ChalkModel/Unify.lean`) = `InferenceTable::relate` with its
  `snapshot` / `rollback_to` / `commit`; the model's table carries the union-find state, the
  values and `max_universe`, and `rollback_to` restores all of it (ena's own rollback is external
  code: assumed to restore the union-find, validated by the correspondence runs, which re-take
  every observation after each failed relate).
-/
import ChalkModel.Lemmas.UnifyRigidSymm
import ChalkModel.Lemmas.UnifyRigidLt

namespace Chalk.C15

/-- A failing `relate` returns the table it was given — as a whole record (parents, ranks, values,
    `max_universe`), not just observably. All tables, variances, types, fuels. -/
theorem relate_fail_state (db : UDb) (jf fuel : Nat) (t t1 : Table) (v : Variance) (a b : Ty)
    (h : relate db jf fuel t v a b = (t1, .noSolution)) : t1 = t := by
  unfold relate at h
  split at h <;> simp_all [Table.rollbackTo, Table.snapshot]

/-- The same for every outcome that is not success. -/
theorem relate_not_ok_state (db : UDb) (jf fuel : Nat) (t : Table) (v : Variance) (a b : Ty)
    (h : ∀ gs, (relate db jf fuel t v a b).2 ≠ .ok gs) : (relate db jf fuel t v a b).1 = t := by
  unfold relate at h ⊢
  split <;> simp_all [Table.rollbackTo, Table.snapshot]

/- `Succeeds r := ∃ gs, r.2 = .ok gs` (`Lemmas/UnifyRigidLt.lean`): `relate` succeeded -/

/-- The order of the two types never changes whether unification succeeds — proved on the rigid
    fragment (`Ty.rigid`, `Lemmas/UnifyDefs.lean`: no inference variables of any sort, no bound
    variables, no aliases, no `dyn`, no error type, fn pointers without binders; lifetimes are
    `'static`, placeholders, erased, error), for well-kinded types, every table, every pair of
    variances — in particular inv/inv and co/contra — and every fuel that covers the depth of the
    types. (With inference variables the two orders take different paths through the union-find;
    that case is checked differentially on the real code.) -/
theorem relate_symm (db : UDb) (ar : TyName → Nat) (hdb : db.arityOk ar) (jf fuel : Nat)
    (t : Table) (v v' : Variance) (a b : Ty)
    (ha : a.rigid = true) (hb : b.rigid = true) (haa : a.arityOk ar = true) (hab : b.arityOk ar = true)
    (hda : a.depth ≤ fuel) (hdb' : b.depth ≤ fuel) :
    Succeeds (relate db jf fuel t v a b) ↔ Succeeds (relate db jf fuel t v' b a) := by
  have h1 := relateTy_rigid db ar hdb jf fuel v a b { table := t, goals := [] } ha hb haa hab hda
  have h2 := relateTy_rigid db ar hdb jf fuel v' b a { table := t, goals := [] } hb ha hab haa hdb'
  by_cases he : a.eraseLt = b.eraseLt
  · have he' : b.eraseLt = a.eraseLt := he.symm
    simp only [he, if_true] at h1
    simp only [he', if_true] at h2
    constructor <;> intro _
    · exact ⟨_, by simp [relate, h2]; rfl⟩
    · exact ⟨_, by simp [relate, h1]; rfl⟩
  · have he' : ¬ b.eraseLt = a.eraseLt := fun h => he h.symm
    simp only [he, if_false] at h1
    simp only [he', if_false] at h2
    constructor <;> intro ⟨gs, hg⟩
    · simp [relate, h1] at hg
    · simp [relate, h2] at hg

theorem relate_symm_inv (db : UDb) (ar : TyName → Nat) (hdb : db.arityOk ar) (jf fuel : Nat)
    (t : Table) (a b : Ty)
    (ha : a.rigid = true) (hb : b.rigid = true) (haa : a.arityOk ar = true) (hab : b.arityOk ar = true)
    (hda : a.depth ≤ fuel) (hdb' : b.depth ≤ fuel) :
    Succeeds (relate db jf fuel t .inv a b) ↔ Succeeds (relate db jf fuel t .inv b a) :=
  relate_symm db ar hdb jf fuel t .inv .inv a b ha hb haa hab hda hdb'

theorem relate_symm_co_contra (db : UDb) (ar : TyName → Nat) (hdb : db.arityOk ar) (jf fuel : Nat)
    (t : Table) (a b : Ty)
    (ha : a.rigid = true) (hb : b.rigid = true) (haa : a.arityOk ar = true) (hab : b.arityOk ar = true)
    (hda : a.depth ≤ fuel) (hdb' : b.depth ≤ fuel) :
    Succeeds (relate db jf fuel t .co a b) ↔ Succeeds (relate db jf fuel t .contra b a) :=
  relate_symm db ar hdb jf fuel t .co .contra a b ha hb haa hab hda hdb'

/-- On the rigid fragment the two orders also return the same obligations, up to order. -/
theorem relate_symm_goals (db : UDb) (ar : TyName → Nat) (hdb : db.arityOk ar) (jf fuel : Nat)
    (t : Table) (v : Variance) (a b : Ty)
    (ha : a.rigid = true) (hb : b.rigid = true) (haa : a.arityOk ar = true) (hab : b.arityOk ar = true)
    (hda : a.depth ≤ fuel) (hdb' : b.depth ≤ fuel) (he : a.eraseLt = b.eraseLt) :
    ∃ g1 g2, relate db jf fuel t v a b = (t, .ok g1) ∧ relate db jf fuel t v.invert b a = (t, .ok g2) ∧
      g2.Perm g1 :=
  relate_swap_goals db ar hdb jf fuel t v a b ha hb haa hab hda hdb' he

/-- The same with LIFETIME inference variables allowed (`Ty.rigidT`, `Lemmas/UnifyRigidLt.lean`: as
    `rigid`, but lifetimes may be variables; still no type / const variables), on every well-formed
    table in which each lifetime variable of the two types is unbound or bound to a rigid lifetime
    (`LtVarOk`; what `relate` itself produces) — here the table does change (variables are unified
    or bound), differently for the two orders, and success still does not depend on the order. -/
theorem relate_symm_ltvars (db : UDb) (ar : TyName → Nat) (hdb : db.arityOk ar) (jf fuel : Nat)
    (t : Table) (v v' : Variance) (a b : Ty) (hwf : t.WF)
    (har : a.rigidT = true) (hbr : b.rigidT = true)
    (hSa : ∀ x ∈ a.ltVars, LtVarOk t x) (hSb : ∀ x ∈ b.ltVars, LtVarOk t x)
    (haa : a.arityOk ar = true) (hab : b.arityOk ar = true) (hda : a.depth ≤ fuel) (hdb' : b.depth ≤ fuel) :
    Succeeds (relate db jf fuel t v a b) ↔ Succeeds (relate db jf fuel t v' b a) :=
  relate_rigidT_swap db ar hdb jf fuel (fun x => LtVarOk t x) t v v' a b hwf (fun _ h => h) har hbr hSa hSb
    haa hab hda hdb'

/-- Non-vacuity: a rigid, well-kinded pair on which `relate` fails (different mutability below a
    tuple) and one on which it succeeds with obligations; the failing one returns the table. -/
def exAr : TyName → Nat
  | .tuple n => n
  | _ => 0
def exDb : UDb := { adtVariance := fun _ => [], fnDefVariance := fun _ => [] }
def exA : Ty := .app (.tuple 1) (.cons (.ty (.ref false .static (.scalar 23))) .nil)
def exB : Ty := .app (.tuple 1) (.cons (.ty (.ref true .static (.scalar 23))) .nil)
def exC : Ty := .app (.tuple 1) (.cons (.ty (.ref false (.placeholder 1 0) (.scalar 23))) .nil)
example : exA.rigid = true ∧ exB.rigid = true ∧ exC.rigid = true ∧ exA.arityOk exAr = true ∧
    exB.arityOk exAr = true ∧ exC.arityOk exAr = true ∧ exA.depth = 3 := by decide
example : exDb.arityOk exAr := by
  intro n vs h
  cases n <;> simp [declaredVariances, exDb] at h <;> subst h <;> simp [exAr]
example : relate exDb 0 3 (Table.new.newVariable 0).1 .inv exA exB = ((Table.new.newVariable 0).1, .noSolution) := by decide
example : relate exDb 0 3 Table.new .co exA exC = (Table.new, .ok [.outlives .static (.placeholder 1 0)]) := by decide
example : relate exDb 0 3 Table.new .contra exC exA = (Table.new, .ok [.outlives .static (.placeholder 1 0)]) := by decide
/-- with a lifetime variable: `(&'?0 u32,)` against `(&'static u32,)` invariantly binds `'?0 := 'static`
    in one order and in the other -/
def exT1 : Table := (Table.new.newVariable 0).1
def exD : Ty := .app (.tuple 1) (.cons (.ty (.ref false (.infer 0) (.scalar 23))) .nil)
example : exD.rigidT = true ∧ exD.ltVars = [0] ∧ exD.arityOk exAr = true := by decide
example : exT1.WF ∧ LtVarOk exT1 0 := ⟨Table.newVariable_WF _ _ Table.new_WF, by decide, Or.inl (by decide)⟩
example : (relate exDb 0 3 exT1 .inv exD exA).2 = .ok [] ∧ (relate exDb 0 3 exT1 .inv exA exD).2 = .ok [] ∧
    (relate exDb 0 3 exT1 .inv exD exA).1.probeVar 0 = some (.lt .static) := by decide

end Chalk.C15

#print axioms Chalk.C15.relate_fail_state
#print axioms Chalk.C15.relate_not_ok_state
#print axioms Chalk.C15.relate_symm
#print axioms Chalk.C15.relate_symm_inv
#print axioms Chalk.C15.relate_symm_co_contra
#print axioms Chalk.C15.relate_symm_goals
#print axioms Chalk.C15.relate_symm_ltvars
