/-
  C14 — unification is sound (and computes most general unifiers).

  Model: `relate` (`ChalkModel/Unify.lean`) on the inference table of `ChalkModel/Infer.lean`.
  Proved here, for the INVARIANT relation on the FIRST-ORDER fragment `Ty.fo`
  (`Lemmas/UnifyDefs.lean`): applied names over type arguments (ADTs, tuples, fn defs, closures,
  ...), slices, raw pointers, scalars, `str`, `!`, foreign types, placeholders of every universe
  and type variables of the three kinds (general / integer / float) created in any universe — no
  lifetimes, constants, references, aliases, `dyn`, fn pointers. Types are well-kinded against an
  arity table (`arityOk`; `zip_substs` truncates to the shorter argument list, so without it the
  statement is false — the counterexample is proved in `Lemmas/UnifySound.lean`).

  A table is described by its solutions: `t.Models θ` (`θ : Nat → Ty` gives all variables of one
  class one image, and a variable bound to a type the image of that type).
    `relate_sound`    on success no goals are returned and EVERY solution of the resulting table
                      equates the two types.
    `relate_extends`  the resulting table refines the given one: every solution of it is a solution
                      of the old table, variables that were bound keep their values, classes only
                      merge, no variable disappears, no universe is created; and the invariants
                      (`TableOk`) that the theorems assume hold again — so the theorems apply
                      after any history of successful (or failed: C15) relates starting from
                      `Table.new`, `new_variable`, `new_universe` (`tableOk_new`, `tableOk_newVariable`,
                      `tableOk_newUniverse`).
    `relate_acyclic`  (occurs check) under a kind discipline `κ` (every variable is written with one
                      kind, `Table.Kinded` / `Ty.kinded`, `Lemmas/UnifyKinded.lean`) an acyclic table
                      (`Table.Ranked`: some strict ranking of the classes decreases from every bound
                      variable to the variables of its value) stays acyclic and kinded. Without the
                      discipline this is false of the code's table operations (`?0:general` against
                      `?0:integer` binds `?0 := ?0`; both counterexamples are proved in
                      `Lemmas/UnifyAcyclic.lean`).
    `ranked_canon`    an acyclic table HAS a solution: its full resolution `canon N` (stable from some
                      depth `N` on) — so `relate_sound` is not vacuous.
    `relate_sound_resolve`  the syntactic form: from some depth on, fully resolving `a` and `b`
                      through the resulting table (`Table.resolve`: bound variables replaced by
                      their resolved values, unbound ones by the root of their class) gives EQUAL types.
  NOT proved here (checked differentially on the real code by the harness on every run):
  that the result is a MOST GENERAL unifier and that failure implies that no unifier exists
  (`relate_mgu`, `relate_complete` of the design), and the universe discipline
  (`relate_universe_ok`).
-/
import ChalkModel.Lemmas.UnifyAcyclic

namespace Chalk.C14

/-- the invariants of a table of first-order, well-kinded values -/
def TableOk (ar : TyName → Nat) (t : Table) : Prop := t.WF ∧ t.foValues ∧ t.arityValues ar

theorem tableOk_new (ar : TyName → Nat) : TableOk ar Table.new :=
  ⟨Table.new_WF, Table.new_foValues, Table.new_arityValues ar⟩

theorem tableOk_newVariable (ar : TyName → Nat) (t : Table) (ui : Nat) (h : TableOk ar t) :
    TableOk ar (t.newVariable ui).1 :=
  ⟨Table.newVariable_WF _ _ h.1, Table.newVariable_foValues _ _ h.1 h.2.1,
   Table.newVariable_arityValues _ _ _ h.1 h.2.2⟩

theorem tableOk_newUniverse (ar : TyName → Nat) (t : Table) (h : TableOk ar t) :
    TableOk ar t.newUniverse.1 :=
  ⟨Table.newUniverse_WF _ h.1, Table.newUniverse_foValues _ h.2.1, Table.newUniverse_arityValues _ _ h.2.2⟩

/-- what `relateTy_sound` gives for `relate` itself -/
theorem relate_unfold (db : UDb) (jf fuel : Nat) (t t' : Table) (a b : Ty) (gs : List UGoal)
    (h : relate db jf fuel t .inv a b = (t', .ok gs)) :
    ∃ st', relateTy db jf fuel .inv a b { table := t, goals := [] } = .ok st' ∧ st'.table = t' ∧
      gs = st'.goals.filter (retainGoal st'.table) := by
  unfold relate at h
  split at h <;> simp_all
  obtain ⟨h1, h2⟩ := h
  subst h1
  exact h2.symm

/-- SOUNDNESS: a successful invariant `relate` of two first-order types returns no obligations, and
    every solution of the resulting table makes the two types equal. -/
theorem relate_sound (db : UDb) (ar : TyName → Nat) (jf fuel : Nat) (t t' : Table) (a b : Ty)
    (gs : List UGoal) (ht : TableOk ar t)
    (ha : a.fo = true) (hb : b.fo = true)
    (hav : a.varsBelow t.numVars = true) (hbv : b.varsBelow t.numVars = true)
    (haa : a.arityOk ar = true) (hba : b.arityOk ar = true)
    (h : relate db jf fuel t .inv a b = (t', .ok gs)) :
    gs = [] ∧ ∀ θ, t'.Models θ → a.applyAsg θ = b.applyAsg θ := by
  obtain ⟨st', hr, rfl, rfl⟩ := relate_unfold db jf fuel t _ a b gs h
  have := relateTy_sound db jf ar fuel a b { table := t, goals := [] } st' ht.1 ht.2.1 ht.2.2 ha hb hav hbv haa hba hr
  refine ⟨by simp [this.2.2.2.1], fun θ hm => (this.2.2.2.2.2.2.1 θ hm).2⟩

/-- EXTENSION: the resulting table refines the given one and satisfies the invariants again. -/
theorem relate_extends (db : UDb) (ar : TyName → Nat) (jf fuel : Nat) (t t' : Table) (a b : Ty)
    (gs : List UGoal) (ht : TableOk ar t)
    (ha : a.fo = true) (hb : b.fo = true)
    (hav : a.varsBelow t.numVars = true) (hbv : b.varsBelow t.numVars = true)
    (haa : a.arityOk ar = true) (hba : b.arityOk ar = true)
    (h : relate db jf fuel t .inv a b = (t', .ok gs)) :
    TableOk ar t' ∧
    t.numVars ≤ t'.numVars ∧ t'.maxUniverse = t.maxUniverse ∧
    (∀ θ, t'.Models θ → t.Models θ) ∧
    (∀ v g, v < t.numVars → t.probeVar v = some g → t'.probeVar v = some g) ∧
    (∀ x y, x < t.numVars → y < t.numVars → t.find x = t.find y → t'.find x = t'.find y) := by
  obtain ⟨st', hr, rfl, rfl⟩ := relate_unfold db jf fuel t _ a b gs h
  have := relateTy_sound db jf ar fuel a b { table := t, goals := [] } st' ht.1 ht.2.1 ht.2.2 ha hb hav hbv haa hba hr
  exact ⟨⟨this.1, this.2.1, this.2.2.1⟩, this.2.2.2.2.1, this.2.2.2.2.2.1,
    fun θ hm => (this.2.2.2.2.2.2.1 θ hm).1, this.2.2.2.2.2.2.2.1, this.2.2.2.2.2.2.2.2⟩

/-- the further invariants for the syntactic form: acyclic, and every variable used at one kind -/
def TableOk2 (ar : TyName → Nat) (κ : Nat → TyVarKind) (t : Table) : Prop :=
  TableOk ar t ∧ t.Ranked ∧ t.Kinded κ

theorem tableOk2_new (ar : TyName → Nat) : TableOk2 ar (fun _ => .general) Table.new :=
  ⟨tableOk_new ar, Table.new_Ranked, Table.new_Kinded⟩

/-- a new variable may be declared with any kind -/
theorem tableOk2_newVariable (ar : TyName → Nat) (κ : Nat → TyVarKind) (t : Table) (ui : Nat) (k : TyVarKind)
    (h : TableOk2 ar κ t) :
    TableOk2 ar (fun v => if v = t.numVars then k else κ v) (t.newVariable ui).1 :=
  ⟨tableOk_newVariable ar t ui h.1, Table.newVariable_Ranked t ui h.1.1 h.2.1,
   Table.newVariable_Kinded κ t ui k h.1.1 h.1.2.1 h.2.2⟩

theorem tableOk2_newUniverse (ar : TyName → Nat) (κ : Nat → TyVarKind) (t : Table) (h : TableOk2 ar κ t) :
    TableOk2 ar κ t.newUniverse.1 :=
  ⟨tableOk_newUniverse ar t h.1, Table.newUniverse_Ranked t h.2.1, Table.newUniverse_Kinded κ t h.2.2⟩

/-- OCCURS CHECK: acyclicity (and the kind discipline) survive a successful relate. -/
theorem relate_acyclic (db : UDb) (ar : TyName → Nat) (κ : Nat → TyVarKind) (jf fuel : Nat) (t t' : Table)
    (a b : Ty) (gs : List UGoal) (ht : TableOk2 ar κ t)
    (ha : a.fo = true) (hb : b.fo = true)
    (hav : a.varsBelow t.numVars = true) (hbv : b.varsBelow t.numVars = true)
    (haa : a.arityOk ar = true) (hba : b.arityOk ar = true)
    (hka : a.kinded κ = true) (hkb : b.kinded κ = true)
    (h : relate db jf fuel t .inv a b = (t', .ok gs)) : TableOk2 ar κ t' := by
  obtain ⟨st', hr, rfl, rfl⟩ := relate_unfold db jf fuel t _ a b gs h
  have h1 := relateTy_sound db jf ar fuel a b { table := t, goals := [] } st' ht.1.1 ht.1.2.1 ht.1.2.2 ha hb hav hbv haa hba hr
  have h2 := relateTy_ranked db jf ar κ fuel a b { table := t, goals := [] } st' ht.1.1 ht.1.2.1 ht.1.2.2 ha hb hav hbv
    haa hba ht.2.2 hka hkb ht.2.1 hr
  exact ⟨⟨h1.1, h1.2.1, h1.2.2.1⟩, h2.1, h2.2⟩

/-- An acyclic table has a solution: its full resolution, which is stable from some depth on. -/
theorem ranked_canon (ar : TyName → Nat) (κ : Nat → TyVarKind) (t : Table) (h : TableOk2 ar κ t) :
    ∃ N, t.Models (t.canon N) ∧ ∀ n, N ≤ n → ∀ v, v < t.numVars → t.canon n v = t.canon N v :=
  Table.ranked_canon t h.1.1 h.1.2.1 h.2.1

/-- SOUNDNESS, syntactic form: from some depth on, fully resolving the two types through the
    resulting table gives equal types. -/
theorem relate_sound_resolve (db : UDb) (ar : TyName → Nat) (κ : Nat → TyVarKind) (jf fuel : Nat) (t t' : Table)
    (a b : Ty) (gs : List UGoal) (ht : TableOk2 ar κ t)
    (ha : a.fo = true) (hb : b.fo = true)
    (hav : a.varsBelow t.numVars = true) (hbv : b.varsBelow t.numVars = true)
    (haa : a.arityOk ar = true) (hba : b.arityOk ar = true)
    (hka : a.kinded κ = true) (hkb : b.kinded κ = true)
    (h : relate db jf fuel t .inv a b = (t', .ok gs)) :
    ∃ N, ∀ n, N ≤ n → t'.resolve n a = t'.resolve n b := by
  obtain ⟨st', hr, rfl, rfl⟩ := relate_unfold db jf fuel t _ a b gs h
  exact relateTy_sound_resolve db jf ar κ fuel a b { table := t, goals := [] } st' ht.1.1 ht.1.2.1 ht.1.2.2 ha hb hav hbv
    haa hba ht.2.2 hka hkb ht.2.1 hr

/-! ## non-vacuity -/

def exDb : UDb := { adtVariance := fun _ => [.inv], fnDefVariance := fun _ => [] }
def exAr : TyName → Nat := fun _ => 1
/-- two variables in universe 0 and 1; `Adt0<?0>` against `Adt0<*const ?1>` -/
def exT : Table := ((Table.new.newUniverse.1.newVariable 0).1.newVariable 1).1
def exA : Ty := .app (.adt 0) (.cons (.ty (.infer 0 .general)) .nil)
def exB : Ty := .app (.adt 0) (.cons (.ty (.raw false (.infer 1 .general))) .nil)

example : TableOk exAr exT :=
  tableOk_newVariable _ _ _ (tableOk_newVariable _ _ _ (tableOk_newUniverse _ _ (tableOk_new _)))
/-- ... and it is acyclic and kinded for a discipline under which both variables are general -/
example : ∃ κ, TableOk2 exAr κ exT ∧ exA.kinded κ = true ∧ exB.kinded κ = true :=
  ⟨_, tableOk2_newVariable _ _ _ _ .general (tableOk2_newVariable _ _ _ _ .general
        (tableOk2_newUniverse _ _ _ (tableOk2_new _))), by decide, by decide⟩
example : exA.fo = true ∧ exB.fo = true ∧ exA.varsBelow exT.numVars = true ∧
    exB.varsBelow exT.numVars = true ∧ exA.arityOk exAr = true ∧ exB.arityOk exAr = true := by decide
/-- the relate succeeds: `?0 := *const ?2` for a fresh `?2` unified with `?1` (generalization below
    `*const`), and `?1` is promoted to universe 0 -/
example : ∃ t', relate exDb 4 4 exT .inv exA exB = (t', .ok []) ∧
    t'.probeVar 0 = some (.ty (.raw false (.infer 2 .general))) ∧ t'.find 2 = t'.find 1 ∧
    t'.probeValue 1 = .unbound 0 := by
  refine ⟨_, rfl, ?_⟩
  decide

end Chalk.C14

#print axioms Chalk.C14.tableOk_new
#print axioms Chalk.C14.tableOk_newVariable
#print axioms Chalk.C14.tableOk_newUniverse
#print axioms Chalk.C14.relate_unfold
#print axioms Chalk.C14.relate_sound
#print axioms Chalk.C14.relate_extends
#print axioms Chalk.C14.tableOk2_new
#print axioms Chalk.C14.tableOk2_newVariable
#print axioms Chalk.C14.tableOk2_newUniverse
#print axioms Chalk.C14.relate_acyclic
#print axioms Chalk.C14.ranked_canon
#print axioms Chalk.C14.relate_sound_resolve
