/-
  C04 — the two solvers never contradict each other.
-/
import ChalkModel.Compat
import ChalkModel.Lemmas.ContractLemmas

namespace Chalk.C04
open Chalk.Sem

/-- If two answers both meet their contract for the same solution set — whatever that set is —
    then the comparator accepts the pair.  Hence an incompatible pair certifies that at least one
    solver violates C01's contract, with no reference semantics involved. -/
theorem compatible_of_contracts (S : List Tm → Prop) (a b : Answer)
    (ha : Contract S a) (hb : Contract S b) : compatible a b = true := by
  cases a <;> cases b <;> simp only [Contract] at ha hb <;> simp only [compatible]
  all_goals first
    | rfl
    | exact absurd ha id
    | exact absurd hb id
    | skip
  · -- none / unique
    rename_i σ; exact absurd (hb.1 genericSubst) (ha _)
  · rename_i σ; exact absurd (ha.1 genericSubst) (hb _)
  · -- unique / unique
    rename_i σ τ
    simp only [Bool.and_eq_true]
    exact ⟨hb.2 _ (ha.1 genericSubst), ha.2 _ (hb.1 genericSubst)⟩
  · -- unique / definite
    rename_i σ γ; exact hb _ (ha.1 genericSubst)
  · rename_i γ σ; exact ha _ (hb.1 genericSubst)

theorem compatible_symm (a b : Answer) : compatible a b = compatible b a := by
  cases a <;> cases b <;> simp [compatible, Bool.and_comm]

/-- The executable instance test decides "θ is an instance of σ". -/
theorem instance_decides (σ θ : List Tm) :
    isInstance σ θ = true ↔ ∃ τ : Nat → Tm, σ.map (Tm.inst τ) = θ := by
  constructor
  · intro h
    simp only [isInstance, Option.isSome_iff_exists] at h
    obtain ⟨σ', hm⟩ := h
    obtain ⟨_, _, hi⟩ := matchTms_sound (tmsOfList σ) (tmsOfList θ) [] σ' hm
    refine ⟨σ'.toFun, ?_⟩
    have : tmsOfList (σ.map (Tm.inst σ'.toFun)) = tmsOfList θ := by rw [tmsOfList_map_inst]; exact hi
    exact tmsOfList_inj _ _ this
  · rintro ⟨τ, h⟩
    cases hi : isInstance σ θ with
    | true => rfl
    | false => exact absurd h (not_instance_of_isInstance_false hi τ)

/-- Non-vacuity: contracts are satisfiable by a non-trivial solution set and answer. -/
example : Contract (fun θ => ∃ t, θ = [Tm.app "V" (.cons t .nil)]) (.unique [Tm.app "V" (.cons (.var 0) .nil)]) := by
  constructor
  · intro τ; exact ⟨τ 0, by simp [Tm.inst, Tms.inst]⟩
  · rintro θ ⟨t, rfl⟩
    exact (instance_decides _ _).mpr ⟨fun _ => t, by simp [Tm.inst, Tms.inst]⟩

end Chalk.C04

#print axioms Chalk.C04.compatible_of_contracts
#print axioms Chalk.C04.compatible_symm
#print axioms Chalk.C04.instance_decides
