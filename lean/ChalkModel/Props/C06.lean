/-
  C06 — hypotheses and implied bounds yield exactly their consequences.
  The oracle is the certified Stage-A evaluator on the Horn program consisting of the impl clauses
  plus, for every trait `Tr<P̄>` with where-clauses `W̄` (supertraits `Self: Sup`, bounds on its own
  parameters), the *environment clauses*
        Tr(x̄)      :- env:Tr(x̄)            (a hypothesis can be used)
        env:W(x̄)   :- env:Tr(x̄)            (a hypothesis implies the trait's where-clauses)
  with hypotheses `if (T: Tr)` entering as `env:Tr(T)`.  Implied bounds thus follow only from
  hypotheses (never from impls), and only inside the scope of the `if`.
-/
import ChalkModel.Lemmas.GoalLemmas
import ChalkModel.OpsSem

namespace Chalk.C06
open Chalk.Sem

def envPred (p : String) : String := "env:" ++ p

/-- the two kinds of environment clauses for a trait head `h` (over variables) with where-clause `w` -/
def useHyp (h : Atom) : Clause := ⟨h, [⟨envPred h.pred, h.args⟩]⟩
def implied (h w : Atom) : Clause := ⟨⟨envPred w.pred, w.args⟩, [⟨envPred h.pred, h.args⟩]⟩

/-- a hypothesis is a fact of its scope -/
theorem hypothesis_holds (P : Program) (Γ : List Atom) (a : Atom) (h : a ∈ Γ) : Holds P Γ a :=
  fun _ hX => hX a (Or.inl h)

/-- …and can be used to prove the trait predicate itself (inductive traits) -/
theorem hypothesis_usable (P : Program) (Γ : List Atom) (hd : Atom) (σ : Nat → Tm)
    (hc : useHyp hd ∈ P.clauses) (hind : P.coind hd.pred = false)
    (hh : (⟨envPred hd.pred, hd.args⟩ : Atom).inst σ ∈ Γ) : Holds P Γ (hd.inst σ) := by
  intro X hX
  refine hX _ (Or.inr (Or.inr ⟨by simpa [Atom.inst] using hind, useHyp hd, hc, σ, rfl, ?_⟩))
  intro b hb
  simp only [useHyp, List.mem_singleton] at hb
  subst hb
  exact hX _ (Or.inl hh)

/-- a hypothesis `env:Tr(σ x̄)` implies each where-clause of `Tr` as a hypothesis-level fact
    (so the closure under supertraits — diamonds and cycles included — is the least fixed point) -/
theorem implied_bound (P : Program) (Γ : List Atom) (hd w : Atom) (σ : Nat → Tm)
    (hc : implied hd w ∈ P.clauses) (hind : P.coind (envPred w.pred) = false)
    (hh : Holds P Γ ((⟨envPred hd.pred, hd.args⟩ : Atom).inst σ)) :
    Holds P Γ ((⟨envPred w.pred, w.args⟩ : Atom).inst σ) := by
  intro X hX
  refine hX _ (Or.inr (Or.inr ⟨by simpa [Atom.inst] using hind, implied hd w, hc, σ, rfl, ?_⟩))
  intro b hb
  simp only [implied, List.mem_singleton] at hb
  subst hb
  exact hh X hX

/-- Scoping: hypotheses are visible exactly inside their `if`; a sibling goal outside sees none. -/
theorem hypotheses_scoped (P : Program) (Γ hyps : List Atom) (g g' : Goal) :
    GHolds P Γ (.and (.implies hyps g) g') ↔ (GHolds P (hyps ++ Γ) g ∧ GHolds P Γ g') := Iff.rfl

/-- More hypotheses never destroy a proof of an atom (monotonicity of the inductive stratum in Γ,
    for programs without coinductive predicates). -/
theorem holds_mono_hyps (P : Program) (hP : ∀ p, P.coind p = false) (Γ Δ : List Atom) (hsub : ∀ a, a ∈ Γ → a ∈ Δ)
    (a : Atom) (h : Holds P Γ a) : Holds P Δ a := by
  intro X hX
  apply h X
  intro x hx
  apply hX x
  rcases hx with h1 | ⟨h1, _⟩ | h1
  · exact Or.inl (hsub x h1)
  · simp [hP] at h1
  · exact Or.inr (Or.inr h1)

/-- Certification of answers (as C02). -/
theorem decide_yes (P : Program) (fuel : Nat) (Γ : List Atom) (g : Goal)
    (h : evalGoal P fuel Γ g = .yes) : GHolds P Γ g := (evalGoal_sound P fuel g Γ).1 h
theorem decide_no (P : Program) (fuel : Nat) (Γ : List Atom) (g : Goal)
    (h : evalGoal P fuel Γ g = .no) : ¬ GHolds P Γ g := (evalGoal_sound P fuel g Γ).2 h

/-- Non-vacuity: `trait Ord where Self: Eq`; under `X: Ord`, `X: Eq` is certified; outside the `if`
    it is refuted. -/
def demo : Program :=
  ⟨[useHyp ⟨"Ord", .cons (.var 0) .nil⟩, useHyp ⟨"Eq", .cons (.var 0) .nil⟩,
    implied ⟨"Ord", .cons (.var 0) .nil⟩ ⟨"Eq", .cons (.var 0) .nil⟩], fun _ => false⟩
example : evalGoal demo 10 [] (.implies [⟨"env:Ord", .cons (.app "!f1" .nil) .nil⟩]
    (.atom ⟨"Eq", .cons (.app "!f1" .nil) .nil⟩)) = .yes := by rfl
example : evalGoal demo 10 [] (.atom ⟨"Eq", .cons (.app "!f1" .nil) .nil⟩) = .no := by rfl

end Chalk.C06

#print axioms Chalk.C06.hypothesis_holds
#print axioms Chalk.C06.hypothesis_usable
#print axioms Chalk.C06.implied_bound
#print axioms Chalk.C06.hypotheses_scoped
#print axioms Chalk.C06.holds_mono_hyps
#print axioms Chalk.C06.decide_yes
#print axioms Chalk.C06.decide_no
