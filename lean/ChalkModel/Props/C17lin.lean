/-
  C17lin — results of the anti-unifier are LINEAR, and for a linear pattern the structural instance
  relation `genOf` of C17/C17ms IS the instance relation.  Closes the gap left by
  `C17ms.definite_guidance_covers_every_answer_partial` for every guidance that went through at
  least one `merge_into_guidance`.
  Helper lemmas and definitions: `Lemmas/AuLinearLemmas.lean`
    `vars0 t`     the pattern variables `^0.i` of `t`, left to right, at the positions the
                  anti-unifier looks at (arguments of `app/proj/opaque`, `slice`, `raw`, `ref`, `array`;
                  `dyn`, `function`, the TYPES of constants are leaves — `auTy`/`auConst` never enter them);
    `Linear t`    `(vars0 t).Nodup`;
    `top0 t`      every pattern variable at those positions has de Bruijn depth 0;
    `ctAgree r t` where `r` and `t` run in parallel and `r` has a non-variable constant, the two
                  constants carry the SAME type and it has no free bound variable.  This is needed:
                  `Const.genOf`, `aggregate_consts` and `auConst` never compare / aggregate constant types
                  (see the two `…_refuted` theorems below for what happens without it).  Answers to one
                  well-typed query satisfy it (constant types are closed scalar types).
-/
import ChalkModel.Lemmas.AuLinearLemmas
import ChalkModel.Props.C17ms

namespace Chalk.C17lin

/-! ## 1. linearity of the anti-unifier -/

/-- `AntiUnifier::aggregate_tys`: the variables of the result are exactly the indices created by
    this call (`st.length … st'.length - 1`), each once, left to right, all at depth 0. -/
theorem auTy_linear (u : Nat) (t1 t2 r : Ty) (st st' : AuSt) (h : auTy u t1 t2 st = .ok (r, st')) :
    r.vars0 = List.range' st.length (st'.length - st.length) ∧ st.length ≤ st'.length ∧
      r.Linear ∧ r.top0 = true := by
  obtain ⟨a1, a2, _⟩ := auTy_spec u t1 t2 st r st' h
  exact ⟨a1.2, a1.1, a1.nodup, a2⟩

/-- the same for `aggregate_name_and_substs`' zip over two substitutions -/
theorem auArgs_linear (u : Nat) (a1 a2 r : Args) (st st' : AuSt) (h : auArgs u a1 a2 st = .ok (r, st')) :
    r.vars0 = List.range' st.length (st'.length - st.length) ∧ st.length ≤ st'.length ∧
      r.Linear ∧ r.top0 = true := by
  obtain ⟨b1, b2, _⟩ := auArgs_spec u a1 a2 st r st' h
  exact ⟨b1.2, b1.1, b1.nodup, b2⟩

/-- lifetimes and constants (total functions): a kept lifetime / constant VALUE is never a variable -/
theorem auLifetime_linear (u : Nat) (l1 l2 r : Lifetime) (st st' : AuSt) (h : auLifetime u l1 l2 st = (r, st')) :
    r.vars0 = List.range' st.length (st'.length - st.length) ∧ st.length ≤ st'.length ∧ r.top0 = true := by
  obtain ⟨b1, b2⟩ := auLifetime_spec h
  exact ⟨b1.2, b1.1, b2⟩

theorem auConst_linear (u : Nat) (c1 c2 r : Const) (st st' : AuSt) (h : auConst u c1 c2 st = (r, st')) :
    r.vars0 = List.range' st.length (st'.length - st.length) ∧ st.length ≤ st'.length ∧ r.top0 = true := by
  obtain ⟨b1, b2, _⟩ := auConst_spec h
  exact ⟨b1.2, b1.1, b2⟩

/-- the loop of `merge_into_guidance` (top-level lifetimes are always re-generalised), from any
    start index and any state -/
theorem mergeLoop_linear (us : List Nat) (idx : Nat) (g a r : Args) (st st' : AuSt)
    (h : mergeLoop us idx g a st = .ok (r, st')) :
    r.vars0 = List.range' st.length (st'.length - st.length) ∧ st.length ≤ st'.length ∧
      r.Linear ∧ r.top0 = true := by
  obtain ⟨b1, b2, _⟩ := mergeLoop_spec us idx g a st r st' h
  exact ⟨b1.2, b1.1, b1.nodup, b2⟩

/-- Every result of `merge_into_guidance` is linear: its `k` binders occur as `^0.0 … ^0.(k-1)`,
    once each, left to right.  No hypothesis on the inputs. -/
theorem merge_result_linear (us : List Nat) (g a : Args) (r : Canon Args)
    (h : mergeIntoGuidance us g a = .ok r) :
    r.value.vars0 = List.range' 0 r.binders.length ∧ r.value.Linear ∧ r.value.top0 = true := by
  have := (mergeIntoGuidance_spec h).1
  exact ⟨this.1, this.linear, this.2⟩

/-! ## 2. structural instance = instance, for linear patterns -/

/-- If no variable of `r` repeats, all its variables are `^0.i` with `i < n`, `t` is a structural
    instance of `r` and the constant types agree, then a substitution of length `n` maps `r` to `t`
    (`Subst::apply`, exactly: `Args.subst`). -/
theorem genOf_linear_instance (r t : Args) (n : Nat) (hlin : r.Linear) (hg : r.genOf t = true)
    (h0 : r.top0 = true) (hc : r.ctAgree t = true) (hn : ∀ i, i ∈ r.vars0 → i < n) :
    ∃ θ : List GArg, θ.length = n ∧ r.subst θ = .ok t :=
  Args.genOf_linear_instance r t n hlin hg h0 hc hn

/-- the same for single types -/
theorem genOf_linear_instance_ty (r t : Ty) (n : Nat) (hlin : r.Linear) (hg : r.genOf t = true)
    (h0 : r.top0 = true) (hc : r.ctAgree t = true) (hn : ∀ i, i ∈ r.vars0 → i < n) :
    ∃ θ : List GArg, θ.length = n ∧ r.subst θ = .ok t :=
  Ty.genOf_linear_instance r t n hlin hg h0 hc hn

/-- More generally (no linearity): ANY substitution that realises the bindings of the structural
    match maps the pattern to the term; a repeated variable is harmless when it is matched against
    equal subterms. -/
theorem genOf_instance_of_bindings (θ : List GArg) (r t : Args) (hg : r.genOf t = true)
    (h0 : r.top0 = true) (hc : r.ctAgree t = true)
    (hb : ∀ p, p ∈ r.bindings t → θ[p.1]? = some p.2) : r.subst θ = .ok t :=
  Args.subst_of_bindings θ r t hg h0 hc hb

/-! ## 3. `merge_into_guidance` -/

/-- Both the old guidance and the new answer are genuine INSTANCES of the merge result, by
    substitutions for exactly its binders. -/
theorem merged_guidance_instances (us : List Nat) (g a : Args) (r : Canon Args)
    (h : mergeIntoGuidance us g a = .ok r) (hk : g.sameKinds a = true) (hc : g.ctAgree a = true) :
    (∃ θ : List GArg, θ.length = r.binders.length ∧ r.value.subst θ = .ok g) ∧
    (∃ θ : List GArg, θ.length = r.binders.length ∧ r.value.subst θ = .ok a) := by
  obtain ⟨hs, hct⟩ := mergeIntoGuidance_spec h
  have hct := hct hc
  have hgen := C17.merge_generalizes us g a r h hk
  exact ⟨Args.genOf_linear_instance _ _ _ hs.linear hgen.1 hs.2 hct.1 hs.lt,
    Args.genOf_linear_instance _ _ _ hs.linear hgen.2 hs.2 hct.2 hs.lt⟩

/-- The hypothesis on constant types cannot be dropped (1): `aggregate_consts` keeps its FIRST
    argument when the two values agree and never looks at the second one's type.  Merging
    `[3: T0]` with `[3: T1]` (`T0 = scalar 0`, `T1 = scalar 1`) gives `[3: T0]` with no binder,
    which no substitution maps to the answer. -/
def c3T0 : Args := .cons (.ct (.mk (.scalar 0) (.concrete 3))) .nil
def c3T1 : Args := .cons (.ct (.mk (.scalar 1) (.concrete 3))) .nil

theorem merged_guidance_instances_const_type_refuted :
    mergeIntoGuidance [0] c3T0 c3T1 = .ok ⟨[], c3T0⟩ ∧ c3T0.sameKinds c3T1 = true ∧
    ∀ θ : List GArg, c3T0.subst θ ≠ .ok c3T1 := by
  refine ⟨rfl, rfl, ?_⟩
  intro θ h
  simp [c3T0, c3T1, Args.subst, foldArgs, foldGArg, foldConst, foldTy] at h

/-- The hypothesis on constant types cannot be dropped (2) — the one place where the anti-unifier
    KEEPS a bound variable instead of replacing it: the type of a constant is copied from the first
    argument, never aggregated.  A variable `^0.0` inside it survives the merge and is CAPTURED by
    the fresh numbering: merging `[3: ^0.0, A]` with `[3: ^0.0, B]` gives `[3: ^0.0, ^0.0]` with ONE
    binder.  `vars0` (which does not look into constant types, as `auConst` does not) is `[0]`, the
    result is linear in that sense, and yet it is not an instance-generalisation of its inputs:
    the substitution `[A]` yields `[3: A, A]`. -/
def cVarA : Args := .cons (.ct (.mk (.bound 0 0) (.concrete 3))) (.cons (.ty (.app (.adt 1) .nil)) .nil)
def cVarB : Args := .cons (.ct (.mk (.bound 0 0) (.concrete 3))) (.cons (.ty (.app (.adt 2) .nil)) .nil)
def cVarR : Args := .cons (.ct (.mk (.bound 0 0) (.concrete 3))) (.cons (.ty (.bound 0 0)) .nil)

theorem const_type_variable_kept_refuted :
    mergeIntoGuidance [0, 0] cVarA cVarB = .ok ⟨[(.ty .general, 0)], cVarR⟩ ∧
    cVarR.vars0 = [0] ∧ cVarA.ctAgree cVarB = false ∧
    ∀ θ : List GArg, cVarR.subst θ ≠ .ok cVarA := by
  refine ⟨rfl, rfl, rfl, ?_⟩
  intro θ h
  simp only [cVarR, cVarA, Args.subst, foldArgs, foldGArg, foldConst, foldTy, substFolder] at h
  cases h0 : θ[0]? with
  | none => simp [h0] at h
  | some x =>
    cases x with
    | ty t =>
      simp [h0] at h
      cases ht : foldTy (shifter 0) 0 t with
      | error e => simp [ht] at h
      | ok t' =>
        simp [ht] at h
        obtain ⟨h1, h2⟩ := h
        subst h1
        cases h2
    | lt l => simp [h0] at h
    | ct c => simp [h0] at h

/-! ## 4. `make_solution` -/

/-- The definite guidance of `make_solution` is the first stored answer's substitution unchanged
    (no merge happened), or it has the shape of a merge result — in particular it is linear. -/
theorem guidance_unchanged_or_linear (us : List Nat) (answers : List CAnswer) (g : Canon Args)
    (h : makeSolution us answers = .ok (some (.ambig (.definite g)))) :
    ∃ a0 rest, answers = a0 :: rest ∧
      (g = ⟨a0.binders, a0.subst⟩ ∨
        (g.value.vars0 = List.range' 0 g.binders.length ∧ g.value.Linear ∧ g.value.top0 = true)) := by
  cases answers with
  | nil => simp [makeSolution] at h
  | cons a0 rest =>
    refine ⟨a0, rest, rfl, ?_⟩
    simp only [makeSolution] at h
    split at h
    · simp at h
    · cases hl : guidanceLoop us rest ⟨a0.binders, a0.subst⟩ 1 with
      | error e => simp [hl] at h
      | ok p =>
        obtain ⟨g', m⟩ := p
        simp [hl] at h
        subst h
        rcases guidanceLoop_shape us rest _ 1 g m hl with ⟨e, _⟩ | ⟨_, hs⟩
        · exact Or.inl e
        · exact Or.inr ⟨hs.1, hs.linear, hs.2⟩

/-- the loop of `make_solution` itself: the initial substitution unchanged (and no merge counted),
    or a linear guidance (and at least one merge counted) -/
theorem guidanceLoop_unchanged_or_linear (us : List Nat) (rest : List CAnswer) (subst g : Canon Args) (n m : Nat)
    (h : guidanceLoop us rest subst n = .ok (.definite g, m)) :
    (g = subst ∧ m = n) ∨
      (n < m ∧ g.value.vars0 = List.range' 0 g.binders.length ∧ g.value.Linear ∧ g.value.top0 = true) := by
  rcases guidanceLoop_shape us rest subst n g m h with e | ⟨e, hs⟩
  · exact Or.inl e
  · exact Or.inr ⟨e, hs.1, hs.linear, hs.2⟩

/-- the invariant of `make_solution` behind the two theorems below: the guidance is the first answer
    unchanged or a merge result generalising it, and it generalises every later stored answer, with
    constant types in agreement -/
theorem makeSolution_invariant (us : List Nat) (a0 : CAnswer) (rest : List CAnswer) (g : Canon Args)
    (h : makeSolution us (a0 :: rest) = .ok (some (.ambig (.definite g))))
    (hk : ∀ a, a ∈ rest → a0.subst.sameKinds a.subst = true)
    (hc : ∀ a, a ∈ rest → a0.subst.ctAgree a.subst = true) :
    (g = ⟨a0.binders, a0.subst⟩ ∨
      (MergedShape g ∧ g.value.genOf a0.subst = true ∧ g.value.ctAgree a0.subst = true)) ∧
    ∀ a, a ∈ rest → g.value.genOf a.subst = true ∧ g.value.ctAgree a.subst = true := by
  simp only [makeSolution] at h
  split at h
  · simp at h
  · cases hl : guidanceLoop us rest ⟨a0.binders, a0.subst⟩ 1 with
    | error e => simp [hl] at h
    | ok p =>
      obtain ⟨g', m⟩ := p
      simp [hl] at h
      subst h
      obtain ⟨i1, i2⟩ := guidanceLoop_inv us rest ⟨a0.binders, a0.subst⟩ 1 g m hl hk hc
      refine ⟨?_, i2⟩
      rcases i1 with ⟨e, _⟩ | ⟨_, e2, e3, e4⟩
      · exact Or.inl e
      · exact Or.inr ⟨e2, e3, e4⟩

/-- UPGRADE of `C17ms.definite_guidance_covers_every_answer_partial` from "structural instance" to
    "instance": when `make_solution` hands out `Ambig(Definite(g))` and `g` is linear (no variable
    repeats; all variables are `^0.i`, `i` below the number of binders), every stored answer of the
    table is `g`'s own value or a genuine INSTANCE of it: `g.value.subst θ = a.subst` for a `θ` of
    the length of `g`'s binders.  All tables; hypotheses on the table as in C17ms (kinds agree with
    the first answer position by position) plus agreement of constant types of the first answer
    with every later one. -/
theorem definite_guidance_after_merge_covers_by_instance (us : List Nat) (answers : List CAnswer) (g : Canon Args)
    (h : makeSolution us answers = .ok (some (.ambig (.definite g))))
    (hk : ∀ a0, answers.head? = some a0 → ∀ a, a ∈ answers → a0.subst.sameKinds a.subst = true)
    (hc : ∀ a0, answers.head? = some a0 → ∀ a, a ∈ answers.tail → a0.subst.ctAgree a.subst = true)
    (hlin : g.value.Linear) (h0 : g.value.top0 = true) (hn : ∀ i, i ∈ g.value.vars0 → i < g.binders.length) :
    ∀ a, a ∈ answers →
      g.value = a.subst ∨ ∃ θ : List GArg, θ.length = g.binders.length ∧ g.value.subst θ = .ok a.subst := by
  cases answers with
  | nil => simp
  | cons a0 rest =>
    obtain ⟨i1, i2⟩ := makeSolution_invariant us a0 rest g h
      (fun a ha => hk a0 (by simp) a (List.mem_cons_of_mem _ ha))
      (fun a ha => hc a0 (by simp) a (by simpa using ha))
    intro a ha
    rcases List.mem_cons.mp ha with e | ha'
    · subst e
      rcases i1 with e | ⟨_, e3, e4⟩
      · left; rw [e]
      · right; exact Args.genOf_linear_instance _ _ _ hlin e3 h0 e4 hn
    · right
      exact Args.genOf_linear_instance _ _ _ hlin (i2 a ha').1 h0 (i2 a ha').2 hn

/-- …and whenever at least one merge happened (the guidance is not the first answer unchanged) the
    linearity hypotheses hold by themselves: the guidance is linear and EVERY stored answer,
    the first one included, is an instance of it. -/
theorem definite_guidance_merged_covers_by_instance (us : List Nat) (answers : List CAnswer) (g : Canon Args)
    (h : makeSolution us answers = .ok (some (.ambig (.definite g))))
    (hk : ∀ a0, answers.head? = some a0 → ∀ a, a ∈ answers → a0.subst.sameKinds a.subst = true)
    (hc : ∀ a0, answers.head? = some a0 → ∀ a, a ∈ answers.tail → a0.subst.ctAgree a.subst = true)
    (hm : ∀ a0, answers.head? = some a0 → g ≠ ⟨a0.binders, a0.subst⟩) :
    g.value.Linear ∧
    ∀ a, a ∈ answers → ∃ θ : List GArg, θ.length = g.binders.length ∧ g.value.subst θ = .ok a.subst := by
  cases answers with
  | nil => simp [makeSolution] at h
  | cons a0 rest =>
    obtain ⟨i1, i2⟩ := makeSolution_invariant us a0 rest g h
      (fun a ha => hk a0 (by simp) a (List.mem_cons_of_mem _ ha))
      (fun a ha => hc a0 (by simp) a (by simpa using ha))
    rcases i1 with e | ⟨hs, e3, e4⟩
    · exact (hm a0 (by simp) e).elim
    · refine ⟨hs.linear, fun a ha => ?_⟩
      rcases List.mem_cons.mp ha with e | ha'
      · subst e
        exact Args.genOf_linear_instance _ _ _ hs.linear e3 hs.2 e4 hs.lt
      · exact Args.genOf_linear_instance _ _ _ hs.linear (i2 a ha').1 hs.2 (i2 a ha').2 hs.lt

/-- The hypothesis `hc` of the two theorems above cannot be dropped: on the table `[3: T0]`, `[3: T1]`
    (`may_invalidate` DOES compare constant types and says "invalidates"; the merge then keeps the
    first constant) `make_solution` returns `Definite([3: T0])`, which excludes the second answer.
    Such a table is ill-typed (one query position, two constant types); the refutation shows that
    the model — like the code — relies on typing here. -/
theorem definite_guidance_const_type_refuted :
    makeSolution [0] [⟨[], c3T0, [], false⟩, ⟨[], c3T1, [], false⟩]
      = .ok (some (.ambig (.definite ⟨[], c3T0⟩))) ∧
    c3T0 ≠ c3T1 ∧ ∀ θ : List GArg, c3T0.subst θ ≠ .ok c3T1 := by
  refine ⟨?_, by decide, merged_guidance_instances_const_type_refuted.2.2⟩
  simp [makeSolution, guidanceLoop, anyFutureInvalidates, mayInvalidate, miAny, miGArg, miConst, miTy,
    c3T0, c3T1, Args.isNil, isTrivial, isTrivialFrom, mergeIntoGuidance, mergeLoop, auGArg, auConst]

/-! ## 5. non-vacuity -/

def vecA : Args := .cons (.ty (.app (.adt 0) (.cons (.ty (.app (.adt 2) .nil)) .nil))) .nil
def vecB : Args := .cons (.ty (.app (.adt 0) (.cons (.ty (.app (.adt 3) .nil)) .nil))) .nil
def vecVar : Args := .cons (.ty (.app (.adt 0) (.cons (.ty (.bound 0 0)) .nil))) .nil

/-- a table on which a merge happens: `Vec<A>`, `Vec<B>` ⟶ `Definite(Vec<^0.0>)` -/
def mergeTable : List CAnswer := [⟨[], vecA, [], false⟩, ⟨[], vecB, [], false⟩]

theorem mergeTable_definite :
    makeSolution [0] mergeTable = .ok (some (.ambig (.definite ⟨[(.ty .general, 0)], vecVar⟩))) := by
  simp [makeSolution, mergeTable, guidanceLoop, anyFutureInvalidates, mayInvalidate, miAny, miGArg, miTy, miNamed,
    TyName.sameKind, Args.length, Args.toList, vecVar, vecA, vecB, Args.isNil, isTrivial, isTrivialFrom,
    mergeIntoGuidance, mergeLoop, auGArg, auTy, auArgs, newTyVar]

/-- the merged theorem applies to it: both answers are instances of `Vec<^0.0>` -/
example : vecVar.Linear ∧ ∀ a, a ∈ mergeTable →
    ∃ θ : List GArg, θ.length = 1 ∧ vecVar.subst θ = .ok a.subst :=
  definite_guidance_merged_covers_by_instance [0] mergeTable ⟨[(.ty .general, 0)], vecVar⟩ mergeTable_definite
    (by intro a0 h a ha; simp [mergeTable] at h; subst h; revert a ha; decide)
    (by intro a0 h a ha; simp [mergeTable] at h; subst h; revert a ha; decide)
    (by intro a0 h; simp [mergeTable] at h; subst h; decide)

/-- …and the substitutions are the expected ones -/
example : vecVar.subst [.ty (.app (.adt 2) .nil)] = .ok vecA ∧ vecVar.subst [.ty (.app (.adt 3) .nil)] = .ok vecB :=
  ⟨rfl, rfl⟩

/-- the linear theorem on a table WITHOUT merge (C17ms' demo table `Vec<^0>`, `Vec<A>`): the first
    answer is linear as it stands -/
example : ∀ a, a ∈ C17ms.demoTable →
    C17ms.vecVar = a.subst ∨ ∃ θ : List GArg, θ.length = 1 ∧ C17ms.vecVar.subst θ = .ok a.subst :=
  definite_guidance_after_merge_covers_by_instance [0] C17ms.demoTable ⟨[(.ty .general, 0)], C17ms.vecVar⟩
    C17ms.demo_definite
    (by intro a0 h a ha; simp [C17ms.demoTable] at h; subst h; revert a ha; decide)
    (by intro a0 h a ha; simp [C17ms.demoTable] at h; subst h; revert a ha; decide)
    (by decide) (by decide) (by decide)

/-- the refuted table of C17ms (`Pair<^0,^0>`, `Pair<A,B>`) is excluded exactly by linearity -/
example : ¬ C17.pairAA.Linear := by decide

/-- a merge through every kind of position: type, lifetime, constant, nested -/
def mixG : Args :=
  .cons (.ty (.ref true .static (.array (.scalar 1) (.mk (.scalar 7) (.concrete 3)))))
    (.cons (.lt .static) (.cons (.ct (.mk (.scalar 7) (.concrete 4))) .nil))
def mixA : Args :=
  .cons (.ty (.ref true .erased (.array (.scalar 2) (.mk (.scalar 7) (.concrete 5)))))
    (.cons (.lt .static) (.cons (.ct (.mk (.scalar 7) (.concrete 4))) .nil))

example : mergeIntoGuidance [0, 1, 2] mixG mixA = .ok
    ⟨[(.lt, 0), (.ty .general, 0), (.const 7, 0), (.lt, 1)],
     .cons (.ty (.ref true (.bound 0 0) (.array (.bound 0 1) (.mk (.scalar 7) (.bound 0 2)))))
       (.cons (.lt (.bound 0 3)) (.cons (.ct (.mk (.scalar 7) (.concrete 4))) .nil))⟩ := rfl

example : mixG.sameKinds mixA = true ∧ mixG.ctAgree mixA = true := by decide

example : ∀ r, mergeIntoGuidance [0, 1, 2] mixG mixA = .ok r →
    (∃ θ : List GArg, θ.length = r.binders.length ∧ r.value.subst θ = .ok mixG) ∧
    (∃ θ : List GArg, θ.length = r.binders.length ∧ r.value.subst θ = .ok mixA) :=
  fun r h => merged_guidance_instances [0, 1, 2] mixG mixA r h (by decide) (by decide)

end Chalk.C17lin

#print axioms Chalk.C17lin.auTy_linear
#print axioms Chalk.C17lin.auArgs_linear
#print axioms Chalk.C17lin.auLifetime_linear
#print axioms Chalk.C17lin.auConst_linear
#print axioms Chalk.C17lin.mergeLoop_linear
#print axioms Chalk.C17lin.merge_result_linear
#print axioms Chalk.C17lin.genOf_linear_instance
#print axioms Chalk.C17lin.genOf_linear_instance_ty
#print axioms Chalk.C17lin.genOf_instance_of_bindings
#print axioms Chalk.C17lin.merged_guidance_instances
#print axioms Chalk.C17lin.merged_guidance_instances_const_type_refuted
#print axioms Chalk.C17lin.const_type_variable_kept_refuted
#print axioms Chalk.C17lin.guidance_unchanged_or_linear
#print axioms Chalk.C17lin.guidanceLoop_unchanged_or_linear
#print axioms Chalk.C17lin.makeSolution_invariant
#print axioms Chalk.C17lin.definite_guidance_after_merge_covers_by_instance
#print axioms Chalk.C17lin.definite_guidance_merged_covers_by_instance
#print axioms Chalk.C17lin.definite_guidance_const_type_refuted
#print axioms Chalk.C17lin.mergeTable_definite
