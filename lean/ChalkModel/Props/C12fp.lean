/-
  C12fp — C12 ("a panic in a database callback leaves the solver usable") for CYCLIC ground instances
  of one polarity: the case `Props/C12.lean` lists as "not yet theorems".

  Model: `FixedPoint.lean`, unchanged.  A panic inside a solve is the work-budget panic
  (`Cfg.budget = some b` / `Call.budget`: the hook ticks at every `solve_goal` entry and at the head
  of every round of the loop of `solve_new_subgoal`, i.e. between any two database callbacks).
  Proofs: `Lemmas/FixedPointSem*.lean` — the invariant of `Props/C05fp.lean` holds at every work step,
  and it says that every cache entry is final (`Inv.cacheOK`); `solveGoal_good` is the totality proof
  redone for an arbitrary budget ("returns, or budget panic with a correct cache").

  Class of instances: `Cyc.Hyp c inst dom` (`dom` finite, closed under `deps`, all goals ground and of
  polarity `c`; any cyclic structure).  Configuration: F3 and F7 repairs, `dom.length ≤ overflowDepth`,
  `2 ≤ rounds`; the cache enabled or not.

    `panic_leaves_cache_correct` — for EVERY budget: `solve_root_goal` on a state whose cache is
        correct returns the fixed-point answer (then stack and graph are empty) or ends in the budget
        panic (only if a budget is set); in both cases the cache it leaves is correct;
    `history_with_panics_correct` — a history of calls each with an arbitrary budget on one fresh
        solver: every outcome is the fixed-point answer or the budget panic, the cache is correct
        at the end, and the next plain call returns the fixed-point answer;
    `coinductive_usable_after_panics`, `inductive_usable_after_panics` — the last part spelled out
        with `InGfp` / `InLfp`.
  The mixed case stays refuted (`C12.usable_after_panic_refuted`, F13).
-/
import ChalkModel.Lemmas.FixedPointSemP

namespace Chalk.FixedPoint.C12fp
open Chalk.FixedPoint.Cyc

/-- a panic at any work step leaves a correct cache -/
theorem panic_leaves_cache_correct (c : Bool) (inst : Instance) (dom : List Nat) (hyp : Hyp c inst dom)
    (cfg : Cfg) (h3 : cfg.fixF3 = true) (h7 : cfg.fixF7 = true) (hov : dom.length ≤ cfg.overflowDepth)
    (hr : 2 ≤ cfg.rounds) (s : St) (hq : s.oracle = [] ∧ s.oracleDefault = true)
    (hok : ∀ k v, InCache s k v → Corr c inst k v) (g : Nat) (hg : g ∈ dom) :
    (∃ v s', solveRootGoal inst cfg g s = .ok v s' ∧ Corr c inst g v ∧ s'.stack = [] ∧ s'.graph = [] ∧
      (∀ k w, InCache s' k w → Corr c inst k w) ∧ s'.cache.isSome = s.cache.isSome) ∨
    (∃ s', solveRootGoal inst cfg g s = .panic .budget s' ∧ cfg.budget ≠ none ∧
      (∀ k w, InCache s' k w → Corr c inst k w)) :=
  solveRootGoal_good hyp h3 h7 hov hr s hq hok g hg

/-- histories of calls with arbitrary budgets -/
theorem history_with_panics_correct (c : Bool) (inst : Instance) (dom : List Nat) (hyp : Hyp c inst dom)
    (cfg : Cfg) (h3 : cfg.fixF3 = true) (h7 : cfg.fixF7 = true) (hov : dom.length ≤ cfg.overflowDepth)
    (hr : 2 ≤ cfg.rounds) (b : Bool) (ks : List Call)
    (hd : ∀ k, k ∈ ks → (k.oracle = [] ∧ k.dflt = true) ∧ k.goal ∈ dom) (g : Nat) (hg : g ∈ dom) :
    (∀ (i : Nat) (k : Call), ks[i]? = some k →
      (outcomes inst cfg ks (St.fresh b))[i]? = some (.panic .budget) ∧ k.budget ≠ none ∨
      ∃ v, (outcomes inst cfg ks (St.fresh b))[i]? = some (.value v) ∧ Corr c inst k.goal v) ∧
    (∀ k w, InCache (runHistory inst cfg ks (St.fresh b)) k w → Corr c inst k w) ∧
    ∃ v, solveOn inst cfg g (runHistory inst cfg ks (St.fresh b)) = .value v ∧ Corr c inst g v :=
  ⟨budgetHistory_outcomes hyp h3 h7 hov hr ks hd _ (cacheOK_fresh c inst b),
   budgetHistory_cacheOK hyp h3 h7 hov hr ks hd _ (cacheOK_fresh c inst b),
   budgetHistory_then_plain hyp h3 h7 hov hr b ks hd g hg⟩

/-- coinductive instances: after any panics the next plain call gives the gfp answer -/
theorem coinductive_usable_after_panics (inst : Instance) (dom : List Nat) (hyp : Hyp true inst dom)
    (cfg : Cfg) (h3 : cfg.fixF3 = true) (h7 : cfg.fixF7 = true) (hov : dom.length ≤ cfg.overflowDepth)
    (hr : 2 ≤ cfg.rounds) (b : Bool) (ks : List Call)
    (hd : ∀ k, k ∈ ks → (k.oracle = [] ∧ k.dflt = true) ∧ k.goal ∈ dom) (g : Nat) (hg : g ∈ dom) :
    ∃ v, solveOn inst cfg g (runHistory inst cfg ks (St.fresh b)) = .value v ∧
      (v = .unique ↔ InGfp inst g) ∧ (v = .noSolution ↔ ¬ InGfp inst g) := by
  obtain ⟨v, h1, h2⟩ := budgetHistory_then_plain hyp h3 h7 hov hr b ks hd g hg
  refine ⟨v, h1, ?_, ?_⟩
  all_goals rcases (corr_true inst g v).mp h2 with ⟨e, ht⟩ | ⟨e, ht⟩ <;> subst e <;> simp [ht]

/-- inductive instances: … the lfp answer -/
theorem inductive_usable_after_panics (inst : Instance) (dom : List Nat) (hyp : Hyp false inst dom)
    (cfg : Cfg) (h3 : cfg.fixF3 = true) (h7 : cfg.fixF7 = true) (hov : dom.length ≤ cfg.overflowDepth)
    (hr : 2 ≤ cfg.rounds) (b : Bool) (ks : List Call)
    (hd : ∀ k, k ∈ ks → (k.oracle = [] ∧ k.dflt = true) ∧ k.goal ∈ dom) (g : Nat) (hg : g ∈ dom) :
    ∃ v, solveOn inst cfg g (runHistory inst cfg ks (St.fresh b)) = .value v ∧
      (v = .unique ↔ InLfp inst g) ∧ (v = .noSolution ↔ ¬ InLfp inst g) := by
  obtain ⟨v, h1, h2⟩ := budgetHistory_then_plain hyp h3 h7 hov hr b ks hd g hg
  refine ⟨v, h1, ?_, ?_⟩
  all_goals rcases (corr_false inst g v).mp h2 with ⟨e, ht⟩ | ⟨e, ht⟩ <;> subst e <;> simp [ht]

/-! ### non-vacuity -/

/-- `0 :- 3, 2, 1.  1 :- 0.  2 :- 1.` (`3` has no clause) -/
def retract (co : Bool) : Instance :=
  Instance.ofTable [(co, true, [[3, 2, 1]]), (co, true, [[0]]), (co, true, [[1]]), (co, true, [])]

/-- `0 :- 1.  1 :- 2 | 0.  2 :- 0, 1.` -/
def knot (co : Bool) : Instance :=
  Instance.ofTable [(co, true, [[1]]), (co, true, [[2], [0]]), (co, true, [[0, 1]])]

theorem retract_hyp (co : Bool) : Hyp co (retract co) [0, 1, 2, 3] := by
  cases co <;> exact ⟨by decide, by decide, by decide⟩

theorem knot_hyp (co : Bool) : Hyp co (knot co) [0, 1, 2] := by
  cases co <;> exact ⟨by decide, by decide, by decide⟩

/-- a clean solve of goal `0` of `retract` takes 14 work steps -/
example : (runCall (retract true) (Cfg.current 4 2) (Call.plain 0) (St.fresh true)).state.work = 14 := by decide

/-- a panic at work step 11 — in the middle of the first round, while `1` and `2` hold the provisional
    answer `unique` and after `3` has been cached: the cache holds only the final entry for `3`,
    and the next solves (goal `0`, then goal `2`, whose provisional `unique` was lost) are exact -/
example :
    outcomes (retract true) (Cfg.current 4 2) [{ goal := 0, budget := some 10 }, Call.plain 0, Call.plain 2]
        (St.fresh true) = [.panic .budget, .value .noSolution, .value .noSolution] ∧
    cacheDump (runHistory (retract true) (Cfg.current 4 2) [{ goal := 0, budget := some 10 }] (St.fresh true)) =
      [(3, .noSolution)] := by decide

/-- every crash point of the clean run (budget `0 … 13`), each followed by two plain calls -/
example :
    ((List.range 14).all fun b =>
      outcomes (retract true) (Cfg.current 4 2) [{ goal := 0, budget := some b }, Call.plain 0, Call.plain 2]
        (St.fresh true) == [.panic .budget, .value .noSolution, .value .noSolution]) = true := by decide

example :
    outcomes (knot true) (Cfg.current 3 2) [{ goal := 0, budget := some 5 }, Call.plain 1] (St.fresh true) =
      [.panic .budget, .value .unique] ∧
    cacheDump (runHistory (knot true) (Cfg.current 3 2) [{ goal := 0, budget := some 5 }] (St.fresh true)) = [] := by
  decide

/-- the theorem, instantiated: whatever the budgets, goal `2` of `retract` is then refuted -/
example (bs : List Nat) (b : Bool) :
    solveOn (retract true) (Cfg.current 4 2) 2
      (runHistory (retract true) (Cfg.current 4 2) (bs.map fun n => ({ goal := 0, budget := some n } : Call))
        (St.fresh b)) = .value .noSolution := by
  obtain ⟨v, h1, _, h3⟩ := coinductive_usable_after_panics (retract true) [0, 1, 2, 3] (retract_hyp true)
    (Cfg.current 4 2) rfl rfl (by decide) (by decide) b
    (bs.map fun n => ({ goal := 0, budget := some n } : Call))
    (by
      intro k hk
      obtain ⟨n, _, rfl⟩ := List.mem_map.mp hk
      exact ⟨⟨rfl, rfl⟩, by simp⟩) 2 (by decide)
  have hn : ¬ InGfp (retract true) 2 := by
    obtain ⟨w, e1, _, e3⟩ := coinductive_usable_after_panics (retract true) [0, 1, 2, 3] (retract_hyp true)
      (Cfg.current 4 2) rfl rfl (by decide) (by decide) true [] (by simp) 2 (by decide)
    have : w = .noSolution := by
      have h2 : solveOn (retract true) (Cfg.current 4 2) 2
          (runHistory (retract true) (Cfg.current 4 2) [] (St.fresh true)) = .value .noSolution := by decide
      rw [h2] at e1
      cases e1
      rfl
    exact e3.mp this
  rw [h1, h3.mpr hn]

end Chalk.FixedPoint.C12fp

#print axioms Chalk.FixedPoint.C12fp.panic_leaves_cache_correct
#print axioms Chalk.FixedPoint.C12fp.history_with_panics_correct
#print axioms Chalk.FixedPoint.C12fp.coinductive_usable_after_panics
#print axioms Chalk.FixedPoint.C12fp.inductive_usable_after_panics
#print axioms Chalk.FixedPoint.C12fp.retract_hyp
#print axioms Chalk.FixedPoint.C12fp.knot_hyp
