/-
  C27 — in-place folding is memory-safe at every failure point.
  Property theorems only (model: `InPlace.lean`, helper lemmas: `Lemmas/InPlaceLemmas.lean`).

  Every statement is for every layout situation (`Layout`: the two tests `is_layout_identical`,
  `is_zst` select the in-place or the fallback path), every callback `cb : position → id → ok u |
  err | panic`, every vector `pre ++ x :: post` (any length, failure at any position `pre.length`),
  both failure modes (`FailMode.err`, `FailMode.panic`), and for boxes.

  Drop glue: `lay.glueT` / `lay.glueU` say whether `T` / `U` have a destructor.  The drop log only
  records destructor runs of types that have one: `logOf lay ty tag xs` is `xs.map (·, tag)` if
  `ty` has drop glue and `[]` otherwise.  `each_dropped_once` therefore speaks of the elements whose
  type has drop glue (leaks of glue-less elements are unobservable and not claimed); `no_ub` and
  `nothingLive` still cover every slot, with or without glue.

  Scope: the theorems are about the slot-level model.  The allocator (sizes, capacities, the
  inside of `Vec::from_raw_parts`) is not modelled; "freed exactly once" means: the buffer ends
  `freed` and the run is not `ub` (a second free is `ub` in the model).
-/
import ChalkModel.Lemmas.InPlaceLemmas

namespace Chalk.C27
open Chalk.InPlace

/-- The two families below cover every callback and every vector: either the callback answers
    `ok` on all elements, or there is a first position at which it returns an error or panics. -/
theorem cases_exhaustive (cb : Callback) (ids : List Nat) :
    (∃ us, Oks cb 0 ids us) ∨
    (∃ pre x post us mode, ids = pre ++ x :: post ∧ Oks cb 0 pre us ∧ cb pre.length x = FailMode.out mode) := by
  simpa using oks_or_first_failure cb 0 ids

/-! ### vectors -/

/-- On success no element is dropped; the returned vector owns its buffer and holds all the mapped
    values, initialised, in order; a replaced source buffer (fallback path) is empty and freed. -/
theorem vec_success_no_drop (lay : Layout) (cb : Callback) (ids us : List Nat) (h : Oks cb 0 ids us) :
    ∃ st, fallibleMapVec lay cb ids = .fin .ok st ∧
      st.result = ⟨us.map .liveU, .owned⟩ ∧ st.log = [] ∧
      (∀ d, st.dst = some d → st.src.buf = .freed ∧ st.src.nothingLive) := by
  refine ⟨_, vec_run_ok lay cb ids us h, ?_⟩
  unfold okFinal
  split
  · refine ⟨rfl, rfl, fun d _ => ⟨rfl, ?_⟩⟩
    simpa [deadOf] using nothingLive_moved_dead ids []
  · exact ⟨rfl, rfl, fun d hd => by cases hd⟩

/-- On failure at position `pre.length` (error return or panic) the function is left in the
    matching way and the drop log is a permutation of: the failing element (dropped by the
    callback), every already mapped element as `U`, every not yet mapped element as `T` — each
    restricted to the types that have drop glue; and no live value remains in any buffer. -/
theorem vec_each_dropped_once (lay : Layout) (cb : Callback) (mode : FailMode)
    (pre : List Nat) (x : Nat) (post us : List Nat)
    (h : Oks cb 0 pre us) (hx : cb pre.length x = mode.out) :
    ∃ st, fallibleMapVec lay cb (pre ++ x :: post) = .fin mode.exit st ∧
      st.log.Perm (logOf lay .T .cb [x] ++ (logOf lay .U .U us ++ logOf lay .T .T post)) ∧
      st.src.nothingLive ∧ (∀ d, st.dst = some d → d.nothingLive) := by
  refine ⟨_, vec_run_fail lay cb mode pre x post us h hx, ?_⟩
  unfold failFinal
  split
  · refine ⟨List.Perm.append_left _ List.perm_append_comm, nothingLive_moved_dead (pre ++ [x]) post, ?_⟩
    intro d hd; cases hd; exact nothingLive_dead us
  · exact ⟨List.Perm.refl _, nothingLive_dead_moved_dead us post, fun d hd => by cases hd⟩

/-- When both element types have drop glue (the case of chalk's folded values and of the crate's
    unit tests) this is the unrestricted statement: one log entry per position of the vector. -/
theorem vec_each_dropped_once_glue (lay : Layout) (hT : lay.glueT = true) (hU : lay.glueU = true)
    (cb : Callback) (mode : FailMode) (pre : List Nat) (x : Nat) (post us : List Nat)
    (h : Oks cb 0 pre us) (hx : cb pre.length x = mode.out) :
    ∃ st, fallibleMapVec lay cb (pre ++ x :: post) = .fin mode.exit st ∧
      st.log.Perm ((x, Tag.cb) :: (us.map (fun u => (u, Tag.U)) ++ post.map (fun t => (t, Tag.T)))) ∧
      st.log.length = (pre ++ x :: post).length := by
  obtain ⟨st, hrun, hperm, -⟩ := vec_each_dropped_once lay cb mode pre x post us h hx
  have hlen := Oks.length_eq h
  have e : logOf lay .T .cb [x] ++ (logOf lay .U .U us ++ logOf lay .T .T post)
      = (x, Tag.cb) :: (us.map (fun u => (u, Tag.U)) ++ post.map (fun t => (t, Tag.T))) := by
    simp [logOf, Layout.glue, hT, hU]
  rw [e] at hperm
  refine ⟨st, hrun, hperm, ?_⟩
  rw [hperm.length_eq]
  simp [hlen]; omega

/-- If the elements are pairwise distinct (ids of the input and ids of the mapped values), no
    entry occurs twice in the drop log: nothing is dropped twice. -/
theorem vec_drop_log_nodup (lay : Layout) (cb : Callback) (mode : FailMode)
    (pre : List Nat) (x : Nat) (post us : List Nat)
    (h : Oks cb 0 pre us) (hx : cb pre.length x = mode.out)
    (hpost : post.Nodup) (hus : us.Nodup) :
    ∀ st, fallibleMapVec lay cb (pre ++ x :: post) = .fin mode.exit st → st.log.Nodup := by
  intro st hst
  obtain ⟨st', hrun, hperm, -⟩ := vec_each_dropped_once lay cb mode pre x post us h hx
  rw [hrun] at hst
  cases hst
  rw [hperm.nodup_iff]
  have hnd : ∀ (ty : ElemTy) (t : Tag) (xs : List Nat), xs.Nodup → (logOf lay ty t xs).Nodup := by
    intro ty t xs hxs
    unfold logOf; split
    · exact List.Pairwise.map _ (fun a b hab e => hab (by cases e; rfl)) hxs
    · exact List.Pairwise.nil
  have htag : ∀ (ty : ElemTy) (t : Tag) (xs : List Nat) e, e ∈ logOf lay ty t xs → e.2 = t := by
    intro ty t xs e he
    unfold logOf at he; split at he
    · simp only [List.mem_map] at he; rcases he with ⟨_, _, rfl⟩; rfl
    · cases he
  rw [List.nodup_append, List.nodup_append]
  refine ⟨hnd _ _ _ (by simp), ⟨hnd _ _ _ hus, hnd _ _ _ hpost, ?_⟩, ?_⟩
  · intro a ha b hb e
    have h1 := htag _ _ _ _ ha; have h2 := htag _ _ _ _ hb
    rw [e] at h1; rw [h1] at h2; cases h2
  · intro a ha b hb e
    have h1 := htag _ _ _ _ ha
    rcases List.mem_append.mp hb with hb | hb
    · have h2 := htag _ _ _ _ hb; rw [e] at h1; rw [h1] at h2; cases h2
    · have h2 := htag _ _ _ _ hb; rw [e] at h1; rw [h1] at h2; cases h2

/-- On failure every buffer the function owned ends `freed` (and by `vec_no_ub` it was freed only
    once: a second free is `ub`). -/
theorem vec_buffer_freed_once (lay : Layout) (cb : Callback) (mode : FailMode)
    (pre : List Nat) (x : Nat) (post us : List Nat)
    (h : Oks cb 0 pre us) (hx : cb pre.length x = mode.out) :
    ∃ st, fallibleMapVec lay cb (pre ++ x :: post) = .fin mode.exit st ∧
      st.src.buf = .freed ∧ (∀ d, st.dst = some d → d.buf = .freed) := by
  refine ⟨_, vec_run_fail lay cb mode pre x post us h hx, ?_⟩
  unfold failFinal
  split
  · exact ⟨rfl, fun d hd => by cases hd; rfl⟩
  · exact ⟨rfl, fun d hd => by cases hd⟩

/-- No run of `fallible_map_vec` reaches undefined behaviour: no read of a moved-out, dropped or
    freed slot, no double drop, no drop at the wrong type, no double free — for every layout,
    every callback, every vector. -/
theorem vec_no_ub (lay : Layout) (cb : Callback) (ids : List Nat) :
    ∀ s, fallibleMapVec lay cb ids ≠ .ub s := by
  intro s hs
  rcases cases_exhaustive cb ids with ⟨us, h⟩ | ⟨pre, x, post, us, mode, rfl, h, hx⟩
  · obtain ⟨st, hrun, -⟩ := vec_success_no_drop lay cb ids us h
    rw [hrun] at hs; cases hs
  · obtain ⟨st, hrun, -⟩ := vec_buffer_freed_once lay cb mode pre x post us h hx
    rw [hrun] at hs; cases hs

/-- The exit of the function reports what the callback did: `Exit.ok` exactly when every element
    was mapped. -/
theorem vec_exit_ok_iff (lay : Layout) (cb : Callback) (ids : List Nat) :
    (∃ st, fallibleMapVec lay cb ids = .fin .ok st) ↔ ∃ us, Oks cb 0 ids us := by
  constructor
  · rintro ⟨st, hst⟩
    rcases cases_exhaustive cb ids with hok | ⟨pre, x, post, us, mode, rfl, h, hx⟩
    · exact hok
    · obtain ⟨st', hrun, -⟩ := vec_buffer_freed_once lay cb mode pre x post us h hx
      rw [hrun] at hst
      cases mode <;> cases hst
  · rintro ⟨us, h⟩
    obtain ⟨st, hrun, -⟩ := vec_success_no_drop lay cb ids us h
    exact ⟨st, hrun⟩

/-! ### boxes -/

theorem box_success_no_drop (lay : Layout) (cb : Callback) (id u : Nat) (h : cb 0 id = .ok u) :
    ∃ st, fallibleMapBox lay cb id = .fin .ok st ∧
      st.result = ⟨[.liveU u], .owned⟩ ∧ st.log = [] ∧
      (∀ d, st.dst = some d → st.src = ⟨[.moved], .freed⟩) := by
  rcases lay with ⟨_ | _, _ | _, _ | _, gU⟩ <;>
    simp [fallibleMapBox, mapBoxFallback, mapBoxInPlace, Region.read, Region.write, Region.free, h,
      St.result]

theorem box_each_dropped_once (lay : Layout) (cb : Callback) (mode : FailMode) (id : Nat)
    (h : cb 0 id = mode.out) :
    ∃ st, fallibleMapBox lay cb id = .fin mode.exit st ∧
      st.log = logOf lay .T .cb [id] ∧ st.src.nothingLive ∧ st.dst = none := by
  rcases lay with ⟨_ | _, _ | _, _ | _, gU⟩ <;> cases mode <;>
    simp [fallibleMapBox, mapBoxFallback, mapBoxInPlace, Region.read, Region.write, Region.free,
      FailMode.out, FailMode.exit, logOf, Layout.logDrop, Layout.glue] at h ⊢ <;>
    simp [h, Region.nothingLive]

theorem box_buffer_freed_once (lay : Layout) (cb : Callback) (mode : FailMode) (id : Nat)
    (h : cb 0 id = mode.out) :
    ∃ st, fallibleMapBox lay cb id = .fin mode.exit st ∧
      st.src.buf = .freed ∧ st.dst = none := by
  rcases lay with ⟨_ | _, _ | _, _ | _, gU⟩ <;> cases mode <;>
    simp [fallibleMapBox, mapBoxFallback, mapBoxInPlace, Region.read, Region.write, Region.free,
      FailMode.out, FailMode.exit] at h ⊢ <;>
    simp [h]

theorem box_no_ub (lay : Layout) (cb : Callback) (id : Nat) :
    ∀ s, fallibleMapBox lay cb id ≠ .ub s := by
  intro s hs
  cases hc : cb 0 id with
  | ok u =>
    obtain ⟨st, hrun, -⟩ := box_success_no_drop lay cb id u hc
    rw [hrun] at hs; cases hs
  | err =>
    obtain ⟨st, hrun, -⟩ := box_buffer_freed_once lay cb .err id (by simpa [FailMode.out] using hc)
    rw [hrun] at hs; cases hs
  | panic =>
    obtain ⟨st, hrun, -⟩ := box_buffer_freed_once lay cb .panic id (by simpa [FailMode.out] using hc)
    rw [hrun] at hs; cases hs

/-! ### non-vacuity -/

/-- the callback of the crate's own unit tests: fails on the element with id `bad` -/
def testCb (bad : Nat) (mode : FailMode) : Callback :=
  fun _ id => if id = bad then mode.out else .ok (id + 65)

/-- hypotheses of the failure theorems are satisfiable by a non-trivial value -/
example : Oks (testCb 2 .err) 0 [0, 1] [65, 66] ∧ testCb 2 .err [0, 1].length 2 = FailMode.err.out := by
  simp [Oks, testCb, FailMode.out]

/-- `vec_cleanup_after_early_return` of in_place.rs: drops `2, A, B, 3, 4` in this order -/
example : fallibleMapVec { identical := true, zst := false } (testCb 2 .err) [0, 1, 2, 3, 4]
    = .fin .err ⟨⟨[.dropped, .dropped, .moved, .dropped, .dropped], .freed⟩, none,
        [(2, .cb), (65, .U), (66, .U), (3, .T), (4, .T)]⟩ := by rfl

/-- `vec_cleanup_after_panic`: drops `3, A, B, C, 4` -/
example : fallibleMapVec { identical := true, zst := false } (testCb 3 .panic) [0, 1, 2, 3, 4]
    = .fin .panic ⟨⟨[.dropped, .dropped, .dropped, .moved, .dropped], .freed⟩, none,
        [(3, .cb), (65, .U), (66, .U), (67, .U), (4, .T)]⟩ := by rfl

/-- the same failure on the fallback path (different layout): two buffers, both freed -/
example : fallibleMapVec { identical := false, zst := false } (testCb 2 .err) [0, 1, 2, 3, 4]
    = .fin .err ⟨⟨[.moved, .moved, .moved, .dropped, .dropped], .freed⟩,
        some ⟨[.dropped, .dropped], .freed⟩,
        [(2, .cb), (3, .T), (4, .T), (65, .U), (66, .U)]⟩ := by rfl

/-- success: buffer reused, nothing dropped -/
example : fallibleMapVec { identical := true, zst := false } (testCb 9 .err) [0, 1, 2]
    = .fin .ok ⟨⟨[.liveU 65, .liveU 66, .liveU 67], .owned⟩, none, []⟩ := by rfl

example : fallibleMapBox { identical := true, zst := false } (testCb 0 .panic) 0
    = .fin .panic ⟨⟨[.moved], .freed⟩, none, [(0, .cb)]⟩ := by rfl

/-- drop glue: with a plain `T` (no destructor) and a drop-recording `U`, only the mapped prefix
    shows in the log — and it must show: a guard that skipped its loops would leak `65`, `66` -/
example : fallibleMapVec { identical := true, zst := false, glueT := false } (testCb 2 .err) [0, 1, 2, 3, 4]
    = .fin .err ⟨⟨[.dropped, .dropped, .moved, .dropped, .dropped], .freed⟩, none,
        [(65, .U), (66, .U)]⟩ := by rfl
example : fallibleMapVec { identical := true, zst := false, glueU := false } (testCb 2 .err) [0, 1, 2, 3, 4]
    = .fin .err ⟨⟨[.dropped, .dropped, .moved, .dropped, .dropped], .freed⟩, none,
        [(2, .cb), (3, .T), (4, .T)]⟩ := by rfl

/-- `ub` is reachable in the model (so `no_ub` says something): with the slot at index 1 handed
    to the callback, the guard with the right `map_in_progress` cleans up, a guard that is one off
    in either direction runs a destructor on the moved-out slot … -/
example : guardDrop { identical := true, zst := false } ⟨3, 1⟩ ⟨[.liveU 65, .moved, .liveT 2], .owned⟩ []
    = .ok (⟨[.dropped, .moved, .dropped], .freed⟩, [(65, .U), (2, .T)]) := by rfl
example : guardDrop { identical := true, zst := false } ⟨3, 0⟩ ⟨[.liveU 65, .moved, .liveT 2], .owned⟩ []
    = .ub "drop_in_place of moved-out slot" := by rfl
example : guardDrop { identical := true, zst := false } ⟨3, 2⟩ ⟨[.liveU 65, .moved, .liveT 2], .owned⟩ []
    = .ub "drop_in_place of moved-out slot" := by rfl
/-- … and running the guard's destructor after `finish` would free twice / drop twice. -/
example : (Region.mk [] .freed).free = .ub "double free" := by rfl
example : dropRange { identical := true, zst := false } .U 1 0 ⟨[.dropped], .owned⟩ [] = .ub "double drop" := by rfl

end Chalk.C27

#print axioms Chalk.C27.cases_exhaustive
#print axioms Chalk.C27.vec_success_no_drop
#print axioms Chalk.C27.vec_each_dropped_once
#print axioms Chalk.C27.vec_each_dropped_once_glue
#print axioms Chalk.C27.vec_drop_log_nodup
#print axioms Chalk.C27.vec_buffer_freed_once
#print axioms Chalk.C27.vec_no_ub
#print axioms Chalk.C27.vec_exit_ok_iff
#print axioms Chalk.C27.box_success_no_drop
#print axioms Chalk.C27.box_each_dropped_once
#print axioms Chalk.C27.box_buffer_freed_once
#print axioms Chalk.C27.box_no_ub
