/-
  C02, the translation of `forall`.  `Sem.Goal` has no `forall` constructor: the harness replaces
  each `forall<T> { G }` by `G` with `T` instantiated by a fresh opaque constant `!f<k>` that occurs
  nowhere in the program, the hypotheses and the goal.  Here this translation is justified against
  the declarative semantics: for positive goals (no `not`), truth for the fresh constant is
  EQUIVALENT to truth for every term (`forall_by_fresh_constant`, one variable;
  `forall_by_fresh_constants`, several variables with any injective naming;
  `forall_by_opaque_constants_B`, the harness's naming `!f<k>` with executable side conditions).
  With negation the equivalence is false (`forall_fails_with_negation`).
  Helpers: `Lemmas/ForallLemmas.lean`, `Lemmas/GenericLemmas.lean`; naming devices of `Props/C01gen.lean`.
-/
import ChalkModel.Lemmas.ForallLemmas
import ChalkModel.Props.C01gen
import Std.Data.String.ToNat

namespace Chalk.C02gen
open Chalk.Sem
open Chalk.C01gen (IsName nameRepl nameRepl_none nameRepl_name cexP cexG cexP_holds_only ex2P ex2G)

/-! ### one quantified variable, one fresh constant -/

/-- the replacement `c ↦ t` -/
def singleRepl (c : String) (t : Tm) : String → Option Tm := fun s => if s = c then some t else none

theorem singleRepl_none (c : String) (t : Tm) (s : String) (h : ¬ (fun s => s = c) s) : singleRepl c t s = none := by
  simp only [singleRepl]
  exact if_neg h

theorem singleRepl_self (c : String) (t : Tm) : singleRepl c t c = some t := by
  simp [singleRepl]

/-- `forall<T> { G }` by a fresh constant: variable 0 of `g` is the quantified one, the other
    variables stay.  If the program, the hypotheses and the goal do not mention the symbol `c` and
    the goal is positive, then the goal holds with `c` for variable 0 iff it holds with every term. -/
theorem forall_by_fresh_constant (P : Program) (Γ : List Atom) (g : Goal) (c : String)
    (hP : P.Avoids (fun s => s = c)) (hΓ : ∀ a ∈ Γ, a.Avoids (fun s => s = c))
    (hg : g.Avoids (fun s => s = c)) (hpos : g.Positive) :
    GHolds P Γ (g.inst (fun i => if i = 0 then .app c .nil else .var i)) ↔
    ∀ t : Tm, GHolds P Γ (g.inst (fun i => if i = 0 then t else .var i)) := by
  constructor
  · intro h t
    have h2 := GHolds.repl_fixed (singleRepl_none c t) hP hΓ hg hpos _ h
    have hfun : (fun i => (if i = 0 then Tm.app c .nil else .var i).repl (singleRepl c t)) =
        (fun i => if i = 0 then t else .var i) := by
      funext i
      by_cases hi : i = 0
      · simp [hi, Tm.repl, singleRepl_self]
      · simp [hi, Tm.repl]
    rw [hfun] at h2
    exact h2
  · intro h
    exact h (.app c .nil)

/-! ### several quantified variables, an injective family of fresh names -/

/-- `forall<T0, …, T(n-1)> { G }` by fresh constants `name 0, …, name (n-1)`: variables `< n` of
    `g` are the quantified ones, the other variables stay. -/
theorem forall_by_fresh_constants (name : Nat → String) (hinj : ∀ i j, name i = name j → i = j) (n : Nat)
    (P : Program) (Γ : List Atom) (g : Goal)
    (hP : P.Avoids (IsName name)) (hΓ : ∀ a ∈ Γ, a.Avoids (IsName name))
    (hg : g.Avoids (IsName name)) (hpos : g.Positive) :
    GHolds P Γ (g.inst (fun i => if i < n then .app (name i) .nil else .var i)) ↔
    ∀ τ : Nat → Tm, GHolds P Γ (g.inst (fun i => if i < n then τ i else .var i)) := by
  constructor
  · intro h τ
    have h2 := GHolds.repl_fixed (nameRepl_none name τ) hP hΓ hg hpos _ h
    have hfun : (fun i => (if i < n then Tm.app (name i) .nil else .var i).repl (nameRepl name τ)) =
        (fun i => if i < n then τ i else .var i) := by
      funext i
      by_cases hi : i < n
      · simp [hi, Tm.repl, nameRepl_name name hinj τ i]
      · simp [hi, Tm.repl]
    rw [hfun] at h2
    exact h2
  · intro h
    exact h (fun i => .app (name i) .nil)

/-! ### the harness's naming `!f<k>` -/

def forallName (k : Nat) : String := "!f" ++ toString k

theorem forallName_injective : ∀ i j, forallName i = forallName j → i = j := by
  intro i j h
  unfold forallName at h
  rw [String.append_right_inj] at h
  exact Nat.repr_injective h

/-- executable: the symbol starts with `!f` -/
def isForallNameB (c : String) : Bool :=
  match c.toList with
  | '!' :: 'f' :: _ => true
  | _ => false

theorem not_isName_of_isForallNameB_false (c : String) (h : (!isForallNameB c) = true) :
    ¬ IsName forallName c := by
  rintro ⟨j, rfl⟩
  simp [isForallNameB, forallName, String.toList_append] at h

/-- executable side conditions: no symbol starting with `!f` occurs -/
def Tm.avoidsForallB (t : Tm) : Bool := t.allSyms (fun c => !isForallNameB c)
def Program.avoidsForallB (P : Program) : Bool := P.allSyms (fun c => !isForallNameB c)
def Goal.avoidsForallB (g : Goal) : Bool := g.allSyms (fun c => !isForallNameB c)
def hypsAvoidForallB (Γ : List Atom) : Bool := hypsAllSyms (fun c => !isForallNameB c) Γ

theorem Tm.avoids_of_avoidsForallB (t : Tm) (h : Tm.avoidsForallB t = true) : t.Avoids (IsName forallName) :=
  Tm.avoids_of_allSyms not_isName_of_isForallNameB_false t h
theorem Program.avoids_of_avoidsForallB (P : Program) (h : Program.avoidsForallB P = true) :
    P.Avoids (IsName forallName) :=
  Program.avoids_of_allSyms not_isName_of_isForallNameB_false P h
theorem Goal.avoids_of_avoidsForallB (g : Goal) (h : Goal.avoidsForallB g = true) :
    g.Avoids (IsName forallName) :=
  Goal.avoids_of_allSyms not_isName_of_isForallNameB_false g h
theorem hyps_avoid_of_avoidForallB (Γ : List Atom) (h : hypsAvoidForallB Γ = true) :
    ∀ a ∈ Γ, a.Avoids (IsName forallName) :=
  hyps_avoid_of_allSyms not_isName_of_isForallNameB_false Γ h

/-- The harness's translation of `forall` (Prop side conditions). -/
theorem forall_by_opaque_constants (n : Nat) (P : Program) (Γ : List Atom) (g : Goal)
    (hP : P.Avoids (IsName forallName)) (hΓ : ∀ a ∈ Γ, a.Avoids (IsName forallName))
    (hg : g.Avoids (IsName forallName)) (hpos : g.Positive) :
    GHolds P Γ (g.inst (fun i => if i < n then .app (forallName i) .nil else .var i)) ↔
    ∀ τ : Nat → Tm, GHolds P Γ (g.inst (fun i => if i < n then τ i else .var i)) :=
  forall_by_fresh_constants forallName forallName_injective n P Γ g hP hΓ hg hpos

/-- The harness's translation of `forall`, executable side conditions: program, hypotheses and goal
    mention no symbol starting with `!f`, the goal has no `not`.  Then the goal with its variables
    `< n` replaced by `!f0 … !f(n-1)` holds iff it holds with them replaced by arbitrary terms. -/
theorem forall_by_opaque_constants_B (n : Nat) (P : Program) (Γ : List Atom) (g : Goal)
    (hP : Program.avoidsForallB P = true) (hΓ : hypsAvoidForallB Γ = true)
    (hg : Goal.avoidsForallB g = true) (hpos : g.positiveB = true) :
    GHolds P Γ (g.inst (fun i => if i < n then .app (forallName i) .nil else .var i)) ↔
    ∀ τ : Nat → Tm, GHolds P Γ (g.inst (fun i => if i < n then τ i else .var i)) :=
  forall_by_opaque_constants n P Γ g (Program.avoids_of_avoidsForallB P hP) (hyps_avoid_of_avoidForallB Γ hΓ)
    (Goal.avoids_of_avoidsForallB g hg) ((Goal.positive_iff_positiveB g).mpr hpos)

/-! ### the restriction to positive goals is necessary -/

theorem cexP_Foo_u32 : Holds cexP [] ⟨"Foo", .cons (.app "u32" .nil) .nil⟩ := by
  apply Holds.closed
  refine Or.inr (Or.inr ⟨rfl, _, List.mem_singleton.mpr rfl, fun i => .var i, rfl, ?_⟩)
  intro b hb
  cases hb

/-- With negation the translation is wrong: program `Foo(u32).`, goal `not Foo(x0)`, i.e.
    `forall<T> { not { T: Foo } }`.  All other side conditions hold; the goal holds for the fresh
    constant `!f0` and fails for `x0 := u32`. -/
theorem forall_fails_with_negation :
    Program.avoidsForallB cexP = true ∧ hypsAvoidForallB [] = true ∧ Goal.avoidsForallB cexG = true ∧
    cexG.positiveB = false ∧
    GHolds cexP [] (cexG.inst (fun i => if i < 1 then .app (forallName i) .nil else .var i)) ∧
    ¬ GHolds cexP [] (cexG.inst (fun i => if i < 1 then (fun _ => Tm.app "u32" .nil) i else .var i)) ∧
    ¬ ∀ τ : Nat → Tm, GHolds cexP [] (cexG.inst (fun i => if i < 1 then τ i else .var i)) := by
  have hno : ¬ GHolds cexP [] (cexG.inst (fun i => if i < 1 then (fun _ => Tm.app "u32" .nil) i else .var i)) := by
    intro hn
    exact hn cexP_Foo_u32
  refine ⟨by decide, by decide, by decide, rfl, ?_, hno, fun hall => hno (hall _)⟩
  intro hh
  have := cexP_holds_only _ hh
  simp only [Atom.inst, Tms.inst, Tm.inst, Atom.mk.injEq, Tms.cons.injEq, true_and, and_true] at this
  exact absurd this (by decide)

/-- the same in the shape of `forall_by_fresh_constant` (one constant `c = "!f0"`, Prop side
    conditions): the iff fails. -/
theorem forall_fails_with_negation_single :
    cexP.Avoids (fun s => s = "!f0") ∧ (∀ a ∈ ([] : List Atom), a.Avoids (fun s => s = "!f0")) ∧
    cexG.Avoids (fun s => s = "!f0") ∧ ¬ cexG.Positive ∧
    ¬ (GHolds cexP [] (cexG.inst (fun i => if i = 0 then .app "!f0" .nil else .var i)) ↔
       ∀ t : Tm, GHolds cexP [] (cexG.inst (fun i => if i = 0 then t else .var i))) := by
  refine ⟨?_, by simp, ?_, fun h => h, ?_⟩
  · intro c hc
    simp only [cexP, List.mem_singleton] at hc
    subst hc
    refine ⟨?_, fun b hb => nomatch hb⟩
    simp only [Atom.Avoids, Tms.Avoids, Tm.Avoids, and_true]
    decide
  · simp [cexG, Goal.Avoids, Atom.Avoids, Tms.Avoids, Tm.Avoids]
  · intro hiff
    have hc : GHolds cexP [] (cexG.inst (fun i => if i = 0 then .app "!f0" .nil else .var i)) := by
      intro hh
      have := cexP_holds_only _ hh
      simp only [Atom.inst, Tms.inst, Tm.inst, Atom.mk.injEq, Tms.cons.injEq, true_and, and_true] at this
      exact absurd this (by decide)
    exact hiff.mp hc (.app "u32" .nil) cexP_Foo_u32

/-! ### non-vacuity: `forall<T> { if (T: Foo) { Vec<T>: Foo } }`
    program `Foo(Vec(x)) :- Foo(x).  Foo(u32).` (`ex2P`), translated goal `ex2G` of C01gen -/

example : Program.avoidsForallB ex2P = true ∧ hypsAvoidForallB [] = true ∧ Goal.avoidsForallB ex2G = true ∧
    ex2G.positiveB = true := by decide

/-- the translated goal holds for the fresh constant `!f0` (certified evaluator, fixed-point lemmas) -/
theorem ex2_holds_fresh :
    GHolds ex2P [] (ex2G.inst (fun i => if i < 1 then .app (forallName i) .nil else .var i)) :=
  (evalGoal_sound ex2P 4 _ []).1 rfl

/-- hence, through `forall_by_opaque_constants_B`, for every term `t` -/
theorem ex2_holds_every (t : Tm) :
    GHolds ex2P [⟨"Foo", .cons t .nil⟩] (.atom ⟨"Foo", .cons (.app "Vec" (.cons t .nil)) .nil⟩) :=
  (forall_by_opaque_constants_B 1 ex2P [] ex2G (by decide) (by decide) (by decide) (by decide)).mp
    ex2_holds_fresh (fun _ => t)

example : ∀ t : Tm,
    GHolds ex2P [⟨"Foo", .cons t .nil⟩] (.atom ⟨"Foo", .cons (.app "Vec" (.cons t .nil)) .nil⟩) :=
  ex2_holds_every

/-- and in the single-constant shape of `forall_by_fresh_constant`, directly from the semantics -/
example : ∀ t : Tm,
    GHolds ex2P [⟨"Foo", .cons t .nil⟩] (.atom ⟨"Foo", .cons (.app "Vec" (.cons t .nil)) .nil⟩) := by
  have hP : ex2P.Avoids (fun s => s = "!f0") :=
    Program.avoids_of_allSyms (p := fun c => c != "!f0") (fun c hc => by simpa using hc) ex2P (by decide)
  have hg : ex2G.Avoids (fun s => s = "!f0") :=
    Goal.avoids_of_allSyms (p := fun c => c != "!f0") (fun c hc => by simpa using hc) ex2G (by decide)
  have h0 : GHolds ex2P [] (ex2G.inst (fun i => if i = 0 then .app "!f0" .nil else .var i)) := by
    show Holds ex2P _ _
    apply Holds.closed
    refine Or.inr (Or.inr ⟨rfl, _, List.mem_cons_self .., fun _ => .app "!f0" .nil, rfl, ?_⟩)
    intro b hb
    simp only [List.mem_singleton] at hb
    subst hb
    exact Holds.closed (Or.inl (List.mem_cons_self ..))
  exact fun t => (forall_by_fresh_constant ex2P [] ex2G "!f0" hP (by simp) hg trivial).mp h0 t

end Chalk.C02gen

#print axioms Chalk.Sem.Tm.repl_of_avoids
#print axioms Chalk.Sem.Tms.repl_of_avoids
#print axioms Chalk.Sem.Atom.repl_of_avoids
#print axioms Chalk.Sem.map_repl_of_avoids
#print axioms Chalk.Sem.GHolds.repl_fixed
#print axioms Chalk.Sem.hyps_avoid_of_allSyms
#print axioms Chalk.C02gen.singleRepl_none
#print axioms Chalk.C02gen.singleRepl_self
#print axioms Chalk.C02gen.forall_by_fresh_constant
#print axioms Chalk.C02gen.forall_by_fresh_constants
#print axioms Chalk.C02gen.forallName_injective
#print axioms Chalk.C02gen.not_isName_of_isForallNameB_false
#print axioms Chalk.C02gen.Tm.avoids_of_avoidsForallB
#print axioms Chalk.C02gen.Program.avoids_of_avoidsForallB
#print axioms Chalk.C02gen.Goal.avoids_of_avoidsForallB
#print axioms Chalk.C02gen.hyps_avoid_of_avoidForallB
#print axioms Chalk.C02gen.forall_by_opaque_constants
#print axioms Chalk.C02gen.forall_by_opaque_constants_B
#print axioms Chalk.C02gen.cexP_Foo_u32
#print axioms Chalk.C02gen.forall_fails_with_negation
#print axioms Chalk.C02gen.forall_fails_with_negation_single
#print axioms Chalk.C02gen.ex2_holds_fresh
#print axioms Chalk.C02gen.ex2_holds_every
